"""C15 — line, plane, sphere, triangle primitives (T-route + measured rounding residue on lattice configurations)."""
import os, re
import lib, troute

PROPS = "ImathVerif.Props.C15"
IMPORTS = ["ImathVerif.Spec.GeoSpec", "ImathVerif.Gen.C15Line", "ImathVerif.Gen.C15Plane", "ImathVerif.Gen.C15PlaneMul",
           "ImathVerif.Gen.C15Sphere", "ImathVerif.Gen.C15Algo"]

# theorem of Props/C15.lean -> functions of the residue harness that exercise it (the harness compares the REAL code with
# an independent exact oracle, so it is the failing-input finder for theorems with hypotheses)
THEOREM_FUNCS = {
    "Line3_set": ["Line3.set"], "Line3_set_degenerate": ["Line3.set"], "Line3_ctor": ["Line3.set"], "Line3_eval": ["Line3.eval"],
    "Line3_closestPointToPoint_def": ["Line3.closestPointToPoint"], "Line3_closestPointToPoint": ["Line3.closestPointToPoint"],
    "Line3_closestPointToPoint_perp": ["Line3.closestPointToPoint"],
    "Line3_distanceToPoint": ["Line3.distanceToPoint", "Line3.closestPointToPoint"],
    "Line3_closestPointToLine": ["Line3.closestPointToLine"],
    "closestPoints_cases": ["LineAlgo.closestPoints"], "LineAlgo_closestPoints": ["LineAlgo.closestPoints"],
    "LineAlgo_closestPoints_no_div_by_zero": ["LineAlgo.closestPoints"],
    "Line3_distanceToLine": ["Line3.distanceToLine"], "Line3_distanceToLine_perpendicular": ["Line3.distanceToLine"],
    "Line3_distanceToLine_witness_skew": ["Line3.distanceToLine"], "Line3_distanceToLine_witness_parallel": ["Line3.distanceToLine"],
    "Plane3_setPoints": ["Plane3.setPoints", "Plane3.distanceTo"], "Plane3_setPoints_degenerate": ["Plane3.setPoints"],
    "Plane3_ctorPoints": ["Plane3.setPoints"], "Plane3_setPointNormal": ["Plane3.setPointNormal"],
    "Plane3_ctorPointNormal": ["Plane3.setPointNormal"], "Plane3_setNormalDistance": ["Plane3.setNormalDistance"],
    "Plane3_ctorNormalDistance": ["Plane3.setNormalDistance"], "Plane3_distanceTo": ["Plane3.distanceTo"],
    "Plane3_reflectPoint": ["Plane3.reflectPoint"], "Plane3_reflectVector": ["Plane3.reflectVector"],
    "Plane3_intersectT": ["Plane3.intersectT"], "Plane3_intersect": ["Plane3.intersect", "Plane3.intersectT"], "Plane3_neg": ["Plane3.neg"],
    "Plane3_mulM44_cases": ["Plane3.mulM44"], "Plane3_mulM44": ["Plane3.mulM44"], "Plane3_mulM44_contains": ["Plane3.mulM44"],
    "Plane3_mulM44_sides": ["Plane3.mulM44"],
    "Sphere3_intersectT": ["Sphere3.intersectT"], "Sphere3_intersect": ["Sphere3.intersect", "Sphere3.intersectT"],
    "Sphere3_circumscribe": ["Sphere3.circumscribe"],
    "tri_spec": ["LineAlgo.intersect"], "tri_facts": ["LineAlgo.intersect"], "LineAlgo_intersect_sound": ["LineAlgo.intersect"],
    "LineAlgo_intersect_complete": ["LineAlgo.intersect"], "LineAlgo_intersect_degenerate": ["LineAlgo.intersect"],
    "LineAlgo_closestVertex": ["LineAlgo.closestVertex"], "LineAlgo_rotatePoint": ["LineAlgo.rotatePoint"],
    "LineAlgo_rotatePoint_circle": ["LineAlgo.rotatePoint"],
}
for _n in ("2", "3", "4"):
    for _f in ("project", "orthogonal", "reflect", "closestVertex"):
        THEOREM_FUNCS["VecAlgo%s_%s" % (_n, _f)] = ["VecAlgo%s.%s" % (_n, _f)] + (["VecAlgo%s.project" % _n] if _f != "closestVertex" else [])

# theorems added by the audit follow-up: exported case analyses (no unit-direction hypotheses), "no division by zero" from the guard,
# projective / singular `plane * M`, compositions with the independent vocabulary, out-of-domain witnesses, pinned full statements
# (`*_pinned`: the headline statements written out a second time, so that a weakened theorem no longer proves its pinned copy) and
# joint instantiations over the reals (`*_real_instance`)
THEOREM_FUNCS.update({
    "Line3_mulM44_def": ["Line3.mulM44"], "Line3_mulM44": ["Line3.mulM44"],
    "cpDen_stored_parallel": ["LineAlgo.closestPoints"],
    "closestPointToLine_cases": ["Line3.closestPointToLine"], "cpl_guard_den_ne_zero": ["Line3.closestPointToLine"],
    "Line3_closestPointToLine_no_div_by_zero": ["Line3.closestPointToLine"],
    "Plane3_mulM44_projective": ["Plane3.mulM44"], "Plane3_mulM44_projective_contains": ["Plane3.mulM44"],
    "Plane3_mulM44_projective_iff": ["Plane3.mulM44"], "Plane3_mulM44_singular": ["Plane3.mulM44"], "Plane3_mulM44_collapse": ["Plane3.mulM44"],
    "affine_MulM44Defined": ["Plane3.mulM44"],
    "Sphere3_intersectT_cases": ["Sphere3.intersectT"], "Sphere3_intersectT_zero_dir": ["Sphere3.intersectT"],
    "Sphere3_intersectT_nonunit_witness": ["Sphere3.intersectT"], "Sphere3_intersect_geo": ["Sphere3.intersect", "Sphere3.intersectT"],
    "LineAlgo_closestVertex_geo": ["LineAlgo.closestVertex", "Line3.closestPointToPoint"], "LineAlgo_rotatePoint_geo": ["LineAlgo.rotatePoint"],
    "Plane3_reflectVector_keeps_normal_component_witness": ["Plane3.reflectVector"], "Plane3_reflectVector_negates_normal_component_iff": ["Plane3.reflectVector"],
    "VecAlgo3_reflect_negative_of_documented_witness": ["VecAlgo3.reflect"],
    "Sphere3_intersectT_real_instance": ["Sphere3.intersectT"], "LineAlgo_intersect_real_instance": ["LineAlgo.intersect"],
    "Plane3_mulM44_real_instance": ["Plane3.mulM44"], "Plane3_mulM44_projective_real_instance": ["Plane3.mulM44"],
})
PINNED = {"Line3_set": ["Line3.set"], "Line3_closestPointToPoint": ["Line3.closestPointToPoint"], "Line3_distanceToPoint": ["Line3.distanceToPoint"],
          "Line3_closestPointToLine": ["Line3.closestPointToLine"], "LineAlgo_closestPoints": ["LineAlgo.closestPoints"],
          "Line3_distanceToLine": ["Line3.distanceToLine"], "Plane3_setPoints": ["Plane3.setPoints"], "Plane3_setPointNormal": ["Plane3.setPointNormal"],
          "Plane3_setNormalDistance": ["Plane3.setNormalDistance"], "Plane3_reflectPoint": ["Plane3.reflectPoint"],
          "Plane3_reflectVector": ["Plane3.reflectVector"], "Plane3_intersectT": ["Plane3.intersectT"], "Plane3_mulM44": ["Plane3.mulM44"],
          "Plane3_mulM44_projective": ["Plane3.mulM44"], "Sphere3_intersectT": ["Sphere3.intersectT"], "Sphere3_circumscribe": ["Sphere3.circumscribe"],
          "LineAlgo_intersect_sound": ["LineAlgo.intersect"], "LineAlgo_intersect_complete": ["LineAlgo.intersect"]}
for _n, _f in PINNED.items():
    THEOREM_FUNCS[_n + "_pinned"] = _f
# every theorem of Props/C15.lean is REQUIRED: a theorem deleted during a proof repair is reported as `missing:<name>`
REQUIRED = sorted(THEOREM_FUNCS) + ["V3_length_LenSpec", "V2_length_LenSpec", "V4_length_LenSpec", "sphere_quadratic", "numA_of_bary"]

# the theorem that carries a function's failures when they are reported by the residue harness alone
FUNC_THEOREM = {"Line3.distanceToLine": "Line3_distanceToLine"}

WITNESS = r'''
import ImathVerif.Gen.C15Line
open ImathVerif
def rsqrt (x : Rat) : Rat := (Nat.sqrt x.num.natAbs : Rat) / (Nat.sqrt x.den : Rat)
/-- the inputs on which the code was wrong before /repo commit 0d82c71 (it returned 4/5 and 0), a perpendicular pair and
a 3-4-5 skew pair; true distances 1, 2, 3, 1 -/
def l1 : Line3 Rat := ⟨⟨0, 0, 0⟩, ⟨1, 0, 0⟩⟩
def l2 : Line3 Rat := ⟨⟨0, 0, 1⟩, ⟨3 / 5, 4 / 5, 0⟩⟩
def m2 : Line3 Rat := ⟨⟨0, 2, 0⟩, ⟨1, 0, 0⟩⟩
def p2 : Line3 Rat := ⟨⟨5, 7, 3⟩, ⟨0, 1, 0⟩⟩
def q2 : Line3 Rat := ⟨⟨2, 2, 1⟩, ⟨-4 / 5, 3 / 5, 0⟩⟩
def D (a b : Line3 Rat) : Rat := by
  first
    | exact Gen.Line3.distanceToLine ((1 : Rat) / 1024) (1048576 : Rat) rsqrt a b
    | exact Gen.Line3.distanceToLine ((1 : Rat) / 1024) rsqrt a b
    | exact Gen.Line3.distanceToLine rsqrt a b
    | exact Gen.Line3.distanceToLine a b
#eval IO.println s!"WITNESS {D l1 l2} {D l1 m2} {D l1 p2} {D l1 q2}"
'''
WITNESS_EXPECT = ["1", "2", "3", "1"]
WITNESS_INPUTS = [("skew 3-4-5 (old code: 4/5)", ["0", "0", "0", "1", "0", "0", "0", "0", "1", "0.6", "0.8", "0"]),
                  ("parallel (old code: 0)", ["0", "0", "0", "1", "0", "0", "0", "2", "0", "1", "0", "0"]),
                  ("perpendicular", ["0", "0", "0", "1", "0", "0", "5", "7", "3", "0", "1", "0"]),
                  ("skew 3-4-5 rotated", ["0", "0", "0", "1", "0", "0", "2", "2", "1", "-0.8", "0.6", "0"])]


def run_residue(chk, binary, n):
    rc, out = lib.sh([binary, str(chk.seed), str(n)], timeout=1800)
    m = re.search(r"C15-RESIDUE evals=(\d+) failures=(\d+)(.*)", out)
    fails = {}
    for l in out.split("\n"):
        mm = re.match(r"C15-FAIL (\S+) (\S+) T=(\S+) (.*?) in=(.*)", l)
        if mm:
            fails.setdefault(mm.group(1), []).append({"function": mm.group(1), "class": mm.group(2), "element_type": mm.group(3),
                                                      "detail": mm.group(4), "input": mm.group(5).split()})
    info = {"ran": rc in (0, 1) and m is not None, "fails": fails, "output_tail": out[-1500:]}
    if m:
        info["evals"] = int(m.group(1))
        info["maxima"] = dict((k, float(v)) for k, v in re.findall(r"max\[([^\]]+)\]=(\S+)", m.group(3)))
        info["counts"] = dict((k, int(v)) for k, v in re.findall(r"count\[([^\]]+)\]=(\d+)", m.group(3)))
    return info


PARALLEL_KEY = "closestPoints:exactly-parallel-reported-true"
# lattice lines that are parallel, whose two normalised directions differ in the last place: distanceTo(line) takes the skew branch and
# divides an eps-sized triple product by the eps-sized |d1 x d2| (sibling of the finding above; judged against the lattice answer)
DIFFER_KEY = "distanceToLine:parallel-in-lattice-directions-differ-by-rounding"
# the open finding PARALLEL_KEY must not hide a regression: share of bitwise-parallel pairs reported `true` (clean tree, seeds 1-3,
# n = 1500 / 6000: 0.38 .. 0.55)
PARALLEL_TRUE_SHARE_MAX = 0.70
# lattice line parallel to a lattice plane at distance h > 0: Plane3::intersectT answers true when normal.dir of the two rounded unit vectors
# is rounding noise instead of 0; the "hit" is ~h/eps away and on neither (third member of the family; judged, was only counted)
PLANE_PARALLEL_KEY = "intersectT:lattice-parallel-line-reported-hit"
# open findings must not hide a regression: (counter of failures, counter of cases, ceiling of the share, floor of cases) per element type.
# clean tree, seeds 1-6 (n = 1500) and 1-3 (n = 6000): closestPoints 0.38..0.55; distanceTo wrong 0.26..0.37 (double), 0.64..0.81 (float);
# intersectT true 0.07..0.30
SHARE_BOUNDS = {
    "distanceTo(line) wrong on lattice-parallel pairs whose directions differ by rounding":
        ("parallel_differ_by_rounding_distance:%s:wrong", "parallel_in_lattice_but_directions_differ_by_rounding:%s", {"double": 0.65, "float": 0.95}, 15,
         "residue:Line3.distanceToLine:differ-by-rounding-wrong-share"),
    "Plane3::intersectT true for a lattice line parallel to the plane at distance > 0":
        ("plane_line_parallel_off_plane_reported_hit:%s", "plane_line_parallel_off_plane:%s", {"double": 0.55, "float": 0.55}, 8,
         "residue:Plane3.intersectT:lattice-parallel-true-share"),
}
# counted-not-judged decisions next to an edge / a parallel plane: ceilings on the share that disagrees with the lattice answer
# (clean tree: near-edge differ 0.31..0.40; line (nearly) parallel to the triangle's plane reported hit 0.02..0.08)
COUNT_SHARES = {
    "triangle decisions within c*eps of an edge that differ from the lattice answer":
        (["triangle_near_edge:%s:differ"], ["triangle_near_edge:%s:differ", "triangle_near_edge:%s:agree"], 0.60, 100, True),
    "line (nearly) parallel to the triangle's plane reported as hit":
        (["triangle_line_parallel_to_plane:reported_hit"], ["triangle_line_parallel_to_plane:reported_hit", "triangle_line_parallel_to_plane:reported_miss"], 0.25, 20, False),
}
# DRIFT: the error bounds of the harness (c*eps*scale*cond with c = 4..64) are 10-300x the clean-tree maxima; an accuracy regression of one
# or two digits would pass them.  Ceilings = 4 x the largest value observed on the clean tree (seeds 1-6 at n = 1500, 1-3 at n = 6000),
# in the same unit (error / (eps*scale*cond)), per function and element type.
DRIFT = {
    "Line3.closestPointToLine:double": 5.8, "Line3.closestPointToLine:float": 6.9, "Line3.closestPointToPoint:double": 2.7,
    "Line3.closestPointToPoint:float": 2.9, "Line3.distanceToLine:double": 1.3, "Line3.distanceToLine:float": 1.5,
    "Line3.distanceToLine:translation-invariant:double": 4.6, "Line3.distanceToLine:translation-invariant:float": 4.2,
    "Line3.distanceToPoint:double": 1.8, "Line3.distanceToPoint:float": 1.9, "Line3.eval:double": 2.5, "Line3.eval:float": 2.7,
    "Line3.mulM44:double": 4.6, "Line3.mulM44:float": 4.4, "Line3.set:double": 3.1, "Line3.set:float": 2.9, "LineAlgo.closestPoints:double": 5.8,
    "LineAlgo.closestPoints:float": 6.9, "LineAlgo.intersect:double": 2.4, "LineAlgo.intersect:float": 2.1, "LineAlgo.rotatePoint:double": 5,
    "LineAlgo.rotatePoint:float": 4.4, "Plane3.distanceTo:double": 1.9, "Plane3.distanceTo:float": 2.5, "Plane3.intersect:double": 2.4,
    "Plane3.intersect:float": 2.7, "Plane3.intersectT:double": 2.4, "Plane3.intersectT:float": 2.4, "Plane3.mulM44:double": 4.5,
    "Plane3.mulM44:float": 5, "Plane3.neg:double": 3.5, "Plane3.neg:float": 3.6, "Plane3.reflectPoint:double": 15, "Plane3.reflectPoint:float": 14,
    "Plane3.reflectVector:double": 17, "Plane3.reflectVector:float": 17, "Plane3.setNormalDistance:double": 3.1, "Plane3.setNormalDistance:float": 3,
    "Plane3.setPointNormal:double": 3.1, "Plane3.setPointNormal:float": 3, "Plane3.setPoints:double": 3.1, "Plane3.setPoints:float": 3,
    "Sphere3.circumscribe:double": 1.5, "Sphere3.circumscribe:float": 1.4, "Sphere3.intersect:double": 6, "Sphere3.intersect:float": 6.8,
    "Sphere3.intersectT:double": 8.3, "Sphere3.intersectT:float": 7.9, "VecAlgo2.orthogonal:double": 5.4, "VecAlgo2.orthogonal:float": 8,
    "VecAlgo2.project:double": 5.4, "VecAlgo2.project:float": 8, "VecAlgo2.reflect:double": 11, "VecAlgo2.reflect:float": 16,
    "VecAlgo3.orthogonal:double": 12, "VecAlgo3.orthogonal:float": 12, "VecAlgo3.project:double": 12, "VecAlgo3.project:float": 12,
    "VecAlgo3.reflect:double": 24, "VecAlgo3.reflect:float": 23, "VecAlgo4.orthogonal:double": 13, "VecAlgo4.orthogonal:float": 12,
    "VecAlgo4.project:double": 13, "VecAlgo4.project:float": 12, "VecAlgo4.reflect:double": 25, "VecAlgo4.reflect:float": 24,
}
# the "scaled" class of project / orthogonal / reflect (s times an exact power of two, |s|^2 outside the normal range): scale invariance makes its
# clean-tree maxima those of the lattice class
DRIFT.update({k.replace(":double", ":scaled:double").replace(":float", ":scaled:float"): v for k, v in list(DRIFT.items())
              if k.startswith("VecAlgo") and (".project:" in k or ".orthogonal:" in k or ".reflect:" in k)})


def parallel_repro(binary, idx_deps):
    """fixed concrete instance: l1 = Line3d((0,0,0),(1,0,1)), l2 = Line3d((1,0,0),(2,0,1)); both stored directions are the
    same doubles (1/sqrt2, 0, 1/sqrt2) but fl(dir.dir) = 1 - 2^-52, so 1 - (d1.d2)^2 = 4.4e-16 instead of 0 and the code divides"""
    import math
    c = 1.0 / math.sqrt(2.0)
    out = {"concrete_input": "closestPoints(Line3d(V3d(0,0,0),V3d(1,0,1)), Line3d(V3d(1,0,0),V3d(2,0,1)), p1, p2): stored directions bitwise equal "
                             "(0.70710678118654746,0,0.70710678118654746); returns true, p1=(0.176777,0,0.176777), p2=(0.823223,0,-0.176777), "
                             "|p1-p2|=0.736813, true distance 0.707107 (any point pair on a common perpendicular)",
           "reading": "d1.d2 is computed as fl(dir.dir) = 0.99999999999999978, so d = 1 - d1d2^2 = 4.4e-16 is not 0 and the guard (which only "
                      "tests overflow of n/d) passes: parallel lines AS REPRESENTED are not reported and the returned points are not closest"}
    if binary:
        cmd = [binary, "real", "LineAlgo.closestPoints", "0", "0", "0", repr(c), "0", repr(c), "1", "0", "0", repr(c), "0", repr(c)]
        for d in idx_deps:
            cmd += ["--idx", d]
        rc, o = lib.sh(cmd, timeout=120)
        out["real_code_at_double"] = o.strip().split("\n")[-1] if o.strip() else None
    return out


REFLECTVECTOR_KEY = "reflectVector:normal-component-kept-not-negated"
REFLECT_KEY = "VecAlgo.reflect:returns-negative-of-documented-reflection"


def property_text_obligations(chk, binary, idx_deps):
    """The property's WORDING tested literally on the real code, for the two places where the code follows the opposite sign
    convention (recorded deviations; the theorems Plane3_reflectVector / VecAlgo?_reflect state what the code does, the witnesses
    Plane3_reflectVector_keeps_normal_component_witness / VecAlgo3_reflect_negative_of_documented_witness prove the negation):
    "reflectPoint/reflectVector are involutions that negate signed distance", and ImathVecAlgo.h's own definition of reflect(s,t)
    as the direction of the ray s after reflection off a plane with normal t."""
    def real(fn, args):
        cmd = [binary, "real", fn] + args
        for d in idx_deps:
            cmd += ["--idx", d]
        rc, o = lib.sh(cmd, timeout=120)
        m = re.search(r"REAL \S+ exc=- vals=([^=]*) ints=", o)
        return [float(x) for x in m.group(1).split()] if m else None
    got = real("Plane3.reflectVector", ["0", "0", "1", "0", "1", "2", "3"])
    name = "propertytext:reflectVector negates the signed distance n.v: n.reflectVector(v) = -(n.v) on the real code (plane normal (0,0,1), v = (1,2,3))"
    ok = got is not None and len(got) == 3 and got[2] == -3.0
    chk.oblige(name, "correspondence", ok, None if ok else {"real_code": got, "mirror_image_required_by_the_text": [1.0, 2.0, -3.0]})
    if not ok:
        chk.fail(name, REFLECTVECTOR_KEY,
                 "Plane3::reflectVector keeps the normal component instead of negating it: Plane3d(V3d(0,0,1),0).reflectVector(V3d(1,2,3)) = %s, "
                 "n.v' = +3 = n.v; the mirror image in the plane (normal component negated, as the property text says) is (1,2,-3). The code is "
                 "v' = 2(n.v)n - v, the negative of the mirror image" % (got,),
                 {"real_code_at_double": got, "input": {"plane": [0, 0, 1, 0], "v": [1, 2, 3]}, "required_by_property_text": [1, 2, -3],
                  "theorems": ["Plane3_reflectVector (what the code does)", "Plane3_reflectVector_keeps_normal_component_witness (negation of the text's claim)",
                               "Plane3_reflectVector_negates_normal_component_iff"]}, True)
    got3 = real("VecAlgo3.reflect", ["1", "2", "3", "0", "0", "1"])
    got2 = real("VecAlgo2.reflect", ["1", "2", "0", "1"])
    got4 = real("VecAlgo4.reflect", ["1", "2", "3", "4", "0", "0", "0", "1"])
    name2 = "propertytext:reflect(s,t) = the ray s after reflection off a plane with normal t (ImathVecAlgo.h): s - 2 proj_t(s), on the real code (s = (1,2,3), t = (0,0,1))"
    ok2 = got3 == [1.0, 2.0, -3.0] and got2 == [1.0, -2.0] and got4 == [1.0, 2.0, 3.0, -4.0]
    chk.oblige(name2, "correspondence", ok2, None if ok2 else {"real_code_V3": got3, "documented": [1.0, 2.0, -3.0]})
    if not ok2:
        chk.fail(name2, REFLECT_KEY,
                 "reflect(s,t) returns the negative of the reflection its header comment defines: reflect(V3d(1,2,3), V3d(0,0,1)) = %s; the ray s after "
                 "reflection off the plane with normal t is s - 2 proj_t(s) = (1,2,-3). The code is 2 proj_t(s) - s (same for Vec2 and Vec4)" % (got3,),
                 {"real_code_at_double": {"V3 s=(1,2,3) t=(0,0,1)": got3, "V2 s=(1,2) t=(0,1)": got2, "V4 s=(1,2,3,4) t=(0,0,0,1)": got4},
                  "documented_by_the_header_comment": {"V3": [1, 2, -3], "V2": [1, -2], "V4": [1, 2, 3, -4]},
                  "theorems": ["VecAlgo2/3/4_reflect (what the code does)", "VecAlgo3_reflect_negative_of_documented_witness (negation)"]}, True)


def plane_parallel_repro(binary, idx_deps):
    """fixed concrete instance: the plane through (0,0,-2) with normal (12,6,-12) (unit normal (2,1,-2)/3) and the line through (-1,-4,-4) and
    (2,0,1) (direction (3,4,5)/sqrt 50): normal.direction = (6+4-10)/(3 sqrt 50) = 0, the line runs parallel to the plane at distance 2/3"""
    import math
    out = {"concrete_input": "Plane3d(V3d(0,0,-2), V3d(12,6,-12)).intersectT(Line3d(V3d(-1,-4,-4), V3d(2,0,1)), t): the line is parallel to the plane at distance 2/3 "
                             "((2,1,-2).(3,4,5) = 0); returns true with t = 1.2e16",
           "reading": "normal ^ line.dir of the two rounded unit vectors is 5.6e-17 instead of 0, so `if (d == 0) return false` is not taken and t = -(normal^pos - distance)/d "
                      "is the distance divided by rounding noise; the point pos + t*dir is 1e16 away and on neither the line's lattice points nor the plane "
                      "(property: line-plane intersections lie on both). As with the two line findings the REPRESENTED objects are not exactly parallel"}
    if binary:
        n = [12.0 / 18.0, 6.0 / 18.0, -12.0 / 18.0]
        dist = n[0] * 0.0 + n[1] * 0.0 + n[2] * -2.0
        l = math.sqrt(50.0)
        cmd = [binary, "real", "Plane3.intersectT"] + [repr(x) for x in n] + [repr(dist), "-1", "-4", "-4"] + [repr(x / l) for x in (3.0, 4.0, 5.0)]
        for d in idx_deps:
            cmd += ["--idx", d]
        rc, o = lib.sh(cmd, timeout=120)
        out["real_code_at_double_on_the_stored_values"] = o.strip().split("\n")[-1] if o.strip() else None
    return out


def differ_repro(binary, idx_deps):
    """fixed concrete instance: Line3d((4,2,-1),(0,-1,2)) and Line3d((-1,4,0),(-13,-5,9)) are parallel in the lattice (directions
    (-4,-3,3) and 3*(-4,-3,3)); the two normalised directions differ in the last place of a component"""
    out = {"concrete_input": "Line3d(V3d(4,2,-1),V3d(0,-1,2)).distanceTo(Line3d(V3d(-1,4,0),V3d(-13,-5,9))): the lattice lines are parallel (second direction = 3 x first), "
                             "distance 4.63680925; the code returns 2.12132034",
           "reading": "normalize() of (-4,-3,3) and of (-12,-9,9) give directions that differ by one ulp in a component, so |d1 x d2| is ~1e-16 instead of 0, the "
                      "`l == 0` test for parallel lines fails and (n . w) / l divides rounding noise by rounding noise: any value in [0, |w|] can come out. The "
                      "represented lines are not exactly parallel, so this is ill-conditioning rather than a wrong formula; a caller who builds parallel lines from "
                      "points gets a wrong distance in ~30 % (double) / ~70 % (float) of the pairs whose directions do not round identically"}
    if binary:
        import math
        def unit(v):
            l = math.sqrt(sum(x * x for x in v))
            return [x / l for x in v]
        d1, d2 = unit([-4.0, -3.0, 3.0]), unit([-12.0, -9.0, 9.0])
        cmd = [binary, "real", "Line3.distanceToLine", "4", "2", "-1"] + [repr(x) for x in d1] + ["-1", "4", "0"] + [repr(x) for x in d2]
        for d in idx_deps:
            cmd += ["--idx", d]
        rc, o = lib.sh(cmd, timeout=120)
        out["real_code_at_double_with_python_normalised_directions"] = o.strip().split("\n")[-1] if o.strip() else None
    return out


_WITNESS_CACHE = {}


def distance_witness(chk, binary, idx_deps):
    if "w" not in _WITNESS_CACHE:
        _WITNESS_CACHE["w"] = _distance_witness(chk, binary, idx_deps)
    return _WITNESS_CACHE["w"]


def _distance_witness(chk, binary, idx_deps):
    """Evaluate the regenerated Gen.Line3.distanceToLine at Rat (exact) on rational unit-direction line pairs with known
    distances and replay them on the real code at double; returns a replay dict if a value is wrong, else None."""
    rc, out = lib.lean_run_file(WITNESS, timeout=600, name="c15witness")
    m = re.search(r"WITNESS (\S+) (\S+) (\S+) (\S+)", out)
    if not m:
        lib.log("distance witness could not be evaluated: " + out[-300:])
        return None
    got = list(m.groups())
    real = {}
    for (what, args), exp in zip(WITNESS_INPUTS, WITNESS_EXPECT):
        cmd = [binary, "real", "Line3.distanceToLine"] + args
        for d in idx_deps:
            cmd += ["--idx", d]
        rc2, o2 = lib.sh(cmd, timeout=120)
        real["%s (expected %s)" % (what, exp)] = o2.strip().split("\n")[-1] if o2.strip() else None
    bad = [i for i in range(4) if got[i] != WITNESS_EXPECT[i]]
    if not bad:
        return None
    return {"key": "theorem:Line3_distanceToLine",
            "failing_input": {"lines (pos, dir)": WITNESS_INPUTS[bad[0]][1], "which": WITNESS_INPUTS[bad[0]][0]},
            "expected_distance": WITNESS_EXPECT[bad[0]], "model_value_at_Rat": got[bad[0]],
            "all_model_values": got, "all_expected": WITNESS_EXPECT, "real_code_at_double": real,
            "evaluated_at": "Rat (exact; sqrt exact on the perfect squares that occur), Gen regenerated from the current tree"}

# ---------------------------------------------------------------------------
# exact-arithmetic failing-input search for the functions whose decisions have boundaries (triangle edges, tangent and
# zero sphere roots): the regenerated Gen definitions are evaluated at Rat (square root: exact on the perfect squares
# that occur) on rational configurations INCLUDING the boundary cases, against answers computed here with Fractions
# from the geometric definition (not from the code).

from fractions import Fraction as Fr

RAT_PRELUDE = """
def rsqrt (x : Rat) : Rat := (Nat.sqrt x.num.natAbs : Rat) / (Nat.sqrt x.den : Rat)
def fr (r : Rat) : String := s!"{r.num}/{r.den}"
def fv (v : ImathVerif.V3 Rat) : String := fr v.x ++ " " ++ fr v.y ++ " " ++ fr v.z
"""


def _q(x):
    x = Fr(x)
    return "((%d : Rat) / %d)" % (x.numerator, x.denominator)


def _extra_args(meta):
    out = []
    for e in troute.EXTRA_ORDER:
        if e in (meta.get("extra") or "").split(","):
            out.append({"tmin": "((1 : Rat) / 1024)", "tmax": "(1048576 : Rat)", "teps": "((1 : Rat) / 64)", "sqrt": "rsqrt"}.get(e, "rsqrt"))
    return " ".join(out)


BOUNDARY_CLASSES = ("on-edge-or-vertex", "overflow-guard-parameter>=tmax", "root-at-zero", "tangent")


def rat_grid_search(chk, index, which, binary=None, idx_deps=(), boundary_only=False):
    """boundary_only (quick tier): only the configurations ON a decision boundary (hit on an edge or a vertex, hit parameter >= tmax, ray origin
    on the sphere, tangent ray) plus every 7th of the others"""
    meta = {d["name"]: d for d in index}
    cases, lines = [], ["import ImathVerif.Gen.C15Algo", "import ImathVerif.Gen.C15Sphere", "open ImathVerif ImathVerif.Gen", RAT_PRELUDE]
    if which == "triangle" and "LineAlgo.intersect" in meta:
        ex = _extra_args(meta["LineAlgo.intersect"])
        v0, v1, v2 = (0, 0, 0), (3, 0, 0), (0, 4, 0)          # edge lengths 3, 5, 4; normal (v2-v1)x(v1-v0) = (0,0,-12)
        # |up| = 1: ordinary hits; |up| >= tmax = 2^20 (the Rat stand-in of numeric_limits::max): the line meets the plane at a parameter
        # >= tmax, the documented overflow guard |d| < max*|nd| must answer false even for points inside the triangle
        for up in (1, -1, 1048576, -2097152):
            for i in range(-2, 9):
                for j in range(-2, 10):
                    x, y = Fr(i, 2), Fr(j, 2)
                    b1, b2 = x / 3, y / 4
                    b0 = 1 - b1 - b2
                    hit = b0 >= 0 and b1 >= 0 and b2 >= 0 and abs(up) < 1048576
                    front = (up < 0)                            # dir = (0,0,-sign up); dir . N = 12*sign(up) < 0 iff up < 0
                    sg = 1 if up > 0 else -1
                    inside = b0 >= 0 and b1 >= 0 and b2 >= 0
                    cases.append({"fn": "LineAlgo.intersect", "input": {"line.pos": [str(x), str(y), str(up)], "line.dir": [0, 0, -sg], "v0": v0, "v1": v1, "v2": v2},
                                  "expect": ("1 %s %s 0/1 %s %s %s %d" % (_f(x), _f(y), _f(b0), _f(b1), _f(b2), 1 if front else 0)) if hit else "0",
                                  "class": ("overflow-guard-parameter>=tmax" if abs(up) > 1 and inside else
                                            "on-edge-or-vertex" if hit and 0 in (b0, b1, b2) else ("inside" if hit else "outside"))})
                    call = "(LineAlgo.intersect %s ⟨⟨%s, %s, %s⟩, ⟨0, 0, %s⟩⟩ ⟨0, 0, 0⟩ ⟨3, 0, 0⟩ ⟨0, 4, 0⟩)" % (ex, _q(x), _q(y), _q(up), _q(-sg))
                    lines.append('#eval IO.println (let r := %s; "RATGRID %d " ++ (if r.1 then "1 " ++ fv r.2.1 ++ " " ++ fv r.2.2.1 ++ (if r.2.2.2 then " 1" else " 0") else "0"))' % (call, len(cases) - 1))
    if which == "sphere" and "Sphere3.intersectT" in meta:
        ex = _extra_args(meta["Sphere3.intersectT"])
        for (py, pz, sr) in ((0, 0, 5), (3, 0, 4), (4, 0, 3), (3, 4, 0), (5, 0, 0), (6, 0, None), (4, 4, None)):
            for i in range(-16, 17):
                px = Fr(i, 2)
                if sr is None:
                    exp, cls = "0", "miss"
                else:
                    t0, t1 = -px - sr, -px + sr
                    if t0 >= 0: exp, cls = "1 " + _f(t0), ("root-at-zero" if t0 == 0 else ("tangent" if sr == 0 else "outside-in-front"))
                    elif t1 >= 0: exp, cls = "1 " + _f(t1), ("root-at-zero" if t1 == 0 else "origin-inside")
                    else: exp, cls = "0", "behind"
                cases.append({"fn": "Sphere3.intersectT", "input": {"sphere": [0, 0, 0, 5], "line.pos": [str(px), py, pz], "line.dir": [1, 0, 0]}, "expect": exp, "class": cls})
                call = "(Sphere3.intersectT %s ⟨⟨0, 0, 0⟩, 5⟩ ⟨⟨%s, %s, %s⟩, ⟨1, 0, 0⟩⟩)" % (ex, _q(px), _q(py), _q(pz))
                lines.append('#eval IO.println (let r := %s; "RATGRID %d " ++ (if r.1 then "1 " ++ fr r.2 else "0"))' % (call, len(cases) - 1))
    if not cases:
        return None
    if boundary_only:
        # lines[:4] are the imports / prelude; one #eval line per case follows: renumber the kept ones
        keep = [i for i, c in enumerate(cases) if c["class"] in BOUNDARY_CLASSES or i % 7 == 0]
        head, evals = lines[:len(lines) - len(cases)], lines[len(lines) - len(cases):]
        lines = head + [re.sub(r'"RATGRID \d+ "', '"RATGRID %d "' % k, evals[i]) for k, i in enumerate(keep)]
        cases = [cases[i] for i in keep]
    rc, out = lib.lean_run_file("\n".join(lines) + "\n", timeout=900, name="c15grid")
    got = dict((int(m.group(1)), m.group(2).strip()) for m in re.finditer(r"RATGRID (\d+) ([^\n]*)", out))
    if len(got) < len(cases) // 2:
        lib.log("rat_grid_search(%s): could not evaluate: %s" % (which, out[-400:]))
        return None
    cls = {}
    for c in cases:
        cls[c["class"]] = cls.get(c["class"], 0) + 1
    chk.extra.setdefault("rat_grid_search", {})[which] = {"cases": len(cases), "evaluated": len(got), "per_class": cls, "boundary_only": boundary_only}
    bad = [(i, c) for i, c in enumerate(cases) if i in got and got[i] != c["expect"]]
    if not bad:
        return None
    i, c = bad[0]
    real = None
    if binary:
        nums = []
        for k, v in c["input"].items():
            nums += [repr(float(Fr(str(x)))) for x in v]
        cmd = [binary, "real", c["fn"]] + nums
        for d in idx_deps:
            cmd += ["--idx", d]
        rc2, o2 = lib.sh(cmd, timeout=120)
        real = o2.strip().split("\n")[-1] if o2.strip() else None
    return {"real_code_at_double": real, "function": c["fn"], "failing_input": c["input"], "class": c["class"], "expected_from_the_geometric_definition": c["expect"],
            "model_at_Rat": got[i], "output_format": "hit pt.x pt.y pt.z b.x b.y b.z front  |  hit t", "falsified_cases": len(bad),
            "classes_falsified": sorted(set(c2["class"] for _, c2 in bad)),
            "evaluated_at": "Rat (exact), Gen definitions regenerated from the current tree, sqrt exact on the perfect squares that occur"}


def _f(x):
    x = Fr(x)
    return "%d/%d" % (x.numerator, x.denominator)


# ---------------------------------------------------------------------------
# C++-side TV on STRUCTURED inputs with a leaf-coverage obligation (audit W4, second half): troute.tv draws unstructured inputs,
# so whether e.g. the `true` leaves of the 50-path triangle tree or the guard-fired leaves of closestPointTo(line) were ever
# compared bitwise with the real code was unknown.  `sym_c15 tvin` validates the given inputs at double and float and
# reports the leaves reached.

# leaves that inputs can reach (raw inputs: directions need not be unit vectors).  LineAlgo.intersect: 50 paths, of which 34 take
# `length(edge) = 0` TRUE after `length(normal) = 0` FALSE (an edge of zero length makes the normal zero): `sym_c15 leafinfo`
# recomputes that number from the current tree.  rotatePoint: `radius = 0` with `|x × dir| ≠ 0` is unreachable (x is then 0).
TVIN_EXPECT = {"Line3.set": 2, "Line3.closestPointToLine": 10, "Line3.distanceToLine": 3, "LineAlgo.closestPoints": 4, "LineAlgo.intersect": 16,
               "LineAlgo.rotatePoint": 3, "Plane3.setPoints": 2, "Plane3.intersectT": 2, "Plane3.intersect": 2, "Sphere3.intersectT": 4,
               "Sphere3.intersect": 4, "LineAlgo.closestVertex": 4, "Line3.mulM44": 2}


def _tvin_inputs(rng, n):
    L = []
    iv = lambda r=4: [rng.randint(-r, r) for _ in range(3)]
    add = lambda fn, vals: L.append(fn + " " + " ".join(v if isinstance(v, str) else repr(float(v)) for v in vals))
    def unit(v):
        l = sum(x * x for x in v) ** 0.5
        return [x / l for x in v] if l else v
    for k in range(n):
        # ---- triangles: lattice triangle, line from a lattice point towards (or past) a point with quarter-integer barycentrics
        v0, v1, v2, a0 = iv(), iv(), iv(), iv(6)
        if k % 9 == 0: v2 = [v0[i] + 2 * (v1[i] - v0[i]) for i in range(3)]                     # zero-area triangle
        i, j = rng.randint(-2, 6), rng.randint(-2, 6)
        w = (i, j, 4 - i - j)
        tgt = [(w[0] * v0[c] + w[1] * v1[c] + w[2] * v2[c]) / 4.0 for c in range(3)]
        d = [tgt[c] - a0[c] for c in range(3)]
        if k % 7 == 0: d = [v1[c] - v0[c] for c in range(3)]                                     # parallel to the plane: |d| < max*|nd| fails
        if any(d):
            for dd in (d, unit(d), [x / 64.0 for x in d], [-x for x in d]):
                add("LineAlgo.intersect", a0 + list(dd) + v0 + v1 + v2)
        # ---- pairs of lines: lattice directions (|den| >= 1), unit directions, exactly parallel, nearly parallel
        p1, p2, e1, e2 = iv(), iv(), iv(), iv()
        if not any(e1): e1 = [1, 0, 0]
        if not any(e2): e2 = [0, 1, 0]
        if k % 4 == 1: e2 = [x * rng.choice([1, -1, 2]) for x in e1]
        for (d1, d2) in ((e1, e2), (unit(e1), unit(e2)), (unit(e1), [x / 3.0 for x in unit(e2)])):
            for fn in ("Line3.closestPointToLine", "LineAlgo.closestPoints", "Line3.distanceToLine"):
                add(fn, p1 + list(d1) + p2 + list(d2))
        add("LineAlgo.closestVertex", iv() + iv() + iv() + p1 + unit(e1))
        # ---- Line3.set / Plane3.setPoints / plane-line / rotatePoint / spheres
        add("Line3.set", p1 + (p1 if k % 3 == 0 else p2))
        mm = [rng.randint(-2, 2) for _ in range(16)]
        if k % 2: mm[3], mm[7], mm[11], mm[15] = 0, 0, 0, 1
        if k % 5 == 0: mm = [0] * 12 + mm[12:15] + [1]                                           # zero linear part: both images coincide
        add("Line3.mulM44", p1 + (unit(e1) if k % 3 else e1) + mm)
        q1, q2, q3 = iv(), iv(), iv()
        if k % 3 == 0: q3 = [q1[c] + 3 * (q2[c] - q1[c]) for c in range(3)]
        add("Plane3.setPoints", q1 + q2 + q3)
        nrm = iv(2)
        dirp = e1 if k % 2 else [nrm[1], -nrm[0], 0]                                             # second form: normal . dir = 0 exactly
        for fn in ("Plane3.intersectT", "Plane3.intersect"):
            add(fn, nrm + [rng.randint(-3, 3)] + p1 + dirp)
        pr = p1 if k % 3 == 0 else ([p1[c] + 2 * e1[c] for c in range(3)] if k % 3 == 1 else iv())    # on the line (pos) / along a non-unit dir / generic
        add("LineAlgo.rotatePoint", pr + p1 + (e1 if k % 2 else unit(e1)) + [rng.randint(-8, 8) * 0.39269908169872414])
        c, R, a = iv(), rng.randint(0, 5), iv(7)
        for fn in ("Sphere3.intersectT", "Sphere3.intersect"):
            add(fn, c + [R] + a + unit([c[i] - a[i] + rng.randint(-2, 2) for i in range(3)] if k % 2 else e1))
    # ---- overflow guards with a non-zero denominator: |num| >= |den| * max (double: 1 -+ 2^-52, float: 1 -+ 2^-23; direction 2 is NOT a unit vector)
    for (c, big) in (("0x1.fffffffffffffp-1", "1e300"), ("0x1.0000000000001p+0", "1e300"), ("0x1.fffffep-1", "1e35"), ("0x1.000002p+0", "1e35")):
        for sg in ("", "-"):
            for fn in ("Line3.closestPointToLine", "LineAlgo.closestPoints"):
                add(fn, ["0", sg + big, "0", "1", "0", "0", "0", "0", "0", c, "1", "0"])          # num = -+ c*big, den = c^2 - 1
                add(fn, ["0", "0", "0", "1", "0", "0", "0", sg + big, "0", c, "1", "0"])
                add(fn, [sg + big, "0", "0", c, "1", "0", "0", "0", "0", "1", "0", "0"])
    # closestPoints: |n1| < max*|d| but |n2| >= max*|d| (n1 = -s*wy, n2 = d*wx - c*s*wy with dir1 = (c,1,0), dir2 = (1,0,0), w = (wx,wy,0))
    for (c, wx, wy) in (("0x1.fffffffffffffp-1", "-1e307", "3.9e292"), ("0x1.fffffep-1", "-4e37", "3.75e31")):
        add("LineAlgo.closestPoints", [wx, wy, "0", c, "1", "0", "0", "0", "0", "1", "0", "0"])
    return L


def structured_tv(chk, binary, idx_deps):
    import random
    rng = random.Random(chk.seed * 1000003 + 15)
    lines = _tvin_inputs(rng, 400 if chk.thorough else 120)
    cmd = [binary, "tvin"]
    for d in idx_deps:
        cmd += ["--idx", d]
    rc, out = lib.sh(cmd, timeout=900, stdin="\n".join(lines) + "\n")
    m = re.search(r"TVIN evaluations=(\d+) failures=(\d+)", out)
    sums = dict((mm.group(1), {"inputs": int(mm.group(2)), "hit": int(mm.group(3)), "paths": int(mm.group(4)), "leaves": [int(x) for x in mm.group(5).split(",") if x]})
                for mm in re.finditer(r"TVINSUM (\S+) inputs=(\d+) hit=(\d+) paths=(\d+) leaves=(\S*)", out))
    fails = [l for l in out.split("\n") if l.startswith("TVFAIL") or l.startswith("TVINERR")]
    ok = m is not None and int(m.group(2)) == 0 and not fails
    chk.oblige("tv:c15:structured: extracted trees = real instantiations, bitwise, on %d structured inputs (lattice triangles with lines aimed at "
               "edges/vertices/interior, degenerate and parallel configurations, fired overflow guards)" % len(lines), "translation-validation", ok,
               None if ok else (fails[:5] or out[-500:]))
    if m:
        chk.count(int(m.group(1)), int(m.group(1)))
    for l in fails[:10]:
        mm = re.match(r"TVFAIL (\S+) (\S+) :: (.*?) :: in=(.*)", l)
        if mm:
            chk.fail("tv:c15:structured", "tv:%s:%s" % (mm.group(2), mm.group(1)),
                     "extracted model of %s disagrees with the real instantiation at %s on a structured input" % (mm.group(2), mm.group(1)),
                     {"function": mm.group(2), "element_type": mm.group(1), "detail": mm.group(3), "input": mm.group(4).split()}, True)
    if not ok and not [l for l in fails if l.startswith("TVFAIL")]:
        chk.fail("tv:c15:structured", "tv:c15:structured", "structured translator validation did not run to completion", {"output": out[-1500:]}, False)
    # leaf coverage: recompute the number of unreachable leaves of the triangle tree from the CURRENT tree
    rc2, out2 = lib.sh([binary, "leafinfo"] + [x for d in idx_deps for x in ("--idx", d)], timeout=300)
    info = dict((mm.group(1), {"paths": int(mm.group(2)), "true_leaves": int(mm.group(3)), "unreachable_rule": int(mm.group(4)), "calls": int(mm.group(5))})
                for mm in re.finditer(r"LEAFINFO (\S+) paths=(\d+) true_leaves=(\d+) call_eq_zero_true_below_root=(\d+) calls=(\d+)", out2))
    expect = dict(TVIN_EXPECT)
    if "LineAlgo.intersect" in info:
        expect["LineAlgo.intersect"] = info["LineAlgo.intersect"]["paths"] - info["LineAlgo.intersect"]["unreachable_rule"]
    for fn in info:                      # a tree that changed shape: every path of a small tree is expected unless listed above with fewer
        if fn in expect and fn not in ("LineAlgo.intersect", "LineAlgo.rotatePoint"):
            expect[fn] = info[fn]["paths"]
    short = dict((fn, {"hit": sums.get(fn, {}).get("hit", 0), "expected": e, "paths": info.get(fn, {}).get("paths")}) for fn, e in expect.items()
                 if sums.get(fn, {}).get("hit", 0) < e)
    okc = bool(sums) and not short
    chk.oblige("tv:c15:leaves: every reachable leaf of the branching trees is compared bitwise with the real code (%s)"
               % ", ".join("%s %d/%d" % (fn.split(".")[-1] if fn.count(".") == 1 and fn.split(".")[0] not in ("Plane3", "Sphere3") else fn, sums.get(fn, {}).get("hit", 0), info.get(fn, {}).get("paths", 0))
                           for fn in sorted(expect)), "translation-validation", okc, None if okc else short)
    if not okc:
        chk.fail("tv:c15:leaves", "tv:c15:leaf-coverage", "the structured TV inputs do not reach every reachable leaf of the extracted trees "
                 "(the tree changed shape: extend _tvin_inputs in tools/props/c15.py)", {"short": short, "reached": sums}, False)
    chk.extra.setdefault("tv", {})["c15_structured"] = {"inputs": len(lines), "leaves_reached": dict((k, [v["hit"], v["paths"]]) for k, v in sums.items()),
                                                       "triangle_true_leaves_in_tree": info.get("LineAlgo.intersect", {}).get("true_leaves")}
    return info


# ---------------------------------------------------------------------------
# Lean-side validation of the EMITTED TEXT of the entries that call an opaque function (audit W4, first half).  troute.lean_tv
# skips them (23 of 38 in c15; Plane3.mulM44 in c15b).  Here the call is COMPOSED: `ratstep` of the entry's binary reports the exact
# arguments of each needed call, the binary that owns the CALLEE's tree evaluates it (sym_leaf `rateval` for V*.length, sym_c15
# `ratstep` for Plane3.setPoints, recursively), and the entry's tree is re-evaluated with those values.  The emitted Lean text,
# which calls `V3.length tmin tmax sqrt ⟨..⟩` / `Plane3.setPoints tmin tmax sqrt ..` IN LEAN, must print the same fractions.

CALLEE_OWNER = {"V2.length": "sym_leaf", "V3.length": "sym_leaf", "V4.length": "sym_leaf", "Plane3.setPoints": "sym_c15"}


def _rat_cases(rng, d, k, n):
    """input fractions for entry d: random small fractions, sparse, all-zero (the length() = 0 paths), lattice configurations"""
    nin = 0
    for p in [x for x in (d.get("params") or "").split(",") if x]:
        sh = p.partition(":")[2]
        nin += 1 if sh == "-" else troute.ARITY[sh].count("%s")
    out = []
    for t in range(n):
        vals = []
        for j in range(nin):
            a = rng.randint(-4, 4)
            den = rng.randint(1, 3) if t % 3 == 2 else 1
            if t % 3 == 1 and rng.random() < 0.4: a = 0
            if t == n - 1: a = 0
            vals.append("%d/%d" % (Fr(a, den).numerator, Fr(a, den).denominator))
        if d["name"] == "Plane3.mulM44" and t % 2 == 0:
            # a genuinely projective matrix with a well-defined image: last column (a,b,c,1) small
            for (slot, v) in ((7, Fr(rng.randint(-1, 1), 4)), (11, Fr(rng.randint(-1, 1), 4)), (15, Fr(rng.randint(-1, 1), 8)), (19, Fr(1))):
                vals[slot] = "%d/%d" % (v.numerator, v.denominator)
        if d["name"] == "Plane3.mulM44" and t < 4:
            # one normal per axis choice of the code (largest |e_i x n|): the four paths of the tree
            for slot, v in enumerate(((3, 2, 1), (1, 0, 0), (2, 3, 1), (0, 0, 1))[t]):
                vals[slot] = "%d/1" % v
        out.append(vals)
    if d["name"] == "LineAlgo.intersect":
        for (x, y, up) in ((1, 1, 1), (0, 0, 1), (3, 0, -1), (Fr(3, 2), 2, 1), (5, 5, 1), (-1, 1, -1), (1, -1, 1)):
            out.append([_f(v) for v in (x, y, up, 0, 0, -up, 0, 0, 0, 3, 0, 0, 0, 4, 0)])
    return out


def composed_lean_tv(chk, bins, index, index2, leaf_idx, c15_idx):
    import random
    rng = random.Random(chk.seed * 7919 + 151)
    idx_of = {"sym_leaf": [], "sym_c15": ["--idx", leaf_idx], "sym_c15b": ["--idx", leaf_idx, "--idx", c15_idx]}
    meta = {}
    for d in index:
        meta[d["name"]] = dict(d, bin="sym_c15")
    for d in index2:
        meta[d["name"]] = dict(d, bin="sym_c15b")
    # entries with opaque calls
    with_calls = []
    for b in ("sym_c15", "sym_c15b"):
        rc, out = lib.sh([bins[b], "leafinfo"] + idx_of[b], timeout=300)
        with_calls += [m.group(1) for m in re.finditer(r"LEAFINFO (\S+) paths=\d+ true_leaves=\d+ call_eq_zero_true_below_root=\d+ calls=(\d+)", out) if int(m.group(2)) > 0]
    n_per = 8 if chk.thorough else 4
    nodes, order = {}, []
    def new_node(b, fn, ins, parent=None):
        nid = "n%d" % len(nodes)
        nodes[nid] = {"bin": b, "fn": fn, "ins": ins, "calls": {}, "asked": set(), "parent": parent, "done": None, "err": None}
        return nid
    for fn in with_calls:
        for ins in _rat_cases(rng, meta[fn], 0, n_per if int(meta[fn].get("paths", 0)) <= 2 else 3 * n_per):
            order.append(new_node(meta[fn]["bin"], fn, ins))
    for rnd in range(12):
        progress = False
        for b in ("sym_c15b", "sym_c15", "sym_leaf"):
            pend = [nid for nid, nd in nodes.items() if nd["bin"] == b and nd["done"] is None and nd["err"] is None
                    and all(k in nd["calls"] for k in nd["asked"])]
            if not pend:
                continue
            if b == "sym_leaf":
                rc, out = lib.sh([bins[b], "rateval"], timeout=600, stdin="".join("%s %s\n" % (nodes[n]["fn"], " ".join(nodes[n]["ins"])) for n in pend))
                got = dict((int(m.group(1)), m.group(2)) for m in re.finditer(r"RATVAL (\d+) (\S+)", out))
                for i, nid in enumerate(pend):
                    v = got.get(i, "error")
                    if re.match(r"^(-?\d+/\d+,)+$", v):
                        nodes[nid]["done"] = (None, [x for x in v.split(",") if x], None)
                    else:
                        nodes[nid]["err"] = v
                    progress = True
            else:
                feed = ""
                for nid in pend:
                    nd = nodes[nid]
                    feed += "%s %s IN %s" % (nid, nd["fn"], " ".join(nd["ins"]))
                    if nd["calls"]:
                        feed += " CALLS " + " ".join("%d=%s" % (k, ",".join(v)) for k, v in sorted(nd["calls"].items()))
                    feed += "\n"
                rc, out = lib.sh([bins[b], "ratstep"] + idx_of[b], timeout=600, stdin=feed)
                for l in out.split("\n"):
                    m = re.match(r"RATCASE (\S+) (\S+) LEAF (\d+) IN(.*?) OUT (exc=\S+ vals=(\S*) ints=\S*)", l)
                    if m and m.group(1) in nodes:
                        nodes[m.group(1)]["done"] = (int(m.group(3)), [x for x in m.group(6).split(",") if x], m.group(5))
                        progress = True
                        continue
                    m = re.match(r"NEED (\S+) (\d+) (\S+)(.*)$", l)
                    if m and m.group(1) in nodes:
                        nd, k = nodes[m.group(1)], int(m.group(2))
                        if k not in nd["asked"] and m.group(3) in CALLEE_OWNER:
                            nd["asked"].add(k)
                            new_node(CALLEE_OWNER[m.group(3)], m.group(3), m.group(4).split(), parent=(m.group(1), k))
                            progress = True
                        continue
                    m = re.match(r"RATERR (\S+) (.*)$", l)
                    if m and m.group(1) in nodes:
                        nodes[m.group(1)]["err"] = m.group(2)
                        progress = True
        # hand finished callees to their parents
        for nid, nd in nodes.items():
            if nd["parent"] and nd["done"] is not None:
                pid, k = nd["parent"]
                if k not in nodes[pid]["calls"]:
                    nodes[pid]["calls"][k] = nd["done"][1]
                    progress = True
            if nd["parent"] and nd["err"] is not None and nodes[nd["parent"][0]]["err"] is None:
                nodes[nd["parent"][0]]["err"] = "callee: " + nd["err"]
        if not progress:
            break
    cases = [(nodes[n]["fn"], nodes[n]["ins"], nodes[n]["done"][2], nodes[n]["done"][0]) for n in order if nodes[n]["done"] is not None]
    errs = {}
    for n in order:
        if nodes[n]["done"] is None:
            errs.setdefault(nodes[n]["fn"], []).append(nodes[n]["err"] or "unresolved")
    # the emitted Lean text on the same inputs (argument construction as in troute.lean_tv)
    modules = sorted(set(meta[c[0]]["module"] for c in cases))
    lines = ["import ImathVerif.Gen.%s" % m for m in modules] + ["open ImathVerif ImathVerif.Gen", troute.LEAN_TV_PRELUDE]
    for i, (fn, ins, _, _) in enumerate(cases):
        d = meta[fn]
        args, pos = [], 0
        for e in troute.EXTRA_ORDER:
            if e in (d.get("extra") or "").split(","):
                args.append({"tmin": "((1 : Rat) / 1024)", "tmax": "(1048576 : Rat)", "teps": "((1 : Rat) / 64)", "tlowest": "(-1048576 : Rat)",
                             "atan2": "(st2 0)", "pow": "(st2 1)"}.get(e) or "(st1 %d)" % troute.STUB_INDEX[e])
        for p in [x for x in (d.get("params") or "").split(",") if x]:
            sh = p.partition(":")[2]
            if sh == "-":
                args.append(troute._rat(ins[pos])); pos += 1
            else:
                k = troute.ARITY[sh].count("%s")
                args.append("(" + troute.ARITY[sh] % tuple(troute._rat(x) for x in ins[pos:pos + k]) + " : %s Rat)" % sh); pos += k
        outs = [x for x in (d.get("outs") or "").split(",") if x]
        vals, ints = [], []
        for k, kind in enumerate(outs):
            acc = "(v)" if len(outs) == 1 else "(v" + ".2" * k + (".1" if k < len(outs) - 1 else "") + ")"
            if kind == "-": vals.append("[%s]" % acc)
            elif kind == "B": ints.append('(if %s then "1," else "0,")' % acc)
            elif kind == "I": ints.append('(toString %s ++ ",")' % acc)
            else: vals.append("[" + ", ".join("%s.%s" % (acc, f) for f in troute.LEAVES[kind]) + "]")
        body = '"exc=- vals=" ++ frs (%s) ++ " ints=" ++ %s' % (" ++ ".join(vals) if vals else "([] : List Rat)", " ++ ".join(ints) if ints else '""')
        lines.append('#eval IO.println ("RATLEAN %d " ++ (let v := (%s %s); %s))' % (i, fn, " ".join(args), body))
    got = {}
    lout = ""
    if cases:
        lib.lake_build(["ImathVerif.Gen.%s" % m for m in modules])
        rc, lout = lib.lean_run_file("\n".join(lines) + "\n", timeout=1800, name="c15calltv")
        got = dict((int(m.group(1)), m.group(2).strip()) for m in re.finditer(r"RATLEAN (\d+) (.*)", lout))
    bad = [(i, c) for i, c in enumerate(cases) if got.get(i) != c[2].strip()]
    validated = sorted(set(c[0] for c in cases))
    leaves = {}
    for c in cases:
        leaves.setdefault(c[0], set()).add(c[3])
    missing = sorted(set(with_calls) - set(validated))
    # every small tree is covered completely at Rat as well; the triangle tree on its reachable `true` and `false` leaves
    thin = dict((fn, [len(leaves.get(fn, ())), int(meta[fn].get("paths", 0))]) for fn in validated
                if int(meta[fn].get("paths", 0)) <= 4 and fn != "LineAlgo.rotatePoint" and len(leaves.get(fn, ())) < int(meta[fn].get("paths", 0)))
    ok = bool(cases) and not bad and not missing and not thin
    chk.oblige("lean-tv:c15:calls: emitted Lean text of the %d entries that CALL V*.length / Plane3.setPoints (skipped by the generic lean-tv) = "
               "extracted tree composed with the callee's own tree, at exact fractions (%d cases, every leaf of the 2-path trees)" % (len(with_calls), len(cases)),
               "translation-validation", ok, None if ok else {"mismatches": [b[1][0] for b in bad[:5]], "entries_not_validated": missing, "errors": errs, "leaves_short": thin})
    chk.count(len(cases), len(cases))
    chk.extra.setdefault("lean_tv", {})["c15_calls"] = {"entries_with_calls": len(with_calls), "entries_validated": len(validated), "cases": len(cases),
                                                       "mismatches": len(bad), "unresolved": dict((k, len(v)) for k, v in errs.items()),
                                                       "leaves_reached": dict((k, [len(v), int(meta[k].get("paths", 0))]) for k, v in sorted(leaves.items()))}
    if missing or not cases or thin:
        chk.fail("lean-tv:c15:calls", "lean-tv:c15:call-composition", "the composed validation did not cover every entry that calls an opaque function",
                 {"not_validated": missing, "errors": errs, "leaves_short": thin, "lean_output_tail": lout[-600:]}, False)
    for i, (fn, ins, exp, leaf) in bad[:10]:
        chk.fail("lean-tv:c15:calls", "lean-tv:%s" % fn,
                 "emitted Lean definition of %s evaluates differently from the extracted tree composed with its callee's tree (emitter bug, e.g. "
                 "argument order or tuple projection of an opaque call)" % fn,
                 {"function": fn, "inputs": ins, "tree_at_Frac": exp, "lean_at_Rat": got.get(i), "leaf": leaf,
                  "lean_output_tail": lout[-600:] if got.get(i) is None else None}, True)
    return ok


def run(chk):
    chk.trusted = ["Lean 4.33 kernel; axioms propext/Classical.choice/Quot.sound at most", "Mathlib's ordered-field algebra (ring, field_simp, linarith)",
                   "translator harness/sym (T = Sym path extraction; Vec::length and Plane3::set(p1,p2,p3) modular), validated each run by TV "
                   "(bitwise at float and double; random inputs and structured inputs with a leaf-coverage obligation) and by evaluating the emitted Lean "
                   "text at Rat (entries without opaque calls directly; entries that call V*.length / Plane3.setPoints composed with the callee's own tree)",
                   "__float128 evaluation from integer lattice data as the oracle of the measured rounding residue"]
    chk.assumptions = ["theorems are over an arbitrary ordered field (exact arithmetic); `sqrt` is a parameter with the hypothesis SqrtSpec "
                       "(LenSpec for Vec::length is DERIVED from it for the real bodies: V3_length_LenSpec); sin/cos of rotatePoint are parameters",
                       "lines are assumed to have unit directions where the C++ documents that assumption (closestPoints, closestPointTo(line), rotatePoint) and "
                       "for Sphere3::intersectT (NOT documented in ImathSphere.h; zero / non-unit directions have their own out-of-domain theorems); the case "
                       "analyses (*_cases) and the no-division-by-zero theorems need no such hypothesis",
                       "Plane3 * Matrix44: unit normal; non-singular affine matrices (Plane3_mulM44) or ANY matrix for which the homogeneous w of the three "
                       "construction points is non-zero (Plane3_mulM44_projective); w = 0 of a construction point is not covered",
                       "in the total model x/0 = 0: 'no division by zero' is stated on the guard predicate of the branch that divides, not on values",
                       "rounding: NOT proved; measured on lattice configurations against the exact answers with bounds c*eps*scale*conditioning (partial)"]
    chk.rule = ("theorems: all inputs over any ordered field. TV: random inputs + structured inputs (lattice triangles with lines aimed at edges / vertices / "
                "interior / outside, degenerate triangles, lines parallel to the plane, parallel and nearly parallel line pairs, inputs that fire each "
                "overflow guard with a non-zero denominator) with the obligation that every reachable leaf is compared. residue: points on the integer lattice "
                "[-4,4]^3 (lines through two lattice points, planes through three, spheres with integer centre/radius, lattice triangles with half of the "
                "lines aimed at lattice points of the triangle's plane incl. edges and vertices), a FAR class translated by (1024,-2048,512), exactly "
                "parallel and nearly parallel (direction ratio 4..64) line pairs, an overflow-guard class (unit directions at angle 2^-20..2^-5, positions "
                "scaled by a power of two so that the exact guard predicate on the stored values is ~4 or ~1/4), projective matrices with last column "
                "(a,b,c,16)/16; float and double; decisions within c*eps of an edge / tangency are counted with a ceiling on the share that differs, not judged; "
                "lattice-parallel line pairs / line-plane pairs are judged against the lattice answer (three open findings, share ceilings). exact Rat "
                "grid (triangle (0,0,0),(3,0,0),(0,4,0) x half-integer grid x |pos.z| in {1, tmax, 2 tmax}; sphere radius 5 x 7 offsets x 33 origins): quick "
                "tier = all boundary configurations + every 7th other")
    bins = troute.build_extractors(chk, [dict(name="sym_leaf", source="sym/sym_leaf.cpp"), dict(name="sym_c15", source="sym/sym_c15.cpp"),
                                         dict(name="sym_c15b", source="sym/sym_c15b.cpp"), dict(name="c15_residue", source="corr/c15_residue.cpp")])
    leaf_idx = os.path.join(troute.GEN, "index_leaf.txt")
    c15_idx = os.path.join(troute.GEN, "index_c15.txt")
    index = []
    if bins.get("sym_leaf"):
        troute.regenerate(chk, bins["sym_leaf"], "leaf")
    if bins.get("sym_c15"):
        index, changed = troute.regenerate(chk, bins["sym_c15"], "c15", idx_deps=[leaf_idx])
        troute.tv(chk, bins["sym_c15"], "c15", 400 if chk.thorough else 64, idx_deps=[leaf_idx])
        troute.lean_tv(chk, bins["sym_c15"], "c15", index, n=8 if chk.thorough else 3, idx_deps=[leaf_idx])
        structured_tv(chk, bins["sym_c15"], [leaf_idx])
    if bins.get("sym_c15b") and bins.get("sym_c15"):
        index2, changed2 = troute.regenerate(chk, bins["sym_c15b"], "c15b", idx_deps=[leaf_idx, c15_idx])
        troute.tv(chk, bins["sym_c15b"], "c15b", 400 if chk.thorough else 64, idx_deps=[leaf_idx, c15_idx])
        ph = (getattr(chk, "tv_paths", {}) or {}).get("c15b", {}).get("Plane3.mulM44")
        if ph:
            chk.oblige("tv:c15b:leaves: all %d paths of Plane3.mulM44 (the axis choice) are compared bitwise with the real code" % ph[1], "translation-validation", ph[0] == ph[1], ph)
            if ph[0] != ph[1]:
                chk.fail("tv:c15b:leaves", "tv:c15b:leaf-coverage", "the TV inputs do not reach every path of Plane3.mulM44", {"hit_of_paths": ph}, False)
        if bins.get("sym_leaf"):
            composed_lean_tv(chk, bins, index, index2, leaf_idx, c15_idx)
        index = index + index2
    for d in index[:6]:
        chk.sample({"entry": d["name"], "paths": d.get("paths")})

    # residue first: it is also the failing-input finder of the theorem search
    res = run_residue(chk, bins["c15_residue"], 6000 if chk.thorough else 1500) if bins.get("c15_residue") else {"ran": False, "fails": {}}

    def search(name):
        if name.startswith("Line3_distanceToLine"):
            w = distance_witness(chk, bins.get("sym_c15"), [leaf_idx]) if bins.get("sym_c15") else None
            if w:
                return dict(w, key="theorem:" + name)
        # decisions with boundaries: exact evaluation of the model on rational configurations incl. the boundary cases
        which = "triangle" if (name.startswith("tri_") or name.startswith("LineAlgo_intersect")) else ("sphere" if name.startswith("Sphere3_intersect") else None)
        if which:
            g = rat_grid_search(chk, index, which, binary=bins.get("sym_c15"), idx_deps=[leaf_idx])
            if g:
                return dict(g, key="theorem:" + name)
        # statements without hypotheses: evaluate them at Rat on random inputs
        rep = troute.lean_search(chk, PROPS, name, IMPORTS, ["ImathVerif", "ImathVerif.Geo"], binary=bins.get("sym_c15"), idx_deps=[leaf_idx])
        if rep:
            return rep
        # otherwise: a concrete input on which the real code disagrees with the exact lattice oracle
        for fn in THEOREM_FUNCS.get(name, []):
            if res["fails"].get(fn):
                f = res["fails"][fn][0]
                return {"key": "theorem:" + name, "function": fn, "failing_input_lattice": f["input"], "class": f["class"], "element_type": f["element_type"],
                        "detail": f["detail"], "found_by": "harness/corr/c15_residue.cpp: real code vs exact oracle computed from the integer lattice data",
                        "failing_cases_of_this_function": len(res["fails"][fn])}
        return None

    built, _ = chk.check_theorems(PROPS, required=REQUIRED, search=search)
    if bins.get("sym_c15"):
        property_text_obligations(chk, bins["sym_c15"], [leaf_idx])

    # residue obligations: one per function of the harness
    ok_run = res.get("ran", False)
    chk.oblige("residue: harness ran", "residue", ok_run, None if ok_run else res.get("output_tail"))
    if not ok_run:
        chk.fail("residue", "residue:run", "residue harness failed to run", {"output": res.get("output_tail")}, False)
    else:
        chk.count(res["evals"], res["evals"])
        fns = sorted(set(k.split(":")[0] for k in res["maxima"]) | set(res["fails"]))
        for fn in fns:
            bad = res["fails"].get(fn, [])
            chk.oblige("residue:%s: real float/double results = exact lattice answers to c*eps*scale*cond; decisions agree away from edges" % fn,
                       "residue", not bad, bad[:2] or None)
            groups = {}
            for b in bad:
                if fn == "LineAlgo.closestPoints" and b["class"].startswith("exactly-parallel-reported-true"):
                    key = PARALLEL_KEY
                elif fn == "Line3.distanceToLine" and b["class"] == "parallel-directions-differ-by-rounding":
                    key = DIFFER_KEY
                elif fn == "Plane3.intersectT" and b["class"] == "lattice-parallel-line-reported-hit":
                    key = PLANE_PARALLEL_KEY
                elif b["class"].startswith("overflow-guard") or b["class"].startswith("projective"):
                    key = "residue:%s:%s" % (fn, b["class"])
                elif fn in FUNC_THEOREM:
                    key = "theorem:" + FUNC_THEOREM[fn]
                else:
                    key = "residue:%s:%s" % (fn, b["class"])
                groups.setdefault(key, []).append(b)
            for key, bs in groups.items():
                rep = dict(bs[0], failing_cases=len(bs), found_by="harness/corr/c15_residue.cpp (real code vs exact lattice oracle)",
                           input_layout="lattice points a0 a1 (line 1 = Line3(a0,a1)), b0 b1 (line 2), p")
                if key == PARALLEL_KEY:
                    rep.update(parallel_repro(bins.get("sym_c15"), [leaf_idx]))
                    rep["classes"] = sorted(set(b["class"] for b in bs))
                if key == PLANE_PARALLEL_KEY:
                    rep.update(plane_parallel_repro(bins.get("sym_c15"), [leaf_idx]))
                    rep["input_layout"] = "lattice points p1 p2 p3 (plane = Plane3(p1, (p2-p1)x(p3-p1))), a0 a1 (line = Line3(a0,a1))"
                if key == DIFFER_KEY:
                    rep.update(differ_repro(bins.get("sym_c15"), [leaf_idx]))
                    rep["counts"] = dict((k, v) for k, v in res["counts"].items() if "differ" in k)
                if key == "theorem:Line3_distanceToLine" and bins.get("sym_c15"):
                    w = distance_witness(chk, bins["sym_c15"], [leaf_idx])
                    if w:
                        rep.update(w)
                chk.fail("residue:" + fn, key, "real code disagrees with the exact answer on a lattice configuration: %s (%s, %s) %s"
                         % (fn, bs[0]["class"], bs[0]["element_type"], bs[0]["detail"]), rep, True)
        # the open known finding cannot hide a regression: the share of bitwise-parallel pairs reported `true` stays in its band
        cnt = res["counts"]
        for ty in ("double", "float"):
            tot = cnt.get("parallel_as_represented:" + ty, 0)
            tr = cnt.get("parallel_as_represented_reported_true:%s:closest" % ty, 0) + cnt.get("parallel_as_represented_reported_true:%s:not-closest" % ty, 0)
            share = tr / tot if tot else None
            okr = tot >= 30 and share is not None and share <= PARALLEL_TRUE_SHARE_MAX
            chk.oblige("residue:closestPoints:%s: bitwise-parallel pairs reported `true`: %d of %d, share <= %.2f (the open finding must not hide a regression)"
                       % (ty, tr, tot, PARALLEL_TRUE_SHARE_MAX), "residue", okr, None if okr else {"reported_true": tr, "parallel_as_represented": tot})
            if not okr:
                chk.fail("residue:closestPoints:%s" % ty, "residue:LineAlgo.closestPoints:parallel-true-share:%s" % ty,
                         "the share of bitwise-parallel line pairs for which closestPoints returns true left the band of the recorded finding "
                         "(%s of %s; bound %.2f): a regression of the guard hidden behind the known finding, or too few parallel pairs generated"
                         % (tr, tot, PARALLEL_TRUE_SHARE_MAX), {"reported_true": tr, "parallel_as_represented": tot, "element_type": ty}, False)
        # reach of the new classes (hit counts)
        reach = {"overflow guard of closestPoints fired / not fired (exact predicate on the stored values)":
                     [cnt.get("guard_closestPoints:%s:%s" % (ty, w), 0) for ty in ("double", "float") for w in ("fired", "not-fired")],
                 "overflow guard of closestPointTo(line) fired / not fired":
                     [cnt.get("guard_closestPointToLine:%s:%s" % (ty, w), 0) for ty in ("double", "float") for w in ("fired", "not-fired")],
                 "overflow guard of triangle intersect fired": [cnt.get("guard_triangle:%s:fired" % ty, 0) for ty in ("double", "float")],
                 "plane * projective matrix (last column (a,b,c,16)/16)": [cnt.get("proj_cases:%s" % ty, 0) for ty in ("double", "float")]}
        floor = 100 if not chk.thorough else 400
        for what, v in reach.items():
            okv = min(v) >= floor
            chk.oblige("residue:reach: %s: %s cases (>= %d each)" % (what, "/".join(str(x) for x in v), floor), "residue", okv, None if okv else v)
            if not okv:
                chk.fail("residue:reach", "residue:reach:" + what.split(" (")[0].replace(" ", "-")[:60], "a structured class of the residue harness is (almost) never generated", {"counts": v}, False)
        for what, (num_k, den_k, ceil, floor_n, key) in SHARE_BOUNDS.items():
            for ty in ("double", "float"):
                tr, tot = cnt.get(num_k % ty, 0), cnt.get(den_k % ty, 0)
                okr = tot >= floor_n and tr / tot <= ceil[ty]
                chk.oblige("residue:share:%s: %s: %d of %d, share <= %.2f (the open finding must not hide a regression)" % (ty, what, tr, tot, ceil[ty]),
                           "residue", okr, None if okr else {"failures": tr, "cases": tot})
                if not okr:
                    chk.fail("residue:share:%s: %s" % (ty, what), "%s:%s" % (key, ty),
                             "%s: %d of %d cases at %s, outside the band of the recorded finding (ceiling %.2f, at least %d cases): a regression of the "
                             "exact-zero test hidden behind the known finding, or the class is no longer generated" % (what, tr, tot, ty, ceil[ty], floor_n),
                             {"failures": tr, "cases": tot, "element_type": ty, "ceiling": ceil[ty]}, False)
        for what, (num_ks, den_ks, ceil, floor_n, per_type) in COUNT_SHARES.items():
            for ty in (("double", "float") if per_type else ("",)):
                g = lambda ks: sum(cnt.get(k % ty if per_type else k, 0) for k in ks)
                tr, tot = g(num_ks), g(den_ks)
                okr = tot >= floor_n and tr / tot <= ceil
                nm = "residue:count-share:%s%s: %d of %d, share <= %.2f" % (what, (" (%s)" % ty) if ty else "", tr, tot, ceil)
                chk.oblige(nm, "residue", okr, None if okr else {"count": tr, "cases": tot})
                if not okr:
                    chk.fail(nm, "residue:count-share:%s%s" % (what.replace(" ", "-")[:50], ":" + ty if ty else ""),
                             "a counted-not-judged class left its clean-tree band: %s: %d of %d (ceiling %.2f, at least %d cases)" % (what, tr, tot, ceil, floor_n),
                             {"count": tr, "cases": tot, "ceiling": ceil}, False)
        # drift: measured maxima against 4 x the clean-tree maxima
        over = dict((k, [res["maxima"][k], b]) for k, b in DRIFT.items() if k in res["maxima"] and res["maxima"][k] > b)
        unknown = sorted(k for k in res["maxima"] if k not in DRIFT)
        absent = sorted(k for k in DRIFT if k not in res["maxima"])
        okd = not over and not unknown and not absent
        chk.oblige("residue:drift: all %d measured maxima (error / (eps*scale*cond), per function and element type) <= 4 x the clean-tree maximum"
                   % len(DRIFT), "residue", okd, None if okd else {"over": over, "no_ceiling_for": unknown, "not_measured": absent})
        for k, (v, b) in over.items():
            chk.fail("residue:drift", "residue-drift:" + k, "accuracy drift: the worst error of %s is %.3g (units of eps*scale*cond) on this tree, the clean-tree "
                     "maximum is %.3g; still inside the coarse bound of the harness" % (k, v, b / 4), {"function": k, "measured": v, "ceiling": b}, False)
        if (unknown or absent) and not over:
            chk.fail("residue:drift", "residue-drift:table", "the drift table of tools/props/c15.py does not match the functions the harness measures",
                     {"no_ceiling_for": unknown, "not_measured": absent}, False)
        chk.residues["C15"] = {"evaluations": res["evals"],
                               "worst_error_in_units_of_eps_times_scale_times_conditioning": res["maxima"],
                               "bounds": "4 (unit vectors), 16-64 (points, distances, parameters); conditioning 1/sin^2 for line pairs, 1/|cos| for "
                                         "line-plane and line-triangle hits, |p||e|/|N| for barycentrics, 1+scale/sqrt(disc) for sphere roots",
                               "counted_not_judged": res["counts"]}
    if True:
        # the model at Rat against the geometric definition on rational configurations incl. every boundary case (quick tier: the boundary
        # classes and every 7th other configuration; thorough: the whole grid)
        for which in ("triangle", "sphere"):
            g = rat_grid_search(chk, index, which, binary=bins.get("sym_c15"), idx_deps=[leaf_idx], boundary_only=not chk.thorough)
            info = chk.extra.get("rat_grid_search", {}).get(which, {})
            n = info.get("evaluated", 0)
            nb = sum(v for k, v in info.get("per_class", {}).items() if k in BOUNDARY_CLASSES)
            chk.oblige("rat-grid:%s: model at Rat = geometric definition on %d rational configurations, %d of them on a decision boundary "
                       "(edge/vertex, parameter >= tmax, tangency, zero root)%s" % (which, n, nb, "" if chk.thorough else " [quick subset]"),
                       "correspondence", g is None and n > 0 and n == info.get("cases") and nb >= 10, g)
            chk.count(n, n)
            if g:
                chk.fail("rat-grid:" + which, "rat-grid:%s:%s" % (g["function"], g["class"]), "the extracted model disagrees with the geometric definition in exact arithmetic", g, True)
            elif not (n > 0 and n == info.get("cases") and nb >= 10):
                chk.fail("rat-grid:" + which, "rat-grid:%s:not-evaluated" % which, "the exact rational grid was not (completely) evaluated", {"info": info}, False)
        if built and chk.thorough:
            chk.leanchecker(PROPS)   # needs the compiled module: skipped while a theorem of the module is reported as failing
