"""C15 — line, plane, sphere, triangle primitives (T-route + measured rounding residue on lattice configurations)."""
import os, re
import lib, troute

PROPS = "ImathVerif.Props.C15"
IMPORTS = ["ImathVerif.Spec.GeoSpec", "ImathVerif.Gen.C15Line", "ImathVerif.Gen.C15Plane", "ImathVerif.Gen.C15PlaneMul",
           "ImathVerif.Gen.C15Sphere", "ImathVerif.Gen.C15Algo"]

# theorem of Props/C15.lean -> functions of the residue harness that exercise it (the harness compares the REAL code with
# an independent exact oracle, so it is the failing-input finder for theorems with hypotheses)
THEOREM_FUNCS = {
    "Line3_set": ["Line3.set"], "Line3_set_degenerate": ["Line3.set"], "Line3_ctor": ["Line3.set"], "Line3_eval": ["Line3.eval"],
    "Line3_closestPointToPoint_def": ["Line3.closestPointToPoint"], "Line3_closestPointToPoint": ["Line3.closestPointToPoint"],
    "Line3_closestPointToPoint_perp": ["Line3.closestPointToPoint"],
    "Line3_distanceToPoint": ["Line3.distanceToPoint", "Line3.closestPointToPoint"],
    "Line3_closestPointToLine": ["Line3.closestPointToLine"],
    "closestPoints_cases": ["LineAlgo.closestPoints"], "LineAlgo_closestPoints": ["LineAlgo.closestPoints"],
    "LineAlgo_closestPoints_no_div_by_zero": ["LineAlgo.closestPoints"],
    "Line3_distanceToLine": ["Line3.distanceToLine"], "Line3_distanceToLine_partial": ["Line3.distanceToLine"],
    "Plane3_setPoints": ["Plane3.setPoints", "Plane3.distanceTo"], "Plane3_setPoints_degenerate": ["Plane3.setPoints"],
    "Plane3_ctorPoints": ["Plane3.setPoints"], "Plane3_setPointNormal": ["Plane3.setPointNormal"],
    "Plane3_ctorPointNormal": ["Plane3.setPointNormal"], "Plane3_setNormalDistance": ["Plane3.setNormalDistance"],
    "Plane3_ctorNormalDistance": ["Plane3.setNormalDistance"], "Plane3_distanceTo": ["Plane3.distanceTo"],
    "Plane3_reflectPoint": ["Plane3.reflectPoint"], "Plane3_reflectVector": ["Plane3.reflectVector"],
    "Plane3_intersectT": ["Plane3.intersectT"], "Plane3_intersect": ["Plane3.intersect", "Plane3.intersectT"], "Plane3_neg": ["Plane3.neg"],
    "Plane3_mulM44_cases": ["Plane3.mulM44"], "Plane3_mulM44": ["Plane3.mulM44"], "Plane3_mulM44_contains": ["Plane3.mulM44"],
    "Plane3_mulM44_sides": ["Plane3.mulM44"],
    "Sphere3_intersectT": ["Sphere3.intersectT"], "Sphere3_intersect": ["Sphere3.intersect", "Sphere3.intersectT"],
    "Sphere3_circumscribe": ["Sphere3.circumscribe"],
    "tri_spec": ["LineAlgo.intersect"], "tri_facts": ["LineAlgo.intersect"], "LineAlgo_intersect_sound": ["LineAlgo.intersect"],
    "LineAlgo_intersect_complete": ["LineAlgo.intersect"], "LineAlgo_intersect_degenerate": ["LineAlgo.intersect"],
    "LineAlgo_closestVertex": ["LineAlgo.closestVertex"], "LineAlgo_rotatePoint": ["LineAlgo.rotatePoint"],
    "LineAlgo_rotatePoint_circle": ["LineAlgo.rotatePoint"],
}
for _n in ("2", "3", "4"):
    for _f in ("project", "orthogonal", "reflect", "closestVertex"):
        THEOREM_FUNCS["VecAlgo%s_%s" % (_n, _f)] = ["VecAlgo%s.%s" % (_n, _f)] + (["VecAlgo%s.project" % _n] if _f != "closestVertex" else [])

# the theorem that carries a function's failures when they are reported by the residue harness alone
FUNC_THEOREM = {"Line3.distanceToLine": "Line3_distanceToLine"}

WITNESS = r'''
import ImathVerif.Spec.GeoSpec
import ImathVerif.Gen.C15Line
import Mathlib.Tactic.NormNum
set_option linter.unusedTactic false
set_option linter.unreachableTactic false
open ImathVerif ImathVerif.Geo
/-- lines (0,0,0)+s(1,0,0) and (0,0,1)+t(3/5,4/5,0): unit directions at angle acos(3/5); the common perpendicular is the
z axis segment of length 1; d1 x d2 = (0,0,4/5) of length 4/5 -/
def l1 : Line3 Rat := ⟨⟨0, 0, 0⟩, ⟨1, 0, 0⟩⟩
def l2 : Line3 Rat := ⟨⟨0, 0, 1⟩, ⟨3 / 5, 4 / 5, 0⟩⟩
def m1 : Line3 Rat := ⟨⟨0, 0, 0⟩, ⟨1, 0, 0⟩⟩
def m2 : Line3 Rat := ⟨⟨0, 2, 0⟩, ⟨1, 0, 0⟩⟩
def stub (x : Rat) : Rat := x
def D (a b : Line3 Rat) : Rat := by
  first
    | exact Gen.Line3.distanceToLine a b
    | exact Gen.Line3.distanceToLine 0 stub a b
    | exact Gen.Line3.distanceToLine stub a b
#eval IO.println s!"WITNESS skew {D l1 l2} parallel {D m1 m2}"
/-- negation of the full-strength statement on the witness: the distance of the two lines is 1 (the points (0,0,0) and
(0,0,1) realise it and the segment is perpendicular to both directions), the code's value squared is not 1 -/
theorem witness_skew : dot (sub (lineAt l1 0) (lineAt l2 0)) l1.dir = 0 ∧ dot (sub (lineAt l1 0) (lineAt l2 0)) l2.dir = 0 ∧
    dist2 (lineAt l1 0) (lineAt l2 0) = 1 ∧ D l1 l2 ^ 2 ≠ 1 := by
  simp only [D, Gen.Line3.distanceToLine, l1, l2, dot, sub, lineAt, dist2]; norm_num
/-- parallel lines at distance 2 -/
theorem witness_parallel : dist2 (lineAt m1 0) (lineAt m2 0) = 4 ∧ dot (sub (lineAt m1 0) (lineAt m2 0)) m1.dir = 0 ∧ D m1 m2 ^ 2 ≠ 4 := by
  simp only [D, Gen.Line3.distanceToLine, m1, m2, dot, sub, lineAt, dist2]; norm_num
#print axioms witness_skew
#print axioms witness_parallel
'''


def run_residue(chk, binary, n):
    rc, out = lib.sh([binary, str(chk.seed), str(n)], timeout=1800)
    m = re.search(r"C15-RESIDUE evals=(\d+) failures=(\d+)(.*)", out)
    fails = {}
    for l in out.split("\n"):
        mm = re.match(r"C15-FAIL (\S+) (\S+) T=(\S+) (.*?) in=(.*)", l)
        if mm:
            fails.setdefault(mm.group(1), []).append({"function": mm.group(1), "class": mm.group(2), "element_type": mm.group(3),
                                                      "detail": mm.group(4), "input": mm.group(5).split()})
    info = {"ran": rc in (0, 1) and m is not None, "fails": fails, "output_tail": out[-1500:]}
    if m:
        info["evals"] = int(m.group(1))
        info["maxima"] = dict((k, float(v)) for k, v in re.findall(r"max\[([^\]]+)\]=(\S+)", m.group(3)))
        info["counts"] = dict((k, int(v)) for k, v in re.findall(r"count\[([^\]]+)\]=(\d+)", m.group(3)))
    return info


_WITNESS_CACHE = {}


def distance_witness(chk, binary, idx_deps):
    if "w" not in _WITNESS_CACHE:
        _WITNESS_CACHE["w"] = _distance_witness(chk, binary, idx_deps)
    return _WITNESS_CACHE["w"]


def _distance_witness(chk, binary, idx_deps):
    """Machine-check the negation of the full-strength Line3_distanceToLine statement on a rational unit-direction
    witness against the CURRENT Gen, and replay the witness on the real code at double."""
    rc, out = lib.lean_run_file(WITNESS, timeout=600, name="c15witness")
    m = re.search(r"WITNESS skew (\S+) parallel (\S+)", out)
    ax = re.findall(r"'(witness_\w+)' (does not depend on any axioms|depends on axioms: \[[^\]]*\])", out)
    lean_ok = rc == 0 and m is not None and "error" not in out
    real = []
    for args in (["0", "0", "0", "1", "0", "0", "0", "0", "1", "0.6", "0.8", "0"], ["0", "0", "0", "1", "0", "0", "0", "2", "0", "1", "0", "0"]):
        cmd = [binary, "real", "Line3.distanceToLine"] + args
        for d in idx_deps:
            cmd += ["--idx", d]
        rc2, o2 = lib.sh(cmd, timeout=120)
        real.append(o2.strip().split("\n")[-1] if o2.strip() else None)
    if not lean_ok:
        return None
    return {"key": "theorem:Line3_distanceToLine",
            "failing_input": {"skew": "l1 = (0,0,0)+s(1,0,0), l2 = (0,0,1)+t(3/5,4/5,0): true distance 1 (common perpendicular (0,0,0)-(0,0,1))",
                              "parallel": "m1 = (0,0,0)+s(1,0,0), m2 = (0,2,0)+t(1,0,0): true distance 2"},
            "model_value_at_Rat": {"skew": m.group(1), "parallel": m.group(2)},
            "negation_machine_checked": "theorems witness_skew / witness_parallel (simp only + norm_num) against the regenerated Gen.Line3.distanceToLine",
            "witness_axioms": ax,
            "real_code_at_double": {"skew (expected 1)": real[0], "parallel (expected 2)": real[1]},
            "reading": "the code returns |(p2-p1).(d1 x d2)| without dividing by |d1 x d2|: distance * sin(angle), and 0 for parallel lines",
            "minimal_fix": "ImathLine.h Line3<T>::distanceTo(const Line3&): Vec3<T> n = dir % line.dir; T l = n.length(); "
                           "if (l == T(0)) return distanceTo(line.pos); T d = (n ^ (line.pos - pos)) / l; return (d >= 0) ? d : -d;"}


# ---------------------------------------------------------------------------
# exact-arithmetic failing-input search for the functions whose decisions have boundaries (triangle edges, tangent and
# zero sphere roots): the regenerated Gen definitions are evaluated at Rat (square root: exact on the perfect squares
# that occur) on rational configurations INCLUDING the boundary cases, against answers computed here with Fractions
# from the geometric definition (not from the code).

from fractions import Fraction as Fr

RAT_PRELUDE = """
def rsqrt (x : Rat) : Rat := (Nat.sqrt x.num.natAbs : Rat) / (Nat.sqrt x.den : Rat)
def fr (r : Rat) : String := s!"{r.num}/{r.den}"
def fv (v : ImathVerif.V3 Rat) : String := fr v.x ++ " " ++ fr v.y ++ " " ++ fr v.z
"""


def _q(x):
    x = Fr(x)
    return "((%d : Rat) / %d)" % (x.numerator, x.denominator)


def _extra_args(meta):
    out = []
    for e in troute.EXTRA_ORDER:
        if e in (meta.get("extra") or "").split(","):
            out.append({"tmin": "((1 : Rat) / 1024)", "tmax": "(1048576 : Rat)", "teps": "((1 : Rat) / 64)", "sqrt": "rsqrt"}.get(e, "rsqrt"))
    return " ".join(out)


def rat_grid_search(chk, index, which, binary=None, idx_deps=()):
    meta = {d["name"]: d for d in index}
    cases, lines = [], ["import ImathVerif.Gen.C15Algo", "import ImathVerif.Gen.C15Sphere", "open ImathVerif ImathVerif.Gen", RAT_PRELUDE]
    if which == "triangle" and "LineAlgo.intersect" in meta:
        ex = _extra_args(meta["LineAlgo.intersect"])
        v0, v1, v2 = (0, 0, 0), (3, 0, 0), (0, 4, 0)          # edge lengths 3, 5, 4; normal (v2-v1)x(v1-v0) = (0,0,-12)
        for up in (1, -1):
            for i in range(-2, 9):
                for j in range(-2, 10):
                    x, y = Fr(i, 2), Fr(j, 2)
                    b1, b2 = x / 3, y / 4
                    b0 = 1 - b1 - b2
                    hit = b0 >= 0 and b1 >= 0 and b2 >= 0
                    front = (up == -1)                          # dir = (0,0,-up); dir . N = 12*up < 0 iff up = -1
                    cases.append({"fn": "LineAlgo.intersect", "input": {"line.pos": [str(x), str(y), str(up)], "line.dir": [0, 0, -up], "v0": v0, "v1": v1, "v2": v2},
                                  "expect": ("1 %s %s 0/1 %s %s %s %d" % (_f(x), _f(y), _f(b0), _f(b1), _f(b2), 1 if front else 0)) if hit else "0",
                                  "class": "on-edge-or-vertex" if hit and 0 in (b0, b1, b2) else ("inside" if hit else "outside")})
                    call = "(LineAlgo.intersect %s ⟨⟨%s, %s, %s⟩, ⟨0, 0, %s⟩⟩ ⟨0, 0, 0⟩ ⟨3, 0, 0⟩ ⟨0, 4, 0⟩)" % (ex, _q(x), _q(y), _q(up), _q(-up))
                    lines.append('#eval IO.println (let r := %s; "RATGRID %d " ++ (if r.1 then "1 " ++ fv r.2.1 ++ " " ++ fv r.2.2.1 ++ (if r.2.2.2 then " 1" else " 0") else "0"))' % (call, len(cases) - 1))
    if which == "sphere" and "Sphere3.intersectT" in meta:
        ex = _extra_args(meta["Sphere3.intersectT"])
        for (py, pz, sr) in ((0, 0, 5), (3, 0, 4), (4, 0, 3), (3, 4, 0), (5, 0, 0), (6, 0, None), (4, 4, None)):
            for i in range(-16, 17):
                px = Fr(i, 2)
                if sr is None:
                    exp, cls = "0", "miss"
                else:
                    t0, t1 = -px - sr, -px + sr
                    if t0 >= 0: exp, cls = "1 " + _f(t0), ("root-at-zero" if t0 == 0 else ("tangent" if sr == 0 else "outside-in-front"))
                    elif t1 >= 0: exp, cls = "1 " + _f(t1), ("root-at-zero" if t1 == 0 else "origin-inside")
                    else: exp, cls = "0", "behind"
                cases.append({"fn": "Sphere3.intersectT", "input": {"sphere": [0, 0, 0, 5], "line.pos": [str(px), py, pz], "line.dir": [1, 0, 0]}, "expect": exp, "class": cls})
                call = "(Sphere3.intersectT %s ⟨⟨0, 0, 0⟩, 5⟩ ⟨⟨%s, %s, %s⟩, ⟨1, 0, 0⟩⟩)" % (ex, _q(px), _q(py), _q(pz))
                lines.append('#eval IO.println (let r := %s; "RATGRID %d " ++ (if r.1 then "1 " ++ fr r.2 else "0"))' % (call, len(cases) - 1))
    if not cases:
        return None
    rc, out = lib.lean_run_file("\n".join(lines) + "\n", timeout=900, name="c15grid")
    got = dict((int(m.group(1)), m.group(2).strip()) for m in re.finditer(r"RATGRID (\d+) ([^\n]*)", out))
    if len(got) < len(cases) // 2:
        lib.log("rat_grid_search(%s): could not evaluate: %s" % (which, out[-400:]))
        return None
    chk.extra.setdefault("rat_grid_search", {})[which] = {"cases": len(cases), "evaluated": len(got)}
    bad = [(i, c) for i, c in enumerate(cases) if i in got and got[i] != c["expect"]]
    if not bad:
        return None
    i, c = bad[0]
    real = None
    if binary:
        nums = []
        for k, v in c["input"].items():
            nums += [repr(float(Fr(str(x)))) for x in v]
        cmd = [binary, "real", c["fn"]] + nums
        for d in idx_deps:
            cmd += ["--idx", d]
        rc2, o2 = lib.sh(cmd, timeout=120)
        real = o2.strip().split("\n")[-1] if o2.strip() else None
    return {"real_code_at_double": real, "function": c["fn"], "failing_input": c["input"], "class": c["class"], "expected_from_the_geometric_definition": c["expect"],
            "model_at_Rat": got[i], "output_format": "hit pt.x pt.y pt.z b.x b.y b.z front  |  hit t", "falsified_cases": len(bad),
            "classes_falsified": sorted(set(c2["class"] for _, c2 in bad)),
            "evaluated_at": "Rat (exact), Gen definitions regenerated from the current tree, sqrt exact on the perfect squares that occur"}


def _f(x):
    x = Fr(x)
    return "%d/%d" % (x.numerator, x.denominator)


def run(chk):
    chk.trusted = ["Lean 4.33 kernel; axioms propext/Classical.choice/Quot.sound at most", "Mathlib's ordered-field algebra (ring, field_simp, linarith)",
                   "translator harness/sym (T = Sym path extraction; Vec::length and Plane3::set(p1,p2,p3) modular), validated each run by TV "
                   "(bitwise at float and double) and by evaluating the emitted Lean text at Rat",
                   "__float128 evaluation from integer lattice data as the oracle of the measured rounding residue"]
    chk.assumptions = ["theorems are over an arbitrary ordered field (exact arithmetic); `sqrt` is a parameter with the hypothesis SqrtSpec "
                       "(LenSpec for Vec::length is DERIVED from it for the real bodies: V3_length_LenSpec); sin/cos of rotatePoint are parameters",
                       "lines are assumed to have unit directions where the C++ documents that assumption (closestPoints, closestPointTo(line), "
                       "Sphere3::intersectT, rotatePoint); Plane3 * Matrix44 is proved for non-singular affine matrices with m[3][3] = 1",
                       "rounding: NOT proved; measured on lattice configurations against the exact answers with bounds c*eps*scale*conditioning (partial)"]
    chk.rule = ("theorems: all inputs over any ordered field. residue: points on the integer lattice [-4,4]^3 (lines through two lattice points, "
                "planes through three, spheres with integer centre/radius, lattice triangles with half of the lines aimed at lattice points of the "
                "triangle's plane incl. edges and vertices), a FAR class translated by (1024,-2048,512), exactly parallel and nearly parallel "
                "(direction ratio 4..64) line pairs; float and double; decisions within c*eps of an edge / tangency / parallelism are counted, not judged")
    bins = troute.build_extractors(chk, [dict(name="sym_leaf", source="sym/sym_leaf.cpp"), dict(name="sym_c15", source="sym/sym_c15.cpp"),
                                         dict(name="sym_c15b", source="sym/sym_c15b.cpp"), dict(name="c15_residue", source="corr/c15_residue.cpp")])
    leaf_idx = os.path.join(troute.GEN, "index_leaf.txt")
    c15_idx = os.path.join(troute.GEN, "index_c15.txt")
    index = []
    if bins.get("sym_leaf"):
        troute.regenerate(chk, bins["sym_leaf"], "leaf")
    if bins.get("sym_c15"):
        index, changed = troute.regenerate(chk, bins["sym_c15"], "c15", idx_deps=[leaf_idx])
        troute.tv(chk, bins["sym_c15"], "c15", 400 if chk.thorough else 64, idx_deps=[leaf_idx])
        troute.lean_tv(chk, bins["sym_c15"], "c15", index, n=8 if chk.thorough else 3, idx_deps=[leaf_idx])
    if bins.get("sym_c15b") and bins.get("sym_c15"):
        index2, changed2 = troute.regenerate(chk, bins["sym_c15b"], "c15b", idx_deps=[leaf_idx, c15_idx])
        troute.tv(chk, bins["sym_c15b"], "c15b", 400 if chk.thorough else 64, idx_deps=[leaf_idx, c15_idx])
        index = index + index2
    for d in index[:6]:
        chk.sample({"entry": d["name"], "paths": d.get("paths")})

    # residue first: it is also the failing-input finder of the theorem search
    res = run_residue(chk, bins["c15_residue"], 6000 if chk.thorough else 1500) if bins.get("c15_residue") else {"ran": False, "fails": {}}

    def search(name):
        if name == "Line3_distanceToLine":
            w = distance_witness(chk, bins.get("sym_c15"), [leaf_idx]) if bins.get("sym_c15") else None
            if w:
                return w
        # decisions with boundaries: exact evaluation of the model on rational configurations incl. the boundary cases
        which = "triangle" if (name.startswith("tri_") or name.startswith("LineAlgo_intersect")) else ("sphere" if name.startswith("Sphere3_intersect") else None)
        if which:
            g = rat_grid_search(chk, index, which, binary=bins.get("sym_c15"), idx_deps=[leaf_idx])
            if g:
                return dict(g, key="theorem:" + name)
        # statements without hypotheses: evaluate them at Rat on random inputs
        rep = troute.lean_search(chk, PROPS, name, IMPORTS, ["ImathVerif", "ImathVerif.Geo"], binary=bins.get("sym_c15"), idx_deps=[leaf_idx])
        if rep:
            return rep
        # otherwise: a concrete input on which the real code disagrees with the exact lattice oracle
        for fn in THEOREM_FUNCS.get(name, []):
            if res["fails"].get(fn):
                f = res["fails"][fn][0]
                return {"key": "theorem:" + name, "function": fn, "failing_input_lattice": f["input"], "class": f["class"], "element_type": f["element_type"],
                        "detail": f["detail"], "found_by": "harness/corr/c15_residue.cpp: real code vs exact oracle computed from the integer lattice data",
                        "failing_cases_of_this_function": len(res["fails"][fn])}
        return None

    built, _ = chk.check_theorems(PROPS, search=search)

    # residue obligations: one per function of the harness
    ok_run = res.get("ran", False)
    chk.oblige("residue: harness ran", "residue", ok_run, None if ok_run else res.get("output_tail"))
    if not ok_run:
        chk.fail("residue", "residue:run", "residue harness failed to run", {"output": res.get("output_tail")}, False)
    else:
        chk.count(res["evals"], res["evals"])
        fns = sorted(set(k.split(":")[0] for k in res["maxima"]) | set(res["fails"]))
        for fn in fns:
            bad = res["fails"].get(fn, [])
            chk.oblige("residue:%s: real float/double results = exact lattice answers to c*eps*scale*cond; decisions agree away from edges" % fn,
                       "residue", not bad, bad[:2] or None)
            if bad:
                th = FUNC_THEOREM.get(fn)
                key = "theorem:" + th if th else "residue:%s:%s" % (fn, bad[0]["class"])
                rep = dict(bad[0], failing_cases=len(bad), found_by="harness/corr/c15_residue.cpp (real code vs exact lattice oracle)")
                if th == "Line3_distanceToLine":
                    w = distance_witness(chk, bins.get("sym_c15"), [leaf_idx]) if bins.get("sym_c15") else None
                    if w:
                        rep.update(w)
                chk.fail("residue:" + fn, key, "real code disagrees with the exact answer on a lattice configuration: %s (%s, %s) %s"
                         % (fn, bad[0]["class"], bad[0]["element_type"], bad[0]["detail"]), rep, True)
        chk.residues["C15"] = {"evaluations": res["evals"],
                               "worst_error_in_units_of_eps_times_scale_times_conditioning": res["maxima"],
                               "bounds": "4 (unit vectors), 16-64 (points, distances, parameters); conditioning 1/sin^2 for line pairs, 1/|cos| for "
                                         "line-plane and line-triangle hits, |p||e|/|N| for barycentrics, 1+scale/sqrt(disc) for sphere roots",
                               "counted_not_judged": res["counts"]}
    if chk.thorough:
        # the model at Rat against the geometric definition on rational configurations incl. every boundary case
        for which in ("triangle", "sphere"):
            g = rat_grid_search(chk, index, which, binary=bins.get("sym_c15"), idx_deps=[leaf_idx])
            n = chk.extra.get("rat_grid_search", {}).get(which, {}).get("evaluated", 0)
            chk.oblige("rat-grid:%s: model at Rat = geometric definition on %d rational configurations incl. edges/vertices/tangency/zero roots" % (which, n),
                       "correspondence", g is None and n > 0, g)
            chk.count(n, n)
            if g:
                chk.fail("rat-grid:" + which, "rat-grid:%s:%s" % (g["function"], g["class"]), "the extracted model disagrees with the geometric definition in exact arithmetic", g, True)
        if built:
            chk.leanchecker(PROPS)   # needs the compiled module: skipped while a theorem of the module is reported as failing
