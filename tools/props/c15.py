"""C15 — line, plane, sphere, triangle primitives (T-route + measured rounding residue on lattice configurations)."""
import os, re
import lib, troute

PROPS = "ImathVerif.Props.C15"
IMPORTS = ["ImathVerif.Spec.GeoSpec", "ImathVerif.Gen.C15Line", "ImathVerif.Gen.C15Plane", "ImathVerif.Gen.C15PlaneMul",
           "ImathVerif.Gen.C15Sphere", "ImathVerif.Gen.C15Algo"]

# theorem of Props/C15.lean -> functions of the residue harness that exercise it (the harness compares the REAL code with
# an independent exact oracle, so it is the failing-input finder for theorems with hypotheses)
THEOREM_FUNCS = {
    "Line3_set": ["Line3.set"], "Line3_set_degenerate": ["Line3.set"], "Line3_ctor": ["Line3.set"], "Line3_eval": ["Line3.eval"],
    "Line3_closestPointToPoint_def": ["Line3.closestPointToPoint"], "Line3_closestPointToPoint": ["Line3.closestPointToPoint"],
    "Line3_closestPointToPoint_perp": ["Line3.closestPointToPoint"],
    "Line3_distanceToPoint": ["Line3.distanceToPoint", "Line3.closestPointToPoint"],
    "Line3_closestPointToLine": ["Line3.closestPointToLine"],
    "closestPoints_cases": ["LineAlgo.closestPoints"], "LineAlgo_closestPoints": ["LineAlgo.closestPoints"],
    "LineAlgo_closestPoints_no_div_by_zero": ["LineAlgo.closestPoints"],
    "Line3_distanceToLine": ["Line3.distanceToLine"], "Line3_distanceToLine_perpendicular": ["Line3.distanceToLine"],
    "Line3_distanceToLine_witness_skew": ["Line3.distanceToLine"], "Line3_distanceToLine_witness_parallel": ["Line3.distanceToLine"],
    "Plane3_setPoints": ["Plane3.setPoints", "Plane3.distanceTo"], "Plane3_setPoints_degenerate": ["Plane3.setPoints"],
    "Plane3_ctorPoints": ["Plane3.setPoints"], "Plane3_setPointNormal": ["Plane3.setPointNormal"],
    "Plane3_ctorPointNormal": ["Plane3.setPointNormal"], "Plane3_setNormalDistance": ["Plane3.setNormalDistance"],
    "Plane3_ctorNormalDistance": ["Plane3.setNormalDistance"], "Plane3_distanceTo": ["Plane3.distanceTo"],
    "Plane3_reflectPoint": ["Plane3.reflectPoint"], "Plane3_reflectVector": ["Plane3.reflectVector"],
    "Plane3_intersectT": ["Plane3.intersectT"], "Plane3_intersect": ["Plane3.intersect", "Plane3.intersectT"], "Plane3_neg": ["Plane3.neg"],
    "Plane3_mulM44_cases": ["Plane3.mulM44"], "Plane3_mulM44": ["Plane3.mulM44"], "Plane3_mulM44_contains": ["Plane3.mulM44"],
    "Plane3_mulM44_sides": ["Plane3.mulM44"],
    "Sphere3_intersectT": ["Sphere3.intersectT"], "Sphere3_intersect": ["Sphere3.intersect", "Sphere3.intersectT"],
    "Sphere3_circumscribe": ["Sphere3.circumscribe"],
    "tri_spec": ["LineAlgo.intersect"], "tri_facts": ["LineAlgo.intersect"], "LineAlgo_intersect_sound": ["LineAlgo.intersect"],
    "LineAlgo_intersect_complete": ["LineAlgo.intersect"], "LineAlgo_intersect_degenerate": ["LineAlgo.intersect"],
    "LineAlgo_closestVertex": ["LineAlgo.closestVertex"], "LineAlgo_rotatePoint": ["LineAlgo.rotatePoint"],
    "LineAlgo_rotatePoint_circle": ["LineAlgo.rotatePoint"],
}
for _n in ("2", "3", "4"):
    for _f in ("project", "orthogonal", "reflect", "closestVertex"):
        THEOREM_FUNCS["VecAlgo%s_%s" % (_n, _f)] = ["VecAlgo%s.%s" % (_n, _f)] + (["VecAlgo%s.project" % _n] if _f != "closestVertex" else [])

# the theorem that carries a function's failures when they are reported by the residue harness alone
FUNC_THEOREM = {"Line3.distanceToLine": "Line3_distanceToLine"}

WITNESS = r'''
import ImathVerif.Gen.C15Line
open ImathVerif
def rsqrt (x : Rat) : Rat := (Nat.sqrt x.num.natAbs : Rat) / (Nat.sqrt x.den : Rat)
/-- the inputs on which the code was wrong before /repo commit 0d82c71 (it returned 4/5 and 0), a perpendicular pair and
a 3-4-5 skew pair; true distances 1, 2, 3, 1 -/
def l1 : Line3 Rat := ⟨⟨0, 0, 0⟩, ⟨1, 0, 0⟩⟩
def l2 : Line3 Rat := ⟨⟨0, 0, 1⟩, ⟨3 / 5, 4 / 5, 0⟩⟩
def m2 : Line3 Rat := ⟨⟨0, 2, 0⟩, ⟨1, 0, 0⟩⟩
def p2 : Line3 Rat := ⟨⟨5, 7, 3⟩, ⟨0, 1, 0⟩⟩
def q2 : Line3 Rat := ⟨⟨2, 2, 1⟩, ⟨-4 / 5, 3 / 5, 0⟩⟩
def D (a b : Line3 Rat) : Rat := by
  first
    | exact Gen.Line3.distanceToLine ((1 : Rat) / 1024) (1048576 : Rat) rsqrt a b
    | exact Gen.Line3.distanceToLine ((1 : Rat) / 1024) rsqrt a b
    | exact Gen.Line3.distanceToLine rsqrt a b
    | exact Gen.Line3.distanceToLine a b
#eval IO.println s!"WITNESS {D l1 l2} {D l1 m2} {D l1 p2} {D l1 q2}"
'''
WITNESS_EXPECT = ["1", "2", "3", "1"]
WITNESS_INPUTS = [("skew 3-4-5 (old code: 4/5)", ["0", "0", "0", "1", "0", "0", "0", "0", "1", "0.6", "0.8", "0"]),
                  ("parallel (old code: 0)", ["0", "0", "0", "1", "0", "0", "0", "2", "0", "1", "0", "0"]),
                  ("perpendicular", ["0", "0", "0", "1", "0", "0", "5", "7", "3", "0", "1", "0"]),
                  ("skew 3-4-5 rotated", ["0", "0", "0", "1", "0", "0", "2", "2", "1", "-0.8", "0.6", "0"])]


def run_residue(chk, binary, n):
    rc, out = lib.sh([binary, str(chk.seed), str(n)], timeout=1800)
    m = re.search(r"C15-RESIDUE evals=(\d+) failures=(\d+)(.*)", out)
    fails = {}
    for l in out.split("\n"):
        mm = re.match(r"C15-FAIL (\S+) (\S+) T=(\S+) (.*?) in=(.*)", l)
        if mm:
            fails.setdefault(mm.group(1), []).append({"function": mm.group(1), "class": mm.group(2), "element_type": mm.group(3),
                                                      "detail": mm.group(4), "input": mm.group(5).split()})
    info = {"ran": rc in (0, 1) and m is not None, "fails": fails, "output_tail": out[-1500:]}
    if m:
        info["evals"] = int(m.group(1))
        info["maxima"] = dict((k, float(v)) for k, v in re.findall(r"max\[([^\]]+)\]=(\S+)", m.group(3)))
        info["counts"] = dict((k, int(v)) for k, v in re.findall(r"count\[([^\]]+)\]=(\d+)", m.group(3)))
    return info


PARALLEL_KEY = "closestPoints:exactly-parallel-reported-true"


def parallel_repro(binary, idx_deps):
    """fixed concrete instance: l1 = Line3d((0,0,0),(1,0,1)), l2 = Line3d((1,0,0),(2,0,1)); both stored directions are the
    same doubles (1/sqrt2, 0, 1/sqrt2) but fl(dir.dir) = 1 - 2^-52, so 1 - (d1.d2)^2 = 4.4e-16 instead of 0 and the code divides"""
    import math
    c = 1.0 / math.sqrt(2.0)
    out = {"concrete_input": "closestPoints(Line3d(V3d(0,0,0),V3d(1,0,1)), Line3d(V3d(1,0,0),V3d(2,0,1)), p1, p2): stored directions bitwise equal "
                             "(0.70710678118654746,0,0.70710678118654746); returns true, p1=(0.176777,0,0.176777), p2=(0.823223,0,-0.176777), "
                             "|p1-p2|=0.736813, true distance 0.707107 (any point pair on a common perpendicular)",
           "reading": "d1.d2 is computed as fl(dir.dir) = 0.99999999999999978, so d = 1 - d1d2^2 = 4.4e-16 is not 0 and the guard (which only "
                      "tests overflow of n/d) passes: parallel lines AS REPRESENTED are not reported and the returned points are not closest"}
    if binary:
        cmd = [binary, "real", "LineAlgo.closestPoints", "0", "0", "0", repr(c), "0", repr(c), "1", "0", "0", repr(c), "0", repr(c)]
        for d in idx_deps:
            cmd += ["--idx", d]
        rc, o = lib.sh(cmd, timeout=120)
        out["real_code_at_double"] = o.strip().split("\n")[-1] if o.strip() else None
    return out


_WITNESS_CACHE = {}


def distance_witness(chk, binary, idx_deps):
    if "w" not in _WITNESS_CACHE:
        _WITNESS_CACHE["w"] = _distance_witness(chk, binary, idx_deps)
    return _WITNESS_CACHE["w"]


def _distance_witness(chk, binary, idx_deps):
    """Evaluate the regenerated Gen.Line3.distanceToLine at Rat (exact) on rational unit-direction line pairs with known
    distances and replay them on the real code at double; returns a replay dict if a value is wrong, else None."""
    rc, out = lib.lean_run_file(WITNESS, timeout=600, name="c15witness")
    m = re.search(r"WITNESS (\S+) (\S+) (\S+) (\S+)", out)
    if not m:
        lib.log("distance witness could not be evaluated: " + out[-300:])
        return None
    got = list(m.groups())
    real = {}
    for (what, args), exp in zip(WITNESS_INPUTS, WITNESS_EXPECT):
        cmd = [binary, "real", "Line3.distanceToLine"] + args
        for d in idx_deps:
            cmd += ["--idx", d]
        rc2, o2 = lib.sh(cmd, timeout=120)
        real["%s (expected %s)" % (what, exp)] = o2.strip().split("\n")[-1] if o2.strip() else None
    bad = [i for i in range(4) if got[i] != WITNESS_EXPECT[i]]
    if not bad:
        return None
    return {"key": "theorem:Line3_distanceToLine",
            "failing_input": {"lines (pos, dir)": WITNESS_INPUTS[bad[0]][1], "which": WITNESS_INPUTS[bad[0]][0]},
            "expected_distance": WITNESS_EXPECT[bad[0]], "model_value_at_Rat": got[bad[0]],
            "all_model_values": got, "all_expected": WITNESS_EXPECT, "real_code_at_double": real,
            "evaluated_at": "Rat (exact; sqrt exact on the perfect squares that occur), Gen regenerated from the current tree"}

# ---------------------------------------------------------------------------
# exact-arithmetic failing-input search for the functions whose decisions have boundaries (triangle edges, tangent and
# zero sphere roots): the regenerated Gen definitions are evaluated at Rat (square root: exact on the perfect squares
# that occur) on rational configurations INCLUDING the boundary cases, against answers computed here with Fractions
# from the geometric definition (not from the code).

from fractions import Fraction as Fr

RAT_PRELUDE = """
def rsqrt (x : Rat) : Rat := (Nat.sqrt x.num.natAbs : Rat) / (Nat.sqrt x.den : Rat)
def fr (r : Rat) : String := s!"{r.num}/{r.den}"
def fv (v : ImathVerif.V3 Rat) : String := fr v.x ++ " " ++ fr v.y ++ " " ++ fr v.z
"""


def _q(x):
    x = Fr(x)
    return "((%d : Rat) / %d)" % (x.numerator, x.denominator)


def _extra_args(meta):
    out = []
    for e in troute.EXTRA_ORDER:
        if e in (meta.get("extra") or "").split(","):
            out.append({"tmin": "((1 : Rat) / 1024)", "tmax": "(1048576 : Rat)", "teps": "((1 : Rat) / 64)", "sqrt": "rsqrt"}.get(e, "rsqrt"))
    return " ".join(out)


def rat_grid_search(chk, index, which, binary=None, idx_deps=()):
    meta = {d["name"]: d for d in index}
    cases, lines = [], ["import ImathVerif.Gen.C15Algo", "import ImathVerif.Gen.C15Sphere", "open ImathVerif ImathVerif.Gen", RAT_PRELUDE]
    if which == "triangle" and "LineAlgo.intersect" in meta:
        ex = _extra_args(meta["LineAlgo.intersect"])
        v0, v1, v2 = (0, 0, 0), (3, 0, 0), (0, 4, 0)          # edge lengths 3, 5, 4; normal (v2-v1)x(v1-v0) = (0,0,-12)
        for up in (1, -1):
            for i in range(-2, 9):
                for j in range(-2, 10):
                    x, y = Fr(i, 2), Fr(j, 2)
                    b1, b2 = x / 3, y / 4
                    b0 = 1 - b1 - b2
                    hit = b0 >= 0 and b1 >= 0 and b2 >= 0
                    front = (up == -1)                          # dir = (0,0,-up); dir . N = 12*up < 0 iff up = -1
                    cases.append({"fn": "LineAlgo.intersect", "input": {"line.pos": [str(x), str(y), str(up)], "line.dir": [0, 0, -up], "v0": v0, "v1": v1, "v2": v2},
                                  "expect": ("1 %s %s 0/1 %s %s %s %d" % (_f(x), _f(y), _f(b0), _f(b1), _f(b2), 1 if front else 0)) if hit else "0",
                                  "class": "on-edge-or-vertex" if hit and 0 in (b0, b1, b2) else ("inside" if hit else "outside")})
                    call = "(LineAlgo.intersect %s ⟨⟨%s, %s, %s⟩, ⟨0, 0, %s⟩⟩ ⟨0, 0, 0⟩ ⟨3, 0, 0⟩ ⟨0, 4, 0⟩)" % (ex, _q(x), _q(y), _q(up), _q(-up))
                    lines.append('#eval IO.println (let r := %s; "RATGRID %d " ++ (if r.1 then "1 " ++ fv r.2.1 ++ " " ++ fv r.2.2.1 ++ (if r.2.2.2 then " 1" else " 0") else "0"))' % (call, len(cases) - 1))
    if which == "sphere" and "Sphere3.intersectT" in meta:
        ex = _extra_args(meta["Sphere3.intersectT"])
        for (py, pz, sr) in ((0, 0, 5), (3, 0, 4), (4, 0, 3), (3, 4, 0), (5, 0, 0), (6, 0, None), (4, 4, None)):
            for i in range(-16, 17):
                px = Fr(i, 2)
                if sr is None:
                    exp, cls = "0", "miss"
                else:
                    t0, t1 = -px - sr, -px + sr
                    if t0 >= 0: exp, cls = "1 " + _f(t0), ("root-at-zero" if t0 == 0 else ("tangent" if sr == 0 else "outside-in-front"))
                    elif t1 >= 0: exp, cls = "1 " + _f(t1), ("root-at-zero" if t1 == 0 else "origin-inside")
                    else: exp, cls = "0", "behind"
                cases.append({"fn": "Sphere3.intersectT", "input": {"sphere": [0, 0, 0, 5], "line.pos": [str(px), py, pz], "line.dir": [1, 0, 0]}, "expect": exp, "class": cls})
                call = "(Sphere3.intersectT %s ⟨⟨0, 0, 0⟩, 5⟩ ⟨⟨%s, %s, %s⟩, ⟨1, 0, 0⟩⟩)" % (ex, _q(px), _q(py), _q(pz))
                lines.append('#eval IO.println (let r := %s; "RATGRID %d " ++ (if r.1 then "1 " ++ fr r.2 else "0"))' % (call, len(cases) - 1))
    if not cases:
        return None
    rc, out = lib.lean_run_file("\n".join(lines) + "\n", timeout=900, name="c15grid")
    got = dict((int(m.group(1)), m.group(2).strip()) for m in re.finditer(r"RATGRID (\d+) ([^\n]*)", out))
    if len(got) < len(cases) // 2:
        lib.log("rat_grid_search(%s): could not evaluate: %s" % (which, out[-400:]))
        return None
    chk.extra.setdefault("rat_grid_search", {})[which] = {"cases": len(cases), "evaluated": len(got)}
    bad = [(i, c) for i, c in enumerate(cases) if i in got and got[i] != c["expect"]]
    if not bad:
        return None
    i, c = bad[0]
    real = None
    if binary:
        nums = []
        for k, v in c["input"].items():
            nums += [repr(float(Fr(str(x)))) for x in v]
        cmd = [binary, "real", c["fn"]] + nums
        for d in idx_deps:
            cmd += ["--idx", d]
        rc2, o2 = lib.sh(cmd, timeout=120)
        real = o2.strip().split("\n")[-1] if o2.strip() else None
    return {"real_code_at_double": real, "function": c["fn"], "failing_input": c["input"], "class": c["class"], "expected_from_the_geometric_definition": c["expect"],
            "model_at_Rat": got[i], "output_format": "hit pt.x pt.y pt.z b.x b.y b.z front  |  hit t", "falsified_cases": len(bad),
            "classes_falsified": sorted(set(c2["class"] for _, c2 in bad)),
            "evaluated_at": "Rat (exact), Gen definitions regenerated from the current tree, sqrt exact on the perfect squares that occur"}


def _f(x):
    x = Fr(x)
    return "%d/%d" % (x.numerator, x.denominator)


def run(chk):
    chk.trusted = ["Lean 4.33 kernel; axioms propext/Classical.choice/Quot.sound at most", "Mathlib's ordered-field algebra (ring, field_simp, linarith)",
                   "translator harness/sym (T = Sym path extraction; Vec::length and Plane3::set(p1,p2,p3) modular), validated each run by TV "
                   "(bitwise at float and double) and by evaluating the emitted Lean text at Rat",
                   "__float128 evaluation from integer lattice data as the oracle of the measured rounding residue"]
    chk.assumptions = ["theorems are over an arbitrary ordered field (exact arithmetic); `sqrt` is a parameter with the hypothesis SqrtSpec "
                       "(LenSpec for Vec::length is DERIVED from it for the real bodies: V3_length_LenSpec); sin/cos of rotatePoint are parameters",
                       "lines are assumed to have unit directions where the C++ documents that assumption (closestPoints, closestPointTo(line), "
                       "Sphere3::intersectT, rotatePoint); Plane3 * Matrix44 is proved for non-singular affine matrices with m[3][3] = 1",
                       "rounding: NOT proved; measured on lattice configurations against the exact answers with bounds c*eps*scale*conditioning (partial)"]
    chk.rule = ("theorems: all inputs over any ordered field. residue: points on the integer lattice [-4,4]^3 (lines through two lattice points, "
                "planes through three, spheres with integer centre/radius, lattice triangles with half of the lines aimed at lattice points of the "
                "triangle's plane incl. edges and vertices), a FAR class translated by (1024,-2048,512), exactly parallel and nearly parallel "
                "(direction ratio 4..64) line pairs; float and double; decisions within c*eps of an edge / tangency / parallelism are counted, not judged")
    bins = troute.build_extractors(chk, [dict(name="sym_leaf", source="sym/sym_leaf.cpp"), dict(name="sym_c15", source="sym/sym_c15.cpp"),
                                         dict(name="sym_c15b", source="sym/sym_c15b.cpp"), dict(name="c15_residue", source="corr/c15_residue.cpp")])
    leaf_idx = os.path.join(troute.GEN, "index_leaf.txt")
    c15_idx = os.path.join(troute.GEN, "index_c15.txt")
    index = []
    if bins.get("sym_leaf"):
        troute.regenerate(chk, bins["sym_leaf"], "leaf")
    if bins.get("sym_c15"):
        index, changed = troute.regenerate(chk, bins["sym_c15"], "c15", idx_deps=[leaf_idx])
        troute.tv(chk, bins["sym_c15"], "c15", 400 if chk.thorough else 64, idx_deps=[leaf_idx])
        troute.lean_tv(chk, bins["sym_c15"], "c15", index, n=8 if chk.thorough else 3, idx_deps=[leaf_idx])
    if bins.get("sym_c15b") and bins.get("sym_c15"):
        index2, changed2 = troute.regenerate(chk, bins["sym_c15b"], "c15b", idx_deps=[leaf_idx, c15_idx])
        troute.tv(chk, bins["sym_c15b"], "c15b", 400 if chk.thorough else 64, idx_deps=[leaf_idx, c15_idx])
        index = index + index2
    for d in index[:6]:
        chk.sample({"entry": d["name"], "paths": d.get("paths")})

    # residue first: it is also the failing-input finder of the theorem search
    res = run_residue(chk, bins["c15_residue"], 6000 if chk.thorough else 1500) if bins.get("c15_residue") else {"ran": False, "fails": {}}

    def search(name):
        if name.startswith("Line3_distanceToLine"):
            w = distance_witness(chk, bins.get("sym_c15"), [leaf_idx]) if bins.get("sym_c15") else None
            if w:
                return dict(w, key="theorem:" + name)
        # decisions with boundaries: exact evaluation of the model on rational configurations incl. the boundary cases
        which = "triangle" if (name.startswith("tri_") or name.startswith("LineAlgo_intersect")) else ("sphere" if name.startswith("Sphere3_intersect") else None)
        if which:
            g = rat_grid_search(chk, index, which, binary=bins.get("sym_c15"), idx_deps=[leaf_idx])
            if g:
                return dict(g, key="theorem:" + name)
        # statements without hypotheses: evaluate them at Rat on random inputs
        rep = troute.lean_search(chk, PROPS, name, IMPORTS, ["ImathVerif", "ImathVerif.Geo"], binary=bins.get("sym_c15"), idx_deps=[leaf_idx])
        if rep:
            return rep
        # otherwise: a concrete input on which the real code disagrees with the exact lattice oracle
        for fn in THEOREM_FUNCS.get(name, []):
            if res["fails"].get(fn):
                f = res["fails"][fn][0]
                return {"key": "theorem:" + name, "function": fn, "failing_input_lattice": f["input"], "class": f["class"], "element_type": f["element_type"],
                        "detail": f["detail"], "found_by": "harness/corr/c15_residue.cpp: real code vs exact oracle computed from the integer lattice data",
                        "failing_cases_of_this_function": len(res["fails"][fn])}
        return None

    built, _ = chk.check_theorems(PROPS, search=search)

    # residue obligations: one per function of the harness
    ok_run = res.get("ran", False)
    chk.oblige("residue: harness ran", "residue", ok_run, None if ok_run else res.get("output_tail"))
    if not ok_run:
        chk.fail("residue", "residue:run", "residue harness failed to run", {"output": res.get("output_tail")}, False)
    else:
        chk.count(res["evals"], res["evals"])
        fns = sorted(set(k.split(":")[0] for k in res["maxima"]) | set(res["fails"]))
        for fn in fns:
            bad = res["fails"].get(fn, [])
            chk.oblige("residue:%s: real float/double results = exact lattice answers to c*eps*scale*cond; decisions agree away from edges" % fn,
                       "residue", not bad, bad[:2] or None)
            groups = {}
            for b in bad:
                if fn == "LineAlgo.closestPoints" and b["class"].startswith("exactly-parallel-reported-true"):
                    key = PARALLEL_KEY
                elif fn in FUNC_THEOREM:
                    key = "theorem:" + FUNC_THEOREM[fn]
                else:
                    key = "residue:%s:%s" % (fn, b["class"])
                groups.setdefault(key, []).append(b)
            for key, bs in groups.items():
                rep = dict(bs[0], failing_cases=len(bs), found_by="harness/corr/c15_residue.cpp (real code vs exact lattice oracle)",
                           input_layout="lattice points a0 a1 (line 1 = Line3(a0,a1)), b0 b1 (line 2), p")
                if key == PARALLEL_KEY:
                    rep.update(parallel_repro(bins.get("sym_c15"), [leaf_idx]))
                    rep["classes"] = sorted(set(b["class"] for b in bs))
                if key == "theorem:Line3_distanceToLine" and bins.get("sym_c15"):
                    w = distance_witness(chk, bins["sym_c15"], [leaf_idx])
                    if w:
                        rep.update(w)
                chk.fail("residue:" + fn, key, "real code disagrees with the exact answer on a lattice configuration: %s (%s, %s) %s"
                         % (fn, bs[0]["class"], bs[0]["element_type"], bs[0]["detail"]), rep, True)
        chk.residues["C15"] = {"evaluations": res["evals"],
                               "worst_error_in_units_of_eps_times_scale_times_conditioning": res["maxima"],
                               "bounds": "4 (unit vectors), 16-64 (points, distances, parameters); conditioning 1/sin^2 for line pairs, 1/|cos| for "
                                         "line-plane and line-triangle hits, |p||e|/|N| for barycentrics, 1+scale/sqrt(disc) for sphere roots",
                               "counted_not_judged": res["counts"]}
    if chk.thorough:
        # the model at Rat against the geometric definition on rational configurations incl. every boundary case
        for which in ("triangle", "sphere"):
            g = rat_grid_search(chk, index, which, binary=bins.get("sym_c15"), idx_deps=[leaf_idx])
            n = chk.extra.get("rat_grid_search", {}).get(which, {}).get("evaluated", 0)
            chk.oblige("rat-grid:%s: model at Rat = geometric definition on %d rational configurations incl. edges/vertices/tangency/zero roots" % (which, n),
                       "correspondence", g is None and n > 0, g)
            chk.count(n, n)
            if g:
                chk.fail("rat-grid:" + which, "rat-grid:%s:%s" % (g["function"], g["class"]), "the extracted model disagrees with the geometric definition in exact arithmetic", g, True)
        if built:
            chk.leanchecker(PROPS)   # needs the compiled module: skipped while a theorem of the module is reported as failing
