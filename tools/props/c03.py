"""C03 — half is a coherent numeric type: arithmetic, classes, limits, round(n).

Theorems (lean/ImathVerif/Props/C03.lean): unary minus, classification,
numeric_limits / HALF_* macros (Gen/HalfLimits.lean regenerated from the
CURRENT half.h), round(n) for every n and halfFunction — over ALL 2^16
patterns by kernel enumeration plus structural proofs.

Tie / exhaustive correspondence of the models with the real code
(harness/corr/half_c03.cpp against lean/Driver/Half.lean):
  classification + unary minus (2^16), round(n) for n = 0..12 (13 x 2^16),
  halfFunction with several f / domain choices (each 2^16).
Sub-claims that are NOT provable here and are decided by enumeration:
  compound arithmetic `a op= b` against the property's own right-hand side
  half(float(a) op float(b)) evaluated with the model conversions and Lean's
  Float32 operation (quick: all ordered pairs over ~6,000 boundary patterns x
  4 operators x {half rhs, float rhs} + 2,048 full rows; thorough: all 2^32 ordered half pairs x 4);
  text I/O: all 63,488 finite halves through the real operator<< / operator>>."""
import os, time
from concurrent.futures import ThreadPoolExecutor
import lib, gen_halflimits, halfcorr, halfspec

REQUIRED = ["neg_bits", "neg_value", "class_partition", "class_float_agree", "max_is_largest_finite",
            "min_is_smallest_normal", "denorm_min_is_smallest_positive", "epsilon_is_gap_above_one", "lowest_is_neg_max",
            "round_error_is_half", "digits_exact", "digits10_defining", "exponent_limits", "special_values", "macros_agree",
            "max_conversion_boundary", "round_identity", "round_spec", "round_coherent", "lut_size", "lut_spec",
            "halfLt_iff_value"]

OPS = ["+=", "-=", "*=", "/="]
LUTS = [("id", 0xfbff, 0x7bff, "default domain [-HALF_MAX, HALF_MAX]"),
        ("neg", 0x0000, 0x7bff, "[0, HALF_MAX] (the header's sqrt example); -0 is inside"),
        ("round3", 0xbc00, 0x3c00, "[-1, 1]"),
        ("id", 0x0000, 0x8000, "[+0, -0]: only the two zeros"),
        ("id", 0x3c00, 0xbc00, "inverted [1, -1]: nothing"),
        ("neg", 0xfc00, 0x7c00, "[-inf, +inf]"),
        ("id", 0x7e00, 0x3c00, "NaN domainMin: the lower test never excludes"),
        ("round3", 0x0001, 0x03ff, "denormals only"),
        ("id", 0x7c00, 0x7c00, "[+inf, +inf]: every finite value is below")]


def is_nan16(h):
    return (h & 0x7c00) == 0x7c00 and (h & 0x3ff) != 0


def boundary_halves(rng, total=6000):
    mags = {0, 1, 2, 3, 0x1ff, 0x200, 0x201, 0x3fe, 0x3ff, 0x400, 0x401, 0x402, 0x7bfe, 0x7bff, 0x7c00,
            0x7c01, 0x7c02, 0x7dff, 0x7e00, 0x7e01, 0x7fff, 0x7d55, 0x3555, 0x3bff, 0x3c00, 0x3c01, 0x3800, 0x1400, 0x6400, 0x6800,
            0x63ff, 0x6401, 0x67ff, 0x6801}
    for e in range(1, 31):
        b = e << 10
        mags.update({b, b + 1, b - 1, b | 0x200, b | 0x1ff, b | 0x201, b | 0x3ff, b | 0x3fe, b | 0x155, b | 0x2aa})
    pats = set()
    for m in mags:
        pats.add(m & 0x7fff)
        pats.add((m & 0x7fff) | 0x8000)
    while len(pats) < total:
        pats.add(rng.randrange(65536))
    return sorted(pats)


def boundary_floats(rng, halves, total=6000):
    fs = set()
    # every boundary half exactly, and the ties / near-ties between adjacent halves
    for h in halves[::3]:
        if is_nan16(h):
            continue
        f = halfspec.spec_h2f(h)
        fs.add(f)
        m = h & 0x7fff
        if 0 < m < 0x7c00 and len(fs) < total // 2:
            g = halfspec.spec_h2f((h & 0x8000) | (m + 1)) if m + 1 < 0x7c00 else None
            if g is not None and g - f >= 4:
                mid = (f + g) // 2
                fs.update({mid, mid - 1, mid + 1})
    sp = [0x00000000, 0x80000000, 0x00000001, 0x007fffff, 0x00800000, 0x7f7fffff, 0xff7fffff, 0x7f800000, 0xff800000,
          0x7f800001, 0x7fa00000, 0x7fc00000, 0xffc00000, 0x7fffffff, 0xff800001, 0x7f801fff, 0x7f802000,
          0x33000000, 0x33000001, 0x32ffffff, 0x33800000, 0x337fffff, 0x33800001, 0x33c00000,
          0x477fefff, 0x477ff000, 0x477fe000, 0x477ff001, 0x47800000, 0x387fe000, 0x387fdfff, 0x387fe001, 0x38800000, 0x387fffff,
          0x3f800000, 0x3f800001, 0x3f7fffff, 0x3f801000, 0x3f800fff, 0x3f801001, 0x3f803000, 0x40400000, 0x3eaaaaab, 0x41200000,
          0x4b800000, 0x5f800000, 0x1f800000]
    for u in sp:
        fs.add(u)
        fs.add(u ^ 0x80000000)
    while len(fs) < total:
        if rng.random() < 0.5:
            fs.add(rng.getrandbits(32))
        else:      # exponent inside the half range, random significand
            fs.add((rng.getrandbits(1) << 31) | (rng.randrange(0x66, 0x90) << 23) | rng.getrandbits(23))
    return sorted(fs)


def lines_of(cmd, stdin=None, timeout=1800):
    rc, out = lib.sh(cmd, timeout=timeout, stdin=stdin)
    return rc, out.split("\n")[:-1] if out.endswith("\n") else out.split("\n")


def compare_all(chk, binary, args, name, keyfmt, what):
    """One 2^16-line command on both sides; returns True when identical."""
    rc1, a = lines_of([binary] + args, timeout=600)
    rc2, b = lines_of([halfcorr.DRV] + args, timeout=600)
    ok = rc1 == 0 and rc2 == 0 and len(a) == 65536 and a == b
    chk.oblige("corr:%s:all-2^16" % name, "correspondence", ok)
    chk.count(65536, 65536 - 2)
    if not ok:
        d = [i for i in range(min(len(a), len(b))) if a[i] != b[i]]
        rep = {"command": " ".join(args), "mismatches": len(d), "harness_rc": rc1, "driver_rc": rc2,
               "harness_lines": len(a), "model_lines": len(b)}
        key = keyfmt % (d[0] if d else 0)
        if d:
            rep.update({"half_bits": "0x%04x" % d[0], "implementation": a[d[0]], "model": b[d[0]],
                        "replay_cmd": "%s %s | sed -n %dp" % (os.path.relpath(binary, lib.VERIF), " ".join(args), d[0] + 1)})
        chk.fail("corr:" + name, key, what, rep, bool(d))
    return ok


def arith_rows_diff(binary, rows):
    """rows: list of (kind, a, b).  Evaluate on both sides, return first differing (kind,a,b,op,impl,model)."""
    text = "".join("%s %x %x\n" % r for r in rows)
    rc1, a = lines_of([binary, "arith_eval"], stdin=text)
    rc2, b = lines_of([halfcorr.DRV, "arith_eval"], stdin=text)
    for r, x, y in zip(rows, a, b):
        if x != y:
            xs, ys = x.split(), y.split()
            for op in range(4):
                if op >= len(xs) or op >= len(ys) or xs[op] != ys[op]:
                    return r + (op, xs[op] if op < len(xs) else "?", ys[op] if op < len(ys) else "?")
    return None


def arith_fail(chk, binary, d, obligation):
    kind, a, b, op, x, y = d
    fa = halfspec.spec_h2f(a)
    rep = {"lhs_half_bits": "0x%04x" % a, "operator": OPS[op], "rhs_kind": "half" if kind == "h" else "float",
           "rhs_bits": ("0x%04x" if kind == "h" else "0x%08x") % b, "float_of_lhs": "0x%08x" % fa,
           "implementation_result": "0x" + x, "expected half(float(a) op rhs)": "0x" + y,
           "note": "NaN results are printed as 0x7e00 on both sides",
           "replay_cmd": "printf '%s %x %x\\n' | %s arith_eval   # column %d" % (kind, a, b, os.path.relpath(binary, lib.VERIF), op + 1)}
    chk.fail(obligation, "C03:arith:%s:0x%04x%s0x%x" % (kind, a, OPS[op], b),
             "half %s with a %s right-hand side is not half(float(a) %s float-rhs)" % (OPS[op], rep["rhs_kind"], OPS[op][0]), rep, True)


def limits_expected():
    """The true extremes of binary16, computed from the independent Python spec."""
    fin = [m for m in range(0x8000) if (m >> 10) < 31]
    vmax = max(fin, key=halfspec.hval24)
    norm = [m for m in fin if (m >> 10) > 0]
    one = 0x3c00
    nxt = min((m for m in fin if halfspec.hval24(m) > halfspec.hval24(one)), key=halfspec.hval24)
    gap = halfspec.hval24(nxt) - halfspec.hval24(one)
    eps = [m for m in fin if halfspec.hval24(m) == gap][0]
    return {"limits_max": vmax, "limits_min": min(norm, key=halfspec.hval24),
            "limits_denorm_min": min((m for m in fin if m), key=halfspec.hval24),
            "limits_lowest": vmax | 0x8000, "limits_epsilon": eps,
            "limits_round_error": [m for m in fin if 2 * halfspec.hval24(m) == 1 << 24][0],
            "limits_infinity": 0x7c00, "limits_digits": 11, "limits_digits10": 3, "limits_max_digits10": 5, "limits_radix": 2,
            "limits_min_exponent": -13, "limits_max_exponent": 16, "limits_min_exponent10": -4, "limits_max_exponent10": 4}


def run(chk):
    chk.trusted = ["Lean 4.33 kernel (decide +kernel enumeration through allBits, no native_decide)",
                   "axioms: propext, Classical.choice, Quot.sound at most",
                   "hand models Model/Half.lean (classification, neg, roundN), Model/HalfFunction.lean, tied by exhaustive correspondence",
                   "translator tools/gen_halflimits.py (compiled dump of numeric_limits<half> / HALF_* from the current half.h, cross-checked by regex)",
                   "g++ 12 and the CPU executing the harness; FNV-1a 64-bit row hashes for the arithmetic sweeps"]
    chk.assumptions = ["Spec/HalfSpec.lean, Spec/HalfNum.lean state the binary16 denotation, classes and 'half a unit of n-bit precision' correctly",
                       "compound arithmetic: the hardware binary32 +,-,*,/ executed by Lean's compiled Float32 is the same operation the "
                       "C++ code executes (both are SSE scalar ops on this machine); NaN results are compared by NaN-ness only "
                       "(Lean's Float32.toBits has a single canonical NaN)",
                       "text I/O: libstdc++'s operator<<(float) at default precision 6 and operator>>(float) are run, not modelled; "
                       "the claim is exhaustive over all finite halves for THIS runtime",
                       "halfFunction: the tabulated function is abstract in the theorem; correspondence uses three concrete f"]
    chk.rule = ("all 2^16 half patterns for classification/unary minus, round(n) with n = 0..12, halfFunction tables with 9 f/domain "
                "choices; arithmetic: all ordered pairs over ~6,000 boundary halves (zeros, subnormal/normal edges, every power of two "
                "+-1 ulp, max, inf, NaNs, seeded random) x 4 operators with half rhs and with ~6,000 float rhs (exact halves, ties and "
                "near-ties between halves, float subnormals, overflow/underflow thresholds, inf, NaNs, seeded random), plus 2,048 seeded left operands against all 65,536 half rhs; thorough: all "
                "2^32 ordered half pairs x 4 operators; text: all 63,488 finite halves")
    vals, rx, changed, gout = gen_halflimits.regenerate()
    okg = vals is not None
    chk.oblige("translator: numeric_limits<half>/HALF_* dump compiled from the current half.h", "translator", okg,
               None if okg else gout[-800:])
    if not okg:
        chk.fail("translator:halflimits", "C03:translator:halflimits",
                 "std::numeric_limits<half> / HALF_* macros cannot be compiled and dumped from the current half.h",
                 {"output": gout[-3000:]}, False)
    else:
        dis = {k: (vals[k], rx.get(k)) for k in vals if k in rx and rx[k] != vals[k]}
        chk.oblige("translator-validation: regex reading of half.h = compiled values (%d constants)" % len([k for k in vals if k in rx]),
                   "translator-validation", not dis and len(rx) >= 30, dis or None)
        if dis:
            chk.fail("translator-validation:halflimits", "C03:translator:regex-vs-compiled:" + sorted(dis)[0],
                     "regex and compiled readings of half.h disagree", {"compiled_vs_regex": dis}, False)
        chk.extra["half_limits"] = {k: (("0x%x" % v) if not k.startswith("limits_") or v > 64 else v) for k, v in vals.items()}

    def search(name):
        if vals is None:
            return None
        exp = limits_expected()
        for k, e in exp.items():
            if vals.get(k) != e:
                return {"key": "C03:limits:" + k, "constant": "std::numeric_limits<half>::" + k[7:],
                        "half.h_value": vals.get(k), "true_extreme_of_binary16": e,
                        "half.h_value_hex": "0x%04x" % (vals.get(k) & 0xffff) if isinstance(vals.get(k), int) else None}
        for mac, lim in (("macro_HALF_MAX", "limits_max"), ("macro_HALF_MIN", "limits_min"), ("macro_HALF_NRM_MIN", "limits_min"),
                         ("macro_HALF_DENORM_MIN", "limits_denorm_min"), ("macro_HALF_EPSILON", "limits_epsilon")):
            c = halfspec.spec_f2h(vals[mac])
            if c != vals[lim]:
                return {"key": "C03:limits:" + mac, "macro": mac[6:], "float_bits": "0x%08x" % vals[mac],
                        "converts_to": "0x%04x" % c, "numeric_limits_value": "0x%04x" % vals[lim]}
        for mac, lim in (("macro_HALF_MANT_DIG", "limits_digits"), ("macro_HALF_DIG", "limits_digits10"),
                         ("macro_HALF_DECIMAL_DIG", "limits_max_digits10"), ("macro_HALF_RADIX", "limits_radix"),
                         ("macro_HALF_DENORM_MIN_EXP", "limits_min_exponent"), ("macro_HALF_MAX_EXP", "limits_max_exponent"),
                         ("macro_HALF_DENORM_MIN_10_EXP", "limits_min_exponent10"), ("macro_HALF_MAX_10_EXP", "limits_max_exponent10")):
            if vals[mac] != vals[lim]:
                return {"key": "C03:limits:" + mac, "macro": mac[6:], "value": vals[mac], "numeric_limits_value": vals[lim]}
        for k, e in (("half_posInf", 0x7c00), ("half_negInf", 0xfc00), ("limits_quiet_NaN", None), ("limits_signaling_NaN", None)):
            v = vals[k]
            if (e is not None and v != e) or (e is None and not is_nan16(v)):
                return {"key": "C03:limits:" + k, "value": "0x%04x" % v}
        return None

    okd, out = halfcorr.build_driver()
    chk.oblige("build:drv_half", "build", okd, None if okd else out[-800:])
    chk.check_theorems("ImathVerif.Props.C03", required=REQUIRED, search=search)
    if chk.thorough:
        chk.leanchecker("ImathVerif.Props.C03")
    ok, binary, o = lib.cxx_build("half_c03", ["corr/half_c03.cpp", os.path.join(lib.REPO, "src/Imath/half.cpp")])
    chk.oblige("build:half_c03", "build", ok, None if ok else o[-800:])
    if not ok:
        chk.fail("build:half_c03", "C03:build:half_c03", "the C03 harness does not compile against the current tree",
                 {"compiler_output": o[-3000:]}, False)
        return
    if not okd:
        chk.fail("build:drv_half", "C03:build:drv_half", "the model driver does not build", {"output": out[-3000:]}, False)
        return

    # -- (2) bit-level models against the real code, all 2^16 patterns -----------------------------
    compare_all(chk, binary, ["class_all"], "classification+unary-minus", "C03:class:0x%04x",
                "isFinite/isNormalized/isDenormalized/isZero/isNan/isInfinity/isNegative or operator- differ from the proven model")
    for n in range(13):
        compare_all(chk, binary, ["round_all", str(n)], "round(%d)" % n, "C03:round:n=" + str(n) + ":0x%04x",
                    "half::round(%d) differs from the proven model" % n)
    for f, lo, hi, note in LUTS:
        compare_all(chk, binary, ["lut", f, "%x" % lo, "%x" % hi], "halfFunction(%s,[0x%04x,0x%04x])" % (f, lo, hi),
                    "C03:lut:%s:%04x:%04x:" % (f, lo, hi) + "0x%04x",
                    "halfFunction table (f=%s, domain %s) differs from the proven model" % (f, note))
    chk.extra["halfFunction_choices"] = [{"f": f, "domainMin": "0x%04x" % lo, "domainMax": "0x%04x" % hi, "what": note}
                                         for f, lo, hi, note in LUTS]

    # -- (3) compound arithmetic -------------------------------------------------------------------
    hs = boundary_halves(chk.rng)
    fs = boundary_floats(chk.rng, hs)
    text = " ".join("%x" % h for h in hs) + "\n" + " ".join("%x" % f for f in fs) + "\n"
    rc1, a = lines_of([binary, "arith_list"], stdin=text)
    rc2, b = lines_of([halfcorr.DRV, "arith_list"], stdin=text)
    okq = rc1 == 0 and rc2 == 0 and len(a) == len(hs) and a == b
    chk.oblige("corr:compound-arithmetic:boundary-pairs(%d halves x (%d halves + %d floats) x 4 ops)" % (len(hs), len(hs), len(fs)),
               "correspondence", okq)
    nn = sum(1 for h in hs if (h & 0x7fff) and not is_nan16(h))
    nf = sum(1 for f in fs if (f & 0x7fffffff) and (f & 0x7fffffff) <= 0x7f800000)
    chk.count(4 * len(hs) * (len(hs) + len(fs)), 4 * nn * (nn + nf))
    chk.extra["arith_quick"] = {"half_patterns": len(hs), "float_rhs_patterns": len(fs), "operators": OPS,
                                "evaluations": 4 * len(hs) * (len(hs) + len(fs)),
                                "nan_operand_patterns": sum(1 for h in hs if is_nan16(h)),
                                "float_rhs_not_exact_halves": sum(1 for f in fs if (f & 0x7fffffff) <= 0x7f800000 and
                                                                  halfspec.spec_h2f(halfspec.spec_f2h(f)) != f)}
    if not okq:
        found = False
        for i in range(min(len(a), len(b), len(hs))):
            if a[i] != b[i]:
                xa, xb = a[i].split(), b[i].split()
                rows = []
                if len(xa) < 2 or len(xb) < 2 or xa[0] != xb[0]:
                    rows += [("h", hs[i], y) for y in hs]
                if len(xa) < 2 or len(xb) < 2 or xa[1] != xb[1]:
                    rows += [("f", hs[i], y) for y in fs]
                d = arith_rows_diff(binary, rows)
                if d:
                    arith_fail(chk, binary, d, "corr:compound-arithmetic")
                    found = True
                    break
        if not found:
            chk.fail("corr:compound-arithmetic", "C03:arith:protocol", "arithmetic row hashes differ but no differing pair was isolated",
                     {"harness_rc": rc1, "driver_rc": rc2, "harness_lines": len(a), "model_lines": len(b)}, False)
    else:
        chk.sample({"a": "0x3c00", "op": "+=", "float_rhs": "0x3a000000 (2^-11, the tie above 1.0)", "result": "0x3c00 (ties to even)"})
        chk.sample({"a": "0x7bff", "op": "+=", "half_rhs": "0x4c00 (16, exactly half an ulp of 65504)", "result": "0x7c00 (65520 rounds to infinity)"})

    # full rows: a seeded selection of left operands against ALL 65,536 half right-hand sides
    if okq and not chk.thorough:
        starts = sorted(chk.rng.randrange(0, 65536 - 256) for _ in range(8))
        badrow = None
        for lo in starts:
            rc1, a = lines_of([binary, "arith_blocks", str(lo), str(lo + 256)])
            rc2, b = lines_of([halfcorr.DRV, "arith_blocks", str(lo), str(lo + 256)])
            if not (rc1 == 0 and rc2 == 0 and len(a) == 256 and a == b):
                badrow = next((lo + i for i in range(min(len(a), len(b))) if a[i] != b[i]), lo)
                break
        chk.oblige("corr:compound-arithmetic:2,048 seeded full rows x all 65,536 half rhs x 4 ops", "correspondence", badrow is None)
        chk.count(4 * 2048 * 65536, 4 * 2048 * 63488 * 31 // 32)
        chk.extra["arith_quick"]["full_row_ranges"] = ["0x%04x..+256" % lo for lo in starts]
        if badrow is not None:
            d = arith_rows_diff(binary, [("h", badrow, y) for y in range(65536)])
            if d:
                arith_fail(chk, binary, d, "corr:compound-arithmetic:full-rows")
            else:
                chk.fail("corr:compound-arithmetic:full-rows", "C03:arith:protocol-rows", "row hashes differ; no pair isolated",
                         {"row": badrow}, False)

    if chk.thorough:
        t0 = time.time()
        with ThreadPoolExecutor(max_workers=2) as ex:
            f1 = ex.submit(lines_of, [binary, "arith_blocks", "0", "65536"], None, 7200)
            f2 = ex.submit(lines_of, [halfcorr.DRV, "arith_blocks", "0", "65536"], None, 7200)
            (rc1, a), (rc2, b) = f1.result(), f2.result()
        okt = rc1 == 0 and rc2 == 0 and len(a) == 65536 and a == b
        chk.oblige("corr:compound-arithmetic:all-2^32-ordered-half-pairs x 4 ops", "correspondence", okt)
        chk.count(4 << 32, 4 * (65536 - 2 - 2046) ** 2)
        chk.extra["arith_thorough_s"] = round(time.time() - t0, 1)
        if not okt:
            d = None
            for i in range(min(len(a), len(b))):
                if a[i] != b[i]:
                    d = arith_rows_diff(binary, [("h", i, y) for y in range(65536)])
                    break
            if d:
                arith_fail(chk, binary, d, "corr:compound-arithmetic:all-pairs")
            else:
                chk.fail("corr:compound-arithmetic:all-pairs", "C03:arith:protocol-all", "arithmetic block hashes differ; no pair isolated",
                         {"harness_rc": rc1, "driver_rc": rc2, "harness_lines": len(a), "model_lines": len(b)}, False)

    # -- (4) text I/O ------------------------------------------------------------------------------
    rc, tl = lines_of([binary, "textio"], timeout=600)
    summ = [l for l in tl if l.startswith("textio ")]
    okx = rc == 0 and summ == ["textio finite=63488 mismatches=0"]
    chk.oblige("corr:text-io:operator<< then operator>> reproduces all 63,488 finite halves (incl. -0)", "correspondence", okx)
    chk.count(63488, 63486)
    chk.extra["textio_samples"] = [l for l in tl if l.startswith("sample ")]
    if not okx:
        mm = [l.split() for l in tl if l.startswith("mismatch ")]
        rep = {"summary": summ, "first_mismatches": [" ".join(m) for m in mm[:5]], "harness_rc": rc}
        key = "C03:textio"
        if mm:
            h = int(mm[0][1], 16)
            rep.update({"half_bits": "0x%04x" % h, "printed_as": mm[0][2], "read_back_as": "0x" + mm[0][3],
                        "replay_cmd": "%s textio | grep mismatch" % os.path.relpath(binary, lib.VERIF)})
            key += ":0x%04x" % h
        chk.fail("corr:text-io", key, "a finite half does not survive operator<< followed by operator>>", rep, bool(mm))
    chk.exhaustive = True
    chk.sample({"half_bits": "0x7bff", "round(0)": "0x7800", "note": "rounding up would reach 0x7c00: truncated instead"})
    chk.sample({"half_bits": "0x7c01", "round(0)": "0x7c00", "note": "NaN whose payload is truncated away becomes +infinity (outside the property's claim)"})
    chk.sample({"half_bits": "0x8000", "class": "isZero, isFinite, isNegative", "text": "-0"})
