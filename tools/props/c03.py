"""C03 — half is a coherent numeric type: arithmetic, classes, limits, round(n).

Theorems (lean/ImathVerif/Props/C03.lean): unary minus, classification,
numeric_limits / HALF_* macros (Gen/HalfLimits.lean regenerated from the
CURRENT half.h), round(n) for every n and halfFunction — over ALL 2^16
patterns by kernel enumeration plus structural proofs.

Tie / exhaustive correspondence of the models with the real code
(harness/corr/half_c03.cpp against lean/Driver/Half.lean):
  classification + unary minus + std::fpclassify/std::signbit of float(h) (2^16),
  round(n) for n = 0..12 (13 x 2^16), halfFunction with several f / domain
  choices (each 2^16), the one- and two-argument constructors (header default
  arguments) for T = unsigned/float/half, all again in a second build with
  -DIMATH_HAVE_LARGE_STACK, and all of it re-run in AddressSanitizer+UBSan builds
  (the table loop's bound and new[]/delete[] are invisible to the entries read back).
Sub-claims that are NOT provable here and are decided by enumeration:
  compound arithmetic `a op= b` against the property's own right-hand side
  half(float(a) op float(b)) evaluated with the model conversions and Lean's
  Float32 operation (quick: all ordered pairs over ~6,000 boundary patterns x
  4 operators x {half rhs, float rhs} + 2,048 full rows; thorough: all 2^32 ordered half pairs x 4);
  the same claim WITHOUT any model, bit-exactly including NaN sign and payload:
  x op= y against half(float(x) op float(y)) written out in the harness, over the
  boundary sets (half and float rhs) and over all 2^32 ordered half pairs;
  text I/O: all 63,488 finite halves through the real operator<< / operator>> at the
  stream's default precision and at max_digits10 (must all round-trip), at
  max_digits10 - 1 (some must fail), and every digits10-digit decimal in the
  normalized range through operator>> / operator<< (must be reproduced)."""
import os, time
from concurrent.futures import ThreadPoolExecutor
import lib, gen_halflimits, halfcorr, halfspec

REQUIRED = ["neg_bits", "neg_value", "class_partition", "class_float_agree", "max_is_largest_finite",
            "min_is_smallest_normal", "denorm_min_is_smallest_positive", "epsilon_is_gap_above_one", "lowest_is_neg_max",
            "round_error_is_half", "digits_exact", "digits10_defining", "exponent_limits", "special_values", "macros_agree",
            "max_conversion_boundary", "round_identity", "round_spec", "round_coherent", "lut_size", "lut_spec",
            "halfLt_iff_value", "fpclassify_agree", "halfFunction_default_domain", "round_nan", "other_members"]

OPS = ["+=", "-=", "*=", "/="]
LUTS = [("id", 0xfbff, 0x7bff, "default domain [-HALF_MAX, HALF_MAX]"),
        ("neg", 0x0000, 0x7bff, "[0, HALF_MAX] (the header's sqrt example); -0 is inside"),
        ("round3", 0xbc00, 0x3c00, "[-1, 1]"),
        ("id", 0x0000, 0x8000, "[+0, -0]: only the two zeros"),
        ("id", 0x3c00, 0xbc00, "inverted [1, -1]: nothing"),
        ("neg", 0xfc00, 0x7c00, "[-inf, +inf]"),
        ("id", 0x7e00, 0x3c00, "NaN domainMin: the lower test never excludes"),
        ("round3", 0x0001, 0x03ff, "denormals only"),
        ("id", 0x7c00, 0x7c00, "[+inf, +inf]: every finite value is below")]


def is_nan16(h):
    return (h & 0x7c00) == 0x7c00 and (h & 0x3ff) != 0


def boundary_halves(rng, total=6000):
    mags = {0, 1, 2, 3, 0x1ff, 0x200, 0x201, 0x3fe, 0x3ff, 0x400, 0x401, 0x402, 0x7bfe, 0x7bff, 0x7c00,
            0x7c01, 0x7c02, 0x7dff, 0x7e00, 0x7e01, 0x7fff, 0x7d55, 0x3555, 0x3bff, 0x3c00, 0x3c01, 0x3800, 0x1400, 0x6400, 0x6800,
            0x63ff, 0x6401, 0x67ff, 0x6801}
    for e in range(1, 31):
        b = e << 10
        mags.update({b, b + 1, b - 1, b | 0x200, b | 0x1ff, b | 0x201, b | 0x3ff, b | 0x3fe, b | 0x155, b | 0x2aa})
    pats = set()
    for m in mags:
        pats.add(m & 0x7fff)
        pats.add((m & 0x7fff) | 0x8000)
    while len(pats) < total:
        pats.add(rng.randrange(65536))
    return sorted(pats)


def boundary_floats(rng, halves, total=6000):
    fs = set()
    # every boundary half exactly, and the ties / near-ties between adjacent halves
    for h in halves[::3]:
        if is_nan16(h):
            continue
        f = halfspec.spec_h2f(h)
        fs.add(f)
        m = h & 0x7fff
        if 0 < m < 0x7c00 and len(fs) < total // 2:
            g = halfspec.spec_h2f((h & 0x8000) | (m + 1)) if m + 1 < 0x7c00 else None
            if g is not None and g - f >= 4:
                mid = (f + g) // 2
                fs.update({mid, mid - 1, mid + 1})
    sp = [0x00000000, 0x80000000, 0x00000001, 0x007fffff, 0x00800000, 0x7f7fffff, 0xff7fffff, 0x7f800000, 0xff800000,
          0x7f800001, 0x7fa00000, 0x7fc00000, 0xffc00000, 0x7fffffff, 0xff800001, 0x7f801fff, 0x7f802000,
          0x33000000, 0x33000001, 0x32ffffff, 0x33800000, 0x337fffff, 0x33800001, 0x33c00000,
          0x477fefff, 0x477ff000, 0x477fe000, 0x477ff001, 0x47800000, 0x387fe000, 0x387fdfff, 0x387fe001, 0x38800000, 0x387fffff,
          0x3f800000, 0x3f800001, 0x3f7fffff, 0x3f801000, 0x3f800fff, 0x3f801001, 0x3f803000, 0x40400000, 0x3eaaaaab, 0x41200000,
          0x4b800000, 0x5f800000, 0x1f800000]
    for u in sp:
        fs.add(u)
        fs.add(u ^ 0x80000000)
    while len(fs) < total:
        if rng.random() < 0.5:
            fs.add(rng.getrandbits(32))
        else:      # exponent inside the half range, random significand
            fs.add((rng.getrandbits(1) << 31) | (rng.randrange(0x66, 0x90) << 23) | rng.getrandbits(23))
    return sorted(fs)


def lines_of(cmd, stdin=None, timeout=1800):
    rc, out = lib.sh(cmd, timeout=timeout, stdin=stdin)
    return rc, out.split("\n")[:-1] if out.endswith("\n") else out.split("\n")


_DRV_CACHE = {}
_IMPL_RUNS = []          # (binary, args, rc, lines) of every 2^16-line harness command, replayed under the sanitizer builds


def driver_lines(args):
    k = tuple(args)
    if k not in _DRV_CACHE:
        _DRV_CACHE[k] = lines_of([halfcorr.DRV] + list(args), timeout=600)
    return _DRV_CACHE[k]


def compare_all(chk, binary, args, name, keyfmt, what, drv_args=None):
    """One 2^16-line command on both sides; returns True when identical."""
    rc1, a = lines_of([binary] + args, timeout=600)
    _IMPL_RUNS.append((binary, list(args), rc1, a))
    rc2, b = driver_lines(drv_args if drv_args is not None else args)
    ok = rc1 == 0 and rc2 == 0 and len(a) == 65536 and a == b
    chk.oblige("corr:%s:all-2^16" % name, "correspondence", ok)
    chk.count(65536, 65536 - 2)
    if not ok:
        d = [i for i in range(min(len(a), len(b))) if a[i] != b[i]]
        rep = {"command": " ".join(args), "model_command": "drv_half " + " ".join(drv_args if drv_args is not None else args),
               "mismatches": len(d), "harness_rc": rc1, "driver_rc": rc2,
               "harness_lines": len(a), "model_lines": len(b)}
        key = keyfmt % (d[0] if d else 0)
        if d:
            rep.update({"half_bits": "0x%04x" % d[0], "implementation": a[d[0]], "model": b[d[0]],
                        "replay_cmd": "%s %s | sed -n %dp" % (os.path.relpath(binary, lib.VERIF), " ".join(args), d[0] + 1)})
        chk.fail("corr:" + name, key, what, rep, bool(d))
    return ok


def arith_rows_diff(binary, rows):
    """rows: list of (kind, a, b).  Evaluate on both sides, return first differing (kind,a,b,op,impl,model)."""
    text = "".join("%s %x %x\n" % r for r in rows)
    rc1, a = lines_of([binary, "arith_eval"], stdin=text)
    rc2, b = lines_of([halfcorr.DRV, "arith_eval"], stdin=text)
    for r, x, y in zip(rows, a, b):
        if x != y:
            xs, ys = x.split(), y.split()
            for op in range(4):
                if op >= len(xs) or op >= len(ys) or xs[op] != ys[op]:
                    return r + (op, xs[op] if op < len(xs) else "?", ys[op] if op < len(ys) else "?")
    return None


def arith_fail(chk, binary, d, obligation):
    kind, a, b, op, x, y = d
    fa = halfspec.spec_h2f(a)
    rep = {"lhs_half_bits": "0x%04x" % a, "operator": OPS[op], "rhs_kind": "half" if kind == "h" else "float",
           "rhs_bits": ("0x%04x" if kind == "h" else "0x%08x") % b, "float_of_lhs": "0x%08x" % fa,
           "implementation_result": "0x" + x, "expected half(float(a) op rhs)": "0x" + y,
           "note": "NaN results are printed as 0x7e00 on both sides",
           "replay_cmd": "printf '%s %x %x\\n' | %s arith_eval   # column %d" % (kind, a, b, os.path.relpath(binary, lib.VERIF), op + 1)}
    chk.fail(obligation, "C03:arith:%s:0x%04x%s0x%x" % (kind, a, OPS[op], b),
             "half %s with a %s right-hand side is not half(float(a) %s float-rhs)" % (OPS[op], rep["rhs_kind"], OPS[op][0]), rep, True)


def limits_expected():
    """The true extremes of binary16, computed from the independent Python spec."""
    fin = [m for m in range(0x8000) if (m >> 10) < 31]
    vmax = max(fin, key=halfspec.hval24)
    norm = [m for m in fin if (m >> 10) > 0]
    one = 0x3c00
    nxt = min((m for m in fin if halfspec.hval24(m) > halfspec.hval24(one)), key=halfspec.hval24)
    gap = halfspec.hval24(nxt) - halfspec.hval24(one)
    eps = [m for m in fin if halfspec.hval24(m) == gap][0]
    return {"limits_max": vmax, "limits_min": min(norm, key=halfspec.hval24),
            "limits_denorm_min": min((m for m in fin if m), key=halfspec.hval24),
            "limits_lowest": vmax | 0x8000, "limits_epsilon": eps,
            "limits_round_error": [m for m in fin if 2 * halfspec.hval24(m) == 1 << 24][0],
            "limits_infinity": 0x7c00, "limits_digits": 11, "limits_digits10": 3, "limits_max_digits10": 5, "limits_radix": 2,
            "limits_min_exponent": -13, "limits_max_exponent": 16, "limits_min_exponent10": -4, "limits_max_exponent10": 4}


MACRO_NAMES = (("macro_HALF_MAX", "limits_max"), ("macro_HALF_MIN", "limits_min"), ("macro_HALF_NRM_MIN", "limits_min"),
               ("macro_HALF_DENORM_MIN", "limits_denorm_min"), ("macro_HALF_EPSILON", "limits_epsilon"))


def macro_value_defects(vals):
    """Each float HALF_* macro against the value it NAMES, as a binary32 pattern: (float) HALF_X must be
    bit-exactly h2f(true extreme) (2^-14 is 0x38800000, not a neighbouring float that merely converts to
    0x0400).  HALF_EPSILON is a decimal truncated to 5 significant digits: it must convert to epsilon, not
    exceed 2^-10 and differ from it by less than one unit of its last printed digit (1e-8)."""
    from fractions import Fraction
    import struct
    exp = limits_expected()
    bad = []
    for mac, lim in MACRO_NAMES:
        want = halfspec.spec_h2f(exp[lim])
        got = vals[mac]
        if mac == "macro_HALF_EPSILON":
            gv = Fraction(struct.unpack("<f", struct.pack("<I", got))[0])
            ok = halfspec.spec_f2h(got) == exp[lim] and got <= want and Fraction(1, 1024) - gv < Fraction(1, 10 ** 8)
        else:
            ok = got == want
        if not ok:
            bad.append({"key": "C03:limits:" + mac, "macro": mac[6:], "float_bits_of_macro": "0x%08x" % got,
                        "value_it_names": "std::numeric_limits<half>::%s() = 0x%04x" % (lim[7:], exp[lim]),
                        "float_bits_of_that_value": "0x%08x" % want, "macro_converts_to_half": "0x%04x" % halfspec.spec_f2h(got),
                        "replay_cmd": ".build/bin/half_limits_dump | grep %s" % mac})
    return bad


def msvc_block_defects():
    """The _MSC_VER branch of the float macros (never compiled here) must denote the same binary32 values as the
    branch that is compiled: {macro: (msvc literal, other literal)} for those that differ or are missing."""
    mb = gen_halflimits.macro_blocks()
    bad = {}
    for k in gen_halflimits.FLOAT_MACROS:
        a, b = mb["msvc"].get(k), mb["other"].get(k)
        if a is None or b is None:
            bad[k] = (a, b)
            continue
        fa = gen_halflimits.f32_of_decimal(a[0]) if a[1] else gen_halflimits.f32bits(float(a[0]))
        fb = gen_halflimits.f32_of_decimal(b[0]) if b[1] else gen_halflimits.f32bits(float(b[0]))
        if fa != fb:
            bad[k] = (a[0] + a[1] + " = 0x%08x" % fa, b[0] + b[1] + " = 0x%08x" % fb)
    extra = sorted((set(mb["msvc"]) ^ set(mb["other"])) - set(bad))
    for k in extra:
        bad[k] = (mb["msvc"].get(k), mb["other"].get(k))
    return bad, mb


def parse_kv(line):
    return {k: int(v) for k, v in (w.split("=") for w in line.split()[1:])}


SAN_FLAGS = ["-fsanitize=address,undefined", "-fno-sanitize-recover=all", "-g"]


def sanitizer_stage(chk, san_of, plain_binary, extra_cmds):
    """Replay every recorded 2^16-line command (and `extra_cmds` = [(args, stdin)]) in the ASan+UBSan build of the same
    flavour: exit status 0, no sanitizer report, output identical to the plain build."""
    for plain, san in san_of.items():
        tag = os.path.basename(san)
        runs = [(args, None, rc, a) for (b, args, rc, a) in _IMPL_RUNS if b == plain]
        if plain == plain_binary:
            for args, stdin in extra_cmds:
                rc, a = lines_of([plain] + args, stdin=stdin, timeout=900)
                runs.append((args, stdin, rc, a))
        bad = None
        for args, stdin, rc, a in runs:
            rc2, b = lines_of([san] + args, stdin=stdin, timeout=1800)
            if rc2 != 0 or rc != 0 or a != b:
                rep = [l for l in b if "ERROR: " in l or l.startswith("SUMMARY: ") or "runtime error:" in l]
                bad = (args, rc2, rep[:4] or b[-3:])
                break
        chk.oblige("sanitizer:%s: %d harness commands (every halfFunction table / class / round sweep of this flavour%s) run with "
                   "no AddressSanitizer/UBSan report and print what the plain build prints"
                   % (tag, len(runs), ", text I/O, a slice of the arithmetic self-check" if plain == plain_binary else ""),
                   "sanitizer", bad is None)
        chk.count(len(runs), len(runs))
        chk.extra.setdefault("sanitizer_runs", {})[tag] = len(runs)
        if bad:
            args, rc2, rep = bad
            chk.fail("sanitizer:" + tag, "C03:sanitizer:%s:%s" % (tag, "_".join(args[:3])),
                     "the %s build reports an error (or prints something else than the plain build) for `%s`" % (tag, " ".join(args)),
                     {"command": " ".join(args), "exit_status": rc2, "sanitizer_report": rep,
                      "flags": " ".join(SAN_FLAGS), "replay_cmd": "%s %s > /dev/null" % (os.path.relpath(san, lib.VERIF), " ".join(args))},
                     True)


def run(chk):
    chk.trusted = ["AddressSanitizer/UBSan of g++ 12 for the memory-safety tie of the halfFunction table loop",
                   "Lean 4.33 kernel (decide +kernel enumeration through allBits, no native_decide)",
                   "axioms: propext, Classical.choice, Quot.sound at most",
                   "hand models Model/Half.lean (classification, neg, roundN), Model/HalfFunction.lean, tied by exhaustive correspondence",
                   "translator tools/gen_halflimits.py (compiled dump of numeric_limits<half> / HALF_* from the current half.h, cross-checked by regex; "
                   "exact rational decimal->binary32 reading of the macro literals)",
                   "libm std::fpclassify / std::signbit as the platform's float classification",
                   "g++ 12 and the CPU executing the harness; FNV-1a 64-bit row hashes for the arithmetic sweeps"]
    chk.assumptions = ["Spec/HalfSpec.lean, Spec/HalfNum.lean state the binary16 denotation, classes and 'half a unit of n-bit precision' correctly",
                       "compound arithmetic, model route: the hardware binary32 +,-,*,/ executed by Lean's compiled Float32 is the same operation the "
                       "C++ code executes (both are SSE scalar ops on this machine); there NaN results are compared by NaN-ness only "
                       "(Lean's Float32.toBits has a single canonical NaN)",
                       "compound arithmetic, self-check route (no model): the reference half(float(x) op float(y)) is evaluated by the same "
                       "compiler/CPU through volatile temporaries and the real conversions (which C01/C02 tie to the model); compared "
                       "bit-for-bit incl. NaN sign and payload.  For + and * with BOTH operands NaN the commuted reference is also accepted "
                       "(C++ does not fix which operand's payload an x86 addss/mulss propagates; count in extra.arith_selfcheck_*.commuted_accepted)",
                       "text I/O: libstdc++'s operator<<(float) / operator>>(float) in the C locale are run, not modelled; the claims are exhaustive "
                       "over all finite halves / all digits10-digit decimals for THIS runtime.  NOT claimed: text of non-finite values "
                       "('inf'/'nan' do not read back with libstdc++), the failure path of operator>> (h = half(0) since C++11), other locales",
                       "halfFunction: the tabulated function is abstract in the theorem; correspondence uses three concrete f, element types "
                       "unsigned/float/half and both settings of IMATH_HAVE_LARGE_STACK",
                       "the _MSC_VER branch of the HALF_* float macros is read as text only (never compiled here)",
                       "the self-check and operator=(float) are real-vs-real through the same half(float)/operator float(): the chain to "
                       "IEEE semantics is self-check o C01/C02 (conversions) o 'hardware op'; in quick the only MODEL-route evidence for "
                       "half pairs is the ~6,000^2 boundary pairs + 2,048 full rows",
                       "HALF_EPSILON is accepted through a tolerance (see extra.observed_outside_property): it converts to epsilon() "
                       "exactly but its float value is 43 float ulps below 2^-10",
                       "not exercised, not claimed: the reference RETURNED by the compound operators (the harness reads the object), "
                       "round(n) for n > 12 on the real code (theorem round_identity is structural; n = 10, 11, 12 are run), constexpr "
                       "evaluation of round/operator-, the C03 harness under the F16C / no-lookup-table build configurations (the operator "
                       "bodies are configuration-independent; the conversions in those configurations are C02's)",
                       "numeric_limits<half>::is_bounded/is_iec559/traps/tinyness_before/has_denorm_loss are dumped and reported in "
                       "extra.observed_outside_property, but nothing is claimed about them (the property lists the extremes and digit counts only)"]
    chk.rule = ("all 2^16 half patterns for classification/unary minus/std::fpclassify+signbit of float(h), round(n) with n = 0..12, "
                "halfFunction tables: 9 f/domain choices with 7 explicit arguments, the one- and two-argument constructors (header "
                "defaults) and 7-argument tables for T = unsigned/float/half (35 tables), all repeated in a -DIMATH_HAVE_LARGE_STACK build (read "
                "through a copy of the object), and every one of these commands re-run in ASan+UBSan builds of both flavours; arithmetic: all ordered pairs over ~6,000 boundary halves (zeros, subnormal/normal edges, every "
                "power of two +-1 ulp, max, inf, NaNs, seeded random) x 4 operators with half rhs and with ~6,000 float rhs (exact "
                "halves, ties and near-ties between halves, float subnormals, overflow/underflow thresholds, inf, quiet and signalling "
                "NaNs, seeded random) against the model AND bit-exactly against half(float(x) op float(y)) evaluated in the harness, "
                "plus 2,048 seeded left operands against all 65,536 half rhs (model), ALL 2^32 ordered half pairs x 4 and all 65,536 "
                "half lhs x the ~6,000 float rhs x 4 (self-check, both tiers); thorough: all 2^32 ordered half pairs x 4 operators against the model; text: all 63,488 finite halves at "
                "precision 6, max_digits10 and max_digits10-1, all digits10- and (digits10+1)-digit decimals in the normalized range; "
                "limits: every HALF_* float macro as a binary32 pattern against the value it names, MSVC branch against the compiled branch")
    vals, rx, changed, gout = gen_halflimits.regenerate()
    okg = vals is not None
    chk.oblige("translator: numeric_limits<half>/HALF_* dump compiled from the current half.h", "translator", okg,
               None if okg else gout[-800:])
    if not okg:
        chk.fail("translator:halflimits", "C03:translator:halflimits",
                 "std::numeric_limits<half> / HALF_* macros cannot be compiled and dumped from the current half.h",
                 {"output": gout[-3000:]}, False)
    else:
        dis = {k: (vals[k], rx.get(k)) for k in vals if k in rx and rx[k] != vals[k]}
        compared = set(k for k in vals if k in rx)
        lost = sorted(set(gen_halflimits.REGEX_COVERED) - compared)
        chk.oblige("translator-validation: regex reading of half.h = compiled values (all %d constants the regex route is pinned to read)"
                   % len(gen_halflimits.REGEX_COVERED), "translator-validation", not dis and not lost,
                   {"disagree": dis, "no_longer_read_by_regex": lost} if (dis or lost) else None)
        if dis or lost:
            chk.fail("translator-validation:halflimits", "C03:translator:regex-vs-compiled:" + (sorted(dis)[0] if dis else lost[0]),
                     "regex and compiled readings of half.h disagree" if dis else
                     "the regex route no longer reads a constant it is pinned to read (header reformatted?)",
                     {"compiled_vs_regex": dis, "no_longer_read_by_regex": lost}, False)
        chk.extra["half_limits"] = {k: (("0x%x" % v) if not k.startswith("limits_") or v > 64 else v) for k, v in vals.items()}
        # observed, OUTSIDE the property (its list of extremes does not include the classification traits): recorded, never a violation
        chk.extra["observed_outside_property"] = [
            {"what": "std::numeric_limits<half>::is_bounded", "value": bool(vals.get("limits_is_bounded")),
             "note": "the type is bounded: 65,536 values, every finite one in [lowest(), max()] (theorem lowest_is_neg_max); [numeric.limits.members] would have is_bounded = true (as for float); the header says "
                     + ("false" if not vals.get("limits_is_bounded") else "true")},
            {"what": "half::round(n) of a NaN", "value": "payload truncated; an infinity iff payload < 2^(10-n), e.g. 0x7c01.round(0) = 0x7c00",
             "note": "theorem round_nan; the property restricts round(n) to finite or infinite inputs"},
            {"what": "HALF_EPSILON (a constant the property names: 'gap above 1.0')",
             "value": {"float_bits_of_macro": "0x%08x" % vals["macro_HALF_EPSILON"],
                       "float_bits_of_2^-10 = float(epsilon())": "0x%08x" % halfspec.spec_h2f(limits_expected()["limits_epsilon"]),
                       "float_ulps_below_2^-10": halfspec.spec_h2f(limits_expected()["limits_epsilon"]) - vals["macro_HALF_EPSILON"]},
             "note": "TOLERATED DEVIATION: the literal 0.00097656 is 2^-10 = 0.0009765625 truncated to 5 significant digits, so "
                     "(float) HALF_EPSILON is not the gap itself (1.0f + HALF_EPSILON is not a half); accepted because half(HALF_EPSILON) "
                     "== epsilon() exactly and the literal is within one unit of its last printed digit: tolerance 1e-8 absolute in "
                     "macro_value_defects, < 64 float ulps in theorem macros_agree; a changed digit fails both"},
            {"what": "is_iec559 / traps / tinyness_before / has_denorm_loss",
             "value": [vals.get("limits_is_iec559"), vals.get("limits_traps"), vals.get("limits_tinyness_before"), vals.get("limits_has_denorm_loss")],
             "note": "dumped, nothing claimed"}]
        # each float macro, AS A FLOAT, is the value it names (not merely a float that converts to it)
        mbad = macro_value_defects(vals)
        chk.oblige("limits: (float) HALF_MAX/HALF_MIN/HALF_NRM_MIN/HALF_DENORM_MIN are bit-exactly the binary32 images of the true "
                   "extremes; HALF_EPSILON is 2^-10 truncated to its printed digits", "enumeration", not mbad, mbad or None)
        chk.count(5, 5)
        for b in mbad:
            chk.fail("limits:macro-values", b["key"], "the float value of %s is not the value it names" % b["macro"], b, True)
        # the branch of the macro block that this compiler never sees
        vbad, mb = msvc_block_defects()
        chk.oblige("limits: the _MSC_VER branch of the HALF_* float macros denotes the same binary32 values as the compiled branch "
                   "(%d macros, text of half.h)" % len(gen_halflimits.FLOAT_MACROS), "translator-validation",
                   not vbad and len(mb["msvc"]) == len(gen_halflimits.FLOAT_MACROS), vbad or None)
        chk.extra["macro_literals"] = {t: {k: v[0] + v[1] for k, v in d.items()} for t, d in mb.items()}
        if vbad or len(mb["msvc"]) != len(gen_halflimits.FLOAT_MACROS):
            k0 = sorted(vbad)[0] if vbad else "block-not-found"
            chk.fail("limits:msvc-branch", "C03:limits:msvc:" + k0,
                     "the _MSC_VER and the generic definitions of %s in half.h denote different floats (or one is missing)" % k0,
                     {"msvc_vs_other": {k: list(v) for k, v in vbad.items()}, "file": "src/Imath/half.h:205-230"}, True)

    def search(name):
        if vals is None:
            return None
        for k, e in (("limits_is_specialized", 1), ("limits_is_integer", 0), ("limits_is_exact", 0), ("limits_is_modulo", 0)):
            if name == "other_members" and vals.get(k) != e:
                return {"key": "C03:limits:" + k, "constant": "std::numeric_limits<half>::" + k[7:], "half.h_value": vals.get(k), "expected": e}
        exp = limits_expected()
        for k, e in exp.items():
            if vals.get(k) != e:
                return {"key": "C03:limits:" + k, "constant": "std::numeric_limits<half>::" + k[7:],
                        "half.h_value": vals.get(k), "true_extreme_of_binary16": e,
                        "half.h_value_hex": "0x%04x" % (vals.get(k) & 0xffff) if isinstance(vals.get(k), int) else None}
        for mac, lim in (("macro_HALF_MAX", "limits_max"), ("macro_HALF_MIN", "limits_min"), ("macro_HALF_NRM_MIN", "limits_min"),
                         ("macro_HALF_DENORM_MIN", "limits_denorm_min"), ("macro_HALF_EPSILON", "limits_epsilon")):
            c = halfspec.spec_f2h(vals[mac])
            if c != vals[lim]:
                return {"key": "C03:limits:" + mac, "macro": mac[6:], "float_bits": "0x%08x" % vals[mac],
                        "converts_to": "0x%04x" % c, "numeric_limits_value": "0x%04x" % vals[lim]}
        mb_ = macro_value_defects(vals)
        if mb_:
            return mb_[0]
        for mac, lim in (("macro_HALF_MANT_DIG", "limits_digits"), ("macro_HALF_DIG", "limits_digits10"),
                         ("macro_HALF_DECIMAL_DIG", "limits_max_digits10"), ("macro_HALF_RADIX", "limits_radix"),
                         ("macro_HALF_DENORM_MIN_EXP", "limits_min_exponent"), ("macro_HALF_MAX_EXP", "limits_max_exponent"),
                         ("macro_HALF_DENORM_MIN_10_EXP", "limits_min_exponent10"), ("macro_HALF_MAX_10_EXP", "limits_max_exponent10")):
            if vals[mac] != vals[lim]:
                return {"key": "C03:limits:" + mac, "macro": mac[6:], "value": vals[mac], "numeric_limits_value": vals[lim]}
        for k, e in (("half_posInf", 0x7c00), ("half_negInf", 0xfc00), ("limits_quiet_NaN", None), ("limits_signaling_NaN", None)):
            v = vals[k]
            if (e is not None and v != e) or (e is None and not is_nan16(v)):
                return {"key": "C03:limits:" + k, "value": "0x%04x" % v}
        return None

    okd, out = halfcorr.build_driver()
    chk.oblige("build:drv_half", "build", okd, None if okd else out[-800:])
    chk.check_theorems("ImathVerif.Props.C03", required=REQUIRED, search=search)
    if chk.thorough:
        chk.leanchecker("ImathVerif.Props.C03")
    ok, binary, o = lib.cxx_build("half_c03", ["corr/half_c03.cpp", os.path.join(lib.REPO, "src/Imath/half.cpp")])
    chk.oblige("build:half_c03", "build", ok, None if ok else o[-800:])
    if not ok:
        chk.fail("build:half_c03", "C03:build:half_c03", "the C03 harness does not compile against the current tree",
                 {"compiler_output": o[-3000:]}, False)
        return
    if not okd:
        chk.fail("build:drv_half", "C03:build:drv_half", "the model driver does not build", {"output": out[-3000:]}, False)
        return
    # the other build configuration of halfFunction.h: the table is an array member, no new[]/delete[], copyable
    okl, binary_ls, ol = lib.cxx_build("half_c03_ls", ["corr/half_c03.cpp", os.path.join(lib.REPO, "src/Imath/half.cpp")],
                                       extra=["-DIMATH_HAVE_LARGE_STACK"])
    chk.oblige("build:half_c03 with -DIMATH_HAVE_LARGE_STACK", "build", okl, None if okl else ol[-800:])
    if not okl:
        chk.fail("build:half_c03_ls", "C03:build:half_c03_ls", "the C03 harness does not compile with -DIMATH_HAVE_LARGE_STACK",
                 {"compiler_output": ol[-3000:]}, False)

    # both flavours again with AddressSanitizer + UBSan: the 65,536 entries READ BACK cannot see a write past the table
    # (`i <= (1 << 16)`), `delete` for `delete[]`, or a shift by a negative count; the sanitizers can
    del _IMPL_RUNS[:]
    srcs = ["corr/half_c03.cpp", os.path.join(lib.REPO, "src/Imath/half.cpp")]
    sb = lib.cxx_build_many([dict(name="half_c03_asan", sources=srcs, extra=SAN_FLAGS),
                             dict(name="half_c03_ls_asan", sources=srcs, extra=SAN_FLAGS + ["-DIMATH_HAVE_LARGE_STACK"])])
    san_of = {}
    for nm, plain in (("half_c03_asan", binary), ("half_c03_ls_asan", binary_ls)):
        oks_, bs_, os_ = sb[nm]
        chk.oblige("build:%s (%s)" % (nm, " ".join(SAN_FLAGS[:2])), "build", oks_, None if oks_ else os_[-800:])
        if oks_ and (plain != binary_ls or okl):
            san_of[plain] = bs_
        else:
            chk.fail("build:" + nm, "C03:build:" + nm, "the C03 harness does not compile with the sanitizers", {"compiler_output": os_[-3000:]}, False)

    # -- (2) bit-level models against the real code, all 2^16 patterns -----------------------------
    compare_all(chk, binary, ["classf_all"], "classification+unary-minus+fpclassify(float(h))", "C03:class:0x%04x",
                "isFinite/isNormalized/isDenormalized/isZero/isNan/isInfinity/isNegative, operator-, or std::fpclassify/std::signbit "
                "of float(h) differ from the proven model (fpClass32 (h2f h), theorem fpclassify_agree)")
    # the same clause with NO model: the real predicates against the platform's classification of the real float(h)
    rcc, cl = lines_of([binary, "classf_all"], timeout=600)
    badc = None
    hist = {}
    for hb, l in enumerate(cl):
        w = l.split()
        c, fc, sb = int(w[0]), int(w[2]), int(w[3])
        want = 0 if c & 8 else 1 if c & 6 else 3 if c & 32 else 4 if c & 16 else 9
        hist[fc] = hist.get(fc, 0) + 1
        if (fc != want or sb != (c >> 6) & 1 or bin(c & 0x3e).count("1") != 1) and badc is None:
            badc = (hb, l, want)
    okc = rcc == 0 and len(cl) == 65536 and badc is None
    chk.oblige("enum:half::isXxx() agree with std::fpclassify/std::signbit of float(h) on the real code:all-2^16", "enumeration", okc)
    chk.count(65536, 65536 - 2)
    chk.extra["fpclassify_histogram"] = {"FP_ZERO": hist.get(0, 0), "FP_NORMAL": hist.get(1, 0), "FP_SUBNORMAL": hist.get(2, 0),
                                         "FP_INFINITE": hist.get(3, 0), "FP_NAN": hist.get(4, 0)}
    if not okc:
        hb, l, want = badc if badc else (0, "", 9)
        chk.fail("enum:class-vs-fpclassify", "C03:class-fpclassify:0x%04x" % hb,
                 "the half classification predicates disagree with std::fpclassify/std::signbit of float(h)",
                 {"half_bits": "0x%04x" % hb, "line(classbits neg fpclass signbit)": l, "fpclass_expected_from_predicates": want,
                  "replay_cmd": "%s classf_all | sed -n %dp" % (os.path.relpath(binary, lib.VERIF), hb + 1)}, badc is not None)
    for n in range(13):
        compare_all(chk, binary, ["round_all", str(n)], "round(%d)" % n, "C03:round:n=" + str(n) + ":0x%04x",
                    "half::round(%d) differs from the proven model" % n)
    builds = [("", binary)] + ([("+LARGE_STACK", binary_ls)] if okl else [])
    for btag, bn in builds:
        for f, lo, hi, note in LUTS:
            compare_all(chk, bn, ["lut", f, "%x" % lo, "%x" % hi], "halfFunction(%s,[0x%04x,0x%04x])%s" % (f, lo, hi, btag),
                        "C03:lut:%s:%04x:%04x%s:" % (f, lo, hi, btag) + "0x%04x",
                        "halfFunction table (f=%s, domain %s) differs from the proven model" % (f, note))
    chk.extra["halfFunction_choices"] = [{"f": f, "domainMin": "0x%04x" % lo, "domainMax": "0x%04x" % hi, "what": note}
                                         for f, lo, hi, note in LUTS]
    # default arguments (halfFunction.h 73-80): one- and two-argument constructors.  The model is given the domain the header
    # PROMISES, [half(float(-HALF_MAX)), half(float(HALF_MAX))] computed by the independent spec conversion from the compiled
    # macro (theorem halfFunction_default_domain: that is [lowest(), max()]), and 0 for the four designated values.
    if vals is not None:
        dmin = halfspec.spec_f2h(vals["macro_HALF_MAX"] ^ 0x80000000)
        dmax = halfspec.spec_f2h(vals["macro_HALF_MAX"])
        tn = {"u": "unsigned", "f": "float", "h": "half"}
        ndef = 0
        for btag, bn in builds:
            for t in ("u", "f", "h"):
                for f in ("id", "neg", "round3"):
                    compare_all(chk, bn, ["lutd", t, f], "halfFunction<%s>(%s) one-argument ctor%s" % (tn[t], f, btag),
                                "C03:lut-default:%s:%s%s:" % (t, f, btag) + "0x%04x",
                                "halfFunction<%s> built with the header's default arguments is not f on [-HALF_MAX, HALF_MAX] and 0 elsewhere"
                                % tn[t], drv_args=["lutv", f, "%x" % dmin, "%x" % dmax, "0", "0", "0", "0"])
                    ndef += 1
            for t, f, lo in (("u", "neg", 0x0000), ("h", "id", 0xbc00), ("f", "round3", 0x3c00)):
                compare_all(chk, bn, ["lutd2", t, f, "%x" % lo], "halfFunction<%s>(%s,0x%04x) two-argument ctor%s" % (tn[t], f, lo, btag),
                            "C03:lut-default2:%s:%s:%04x%s:" % (t, f, lo, btag) + "0x%04x",
                            "halfFunction<%s> with a defaulted domainMax is not f on [domainMin, HALF_MAX]" % tn[t],
                            drv_args=["lutv", f, "%x" % lo, "%x" % dmax, "0", "0", "0", "0"])
                ndef += 1
            # all seven arguments, element types float, half and unsigned
            for t, f, lo, hi, v in (("f", "round3", 0xbc00, 0x3c00, (0x10000, 0x10001, 0x10002, 0x10003)),
                                    ("h", "neg", 0x0000, 0x7bff, (0x3555, 0x7c00, 0xfc00, 0x7e00)),
                                    ("h", "id", 0x7e00, 0x3c00, (0x0001, 0x8000, 0x0000, 0x7fff)),
                                    ("u", "id", 0x0001, 0x03ff, (0x10000, 0x10001, 0x10002, 0x10003))):
                hv = ["%x" % x for x in v]
                compare_all(chk, bn, ["lutv", t, f, "%x" % lo, "%x" % hi] + hv,
                            "halfFunction<%s>(%s,[0x%04x,0x%04x],4 values)%s" % (tn[t], f, lo, hi, btag),
                            "C03:lutv:%s:%s:%04x:%04x%s:" % (t, f, lo, hi, btag) + "0x%04x",
                            "halfFunction<%s> table differs from the proven model" % tn[t],
                            drv_args=["lutv", f, "%x" % lo, "%x" % hi] + hv)
                ndef += 1
        chk.extra["halfFunction_default_args"] = {"domainMin": "0x%04x" % dmin, "domainMax": "0x%04x" % dmax, "tables_compared": ndef,
                                                  "element_types": list(tn.values()), "builds": [b or "default" for b, _ in builds]}

    # -- (3) compound arithmetic -------------------------------------------------------------------
    hs = boundary_halves(chk.rng)
    fs = boundary_floats(chk.rng, hs)
    text = " ".join("%x" % h for h in hs) + "\n" + " ".join("%x" % f for f in fs) + "\n"
    rc1, a = lines_of([binary, "arith_list"], stdin=text)
    rc2, b = lines_of([halfcorr.DRV, "arith_list"], stdin=text)
    okq = rc1 == 0 and rc2 == 0 and len(a) == len(hs) and a == b
    chk.oblige("corr:compound-arithmetic:boundary-pairs(%d halves x (%d halves + %d floats) x 4 ops)" % (len(hs), len(hs), len(fs)),
               "correspondence", okq)
    nn = sum(1 for h in hs if (h & 0x7fff) and not is_nan16(h))
    nf = sum(1 for f in fs if (f & 0x7fffffff) and (f & 0x7fffffff) <= 0x7f800000)
    chk.count(4 * len(hs) * (len(hs) + len(fs)), 4 * nn * (nn + nf))
    chk.extra["arith_quick"] = {"half_patterns": len(hs), "float_rhs_patterns": len(fs), "operators": OPS,
                                "evaluations": 4 * len(hs) * (len(hs) + len(fs)),
                                "nan_operand_patterns": sum(1 for h in hs if is_nan16(h)),
                                "float_rhs_not_exact_halves": sum(1 for f in fs if (f & 0x7fffffff) <= 0x7f800000 and
                                                                  halfspec.spec_h2f(halfspec.spec_f2h(f)) != f)}
    if not okq:
        found = False
        for i in range(min(len(a), len(b), len(hs))):
            if a[i] != b[i]:
                xa, xb = a[i].split(), b[i].split()
                rows = []
                if len(xa) < 2 or len(xb) < 2 or xa[0] != xb[0]:
                    rows += [("h", hs[i], y) for y in hs]
                if len(xa) < 2 or len(xb) < 2 or xa[1] != xb[1]:
                    rows += [("f", hs[i], y) for y in fs]
                d = arith_rows_diff(binary, rows)
                if d:
                    arith_fail(chk, binary, d, "corr:compound-arithmetic")
                    found = True
                    break
        if not found:
            chk.fail("corr:compound-arithmetic", "C03:arith:protocol", "arithmetic row hashes differ but no differing pair was isolated",
                     {"harness_rc": rc1, "driver_rc": rc2, "harness_lines": len(a), "model_lines": len(b)}, False)
    else:
        chk.sample({"a": "0x3c00", "op": "+=", "float_rhs": "0x3a000000 (2^-11, the tie above 1.0)", "result": "0x3c00 (ties to even)"})
        chk.sample({"a": "0x7bff", "op": "+=", "half_rhs": "0x4c00 (16, exactly half an ulp of 65504)", "result": "0x7c00 (65520 rounds to infinity)"})

    # -- (3b) the property's literal statement, no model: x op= y == half(float(x) op float(y)) bit-exactly ------------
    def self_fail(obligation, lines, rc):
        mm = [l.split() for l in lines if l.startswith("mismatch ")]
        if mm and mm[0][1] in ("h", "f"):
            kind, a, op, b = mm[0][1], int(mm[0][2], 16), int(mm[0][3]), int(mm[0][4], 16)
            got, expd = mm[0][5].split("=")[1], mm[0][6].split("=")[1]
            rep = {"lhs_half_bits": "0x%04x" % a, "operator": OPS[op], "rhs_kind": "half" if kind == "h" else "float",
                   "rhs_bits": ("0x%04x" if kind == "h" else "0x%08x") % b, "implementation_result": "0x" + got,
                   "half(float(a) op float(rhs)) evaluated in the harness": "0x" + expd, "mismatching_lines": len(mm),
                   "note": "bit-exact comparison, NaN sign and payload included",
                   "replay_cmd": "printf '%x\\n%s\\n' | %s arith_self_list" % (a, ("%x" % b) if kind == "f" else "", os.path.relpath(binary, lib.VERIF))
                   if kind == "f" else "printf '%x %x\\n\\n' | %s arith_self_list" % (a, b, os.path.relpath(binary, lib.VERIF))}
            chk.fail(obligation, "C03:arith-self:%s:0x%04x%s0x%x" % (kind, a, OPS[op], b),
                     "half %s with a %s right-hand side is not bit-for-bit half(float(a) %s rhs)" % (OPS[op], rep["rhs_kind"], OPS[op][0]), rep, True)
        elif mm and mm[0][1] == "=":
            fb = int(mm[0][2], 16)
            chk.fail(obligation, "C03:assign-float:0x%08x" % fb, "half::operator=(float) differs from the half(float) constructor",
                     {"float_bits": "0x%08x" % fb, "assigned": mm[0][3], "constructed": mm[0][4]}, True)
        else:
            chk.fail(obligation, "C03:arith-self:protocol", "the arithmetic self-check did not run to completion",
                     {"harness_rc": rc, "tail": lines[-3:]}, False)

    rcs, sl = lines_of([binary, "arith_self_list"], stdin=text)
    st = {l.split()[0]: parse_kv(l) for l in sl if l.startswith(("arith_self ", "assign_float "))}
    want_ev = 4 * len(hs) * (len(hs) + len(fs))
    oks = (rcs == 0 and st.get("arith_self", {}).get("evals") == want_ev and st["arith_self"]["mismatches"] == 0 and
           st.get("assign_float", {}).get("evals") == len(fs) and st["assign_float"]["mismatches"] == 0)
    chk.oblige("enum:x op= y is bit-for-bit half(float(x) op float(y)), NaN sign+payload included, no model: boundary pairs "
               "(%d halves x (%d halves + %d floats) x 4 ops); half::operator=(float) = half(float) on %d floats"
               % (len(hs), len(hs), len(fs), len(fs)), "enumeration", oks)
    chk.count(want_ev + len(fs), 4 * nn * (nn + nf))
    chk.extra["arith_selfcheck_quick"] = st
    if not oks:
        self_fail("enum:arith-self:boundary-pairs", sl, rcs)
    # non-vacuity of "NaN sign and payload included": the sweep must contain NaN results of both signs and non-canonical payloads
    nv = st.get("arith_self", {})
    chk.oblige("enum:arith-self reach: NaN results with negative sign and with a payload other than 0x200 occur",
               "generator-reach", nv.get("negative_nan", 0) > 1000 and nv.get("noncanonical_payload", 0) > 1000,
               {k: nv.get(k) for k in ("nan_results", "negative_nan", "noncanonical_payload", "commuted_accepted")})
    # all 2^32 ordered half pairs (16 threads, about 25 s): the half-rhs clause is exhaustive in BOTH tiers
    t0 = time.time()
    rcs, sl = lines_of([binary, "arith_self_blocks", "0", "65536"], timeout=3600)
    stb = {l.split()[0]: parse_kv(l) for l in sl if l.startswith("arith_self ")}
    okb = rcs == 0 and stb.get("arith_self", {}).get("evals") == 4 << 32 and stb["arith_self"]["mismatches"] == 0
    chk.oblige("enum:x op= y is bit-for-bit half(float(x) op float(y)): all-2^32-ordered-half-pairs x 4 ops (no model)", "enumeration", okb)
    chk.count(4 << 32, 4 * (65536 - 2 - 2046) ** 2)
    chk.extra["arith_selfcheck_all_pairs"] = dict(stb.get("arith_self", {}), wall_s=round(time.time() - t0, 1))
    if not okb:
        self_fail("enum:arith-self:all-pairs", sl, rcs)

    # float right-hand sides against EVERY half left operand (the four float-rhs bodies are distinct code, half.h 752-799)
    ftext = " ".join("%x" % f for f in fs) + "\n"
    t0 = time.time()
    rcs, sl = lines_of([binary, "arith_self_frows"], stdin=ftext, timeout=3600)
    stf = {l.split()[0]: parse_kv(l) for l in sl if l.startswith("arith_self ")}
    okf = rcs == 0 and stf.get("arith_self", {}).get("evals") == 4 * 65536 * len(fs) and stf["arith_self"]["mismatches"] == 0
    chk.oblige("enum:x op= f is bit-for-bit half(float(x) op f): ALL 65,536 half lhs x %d boundary float rhs x 4 ops (no model)" % len(fs),
               "enumeration", okf)
    chk.count(4 * 65536 * len(fs), 4 * 63488 * nf)
    chk.extra["arith_selfcheck_float_rhs_all_lhs"] = dict(stf.get("arith_self", {}), float_rhs=len(fs), wall_s=round(time.time() - t0, 1))
    if not okf:
        self_fail("enum:arith-self:float-rhs-all-lhs", sl, rcs)

    # full rows: a seeded selection of left operands against ALL 65,536 half right-hand sides
    if okq and not chk.thorough:
        starts = sorted(chk.rng.randrange(0, 65536 - 256) for _ in range(8))
        badrow = None
        for lo in starts:
            rc1, a = lines_of([binary, "arith_blocks", str(lo), str(lo + 256)])
            rc2, b = lines_of([halfcorr.DRV, "arith_blocks", str(lo), str(lo + 256)])
            if not (rc1 == 0 and rc2 == 0 and len(a) == 256 and a == b):
                badrow = next((lo + i for i in range(min(len(a), len(b))) if a[i] != b[i]), lo)
                break
        chk.oblige("corr:compound-arithmetic:2,048 seeded full rows x all 65,536 half rhs x 4 ops", "correspondence", badrow is None)
        chk.count(4 * 2048 * 65536, 4 * 2048 * 63488 * 31 // 32)
        chk.extra["arith_quick"]["full_row_ranges"] = ["0x%04x..+256" % lo for lo in starts]
        if badrow is not None:
            d = arith_rows_diff(binary, [("h", badrow, y) for y in range(65536)])
            if d:
                arith_fail(chk, binary, d, "corr:compound-arithmetic:full-rows")
            else:
                chk.fail("corr:compound-arithmetic:full-rows", "C03:arith:protocol-rows", "row hashes differ; no pair isolated",
                         {"row": badrow}, False)

    if chk.thorough:
        t0 = time.time()
        with ThreadPoolExecutor(max_workers=2) as ex:
            f1 = ex.submit(lines_of, [binary, "arith_blocks", "0", "65536"], None, 7200)
            f2 = ex.submit(lines_of, [halfcorr.DRV, "arith_blocks", "0", "65536"], None, 7200)
            (rc1, a), (rc2, b) = f1.result(), f2.result()
        okt = rc1 == 0 and rc2 == 0 and len(a) == 65536 and a == b
        chk.oblige("corr:compound-arithmetic:all-2^32-ordered-half-pairs x 4 ops", "correspondence", okt)
        chk.count(4 << 32, 4 * (65536 - 2 - 2046) ** 2)
        chk.extra["arith_thorough_s"] = round(time.time() - t0, 1)
        if not okt:
            d = None
            for i in range(min(len(a), len(b))):
                if a[i] != b[i]:
                    d = arith_rows_diff(binary, [("h", i, y) for y in range(65536)])
                    break
            if d:
                arith_fail(chk, binary, d, "corr:compound-arithmetic:all-pairs")
            else:
                chk.fail("corr:compound-arithmetic:all-pairs", "C03:arith:protocol-all", "arithmetic block hashes differ; no pair isolated",
                         {"harness_rc": rc1, "driver_rc": rc2, "harness_lines": len(a), "model_lines": len(b)}, False)

    # -- (4) text I/O ------------------------------------------------------------------------------
    rc, tl = lines_of([binary, "textio"], timeout=600)
    summ = [l for l in tl if l.startswith("textio ")]
    okx = rc == 0 and summ == ["textio finite=63488 mismatches=0"]
    chk.oblige("corr:text-io:operator<< then operator>> reproduces all 63,488 finite halves (incl. -0)", "correspondence", okx)
    chk.count(63488, 63486)
    chk.extra["textio_samples"] = [l for l in tl if l.startswith("sample ")]
    if not okx:
        mm = [l.split() for l in tl if l.startswith("mismatch ")]
        rep = {"summary": summ, "first_mismatches": [" ".join(m) for m in mm[:5]], "harness_rc": rc}
        key = "C03:textio"
        if mm:
            h = int(mm[0][1], 16)
            rep.update({"half_bits": "0x%04x" % h, "printed_as": mm[0][2], "read_back_as": "0x" + mm[0][3],
                        "replay_cmd": "%s textio | grep mismatch" % os.path.relpath(binary, lib.VERIF)})
            key += ":0x%04x" % h
        chk.fail("corr:text-io", key, "a finite half does not survive operator<< followed by operator>>", rep, bool(mm))
    # the digit counts of numeric_limits<half> are ABOUT this I/O: tie them to it
    if vals is not None:
        md, d10 = int(vals["limits_max_digits10"]), int(vals["limits_digits10"])

        def tio(args):
            rc_, l_ = lines_of([binary] + args, timeout=600)
            sm = [x for x in l_ if x.startswith(args[0] + " ")]
            kv = parse_kv(sm[0]) if rc_ == 0 and len(sm) == 1 else {}
            return kv, [x for x in l_ if x.startswith("mismatch ")], [x for x in l_ if x.startswith("sample ")]
        kv, mm, _ = tio(["textio", str(md)])
        ok1 = kv.get("finite") == 63488 and kv.get("mismatches") == 0
        chk.oblige("corr:text-io at setprecision(max_digits10 = %d): all 63,488 finite halves round-trip" % md, "correspondence", ok1)
        chk.count(63488, 63486)
        if not ok1:
            w = mm[0].split() if mm else None
            chk.fail("corr:text-io:max_digits10", "C03:textio:max_digits10" + (":0x%04x" % int(w[1], 16) if w else ""),
                     "a finite half printed with max_digits10 significant digits does not read back",
                     {"max_digits10": md, "summary": kv, "first_mismatches(bits text readback)": mm[:5],
                      "replay_cmd": "%s textio %d | grep mismatch" % (os.path.relpath(binary, lib.VERIF), md)}, bool(w))
        kv, mm, _ = tio(["textio", str(md - 1)])
        ok2 = kv.get("finite") == 63488 and kv.get("mismatches", 0) > 0
        chk.oblige("corr:text-io at setprecision(max_digits10 - 1 = %d): some finite half does NOT round-trip (max_digits10 is minimal)"
                   % (md - 1), "correspondence", ok2, {"failing_halves": kv.get("mismatches"), "witness": mm[:1]})
        chk.count(63488, 63486)
        if not ok2:
            chk.fail("corr:text-io:max_digits10-minimal", "C03:textio:max_digits10-not-minimal",
                     "every finite half already round-trips with max_digits10 - 1 digits: max_digits10 is not the smallest sufficient count",
                     {"max_digits10": md, "summary": kv}, False)
        kv, mm, smp = tio(["textio_dec", str(d10)])
        ok3 = kv.get("digits") == d10 and kv.get("decimals", 0) > 100 * d10 and kv.get("mismatches") == 0
        chk.oblige("corr:text-io digits10 = %d: every %d-digit decimal with 2^-14 <= |v| <= 65504 survives operator>> then operator<< "
                   "(%s decimals)" % (d10, d10, kv.get("decimals")), "correspondence", ok3)
        chk.count(kv.get("decimals", 0), kv.get("decimals", 0))
        chk.extra["textio_decimal_samples"] = smp
        if not ok3:
            chk.fail("corr:text-io:digits10", "C03:textio:digits10" + (":" + mm[0].split()[1] if mm else ""),
                     "a decimal with digits10 significant digits in the normalized range is changed by text -> half -> text",
                     {"digits10": d10, "summary": kv, "first_mismatches(text bits printed)": mm[:5],
                      "replay_cmd": "%s textio_dec %d | grep mismatch" % (os.path.relpath(binary, lib.VERIF), d10)}, bool(mm))
        kv, mm, _ = tio(["textio_dec", str(d10 + 1)])
        ok4 = kv.get("digits") == d10 + 1 and kv.get("mismatches", 0) > 0
        chk.oblige("corr:text-io digits10 + 1 = %d digits: some decimal does NOT survive (digits10 is maximal)" % (d10 + 1),
                   "correspondence", ok4, {"failing_decimals": kv.get("mismatches"), "of": kv.get("decimals"), "witness": mm[:1]})
        chk.count(kv.get("decimals", 0), kv.get("decimals", 0))
        if not ok4:
            chk.fail("corr:text-io:digits10-maximal", "C03:textio:digits10-not-maximal",
                     "every decimal with digits10 + 1 digits survives: digits10 is not the largest such count", {"digits10": d10, "summary": kv}, False)
    # -- (5) the same commands under AddressSanitizer + UBSan -------------------------------------------
    sub = " ".join("%x" % h for h in hs[::20]) + "\n" + " ".join("%x" % f for f in fs[::20]) + "\n"
    extra_cmds = [(["textio"], None), (["arith_self_list"], sub), (["arith_self_frows"], " ".join("%x" % f for f in fs[::100]) + "\n")]
    if vals is not None:
        extra_cmds += [(["textio", str(int(vals["limits_max_digits10"]))], None), (["textio_dec", str(int(vals["limits_digits10"]))], None)]
    sanitizer_stage(chk, san_of, binary, extra_cmds)

    # NOT exhaustive as a whole: float right-hand sides are a (boundary-rich) sample, and so is the model route in quick
    chk.exhaustive = False
    chk.extra["exhaustive_by_clause"] = {
        "unary minus, classification, fpclassify agreement, round(n) n=0..12, halfFunction tables": "exhaustive (2^16 each) + theorems",
        "numeric_limits / HALF_* constants": "theorems on regenerated constants",
        "a op= b, half rhs, bit-exact vs half(float op float) in the harness": "exhaustive (2^32 x 4) in both tiers",
        "a op= b, half rhs, vs the Lean model (NaN-ness only)": "exhaustive in thorough; SAMPLED in quick (~6,000^2 + 2,048 rows)",
        "a op= f, float rhs": "SAMPLED rhs in both tiers: ~6,000 boundary floats; lhs: all 65,536 (self-check) / ~6,000 (model route)",
        "text I/O": "exhaustive over finite halves (3 precisions) and digits10-digit decimals, for this libstdc++/locale only"}
    chk.sample({"half_bits": "0x7bff", "round(0)": "0x7800", "note": "rounding up would reach 0x7c00: truncated instead"})
    chk.sample({"half_bits": "0x7c01", "round(0)": "0x7c00", "note": "NaN whose payload is truncated away becomes +infinity (outside the property's claim)"})
    chk.sample({"half_bits": "0x8000", "class": "isZero, isFinite, isNegative", "text": "-0"})
