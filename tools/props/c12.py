"""C12 — matrix factorisations recompose to their input with structured factors.

H-route: hand models of extractAndRemoveScalingAndShear (2-D, 3-D: Model/SHRT.lean) and of one Jacobi rotation + the SVD
post-passes (Model/Jacobi.lean), theorems in Props/C12.lean, tied to the real code BIT FOR BIT at double
(harness/corr/c12_corr.cpp, which #includes ImathMatrixAlgo.cpp to reach the helpers of its anonymous namespace, vs
lean/Driver/SHRT.lean = the models at Float / Float32, incl. the whole jacobiSVD / jacobiEigenSolver: the loops are MODEL definitions,
Model/Jacobi.lean section loops, with their invariants and the eigen bookkeeping proved in Lemmas/C12Loops.lean).
T-route: the SHRT wrappers regenerated from ImathMatrixAlgo.h (module Gen/C12.lean; the inner function is an opaque call of the
hand model), theorems in Props/C12.lean and — full-strength recomposition of the 2-D sansScaling/removeScaling —
Props/C12Recompose.lean (held back by a genuine defect until /repo commit ec5bcdd); the rOrder / Euler<T>& overloads of the 3-D
extractSHRT for all 24 orders and computeRSMatrix with small trees from a second translation unit (harness/sym/sym_c12e.cpp, Gen/C12E.lean,
theorems in Props/C12Euler.lean; the Euler<T>& overload was a genuine defect until /repo commit 5493f9d).
Residue (MEASURED, partial): convergence / accuracy of jacobiSVD, jacobiEigenSolver, min/maxEigenVector, accuracy of the SHRT family on
floats, procrustes recovery (incl. far-from-origin clouds) and local optimality (harness/corr/c12_residue.cpp)."""
import os, re, collections
import lib, troute, gen_euler

LEVEL = "proof"
MODULE = "ImathVerif.Props.C12"
MODULE_FULL = "ImathVerif.Props.C12Recompose"
IDX_SHRT = os.path.join(lib.VERIF, "harness", "sym", "index_shrt.txt")
IDX_LEAF = os.path.join(troute.GEN, "index_leaf.txt")
DRV = os.path.join(lib.LEAN, ".lake", "build", "bin", "drv_shrt")

REQUIRED = [
    "M33_extractAndRemoveScalingAndShear", "M44_extractAndRemoveScalingAndShear",
    "M33_extractAndRemoveScalingAndShear_degenerate", "M44_extractAndRemoveScalingAndShear_degenerate",
    "V3_checkForZeroScaleInRow", "V2_checkForZeroScaleInRow", "V3_checkForZeroScaleInRow_guard", "V2_checkForZeroScaleInRow_guard",
    "V3_checkForZeroScaleInRowExc", "V2_checkForZeroScaleInRowExc", "checkForZeroScaleInRow_zero",
    "M33_extractScaling", "M33_extractScalingAndShear", "M33_sansScalingAndShear", "M33_sansScalingAndShearExc",
    "M33_removeScalingAndShear", "M33_extractSHRT", "M33_extractEuler_rotation", "M33_extractSHRT_recompose",
    "M33_removeScaling", "M33_sansScaling_degenerate", "M33_sansScalingExc", "M33_sansScaling_recompose_partial",
    "M44_extractScaling", "M44_extractScalingExc", "M44_extractScalingAndShear", "M44_sansScalingAndShear", "M44_sansScalingAndShearExc",
    "M44_sansScalingAndShearOut", "M44_removeScalingAndShear", "M44_sansScalingAndShear_factors", "M44_extractSHRT",
    "M44_composeTRH", "M44_composeTRS", "M44_sansScaling_eq", "M44_sansScaling", "M44_sansScaling_degenerate", "M44_removeScaling",
    "M44_extractSHRT_recompose_partial", "M44_sansScaling_recompose_partial", "M44_computeRSMatrix_tail",
    "M44_computeRSMatrix_degenerate_partial",
    "twoSidedJacobiRotation_invariant3", "twoSidedJacobiRotation_invariant4", "jacobiSVD_run_invariant3", "jacobiSVD_run_invariant4",
    "jacobiSVD_from_identity3", "jacobiSVD_from_identity4", "twoSidedJacobiRotation_computed_parameters",
    "twoSidedJacobiRotation_tol0_invariant", "jacobiSVD_sweeps_tol0_invariant3", "jacobiSVD_sweeps_tol0_invariant4", "jacobiRotation_invariant", "jacobiRotation_parameters", "jacobiSVD_post3", "jacobiSVD_post4_partial",
    "jacobiSVD_forcePositiveDeterminant", "maxEigenVector_index3", "minEigenVector_index3", "trigSpec_real",
    # strengthening round: success iff non-singular (both directions), unconditional 2-D recomposition, eigen-solver computed parameters
    # + induction, 4x4 order, determinants after forcePositiveDeterminant, 4x4 index selection
    "M33_extractAndRemoveScalingAndShear_succeeds_iff", "M44_extractAndRemoveScalingAndShear_succeeds_iff",
    "extractAndRemoveScalingAndShear_none_iff", "nonvacuity_succeeds", "M33_extractSHRT_total",
    "jacobiRotation_computed_parameters", "jacobiRotation_tol0", "jacobiEigenSolver_sweeps_tol0_invariant3",
    "jacobiEigenSolver_sweeps_tol0_invariant4", "jacobiRotation_Z_tracks_diagonal", "nonvacuity_eigAngles",
    "jacobiSVD_post4", "jacobiSVD_forcePositiveDeterminant_det", "jacobiSVD_forcePositiveDeterminant_sign",
    "maxEigenVector_index4", "minEigenVector_index4",
    # round 2: the solver loops are model definitions (executed by the driver) with loop invariants and the eigen bookkeeping; W11 leftovers
    "loops_tabulation_is_identity", "jacobiSVD_loop_induction", "jacobiSVD_loop_tol0_invariant", "jacobiSVD_whole",
    "jacobiEigenSolver_sweep_Z_tracks_diagonal", "jacobiEigenSolver_update", "jacobiEigenSolver_S_is_diagonal",
    "jacobiEigenSolver_loop_tol0_invariant", "nonvacuity_eigen_loop", "M22_extractEuler_eq_M33", "M33_composeTRH"]
REQUIRED_FULL = ["M33_sansScaling_recompose", "M33_removeScaling_recompose", "M33_sansScaling_witness", "M33_removeScaling_witness",
                 "M33_sansScaling_total", "M33_sansScalingAndShear_total"]
FULL_KEYS = ["M33_sansScaling_recompose", "M33_removeScaling_recompose"]
# 3-D recomposition at full strength: the Euler round trip setEulerAngles (extractEulerXYZ R) = R for EVERY rotation matrix
# (gimbal lock included) is proved in Props/C12Link.lean, which closes M44_extractSHRT/sansScaling_recompose_partial
MODULE_LINK = "ImathVerif.Props.C12Link"
# the two other overloads of the 3-D extractSHRT (rOrder, Euler<T>&), all 24 orders, and computeRSMatrix with small trees
# (second translation unit harness/sym/sym_c12e.cpp -> Gen/C12E.lean)
MODULE_EULER = "ImathVerif.Props.C12Euler"
REQUIRED_EULER = ["reorder_copies_agree", "M44_extractSHRTOrd", "M44_extractSHRTEuler", "toMatrix44_eulerOf", "ctorXYZ_xyzVecOf",
                  "M44_extractSHRTEuler_recompose_partial", "M44_extractSHRTEuler_recompose_XYZ", "M44_extractSHRTOrd_recompose_partial",
                  "M44_extractSHRTOrd_XYZ", "roundTrip_of_principal", "M44_extractSHRTEuler_recompose_real",
                  "M44_extractSHRTOrd_recompose_real", "nonvacuity_shrt_W", "nonvacuity_principal_W", "nonvacuity_recompose_W_ZYX",
                  "M44_computeRSMatrix", "M44_computeRSMatrix_degenerate_B", "M44_computeRSMatrix_1_0_factors",
                  "M44_extractSHRT_overloads_Exc", "M44_extractSHRT6_eq", "M44_extractSHRTExc", "cos_arctan_34", "sin_arctan_34",
                  # FULL for all 24 orders (round trip = C11.toMatrix33_extract, Props/C11Round.lean)
                  "eulerTrigSpec_to_C11", "sqrtSpec_to_C11", "roundTrip_all", "M44_extractSHRTEuler_recompose", "M44_extractSHRTOrd_recompose",
                  "M44_extractSHRTEuler_total", "M44_extractSHRTEuler_recompose_R", "M44_extractSHRTOrd_recompose_R"]
IDX_C12 = os.path.join(troute.GEN, "index_c12.txt")
# procrustesRotationAndTranslation on 3 points (third translation unit harness/sym/sym_c12p.cpp -> Gen/C12P.lean): the text of
# ImathMatrixAlgo.cpp with its double arithmetic made symbolic, jacobiSVD an uninterpreted parameter; TV bitwise at double
MODULE_PROC = "ImathVerif.Props.C12Procrustes"
REQUIRED_PROC = ["procrustes3_weighted", "procrustes3_zero_weight", "unit_weights", "procrustes3_unweighted", "spec_maps_centroid",
                 "spec_linear_is_scaled_rotation", "nonvacuity_procrustes3"]
REQUIRED_LINK = ["extractEulerXYZ_unit", "extractEulerXYZ_copies_agree", "setEulerAngles_toMat", "rotH3_extractEulerXYZ",
                 "M44_extractSHRT_recompose", "M44_sansScaling_recompose", "M44_removeScaling_recompose",
                 "sqrtSpec_real", "eulerTrigSpec_real", "rotH3_extractEulerXYZ_real", "M44_extractSHRT_recompose_real",
                 "M44_sansScaling_recompose_real", "eulerRoundTrip_principal_of_C11", "rotation_is_setEulerAngles",
                 "ear44_W", "extractSHRT_W", "M44_extractSHRT_total", "M44_sansScaling_total", "M44_removeScaling_total", "M44_sansScalingAndShear_total",
                 "len3_eq_one", "transpose_eq_adjugate", "len3_of_sq"]

# witness of the (repaired, /repo ec5bcdd) 2-D sansScaling/removeScaling defect: rotation by the 3-4-5 angle (cos 4/5, sin 3/5), translation (3, 4)
W345 = ["0.8", "0.6", "0", "-0.6", "0.8", "0", "3", "4", "1"]


def idx_deps():
    return [IDX_LEAF, IDX_SHRT]


# ---------------------------------------------------------------------------------------------------------------
# correspondence: hand models at Float (driver) vs the real code at double (harness), bit patterns as text

def _decode(line):
    """hex bit patterns of doubles in a protocol line -> decimal (for the replay; the comparison itself is on the bit patterns)"""
    import struct
    out = []
    for w in line.split():
        if len(w) == 16 and all(c in "0123456789abcdef" for c in w):
            out.append(struct.unpack(">d", bytes.fromhex(w))[0])
        else:
            out.append(w)
    return out


def run_corr(chk, binary, n):
    """returns (ok, per-kind counters, first mismatch per kind, stats, self_fail_lines)"""
    rc, out = lib.sh([binary, str(chk.seed), str(n)], timeout=1800)
    cases = [l[5:] for l in out.split("\n") if l.startswith("CASE ")]
    selff = [l for l in out.split("\n") if l.startswith("RS-FAIL") or l.startswith("SELF-FAIL")]
    stats = {}
    for l in out.split("\n"):
        if l.startswith("STATS"):
            stats = dict(kv.split("=") for kv in l.split()[1:])
    if rc != 0 or not cases:
        return None, {}, {}, stats, selff, out[-1500:]
    ins = [c.split(" => ")[0] for c in cases]
    exp = [c.split(" => ")[1].strip() for c in cases]
    rc2, dout = lib.sh([DRV], stdin="\n".join(ins) + "\n", timeout=1800)
    got = dout.rstrip("\n").split("\n")
    if rc2 != 0 or len(got) != len(exp):
        return None, {}, {}, stats, selff, "driver rc=%s lines=%d expected=%d: %s" % (rc2, len(got), len(exp), dout[-800:])
    good, bad, first = collections.Counter(), collections.Counter(), {}
    for i, (a, b) in enumerate(zip(got, exp)):
        w = ins[i].split()
        k = ("f32:" + w[1]) if w[0] == "f32" else w[0]
        if a.strip() == b:
            good[k] += 1
        else:
            bad[k] += 1
            first.setdefault(k, {"driver_input": ins[i], "input_numbers_decimal": _decode(ins[i]),
                                 "model_at_Float": a.strip(), "real_code_at_double": b,
                                 "model_decimal": _decode(a), "real_code_decimal": _decode(b)})
    return True, {"agree": dict(good), "differ": dict(bad)}, first, stats, selff, ""


KIND_WHAT = {
    "ear33": "2-D extractAndRemoveScalingAndShear (Matrix33)", "ear44": "3-D extractAndRemoveScalingAndShear (Matrix44)",
    "len2": "Vec2::length", "len3": "Vec3::length",
    "jstep3": "one twoSidedJacobiRotation 3x3", "jstep4": "one twoSidedJacobiRotation 4x4",
    "estep3": "one jacobiRotation (eigen solver) 3x3", "estep4": "one jacobiRotation (eigen solver) 4x4",
    "svd3": "jacobiSVD 3x3 (sweeps of the modelled rotation + modelled post-passes)", "svd4": "jacobiSVD 4x4",
    "eig3": "jacobiEigenSolver 3x3", "eig4": "jacobiEigenSolver 4x4", "idx": "maxEigenVector/minEigenVector index selection"}


def correspondence(chk, binary, n, f32=False):
    """model at Float (or, f32, at Float32) vs the real code at double (float), bit for bit"""
    pre, ty, lty = ("f32:", "float", "Float32") if f32 else ("", "double", "Float")
    ok, counts, first, stats, selff, err = run_corr(chk, binary, n)
    if ok is None:
        chk.oblige("corr:%srun" % pre, "correspondence", False, err)
        chk.fail("corr:%srun" % pre, "corr:%srun" % pre, "correspondence harness / driver did not run", {"output": err}, False)
        return
    tot = 0
    for k0, what in KIND_WHAT.items():
        k = pre + k0
        a, d = counts["agree"].get(k, 0), counts["differ"].get(k, 0)
        tot += a + d
        chk.oblige("corr:%s: model at %s = real code at %s, bit for bit (%d cases)" % (k, lty, ty, a + d), "correspondence",
                   d == 0 and a > 0, None if d == 0 and a > 0 else {"agree": a, "differ": d})
        if d:
            chk.fail("corr:" + k, "corr:%s" % k,
                     "hand model of %s differs from the real code at %s (%d of %d cases): the model no longer mirrors the source" % (what, ty, d, a + d),
                     first[k], True)
        elif a == 0:
            chk.fail("corr:" + k, "corr:%s:none" % k, "no correspondence cases of kind %s were produced" % k, {}, False)
    nontriv = sum(int(stats.get(k, 0)) for k in ("ear44_true", "ear33_true", "jstep3_changed", "jstep4_changed", "estep3_changed", "svd3", "svd4", "eig3", "eig4"))
    chk.count(tot, nontriv)
    chk.extra["correspondence" + ("_float" if f32 else "")] = {"cases": tot, "per_kind": counts, "branch_hits": stats}
    for need in ("ear44_true", "ear44_false", "ear44_flipped", "ear33_true", "ear33_false", "ear33_flipped",
                 "jstep3_changed", "jstep3_unchanged", "jstep4_changed", "jstep4_unchanged", "estep3_changed", "estep3_unchanged",
                 "estep4_changed", "estep4_unchanged", "svd_force_flips", "rs_ok", "rs_throw",
                 "svd_structured3", "svd_structured4", "eig_structured3", "eig_structured4", "svd_structured_rotated"):
        if int(stats.get(need, 0)) == 0:
            chk.oblige("corr:%sgenerator-hits:%s" % (pre, need), "correspondence", False, "generator never reached this branch")
            chk.fail("corr:generator", "corr:%sgenerator:%s" % (pre, need), "correspondence generator never reached branch " + need, {"stats": stats}, False)
    okrs = not [l for l in selff if l.startswith("RS-FAIL")]
    chk.oblige("corr:%scomputeRSMatrix = makeIdentity;translate(tA);rotate(rA|rB);scale(sA|sB) of the real extractSHRT factors, bitwise; "
               "domain_error iff A or B degenerate (%s calls)" % (pre, int(stats.get("rs_ok", 0)) + int(stats.get("rs_throw", 0))),
               "correspondence", okrs, None if okrs else selff[:3])
    if not okrs:
        chk.fail("corr:computeRSMatrix", "corr:%scomputeRSMatrix:factor-selection" % pre,
                 "computeRSMatrix does not mix the factors as documented", {"line": selff[0]}, True)
    oksf = not [l for l in selff if l.startswith("SELF-FAIL")]
    chk.oblige("corr:%sexc=true throws std::domain_error exactly when exc=false returns false" % pre, "correspondence", oksf, None if oksf else selff[:3])
    if not oksf:
        chk.fail("corr:exc", "corr:%sexc-vs-nonexc" % pre, "throwing and non-throwing forms of extractAndRemoveScalingAndShear disagree", {"line": selff[0]}, True)
    return first


# ---------------------------------------------------------------------------------------------------------------
# residue

def residue(chk, binary, n):
    rc, out = lib.sh([binary, str(chk.seed), str(n)], timeout=3000)
    m = re.search(r"RESIDUE evals=(\d+) failures=(\d+)(.*)", out)
    h = re.search(r"HITS(.*)", out)
    if not m:
        chk.oblige("residue:run", "residue", False, out[-600:])
        chk.fail("residue", "residue:run", "residue harness failed to run", {"output": out[-2000:]}, False)
        return
    worst = dict((k, float(v)) for k, v in (kv.rsplit("=", 1) for kv in m.group(3).split()))
    fails = collections.OrderedDict()
    for l in out.split("\n"):
        if l.startswith("RESIDUE-FAIL"):
            what = l.split()[1]
            fails.setdefault(what, l)
    for what, w in sorted(worst.items()):
        ok = what not in fails
        chk.oblige("residue:%s (worst observed / bound = %.3g)" % (what, w), "residue", ok, None if ok else fails[what][:300])
    for what, l in fails.items():
        cls = re.search(r"class=(\S+)|shape=(\S+)", l)
        c = (cls.group(1) or cls.group(2)) if cls else "?"
        chk.fail("residue:" + what, "residue:%s:%s" % (what, c),
                 "measured property violated on the real code: " + l[:400], {"line": l}, True)
    chk.count(int(m.group(1)), int(m.group(1)))
    hitmap = dict(kv.split("=") for kv in h.group(1).split()) if h else {}
    need = ["shrt3:graded", "shrt3:reflected", "shrt3:no-shear", "shrt3:unit", "shrt2:graded", "shrt2:reflected", "shrt3:order-XYZ",
            "shrt3:order-ZYX", "shrt3:order-ZXZ", "shrt3:order-XYZr", "procrustes:far-cloud:exact", "procrustes:far-lattice:exact", "procrustes:formula-compared",
            "procrustes:collinear:exact", "procrustes:coplanar:exact", "procrustes:single:exact", "procrustes:general:noisy",
            "svd:graded", "svd:rank-deficient", "svd:repeated", "svd:last-negative", "eig:graded"]
    missing = [k for k in need if int(hitmap.get(k, 0)) == 0]
    chk.oblige("residue:generator reaches every input class (%s)" % ", ".join("%s=%s" % (k, hitmap.get(k, 0)) for k in need),
               "residue", not missing, missing or None)
    for k in missing:
        chk.fail("residue:generator", "residue:generator:" + k, "residue generator never produced class " + k, {"hits": hitmap}, False)
    if int(hitmap.get("procrustes:far-lattice:inexact-skipped", 0)) > 0:
        chk.oblige("residue:far-lattice inputs exactly representable", "residue", False, hitmap)
        chk.fail("residue:generator", "residue:generator:far-lattice-inexact", "far-lattice generator produced inputs that are not exact at T", {"hits": hitmap}, False)
    chk.residues["C12"] = {"evaluations": int(m.group(1)), "worst_value_over_bound": worst,
                           "bounds": "each constant ~4x the largest value observed on the clean tree (seeds 1-5 quick, 1-3 thorough): "
                                     "SVD U orthonormal, |U diag(S) V^T - A| <= 64*eps*|A|, V orthonormal 40*eps; eigen 24*eps; "
                                     "SHRT family (3-D, 2-D, both other extractSHRT overloads x 11 orders): row-relative recomposition error "
                                     "<= 16*eps*(1+|h|)^2, R orthonormal / det R = 1 to 8*eps*(1+|h|)^2; procrustes exact recovery: general "
                                     "12*eps(T)*(|B|+1) (x8 with scale), degenerate shapes 256*eps(T)*(|B|+1); far clouds (offset/extent 1e3..2^24 double, "
                                     "1e2..1e4 float): linear part to 32*eps(T)*offset/extent, points to 12*eps(T)*(|B|+1); far lattices (all numbers exact "
                                     "at T, offset 2^16..2^24 double, 2^8..2^16 float): linear part to eps(double)*offset, points to 8*eps(double)*(|B|+1); "
                                     "local optimality: no probed perturbation lowers the residual by > 1e-9 (1e-5 float) relative",
                           "class_hits": dict(kv.split("=") for kv in h.group(1).split()) if h else {}}


# ---------------------------------------------------------------------------------------------------------------
# failing-input search

def defect_search(chk, sym_binary, name):
    """The full-strength recomposition of the 2-D sansScaling / removeScaling does not elaborate: decide whether the CODE
    violates the statement by replaying the 3-4-5 witness (the counterexample of the defect repaired in /repo commit ec5bcdd)
    on the real code at double: sansScaling must return the matrix unchanged, translation row (3, 4)."""
    fn = "M33.sansScaling" if "sans" in name else "M33.removeScaling"
    cmd = [sym_binary, "real", fn] + W345
    for d in idx_deps():
        cmd += ["--idx", d]
    rc, out = lib.sh(cmd, timeout=120)
    line = out.strip().split("\n")[-1] if out.strip() else ""
    m = re.search(r"vals=(.*?)ints=", line)
    vals = [float(x) for x in m.group(1).split()] if m else []
    want = [0.8, 0.6, 0.0, -0.6, 0.8, 0.0, 3.0, 4.0, 1.0]
    if len(vals) != 9 or all(abs(a - b) <= 1e-9 for a, b in zip(vals, want)):
        return None
    return {"key": "theorem:" + name,
            "witness": "M = rotation by the 3-4-5 angle (cos 4/5, sin 3/5) * translation (3,4): rows (0.8,0.6,0) (-0.6,0.8,0) (3,4,1); "
                       "scale (1,1), shear 0, so sansScaling(M) must be M itself (theorems M33_sansScaling_witness / M33_removeScaling_witness)",
            "expected_row_major": want, "real_code_at_double_row_major": vals, "real_code_at_double": line,
            "history": "this is the defect repaired in /repo commit ec5bcdd: recomposing with M.translate(tran); M.rotate(rot); "
                       "M.shear(shr) gives shear*translation*rotation because Matrix33::rotate POST-multiplies (translation row (0,5) "
                       "on this witness); the repaired code does M.rotate(rot); M.shear(shr); M[2][0] = tran.x; M[2][1] = tran.y"}


def idx_deps_e():
    return [IDX_LEAF, IDX_SHRT, IDX_C12]


# toXYZVector slot permutation of a few orders: XYZ vector v -> the Euler's own (ijk) storage
_OWN_LAYOUT = {"XZY": lambda v: [v[0], v[2], v[1]], "YZX": lambda v: [v[1], v[2], v[0]], "YXZ": lambda v: [v[1], v[0], v[2]],
               "ZXY": lambda v: [v[2], v[0], v[1]], "ZYX": lambda v: [v[2], v[1], v[0]]}


def euler_search(chk, sym_binary, name):
    """a broken theorem about the rOrder / Euler<T>& overloads of extractSHRT: replay the witness W (scale (5,10,2), shear xy = 1,
    3-4-5 rotation about Z, translation (7,8,9)) on the real code at double for a few orders and compare what the Euler<T>& overload
    leaves in r (its own storage) with the XYZ vector of the Vec3 overload put into the layout of the order (setXYZVector)."""
    if not sym_binary or "extractSHRT" not in name:
        return None
    W = ["4", "3", "0", "0", "2", "14", "0", "0", "0", "0", "2", "0", "7", "8", "9", "1"]

    def real(fn):
        cmd = [sym_binary, "real", fn] + W
        for d in idx_deps_e():
            cmd += ["--idx", d]
        rc, out = lib.sh(cmd, timeout=120)
        line = out.strip().split("\n")[-1] if out.strip() else ""
        mv = re.search(r"exc=(\S+) vals=(.*?)ints=(.*)", line)
        return (line, [float(x) for x in mv.group(2).split()], [int(x) for x in mv.group(3).split()]) if mv else (line, None, None)
    bad = []
    for o, perm in sorted(_OWN_LAYOUT.items()):
        le, ve, ie = real("M44.extractSHRTEuler_" + o)
        lo, vo, io = real("M44.extractSHRTOrd_" + o)
        if ve is None or vo is None or len(ve) != 12 or len(vo) != 12:
            continue
        # W's rotation is about Z only, by atan(3/4): for these (non-repeated, static-frame) orders the XYZ vector is (0, 0, atan(3/4))
        import math
        xyz = [0.0, 0.0, math.atan2(3.0, 4.0)]
        want = perm(xyz)
        if ie[:1] != [1] or io[:1] != [1] or any(abs(a - b) > 1e-12 for a, b in zip(ve[6:9], want)) or \
                any(abs(a - b) > 1e-12 for a, b in zip(vo[6:9], xyz)):
            bad.append({"order": o, "Euler_overload_r_storage(x,y,z)": ve[6:9], "Vec3_rOrder_overload_r": vo[6:9],
                        "expected_XYZ_vector_from_the_rOrder_overload": xyz,
                        "expected_r_storage_of_the_Euler_overload = setXYZVector(XYZ vector)": want,
                        "real_code_at_double": [le, lo]})
    if not bad:
        return None
    return {"key": "theorem:" + name,
            "input": "M = scale (5,10,2) * shear (xy = 1) * rotation about Z by atan(3/4) * translation (7,8,9), rows (4,3,0,0) (2,14,0,0) (0,0,2,0) (7,8,9,1)",
            "call": "Euler<double> r (order); extractSHRT (M, s, h, r, t, false)",
            "what": "the Euler<T>& overload writes the XYZ vector (angle about X in .x, about Y in .y, about Z in .z) through the Vec3 base of r, "
                    "whose own storage is in the ijk order of its Order: r.toMatrix44 () is not the rotation factor of M",
            "orders": bad}


def dispatch_rows(chk):
    """the three hand-written dispatch tables of Props/C12Euler.lean (shrtOrd, shrtEuler, reorder12: 24 rows each): every row
    `| .<O> => Gen.M44.<fn>_<O> …` must name the definition of ITS OWN order, every order exactly once per table"""
    src = lib.strip_lean_comments(open(os.path.join(lib.LEAN, "ImathVerif", "Props", "C12Euler.lean")).read())
    orders = "XYZ XZY YZX YXZ ZXY ZYX XZX XYX YXY YZY ZYZ ZXZ XYZr XZYr YZXr YXZr ZXYr ZYXr XZXr XYXr YXYr YZYr ZYZr ZXZr".split()
    bad, tables = [], {}
    for tab, fn in (("shrtOrd", "extractSHRTOrd"), ("shrtEuler", "extractSHRTEuler"), ("reorder12", "reorderFromXYZ")):
        m = re.search(r"def %s \(o : Ord\).*?(?=\n\n|\ndef |\n/--)" % tab, src, re.S)
        rows = re.findall(r"\|\s*\.(\w+)\s*=>\s*Gen\.M44\.(\w+?)_(\w+)\s", m.group(0) if m else "")
        tables[tab] = len(rows)
        for o, f, o2 in rows:
            if o != o2 or f != fn:
                bad.append("%s: row .%s names Gen.M44.%s_%s" % (tab, o, f, o2))
        if sorted(r[0] for r in rows) != sorted(orders):
            bad.append("%s: rows %s" % (tab, sorted(r[0] for r in rows)))
    ok = not bad
    chk.oblige("tables:C12Euler dispatch rows name the definition of their own order (%s)" % ", ".join("%s=%d" % kv for kv in sorted(tables.items())),
               "audit", ok, bad[:6] or None)
    for b in bad[:6]:
        chk.fail("tables:C12Euler", "tables:C12Euler:" + b.split(":")[0], "dispatch table of Props/C12Euler.lean is not the identity on orders: " + b, {"row": b}, False)


def _mm(a, b):
    n = len(a)
    return [[sum(a[i][k] * b[k][j] for k in range(n)) for j in range(n)] for i in range(n)]


def wrapper_search(chk, sym_binary, name):
    """a broken wrapper theorem: run the real function (double) on M = S*H*R*T built from known factors (R = rotation by the
    3-4-5 angle about z, positive scales, so the Gram-Schmidt factors are unique) and compare with what the property says"""
    import math
    m = re.match(r"M(33|44)_([A-Za-z]+)", name)
    if not m or not sym_binary:
        return None
    dim, fn = m.group(1), m.group(2)
    if fn.endswith("Exc"):
        fn = fn[:-3]
    if dim == "44":
        S = [[2, 0, 0, 0], [0, 3, 0, 0], [0, 0, 5, 0], [0, 0, 0, 1]]
        H = [[1, 0, 0, 0], [0.5, 1, 0, 0], [0.25, -0.5, 1, 0], [0, 0, 0, 1]]
        R = [[0.8, 0.6, 0, 0], [-0.6, 0.8, 0, 0], [0, 0, 1, 0], [0, 0, 0, 1]]
        T = [[1, 0, 0, 0], [0, 1, 0, 0], [0, 0, 1, 0], [3, 4, 5, 1]]
        scl, shr, tr, rot = [2, 3, 5], [0.5, 0.25, -0.5], [3, 4, 5], [0, 0, math.atan2(0.6, 0.8)]
    else:
        S = [[2, 0, 0], [0, 3, 0], [0, 0, 1]]
        H = [[1, 0, 0], [0.5, 1, 0], [0, 0, 1]]
        R = [[0.8, 0.6, 0], [-0.6, 0.8, 0], [0, 0, 1]]
        T = [[1, 0, 0], [0, 1, 0], [3, 4, 1]]
        scl, shr, tr, rot = [2, 3], [0.5], [3, 4], [math.atan2(0.6, 0.8)]
    M = _mm(_mm(_mm(S, H), R), T)
    flat = lambda a: [x for row in a for x in row]
    RT, HRT = flat(_mm(R, T)), flat(_mm(_mm(H, R), T))
    expect = {"extractScaling": ([1], scl), "extractScalingAndShear": ([1], scl + shr), "sansScalingAndShear": ([], RT),
              "removeScalingAndShear": ([1], RT), "extractSHRT": ([1], scl + shr + rot + tr),
              "sansScaling": ([], HRT), "removeScaling": ([1], HRT)}
    if fn not in expect or (dim == "33" and fn in ("sansScaling", "removeScaling")):
        return None
    cmd = [sym_binary, "real", "M%s.%s" % (dim, fn)] + ["%r" % float(x) for x in flat(M)]
    for d in idx_deps():
        cmd += ["--idx", d]
    rc, out = lib.sh(cmd, timeout=120)
    line = out.strip().split("\n")[-1] if out.strip() else ""
    mv = re.search(r"exc=(\S+) vals=(.*?)ints=(.*)", line)
    if not mv:
        return None
    vals = [float(x) for x in mv.group(2).split()]
    ints = [int(x) for x in mv.group(3).split()]
    eints, evals = expect[fn]
    bad = mv.group(1) != "-" or ints != eints or len(vals) != len(evals) or any(abs(a - b) > 1e-9 for a, b in zip(vals, evals))
    if not bad:
        return None
    return {"key": "theorem:" + name, "function": "M%s.%s" % (dim, fn),
            "input": "M = S*H*R*T with S=%s, shear=%s, R = rotation by the 3-4-5 angle (cos .8, sin .6), T=%s" % (scl, shr, tr),
            "input_matrix_row_major": flat(M), "expected (exception, bools, values)": ["-", eints, evals],
            "real_code_at_double": line}


def generic_search(chk, state, name):
    """a broken theorem about a hand model: look for a model/real-code difference (the tie), else nothing"""
    first = state.get("corr_first") or {}
    eig = "jacobiRotation" in name or "Eigen" in name
    for k in ("ear33", "ear44", "jstep3", "jstep4", "estep3", "estep4", "idx"):
        if k in first and (("M33" in name and k == "ear33") or ("M44" in name and k == "ear44") or
                           ("acobi" in name and not eig and k.startswith("jstep")) or (eig and k.startswith("estep")) or
                           ("EigenVector_index" in name and k == "idx")):
            return dict(first[k], key="theorem:" + name)
    return wrapper_search(chk, state.get("sym"), name)


# ---------------------------------------------------------------------------------------------------------------

def run(chk):
    chk.level = LEVEL
    chk.trusted = ["Lean 4.33 kernel; axioms propext/Classical.choice/Quot.sound at most",
                   "Mathlib: Matrix.mul/det/transpose/diagonal, Complex.arg, Real.sqrt/sin/cos (only in the non-vacuity examples)",
                   "translator harness/sym (wrappers), validated each run: bitwise TV at float and double + Lean-side TV at Rat",
                   "hand models Model/SHRT.lean, Model/Jacobi.lean tied to ImathMatrixAlgo.h/.cpp by bit-for-bit correspondence at double AND float "
                   "(harness/corr/c12_corr.cpp, -DC12_FLOAT, vs lean/Driver/SHRT.lean generic in the element type); Lean Float / Float32 = IEEE "
                   "binary64 / binary32 with the machine's sqrt",
                   "second translation unit harness/sym/sym_c12e.cpp (rOrder / Euler<T>& overloads of extractSHRT, computeRSMatrix): every callee is "
                   "an opaque call of a definition regenerated by the same run (Gen/C12.lean) or of the hand model; the specialised re-ordering "
                   "constructor aborts unless its source order is XYZ; TV evaluates the real callees",
                   "third translation unit harness/sym/sym_c12p.cpp: ImathMatrixAlgo.cpp #included with the tokens double/V3d/M33d/M44d re-defined "
                   "to the symbolic scalar (the compiled text is the file itself); jacobiSVD an uninterpreted parameter; TV bitwise at double "
                   "against the separately compiled unmodified file",
                   "C11's extracted Euler definitions (Gen/C11Euler.lean, Gen/C11Algo.lean, Gen/EulerOrder.lean) and theorems: REGENERATED by this "
                   "check too (tag c11, same extractor as C11's check); their translator validation is C11's obligation",
                   "long double reference arithmetic of the residue harness", "g++ -O1 -ffp-contract=off and the CPU"]
    chk.assumptions = ["theorems are about exact arithmetic over an ordered field; sqrt/sin/cos/atan2 are parameters with explicit hypotheses "
                       "(SqrtSpec, TrigSpec), shown satisfiable by the real functions",
                       "one Jacobi rotation is proved to be an orthogonal similarity GIVEN parameters that are unit pairs and diagonalise "
                       "the 2x2 block, and the parameters the SVD code AND the eigen solver compute with tolerance 0 are proved to be such; the "
                       "effect of a positive tolerance, rounding, convergence of the sweeps, accuracy are MEASURED (partial)",
                       "procrustes: for N = 3, doScale = false the value is proved to be translate(-cA) * V U^T * translate(cB) for the solver's "
                       "factors of the (weighted) covariance (centroid to centroid, rotation given an orthogonal det +1 solver, identity on zero weight); "
                       "the doScale value, optimality / exact recovery, other N and rounding are MEASURED",
                       "success of the SHRT extraction: with 1 < max it returns true exactly on non-singular linear parts (exact arithmetic); on "
                       "floats the overflow guards can reject nearly singular input, which is what the property allows",
                       "the rOrder / Euler<T>& overloads of extractSHRT recompose through toMatrix44: FULL for all 24 orders, gimbal lock included "
                       "(the Euler round trip toMatrix33 (extract R) = R is C11.toMatrix33_extract, Props/C11Round.lean)",
                       "3-D extractSHRT/sansScaling/removeScaling recomposition: FULL (Props/C12Link.lean proves the Euler round trip "
                       "setEulerAngles (extractEulerXYZ R) = R for every rotation matrix, gimbal lock included, over any ordered field with "
                       "sqrt/sin/cos/atan2 satisfying SqrtSpec/EulerTrigSpec, which Real.sqrt/sin/cos and atan2 y x = arg (x+iy) do)",
                       "computeRSMatrix: factor selection for all four flag pairs and both degenerate arms proved on the small-tree extraction "
                       "(sym_c12e.cpp); the 73-path extraction of sym_c12.cpp is kept (tail algebra, degenerate-A arm) and the selection is also "
                       "checked bitwise on the real code"]
    chk.rule = ("correspondence: affine matrices S*H*R*T with graded conditioning 10^-12..10^12, negative scales/reflections, zero / dependent "
                "rows (guards), tiny rows (lengthTiny, denormals), integer and non-affine matrices; Jacobi: random / integer / symmetric / "
                "diagonal / nearly diagonal / trace-free blocks x 4 tolerances; whole solvers incl. rank-deficient and repeated values, plus "
                "DETERMINISTIC structured sparse matrices in every tier (harness/corr/c12_structured.h: every single off-diagonal position, "
                "single row / column, identity + last row / column (translations), scale + translation, block-diagonal, triangular, "
                "permutation x diagonal, symmetric versions for the eigen solver, magnitudes 1 / 1e-3 / 1e3), in both harnesses. "
                "the same generators at float (exponent ranges scaled) against the models at Float32. "
                "residue: graded conditioning, repeated, rank-deficient, diagonal, reflection, symmetric, zero, scaled x {3,4} x {float,double} "
                "x force; SHRT family: S*H*R*T with scales graded over 10^+-12 / 10^+-5, reflections, zero shear, unit, x {3-D, 2-D} x {float,double} "
                "x 11 Euler orders for the two other extractSHRT overloads + a fixed witness (XYZ angles .3,.5,-.7); "
                "point sets general/collinear/coplanar/single/pair/duplicates/far-cloud/far-lattice x weighted x scale x exact/noisy.  non-trivial = "
                "decompositions that succeed, rotations that change the matrix, whole-solver runs")
    bins = troute.build_extractors(chk, [dict(name="sym_leaf", source="sym/sym_leaf.cpp"), dict(name="sym_c12", source="sym/sym_c12.cpp"),
                                         dict(name="sym_c12e", source="sym/sym_c12e.cpp"),
                                         dict(name="sym_c11", source="sym/sym_c11.cpp")])
    res = lib.cxx_build_many([dict(name="c12_corr", sources=["corr/c12_corr.cpp"]), dict(name="c12_residue", sources=["corr/c12_residue.cpp"]),
                              dict(name="c12_corr_f", sources=["corr/c12_corr.cpp"], extra=("-DC12_FLOAT",)),
                              # symbolic procrustes + the real, unmodified ImathMatrixAlgo.cpp (what translator validation calls)
                              dict(name="sym_c12p", sources=["sym/sym_c12p.cpp", os.path.join(lib.REPO, "src/Imath/ImathMatrixAlgo.cpp")],
                                   extra=troute.SYM_FLAGS)])
    for nm in ("c12_corr", "c12_residue", "c12_corr_f", "sym_c12p"):
        ok, path, log = res[nm]
        chk.oblige("build:" + nm, "build", ok, None if ok else log[-1500:])
        if not ok:
            chk.fail("build:" + nm, "build:" + nm, "harness no longer compiles against the current sources (tie broken)",
                     {"compiler_errors": [l for l in log.split("\n") if "error" in l][:12]}, False)
        bins[nm] = path if ok else None
    state = {"sym": bins.get("sym_c12")}
    if bins.get("sym_leaf"):
        troute.regenerate(chk, bins["sym_leaf"], "leaf")
    # staleness guard for what Props/C12Link.lean and Props/C12Euler.lean import from C11 (Gen/C11Euler.lean, Gen/C11Algo.lean,
    # Gen/EulerOrder.lean: toMatrix33/44, toXYZVector, the XYZ-layout and re-ordering constructors, the Order codes): regenerated HERE
    # from the current ImathEuler.h / ImathMatrixAlgo.h, exactly as C11's own check does, so that `check.py C12` alone never proves
    # statements about old definitions (their translator validation stays C11's obligation)
    if bins.get("sym_leaf") and bins.get("sym_c11"):
        okE, infoE = gen_euler.regenerate()
        chk.oblige("gen:EulerOrder regenerated from the current ImathEuler.h (imported through Props.C11)", "translator", okE, None if okE else infoE)
        if not okE:
            chk.fail("gen:EulerOrder", "gen:EulerOrder", "the Order enumeration could not be regenerated from the current header", infoE, False)
        troute.regenerate(chk, bins["sym_c11"], "c11", idx_deps=[IDX_LEAF])
    if bins.get("sym_c12"):
        index, changed = troute.regenerate(chk, bins["sym_c12"], "c12", idx_deps=idx_deps())
        troute.tv(chk, bins["sym_c12"], "c12", 400 if chk.thorough else 64, idx_deps=idx_deps())
        # the opaque callees (hand model of the inner function) have exact-fraction natives = the REAL template at FracS
        # (c12_shrt_opaque.h), so no entry is skipped any more; many 3-D cases overflow the 128-bit fractions, hence the larger n
        troute.lean_tv(chk, bins["sym_c12"], "c12", index, n=24 if chk.thorough else 12, idx_deps=idx_deps())
        sk = (chk.extra.get("lean_tv", {}).get("c12") or {}).get("skipped_external_calls")
        chk.oblige("lean-tv:c12: no entry skipped for opaque callees (skipped = %s)" % sk, "translation-validation", sk == 0, None if sk == 0 else sk)
        if sk != 0:
            chk.fail("lean-tv:c12", "lean-tv:c12:skipped", "Lean-side translator validation skips entries again (exact-fraction natives missing)", {"skipped": sk}, False)
        for d in index[:6]:
            chk.sample({"entry": d["name"], "paths": d.get("paths")})
        if bins.get("sym_c12e"):
            # second translation unit: the rOrder / Euler<T>& overloads of extractSHRT (24 orders) and computeRSMatrix with every callee
            # an opaque call of a definition regenerated just above (Gen/C12.lean) or of the hand model
            index_e, _ = troute.regenerate(chk, bins["sym_c12e"], "c12e", idx_deps=idx_deps_e())
            troute.tv(chk, bins["sym_c12e"], "c12e", 400 if chk.thorough else 64, idx_deps=idx_deps_e())
            # Lean-side validation of the emitted text: callees at exact fractions = the real templates at FracS.  Nearly every
            # SUCCESSFUL decomposition overflows the 128-bit fractions on the way through extractEulerXYZ and the re-ordering constructor,
            # so this validates mainly the failure arm (argument passing, tuple shape, order code) — recorded, not hidden
            troute.lean_tv(chk, bins["sym_c12e"], "c12e", index_e, n=60, idx_deps=idx_deps_e())
            for d in index_e[:4]:
                chk.sample({"entry": d["name"], "paths": d.get("paths")})
    if bins.get("sym_c12p"):
        index_p, _ = troute.regenerate(chk, bins["sym_c12p"], "c12p")
        troute.tv(chk, bins["sym_c12p"], "c12p", 400 if chk.thorough else 64)
    # every leaf of the small trees must be reached by the bitwise TV inputs (c12p: zero total weight / general; c12e: failure / success arm,
    # computeRSMatrix A degenerate / B degenerate / ok): a translator slip on a leaf never reached would be invisible
    for tg in ("c12p", "c12e"):
        ph = getattr(chk, "tv_paths", {}).get(tg)
        if ph is not None:
            low = sorted(k for k, v in ph.items() if v[0] < v[1])
            chk.oblige("tv:%s: every leaf of every tree reached by the TV inputs (%d trees)" % (tg, len(ph)), "translation-validation", not low, low[:8] or None)
            for k in low[:8]:
                chk.fail("tv:" + tg, "tv:%s:leaves:%s" % (tg, k), "TV inputs do not reach every leaf of %s (%d of %d)" % (k, ph[k][0], ph[k][1]), {"entry": k}, False)
    rc, out = lib.lake_build(["drv_shrt"])
    chk.oblige("build:drv_shrt", "build", rc == 0, None if rc == 0 else out[-800:])
    if rc != 0:
        chk.fail("build:drv_shrt", "build:drv_shrt", "the model driver does not build", {"output": out[-1500:]}, False)
    if rc == 0 and bins.get("c12_corr"):
        state["corr_first"] = correspondence(chk, bins["c12_corr"], 2000 if chk.thorough else 300)
    if rc == 0 and bins.get("c12_corr_f"):
        # the float instantiations (incl. the explicit instantiations of jacobiSVD / jacobiEigenSolver in the .cpp) vs the same models at Float32
        correspondence(chk, bins["c12_corr_f"], 1000 if chk.thorough else 150, f32=True)
    chk.check_theorems(MODULE, required=REQUIRED, search=lambda n: generic_search(chk, state, n))
    chk.check_theorems(MODULE_FULL, required=REQUIRED_FULL,
                       search=lambda n: defect_search(chk, bins.get("sym_c12"), n) if bins.get("sym_c12") else None)
    chk.check_theorems(MODULE_LINK, required=REQUIRED_LINK, search=lambda n: generic_search(chk, state, n))
    dispatch_rows(chk)
    chk.check_theorems(MODULE_PROC, required=REQUIRED_PROC, search=lambda n: None)
    chk.check_theorems(MODULE_EULER, required=REQUIRED_EULER,
                       search=lambda n: euler_search(chk, bins.get("sym_c12e"), n) or generic_search(chk, state, n))
    # removeScaling (Matrix33) returns sansScaling's matrix (theorem M33_removeScaling): its recomposition theorem is derived from
    # M33_sansScaling_recompose, so it inherits the failure; report it under its own key with its own replay on the real code
    if any(f["key"] == "theorem:M33_sansScaling_recompose" for f in chk.failures) and bins.get("sym_c12") and \
            not any(f["key"] == "theorem:M33_removeScaling_recompose" for f in chk.failures):
        rep = defect_search(chk, bins["sym_c12"], "M33_removeScaling_recompose")
        if rep:
            chk.oblige("theorem:M33_removeScaling_recompose (depends on M33_sansScaling_recompose)", "theorem", False,
                       "derived from a theorem that does not hold for the current source")
            chk.fail("theorem:M33_removeScaling_recompose", "theorem:M33_removeScaling_recompose",
                     "removeScaling(Matrix33) does not leave shear*rotation*translation in the matrix; failing input found", rep, True)
    if bins.get("c12_residue"):
        residue(chk, bins["c12_residue"], 3000 if chk.thorough else 300)
    if chk.thorough:
        chk.leanchecker(MODULE)
