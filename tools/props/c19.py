"""C19 — PyImath arrays index like Python sequences and honour read-only protection.

Theorems: lean/ImathVerif/Props/C19.lean over the hand models Model/FixedArray.lean (+ FixedArray2D,
StringTable, BufferProtocol).  Tie: the REAL imath module built from the current tree (tools/pyimath.py)
is driven through the same op lines as the Lean driver (drv_fixedarray): exhaustive small scope + random
op sequences with shrinking + corpus, every FixedArray class the module registers.  The same streams are
also executed on plain Python lists (the specification).  Which model variant (`Cfg`) the current code
is, is DECIDED here by correspondence; a variant with a defect flag, any deviation from list semantics and
any model/implementation mismatch is a violation with a minimal replay."""
import os, sys, json, re, collections, itertools, time
from concurrent.futures import ThreadPoolExecutor
import lib, pyimath, c19lib
import c19_gen

REQUIRED = [
    # primary: the code as it is now (Cfg.current / BufCfg.repaired, decided by correspondence below)
    "readonly_invariant", "readonly_invariant_current", "readonly_step_raises", "readonly_step_raises_current",
    "setitem_readonly_error", "iaddScalar_readonly_error", "writable_monotone", "step_protected",
    "canonical_index_refines", "canonical_index_in_bounds", "slice_indices_refine", "slice_indices_in_bounds",
    "slice_any_sign", "current_start_test", "getslice_total",
    "getitem_refines", "getslice_refines", "getmask_refines", "setitem_scalar_slice_refines",
    "setitem_scalar_int_refines", "setitem_vector_slice_refines", "setitem_vector_length_mismatch",
    "setitem_scalar_mask_refines", "setitem_vector_mask_refines", "ifelse_refines", "mask_length_mismatch",
    # the global invariant (clause 11) and derived views (clause 12)
    "step_preserves_WF", "no_oob_current", "derived_view_readonly", "readonly_is_per_object",
    # functional theorems for the operations that were only correspondence-checked (clauses 7, 9, 10)
    "ifelse_scalar_refines", "setitem_vector_mask_packed_refines", "iadd_scalar_refines", "iaddVector_refines",
    "iaddVector_masked_refines", "setitem_scalar_mask_on_masked_refines",
    "maskPositions_spec", "maskPositions_sorted", "select_eq_zip_filter",
    "error_leaves_state", "convert_refines", "setitem_scalar_mask_on_masked_ignores_mask",
    # component arrays (.x .y .z .w / .r .g .b .a / .min .max): intended behaviour + refutation for the getters as first examined
    "component_refines", "component_protected", "component_asWritten_drops_mask", "component_witness_run",
    "component_asWritten_empty_mask_reads_out_of_bounds",
    "array2d_item_refines", "array2d_getslice_forward_refines", "array2d_forward_slices_accepted", "array2d_setitem_int_refines", "matrix_row_refines",
    # 2-D / matrix / variable-array WRITES, string comparison, exported contents (were correspondence-only)
    "array2d_positions_are_the_slice", "array2d_setitem_scalar_refines", "array2d_setitem_vector_refines",
    "array2d_setitem_array1d_refines", "array2d_setitem_scalar_mask_refines", "array2d_setitem_vector_mask_refines",
    "array2d_setitem_array1d_mask_refines", "matrix_rows_int", "matrix_rows_slice", "matrix_setitem_scalar_refines",
    "matrix_setitem_vector_refines", "matrix_setitem_matrix_refines",
    "varray_setelem_refines", "varray_setrow_refines", "varray_setrow_mask_refines", "varray_setvec_refines",
    "varray_setvec_mask_refines", "varray_setsize_refines", "varray_setsize_vec_refines", "varray_setsize_mask_refines",
    "string_eq_arrays_refines", "string_eq_scalar_refines",
    "buffer_export_contents", "buffer_export_1d_offsets", "buffer_export_2d_offsets",
    "varray_getitem_refines", "varray_size_refines", "varray_getslice_refines", "varray_forward_slices_accepted",
    "varray_getmask_refines", "varray_readonly_raises",
    "string_table_bijection", "string_table_intern", "string_array_reads_last_stored", "string_array_create_repr",
    "string_vector_assign_repr",
    "buffer_len_is_shape_times_itemsize", "from_buffer_exact", "from_buffer_exact_repaired", "from_buffer_never_overruns",
    "from_buffer_reads_inside", "from_buffer_contiguous_memcpy_exact",
    # ...ArrayFromBuffer as it is after 529722b (flat memcpy of a strided view): kernel-checked refutation of the exact-copy statement
    "from_buffer_memcpy_wrong_elements", "from_buffer_memcpy_reversed_reads_out_of_bounds", "from_buffer_exact_false_for_memcpy",
    # former defects: refutations for the as-written variants, kept as documentation / regression witnesses
    "readonly_invariant_asWritten_false", "readonly_invariant_asWritten_false_vector", "witness_masked_inplace_trace",
    "slice_accepted_forward", "slice_rejected_only_if", "slice_any_sign_false", "slice_any_sign_witnesses",
    "slice_empty_backward_witness", "ifelse_readonly_quirk", "ifelse_refines_nonconst_former",
    "convert_masked_oob_asWritten", "buffer_len_asWritten_scalar", "buffer_len_asWritten_false",
    "buffer_len_asWritten_witness", "from_buffer_asWritten_unchecked",
]

FIX = {
    "masked-inplace-on-readonly": "PyImathFixedArray.h WritableMaskedAccess ctor: add the missing `throw` before std::invalid_argument(...)",
    "convert-ctor-from-masked": "PyImathFixedArray.h converting ctor FixedArray(const FixedArray<S>&): the copy is dense — drop _unmaskedLength/_indices (initialise _unmaskedLength(0))",
    "slice-negstep-start-below-range-raises": "PyImathFixedArray.h extract_slice_indices: test `s < -1` (or `sl > 0 && s < 0`) — start -1 is CPython's legal start of an EMPTY backward slice",
    "ifelse-on-readonly-source-raises": "PyImathFixedArray.h ifelse_vector/ifelse_scalar: read through a const reference (`const FixedArray& self = *this; ... self[i]`)",
    "setitem-scalar-mask-on-masked-ref-ignores-mask": "PyImathFixedArray.h setitem_scalar_mask, masked-reference branch: honour `mask[i]` when mask.len() == len()",
    "buffer-nbytes": "PyImathBufferProtocol.cpp numBytes(): multiply by FixedArrayWidth<T>::value (product of the exported shape x atomicSize)",
    "buffer-export-readonly-aborts": "PyImathBufferProtocol.cpp SharedBufferAPI/CopyBufferAPI::buffer(): use unchecked_index(0) (the throwing non-const direct_index runs inside the C getbuffer slot -> std::terminate)",
    "frombuffer-accepts-mismatched": "PyImathBufferProtocol.cpp fixedArrayFromBuffer: compare view.format with PyFormat<T>(), view.itemsize with the atomic size and view.len with shape[0]*sizeof(T) before the memcpy",
    "c19_buffers:fixedArrayFromBuffer:noncontiguous-source": "PyImathBufferProtocol.cpp fixedArrayFromBuffer: copy with PyBuffer_ToContiguous (dst, &view, view.len, 'C') instead of memcpy (honours the strides of the view that was requested with PyBUF_STRIDES), or request PyBUF_C_CONTIGUOUS and refuse other views",
    "c19_harness:ArrayComponent_get:masked-reference": "PyImathFixedArray.h: add a 'member view' constructor FixedArray(T *member, Py_ssize_t stride, FixedArray<S> &other) that carries other's mask indices / unmaskedLength / handle / writable, and use it (with unchecked_direct_index(0)) in Vec2Array_get, Vec3Array_get, Vec4Array_get, Color3Array_get, Color4Array_get, QuatArray_get, BoxArray_get",
    "matrix-row-outlives-owner": "PyImathFixedMatrix.h register_: the integer __getitem__ (a FixedArray on the matrix's storage) needs return_internal_reference<> (or with_custodian_and_ward_postcall<0,1>) so that the row keeps the matrix alive",
    "c19_harness:FixedVArray.SizeHelper.__getitem__:overload-order": "PyImathFixedVArray.cpp register_: Boost.Python tries overloads in REVERSE registration order and getitem_slice takes a PyObject* (matches anything): register getitem_slice FIRST, then getitem_mask, then getitem (the order FixedVArray's own __getitem__ uses), so that va.size[i] is an int and va.size[mask] works",
    "varray-row-outlives-owner": "PyImathFixedVArray.cpp:828 __getitem__ policy: with_custodian_and_ward_postcall<0,1> (result keeps self alive), as the comment above getitem demands",
}


def pyrepro(prog):
    """op lines -> a Python snippet against imath (IntArray)"""
    out, names = ["import imath", "def A(v):", "    a = imath.IntArray(len(v))", "    for i, x in enumerate(v): a[i] = x",
                  "    return a"], []

    def idx(s):
        t = s.split(":")
        if t[0] == "i":
            return t[1]
        f = lambda x: "" if x == "N" else x
        return "%s:%s:%s" % (f(t[1]), f(t[2]), f(t[3]))
    for l in prog:
        t = l.split()
        n = "v%d" % len(names)
        v = lambda k: "v%s" % t[k]
        if t[0] in ("alloc", "alloci", "allocc"):
            out.append("%s = A([%s])" % (n, "" if t[1] == "-" else t[1])); names.append(n)
        elif t[0] == "allocw":
            w = int(t[1]); c = [] if t[2] == "-" else t[2].split(",")
            out.append("%s = imath.V%diArray(%d)" % (n, w, len(c) // w))
            out += ["%s[%d] = imath.V%di(%s)" % (n, i, w, ", ".join(c[w * i:w * i + w])) for i in range(len(c) // w)]
            names.append(n)
        elif t[0] == "comp":
            out.append("%s = %s.%s" % (n, v(1), "xyzw"[int(t[2])])); names.append(n)
        elif t[0] == "getslice":
            out.append("%s = %s[%s]" % (n, v(1), idx(t[2]))); names.append(n)
        elif t[0] == "getmask":
            out.append("%s = %s[%s]" % (n, v(1), v(2))); names.append(n)
        elif t[0] == "copy":
            out.append("%s = imath.IntArray(%s)" % (n, v(1))); names.append(n)
        elif t[0] == "convert":
            out.append("%s = imath.FloatArray(%s)" % (n, v(1))); names.append(n)
        elif t[0] == "ifelses":
            out.append("%s = %s.ifelse(%s, %s)" % (n, v(1), v(2), t[3])); names.append(n)
        elif t[0] == "ifelsev":
            out.append("%s = %s.ifelse(%s, %s)" % (n, v(1), v(2), v(3))); names.append(n)
        elif t[0] == "getitem":
            out.append("print(%s[%s])" % (v(1), t[2]))
        elif t[0] == "len":
            out.append("print(len(%s))" % v(1))
        elif t[0] == "setscalar":
            out.append("%s[%s] = %s" % (v(1), idx(t[2]), t[3]))
        elif t[0] == "setscalarmask":
            out.append("%s[%s] = %s" % (v(1), v(2), t[3]))
        elif t[0] == "setvector":
            out.append("%s[%s] = %s" % (v(1), idx(t[2]), v(3)))
        elif t[0] == "setvectormask":
            out.append("%s[%s] = %s" % (v(1), v(2), v(3)))
        elif t[0] == "ro":
            out.append("%s.makeReadOnly()" % v(1))
        elif t[0] == "iadds":
            out.append("%s += %s" % (v(1), t[2]))
        elif t[0] == "iaddv":
            out.append("%s += %s" % (v(1), v(2)))
    out.append("print([[(e if isinstance(e, int) else tuple(e)) for e in x] for x in (%s)])" % ", ".join(names))
    return "\n".join(out)


class Corr:
    """one correspondence campaign: programs -> three streams -> obligations, counts, failures"""

    def __init__(self, chk):
        self.chk = chk
        self.cfg = (0, 0)
        self.keys = {}          # key -> (shortest program prefix, spec line, real line, classes)
        self.mism = {}          # op -> (program prefix, model line, real line, cls)
        self.mism_classes = {}  # op -> classes on which the op mismatches
        self.opcount = collections.Counter()
        self.errcount = collections.Counter()
        self.kindcount = collections.Counter()
        self.lines = 0
        self.nontrivial = 0
        self.aliased = 0
        self.oob = collections.Counter()
        self.devkeys = collections.Counter()

    def stats(self, lines, real):
        for l, r in zip(lines, real):
            t = l.split()
            if not t or t[0] == "reset":
                continue
            self.opcount[t[0] if t[0] not in ("d2", "m", "st", "v") else t[0] + " " + t[1]] += 1
            if r.startswith("err "):
                self.errcount[r.split(";")[0][4:]] += 1

    def campaign(self, name, programs, cls="IntArray", model_lines=None, spec=True, cfg=None):
        chk = self.chk
        text, index = c19_gen.write_stream(programs)
        lines = text.split("\n")
        for k, _, _ in index:
            self.kindcount[k] += 1
        cfg = cfg or self.cfg
        if model_lines is None:
            rc, model_lines = c19lib.run_model(text, cfg)
        rc, real = c19lib.run_real(text, cls)
        crashed = rc != 0
        self.stats(lines, real)
        mism, oobs, n = c19lib.compare_model_real(index, lines, model_lines, real, strict_err=(cls == "IntArray"))
        self.lines += n
        self.nontrivial += sum(1 for (kind, first, cnt) in index if cnt > 1)
        ok = not mism and not crashed
        chk.oblige("corr:%s:%s:model=real" % (name, cls), "correspondence", ok,
                   {"programs": len(index), "lines": n, "oob_predicted": len(oobs), "mismatches": len(mism)})
        if crashed:
            chk.fail("corr:%s:%s" % (name, cls), "harness-crash:%s:%s" % (name, cls),
                     "the Python harness died while running %s on %s (interpreter crash = finding)" % (name, cls),
                     {"tail": "\n".join(real[-5:])}, True)
        for (pno, kind, k, m, r) in mism:
            prog = c19lib.program_lines(index, lines, pno)[:k + 1]
            tl = prog[-1].split()
            op = tl[0] if tl[0] not in ("d2", "m", "v") else tl[0] + "-" + tl[1]     # one key per operation of the 2-D / matrix / VArray families
            cur = self.mism.get(op)
            self.mism_classes.setdefault(op, set()).add(cls)
            if cur is None or len(prog) < len(cur[0]) or (cls == "IntArray" and cur[3] != "IntArray"):
                self.mism[op] = (prog, m, r, cls)
        for (pno, kind, k, m, r) in oobs:
            prog = c19lib.program_lines(index, lines, pno)[:k + 1]
            self.oob[prog[-1].split()[0] if "err oob" in m else "dump-after-" + prog[-1].split()[0]] += 1
            key = ("convert-ctor-from-masked" if any(l.startswith("convert") for l in prog) else
                   c19lib.COMP_KEY if prog[-1].startswith("comp ") else "oob:" + prog[-1].split()[0])
            self.note_key(key, prog, "model: " + m, r, cls, "corr:%s:%s:model=real" % (name, cls))
        if spec:
            rc, sp = c19lib.run_spec(text)
            rc, spq = c19lib.run_spec(text, quirks=c19lib.KNOWN_QUIRKS)
            dev, al, n2, known = c19lib.compare_spec_real(index, lines, sp, real, spq)
            self.aliased += al
            obl = "corr:%s:%s:real=python-list" % (name, cls)
            bykey = collections.Counter()
            events = []
            for (pno, kind, k, a, b) in known:
                events.append((c19lib.MASK_KEY, pno, k, a, b))
            for (pno, kind, k, a, b) in dev:
                prog = c19lib.program_lines(index, lines, pno)[:k + 1]
                events.append((c19lib.classify(prog, k, a, b), pno, k, a, b))
            for (key, pno, k, a, b) in events:
                bykey[key] += 1
            self.devkeys.update(bykey)
            chk.oblige(obl, "spec-correspondence", not events,
                       {"lines": n2, "deviations_by_key": dict(bykey), "unknown_deviations": len(dev),
                        "continued_after_known_deviation": len(known), "outside_quantifier(aliased/backward-2d)": al})
            for (key, pno, k, a, b) in events:
                prog = c19lib.program_lines(index, lines, pno)[:k + 1]
                self.note_key(key, prog, a, b, cls, obl)
        return index, lines, model_lines, real

    def note_key(self, key, prog, a, b, cls, obl=None):
        # obligations (campaign x class) on which this finding occurred: lib.finish ties them to the key
        self.key_obls = getattr(self, "key_obls", {})
        if obl:
            self.key_obls.setdefault(key, set()).add(obl)
        cur = self.keys.get(key)
        if cur is None:
            self.keys[key] = [prog, a, b, {cls}]
        else:
            cur[3].add(cls)
            if len(prog) < len(cur[0]):
                cur[0], cur[1], cur[2] = prog, a, b


def shrink_spec(prog, key, cls):
    def fails(p):
        k, m, a, b, kk = c19lib.first_spec_real_deviation(p, cls)
        if k is None:
            return False, m
        return kk == key, m
    try:
        small = c19lib.shrink(list(prog), fails)
        k, m, a, b, kk = c19lib.first_spec_real_deviation(small, cls)
        return small[:k + 1] if k is not None else prog
    except Exception:
        return prog


def shrink_model(prog, cfg, cls):
    def fails(p):
        k, m = c19lib.first_model_real_mismatch(p, cfg, cls)
        return k is not None, m
    try:
        small = c19lib.shrink(list(prog), fails)
        k, m = c19lib.first_model_real_mismatch(small, cfg, cls)
        return small[:k + 1] if k is not None else prog
    except Exception:
        return prog


# ------------------------------------------------------------------------------------------------

def parse_traits():
    """C++ element type -> (atomicSize, width, dims, sizeof T, format char), from the CURRENT header"""
    src = open(os.path.join(lib.REPO, "src/python/PyImath/PyImathFixedArrayTraits.h")).read()
    sizeof = {"short": 2, "int": 4, "int64_t": 8, "float": 4, "double": 8, "unsigned char": 1, "long": 8}
    fmtchar = dict(re.findall(r"PyFmtStr_(\w+)\[2\]\s*=\s*\{'(.)'", src))
    norm = lambda t: re.sub(r"\s+", " ", t.replace("IMATH_NAMESPACE::", "")).strip()
    width = {norm(t): int(v) for t, v in re.findall(r"FixedArrayWidth<(.+?)>\s*\{ static const Py_ssize_t value = (\d+)", src)}
    dims = {norm(t): int(v) for t, v in re.findall(r"FixedArrayDimension<(.+?)>\s*\{ static const Py_ssize_t value = (\d+)", src)}
    atom = {norm(t): sizeof[v.strip()] for t, v in
            re.findall(r"FixedArrayAtomicSize<(.+?)>\s*\{ static const Py_ssize_t value = sizeof\(([^)]+)\)", src)}
    fmt = {norm(t): fmtchar.get(v) for t, v in re.findall(r"PyFormat<(.+?)>\(\)\s*\{ return PyFmtStr_(\w+);", src)}
    out = {}
    for t in width:
        base = re.sub(r"Vec\d<(.+?) ?>", r"\1", t)
        out[t] = (atom.get(t), width[t], dims.get(t), width[t] * sizeof.get(base, 0), fmt.get(t))
    return out


def cls_of_ctype(t):
    m = re.match(r"Vec(\d)<(.+?) ?>", t)
    names = {"short": "s", "int": "i", "int64_t": "i64", "float": "f", "double": "d"}
    if m:
        return "V%s%sArray" % (m.group(1), names.get(m.group(2), "?"))
    return {"short": "ShortArray", "int": "IntArray", "int64_t": "Int64Array", "float": "FloatArray",
            "double": "DoubleArray", "unsigned char": "UnsignedCharArray"}.get(t)


def buffers(chk):
    traits = parse_traits()
    bycls = {cls_of_ctype(t): v for t, v in traits.items()}
    chk.extra["buffer_traits_parsed"] = len(traits)
    rc, out = lib.sh([pyimath.PYTHON, os.path.join(c19lib.HPY, "c19_buffers.py"), "export"], env=pyimath.env(), timeout=600)
    try:
        exp = json.loads(out[out.index("{"):])
    except Exception:
        chk.oblige("buffer:export", "correspondence", False, out[-500:])
        chk.fail("buffer:export", "buffer-export-harness", "buffer export harness failed", {"output": out[-2000:]}, False)
        return
    sup = [c for c, v in exp.items() if v.get("supported")]
    chk.extra["buffer_classes"] = sup
    # model lines for both numBytes variants
    req, meta = [], []
    for c in sup:
        tr = bycls.get(c)
        if not tr:
            chk.fail("buffer:traits", "buffer-traits:" + c, "class %s exports a buffer but has no traits entry" % c, {}, False)
            continue
        for k in range(5):
            for fs in (0, 1):
                req.append("buf get %d %d %d %d %d 1" % (fs, tr[0], tr[1], tr[2], k)); meta.append((c, "dense", k, fs, tr))
        for comp, r in exp[c].get("strided", {}).items():
            if "error" in r:
                continue
            ctr = bycls.get(r["cls"])
            if ctr:
                for fs in (0, 1):
                    req.append("buf get %d %d %d %d %d %d" % (fs, ctr[0], ctr[1], ctr[2], r["len"], tr[1]))
                    meta.append((c, "strided:" + comp, r["len"], fs, ctr))
    rc, ml = c19lib.run_model("\n".join(req) + "\n")
    agree = {0: 0, 1: 0}
    total = 0
    incons = {}
    for (c, what, k, fs, tr), line in zip(meta, ml):
        r = exp[c]["dense"][str(k)] if what == "dense" else exp[c]["strided"][what.split(":")[1]]
        if "error" in r:
            if fs == 0:
                chk.fail("buffer:export", "buffer-export-error:%s" % c, "memoryview(%s) failed: %s" % (c, r["error"]), r, True)
            continue
        real = "len=%d itemsize=%d ndim=%d shape=(%s) strides=(%s)" % (
            r["nbytes"], r["itemsize"], r["ndim"], ",".join(map(str, r["shape"])), ",".join(map(str, r["strides"])))
        if fs == 0:
            total += 1
            prod = 1
            for s in r["shape"]:
                prod *= s
            if r["nbytes"] != prod * r["itemsize"]:
                incons.setdefault(c if what == "dense" else "%s.%s(%s)" % (c, what.split(":")[1], r.get("cls")), (k, r))
            if r["format"] != tr[4] and what == "dense":
                chk.fail("buffer:format", "buffer-format:" + c, "format %r but PyFormat gives %r" % (r["format"], tr[4]), r, True)
        if line.strip() == real:
            agree[fs] += 1
    variant = 0 if agree[0] >= agree[1] else 1
    chk.extra["buffer_numBytes_variant"] = {"decided": "asWritten" if variant == 0 else "fromShape",
                                            "agree_asWritten": agree[0], "agree_fromShape": agree[1], "cases": total}
    chk.oblige("buffer:getbuffer-model=real(variant %s)" % ("asWritten" if variant == 0 else "fromShape"),
               "correspondence", agree[variant] == total, {"cases": total, "agree": agree[variant]})
    if agree[variant] != total:
        chk.fail("buffer:getbuffer", "buffer-getbuffer-model-mismatch",
                 "getbuffer arithmetic of the model (either variant) does not reproduce memoryview() of the real module",
                 {"agree": agree, "cases": total}, True)
    chk.count(total, total)
    chk.oblige("buffer:numBytes-variant-is-fromShape(BufCfg.repaired)", "correspondence", variant == 1,
               chk.extra["buffer_numBytes_variant"])
    chk.oblige("buffer:len=prod(shape)*itemsize", "spec-correspondence", not incons, sorted(incons)[:20] or None)
    for name, (k, r) in sorted(incons.items()):
        cname = name.split(".")[0].split("(")[0]
        chk.fail("buffer:len", "buffer-nbytes:" + name,
                 "memoryview(%s of length %d).nbytes == %d but shape %s x itemsize %d = %d  [fix: %s]" % (
                     name, k, r["nbytes"], tuple(r["shape"]), r["itemsize"],
                     r["itemsize"] * eval("*".join(map(str, r["shape"])) or "1"), FIX["buffer-nbytes"]),
                 {"python": "import imath; mv = memoryview(imath.%s(%d)); print(mv.nbytes, mv.shape, mv.itemsize)" % (cname, k)
                  if "." not in name else "import imath; mv = memoryview(imath.%s(4).%s); print(mv.nbytes, mv.shape, mv.itemsize)" % (
                      cname, name.split(".")[1].split("(")[0]), "observed": r, "fix": FIX["buffer-nbytes"]}, True)
    # ---- INDEPENDENT expectation (class name -> element kind x size x components) and contents, lengths 0,1,2,5
    rc, out = lib.sh([pyimath.PYTHON, os.path.join(c19lib.HPY, "c19_buffers.py"), "export-check"], env=pyimath.env(), timeout=600)
    try:
        ec = json.loads(out[out.index("{"):])
    except Exception:
        ec = None
        chk.oblige("buffer:export=independent-expectation", "correspondence", False, out[-500:])
        chk.fail("buffer:export=independent-expectation", "buffer-export-harness", "buffer export-check harness failed",
                 {"output": out[-2000:]}, False)
    if ec is not None:
        missing = sorted(set(sup) - set(ec["classes"]) - set(ec["unknown"]))
        okx = not ec["bad"] and not ec["unknown"] and not missing
        chk.oblige("buffer:export=independent-expectation(format,itemsize,ndim,shape,strides,nbytes,contents,write-through)",
                   "spec-correspondence", okx,
                   {"cases": ec["cases"], "classes": len(ec["classes"]), "bad": [b["what"] for b in ec["bad"]][:8],
                    "classes_without_expectation": ec["unknown"] + missing})
        chk.count(ec["cases"], ec["cases"])
        chk.extra["buffer_export_check"] = {"cases": ec["cases"], "classes": {c: v["layout"] + [v["components"]] for c, v in ec["classes"].items()}}
        # ---- the Lean model of the exported view (exportBytes; theorems export_contents / export_1d / export_2d): what a consumer
        #      reads through memoryview(a) must be what the model computes from the array's storage, length, stride and offset
        mc = [m for m in ec.get("model_cases", []) if bycls.get(m["cls"])]
        reqs = ["buf export 1 %d %d %d %d %d %d %s" % (bycls[m["cls"]][0], bycls[m["cls"]][1], bycls[m["cls"]][2], m["length"],
                                                      m["stride"], m["off"], m["mem"] or "-") for m in mc]
        _, mo = c19lib.run_model("\n".join(reqs) + "\n") if reqs else (0, [])
        badm = [(m["what"], mo[i].strip()[:60], m["tobytes"][:60]) for i, m in enumerate(mc)
                if mo[i].strip() != "ok " + m["tobytes"] and not (m["tobytes"] == "" and mo[i].strip() == "ok")]
        chk.oblige("buffer:export-contents:model(exportBytes)=real(tobytes)", "correspondence", bool(mc) and not badm,
                   {"cases": len(mc), "dense": sum(1 for m in mc if m["stride"] == 1), "strided(component arrays)": sum(1 for m in mc if m["stride"] > 1),
                    "bad": badm[:3]})
        chk.count(len(mc), len(mc))
        if badm:
            chk.fail("buffer:export-contents:model(exportBytes)=real(tobytes)", "buffer-export-contents-model:" + badm[0][0].split("(")[0],
                     "the bytes read through memoryview(%s) differ from the model's exported view of the array's storage" % badm[0][0],
                     {"first": badm[0], "all": [b[0] for b in badm]}, True)
        seen = set()
        for b in ec["bad"]:
            cname = b["what"].split("(")[0]
            if cname in seen:
                continue
            seen.add(cname)
            chk.fail("buffer:export=independent-expectation(format,itemsize,ndim,shape,strides,nbytes,contents,write-through)",
                     "buffer-export-description:" + cname,
                     "memoryview(%s) does not describe the array's memory: %s differ(s) from what the class name implies "
                     "(expected %s, got %s)" % (b["what"], ",".join(b["problems"]), b.get("expected"), b.get("got")),
                     {"python": "import imath; mv = memoryview(imath.%s); print(mv.format, mv.itemsize, mv.shape, mv.strides, mv.nbytes, mv.tobytes())"
                                % b["what"], "observed": b, "all_bad": [x["what"] for x in ec["bad"] if x["what"].startswith(cname)]}, True)
        for c in ec["unknown"] + missing:
            chk.fail("buffer:export=independent-expectation(format,itemsize,ndim,shape,strides,nbytes,contents,write-through)",
                     "buffer-export-no-expectation:" + c,
                     "class %s exports a buffer but the check has no independent expectation for it (extend expected_layout)" % c, {}, False)
    # masked references must be refused
    bad = [c for c in sup if "error" not in exp[c].get("masked", {"error": 1})]
    chk.oblige("buffer:masked-reference-refused", "correspondence", not bad, bad or None)
    # read-only arrays: own process each (an exception escaping the C slot aborts the interpreter)
    ro_bad = {}

    def one(c):
        return c, lib.sh([pyimath.PYTHON, os.path.join(c19lib.HPY, "c19_buffers.py"), "export-ro", c], env=pyimath.env(), timeout=120)
    with ThreadPoolExecutor(8) as ex:
        for c, (rc, o) in ex.map(one, [c for c in sup if "masked" in exp[c]]):
            if rc != 0:
                ro_bad[c] = (rc, o[-200:])
            else:
                try:
                    r = json.loads(o[o.index("{"):])
                    if "error" in r or not r.get("readonly"):
                        ro_bad[c] = (0, r)
                except Exception:
                    ro_bad[c] = (rc, o[-200:])
    chk.oblige("buffer:readonly-array-exports-readonly-view", "correspondence", not ro_bad,
               {c: str(v)[:120] for c, v in list(ro_bad.items())[:4]} or None)
    if ro_bad:
        c0 = sorted(ro_bad)[0]
        chk.fail("buffer:readonly", "buffer-export-readonly-aborts",
                 "memoryview() of a read-only array kills the interpreter (std::terminate: the throwing non-const direct_index "
                 "runs inside the C getbuffer slot) for %d classes, e.g. %s  [fix: %s]" % (len(ro_bad), c0, FIX["buffer-export-readonly-aborts"]),
                 {"python": "import imath; a = imath.%s(3); a.makeReadOnly(); memoryview(a)" % c0, "classes": sorted(ro_bad),
                  "observed": str(ro_bad[c0]), "fix": FIX["buffer-export-readonly-aborts"]}, True)
    frombuffer(chk, traits)


COPY_MODES = ((0, 0, "asWritten(no checks, memcpy)"), (1, 0, "checked(memcpy of view.len bytes whatever the strides)"),
              (1, 1, "repairedStrict(non-contiguous views refused)"), (1, 2, "repaired(item-wise copy honouring strides)"))
FB_KEY = "c19_buffers:fixedArrayFromBuffer:noncontiguous-source"


def frombuffer(chk, traits):
    """...ArrayFromBuffer: model (4 variants) vs real on every source kind; the spec is `bytes(memoryview(source))`"""
    script = os.path.join(c19lib.HPY, "c19_buffers.py")
    rc, out = lib.sh([pyimath.PYTHON, script, "from", "safe"], env=pyimath.env(), timeout=900)
    try:
        fb = json.loads(out[out.index("{"):])
    except Exception:
        chk.oblige("buffer:frombuffer", "correspondence", False, out[-500:])
        chk.fail("buffer:frombuffer", "frombuffer-harness", "FromBuffer harness failed", {"output": out[-2000:]}, False)
        return
    herr = [r for r in fb["safe"] if "harness_error" in r]
    if herr:
        chk.fail("buffer:frombuffer", "frombuffer-harness", "FromBuffer harness could not build a source", {"first": herr[0]}, False)
    ELEM = {"Int": "int", "Float": "float", "Double": "double"}

    def ty_of(func):
        base = func[:-len("ArrayFromBuffer")]
        ct = ELEM.get(base) or "Vec%s<%s>" % (base[1], {"i": "int", "f": "float", "d": "double"}[base[2]])
        return traits.get(ct)

    def req_line(r, ck, mode):
        tr = ty_of(r["func"])
        csv = lambda l: ",".join(str(x) for x in l) if l else "-"
        return "buf from %d %d %d %d %d %d %s %s %d %s %s %d %d %s" % (
            ck, mode, tr[0], tr[1], tr[2], tr[3], tr[4], r["src_format"] or "NULL", r["src_itemsize"],
            csv(r["src_shape"]), csv(r["src_strides"]), r["src_off"], r["src_nbytes"], r["src_mem"] or "-")

    def real_line(r):
        if "error" in r:
            e = r["error"]
            kind = ("unsupportedType" if "Unsupported buffer type" in e else
                    "mismatch" if "does not match the array type" in e else
                    "notContiguous" if ("contiguous" in e.lower() or e.startswith("BufferError")) else "other:" + e[:60])
            return "err " + kind
        return "ok alloc=%d bytes=%s" % (len(r["result_bytes"]) // 2, r["result_bytes"])

    safe = [r for r in fb["safe"] if "harness_error" not in r and ty_of(r["func"])]
    unsafe = [r for r in fb["unsafe"] if ty_of(r["func"])]
    allc = safe + unsafe
    req = [req_line(r, ck, mode) for r in allc for (ck, mode, _) in COPY_MODES]
    rc, ml = c19lib.run_model("\n".join(req) + "\n")
    nm = len(COPY_MODES)
    model = {id(r): [ml[i * nm + j].strip() for j in range(nm)] for i, r in enumerate(allc)}
    agree = [sum(1 for r in safe if model[id(r)][j] == real_line(r)) for j in range(nm)]
    full = [j for j in range(nm) if agree[j] == len(safe)]
    v = max(full) if full else max(range(nm), key=lambda j: (agree[j], j))
    vname = COPY_MODES[v][2]
    kinds = collections.Counter(r["kind"] + ("" if r["contiguous"] else ":non-contiguous") for r in allc)
    chk.extra["frombuffer_variant"] = {"decided": vname, "agree": {COPY_MODES[j][2]: agree[j] for j in range(nm)},
                                       "cases_called_in_process": len(safe), "source_kinds": dict(kinds)}
    chk.oblige("buffer:frombuffer-model=real(variant %s)" % vname.split("(")[0], "correspondence", bool(full),
               {"cases": len(safe), "agree": agree[v]})
    chk.count(len(safe), len(safe))
    if not full:
        first = next(r for r in safe if model[id(r)][v] != real_line(r))
        chk.fail("buffer:frombuffer-model=real(variant %s)" % vname.split("(")[0], "frombuffer-model-mismatch",
                 "no variant of the FromBuffer model reproduces the real module on every case; best %s, first difference: %s(%s %s n=%s %s) "
                 "model `%s` real `%s`" % (vname, first["func"], first["kind"], first["typecode"], first["n"], first["extra"],
                                           model[id(first)][v][:80], real_line(first)[:80]),
                 {"case": {k: first[k] for k in first if k != "src_mem"}, "model": model[id(first)], "real": real_line(first)}, True)
    # ---- cases not called in process: the decided variant says what they do
    pred_reject = [r for r in unsafe if model[id(r)][v].startswith("err ") and "oob" not in model[id(r)][v]]
    pred_ub = [r for r in unsafe if "oob" in model[id(r)][v]]
    pred_ok = [r for r in unsafe if model[id(r)][v].startswith("ok")]
    spec_of = lambda r: {k: r[k] for k in ("func", "kind", "typecode", "n", "rows", "cols", "extra")}
    outp = {}
    if pred_reject or pred_ok:
        rc, o = lib.sh([pyimath.PYTHON, script, "from", "batch"], env=pyimath.env(), timeout=900,
                       stdin=json.dumps([spec_of(r) for r in pred_reject + pred_ok]))
        try:
            res = json.loads(o[o.index("["):])
            for r, got in zip(pred_reject + pred_ok, res):
                outp[id(r)] = got
        except Exception:
            chk.fail("buffer:frombuffer", "frombuffer-harness-crash",
                     "the interpreter died on a FromBuffer call the model (variant %s) predicts to be harmless" % vname,
                     {"tail": o[-600:]}, True)
    accepted_bad = {}
    for r in pred_reject:
        got = outp.get(id(r))
        if got is not None and "error" not in got:
            accepted_bad.setdefault(r["func"], r)
    for r in safe:
        if model[id(r)][3].startswith("err mismatch") and "error" not in r:
            accepted_bad.setdefault(r["func"], r)
    chk.oblige("buffer:frombuffer-rejects-mismatched-type/size", "spec-correspondence", not accepted_bad,
               sorted(accepted_bad) or None)
    for f, r in sorted(accepted_bad.items()):
        chk.fail("buffer:frombuffer-rejects-mismatched-type/size", "frombuffer-accepts-mismatched:" + f,
                 "%s accepts a buffer of format %r / itemsize %d (no exception) [fix: %s]" % (f, r["src_format"], r["src_itemsize"],
                                                                                           FIX["frombuffer-accepts-mismatched"]),
                 {"python": "import imath, array; print(len(imath.%s(array.array(%r, [1]*%d))))" % (f, r["typecode"], max(r["n"], 1)),
                  "observed": {k: r[k] for k in r if k != "src_mem"}, "fix": FIX["frombuffer-accepts-mismatched"]}, True)
    # ---- THE SPECIFICATION: an accepted source is copied item by item — result == bytes(memoryview(source))
    ub_run = pred_ub if chk.thorough else [r for i, r in enumerate(pred_ub) if i % max(1, len(pred_ub) // 24) == 0][:24]

    def one(r):
        return r, lib.sh([pyimath.PYTHON, script, "from", "one", json.dumps(spec_of(r))], env=pyimath.env(), timeout=120)
    with ThreadPoolExecutor(lib.NCPU) as ex:
        for r, (rc, o) in ex.map(one, ub_run):
            try:
                outp[id(r)] = json.loads(o[o.index("{"):])
            except Exception:
                outp[id(r)] = {"crash": rc, "tail": o[-200:]}
    safe_ids = {id(r) for r in safe}
    wrong = []       # (case, got) where an accepted source was not copied exactly
    ncmp = 0
    for r in allc:
        got = r if id(r) in safe_ids else outp.get(id(r))
        if got is None or "error" in got:
            continue
        ncmp += 1
        if "crash" in got or got.get("result_bytes") != r["src_bytes"]:
            wrong.append((r, got))
    chk.oblige("buffer:frombuffer-copies-exactly-the-source-items", "spec-correspondence", not wrong,
               {"accepted_sources_compared": ncmp, "wrong": len(wrong),
                "model_predicts_out_of_bounds_access(run out of process)": len(ub_run), "of": len(pred_ub)})
    chk.count(ncmp, ncmp)
    chk.extra["frombuffer_variant"].update({"accepted_sources_compared_with_bytes(memoryview)": ncmp, "wrong_copies": len(wrong),
                                            "predicted_out_of_bounds": len(pred_ub), "predicted_out_of_bounds_run": len(ub_run)})
    chk.oblige("buffer:frombuffer-variant-is-repaired", "correspondence", v >= 2, vname)
    if wrong or v < 2:
        nc = [w for w in wrong if not w[0]["contiguous"]]
        cont = [w for w in wrong if w[0]["contiguous"]]
        if nc or (v < 2 and not cont):
            funcs = sorted({w[0]["func"] for w in nc})
            oobr = [w for w in nc if not w[0]["flat_read_inside"]]
            ex1 = next((w for w in nc if w[0]["func"] == "IntArrayFromBuffer" and w[0]["kind"] == "slice" and w[0]["n"] == 6
                        and w[0]["extra"] == [None, None, 2]), nc[0] if nc else None)
            chk.fail(["buffer:frombuffer-copies-exactly-the-source-items", "buffer:frombuffer-variant-is-repaired"], FB_KEY,
                     "...ArrayFromBuffer memcpy's view.len bytes from view.buf although it requested a STRIDED view (PyBUF_STRIDES): a "
                     "non-contiguous source (memoryview slice [::2] / [::-1], imath's own component arrays such as V3fArray.y, a row-sliced "
                     "2-D view) is accepted and copied as if contiguous — wrong elements, and %d of the %d wrong copies read outside the "
                     "source's memory (negative or larger-than-item strides); %d functions; decided model variant: %s  [fix: %s]" % (
                         len(oobr), len(nc), len(funcs), vname, FIX[FB_KEY]),
                     {"python": "import imath, array\nprint(list(imath.IntArrayFromBuffer(memoryview(array.array('i',[1,2,3,4,5,6]))[::2])))"
                                "   # [1, 2, 3]; the source's items are [1, 3, 5]\n"
                                "print(list(imath.IntArrayFromBuffer(memoryview(array.array('i',[1,2,3,4,5,6]))[::-1])))  # reads past the source",
                      "example": None if ex1 is None else {"case": {k: ex1[0][k] for k in ex1[0] if k != "src_mem"},
                                                           "result_bytes": ex1[1].get("result_bytes"), "expected(src_bytes)": ex1[0]["src_bytes"]},
                      "functions": funcs, "wrong_by_source_kind": dict(collections.Counter(w[0]["kind"] for w in nc)),
                      "theorems": ["from_buffer_memcpy_wrong_elements", "from_buffer_memcpy_reversed_reads_out_of_bounds",
                                   "from_buffer_exact_false_for_memcpy"], "fix": FIX[FB_KEY]}, True)
        for (r, got) in cont[:3]:
            chk.fail("buffer:frombuffer-copies-exactly-the-source-items", "frombuffer-copy-mismatch:" + r["func"],
                     "%s does not copy a CONTIGUOUS source exactly (%s %s n=%d)" % (r["func"], r["kind"], r["typecode"], r["n"]),
                     {"case": {k: r[k] for k in r if k != "src_mem"}, "got": got}, True)
    # the overrunning / over-reading direction under valgrind
    if chk.thorough and pred_ub:
        cases = pred_ub[:: max(1, len(pred_ub) // 8)][:8]

        def run1(r):
            cmd = ["valgrind", "--error-exitcode=9", "-q", "--undef-value-errors=no", pyimath.PYTHON, script, "from", "one",
                   json.dumps(spec_of(r))]
            return r, lib.sh(cmd, env=pyimath.env({"PYTHONMALLOC": "malloc"}), timeout=900)
        over = []
        with ThreadPoolExecutor(8) as ex:
            for r, (rc, o) in ex.map(run1, cases):
                m = re.search(r"Invalid (read|write) of size \d+", o)
                if rc == 9 or rc < 0 or m:
                    over.append((spec_of(r), rc, m.group(0) if m else None))
        chk.oblige("buffer:frombuffer-no-out-of-bounds-access(valgrind)", "memory-observation", not over, over[:3] or None)
        chk.extra["frombuffer_variant"]["valgrind_runs"] = len(cases)
        if over:
            wr = [x for x in over if x[2] and "write" in x[2]]
            if wr:
                c = wr[0][0]
                chk.fail("buffer:frombuffer-no-out-of-bounds-access(valgrind)", "frombuffer-heap-overflow:" + c["func"],
                         "%s writes past the new array (valgrind: %s) [fix: %s]" % (c["func"], wr[0][2], FIX["frombuffer-accepts-mismatched"]),
                         {"case": c, "cases": wr}, True)
            rd = [x for x in over if x not in wr]
            if rd:
                chk.fail("buffer:frombuffer-no-out-of-bounds-access(valgrind)", FB_KEY,
                         "...ArrayFromBuffer reads outside the source buffer for a reversed / strided view (valgrind: %s) [fix: %s]" % (
                             rd[0][2], FIX[FB_KEY]), {"case": rd[0][0], "cases": rd[:4], "fix": FIX[FB_KEY]}, True)


def strings(chk):
    rng = chk.rng
    progs = []
    pool = ["a", "b", "c", "dd", "e", "a", "b"]
    for n in range(0, 5):
        for _ in range(40 if not chk.thorough else 200):
            p = ["st new %d %s" % (n, rng.choice(pool))]
            for _ in range(rng.randint(1, 12)):
                if rng.random() < 0.6:
                    p.append("st set %d %s" % (rng.randint(-n - 1, n), rng.choice(pool)))
                else:
                    p.append("st get %d" % rng.randint(-n - 1, n))
            p += ["st get %d" % i for i in range(n)]
            progs.append(("string", p))
    # every interning order of 3 strings into 3 slots
    for perm in itertools.permutations(range(3)):
        for strs in itertools.product("xyz", repeat=3):
            progs.append(("string-order", ["st new 3 x"] + ["st set %d %s" % (i, strs[i]) for i in perm] +
                          ["st get %d" % i for i in range(3)]))
    # several arrays with their own tables: slice / mask / array assignment (re-interning ACROSS two tables), ==, slices,
    # default construction, read-only; StringArray and WstringArray
    nrand = 600 if chk.thorough else 150
    for wide in (False, True):
        progs += list(c19_gen.string_programs(chk.rng, nrand, wide, 5 if chk.thorough else 4))
    text, index = c19_gen.write_stream(progs)
    lines = text.split("\n")
    _, m = c19lib.run_model(text)
    rc_real, r = c19lib.run_real(text)
    _, s = c19lib.run_spec(text)
    if rc_real != 0 or len(r) < len(lines) - 1:
        last = len([x for x in r if x.strip()])
        chk.oblige("corr:stringarray:model=real", "correspondence", False, {"rc": rc_real, "lines_answered": last})
        chk.fail("corr:stringarray:model=real", "harness-crash:stringarray",
                 "the Python harness died while running the string-array stream (interpreter crash / uncaught C++ exception = finding); "
                 "last line sent: `%s`" % (lines[last] if last < len(lines) else "?"),
                 {"rc": rc_real, "tail": "\n".join(r[-4:]), "program_tail": lines[max(0, last - 6):last + 1]}, True)
        return
    bad_mr, bad_sr, n, aliased = [], [], 0, 0
    ops = collections.Counter()
    for (kind, first, cnt) in index:
        spec_on = True
        for i in range(first, first + cnt):
            l = lines[i]
            t = l.split()
            if not t or t[0] not in ("st", "sa", "saw"):
                continue
            n += 1
            ops[t[0] + " " + t[1]] += 1
            if m[i].strip() != r[i].strip():
                bad_mr.append((l, m[i], r[i], lines[first:i + 1]))
                break
            if s[i].startswith("alias "):
                aliased += 1
                spec_on = False          # the right-hand side is the array itself: outside list semantics from here on
            if spec_on and not c19lib.spec_line_equal(s[i].strip(), r[i].strip()):
                bad_sr.append((l, s[i], r[i], lines[first:i + 1]))
                break
    chk.oblige("corr:stringarray:model=real", "correspondence", not bad_mr, [x[:3] for x in bad_mr[:3]] or None)
    chk.oblige("corr:stringarray:real=python-list", "spec-correspondence", not bad_sr, [x[:3] for x in bad_sr[:3]] or None)
    chk.count(n, n)
    chk.extra["string_ops"] = {"lines": n, "by_op": dict(ops.most_common()), "programs": len(index),
                               "self_assignment_lines_outside_list_semantics": aliased}
    if bad_mr:
        chk.fail("corr:stringarray:model=real", "stringarray-model-mismatch:" + bad_mr[0][0].split()[1], "StringArray differs from the model on `%s`" % bad_mr[0][0],
                 {"program": bad_mr[0][3], "model": bad_mr[0][1], "real": bad_mr[0][2]}, True)
    if bad_sr:
        chk.fail("corr:stringarray:real=python-list", "stringarray-reads-wrong-string",
                 "StringArray does not behave like a list of strings on `%s` (an element does not read back the last string stored)" % bad_sr[0][0],
                 {"program": bad_sr[0][3], "expected(list)": bad_sr[0][1], "real": bad_sr[0][2]}, True)


def slices_vs_cpython(chk, cfg=c19lib.CURRENT):
    """model slice normalisation, the Lean specification walk and CPython itself, exhaustive small scope"""
    req, meta = [], []
    f = lambda x: "N" if x is None else str(x)
    bounds = [None] + list(range(-9, 10))
    steps = [None] + [s for s in range(-4, 5) if s != 0]
    big = [None, -2**63, -2**63 + 1, 2**63 - 1, -3, 2]
    for n in range(0, 8):
        for a in bounds:
            for b in bounds:
                for c in steps:
                    req.append("slice %d %s %s %s" % (n, f(a), f(b), f(c)))
                    req.append("specslice %d %s %s %s" % (n, f(a), f(b), f(c)))
                    meta.append((n, a, b, c))
    for n in (0, 1, 3):
        for a in big:
            for b in big:
                for c in big + [-1, 1]:
                    if c == 0:
                        continue
                    req.append("slice %d %s %s %s" % (n, f(a), f(b), f(c)))
                    req.append("specslice %d %s %s %s" % (n, f(a), f(b), f(c)))
                    meta.append((n, a, b, c))
    for n in range(0, 8):
        for i in range(-10, 11):
            req.append("specgetitem %d %d" % (n, i))
    _, out = c19lib.run_model("\n".join(req) + "\n", cfg)
    bad_model, bad_spec, rejected = [], [], 0
    for k, (n, a, b, c) in enumerate(meta):
        ml, sl_ = out[2 * k].strip(), out[2 * k + 1].strip()
        idx = list(range(n))[slice(a, b, c)]
        s, e, st = slice(a, b, c).indices(n)
        want = "[" + ",".join(map(str, idx)) + "]"
        if sl_ != want:
            bad_spec.append(((n, a, b, c), sl_, want))
        if ml.startswith("err"):
            rejected += 1
            if not (st < 0 and s == -1 and idx == []):
                bad_model.append(((n, a, b, c), ml, "cpython start=%d" % s))
        else:
            t = ml.split()
            stc = max(st, -(2**63 - 1))       # PySlice_Unpack clamps the step; slice.indices() does not
            if idx == [] and int(t[4]) == 0 and t[5] == "[]":
                continue                      # empty selection: `start` is not used (size_t start of -1)
            if not (int(t[1]) == s and int(t[2]) == e and int(t[3]) == stc and int(t[4]) == len(idx) and t[5] == want):
                bad_model.append(((n, a, b, c), ml, (s, e, st, want)))
    base = 2 * len(meta)
    gi_bad = []
    k = 0
    for n in range(0, 8):
        for i in range(-10, 11):
            got = out[base + k].strip(); k += 1
            try:
                want = str(list(range(n))[i])
            except IndexError:
                want = "none"
            if got != want:
                gi_bad.append((n, i, got, want))
    chk.oblige("slice:model(PySlice_Unpack+AdjustIndices)=CPython", "translator-validation", not bad_model, bad_model[:3] or None)
    chk.oblige("slice:Lean-spec(PyList.sliceIndices/getitem)=CPython", "spec-validation", not bad_spec and not gi_bad,
               (bad_spec[:3] + gi_bad[:3]) or None)
    chk.count(len(meta) * 2 + k, len(meta))
    chk.extra["slice_cases"] = {"compared": len(meta), "rejected_by_extract_slice_indices(empty backward)": rejected}
    if bad_model:
        chk.fail("slice:model", "slice-model-vs-cpython", "model slice normalisation differs from CPython", {"first": bad_model[0]}, True)
    if bad_spec or gi_bad:
        chk.fail("slice:spec", "slice-spec-vs-cpython", "Lean specification differs from CPython", {"first": (bad_spec + gi_bad)[0]}, True)


def readonly_sweep(chk):
    """every mutating entry point (found by introspection and by its observed effect on a writable twin) of every
    class with makeReadOnly, through the read-only object and every view derived from it: must raise, data unchanged"""
    script = os.path.join(c19lib.HPY, "c19_rosweep.py")
    rc, out = lib.sh([pyimath.PYTHON, script, "list"], env=pyimath.env(), timeout=120)
    try:
        lst = json.loads(out[out.index("{"):])
    except Exception:
        chk.oblige("readonly-sweep", "correspondence", False, out[-400:])
        chk.fail("readonly-sweep", "readonly-sweep-harness", "read-only sweep harness failed", {"output": out[-2000:]}, False)
        return
    classes = lst["with_makeReadOnly"]

    def one(c):
        return c, lib.sh([pyimath.PYTHON, script, "run", c], env=pyimath.env(), timeout=600)
    tot = mut = 0
    per = {}
    with ThreadPoolExecutor(lib.NCPU) as ex:
        for c, (rc, o) in ex.map(one, classes):
            recs = []
            for l in o.split("\n"):
                if l.startswith("{"):
                    try:
                        recs.append(json.loads(l))
                    except Exception:
                        pass
            sm = [r["summary"] for r in recs if "summary" in r]
            defects = [r for r in recs if "defect" in r]
            obl = "readonly-sweep:%s" % c
            okc = rc == 0 and bool(sm) and not defects
            chk.oblige(obl, "correspondence", okc,
                       None if okc else {"rc": rc, "defects": [d["defect"] for d in defects][:6], "tail": o[-200:] if rc else None})
            if sm:
                tot += sm[0]["valid_triples"]; mut += sm[0]["mutating_triples"]
                per[c] = {"views": sm[0]["views"], "valid": sm[0]["valid_triples"], "mutating": sm[0]["mutating_triples"]}
            if rc != 0 or not sm:
                last = [r["try"] for r in recs if "try" in r][-1:]
                chk.fail(obl, "readonly-sweep-crash:%s" % c,
                         "the read-only mutator sweep died on %s (last attempt %s)" % (c, last), {"tail": o[-1500:], "last": last}, True)
            for d in defects:
                view = d["view"]
                chk.fail(obl, d["defect"],
                         "%s through %s of a read-only %s %s" % (
                             d["entry"], "the array itself" if not view else "its view `x%s`" % view, c,
                             "does not raise" if d["raised"] is None else "raises (%s) but the data changed" % d["raised"]),
                         {"class": c, "view": view, "entry": d["entry"], "key_kind": d["key"], "value_kind": d["value"],
                          "raised": d["raised"], "before": d["before"], "after": d["after"],
                          "python": "x = <%s with 4 elements>; x.makeReadOnly(); v = x%s; v.%s(<%s>, <%s>)   # see harness/py/c19_rosweep.py run %s"
                                    % (c, view, d["entry"], d["key"], d["value"], c)}, True)
    chk.extra["readonly_sweep"] = {"classes_with_makeReadOnly": len(classes),
                                   "arraylike_without_makeReadOnly(no read-only state to protect)": lst["arraylike_without_makeReadOnly"],
                                   "valid_(class,view,entry,args)_triples": tot, "mutating_triples_checked_on_readonly": mut,
                                   "per_class": per}
    chk.count(tot, mut)


def lifetimes(chk):
    script = os.path.join(c19lib.HPY, "c19_lifetimes.py")
    rc, out = lib.sh([pyimath.PYTHON, script, "list"], env=pyimath.env(), timeout=120)
    try:
        cases = json.loads(out[out.index("["):])
    except Exception:
        chk.oblige("lifetimes", "memory-observation", False, out[-400:])
        return
    bad = {}

    def one(c):
        return c, lib.sh([pyimath.PYTHON, script, "run", c[0], str(c[1])], env=pyimath.env(), timeout=300)
    nreads = 0
    with ThreadPoolExecutor(lib.NCPU) as ex:
        for c, (rc, o) in ex.map(one, cases):
            if rc != 0:
                bad.setdefault((c[0], "crash"), []).append({"order": c[1], "rc": rc, "tail": o[-200:]})
                continue
            try:
                r = json.loads(o[o.index("{"):])
            except Exception:
                bad.setdefault((c[0], "unparsable"), []).append({"order": c[1], "tail": o[-200:]})
                continue
            for tr in r["trace"]:
                nreads += 1
                if not tr["ok"]:
                    bad.setdefault((c[0], tr["read"]), []).append({"order": r["order"], "released": tr["released"],
                                                                   "got": tr["got"][:6], "expected": tr["expected"][:6]})
    chk.extra["lifetimes"] = {"scenarios": sorted({c[0] for c in cases}), "release_orders": len(cases), "reads_after_release": nreads,
                              "note": "memory safety of lifetimes is OBSERVED (values natively; valgrind in the thorough tier), not proved"}
    chk.count(nreads, nreads)
    chk.oblige("lifetimes:survivors-read-correct-values(native, all release orders)", "memory-observation", not bad,
               {"%s/%s" % k: v[0] for k, v in list(bad.items())[:4]} or None)
    vg_bad = {}
    if chk.thorough:
        # valgrind on a subset: for every scenario the orders in which each object is the last survivor
        import math
        sub, seen = [], set()
        sizes = collections.Counter(c[0] for c in cases)
        for c in cases:
            n = {6: 3, 24: 4, 120: 5}.get(sizes[c[0]], 3)
            perm = list(itertools.permutations(range(n)))[c[1]]
            k = (c[0], perm[-1], perm[0])
            if k not in seen and len([x for x in sub if x[0] == c[0]]) < 8:
                seen.add(k); sub.append(c)

        def vg(c):
            return c, lib.sh(["valgrind", "--error-exitcode=9", "-q", "--undef-value-errors=no", pyimath.PYTHON, script, "run", c[0], str(c[1])],
                             env=pyimath.env({"PYTHONMALLOC": "malloc", "C19_LIGHT_CHURN": "1"}), timeout=900)
        with ThreadPoolExecutor(lib.NCPU) as ex:
            for c, (rc, o) in ex.map(vg, sub):
                if rc != 0:
                    m = re.search(r"(Invalid (?:read|write) of size \d+)", o)
                    vg_bad.setdefault(c[0], []).append({"order": c[1], "rc": rc, "what": m.group(1) if m else o[-200:]})
        chk.extra["lifetimes"]["valgrind_runs"] = len(sub)
        chk.oblige("lifetimes:no-invalid-access(valgrind, %d release orders)" % len(sub), "memory-observation", not vg_bad,
                   {k: v[0] for k, v in vg_bad.items()} or None)
    scen = sorted({k[0] for k in bad} | set(vg_bad))
    done_keys = set()
    for sc in scen:
        key = ("varray-row-outlives-owner" if sc == "varray" else
               "matrix-row-outlives-owner" if sc.startswith("matrix") else "lifetime:" + sc)
        if key in done_keys:
            continue
        done_keys.add(key)
        ev = [v for k, v in bad.items() if k[0] == sc]
        chk.fail("lifetimes", key,
                 "a view read after its owners were released returns other data / touches freed memory (scenario %s)%s" % (
                     sc, "  [fix: %s]" % FIX[key] if key in FIX else ""),
                 {"python": ("import imath, gc\nva = imath.VIntArray(3); va.size[1] = 8\nr = va[1]\nfor j in range(8): r[j] = 100 + j\n"
                             "del r; row = va[1]; del va; gc.collect()\njunk = [imath.IntArray(8) for _ in range(64)]\n"
                             "print([row[j] for j in range(8)])   # expected 100..107") if sc == "varray" else
                            ("import imath, gc\nm = imath.IntMatrix(3, 8)\nfor j in range(8): m[1][j] = 100 + j\nrow = m[1]; del m; gc.collect()\n"
                             "junk = [imath.IntMatrix(3, 8) for _ in range(24)]\nfor k in junk:\n    k[0:3] = -12345\n"
                             "print([row[j] for j in range(8)])   # expected 100..107") if sc.startswith("matrix") else None,
                  "native": ev[:2], "valgrind": vg_bad.get(sc, [])[:2], "fix": FIX.get(key)}, True)


# ------------------------------------------------------------------------------------------------

def run(chk):
    chk.trusted = ["Lean 4.33 kernel; axioms propext / Classical.choice / Quot.sound at most (`decide` for the witness programs, no native_decide)",
                   "hand models Model/FixedArray.lean (+ component arrays compView), FixedArray2D.lean, FixedVArray.lean, StringTable.lean, "
                   "BufferProtocol.lean (sources with shape / strides / offset) — tied to the current tree by exhaustive + random "
                   "correspondence against the real imath module (harness/py/c19_harness.py); the driver executes the model functions the "
                   "theorems are about (`step` for the 16 statements; the 2-D / matrix / VArray / string / component ops by direct calls)",
                   "CPython's PyBuffer_ToContiguous / memoryview (the strided copy and the reference `tobytes()` of a source view)",
                   "regex reader of PyImathFixedArrayTraits.h (model of getbuffer only; the exported views are ALSO compared with an "
                   "expectation derived from the class name alone)", "cmake/ninja/g++ building PyImath, CPython 3.11, Boost.Python 1.83",
                   "the specification executor (plain Python lists / nested lists, CPython's own slicing) and Spec/PyList.lean (validated "
                   "against CPython)"]
    chk.assumptions = ["Spec/PyList.lean states Python list indexing/slicing and the mask operations correctly (checked against CPython at small "
                       "scope; maskPositions / select characterised independently: maskPositions_spec, maskPositions_sorted, select_eq_zip_filter)",
                       "refinement theorems for writes assume the right-hand side / mask lives in another allocation (aliased cases are outside "
                       "the quantifier, as list semantics evaluate the right-hand side first; model and implementation are still compared on "
                       "them, and no_oob_current covers them: no aliasing hypothesis)",
                       "no_oob_current / step_preserves_WF: the 18-statement machine (16 on arrays + allocWide + comp); side conditions OpsOK = "
                       "allocation requests fit Py_ssize_t, vector arrays are filled with whole elements, `.x` is taken of a vector array "
                       "(off = 0, k < stride) — what Python's classes enforce; matrix rows, 2-D / VArray / string statements are outside `Op` "
                       "and have their own per-operation theorems",
                       "the open finding setitem-scalar-mask-on-masked-ref-ignores-mask is recognised by its EXACT effect (second spec "
                       "executor); programs continue against that re-synchronised reference",
                       "element values are small integers (no int32 wrap-around in +=); rows of V2 element type grown by `size[...] = k` are "
                       "uninitialised in C++ (the harness zero-fills them before comparing)",
                       "FixedVArray / FixedArray2D / FixedMatrix: backward slices are outside the property's quantifier (model = real is still "
                       "compared on them)", "view LIFETIMES are observed (native values with same-size reallocation, valgrind), not proved"]
    chk.rule = ("exhaustive: lengths 0..6 x every int index in [-8,8] x every slice start/stop in {None}+[-8,8], step in [-3,3]\\{0}+{None} "
                "(get, scalar set, vector set with right and wrong lengths) x every 0/1 mask for lengths <= 5 x masked-reference slices, masks on "
                "masked references, read-only protection through array / masked reference / handle copy, converting + fill constructors; a "
                "reduced scope for every other FixedArray class found by introspection; component arrays (.x .y .z .w / .r .g .b .a / "
                "quaternion / box .min .max) of all 28 vector classes: every component x every mask x reads, writes, in-place ops, read-only, "
                "element references; FixedArray2D (5 classes) / FixedMatrix (3 classes) per dimension incl. 1-D right-hand sides through masks, "
                "ifelse, len, constructors; FixedVArray (4 classes): every int index, slice in [-5,5], mask, row / element / size reads and "
                "the 8 write paths through dense and masked views with non-trivial start/step; string arrays with several tables (slice / "
                "mask / array assignment, ==, slices, default ctor) for StringArray and WstringArray; ...ArrayFromBuffer on contiguous, "
                "strided, reversed, 2-D row-sliced, imath-component and bytes sources; exported buffers against a class-name expectation "
                "with contents; random op sequences (seeded) with shrinking; corpus first.  non-trivial = programs with at least one "
                "operation after allocation")
    ok, out = pyimath.build()
    chk.oblige("build:pyimath(current tree)", "build", ok, None if ok else out[-800:])
    if not ok:
        chk.fail("build:pyimath", "build:pyimath", "PyImath does not build from the current tree", {"output": out[-3000:]}, False)
        return
    okd, out = c19lib.build_driver()
    chk.oblige("build:drv_fixedarray", "build", okd, None if okd else out[-800:])

    def search(name):
        # executable forms: the witness programs and the exhaustive streams below find the concrete inputs
        return None
    chk.check_theorems("ImathVerif.Props.C19", required=REQUIRED, search=search)
    if chk.thorough:
        chk.leanchecker("ImathVerif.Props.C19")
    if not okd:
        chk.fail("build:drv_fixedarray", "build:drv_fixedarray", "model driver does not build", {"output": out[-3000:]}, False)
        return
    co = Corr(chk)
    classes = c19lib.classes()
    if "_error" in classes:
        chk.fail("classes", "harness-classes", "cannot introspect the imath module", classes, False)
        return
    chk.extra["array_classes"] = {"found": len(classes), "generic_with_codec": sorted(c for c, v in classes.items() if v["generic"] and v["codec"]),
                                  "variable_arrays_driven(v ops, rows of)": {"VIntArray": "IntArray", "VFloatArray": "FloatArray",
                                                                             "VV2iArray": "V2iArray", "VV2fArray": "V2fArray"},
                                  "not_driven": sorted(c for c, v in classes.items() if not (v["generic"] and v["codec"])
                                                       and c not in ("VIntArray", "VFloatArray", "VV2iArray", "VV2fArray"))}

    # ---- the Lean witness programs (Model/FixedArrayWitness.lean), replayed on the real module; each decides one
    #      model flag: the variant whose model output equals the real module's on that witness
    _, wl = c19lib.run_model("witnesses\n")
    wit, cur = {}, None
    for l in wl:
        if l.startswith("# "):
            cur = l[2:].strip(); wit[cur] = []
        elif l.strip() and cur:
            wit[cur].append(l.strip())
    FLAG_OF = {"masked-inplace-scalar": 0, "masked-inplace-vector": 0, "convert-from-masked": 1, "slice-empty-backward": 2,
               "ifelse-readonly": 3, "mask-on-masked": 4, "component-of-masked": 5, "varray-size-overloads": 6}
    KEY_OF = {0: "masked-inplace-on-readonly", 1: "convert-ctor-from-masked", 2: "slice-negstep-start-below-range-raises",
              3: "ifelse-on-readonly-source-raises", 4: "setitem-scalar-mask-on-masked-ref-ignores-mask", 5: c19lib.COMP_KEY,
              6: c19lib.VSIZE_KEY}
    WCLS = {"component-of-masked": "V3iArray"}
    votes = {k: [] for k in range(c19lib.NFLAGS)}
    for name, prog in wit.items():
        fl = FLAG_OF.get(name)
        if fl is None:
            continue
        if name == "component-of-masked":
            # the mask of the witness is an IntArray whatever the class under test (`Op.alloc` prints as `alloc`)
            prog = [("alloci " + l[6:]) if l.startswith("alloc ") else l for l in prog]
        txt = "\n".join(prog) + "\n"
        _, r = c19lib.run_real(txt, WCLS.get(name, "IntArray"))
        outs = {}
        for val in (0, 1):
            cfg = [0] * c19lib.NFLAGS
            cfg[fl] = val
            _, ml = c19lib.run_model(txt, cfg)
            outs[val] = all(("oob" in a) or a.strip() == b.strip() for a, b in zip(ml[:len(prog)], r[:len(prog)])), ml
        # an `oob` line matches anything: prefer the variant that matches without it
        exact = {v: all(a.strip() == b.strip() for a, b in zip(outs[v][1][:len(prog)], r[:len(prog)])) for v in (0, 1)}
        decided = 1 if exact[1] else (0 if outs[0][0] else None)
        votes[fl].append(decided)
        chk.oblige("witness:%s:replayed" % name, "correspondence", decided is not None,
                   {"real": r[:len(prog)], "matches": {0: "asWritten", 1: "repaired", None: "neither"}[decided]})
        chk.sample({"witness": name, "program": prog, "real_last": r[len(prog) - 1],
                    "model_asWritten_last": outs[0][1][len(prog) - 1], "model_repaired_last": outs[1][1][len(prog) - 1]})
        if decided != 1:
            co.note_key(KEY_OF[fl], prog, "repaired model: " + outs[1][1][len(prog) - 1], r[len(prog) - 1], WCLS.get(name, "IntArray"),
                        "witness:%s:replayed" % name if fl >= 5 else None)
    best = tuple(1 if (votes[k] and all(v == 1 for v in votes[k])) else 0 for k in range(c19lib.NFLAGS))
    co.cfg = best
    # the primary theorems (readonly_invariant_current, slice_any_sign, ifelse_refines, convert_refines, ...) are stated
    # for Cfg.current = (1,1,1,1,0); a flag falling back to "as written" is a regression of a fixed defect and is
    # reported through its finding key (note_key above), at full strength
    chk.oblige("variant:current-tree-is-Cfg.current(or fully repaired)", "correspondence", tuple(best[:4]) == (1, 1, 1, 1),
               dict(zip(c19lib.FLAG_NAMES, best)))
    # the recorded mask-on-masked quirk: the theorems name it for Cfg.current (flag 4 = 0); should upstream change it the
    # statements `setitem_scalar_mask_on_masked_*` have to be restated — reported, not silently followed
    chk.oblige("variant:mask-on-masked-is-as-in-Cfg.current(mask ignored)", "correspondence", best[4] == 0,
               dict(zip(c19lib.FLAG_NAMES, best)))
    if best[4] != 0:
        chk.fail("variant:mask-on-masked-is-as-in-Cfg.current(mask ignored)", "cfg-current-outdated:maskOnMaskedHonoured",
                 "the real module now honours the mask in `m[mask2] = x` on a masked reference: Cfg.current and the theorems "
                 "setitem_scalar_mask_on_masked_ignores_mask / setitem_scalar_mask_on_masked_refines describe the former behaviour",
                 {"decided": dict(zip(c19lib.FLAG_NAMES, best))}, False)
    chk.oblige("variant:component-arrays-keep-the-mask(compView true)", "correspondence", best[5] == 1,
               dict(zip(c19lib.FLAG_NAMES, best)))
    chk.oblige("variant:varray-size-helper-overloads-reachable", "correspondence", best[6] == 1, dict(zip(c19lib.FLAG_NAMES, best)))
    chk.extra["model_variant"] = {"decided_by_correspondence": dict(zip(c19lib.FLAG_NAMES, [bool(b) for b in best])),
                                  "witness_votes": {c19lib.FLAG_NAMES[k]: v for k, v in votes.items()}}

    # ---- slice normalisation (decided variant) and the Lean spec against CPython itself
    slices_vs_cpython(chk, best)

    # ---- IntArray exhaustive stream under the decided variant (must reproduce the real module line by line)
    t0 = time.time()
    ex_programs = list(c19lib.corpus_programs()) + list(c19_gen.exhaustive_1d(targets=classes.get("IntArray", {}).get("convert_targets") or ()))
    co.campaign("exhaustive", ex_programs, "IntArray")
    # exhaustive WITHIN the stated small scope for IntArray only; every other class runs a reduced scope (see `rule`)
    chk.exhaustive = False
    chk.extra["exhaustive_scope"] = ("IntArray: every program of the families of c19_gen.exhaustive_1d at lengths 0..6, indices / slice "
                                     "bounds in [-8,8], steps in [-3,3], every 0/1 mask of length <= 5; all other classes: reduced scope")
    chk.extra["exhaustive_s"] = round(time.time() - t0, 1)

    # ---- every other FixedArray class: reduced exhaustive scope, in parallel
    t0 = time.time()
    typed = [c for c, v in sorted(classes.items()) if v["generic"] and v["codec"] and c != "IntArray"]
    big = chk.thorough

    def typed_run(c):
        v = classes[c]
        boolish = c == "BoolArray"
        narrow = c in ("SignedCharArray", "UnsignedCharArray", "BoolArray")     # += would wrap around 8 bits
        progs = list(c19_gen.exhaustive_1d(maxlen=4 if big else 3, rng=5 if big else 4, steps=2, masklen=4 if big else 3,
                                           mrng=3 if big else 2, iadd=v["iadd"] and not narrow, convert=bool(v["convert"]), full=False,
                                           targets=v.get("convert_targets") or (), copyproto=bool(v.get("copy_protocol"))))
        if boolish:
            progs = list(c19_gen.boolify(progs))
        sub = Corr(chk)
        sub.cfg = best
        sub.campaign("reduced", progs, c)
        return c, sub
    def merge(c, sub):
        for k, vv in sub.keys.items():
            co.note_key(k, vv[0], vv[1], vv[2], c)
            for ob in getattr(sub, "key_obls", {}).get(k, []):
                co.note_key(k, vv[0], vv[1], vv[2], c, ob)
        for op, vv in sub.mism.items():
            co.mism.setdefault(op, vv)
            co.mism_classes.setdefault(op, set()).add(c)
        co.lines += sub.lines; co.nontrivial += sub.nontrivial; co.aliased += sub.aliased
        co.opcount.update(sub.opcount); co.errcount.update(sub.errcount); co.kindcount.update(sub.kindcount); co.oob.update(sub.oob)
        co.devkeys.update(sub.devkeys)
    with ThreadPoolExecutor(min(lib.NCPU, 12)) as exr:
        for c, sub in exr.map(typed_run, typed):
            merge(c, sub)
    chk.extra["typed_classes_s"] = round(time.time() - t0, 1)

    # ---- component arrays (`.x .y .z .w .r .g .b .a .min .max`) of every vector array class: the seven duplicated
    #      `*Array_get` bodies x element types, dense / masked / read-only sources, reads and writes THROUGH them
    t0 = time.time()
    compcls = [c for c, v in sorted(classes.items()) if v.get("comp")]

    def comp_run(c):
        v = classes[c]
        fullc = c == "V3iArray"
        narrow = v["comp"]["ccls"] in ("UnsignedCharArray", "SignedCharArray")
        progs = list(c19_gen.exhaustive_comp(v["comp"]["w"], maxlen=(4 if fullc or big else 3), iadd=not narrow, full=fullc or big,
                                             elemset=bool(v["comp"].get("elemset")), settuple=bool(v.get("settuple")),
                                             setlist=bool(v.get("setlist"))))
        sub = Corr(chk)
        sub.cfg = best
        sub.campaign("component", progs, c)
        return c, sub
    with ThreadPoolExecutor(min(lib.NCPU, 12)) as exr:
        for c, sub in exr.map(comp_run, compcls):
            merge(c, sub)
    chk.extra["component_classes"] = {c: classes[c]["comp"] for c in compcls}
    chk.extra["component_s"] = round(time.time() - t0, 1)

    # ---- random op sequences
    t0 = time.time()
    nrand = 20000 if chk.thorough else 2500
    quirks = tuple(q for q, f in (("slice", best[2]), ("ifelse", best[3])) if not f)   # generator shadow follows the decided variant
    co.campaign("random", list(c19_gen.random_programs(chk.seed, nrand, 22, quirks=quirks)), "IntArray")
    for c in [x for x in ("V3fArray", "DoubleArray", "C4fArray", "M33dArray") if x in typed]:
        v = classes[c]
        co.campaign("random", list(c19_gen.random_programs(chk.seed + sum(map(ord, c)), nrand // 8, 18, iadd=v["iadd"],
                                                           convert=bool(v["convert"]), typed=True, quirks=quirks)), c)
    chk.extra["random_s"] = round(time.time() - t0, 1)

    # ---- FixedArray2D / FixedMatrix
    t0 = time.time()
    co.campaign("array2d", list(c19_gen.exhaustive_2d(4 if not chk.thorough else 5)), "IntArray")
    co.campaign("matrix", list(c19_gen.exhaustive_matrix(4 if not chk.thorough else 6)), "IntArray")
    # every other FixedArray2D / FixedMatrix class (elements of the class under test; masks stay IntArray2D)
    T2 = {"IntArray": ["FloatArray2D", "DoubleArray2D"], "FloatArray": ["IntArray2D", "DoubleArray2D"],
          "DoubleArray": ["IntArray2D", "FloatArray2D"]}
    p2f = lambda c: list(c19_gen.exhaustive_2d(2 if not chk.thorough else 4, targets=T2.get(c, ()), settuple=c.startswith("C4")))
    co.campaign("array2d", [p for p in c19_gen.exhaustive_2d(1, targets=T2["IntArray"]) if p[0] == "2d-convert"], "IntArray")
    pm = list(c19_gen.exhaustive_matrix(3 if not chk.thorough else 5))
    jobs = [("array2d", p2f(c), c) for c in ("FloatArray", "DoubleArray", "C4fArray", "C4cArray") if c in classes] + \
           [("matrix", pm, c) for c in ("FloatArray", "DoubleArray") if c in classes]

    def d2_run(job):
        name, progs, c = job
        sub = Corr(chk)
        sub.cfg = best
        sub.campaign(name, progs, c)
        return c, sub
    with ThreadPoolExecutor(6) as exr:
        for c, sub in exr.map(d2_run, jobs):
            merge(c, sub)
    chk.extra["array2d_matrix_classes"] = {"FixedArray2D": ["IntArray2D", "FloatArray2D", "DoubleArray2D", "Color4fArray2D", "Color4cArray2D"],
                                           "FixedMatrix": ["IntMatrix", "FloatMatrix", "DoubleMatrix"]}
    # component arrays of the 2-D colour arrays (Color4Array2D_get): direct nested-list check on the real module
    rc, out = lib.sh([pyimath.PYTHON, os.path.join(c19lib.HPY, "c19_comp2d.py")], env=pyimath.env(), timeout=300)
    try:
        c2 = json.loads(out[out.index("{"):])
        chk.oblige("array2d:component-arrays(.r .g .b .a)=nested-lists", "spec-correspondence", not c2["bad"] and bool(c2["classes"]),
                   {"cases": c2["cases"], "classes": c2["classes"], "unusable(no Python class for the component array)": c2.get("unusable"),
                    "bad": [b["what"] for b in c2["bad"]][:5]})
        chk.count(c2["cases"], c2["cases"])
        if c2["bad"]:
            chk.fail("array2d:component-arrays(.r .g .b .a)=nested-lists", "array2d-component:" + c2["bad"][0]["what"].split("(")[0],
                     "component array of a 2-D colour array selects / writes the wrong cells: %s" % c2["bad"][0]["what"], c2["bad"][0], True)
    except Exception:
        chk.oblige("array2d:component-arrays(.r .g .b .a)=nested-lists", "spec-correspondence", False, out[-400:])
        chk.fail("array2d:component-arrays(.r .g .b .a)=nested-lists", "array2d-component-harness", "c19_comp2d.py failed",
                 {"output": out[-1500:]}, False)
    chk.extra["array2d_matrix_s"] = round(time.time() - t0, 1)

    # ---- FixedVArray: nested lists; all four classes (rows of IntArray / FloatArray / V2iArray / V2fArray)
    t0 = time.time()
    vprogs = list(c19_gen.exhaustive_varray(4, 5 if chk.thorough else 4, full=True))
    co.campaign("varray", vprogs, "IntArray")
    vsmall = list(c19_gen.exhaustive_varray(3, 3, full=chk.thorough))

    def v_run(c):
        sub = Corr(chk)
        sub.cfg = best
        sub.campaign("varray", vsmall, c)
        return c, sub
    with ThreadPoolExecutor(3) as exr:
        for c, sub in exr.map(v_run, [c for c in ("FloatArray", "V2iArray", "V2fArray") if c in classes]):
            merge(c, sub)
    chk.extra["varray_s"] = round(time.time() - t0, 1)

    chk.count(co.lines, co.nontrivial)
    chk.extra["ops_by_kind"] = dict(co.opcount.most_common())
    chk.extra["errors_hit"] = dict(co.errcount.most_common())
    chk.extra["program_families"] = dict(co.kindcount.most_common())
    chk.extra["outside_quantifier_lines(aliased rhs / backward 2-D slices)"] = co.aliased
    chk.extra["oob_predicted_by_model"] = dict(co.oob)
    chk.extra["list_spec_deviations_by_key(all campaigns)"] = dict(co.devkeys)

    t0 = time.time()
    # ---- model / implementation mismatches: the model no longer describes the code
    for op, (prog, m, r, cls) in sorted(co.mism.items()):
        small = shrink_model(prog, co.cfg, cls) if not op.startswith(("d2", "m", "v", "comp", "allocw")) and len(co.mism) < 6 else prog
        chk.fail("corr:model=real", "model-mismatch:" + op,
                 "the real module and the model (variant %s) disagree on `%s`" % (co.cfg, small[-1]),
                 {"program": small, "model": m, "real": r, "class": cls, "classes": sorted(co.mism_classes.get(op, [])),
                  "python": pyrepro(small) if cls == "IntArray" else None}, True)
    # ---- findings keyed by call site
    for key, (prog, a, b, clss) in sorted(co.keys.items()):
        cls0 = "IntArray" if "IntArray" in clss else sorted(clss)[0]
        small = shrink_spec(prog, key, cls0) if cls0 == "IntArray" and not prog[-1].startswith(("d2", "m", "v ")) else prog
        chk.fail(sorted(getattr(co, "key_obls", {}).get(key, [])) or "corr:real=python-list", key,
                 "%s: `%s` — expected %s, real module gives %s (%d classes)%s" % (
                     key, small[-1], a.split(";")[0], b.split(";")[0], len(clss), "  [fix: %s]" % FIX[key] if key in FIX else ""),
                 {"program": small, "python": pyrepro(small), "expected(list semantics)": a, "real": b, "classes": sorted(clss),
                  "fix": FIX.get(key)}, True)
        chk.sample({"finding": key, "program": small})
    chk.extra["shrink_s"] = round(time.time() - t0, 1)

    c19lib.close_servers()
    # ---- strings, buffers, lifetimes
    t0 = time.time()
    strings(chk)
    chk.extra["strings_s"] = round(time.time() - t0, 1); t0 = time.time()
    buffers(chk)
    chk.extra["buffers_s"] = round(time.time() - t0, 1); t0 = time.time()
    lifetimes(chk)
    chk.extra["lifetimes_s"] = round(time.time() - t0, 1); t0 = time.time()
    readonly_sweep(chk)
    chk.extra["readonly_sweep_s"] = round(time.time() - t0, 1)
