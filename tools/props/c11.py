"""C11 — Euler angles round-trip through matrices and quaternions in all 24 orders.

T-route (harness/sym/sym_c11.cpp -> Gen/C11Euler.lean, Gen/C11Algo.lean; tools/gen_euler.py -> Gen/EulerOrder.lean),
H-route for the bit packing and angleMod (Model/EulerOrder.lean <-> real code over all 2^16 patterns / structured
inputs through Driver/Euler.lean), theorems in Props/C11.lean, measured residue harness/corr/c11_residue.cpp."""
import os, re
import lib, troute, gen_euler

LEVEL = "proof"
DRV = os.path.join(lib.LEAN, ".lake", "build", "bin", "drv_euler")
LEAF_IDX = os.path.join(troute.GEN, "index_leaf.txt")

REQUIRED = [
    "orders_match_header", "order_setOrder", "legal_orders", "setOrder_order", "real_order_eq_model",
    "real_angleOrder_eq_model", "real_angleMapping_eq_model", "angleOrder_permutation", "angleMapping_inverts_angleOrder",
    "toXYZVector_slots", "toXYZVector_setXYZVector", "setXYZVector_toXYZVector", "ctor_layouts", "toXYZVector_ctorXYZLayout", "copy_and_assign",
    "toM33_raw", "toQuat_raw", "toMatrix44_eq_embed_toMatrix33", "toMatrix33_eq_spec", "toMatrix33_orthonormal_det_one", "toQuat_eq_spec", "toQuat_unit",
    "toQuat_toMatrix33_eq_toMatrix33", "toMatrix44_XYZ_eq_setEulerAngles",
    "extract_M44_eq_extract_M33", "extract_Quat_eq", "ctor_matrix_eq_extract", "reorder_ctor_eq",
    "flip_same_rotation", "simpleXYZRotation_preserves", "simpleXYZRotation_within_pi", "makeNear_preserves_rotation",
    "makeNear_within_pi", "nearestRotation_preserves_rotation", "nearestRotation_within_pi",
    "angleMod_in_range", "angleMod_congruent", "angleMod_driver_instance",
    "extract_toMatrix33_static", "extract_toMatrix33_rotating", "extract_toMatrix33_static_rep", "extract_toMatrix33_rotating_rep",
    "extractEulerXYZ_eq_member", "extractEulerZYX_eq_member",
    "extract_inverts_toMatrix33_partial", "toMatrix33_extract_roundtrip_partial", "extract_inverts_toMatrix44_partial",
    "extract_inverts_toQuat_partial", "extractEulerXYZ_inverts_setEulerAngles", "extractEulerZYX_inverts_builder",
    "extractEuler_inverts_setRotation",
]

# which residue sections can falsify which theorem (search for a concrete failing input)
SECTIONS = {
    "toMatrix44_eq_embed_toMatrix33": ["toMatrix44-embed", "toMatrix44-vs-spec", "toMatrix33-vs-spec"],
    "toMatrix33_eq_spec": ["toMatrix33-vs-spec"], "toM33_raw": ["toMatrix33-vs-spec"], "toM33_raw_toMat": ["toMatrix33-vs-spec"],
    "toQuat_raw": ["toQuat-vs-spec"],
    "extract_toMatrix33_static": ["extract-roundtrip", "extract-toMatrix-real", "toMatrix33-vs-spec"],
    "extract_toMatrix33_rotating": ["extract-roundtrip", "extract-toMatrix-real", "toMatrix33-vs-spec"],
    "extract_toMatrix33_static_rep": ["extract-roundtrip", "extract-toMatrix-real", "toMatrix33-vs-spec"],
    "extract_toMatrix33_rotating_rep": ["extract-roundtrip", "extract-toMatrix-real", "toMatrix33-vs-spec"],
    "extractEulerXYZ_eq_member": ["extractEulerXYZ", "extract33-vs-extract44"], "extractEulerZYX_eq_member": ["extractEulerZYX", "extract33-vs-extract44"],
    "toMatrix33_orthonormal_det_one": ["toMatrix33-vs-spec"],
    "toQuat_eq_spec": ["toQuat-vs-spec"], "toQuat_unit": ["toQuat-vs-spec"],
    "toQuat_toMatrix33_eq_toMatrix33": ["toQuat-vs-spec", "toMatrix33-vs-spec"],
    "toMatrix44_XYZ_eq_setEulerAngles": ["toMatrix44-vs-spec", "setEulerAngles"],
    "extract_M44_eq_extract_M33": ["extract33-vs-extract44"],
    "extract_Quat_eq": ["extract-quat-roundtrip"],
    "ctor_matrix_eq_extract": ["extract-roundtrip", "extract-roundtrip-gimbal", "order"],
    "reorder_ctor_eq": ["reorder", "reorder-order"],
    "flip_same_rotation": ["makeNear-rotation", "nearestRotation-rotation", "toMatrix33-vs-spec"],
    "makeNear_preserves_rotation": ["makeNear-rotation", "makeNear-order"],
    "makeNear_within_pi": ["makeNear-within-pi"],
    "nearestRotation_preserves_rotation": ["nearestRotation-rotation"],
    "nearestRotation_within_pi": ["nearestRotation-within-pi"],
    "simpleXYZRotation_preserves": ["simpleXYZRotation-rotation"],
    "simpleXYZRotation_within_pi": ["simpleXYZRotation-within-pi"],
    "toXYZVector_slots": ["toXYZVector-slots", "angleMapping"],
    "toXYZVector_setXYZVector": ["setXYZVector-inverse", "toXYZVector-inverse", "angleMapping"],
    "setXYZVector_toXYZVector": ["setXYZVector-inverse", "toXYZVector-inverse", "angleMapping"],
    "ctor_layouts": ["ctorXYZLayout", "ctorXYZLayoutScalars", "ctorIJKLayout", "order"],
    "setOrder_keeps_angles": ["order"], "copy_and_assign": ["order", "copy"],
    "toXYZVector_ctorXYZLayout": ["ctorXYZLayout", "toXYZVector-inverse"],
    "real_angleOrder_eq_model": ["angleOrder"], "angleOrder_permutation": ["angleOrder"],
    "real_angleMapping_eq_model": ["angleMapping"], "angleMapping_inverts_angleOrder": ["angleMapping"],
    "real_order_eq_model": ["order", "reorder-order"], "order_setOrder": ["order", "reorder-order"],
    "extractEulerXYZ_inverts_setEulerAngles": ["extractEulerXYZ"], "extractEulerZYX_inverts_builder": ["extractEulerZYX"],
    "extractEuler_inverts_setRotation": ["extractEuler22", "extractEuler33"],
    "extract_inverts_toMatrix33_partial": ["extract-roundtrip", "extract-toMatrix-real", "extract-roundtrip-gimbal"],
    "toMatrix33_extract_roundtrip_partial": ["extract-roundtrip", "extract-toMatrix-real", "extract-roundtrip-gimbal"],
    "extract_inverts_toMatrix44_partial": ["extract33-vs-extract44", "extract-roundtrip", "toMatrix44-embed"],
    "extract_inverts_toQuat_partial": ["extract-quat-roundtrip", "toQuat-vs-spec"],
}


def run_residue(chk, binary, n):
    rc, out = lib.sh([binary, str(chk.seed), str(n)], timeout=1800)
    m = re.search(r"RESIDUE evals=(\d+) failures=(\d+) gimbal_exact=(\d+) gimbal_near=(\d+) flip_taken=(\d+) flip_not_taken=(\d+)(.*)", out)
    fails = [l for l in out.split("\n") if l.startswith("RESIDUE-FAIL")]
    return rc, out, m, fails


def parse_fail(line):
    m = re.match(r"RESIDUE-FAIL ([^:\s]+):([^:\s]+):(\w+) err=(\S+) bound=(\S+) angles=(\S+) (\S+) (\S+)\s*(.*)", line)
    if not m:
        return {"line": line}
    sec, order, ty, err, bound, x, y, z, extra = m.groups()
    return {"section": sec, "order": order, "element_type": ty, "error": float(err), "bound": float(bound),
            "angles": [float(x), float(y), float(z)], "extra": extra, "line": line[:300]}


def residue(chk, rc, out, m, fails):
    ok = rc == 0 and m is not None and int(m.group(2)) == 0
    chk.oblige("residue: builders = spec to 8 eps*|angle|; extract/toMatrix round trip (3x3, 4x4, quaternion, reorder) to 24 eps incl. "
               "gimbal lock; makeNear/nearestRotation/simpleXYZRotation keep the rotation to 8 eps_float*|angle| and stay within pi; "
               "angleMod in [-pi,pi], congruent mod 2pi to single precision; XYZ-layout slot functions exact", "residue", ok)
    if m:
        chk.count(int(m.group(1)), int(m.group(1)))
        res = {"evaluations": int(m.group(1)), "middle_angle_exactly_at_gimbal": int(m.group(3)),
               "middle_angle_within_1e-1..1e-15_of_gimbal": int(m.group(4)),
               "nearestRotation_chose_flipped_triple": int(m.group(5)), "nearestRotation_kept_simple_triple": int(m.group(6)),
               "orders": 24, "element_types": ["double", "float"], "oracle": "long double product of elementary rotations about the axes of an independent table"}
        for kv in m.group(7).split():
            k, _, v = kv.partition("=")
            res["worst_" + k] = float(v)
        res["bounds"] = {"setEulerAngles_vs_spec_over_eps": 8, "extractEulerXYZ_angle_err_over_eps_cond": 16, "extractEulerZYX_angle_err_over_eps_cond": 16,
                         "extractEuler2D_angle_err_over_eps": 8, "toMatrix_vs_spec_over_eps_amax": 8, "roundtrip_over_eps": 24, "roundtrip_gimbal_over_eps": 24, "reorder_over_eps": 24,
                         "makeNear_rotation_over_epsf_amax": 8, "makeNear_excess_over_pi_in_epsf_amax": 4, "angleMod_congruence_over_tol": 1}
        chk.residues["C11"] = res
    seen = set()
    for l in fails:
        d = parse_fail(l)
        key = "residue:%s:%s:%s" % (d.get("section", "?"), d.get("order", "?"), d.get("element_type", "?"))
        if key in seen or len(seen) >= 12:
            continue
        seen.add(key)
        chk.fail("residue:" + d.get("section", "?"), key,
                 "real code violates the measured claim `%s` for order %s at %s" % (d.get("section"), d.get("order"), d.get("element_type")), d, True)
    if not ok and not fails:
        chk.fail("residue", "residue:run", "residue harness failed to run", {"output": out[-2000:]}, False)


def enum_translator(chk):
    ok, info = gen_euler.regenerate()
    chk.oblige("gen:EulerOrder regenerated from the current ImathEuler.h (names parsed, values compiled)", "translator", ok,
               None if ok else info)
    if not ok:
        chk.fail("gen:EulerOrder", "gen:EulerOrder", "the Order enumeration could not be regenerated from the current header", info, False)
        return None
    comp = dict(info["orders"]); comp.update(info["specials"])
    bad = [(n, v, comp.get(n)) for n, v in info["regex"].items() if comp.get(n) != v]
    chk.oblige("gen:EulerOrder: compiled enumerator values = literals parsed from the header text (%d literals)" % len(info["regex"]),
               "translation-validation", not bad and len(info["regex"]) >= 24, bad or None)
    for n, v, c in bad:
        chk.fail("gen:EulerOrder", "gen:EulerOrder:" + n, "enumerator %s: header text says %s, compiler says %s" % (n, v, c), {"name": n}, True)
    chk.extra["euler_orders"] = {"count": len(info["orders"]), "Legal": info["specials"].get("Legal"), "changed": info["changed"]}
    return info


def order_correspondence(chk, corr):
    """all 2^16 bit patterns: real setOrder/order/legal/angleOrder/angleMapping vs the Lean model"""
    rc1, real = lib.sh([corr, "order", "0", "65536"], timeout=600)
    rc2, model = lib.sh([DRV, "order", "0", "65536"], timeout=600)
    rl, ml = real.strip().split("\n"), model.strip().split("\n")
    diffs = [(a, b) for a, b in zip(rl, ml) if a != b]
    ok = rc1 == 0 and rc2 == 0 and len(rl) == 65536 and len(ml) == 65536 and not diffs
    chk.oblige("correspondence: setOrder/order/legal/angleOrder/angleMapping, all 65,536 bit patterns, real code = Lean model", "correspondence", ok)
    chk.count(65536, 65536)
    chk.exhaustive = True
    legal = sum(1 for l in rl if len(l.split()) > 1 and l.split()[1] == "1")
    fixed = sum(1 for l in rl if len(l.split()) > 2 and l.split()[0] == l.split()[2])
    chk.extra["order_correspondence"] = {"patterns": len(rl), "legal_patterns": legal, "patterns_with_order(setOrder(p))==p": fixed,
                                         "mismatches": len(diffs)}
    chk.sample({"pattern": rl[0x0101] if len(rl) > 0x101 else None, "columns": "p legal order(setOrder p) static repeated even axis i j k mi mj mk"})
    for a, b in diffs[:5]:
        p = a.split()[0]
        chk.fail("correspondence:order", "corr:order:" + p, "bit pattern %s: real code and Lean model of setOrder/order/legal/angleOrder/angleMapping differ" % p,
                 {"pattern": int(p) if p.isdigit() else p, "real": a, "model": b,
                  "columns": "p legal order(setOrder p) frameStatic initialRepeated parityEven initialAxis i j k mi mj mk",
                  "replay_cmd": ".build/bin/c11_corr order %s %s ; lean/.lake/build/bin/drv_euler order %s %s" % (p, int(p) + 1 if p.isdigit() else p, p, int(p) + 1 if p.isdigit() else p)}, True)
    if not ok and not diffs:
        chk.fail("correspondence:order", "corr:order:run", "order correspondence did not run", {"real_tail": real[-500:], "model_tail": model[-500:]}, False)
    return ok


def anglemod_correspondence(chk, corr, n):
    rc1, lines = lib.sh([corr, "anglemod", str(chk.seed), str(n)], timeout=600)
    rc2, res = lib.sh([DRV, "anglemod"], stdin=lines, timeout=900)
    ll, rr = lines.strip().split("\n"), res.strip().split("\n")
    bad = [(a, b) for a, b in zip(ll, rr) if not b.startswith("OK")]
    hits = {"no_wrap": sum(1 for b in rr if b == "OK 0"), "plus_2pi": sum(1 for b in rr if b == "OK 1"), "minus_2pi": sum(1 for b in rr if b == "OK 2")}
    ok = rc1 == 0 and rc2 == 0 and len(ll) == len(rr) and len(ll) > 1000 and not bad and all(hits.values())
    chk.oblige("correspondence: real Euler<T>::angleMod = exact model within 2^-22 (T = double, float); result in [-pi_T,pi_T]; "
               "model - x an exact multiple of 2 pi_T", "correspondence", ok)
    chk.count(len(ll), len(ll))
    chk.extra["angleMod_correspondence"] = {"inputs": len(ll), "branch_hits": hits, "mismatches": len(bad)}
    for a, b in bad[:5]:
        w = a.split()
        chk.fail("correspondence:angleMod", "corr:angleMod:%s" % (w[0] if w else "?"),
                 "real angleMod differs from the model by more than single precision", {"line": a, "driver": b,
                 "format": "<d|f> <bits of x> <bits of pi_T> <bits of the returned float>"}, True)
    if not ok and not bad:
        chk.fail("correspondence:angleMod", "corr:angleMod:run", "angleMod correspondence did not run / a branch was never hit",
                 {"hits": hits, "tail": res[-500:]}, False)


def run(chk):
    chk.trusted = ["Lean 4.33 kernel; axioms propext/Classical.choice/Quot.sound at most",
                   "Mathlib: Matrix.mul/det/transpose, Real.sin/cos/sqrt, Complex.arg, Int.floor",
                   "translator harness/sym (validated each run by TV bitwise at double/float and by Lean-side evaluation at Rat); tools/gen_euler.py",
                   "g++ -O1 -ffp-contract=off, glibc libm; long double evaluation as the oracle of the measured residue"]
    chk.assumptions = [
        "sin/cos/sqrt/atan2 are parameters of the theorems with explicit hypotheses (each shown to hold for the real functions)",
        "rounding is NOT proved: measured (builders vs spec, round trips, single-precision claims)",
        "extract(toMatrix a) = a (hence the round trip, also via 4x4 and quaternion) is proved over R for all 24 orders on the OPEN principal "
        "range only; gimbal lock and its neighbourhoods, angles exactly +-pi, surjectivity onto all rotation matrices (needed by the "
        "re-ordering constructor), 'within pi of target' on floats: measured",
        "nearestRotation adds the double M_PI, not pi: the rotation-preservation theorems assume sin/cos have half period M_PI "
        "(|M_PI - pi| = 1.2e-16 is part of the measured residue)",
        "casting an arbitrary 16-bit pattern to the unscoped enum Euler<T>::Order (order correspondence) relies on g++ treating the enum as int",
    ]
    chk.rule = ("theorems: all 24 orders x all angle triples / matrices over any field. correspondence: all 2^16 order bit patterns (exhaustive); "
                "angleMod on k*pi, k*2pi +- 0..8 ulps, graded magnitudes, random periods (double and float). residue: 24 orders x angle triples "
                "over +-3 periods, middle angle exactly at and within 1e-1..1e-15 of gimbal lock (+-pi/2; 0 or pi for repeated axes), targets near / "
                "far / near the flipped triple for makeNear; float and double")
    enum_translator(chk)
    bins = troute.build_extractors(chk, [dict(name="sym_leaf", source="sym/sym_leaf.cpp"),
                                         dict(name="sym_c11", source="sym/sym_c11.cpp"),
                                         dict(name="c11_residue", source="corr/c11_residue.cpp"),
                                         dict(name="c11_corr", source="corr/c11_corr.cpp")])
    n_res = 4000 if chk.thorough else 400
    res = run_residue(chk, bins["c11_residue"], n_res) if bins.get("c11_residue") else None

    if bins.get("sym_leaf") and bins.get("sym_c11"):
        troute.regenerate(chk, bins["sym_leaf"], "leaf")
        index, changed = troute.regenerate(chk, bins["sym_c11"], "c11", idx_deps=[LEAF_IDX])
        troute.tv(chk, bins["sym_c11"], "c11", 400 if chk.thorough else 64, idx_deps=[LEAF_IDX])
        # entries without scalar/aggregate inputs (angleOrder_*, angleMapping_*, order_*: integer constants with an unresolvable implicit
        # element type in a bare #eval) are validated by the `real_*_eq_model` theorems instead
        index_tv = [d for d in index if d.get("params")]
        troute.lean_tv(chk, bins["sym_c11"], "c11", index_tv, n=4 if chk.thorough else 1, idx_deps=[LEAF_IDX])

        def search(name):
            if not res:
                return None
            for sec in SECTIONS.get(name, []):
                for l in res[3]:
                    d = parse_fail(l)
                    if d.get("section") == sec:
                        d["key"] = "theorem:" + name
                        d["found_by"] = "harness/corr/c11_residue.cpp (real code vs independent long-double spec), seed %d" % chk.seed
                        d["replay_cmd"] = ".build/bin/c11_residue %d %d | grep %s" % (chk.seed, n_res, sec)
                        return d
            return None
        chk.check_theorems("ImathVerif.Props.C11", required=REQUIRED, search=search)
        for d in index[:3]:
            chk.sample({"entry": d["name"], "paths": d.get("paths")})
        chk.extra["per_order_entries"] = sum(1 for d in index if re.search(r"_[XYZ]{3}r?$", d["name"]))

    if res:
        residue(chk, *res)

    rc, out = lib.lake_build(["drv_euler"])
    chk.oblige("build:drv_euler", "build", rc == 0, None if rc == 0 else out[-800:])
    if rc != 0:
        chk.fail("build:drv_euler", "build:drv_euler", "model driver does not build", {"output": out[-3000:]}, False)
    elif bins.get("c11_corr"):
        order_correspondence(chk, bins["c11_corr"])
        anglemod_correspondence(chk, bins["c11_corr"], 60000 if chk.thorough else 6000)

    if chk.thorough:
        chk.leanchecker("ImathVerif.Props.C11")
