"""C11 — Euler angles round-trip through matrices and quaternions in all 24 orders.

T-route (harness/sym/sym_c11.cpp -> Gen/C11Euler.lean, Gen/C11Algo.lean; tools/gen_euler.py -> Gen/EulerOrder.lean),
H-route for the bit packing and angleMod (Model/EulerOrder.lean <-> real code over all 2^16 patterns / structured
inputs through Driver/Euler.lean), theorems in Props/C11.lean, measured residue harness/corr/c11_residue.cpp."""
import os, re
import lib, troute, gen_euler

LEVEL = "proof"
DRV = os.path.join(lib.LEAN, ".lake", "build", "bin", "drv_euler")
LEAF_IDX = os.path.join(troute.GEN, "index_leaf.txt")

REQUIRED = [
    "orders_match_header", "order_setOrder", "legal_orders", "setOrder_order", "code_injective", "legalCount_eq", "legal_iff",
    "legal_patterns_distinct", "legal_aliases_behave", "real_order_eq_model",
    "real_angleOrder_eq_model", "real_angleMapping_eq_model", "angleOrder_permutation", "angleMapping_inverts_angleOrder",
    "toXYZVector_slots", "toXYZVector_setXYZVector", "setXYZVector_toXYZVector", "ctor_layouts", "toXYZVector_ctorXYZLayout",
    "setOrder_keeps_angles", "copy_and_assign",
    "toM33_raw", "toM33_raw_toMat", "toQuat_raw", "toMatrix44_eq_embed_toMatrix33", "toMatrix33_eq_spec", "toMatrix33_orthonormal_det_one", "toQuat_eq_spec", "toQuat_unit",
    "toQuat_toMatrix33_eq_toMatrix33", "toMatrix44_XYZ_eq_setEulerAngles",
    "extract_M44_eq_extract_M33", "extract_embed33", "extract_Quat_eq", "ctor_matrix_eq_extract", "reorder_ctor_eq", "reorder_ctor_eq_other_pairs",
    "flip_same_rotation", "simpleXYZRotation_preserves", "simpleXYZRotation_within", "simpleXYZRotation_within_pi", "makeNear_preserves_rotation",
    "makeNear_within", "makeNear_within_pi", "nearestRotation_preserves_rotation", "nearestRotation_within", "nearestRotation_within_pi",
    "angleMod_in_range", "angleMod_congruent", "angleMod_driver_instance",
    "extract_toMatrix33_static", "extract_toMatrix33_rotating", "extract_toMatrix33_static_rep", "extract_toMatrix33_rotating_rep",
    "extractEulerXYZ_eq_member", "extractEulerZYX_eq_member",
    "extract_inverts_toMatrix33_partial", "toMatrix33_extract_roundtrip_partial", "extract_inverts_toMatrix44_partial",
    "extract_inverts_toQuat_partial", "extractEulerXYZ_inverts_setEulerAngles", "extractEulerZYX_inverts_builder",
    "extractEuler_inverts_setRotation",
    # non-vacuity evidence (each hypothesis set has a real-function instance)
    "nonvacuity_principal", "nonvacuity_real_sin_cos", "nonvacuity_flip_real", "nonvacuity_makeNear", "nonvacuity_float_bound",
    "nonvacuity_slots_YZX", "nonvacuity_angleMod",
]

# Props/C11Round.lean: the property's direction of the round trip (every rotation matrix, all 24 orders), re-ordering constructor,
# makeNear with a target of another order, scale invariance of the free functions
REQUIRED_ROUND = [
    "exM33_eq_core", "toM33_eq_core", "toMatrix33_extract", "toMatrix44_extract", "quatHom_orthonormal", "Quat_toMatrix33_rotation",
    "toMatrix33_extract_quat", "trig_hsc", "toMatrix33_extract_toMatrix33", "toMatrix33_surjective", "reorder_preserves_rotation",
    "reorder_any_pair", "reorder_other_pairs_preserve_rotation", "ctor_matrix_roundtrip", "sqrtOK_real", "trigSpec_real", "toMatrix33_extract_real", "gimbalY_rot", "ident33_rot", "nonvacuity_gimbal",
    "nonvacuity_reorder",
    "extractEulerXYZ_eq_member_normalized", "extractEulerZYX_eq_member_normalized", "len3_smul", "len3_eq_zero", "nrm_smul",
    "normRows3_scaleRows3", "extractEulerXYZ_scale_invariant", "extractEulerZYX_scale_invariant", "normRows3_of_rotation",
    "extractEulerXYZ_rebuilds_scaled_rotation", "extractEuler_scale_invariant", "nonvacuity_scaled_rotation",
    "makeNear_other_order", "makeNear_other_order_preserves_rotation", "makeNear_other_order_within", "makeNear_other_order_within_ZYXr",
    "nonvacuity_makeNear_other_order",
]

# fixed rational stand-in for the PARAMETER `angleMod` in the Lean-side validation of the emitted text (same function as the
# Native::q of "angleMod" in harness/sym/sym_c11.cpp)
ANGLEMOD_STUB = "(fun (x : Rat) => x * ((3 : Rat) / 7) + (1 : Rat) / 5)"

# which residue sections can falsify which theorem (search for a concrete failing input)
SECTIONS = {
    "toMatrix44_eq_embed_toMatrix33": ["toMatrix44-embed", "toMatrix44-vs-spec", "toMatrix33-vs-spec"],
    "toMatrix33_eq_spec": ["toMatrix33-vs-spec"], "toM33_raw": ["toMatrix33-vs-spec"], "toM33_raw_toMat": ["toMatrix33-vs-spec"],
    "toQuat_raw": ["toQuat-vs-spec"],
    "extract_toMatrix33_static": ["extract-roundtrip", "extract-toMatrix-real", "toMatrix33-vs-spec"],
    "extract_toMatrix33_rotating": ["extract-roundtrip", "extract-toMatrix-real", "toMatrix33-vs-spec"],
    "extract_toMatrix33_static_rep": ["extract-roundtrip", "extract-toMatrix-real", "toMatrix33-vs-spec"],
    "extract_toMatrix33_rotating_rep": ["extract-roundtrip", "extract-toMatrix-real", "toMatrix33-vs-spec"],
    "extractEulerXYZ_eq_member": ["extractEulerXYZ", "extract33-vs-extract44"], "extractEulerZYX_eq_member": ["extractEulerZYX", "extract33-vs-extract44"],
    "toMatrix33_orthonormal_det_one": ["toMatrix33-vs-spec"],
    "toQuat_eq_spec": ["toQuat-vs-spec"], "toQuat_unit": ["toQuat-vs-spec"],
    "toQuat_toMatrix33_eq_toMatrix33": ["toQuat-vs-spec", "toMatrix33-vs-spec"],
    "toMatrix44_XYZ_eq_setEulerAngles": ["toMatrix44-vs-spec", "setEulerAngles"],
    "extract_M44_eq_extract_M33": ["extract33-vs-extract44"],
    "extract_Quat_eq": ["extract-quat-roundtrip"],
    "ctor_matrix_eq_extract": ["extract-roundtrip", "extract-roundtrip-gimbal", "order"],
    "reorder_ctor_eq": ["reorder", "reorder-order"],
    "flip_same_rotation": ["makeNear-rotation", "nearestRotation-rotation", "toMatrix33-vs-spec"],
    "makeNear_preserves_rotation": ["makeNear-rotation", "makeNear-order"],
    "makeNear_within_pi": ["makeNear-within-pi"],
    "nearestRotation_preserves_rotation": ["nearestRotation-rotation"],
    "nearestRotation_within_pi": ["nearestRotation-within-pi"],
    "simpleXYZRotation_preserves": ["simpleXYZRotation-rotation"],
    "simpleXYZRotation_within_pi": ["simpleXYZRotation-within-pi"],
    "toXYZVector_slots": ["toXYZVector-slots", "angleMapping"],
    "toXYZVector_setXYZVector": ["setXYZVector-inverse", "toXYZVector-inverse", "angleMapping"],
    "setXYZVector_toXYZVector": ["setXYZVector-inverse", "toXYZVector-inverse", "angleMapping"],
    "ctor_layouts": ["ctorXYZLayout", "ctorXYZLayoutScalars", "ctorIJKLayout", "order"],
    "setOrder_keeps_angles": ["order"], "copy_and_assign": ["order", "copy"],
    "toXYZVector_ctorXYZLayout": ["ctorXYZLayout", "toXYZVector-inverse"],
    "real_angleOrder_eq_model": ["angleOrder"], "angleOrder_permutation": ["angleOrder"],
    "real_angleMapping_eq_model": ["angleMapping"], "angleMapping_inverts_angleOrder": ["angleMapping"],
    "real_order_eq_model": ["order", "reorder-order"], "order_setOrder": ["order", "reorder-order"],
    "extractEulerXYZ_inverts_setEulerAngles": ["extractEulerXYZ"], "extractEulerZYX_inverts_builder": ["extractEulerZYX"],
    "extractEuler_inverts_setRotation": ["extractEuler22", "extractEuler33"],
    "extract_inverts_toMatrix33_partial": ["extract-roundtrip", "extract-toMatrix-real", "extract-roundtrip-gimbal"],
    "toMatrix33_extract_roundtrip_partial": ["extract-roundtrip", "extract-toMatrix-real", "extract-roundtrip-gimbal"],
    "extract_inverts_toMatrix44_partial": ["extract33-vs-extract44", "extract-roundtrip", "toMatrix44-embed"],
    "extract_inverts_toQuat_partial": ["extract-quat-roundtrip", "toQuat-vs-spec"],
    "simpleXYZRotation_within": ["simpleXYZRotation-within-pi"], "makeNear_within": ["makeNear-within-pi"], "nearestRotation_within": ["nearestRotation-within-pi"],
    "extract_embed33": ["extract33-vs-extract44"], "code_injective": ["order"],
    # Props/C11Round.lean
    "exM33_eq_core": ["extract-foreign-signedperm", "extract-foreign-quat", "extract-roundtrip", "extract-roundtrip-gimbal", "extract33-vs-extract44"],
    "toM33_eq_core": ["toMatrix33-vs-spec"],
    "toMatrix33_extract": ["extract-foreign-signedperm", "extract-foreign-quat", "extract-foreign-product", "extract-foreign-axisangle", "extract-roundtrip-gimbal", "extract-roundtrip", "extract-toMatrix-real"],
    "toMatrix33_extract_real": ["extract-foreign-signedperm", "extract-foreign-quat", "extract-roundtrip-gimbal", "extract-roundtrip"],
    "nonvacuity_gimbal": ["extract-foreign-signedperm", "extract-roundtrip-gimbal"],
    "toMatrix44_extract": ["extract33-vs-extract44", "extract-foreign-signedperm", "toMatrix44-embed"],
    "toMatrix33_extract_quat": ["extract-quat-roundtrip", "extract-foreign-quat"], "Quat_toMatrix33_rotation": ["extract-foreign-quat", "toQuat-vs-spec"],
    "toMatrix33_extract_toMatrix33": ["extract-roundtrip", "extract-roundtrip-gimbal", "extract-toMatrix-real"],
    "toMatrix33_surjective": ["extract-foreign-signedperm", "extract-foreign-quat"],
    "reorder_preserves_rotation": ["reorder", "reorder-order"], "nonvacuity_reorder": ["reorder"],
    "reorder_any_pair": ["reorder", "extract-roundtrip", "extract-roundtrip-gimbal"], "reorder_other_pairs_preserve_rotation": ["reorder", "reorder-order"],
    "reorder_ctor_eq_other_pairs": ["reorder", "reorder-order"], "makeNear_other_order_within_ZYXr": ["makeNear-within-pi-other-order"],
    "legal_iff": ["order"], "legal_aliases_behave": ["order"], "legal_patterns_distinct": ["order"],
    "ctor_matrix_roundtrip": ["ctor-matrix", "extract-foreign-signedperm", "extract-foreign-quat"],
    "extractEulerXYZ_eq_member_normalized": ["extractEulerXYZ", "extract33-vs-extract44"], "extractEulerZYX_eq_member_normalized": ["extractEulerZYX", "extract33-vs-extract44"],
    "extractEulerXYZ_scale_invariant": ["extractEulerXYZ"], "extractEulerZYX_scale_invariant": ["extractEulerZYX"],
    "extractEulerXYZ_rebuilds_scaled_rotation": ["extractEulerXYZ", "extractEulerZYX", "setEulerAngles"], "nonvacuity_scaled_rotation": ["extractEulerXYZ"],
    "extractEuler_scale_invariant": ["extractEuler22", "extractEuler33"],
    "makeNear_other_order": ["makeNear-rotation-other-order", "makeNear-within-pi-other-order", "makeNear-order"],
    "makeNear_other_order_preserves_rotation": ["makeNear-rotation-other-order", "makeNear-order"],
    "makeNear_other_order_within": ["makeNear-within-pi-other-order"], "nonvacuity_makeNear_other_order": ["makeNear-rotation-other-order"],
}


def run_residue(chk, binary, n):
    rc, out = lib.sh([binary, str(chk.seed), str(n)], timeout=1800)
    m = re.search(r"RESIDUE evals=(\d+) failures=(\d+) gimbal_exact=(\d+) gimbal_near=(\d+) flip_taken=(\d+) flip_not_taken=(\d+)(.*)", out)
    fails = [l for l in out.split("\n") if l.startswith("RESIDUE-FAIL")]
    return rc, out, m, fails


def residue_hits(out):
    h = re.search(r"^HITS (.*)$", out, re.M)
    return {k: int(v) for k, _, v in (kv.partition("=") for kv in h.group(1).split())} if h else {}


def parse_fail(line):
    m = re.match(r"RESIDUE-FAIL ([^:\s]+):([^:\s]+):(\w+) err=(\S+) bound=(\S+) angles=(\S+) (\S+) (\S+)\s*(.*)", line)
    if not m:
        return {"line": line}
    sec, order, ty, err, bound, x, y, z, extra = m.groups()
    return {"section": sec, "order": order, "element_type": ty, "error": float(err), "bound": float(bound),
            "angles": [float(x), float(y), float(z)], "extra": extra, "line": line[:300]}


def residue(chk, rc, out, m, fails):
    ok = rc == 0 and m is not None and int(m.group(2)) == 0
    chk.oblige("residue: builders = spec to 8 eps*|angle|; extract/toMatrix round trip (3x3, 4x4, quaternion, reorder) to 24 eps incl. "
               "gimbal lock; extract on matrices NOT built by toMatrix33 (unit quaternions, the 24 signed-permutation rotations, products of two "
               "builders, setAxisAngle) to 24 eps + 4 x orthonormality defect; makeNear (target of the same and of another order) / "
               "nearestRotation/simpleXYZRotation keep the rotation to 8 eps_float*|angle| and stay within pi; "
               "angleMod in [-pi,pi], congruent mod 2pi to single precision; XYZ-layout slot functions exact", "residue", ok)
    hits = residue_hits(out)
    need = ["other_order_converted", "other_order_same", "foreign_quat", "foreign_signedperm", "foreign_signedperm_gimbal", "foreign_product", "foreign_axisangle"]
    hok = bool(hits) and all(hits.get(k, 0) > 0 for k in need) and hits.get("foreign_signedperm") == 2 * 24 * 24
    chk.oblige("residue reach: makeNear target converted from another order / same order; extract fed unit-quaternion, signed-permutation "
               "(2 x 24 orders x 24 matrices, a third of them gimbal-locked for the order), two-builder-product and setAxisAngle matrices", "coverage", hok, hits or None)
    if not hok and ok:
        chk.fail("residue-reach", "residue:reach", "an input class of the residue harness was never generated", {"hits": hits}, False)
    if m:
        chk.count(int(m.group(1)), int(m.group(1)))
        res = {"evaluations": int(m.group(1)), "middle_angle_exactly_at_gimbal": int(m.group(3)),
               "middle_angle_within_1e-1..1e-15_of_gimbal": int(m.group(4)),
               "nearestRotation_chose_flipped_triple": int(m.group(5)), "nearestRotation_kept_simple_triple": int(m.group(6)),
               "orders": 24, "element_types": ["double", "float"], "oracle": "long double product of elementary rotations about the axes of an independent table"}
        res["reach"] = hits
        for kv in m.group(7).split():
            k, _, v = kv.partition("=")
            res["worst_" + k] = float(v)
        res["bounds"] = {"setEulerAngles_vs_spec_over_eps": 8, "extractEulerXYZ_angle_err_over_eps_cond": 16, "extractEulerZYX_angle_err_over_eps_cond": 16,
                         "extractEuler2D_angle_err_over_eps": 8, "toMatrix_vs_spec_over_eps_amax": 8, "roundtrip_over_eps": 24, "roundtrip_gimbal_over_eps": 24, "reorder_over_eps": 24,
                         "makeNear_rotation_over_epsf_amax": 8, "makeNear_excess_over_pi_in_epsf_amax": 4, "angleMod_congruence_over_tol": 1,
                         "makeNear_other_order_rotation_over_epsf_amax": 8, "makeNear_other_order_excess_over_pi_in_epsf_amax": 4,
                         "foreign_quat_over_eps": "24 + 4*defect/eps", "foreign_signedperm_over_eps": 24, "foreign_product_over_eps": "24 + 4*defect/eps",
                         "foreign_axisangle_over_eps": "24 + 4*defect/eps"}
        chk.residues["C11"] = res
    seen = set()
    for l in fails:
        d = parse_fail(l)
        key = "residue:%s:%s:%s" % (d.get("section", "?"), d.get("order", "?"), d.get("element_type", "?"))
        if key in seen or len(seen) >= 12:
            continue
        seen.add(key)
        chk.fail("residue:" + d.get("section", "?"), key,
                 "real code violates the measured claim `%s` for order %s at %s" % (d.get("section"), d.get("order"), d.get("element_type")), d, True)
    if not ok and not fails:
        chk.fail("residue", "residue:run", "residue harness failed to run", {"output": out[-2000:]}, False)


def enum_translator(chk):
    ok, info = gen_euler.regenerate()
    chk.oblige("gen:EulerOrder regenerated from the current ImathEuler.h (names parsed, values compiled)", "translator", ok,
               None if ok else info)
    if not ok:
        chk.fail("gen:EulerOrder", "gen:EulerOrder", "the Order enumeration could not be regenerated from the current header", info, False)
        return None
    comp = dict(info["orders"]); comp.update(info["specials"])
    bad = [(n, v, comp.get(n)) for n, v in info["regex"].items() if comp.get(n) != v]
    chk.oblige("gen:EulerOrder: compiled enumerator values = literals parsed from the header text (%d literals)" % len(info["regex"]),
               "translation-validation", not bad and len(info["regex"]) >= 24, bad or None)
    for n, v, c in bad:
        chk.fail("gen:EulerOrder", "gen:EulerOrder:" + n, "enumerator %s: header text says %s, compiler says %s" % (n, v, c), {"name": n}, True)
    chk.extra["euler_orders"] = {"count": len(info["orders"]), "Legal": info["specials"].get("Legal"), "changed": info["changed"]}
    return info


def order_correspondence(chk, corr):
    """all 2^16 bit patterns: real setOrder/order/legal/angleOrder/angleMapping vs the Lean model"""
    rc1, real = lib.sh([corr, "order", "0", "65536"], timeout=600)
    rc2, model = lib.sh([DRV, "order", "0", "65536"], timeout=600)
    rl, ml = real.strip().split("\n"), model.strip().split("\n")
    diffs = [(a, b) for a, b in zip(rl, ml) if a != b]
    ok = rc1 == 0 and rc2 == 0 and len(rl) == 65536 and len(ml) == 65536 and not diffs
    chk.oblige("correspondence: setOrder/order/legal/angleOrder/angleMapping, all 65,536 bit patterns, real code = Lean model", "correspondence", ok)
    chk.count(65536, 65536)
    chk.exhaustive = True
    legal = sum(1 for l in rl if len(l.split()) > 1 and l.split()[1] == "1")
    fixed = sum(1 for l in rl if len(l.split()) > 2 and l.split()[0] == l.split()[2])
    chk.extra["order_correspondence"] = {"patterns": len(rl), "legal_patterns": legal, "patterns_with_order(setOrder(p))==p": fixed,
                                         "mismatches": len(diffs)}
    chk.sample({"pattern": rl[0x0101] if len(rl) > 0x101 else None, "columns": "p legal order(setOrder p) static repeated even axis i j k mi mj mk"})
    for a, b in diffs[:5]:
        p = a.split()[0]
        chk.fail("correspondence:order", "corr:order:" + p, "bit pattern %s: real code and Lean model of setOrder/order/legal/angleOrder/angleMapping differ" % p,
                 {"pattern": int(p) if p.isdigit() else p, "real": a, "model": b,
                  "columns": "p legal order(setOrder p) frameStatic initialRepeated parityEven initialAxis i j k mi mj mk",
                  "replay_cmd": ".build/bin/c11_corr order %s %s ; lean/.lake/build/bin/drv_euler order %s %s" % (p, int(p) + 1 if p.isdigit() else p, p, int(p) + 1 if p.isdigit() else p)}, True)
    if not ok and not diffs:
        chk.fail("correspondence:order", "corr:order:run", "order correspondence did not run", {"real_tail": real[-500:], "model_tail": model[-500:]}, False)
    return ok


def anglemod_correspondence(chk, corr, n):
    rc1, lines = lib.sh([corr, "anglemod", str(chk.seed), str(n)], timeout=600)
    rc2, res = lib.sh([DRV, "anglemod"], stdin=lines, timeout=900)
    ll, rr = lines.strip().split("\n"), res.strip().split("\n")
    bad = [(a, b) for a, b in zip(ll, rr) if not b.startswith("OK")]
    hits = {"no_wrap": sum(1 for b in rr if b == "OK 0"), "plus_2pi": sum(1 for b in rr if b == "OK 1"), "minus_2pi": sum(1 for b in rr if b == "OK 2")}
    ok = rc1 == 0 and rc2 == 0 and len(ll) == len(rr) and len(ll) > 1000 and not bad and all(hits.values())
    chk.oblige("correspondence: real Euler<T>::angleMod = exact model (Lean, rational arithmetic) within 2^-22 = one float ulp at pi (T = double, "
               "float); returned float within 2^-22 of [-pi_T,pi_T] (it may equal float(M_PI) > M_PI: the exact bound is in the float-all / "
               "double-sweep obligations); model - x an exact multiple of 2 pi_T", "correspondence", ok)
    chk.count(len(ll), len(ll))
    chk.extra["angleMod_correspondence"] = {"inputs": len(ll), "branch_hits": hits, "mismatches": len(bad)}
    for a, b in bad[:5]:
        w = a.split()
        chk.fail("correspondence:angleMod", "corr:angleMod:%s" % (w[0] if w else "?"),
                 "real angleMod differs from the model by more than single precision", {"line": a, "driver": b,
                 "format": "<d|f> <bits of x> <bits of pi_T> <bits of the returned float>"}, True)
    if not ok and not bad:
        chk.fail("correspondence:angleMod", "corr:angleMod:run", "angleMod correspondence did not run / a branch was never hit",
                 {"hits": hits, "tail": res[-500:]}, False)


def anglemod_float_all(chk, corr):
    """T = float: every bit pattern (thorough) / every 61st with a seed-dependent offset (quick), on the C++ side only: |r| <= float(M_PI) and
    r = x modulo 2 float(M_PI), both EXACT (see harness/corr/c11_corr.cpp)."""
    stride = 1 if chk.thorough else 61
    offset = 0 if chk.thorough else chk.seed % 61
    nth = max(2, min(12, lib.NCPU))
    rc, out = lib.sh([corr, "anglemod-float-all", str(stride), str(offset), str(nth)], timeout=3000)
    m = re.search(r"AMALL evals=(\d+) nonfinite=(\d+) failures=(\d+) no_wrap=(\d+) plus_2pi=(\d+) minus_2pi=(\d+) result_at_pm_pi=(\d+)", out)
    expect = (2 ** 32 - 2 ** 25 + 2) if chk.thorough else 0   # finite floats: all patterns minus the 2^24 inf/NaN patterns of each sign
    ok = rc == 0 and m is not None and int(m.group(3)) == 0 and int(m.group(4)) > 0 and int(m.group(5)) > 0 and int(m.group(6)) > 0 \
        and int(m.group(7)) > 0 and (not chk.thorough or int(m.group(1)) >= expect)
    chk.oblige("correspondence: Euler<float>::angleMod on %s float bit patterns + the neighbours of k*pi_f, |k| <= 4096: |result| <= float(M_PI) "
               "exactly and result = argument modulo 2*float(M_PI) exactly; every wrap branch and a result of exactly +-pi_f hit"
               % ("ALL 2^32" if chk.thorough else "every 61st of the 2^32 (offset = seed mod 61)"), "correspondence", ok)
    if m:
        chk.count(int(m.group(1)), int(m.group(1)))
        chk.extra["angleMod_float_exhaustive"] = {"stride": stride, "offset": offset, "finite_arguments": int(m.group(1)), "nonfinite_skipped": int(m.group(2)),
                                                  "no_wrap": int(m.group(4)), "plus_2pi": int(m.group(5)), "minus_2pi": int(m.group(6)),
                                                  "results_exactly_pm_pi_f": int(m.group(7)), "exhaustive": bool(chk.thorough)}
    for l in [l for l in out.split("\n") if l.startswith("AMALL-FAIL")][:3]:
        chk.fail("correspondence:angleMod-float", "corr:angleMod:float-all",
                 "Euler<float>::angleMod returns a value outside [-float(M_PI), float(M_PI)] or not congruent to its argument modulo 2*float(M_PI)",
                 {"line": l, "replay_cmd": ".build/bin/c11_corr anglemod-float-all %d %d 4" % (stride, offset)}, True)
    if not ok and "AMALL-FAIL" not in out:
        chk.fail("correspondence:angleMod-float", "corr:angleMod:float-all:run", "the exhaustive float sweep did not run / a branch was never hit",
                 {"tail": out[-500:]}, False)


def lean_tv_coverage(chk, binary, index_tv):
    """Which entries the Lean-side validation of the emitted text actually reaches.  `rattv` prints no case for an entry whose evaluation
    overflows the 128-bit fractions; lean_tv counts only RATSKIP lines, so such entries would drop out silently.  Expected on the clean
    tree: exactly the 96 entries that add the literal M_PI = 884279719003555/281474976710656 (nearestRotation_*, makeNear_*,
    makeNearFromXYZ_*, makeNearFromZYXr_*: sums of squares with 2^96 denominators) and the 4 extractEuler* entries (external `length`)
    have no case; every other entry with inputs has at least one.  Those 100 are validated bitwise at double on the C++ side (tv) only."""
    cmd = [binary, "rattv", str(chk.seed), "4" if chk.thorough else "2", "--idx", LEAF_IDX]
    rc, out = lib.sh(cmd, timeout=900)
    have = set(m.group(1) for m in re.finditer(r"^RATCASE (\S+) ", out, re.M))
    names = [d["name"] for d in index_tv]
    def expected_uncovered(n):
        return bool(re.match(r"Euler\.(nearestRotation|makeNear|makeNearFromXYZ|makeNearFromZYXr)_[XYZ]{3}r?$", n)) or \
            n in ("Euler.extractEulerXYZ", "Euler.extractEulerZYX", "Euler.extractEuler22", "Euler.extractEuler33")
    silent = sorted(n for n in names if n not in have and not expected_uncovered(n))
    newly = sorted(n for n in names if n in have and expected_uncovered(n))
    uncovered = sorted(n for n in names if n not in have)
    ok = rc == 0 and not silent and len(names) - len(uncovered) >= 417
    chk.oblige("lean-tv coverage: every extracted entry with inputs has a Lean-side case for its emitted text, EXCEPT exactly the %d named "
               "M_PI-literal entries (128-bit fraction overflow) and the 4 extractEuler* entries (external length), which are validated "
               "bitwise at double on the C++ side only" % (len([n for n in names if expected_uncovered(n)]) - 4), "coverage", ok,
               None if ok else {"entries_without_case_unexpectedly": silent[:20]})
    chk.extra["lean_tv_coverage"] = {"entries_with_inputs": len(names), "with_case": len(names) - len(uncovered), "without_case": len(uncovered),
                                     "without_case_expected_classes": {"M_PI literal (nearestRotation/makeNear*/makeNearFrom*)": sum(1 for n in uncovered if "Near" in n or "nearest" in n),
                                                                       "external length (extractEuler*)": sum(1 for n in uncovered if "extractEuler" in n)},
                                     "expected_uncovered_but_covered_now": newly[:10]}
    if not ok:
        chk.fail("lean-tv-coverage", "lean-tv:c11:coverage", "entries dropped out of the Lean-side validation of the emitted text without being listed",
                 {"entries": silent[:20]}, False)


def anglemod_double_sweep(chk, corr):
    """T = double, C++ side, no Lean driver: k*M_PI and k*2*M_PI +- 0..8 ulps for |k| <= kmax plus random doubles; exact range
    |r| <= float(M_PI) and r within HALF a float ulp of a value exactly congruent to x modulo 2*M_PI (the model comparison tolerates a whole ulp)."""
    n, kmax = (10000000, 1048576) if chk.thorough else (1000000, 65536)
    rc, out = lib.sh([corr, "anglemod-double-sweep", str(chk.seed), str(n), str(kmax)], timeout=3000)
    m = re.search(r"AMDBL evals=(\d+) failures=(\d+) no_wrap=(\d+) plus_2pi=(\d+) minus_2pi=(\d+) result_at_pm_pi_f=(\d+) result_above_double_pi=(\d+) worst_over_half_ulp=(\S+)", out)
    ok = rc == 0 and m is not None and int(m.group(2)) == 0 and all(int(m.group(i)) > 0 for i in (3, 4, 5, 6)) and int(m.group(1)) >= n + 34 * kmax
    chk.oblige("correspondence: Euler<double>::angleMod on k*M_PI, k*2*M_PI +- 0..8 ulps (|k| <= %d) and %d random doubles: |result| <= float(M_PI) "
               "exactly; result within half a float ulp of an exact representative of the argument modulo 2*M_PI; every wrap branch and a "
               "result of exactly +-float(M_PI) hit" % (kmax, n), "correspondence", ok)
    if m:
        chk.count(int(m.group(1)), int(m.group(1)))
        chk.extra["angleMod_double_sweep"] = {"arguments": int(m.group(1)), "no_wrap": int(m.group(3)), "plus_2pi": int(m.group(4)), "minus_2pi": int(m.group(5)),
                                              "results_exactly_pm_float_pi": int(m.group(6)), "results_above_the_double_M_PI": int(m.group(7)),
                                              "worst_offset_over_half_float_ulp": float(m.group(8))}
    for l in [l for l in out.split("\n") if l.startswith("AMDBL-FAIL")][:3]:
        chk.fail("correspondence:angleMod-double", "corr:angleMod:double-sweep",
                 "Euler<double>::angleMod returns a float outside [-float(M_PI), float(M_PI)] or more than half a float ulp away from every "
                 "value congruent to its argument modulo 2*M_PI", {"line": l, "replay_cmd": ".build/bin/c11_corr anglemod-double-sweep %d %d %d" % (chk.seed, n, kmax)}, True)
    if not ok and "AMDBL-FAIL" not in out:
        chk.fail("correspondence:angleMod-double", "corr:angleMod:double-sweep:run", "the double sweep did not run / a branch was never hit", {"tail": out[-500:]}, False)


def tables_unchanged(chk):
    """Lemmas/C11Tables.lean (the dispatch `Ord.X => Gen.Euler.<member>_X`) must be exactly what tools/scaffold/c11_tables.py prints:
    no hand-edited row can pair an order with another order's definition."""
    rc, out = lib.sh(["python3", os.path.join(lib.VERIF, "tools", "scaffold", "c11_tables.py")], timeout=120)
    cur = open(os.path.join(lib.LEAN, "ImathVerif", "Lemmas", "C11Tables.lean")).read()
    rows = re.findall(r"\| \.(\w+) => Gen\.Euler\.\w+?_([XYZ]{3}r?)\b", cur)
    wrong = [r for r in rows if r[0] != r[1]]
    ok = rc == 0 and out == cur and not wrong and len(rows) >= 24 * 24
    chk.oblige("tables:unchanged: Lemmas/C11Tables.lean = output of tools/scaffold/c11_tables.py; every one of its %d dispatch rows names the "
               "definition of its own order" % len(rows), "audit", ok, None if ok else {"rows_with_wrong_order": wrong[:5], "generator_rc": rc})
    if not ok:
        chk.fail("tables:unchanged", "tables:c11", "the per-order dispatch tables differ from their generator (or a row names another order's definition)",
                 {"rows_with_wrong_order": wrong[:5]}, False)


def run(chk):
    chk.trusted = ["Lean 4.33 kernel; axioms propext/Classical.choice/Quot.sound at most",
                   "Mathlib: Matrix.mul/det/transpose, Real.sin/cos/sqrt, Complex.arg, Int.floor",
                   "translator harness/sym (validated each run by TV bitwise at double/float and by Lean-side evaluation at Rat); tools/gen_euler.py",
                   "g++ -O1 -ffp-contract=off, glibc libm; long double evaluation as the oracle of the measured residue"]
    chk.assumptions = [
        "sin/cos/sqrt/atan2 are parameters of the theorems with explicit hypotheses (each shown to hold for the real functions)",
        "rounding is NOT proved: measured (builders vs spec, round trips, single-precision claims)",
        "toMatrix33(extract M) = M is PROVED for every rotation matrix M and all 24 orders, gimbal lock included (Props/C11Round.lean: any "
        "ordered field, sqrt/sin/cos/atan2 with SqrtOK/TrigSpec, nothing asked of atan2(0,0)); hence surjectivity and that the re-ordering "
        "constructor preserves the rotation (extracted pairs: XYZ -> each order, each order -> ZYXr). That the ANGLES are reproduced "
        "(extract(toMatrix a) = a) is proved on the OPEN principal box only (it is false outside). In floating point the 1e-k "
        "neighbourhoods of gimbal lock are measured",
        "'within pi of the target': theorems for ANY bound on |angleMod| (makeNear_within ...); the bound that holds for the real float-returning "
        "angleMod is float(M_PI) > M_PI: exhaustive over all finite float arguments for T = float (thorough tier; every 61st in the quick tier), "
        "structured + random sweep for T = double (exact range, congruence to half a float ulp); what these sweeps check is range and "
        "congruence, which fix the result up to the choice between +pi and -pi at the boundary (either satisfies the property); equality with "
        "the exact model is the sampled Lean-driver correspondence (tolerance one float ulp)",
        "legal() accepts 32 of the 2^16 patterns: the 24 enumerators and the 8 patterns 0x3*** with both axis bits set, which setOrder stores "
        "exactly like the Z-axis enumerator 0x2*** (theorems legal_iff, legal_aliases_behave); the property quantifies over the 24 enumerators",
        "Lean-side validation of the emitted text has no case for the 96 entries with the M_PI literal (fraction overflow) and the 4 extractEuler* "
        "entries: obliged by name (lean-tv coverage); those are validated bitwise at double on the C++ side only",
        "makeNear with a target of another order: extracted for targets of order XYZ and ZYXr x all 24 orders of *this (the branch is order-agnostic)",
        "extractEulerXYZ/ZYX/extractEuler: identified with the member extract on the ROW-NORMALISED matrix for every input, scale invariance "
        "proved for positive per-row factors; negative / zero factors are outside the property",
        "nearestRotation adds the double M_PI, not pi: the rotation-preservation theorems assume sin/cos have half period M_PI "
        "(|M_PI - pi| = 1.2e-16 is part of the measured residue)",
        "casting an arbitrary 16-bit pattern to the unscoped enum Euler<T>::Order (order correspondence) relies on g++ treating the enum as int",
    ]
    chk.rule = ("theorems: all 24 orders x all angle triples / matrices over any field. correspondence: all 2^16 order bit patterns (exhaustive); "
                "angleMod on k*pi, k*2pi +- 0..8 ulps, graded magnitudes, random periods (double and float) vs the Lean model; T = float additionally on "
                "every 61st / all 2^32 bit patterns (C++ side, exact range and congruence). residue: 24 orders x angle triples "
                "over +-3 periods, middle angle exactly at and within 1e-1..1e-15 of gimbal lock (+-pi/2; 0 or pi for repeated axes), targets near / "
                "far / near the flipped triple for makeNear, target also given in a random other order; extract fed matrices not built by toMatrix33 "
                "(unit quaternions, 24 signed-permutation rotations, products of two builders of different orders, setAxisAngle); float and double")
    enum_translator(chk)
    bins = troute.build_extractors(chk, [dict(name="sym_leaf", source="sym/sym_leaf.cpp"),
                                         dict(name="sym_c11", source="sym/sym_c11.cpp"),
                                         dict(name="c11_residue", source="corr/c11_residue.cpp"),
                                         dict(name="c11_corr", source="corr/c11_corr.cpp")])
    n_res = 4000 if chk.thorough else 400
    res = run_residue(chk, bins["c11_residue"], n_res) if bins.get("c11_residue") else None

    if bins.get("sym_leaf") and bins.get("sym_c11"):
        troute.regenerate(chk, bins["sym_leaf"], "leaf")
        index, changed = troute.regenerate(chk, bins["sym_c11"], "c11", idx_deps=[LEAF_IDX])
        troute.tv(chk, bins["sym_c11"], "c11", 400 if chk.thorough else 64, idx_deps=[LEAF_IDX])
        # entries without scalar/aggregate inputs (angleOrder_*, angleMapping_*, order_*: integer constants with an unresolvable implicit
        # element type in a bare #eval) are validated by the `real_*_eq_model` theorems instead
        index_tv = [d for d in index if d.get("params")]
        troute.lean_tv(chk, bins["sym_c11"], "c11", index_tv, n=4 if chk.thorough else 2, idx_deps=[LEAF_IDX], param_stubs={"angleMod": ANGLEMOD_STUB})
        lean_tv_coverage(chk, bins["sym_c11"], index_tv)
        tables_unchanged(chk)

        def search(name):
            if not res:
                return None
            for sec in SECTIONS.get(name, []):
                for l in res[3]:
                    d = parse_fail(l)
                    if d.get("section") == sec:
                        d["key"] = "theorem:" + name
                        d["found_by"] = "harness/corr/c11_residue.cpp (real code vs independent long-double spec), seed %d" % chk.seed
                        d["replay_cmd"] = ".build/bin/c11_residue %d %d | grep %s" % (chk.seed, n_res, sec)
                        return d
            return None
        chk.check_theorems("ImathVerif.Props.C11", required=REQUIRED, search=search)
        chk.check_theorems("ImathVerif.Props.C11Round", required=REQUIRED_ROUND, search=search)
        for d in index[:3]:
            chk.sample({"entry": d["name"], "paths": d.get("paths")})
        chk.extra["per_order_entries"] = sum(1 for d in index if re.search(r"_[XYZ]{3}r?$", d["name"]))

    if res:
        residue(chk, *res)

    rc, out = lib.lake_build(["drv_euler"])
    chk.oblige("build:drv_euler", "build", rc == 0, None if rc == 0 else out[-800:])
    if rc != 0:
        chk.fail("build:drv_euler", "build:drv_euler", "model driver does not build", {"output": out[-3000:]}, False)
    elif bins.get("c11_corr"):
        order_correspondence(chk, bins["c11_corr"])
        anglemod_correspondence(chk, bins["c11_corr"], 60000 if chk.thorough else 6000)
    if bins.get("c11_corr"):
        anglemod_float_all(chk, bins["c11_corr"])
        anglemod_double_sweep(chk, bins["c11_corr"])

    if chk.thorough:
        chk.leanchecker("ImathVerif.Props.C11")
        chk.leanchecker("ImathVerif.Props.C11Round")
