"""C13 — Box / Interval are closed axis-aligned point sets; box transforms are tight.

T-route: Interval, Box<Vec2>, Box<Vec3> (unrolled specialisations), Box<Vec4> (the generic template) and
clip / closestPointInBox / closestPointOnBox are REGENERATED from the headers (harness/sym/ops_c13.h ->
lean/ImathVerif/Gen/C13{Box,Interval,Algo}.lean), validated (TV bitwise at float/double, Lean text at Rat),
and the theorems of lean/ImathVerif/Props/C13.lean are re-elaborated against them.

transform / affineTransform (four overloads = four textual copies of the Arvo loop nest, two of the corner enumeration):
(a) T-route, second extractor harness/sym/ops_c13t.h -> Gen/C13Transform.lean: each overload regenerated as a whole
(3,076 paths for each Arvo copy; the projective arm with extendBy / Vec3*Matrix44 as calls of the definitions of the first
extractor) and PROVED EQUAL to the hand model Model/BoxTransform.lean for every box and matrix (Props/C13Transform.lean);
(b) the hand model is in addition tied to the real code by harness/corr/c13_corr.cpp `transform` vs
lean/Driver/BoxTransform.lean on every case whose arithmetic is exact — at float, double AND the mixed element types
Box<Vec3<float>> x Matrix44<double>, Box<Vec3<double>> x Matrix44<float> (the overloads are `template <class S, class T>`).

Small-scope correspondence with the property's own quantifier (harness/corr/c13_corr.cpp `members`): EVERY
min/max pair over the integer lattice (incl. inverted) x every point (+ half steps for float types), element
types int/short/float/double, Interval + Box2 + Box3 + generic Box4, against the set semantics computed
independently by brute force; every extendBy sequence (points to length 3, points/boxes to length 2, sampled
mixed length 3); clip / closestPointOnBox against brute-force nearest points; random float/double boxes incl.
extremes; transforms on lattice/dyadic affine and projective matrices x boxes incl. empty and infinite against
the exact 8-corner bound, overload agreement for any old `result`, empty->empty, infinite->infinite; plus, deterministic
in every tier, ALL 16 zero/non-zero patterns of the last matrix column x 3 base matrices x 2 values each of c and k x
7 boxes x 4 overloads x 3 old results (each term of the affine test is the only failing one for some matrix), every
projective result compared bit for bit with the fresh eight-corner loop.

A law that the real code violates is reported as a VIOLATION with a stable key naming the call site.  The five laws
box-intersects:empty-vs-containing, interval-intersects:empty-vs-containing, transform-outparam:empty-input-leaves-result,
transform-outparam:infinite-input-leaves-result, transform-outparam:projective-extends-old-result were violated by the
original tree (repaired in /repo 955f533, 6dca912); they stay at full strength and fire again if a defect returns.  A sixth law,
box-intersects-point:nan-coordinate (every template copy must report a point with a NaN coordinate OUTSIDE: the generic Box<V>::intersects(point)
reported it inside while the Vec2/Vec3 specialisations and Interval did not), was violated until /repo f7a3ec4.

The `transform` harness also runs the mixed element types S != T, counts the evaluations of every law (obliged > 0), checks the image of
box points on the projective path when w > 0 at the corners, and prints informational WITNESS lines for the documented limitations
(w changing sign on the box; Box<Vec2<short>>::center() wrap-around)."""
import os, re
import lib, troute

MODULE = "ImathVerif.Props.C13"
MODULE_T = "ImathVerif.Props.C13Transform"
IMPORTS_T = ["ImathVerif.Gen.C13Transform", "ImathVerif.Model.BoxTransform", "ImathVerif.Lemmas.BoxTransformLemmas"]
# the four textual copies of the Arvo loop / two of the corner enumeration = the model, all boxes, all matrices
REQUIRED_T = ["Gen_affineTransform_eq", "Gen_transform_affine_eq", "Gen_transformOut_affine_eq", "Gen_affineTransformOut_eq",
              "Gen_transform_projective_eq", "Gen_transformOut_projective_eq", "transform_real", "transformOut_real",
              "real_four_arvo_copies_agree", "real_overloads_same_set", "real_affineTransform_tight", "real_affineTransform_contains",
              "real_transform_projective_tight", "real_transformOut_projective_eq", "real_affineTransform_empty",
              "real_affineTransformOut_empty", "real_affineTransform_infinite", "real_affineTransformOut_infinite"]
DRV = os.path.join(lib.LEAN, ".lake", "build", "bin", "drv_boxt")
IMPORTS = ["ImathVerif.Gen.C13Box", "ImathVerif.Gen.C13Interval", "ImathVerif.Gen.C13Algo", "ImathVerif.Lemmas.C13Algo",
           "ImathVerif.Lemmas.BoxTransformLemmas"]
OPENS = ["ImathVerif", "ImathVerif.C13", "ImathVerif.BoxTransform"]

SHAPES = ["Interval", "Box2", "Box3", "Box4"]
PER_SHAPE = ["default_contains_nothing", "makeEmpty_contains_nothing", "makeInfinite_contains_all", "intersectsPoint_iff",
             "intersectsBox_symm", "intersectsBox_of_common_point", "intersectsBox_iff_axes", "intersectsBox_iff", "intersectsBox_empty", "extendByPoint", "extendByBox", "extendByPoint_contains", "extendByBox_contains",
             "extendByPoint_least", "extendByBox_least", "extend_sequence_least", "extend_sequence_from", "isEmpty_iff",
             "hasVolume_iff", "isInfinite_iff", "eq_iff", "ne_iff", "size", "center", "center_mem"]
REQUIRED = ["%s_%s" % (s, n) for s in SHAPES for n in PER_SHAPE] + [
    "Box2_majorAxis", "Box3_majorAxis", "Box4_majorAxis",
    "Box3_generic_extendByPoint", "Box3_generic_extendByBox", "Box3_generic_intersectsPoint", "Box3_generic_intersectsBox",
    "Box3_generic_isEmpty", "Box3_generic_clip", "Box3_generic_size", "Box3_generic_majorAxis",
    "Box2_generic_extendByPoint", "Box2_generic_extendByBox", "Box2_generic_intersectsPoint", "Box2_generic_intersectsBox",
    "Box2_generic_isEmpty", "Box2_generic_clip",
    # audit W8: the remaining queries, generic template on extra axes = specialisation
    "Box3_generic_hasVolume", "Box3_generic_hasVolume_degenerate", "Box2_generic_hasVolume", "Box3_generic_isInfinite", "Box2_generic_isInfinite",
    "Box3_generic_eq", "Box3_generic_ne", "Box2_generic_eq", "Box2_generic_ne", "Box3_generic_makeEmpty", "Box3_generic_makeInfinite", "Box3_generic_default",
    "Box2_generic_makeEmpty", "Box2_generic_makeInfinite", "Box2_generic_default", "Box3_generic_center", "Box2_generic_center", "Box2_generic_size",
    "Box2_generic_majorAxis",
    # audit W6: integer center() with truncating division (unbounded Int)
    "Interval_center_int_mem", "Box2_center_int_mem", "Box3_center_int_mem", "Box4_center_int_mem", "center16_mem", "center16_outside",
    "Box2_clip_mem", "Box3_clip_mem", "Box4_clip_mem", "Box2_clip_fixed", "Box3_clip_fixed", "Box4_clip_fixed",
    "Box2_clip_nearest", "Box3_clip_nearest", "Box4_clip_nearest", "Box3_clip_nearest_euclid",
    "Box2_closestPointInBox", "Box3_closestPointInBox", "Box4_closestPointInBox",
    "Box3_closestPointOnBox_empty", "Box3_closestPointOnBox_onSurface", "Box3_closestPointOnBox_outside",
    "Box3_closestPointOnBox_nearest",
    "affineTransform_contains", "affineTransform_tight", "arvo_eq_eight_corner_loop", "transform_affine_eq_affineTransform",
    "transform_tight", "transform_contains", "affineTransformOut_eq", "affineTransformOut_same_set",
    "transformOut_eq", "four_overloads_agree", "four_overloads_equal", "transformOut_tight",
    # audit W1 / W3: range-relative projective theorems, containment on the projective path, necessity of w > 0
    "projective_spec", "transform_not_inverted", "transform_contains_of_pos_w", "transformOut_contains_of_pos_w",
    "wOf_pos_of_corners", "proj_axis_bounds", "wProj_range", "wPersp_range", "wPersp_pos",
    # audit r2 N1 / N7: w != 0 at the corners is a hypothesis of the tightness theorems; containment also for w < 0
    "wProj_w", "proj_axis_bounds_neg", "transform_contains_of_neg_w", "transformOut_contains_of_neg_w", "wPerspNeg_range", "wPerspNeg_neg",
    "transform_misses_point_when_w_changes_sign",
    "transform_empty", "transformOut_empty", "affineTransform_empty", "affineTransformOut_empty",
    "transform_infinite", "transformOut_infinite", "affineTransform_infinite", "affineTransformOut_infinite"]

# every law the harness can report (one obligation each), with the call site it names
LAW_KEYS = []
for cls in ("box", "interval"):
    LAW_KEYS += [cls + s for s in ("-intersects-point", "-isEmpty", "-hasVolume", "-isInfinite", "-size", "-center",
                                   "-default-contains", "-makeEmpty-contains", "-makeInfinite-misses", "-default-empty",
                                   "-equality", "-intersects:empty-vs-containing", "-intersects:nonempty-boxes",
                                   "-intersects:asymmetric", "-extendBy:not-least")]
LAW_KEYS += ["box-majorAxis", "box-intersects-point:random", "box-intersects-point:nan-coordinate", "clip:not-nearest", "clip:not-in-box",
             "closestPointInBox:differs-from-clip", "closestPointOnBox:empty-box-not-identity",
             "closestPointOnBox:not-on-surface", "closestPointOnBox:not-nearest",
             "transform:empty-input-not-empty", "transform:infinite-input-not-infinite",
             "affineTransform:empty-input-not-empty", "affineTransform:infinite-input-not-infinite",
             "transform:affine-not-8-corner-bound", "transform:projective-not-8-corner-bound",
             "affineTransform:differs-from-transform", "transform:image-of-box-point-outside",
             "transform-outparam:empty-input-leaves-result", "transform-outparam:infinite-input-leaves-result",
             "transform-outparam:affine-differs", "transform-outparam:projective-extends-old-result",
             "transform-overloads-differ:projective-with-w=0-corner",
             "affineTransform-outparam:empty-input", "affineTransform-outparam:infinite-input", "affineTransform-outparam:differs",
             "transform:overloads-differ-bitwise:affine-random", "transform:affine-residue"]
WHAT = {
    "box-intersects-point:nan-coordinate": "the GENERIC Box<V>::intersects(const V&) (ImathBox.h:258-266, `if (point[i] < min[i] || point[i] > max[i]) return false;`) reports a point "
                                           "with a NaN coordinate INSIDE the box, while the Vec2 / Vec3 specialisations and Interval (`point.x >= min.x && point.x <= max.x ...`) "
                                           "report it outside: the template copies do not behave identically, and no point with a NaN coordinate satisfies min <= p <= max",
    "box-intersects:empty-vs-containing": "Box<V>::intersects(const Box&) returns true for an empty (inverted) box against a box covering its min/max corners, "
                                          "although the empty box contains no point (ImathBox.h intersects(box): no isEmpty test)",
    "interval-intersects:empty-vs-containing": "Interval<T>::intersects(const Interval&) returns true for an empty (inverted) interval against one covering its ends",
    "transform-outparam:empty-input-leaves-result": "transform(box, m, result) returns without touching `result` when `box` is empty: the caller's old result is "
                                                    "reported as the transformed (empty) box (ImathBoxAlgo.h:197)",
    "transform-outparam:infinite-input-leaves-result": "transform(box, m, result) returns without touching `result` when `box` is infinite (ImathBoxAlgo.h:197)",
    "transform-outparam:projective-extends-old-result": "transform(box, m, result), projective path: `result.extendBy(points[i]*m)` extends the caller's OLD result "
                                                        "instead of a fresh empty box (ImathBoxAlgo.h:250-251)",
}


def run_harness(binary, args, timeout=1800):
    rc, out = lib.sh([binary] + [str(a) for a in args], timeout=timeout)
    sums, fails, counts, resid, tlines, evald = {}, {}, {}, {}, [], {}
    for l in out.split("\n"):
        if l.startswith("T "):
            tlines.append(l)
        elif l.startswith("SUMMARY "):
            m = re.match(r"SUMMARY (\S+) evals=(\d+) nontrivial=(\d+)", l)
            if m:
                sums[m.group(1)] = (int(m.group(2)), int(m.group(3)))
        elif l.startswith("FAIL "):
            key, _, det = l[5:].partition(" | ")
            fails.setdefault(key.strip(), []).append(det.strip())
        elif l.startswith("COUNT-EVAL "):
            ws = l.split()
            if len(ws) == 3:
                evald[ws[1]] = int(ws[2])
        elif l.startswith("COUNT "):
            ws = l.split()
            if len(ws) == 3 and ws[1] in LAW_KEYS:
                counts[ws[1]] = int(ws[2])
        elif l.startswith("RESIDUE "):
            m = re.match(r"RESIDUE (\S+) worst_err_over_u_sumabs=([\d.]+) bound=(\d+)", l)
            if m:
                resid[m.group(1)] = {"worst_error_in_units_of_u_times_sum_abs_terms": float(m.group(2)), "bound": int(m.group(3))}
    done = "DONE fails=" in out
    return rc == 0 and done, sums, fails, counts, resid, tlines, out, evald


def report_laws(chk, mode, cmdline, ok, sums, fails, counts, keys_of_mode):
    chk.oblige("corr:%s:harness-ran" % mode, "correspondence", ok)
    if not ok:
        chk.fail("corr:%s" % mode, "harness:%s:run" % mode, "the correspondence harness did not run to completion", {"cmd": cmdline}, False)
        return
    ev = sum(v[0] for v in sums.values())
    nt = sum(v[1] for v in sums.values())
    chk.count(ev, nt)
    chk.extra.setdefault("harness", {})[mode] = {"cmd": cmdline, "evaluations": ev, "nontrivial": nt,
                                                "per_test": {k: {"evals": v[0], "nontrivial": v[1]} for k, v in sorted(sums.items())},
                                                "violated_laws": {k: counts.get(k, len(v)) for k, v in fails.items()}}
    for key in keys_of_mode:
        bad = key in fails
        chk.oblige("law:%s:%s" % (mode, key), "correspondence", not bad, None if not bad else {"count": counts.get(key, len(fails[key]))})
    for key, dets in fails.items():
        if key not in keys_of_mode:
            chk.oblige("law:%s:%s" % (mode, key), "correspondence", False)
        what = WHAT.get(key, "the real code violates the law '%s' of the property" % key)
        chk.fail("law:%s:%s" % (mode, key), key, what + " — e.g. " + dets[0][:400],
                 {"law": key, "first_failing_inputs": dets[:3], "failing_cases_in_this_run": counts.get(key, len(dets)),
                  "replay_cmd": cmdline + "   # prints FAIL %s lines" % key}, True)


MEMBER_KEYS = [k for k in LAW_KEYS if not k.startswith(("transform", "affineTransform")) and k not in ("box-intersects-point:random", "box-intersects-point:nan-coordinate", "clip:not-in-box")]
RANDOM_KEYS = ["box-intersects-point:random", "box-intersects-point:nan-coordinate", "box-intersects:empty-vs-containing", "box-intersects:nonempty-boxes", "box-intersects:asymmetric",
               "box-isEmpty", "box-hasVolume", "box-extendBy:not-least", "clip:not-in-box", "clip:not-nearest"]
TRANSFORM_KEYS = [k for k in LAW_KEYS if k.startswith(("transform", "affineTransform"))]

# which harness laws are the executable form of a theorem (used to find a failing input when a theorem stops checking)
THEOREM_LAWS = [("intersectsPoint", ["-intersects-point"]), ("intersectsBox", ["-intersects:nonempty-boxes", "-intersects:asymmetric", "-intersects:"]),
                ("extend", ["-extendBy:not-least"]), ("isEmpty", ["-isEmpty"]), ("hasVolume", ["-hasVolume"]), ("isInfinite", ["-isInfinite", "makeInfinite"]),
                ("makeInfinite", ["makeInfinite"]), ("makeEmpty", ["-makeEmpty", "-default"]), ("default", ["-default"]),
                ("size", ["-size"]), ("center", ["-center"]), ("majorAxis", ["majorAxis"]), ("eq_iff", ["-equality"]), ("ne_iff", ["-equality"]),
                ("closestPointOnBox", ["closestPointOnBox"]), ("closestPointInBox", ["closestPointInBox", "clip"]), ("clip", ["clip"]),
                ("transformOut", ["transform-outparam"]), ("affineTransformOut", ["affineTransform-outparam"]),
                ("arvo", ["transform:affine", "affineTransform"]), ("affineTransform", ["affineTransform", "transform:affine"]),
                ("transform", ["transform"])]


def run(chk):
    chk.trusted = ["Lean 4.33 kernel; axioms propext/Classical.choice/Quot.sound at most",
                   "translator harness/sym (T = Sym path extraction), validated each run by TV (bitwise at float/double) and by evaluating the emitted Lean text at Rat",
                   "hand model Model/BoxTransform.lean of the four transform overloads: no longer trusted on its own — Props/C13Transform.lean proves it equal to the "
                   "four overloads as regenerated from ImathBoxAlgo.h (Gen/C13Transform.lean, second extractor harness/sym/ops_c13t.h; its *_affine entries overwrite the "
                   "matrix's last column with the literals (0,0,0,1) and its *_projective entries return the box unchanged when the matrix passes the affine test — both "
                   "stated in the theorems); the exact correspondence of the model with the real code (4 element-type pairs) is kept as a second, independent tie",
                   "Spec/BoxSpec.lean: a box denotes {p | min <= p <= max on every axis}",
                   "the independent set semantics of harness/corr/c13_corr.cpp (integer arithmetic, brute force over lattice points)"]
    chk.assumptions = ["order-theoretic theorems hold over any linear order (all element types); size over ordered additive groups; center / transforms over an "
                       "ordered field: rounding of float + * / is not modelled (measured: affine transform residue <= 8 u sum|terms|)",
                       "INTEGER center() / size(): the theorems are over an ordered field / ordered group; truncation of (max+min)/2 and overflow of max+min, max-min are covered "
                       "on the small lattice only (translator validation at int/short/int64/uchar/half confirms the same template runs; Interval<short>::center() is validated at the "
                       "five arithmetic-closed types because C++ promotes short operands to int); 16-bit centre: center16_mem / center16_outside (inside iff max+min fits in 16 bits, "
                       "for sums overflowing upwards); makeInfinite().size() = max - lowest overflows (undefined behaviour for int) — not claimed",
                       "type bounds: members: hypotheses tlowest < tmax and (forall x, tlowest <= x <= tmax) — a bounded linear order (the finite values of the element type); IEEE "
                       "infinities / NaN lie outside (makeInfinite() does not contain +-inf; NaN is not an element of a LinearOrder — for NaN only the harness law "
                       "box-intersects-point:nan-coordinate is claimed: all template copies report a point with a NaN coordinate outside, since /repo f7a3ec4). "
                       "transforms (ordered field, where no such bound exists): the RANGE-RELATIVE hypothesis that the eight corner images lie within [tlowest, tmax]",
                       "projective path: a corner ON the plane w = 0 has no image; the tightness theorems carry the hypothesis w != 0 at the eight corners (without it they would "
                       "hold through Lean's x/0 = 0), the harness compares such cases for overload agreement only and records what the real code does (division by zero: +-inf "
                       "enters the bound, 0/0 = NaN is ignored by extendBy) as a WITNESS line — outside the claim",
                       "projective path: 'contains the image of every point of the box' is proved when w has ONE sign at the eight corners (transform_contains_of_pos_w / _of_neg_w) "
                       "and is FALSE when w changes sign on the box (transform_misses_point_when_w_changes_sign, replayed on the real code as a WITNESS line): a limitation of "
                       "the property's wording, not a defect",
                       "containment and tightness are exact-arithmetic statements: with float rounding the Arvo sums can land an ulp inside the exact bound, so the ROUNDED image of a "
                       "box point may lie outside the returned box by the measured residue; the laws transform:image-of-box-point-outside run on arithmetic-exact cases only",
                       "element types: all theorems about the transforms are at S = T in exact arithmetic; S != T and the placement of the casts (S) m[j][i] are run (exact cases, "
                       "bitwise agreement of the four overloads on random floats) and measured (residue, drift ceiling 5 u), not proved; IEEE infinities as box coordinates "
                       "(Box3f(-inf, +inf) is not isInfinite(); 0 * inf = NaN in the Arvo sums) are outside the model and not generated in transform mode",
                       "extendBy is least for API-reachable boxes (non-inverted or the canonical empty box); a user-stored inverted min/max pair is treated as data "
                       "(Interval_extendByPoint_inverted_not_least)"]
    chk.rule = ("members: every (min,max) pair over {-1,0,1,2}^D incl. inverted (D=4: {0,1,2}) x every lattice point (+ half steps for float/double; one step beyond for "
                "int/short), all pairs of boxes, all point sequences to length 3 and point/box sequences to length 2 + sampled mixed length 3 (VERIF_SEED); "
                "non-trivial = points inside / intersecting pairs / non-empty results / points outside the box. transform: lattice and dyadic matrices (sparse, affine, "
                "constant-w and general projective) x boxes incl. inverted, makeEmpty, makeInfinite x three old values of `result`; non-trivial = cases compared with the exact 8-corner bound. "
                "`exhaustive` refers to the members mode (the property's small-lattice quantifier); the transforms are decided by theorem about the extracted overloads, the harness samples them")
    bins = troute.build_extractors(chk, [dict(name="sym_c13", source="sym/sym_c13.cpp", half=True), dict(name="sym_c13t", source="sym/sym_c13t.cpp")])
    okc, corr, oc = lib.cxx_build("c13_corr", ["corr/c13_corr.cpp"])
    chk.oblige("build:c13_corr", "build", okc, None if okc else oc[-1500:])
    if not okc:
        chk.fail("build:c13_corr", "build:c13_corr", "the correspondence harness does not compile against the current tree",
                 {"compiler_errors": [l for l in oc.split("\n") if "error" in l][:12]}, False)
    index = []
    if bins.get("sym_c13"):
        index, changed = troute.regenerate(chk, bins["sym_c13"], "c13")
        troute.tv(chk, bins["sym_c13"], "c13", 400 if chk.thorough else 64)
        troute.lean_tv(chk, bins["sym_c13"], "c13", index, n=8 if chk.thorough else 3)
        for d in index:
            if d["name"] in ("Box4.extendByPoint", "Box4.extendByBox", "Box3.closestPointOnBox", "Box3.clip", "Box4.clip", "Box3.intersectsBox"):
                chk.sample({"entry": d["name"], "paths": d.get("paths")})
        # audit W5: the members are validated at all seven element types
        pt = chk.extra.get("tv", {}).get("c13", {}).get("per_type", {})
        chk.oblige("tv:c13: element types double,float,half,int,short,int64,uchar all evaluated", "coverage",
                   all(int(pt.get(t, 0)) > 0 for t in ("double", "float", "half", "int", "short", "int64", "uchar")), pt)
    # second extractor: the four transform / affineTransform overloads as wholes (audit W2)
    c13_idx = os.path.join(troute.GEN, "index_c13.txt")
    index_t = []
    if bins.get("sym_c13t") and bins.get("sym_c13"):
        index_t, changed_t = troute.regenerate(chk, bins["sym_c13t"], "c13t", idx_deps=[c13_idx])
        # random boxes are inverted 7 times out of 8 (early return), hence the large n: ~500 of the 512 orders of (a < b) are hit per copy
        troute.tv(chk, bins["sym_c13t"], "c13t", 100000 if chk.thorough else 20000, idx_deps=[c13_idx])
        troute.lean_tv(chk, bins["sym_c13t"], "c13t", index_t, n=8 if chk.thorough else 3, idx_deps=[c13_idx])
        for d in index_t:
            chk.sample({"entry": d["name"], "paths": d.get("paths")})
        want = {"BoxAlgo.transform_affine": 3076, "BoxAlgo.transformOut_affine": 3076, "BoxAlgo.affineTransform": 3076, "BoxAlgo.affineTransformOut": 3076,
                "BoxAlgo.transform_projective": 41, "BoxAlgo.transformOut_projective": 41}
        got = {d["name"]: int(d.get("paths", 0)) for d in index_t}
        chk.oblige("extract:c13t: all six whole-overload entries present", "coverage", set(want) <= set(got), sorted(set(want) - set(got)) or None)
        chk.extra["c13t_paths"] = got
        # audit r2 N4: the path counts are part of the claim ("3,076 paths per textual copy": 3 empty + 1 infinite + 6 x 2^9; 41 = 1 + 4 x 10): a change of the
        # guard structure that the proof skeleton happens to absorb must still be noticed
        okp = got == want
        chk.oblige("extract:c13t: path counts are exactly 3076 x 4 (Arvo copies) and 41 x 2 (projective arms)", "coverage", okp, None if okp else {"expected": want, "got": got})
        if not okp:
            chk.fail("extract:c13t:path-counts", "extract:c13t:path-counts", "the control-flow shape of a transform overload changed: path counts differ from the pinned ones",
                     {"expected": want, "got": got}, False)
        # audit r2 N3: translator validation on STRUCTURED boxes (k leading coordinates at the type bounds, k = 0..6; inverted boxes; uniform sign patterns;
        # each term of the affine test failing first) so that (nearly) every leaf of the six trees is executed natively, real code vs tree bit for bit
        nb = 60000 if chk.thorough else 20000
        rcb, outb = lib.sh([bins["sym_c13t"], "tvbounds", str(chk.seed), str(nb), "--idx", c13_idx], timeout=1800)
        tvb = {m.group(1): tuple(int(x) for x in m.groups()[1:]) for m in re.finditer(r"TVB (\S+) evals=(\d+) fails=(\d+) leaves_hit=(\d+) paths=(\d+)", outb)}
        okb = rcb == 0 and "TVBDONE fails=0" in outb and set(tvb) == set(want)
        chk.oblige("tv:c13t:structured-boxes: extracted trees = real instantiations, bitwise (double, float)", "translation-validation", okb, None if okb else outb[-600:])
        chk.extra.setdefault("tv", {})["c13t_structured"] = {k: {"evaluations": v[0], "failures": v[1], "leaves_hit": v[2], "leaves_total": v[3]} for k, v in tvb.items()}
        chk.count(sum(v[0] for v in tvb.values()), sum(v[0] for v in tvb.values()))
        for l in [l for l in outb.split("\n") if l.startswith("TVFAIL")][:10]:
            mm = re.match(r"TVFAIL (\S+) (\S+) :: (.*?) :: in=(.*)", l)
            if mm:
                chk.fail("tv:c13t", "tv:%s:%s" % (mm.group(2), mm.group(1)), "extracted model of %s disagrees with the real instantiation at %s on a structured box" % (mm.group(2), mm.group(1)),
                         {"function": mm.group(2), "element_type": mm.group(1), "detail": mm.group(3), "input": mm.group(4).split()}, True)
        if not okb and "TVFAIL" not in outb:
            chk.fail("tv:c13t", "tv:c13t:structured", "structured translator validation did not run to completion", {"output": outb[-1500:]}, False)
        for fn, (ev_, fl_, hit_, tot_) in sorted(tvb.items()):
            floor = 3000 if tot_ > 1000 else 40
            chk.oblige("tv:c13t:leaf-floor:%s: at least %d of %d leaves executed natively" % (fn, floor, tot_), "coverage", hit_ >= floor, {"leaves_hit": hit_})

    mode_m = ["members", "thorough" if chk.thorough else "quick", chk.seed]
    members = run_harness(corr, mode_m, timeout=3600) if okc else None
    rnd = run_harness(corr, ["random", chk.seed, 2000000 if chk.thorough else 200000]) if okc else None
    trn = run_harness(corr, ["transform", chk.seed, 40000 if chk.thorough else 4000]) if okc else None

    def search(name):
        # 1. statements without hypotheses: evaluate at Rat with the regenerated definitions, replay on the real code
        try:
            rep = troute.lean_search(chk, MODULE, name, IMPORTS, OPENS, binary=bins.get("sym_c13"))
        except Exception:
            rep = None
        if rep:
            return rep
        # 2. the harness laws that are the executable form of this theorem (real code vs independent set semantics)
        pats = []
        for frag, ps in THEOREM_LAWS:
            if frag in name:
                pats = ps
                break
        for res, cmd in ((members, mode_m), (rnd, ["random"]), (trn, ["transform"])):
            if not res or not res[0]:
                continue
            fails = res[2]
            for p in pats:
                for key in sorted(fails):
                    if p in key:
                        return {"key": "theorem:" + name, "violated_law": key, "first_failing_inputs": fails[key][:3],
                                "replay_cmd": ".build/bin/c13_corr " + " ".join(str(a) for a in cmd)}
        return None

    ok_main, _ = chk.check_theorems(MODULE, required=REQUIRED, search=search)

    def search_t(name):
        # Gen_*_eq / *_real have no hypotheses: evaluate the statement at Rat with the regenerated overloads and the model
        try:
            rep = troute.lean_search(chk, MODULE_T, name, IMPORTS_T, OPENS, trials=160, binary=None)
        except Exception:
            rep = None
        if rep and bins.get("sym_c13t"):
            # replay on the real code at double: the entry's inputs are (b, m[, r]) — the theorem's leading (tmax, tlowest) are not inputs
            import re as _re
            stmt = rep.get("theorem_statement", "")
            fn = _re.search(r"Gen\.(BoxAlgo\.[A-Za-z_]+)", stmt)
            fi = rep.get("failing_input", {})
            nums = [x for k in ("b", "m", "r") if k in fi for x in troute._flat_numbers(fi[k])]
            if fn:
                entry = fn.group(1)
                want = 28 if "Out" in entry else 22
                rc2, out2 = lib.sh([bins["sym_c13t"], "real", entry] + ["%r" % x for x in nums[:want]] + ["--idx", c13_idx], timeout=120)
                rep["real_code_at_double"] = (out2.strip().split("\n") or [None])[-1]
                rep["replay_cmd"] = ".build/bin/sym_c13t real %s %s --idx lean/ImathVerif/Gen/index_c13.txt" % (entry, " ".join("%r" % x for x in nums[:want]))
            return rep
        if rep:
            return rep
        return search(name)

    # (if Props.C13 itself does not build, every theorem of the importing module is reported unchecked; no per-theorem search then)
    chk.check_theorems(MODULE_T, required=REQUIRED_T, search=search_t if ok_main else None)
    if chk.thorough:
        chk.leanchecker(MODULE)
        chk.leanchecker(MODULE_T)
    if not okc:
        return
    rel = os.path.relpath(corr, lib.VERIF)
    report_laws(chk, "members", "%s members %s %d" % (rel, mode_m[1], chk.seed), members[0], members[1], members[2], members[3], MEMBER_KEYS)
    report_laws(chk, "random", "%s random %d %d" % (rel, chk.seed, 2000000 if chk.thorough else 200000), rnd[0], rnd[1], rnd[2], rnd[3], RANDOM_KEYS)
    report_laws(chk, "transform", "%s transform %d %d" % (rel, chk.seed, 40000 if chk.thorough else 4000), trn[0], trn[1], trn[2], trn[3], TRANSFORM_KEYS)
    # audit W7: a law that is never evaluated cannot fail — every transform law must have been evaluated at least once
    ev = trn[7]
    chk.extra.setdefault("harness", {}).setdefault("transform", {})["evaluations_per_law"] = ev
    for key in TRANSFORM_KEYS + ["transform:image-of-box-point-outside:projective-w>0", "transform:image-of-box-point-outside:projective-w<0"]:
        chk.oblige("law-evaluated:transform:%s" % key, "coverage", ev.get(key, 0) > 0, {"evaluations": ev.get(key, 0)})
    # audit r2 N5: the same for the members and random modes (per-law COUNT-EVAL lines of the harness)
    for mode, res, keys in (("members", members, MEMBER_KEYS), ("random", rnd, RANDOM_KEYS)):
        evm = res[7]
        chk.extra.setdefault("harness", {}).setdefault(mode, {})["evaluations_per_law"] = evm
        for key in keys:
            chk.oblige("law-evaluated:%s:%s" % (mode, key), "coverage", evm.get(key, 0) > 0, {"evaluations": evm.get(key, 0)})
    # and every test of each mode must have reported (a harness edit / #if that drops a whole test)
    tests = {"members": ["points+queries:", "majorAxis:", "special+equality:", "box-pairs:", "extendBy-sequences:", "clip:", "closestPointOnBox:"], "random": ["random:", "nan-points:"],
             "transform": ["transform-last-column-sweep:", "transform-lattice:", "transform-random:"]}
    for mode, res in (("members", members), ("random", rnd), ("transform", trn)):
        names = sorted(res[1])
        for pre in tests[mode]:
            n = sum(1 for k in names if k.startswith(pre) and res[1][k][0] > 0)
            chk.oblige("harness-test-ran:%s:%s" % (mode, pre.rstrip(":")), "coverage", n > 0, {"summaries": n})
    mixed = {k: v for k, v in trn[1].items() if "xMatrix44<" in k}
    chk.oblige("corr:transform:mixed-element-types S != T run (float x double, double x float)", "coverage",
               sum(1 for k in mixed if k.startswith("transform-lattice:")) == 2 and all(v[0] > 0 for v in mixed.values()), sorted(mixed) or None)
    chk.exhaustive = True
    # the inputs that used to be counterexamples (repaired in /repo 955f533, 6dca912), replayed on the real code (informational)
    wit = [l[8:] for res in (members, trn) for l in res[6].split("\n") if l.startswith("WITNESS ")]
    chk.extra["former_counterexamples_replayed_on_the_real_code"] = wit
    for l in wit:
        if "<int>" in l and ("Box<Vec3>" in l or "Interval" in l) or "Box<Vec3<double>>" in l:
            chk.sample({"witness": l}, cap=16)
    for k, v in trn[4].items():
        chk.residues[k] = v
        # audit r2 N2: the bound of the property's wording (8 u) is 2x the clean-tree maximum (4.03 over seeds 1-5 at the thorough size); a cast moved inside a
        # product in ALL copies shows only here, so drift above 5.0 is reported under its own key
        okd = v["worst_error_in_units_of_u_times_sum_abs_terms"] <= 5.0
        chk.oblige("residue-drift:%s <= 5.0 u sum|terms| (clean-tree maximum 4.03)" % k, "residue", okd, v)
        if not okd:
            chk.fail("residue-drift:" + k, "residue-drift:" + k, "the rounding error of the affine transform path grew beyond the calibrated clean-tree level "
                     "(still inside the property's bound 8 u): a cast or the order of operations changed", dict(v, drift_ceiling=5.0), False)
    # H-route tie: model = real code on every arithmetic-exact case, all four overloads
    rc, out = lib.lake_build(["drv_boxt"])
    chk.oblige("build:drv_boxt", "build", rc == 0, None if rc == 0 else out[-800:])
    if rc != 0:
        chk.fail("build:drv_boxt", "build:drv_boxt", "the model driver does not build", {"output": out[-2000:]}, False)
        return
    rc, mo = lib.sh([DRV], stdin="\n".join(trn[5]) + "\n", timeout=1800)
    m = re.search(r"MODEL lines=(\d+) compared=(\d+) diffs=(\d+) ovl0=(\d+) ovl1=(\d+) ovl2=(\d+) ovl3=(\d+) empty=(\d+) infinite=(\d+) affine=(\d+) projective=(\d+) single0=(\d+) single1=(\d+) single2=(\d+) single3=(\d+)", mo)
    okm = rc == 0 and m is not None and int(m.group(3)) == 0 and int(m.group(2)) > 0
    chk.oblige("corr:transform:model=impl:all-four-overloads:exact-cases", "correspondence", okm, None if okm else mo[-600:])
    if m:
        g = [int(x) for x in m.groups()]
        chk.count(g[1], g[9] + g[10])
        chk.extra["transform_model_correspondence"] = dict(zip(
            ["lines", "compared_exactly", "diffs", "transform(box,m)", "transform(box,m,result)", "affineTransform(box,m)", "affineTransform(box,m,result)",
             "empty_inputs", "infinite_inputs", "affine_path", "projective_path", "only_m03_nonzero", "only_m13_nonzero", "only_m23_nonzero",
             "only_m33_not_1"], g))
        for k in range(4):
            chk.oblige("corr:transform:overload-hit:%d" % k, "coverage", g[3 + k] > 0, {"compared_lines": g[3 + k]})
        for need, nm in ((g[7], "empty"), (g[8], "infinite"), (g[9], "affine"), (g[10], "projective"),
                         (g[11], "affine-test-term-m[0][3]-alone-fails"), (g[12], "affine-test-term-m[1][3]-alone-fails"),
                         (g[13], "affine-test-term-m[2][3]-alone-fails"), (g[14], "affine-test-term-m[3][3]-alone-fails")):
            chk.oblige("corr:transform:branch-hit:" + nm, "coverage", need > 0)
    if not okm:
        diffs = [l for l in mo.split("\n") if l.startswith("DIFF")]
        if diffs:
            d = diffs[0]
            ovl = re.search(r"ovl=(\d)", d)
            line = d.split("line=")[-1]
            ws = line.split()
            chk.fail("corr:transform:model=impl", "transform-model-tie:overload%s" % (ovl.group(1) if ovl else "?"),
                     "the real code differs from the proven model of the transform overloads: " + d[:400],
                     {"diff": d[:1500], "mismatching_cases": len(diffs),
                      "model_cmd": "lean/.lake/build/bin/drv_boxt case %s %s %s" % (ws[1], ws[2], " ".join(ws[4:32])) if len(ws) > 32 else None}, True)
        else:
            chk.fail("corr:transform:model=impl", "transform-model-tie:run", "the model driver did not run", {"output": mo[-1500:]}, False)
