"""C02 — every half-conversion back-end and language mode returns identical bits.

Theorems (lean/ImathVerif/Props/C02.lean): the checked-in table (regenerated
from toFloat.h on every run) = the generator's function = the shift/rebias
path on all 2^16 patterns; the generator's renormalisation loop terminates
within the model's fuel.

Tie / exhaustive correspondence: harness/corr/half_corr.cpp is compiled from
/repo's CURRENT tree in every configuration {table (C++17), no-table, F16C,
C11, C11 no-table, C++14, C++17, C++20}; each binary reports which #if branch
it contains, and is compared with the Lean model over ALL 2^32 floats (65,536
block hashes, bisection on mismatch) and ALL 2^16 halves, through the C
functions and (C++) the half(float) constructor / operator float().  F16C:
NaN results are canonicalised to sign|quiet-NaN on both sides (payload is the
only tolerated difference).  The real generator program toFloat.cpp is built,
run, and its output compared with toFloat.h and with the model h2fGen."""
import os, re, time
from concurrent.futures import ThreadPoolExecutor
import lib, gen_half, halfcorr, halfspec

REQUIRED = ["table_eq_shift", "generator_eq_shift", "table_eq_generator", "h2f_backends_agree",
            "genNormalize_terminates", "genNormalize_fuel_adequate"]

HALF_CPP = os.path.join(lib.REPO, "src", "Imath", "half.cpp")


def std_flags(std, extra=()):
    f = lib.cxx_flags(extra)
    return [("-std=" + std) if x.startswith("-std=") else x for x in f]


def c_flags(extra=()):
    # the harness is a .cpp file compiled AS C: half.h then takes its C-only path
    f = [x for x in lib.cxx_flags(extra) if not x.startswith("-std=")]
    return ["-x", "c", "-std=c11"] + f


def build_table_object():
    """half.cpp (which owns imath_half_to_float_table) compiled as C++ to an object for the C configurations."""
    obj = os.path.join(lib.ensure_dir(os.path.join(lib.BUILD, "bin")), "c02_half_cpp.o")
    rc, o = lib.sh(["g++"] + lib.cxx_flags() + ["-c", HALF_CPP, "-o", obj], timeout=900)
    return rc == 0, obj, o


def configs(have_f16c, tbl_obj):
    H = "corr/half_corr.cpp"
    link_tbl = ["-x", "none", tbl_obj, "-lstdc++"]
    cs = [
        dict(name="table-cxx17", job=dict(sources=[H, HALF_CPP]), branch="table", lang="c++2017", apis=("c", "cxx"), canon=False),
        dict(name="notable", job=dict(sources=[H, HALF_CPP], extra=["-DIMATH_HALF_NO_LOOKUP_TABLE"]), branch="shift",
             lang="c++2017", apis=("c", "cxx"), canon=False),
        dict(name="c11", job=dict(sources=[H], compiler="gcc", lang_flags=c_flags(), libs=link_tbl), branch="table",
             lang="c2011", apis=("c",), canon=False),
        dict(name="c11-notable", job=dict(sources=[H], compiler="gcc", lang_flags=c_flags(["-DIMATH_HALF_NO_LOOKUP_TABLE"])),
             branch="shift", lang="c2011", apis=("c",), canon=False),
        dict(name="cxx14", job=dict(sources=[H, HALF_CPP], lang_flags=std_flags("c++14")), branch="table", lang="c++2014",
             apis=("c", "cxx"), canon=False),
        dict(name="cxx20", job=dict(sources=[H, HALF_CPP], lang_flags=std_flags("c++20")), branch="table", lang="c++2020",
             apis=("c", "cxx"), canon=False),
    ]
    if have_f16c:
        cs.insert(2, dict(name="f16c", job=dict(sources=[H, HALF_CPP], extra=["-mf16c"]), branch="f16c", lang="c++2017",
                          apis=("c", "cxx"), canon=True))
    return cs


def norm_table_text(t):
    """toFloat.h / generator output modulo comment lines and whitespace."""
    t = re.sub(r"//[^\n]*", "", t)
    return re.sub(r"\s+", "", t)


def check_generator(chk, ents):
    """Build and run the real generator toFloat.cpp; compare with toFloat.h and with the model h2fGen."""
    src = os.path.join(lib.REPO, "src", "Imath", "toFloat.cpp")
    ok, binary, o = lib.cxx_build("c02_toFloat", [src])
    chk.oblige("build:toFloat.cpp(generator program)", "build", ok, None if ok else o[-800:])
    if not ok:
        chk.fail("build:toFloat.cpp", "C02:generator:build", "the table generator toFloat.cpp does not compile",
                 {"compiler_output": o[-3000:]}, False)
        return
    rc, out = lib.sh([binary], timeout=300)
    gen = [int(e, 0) for e in re.findall(r"\{\s*(0[xX][0-9a-fA-F]+|\d+)\s*\}", re.sub(r"//[^\n]*", "", out))]
    hdr = open(os.path.join(lib.REPO, "src", "Imath", "toFloat.h")).read()
    same_text = rc == 0 and norm_table_text(out) == norm_table_text(hdr)
    same_ents = rc == 0 and gen == ents and len(gen) == 65536
    chk.oblige("generator-output = checked-in table (text modulo comments/whitespace)", "correspondence", same_text and same_ents)
    chk.count(65536, 65534)
    if not (same_text and same_ents):
        d = [i for i in range(min(len(gen), len(ents))) if gen[i] != ents[i]]
        rep = {"generator_entries": len(gen), "toFloat.h_entries": len(ents), "differing_entries": len(d), "generator_rc": rc}
        key = "C02:generator:table"
        if d:
            i = d[0]
            rep.update({"half_bits": "0x%04x" % i, "toFloat.cpp_prints": "0x%08x" % gen[i], "toFloat.h": "0x%08x" % ents[i],
                        "spec_exact": "0x%08x" % halfspec.spec_h2f(i),
                        "replay_cmd": "%s | tr -s ' ,' '\\n' | grep '{' | sed -n %dp   # vs entry %d of src/Imath/toFloat.h"
                                      % (os.path.relpath(binary, lib.VERIF), i + 1, i)})
            key += "[0x%04x]" % i
        elif len(gen) != len(ents):
            key += ":size"
        else:
            key += ":text"
            rep["note"] = "same entries but the text differs beyond comments/whitespace"
        chk.fail("generator-output = table", key, "toFloat.h is not what toFloat.cpp prints", rep, bool(d) or len(gen) != len(ents))
    # model h2fGen (Lean) against the real generator program: all 2^16 inputs
    rc2, mo = lib.sh([halfcorr.DRV, "gen_all"], timeout=600)
    mg = [int(x, 16) for x in mo.split()]
    okm = rc2 == 0 and rc == 0 and mg == gen
    chk.oblige("corr:generator-model h2fGen = toFloat.cpp output:all-2^16", "correspondence", okm)
    chk.count(65536, 65534)
    if not okm:
        d = [i for i in range(min(len(gen), len(mg))) if gen[i] != mg[i]]
        rep = {"differing": len(d), "model_lines": len(mg), "generator_entries": len(gen)}
        key = "C02:generator-model"
        if d:
            rep.update({"half_bits": "0x%04x" % d[0], "toFloat.cpp_prints": "0x%08x" % gen[d[0]], "model_h2fGen": "0x%08x" % mg[d[0]]})
            key += ":0x%04x" % d[0]
        chk.fail("corr:generator-model", key, "the Lean model of toFloat.cpp::halfToFloat differs from the real program", rep, bool(d))


def run(chk):
    chk.trusted = ["Lean 4.33 kernel (decide +kernel enumeration through allBits, no native_decide)",
                   "axioms: propext, Classical.choice, Quot.sound at most",
                   "hand models h2f / f2h / h2fGen in Model/Half.lean, tied by exhaustive correspondence in every configuration",
                   "regex translator tools/gen_half.py for toFloat.h",
                   "gcc/g++ 12 and the CPU executing the harnesses; FNV-1a 64-bit block hashes (a collision would hide a difference)"]
    chk.assumptions = ["the F16C instructions vcvtps2ph/vcvtph2ps of THIS CPU are what the f16c configuration measures; other CPUs are "
                       "assumed IEEE-conformant in the same way (not provable here, hence enumerated exhaustively rather than sampled)",
                       "NaN payloads on the F16C path are excluded from the comparison (sign and NaN-ness are compared)"]
    chk.rule = ("every configuration x every float bit pattern (65,536 blocks of 2^16, FNV hash per block, bisection to the first "
                "differing input on mismatch) and every half pattern, through imath_float_to_half/imath_half_to_float and, in C++, "
                "half(float)/operator float(); each binary self-reports the compiled #if branch; non-trivial = all but +-0")
    ents, changed = gen_half.regenerate()
    chk.extra["toFloat_entries"] = len(ents)

    def search(name):
        if name in ("table_eq_shift", "table_eq_generator", "h2f_backends_agree"):
            if len(ents) != 65536:
                return {"key": "C02:table-size", "entries": len(ents)}
            for h, e in enumerate(ents):
                sp = halfspec.spec_h2f(h)
                if e != sp:
                    return {"key": "C02:table[0x%04x]" % h, "half_bits": "0x%04x" % h, "toFloat.h": "0x%08x" % e,
                            "spec_exact": "0x%08x" % sp}
        return None

    okd, out = halfcorr.build_driver()
    chk.oblige("build:drv_half", "build", okd, None if okd else out[-800:])
    chk.check_theorems("ImathVerif.Props.C02", required=REQUIRED, search=search)
    if chk.thorough:
        chk.leanchecker("ImathVerif.Props.C02")
    if not okd:
        chk.fail("build:drv_half", "C02:build:drv_half", "the model driver does not build", {"output": out[-3000:]}, False)
        return

    have_f16c = "f16c" in open("/proc/cpuinfo").read().split("flags", 1)[-1].split("\n", 1)[0].split()
    chk.extra["cpu_has_f16c"] = have_f16c
    if not have_f16c:
        chk.oblige("config:f16c", "skipped", True, "this CPU has no F16C; the hardware configuration cannot be executed here")
        chk.extra["skipped_configurations"] = ["f16c (no CPU support)"]

    okt, tbl_obj, ot = build_table_object()
    chk.oblige("build:half.cpp as C++ object (table for the C configuration)", "build", okt, None if okt else ot[-800:])
    cfgs = configs(have_f16c, tbl_obj)
    t0 = time.time()
    pool = ThreadPoolExecutor(max_workers=3)
    need_canon = any(c["canon"] for c in cfgs)
    f_plain = pool.submit(halfcorr.model_f2h_blocks, False)          # model passes overlap the compilations
    res = lib.cxx_build_many([dict(c["job"], name="c02_" + c["name"]) for c in cfgs])
    model_plain = f_plain.result()
    model_canon = halfcorr.model_f2h_blocks(True) if need_canon else None
    h2f_plain = halfcorr.model_h2f_all(False)
    h2f_canon = halfcorr.model_h2f_all(True)
    chk.extra["model_pass_s"] = round(time.time() - t0, 1)
    okm = len(model_plain) == 65536 and len(h2f_plain) == 65536 and (model_canon is None or len(model_canon) == 65536)
    chk.oblige("model: 2^32 + 2^16 outputs produced", "build", okm)
    if not okm:
        chk.fail("model-run", "C02:model-run", "drv_half did not produce the model outputs", {}, False)
        return

    per_cfg = {}
    for c in cfgs:
        name = c["name"]
        ok, binary, o = res["c02_" + name]
        chk.oblige("build:half_corr[%s]" % name, "build", ok, None if ok else o[-800:])
        if not ok:
            chk.fail("build:" + name, "C02:build:" + name,
                     "half.h does not compile in configuration %s against the current tree" % name, {"compiler_output": o[-3000:]}, False)
            continue
        rc, rep = lib.sh([binary, "config"], timeout=60)
        rep = rep.strip()
        want = "branch=%s lang=%s" % (c["branch"], c["lang"])
        okb = rc == 0 and rep.startswith(want)
        chk.oblige("config:%s compiles the intended #if branch (%s)" % (name, want), "translator-validation", okb, rep)
        if not okb:
            chk.fail("config:" + name, "C02:config:" + name,
                     "configuration %s does not exercise the intended branch: %r, wanted %r" % (name, rep, want), {"reported": rep}, False)
            continue
        t1 = time.time()
        nb = halfcorr.compare_config(chk, name, binary, "C02", apis=c["apis"], canon=c["canon"],
                                     model_blocks=model_canon if c["canon"] else model_plain,
                                     model_h2f=h2f_canon if c["canon"] else h2f_plain)
        per_cfg[name] = {"reported": rep, "apis": list(c["apis"]), "nan_canonicalised": c["canon"], "mismatches": nb,
                         "seconds": round(time.time() - t1, 1)}
    chk.extra["configurations"] = per_cfg
    if have_f16c and "f16c" in per_cfg:
        # how much the tolerance actually hides: raw (non-canonicalised) F16C outputs against the model
        ok, binary, o = res["c02_f16c"]
        rc, out = lib.sh([binary, "f2h_blocks", "0", "65536", "c", "0"], timeout=1800)
        raw = out.split()
        nblk = sum(1 for a, b in zip(raw, model_plain) if a != b)
        rc, out = lib.sh([binary, "h2f_all", "c", "0"], timeout=600)
        rawh = [int(x, 16) for x in out.split()]
        dh = [h for h in range(min(len(rawh), 65536)) if rawh[h] != h2f_plain[h]]
        onlynan = all(halfspec.canon32(rawh[h]) == halfspec.canon32(h2f_plain[h]) and (h & 0x7c00) == 0x7c00 and (h & 0x3ff) for h in dh)
        chk.extra["f16c_payload_only_differences"] = {"f2h_blocks_differing_before_canonicalisation": nblk,
                                                      "h2f_inputs_differing_before_canonicalisation": len(dh),
                                                      "all_h2f_differences_are_NaN_inputs": onlynan}
        chk.oblige("f16c: raw h2f differs from software only on NaN inputs", "correspondence", onlynan)
        if not onlynan:
            bad = [h for h in dh if not ((h & 0x7c00) == 0x7c00 and (h & 0x3ff))]
            chk.fail("f16c-h2f-raw", "C02:h2f:f16c:0x%04x" % (bad[0] if bad else 0), "F16C half->float differs on a non-NaN input",
                     {"half_bits": "0x%04x" % (bad[0] if bad else 0)}, True)
    check_generator(chk, ents)
    chk.exhaustive = True
    chk.sample({"float_bits": "0x7f800001", "software": "0x%04x" % halfspec.spec_f2h(0x7f800001),
                "note": "signalling NaN: software keeps payload-or-1, F16C quiets it; compared as sign|0x7e00"})
    chk.sample({"float_bits": "0x387fe000", "spec_rne16": "0x%04x" % halfspec.spec_f2h(0x387fe000), "note": "largest-subnormal tie"})
    chk.sample({"half_bits": "0x0001", "spec_exact": "0x%08x" % halfspec.spec_h2f(1), "note": "table / clz path / generator loop (10 iterations)"})
