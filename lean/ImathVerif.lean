-- Root of the `ImathVerif` library: every property file is imported here so
-- that a plain `lake build` checks everything.
import ImathVerif.Props.C01
import ImathVerif.Props.C20
import ImathVerif.Props.C14
import ImathVerif.Props.C17
import ImathVerif.Props.C04
import ImathVerif.Props.C05
import ImathVerif.Props.C08
import ImathVerif.Props.C18
import ImathVerif.Props.C02
import ImathVerif.Props.C03
import ImathVerif.Props.C19
import ImathVerif.Props.C06
import ImathVerif.Props.C07
import ImathVerif.Props.C07GJ
import ImathVerif.Props.C07Algo
import ImathVerif.Props.C11
import ImathVerif.Props.C13
import ImathVerif.Props.C16
import ImathVerif.Props.C10
import ImathVerif.Props.C09
import ImathVerif.Props.C09Align
import ImathVerif.Props.C09Next
import ImathVerif.Props.C09Quat
import ImathVerif.Props.C15
import ImathVerif.Props.C12
import ImathVerif.Props.C12Recompose
