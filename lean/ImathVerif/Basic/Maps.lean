/-
Component-wise helpers for the aggregate structures: `map f a`, `zip f a b` and the
conjunction `All₂ p a b` over all slots.  Core Lean only.  (Written once by
tools/scaffold/gen_maps.py; static.)
-/
import ImathVerif.Basic.Types
namespace ImathVerif

def V2.map {α β : Type} (f : α → β) (a : V2 α) : V2 β :=
  ⟨f a.x, f a.y⟩
def V2.zip {α β γ : Type} (f : α → β → γ) (a : V2 α) (b : V2 β) : V2 γ :=
  ⟨f a.x b.x, f a.y b.y⟩
def V2.All₂ {α β : Type} (p : α → β → Prop) (a : V2 α) (b : V2 β) : Prop :=
  p a.x b.x ∧ p a.y b.y
def V2.const {α : Type} (s : α) : V2 α :=
  ⟨s, s⟩

def V3.map {α β : Type} (f : α → β) (a : V3 α) : V3 β :=
  ⟨f a.x, f a.y, f a.z⟩
def V3.zip {α β γ : Type} (f : α → β → γ) (a : V3 α) (b : V3 β) : V3 γ :=
  ⟨f a.x b.x, f a.y b.y, f a.z b.z⟩
def V3.All₂ {α β : Type} (p : α → β → Prop) (a : V3 α) (b : V3 β) : Prop :=
  p a.x b.x ∧ p a.y b.y ∧ p a.z b.z
def V3.const {α : Type} (s : α) : V3 α :=
  ⟨s, s, s⟩

def V4.map {α β : Type} (f : α → β) (a : V4 α) : V4 β :=
  ⟨f a.x, f a.y, f a.z, f a.w⟩
def V4.zip {α β γ : Type} (f : α → β → γ) (a : V4 α) (b : V4 β) : V4 γ :=
  ⟨f a.x b.x, f a.y b.y, f a.z b.z, f a.w b.w⟩
def V4.All₂ {α β : Type} (p : α → β → Prop) (a : V4 α) (b : V4 β) : Prop :=
  p a.x b.x ∧ p a.y b.y ∧ p a.z b.z ∧ p a.w b.w
def V4.const {α : Type} (s : α) : V4 α :=
  ⟨s, s, s, s⟩

def C4.map {α β : Type} (f : α → β) (a : C4 α) : C4 β :=
  ⟨f a.r, f a.g, f a.b, f a.a⟩
def C4.zip {α β γ : Type} (f : α → β → γ) (a : C4 α) (b : C4 β) : C4 γ :=
  ⟨f a.r b.r, f a.g b.g, f a.b b.b, f a.a b.a⟩
def C4.All₂ {α β : Type} (p : α → β → Prop) (a : C4 α) (b : C4 β) : Prop :=
  p a.r b.r ∧ p a.g b.g ∧ p a.b b.b ∧ p a.a b.a
def C4.const {α : Type} (s : α) : C4 α :=
  ⟨s, s, s, s⟩

def Shear6.map {α β : Type} (f : α → β) (a : Shear6 α) : Shear6 β :=
  ⟨f a.xy, f a.xz, f a.yz, f a.yx, f a.zx, f a.zy⟩
def Shear6.zip {α β γ : Type} (f : α → β → γ) (a : Shear6 α) (b : Shear6 β) : Shear6 γ :=
  ⟨f a.xy b.xy, f a.xz b.xz, f a.yz b.yz, f a.yx b.yx, f a.zx b.zx, f a.zy b.zy⟩
def Shear6.All₂ {α β : Type} (p : α → β → Prop) (a : Shear6 α) (b : Shear6 β) : Prop :=
  p a.xy b.xy ∧ p a.xz b.xz ∧ p a.yz b.yz ∧ p a.yx b.yx ∧ p a.zx b.zx ∧ p a.zy b.zy
def Shear6.const {α : Type} (s : α) : Shear6 α :=
  ⟨s, s, s, s, s, s⟩

def M22.map {α β : Type} (f : α → β) (a : M22 α) : M22 β :=
  ⟨f a.x00, f a.x01, f a.x10, f a.x11⟩
def M22.zip {α β γ : Type} (f : α → β → γ) (a : M22 α) (b : M22 β) : M22 γ :=
  ⟨f a.x00 b.x00, f a.x01 b.x01, f a.x10 b.x10, f a.x11 b.x11⟩
def M22.All₂ {α β : Type} (p : α → β → Prop) (a : M22 α) (b : M22 β) : Prop :=
  p a.x00 b.x00 ∧ p a.x01 b.x01 ∧ p a.x10 b.x10 ∧ p a.x11 b.x11
def M22.const {α : Type} (s : α) : M22 α :=
  ⟨s, s, s, s⟩

def M33.map {α β : Type} (f : α → β) (a : M33 α) : M33 β :=
  ⟨f a.x00, f a.x01, f a.x02, f a.x10, f a.x11, f a.x12, f a.x20, f a.x21, f a.x22⟩
def M33.zip {α β γ : Type} (f : α → β → γ) (a : M33 α) (b : M33 β) : M33 γ :=
  ⟨f a.x00 b.x00, f a.x01 b.x01, f a.x02 b.x02, f a.x10 b.x10, f a.x11 b.x11, f a.x12 b.x12, f a.x20 b.x20, f a.x21 b.x21, f a.x22 b.x22⟩
def M33.All₂ {α β : Type} (p : α → β → Prop) (a : M33 α) (b : M33 β) : Prop :=
  p a.x00 b.x00 ∧ p a.x01 b.x01 ∧ p a.x02 b.x02 ∧ p a.x10 b.x10 ∧ p a.x11 b.x11 ∧ p a.x12 b.x12 ∧ p a.x20 b.x20 ∧ p a.x21 b.x21 ∧ p a.x22 b.x22
def M33.const {α : Type} (s : α) : M33 α :=
  ⟨s, s, s, s, s, s, s, s, s⟩

def M44.map {α β : Type} (f : α → β) (a : M44 α) : M44 β :=
  ⟨f a.x00, f a.x01, f a.x02, f a.x03, f a.x10, f a.x11, f a.x12, f a.x13, f a.x20, f a.x21, f a.x22, f a.x23, f a.x30, f a.x31, f a.x32, f a.x33⟩
def M44.zip {α β γ : Type} (f : α → β → γ) (a : M44 α) (b : M44 β) : M44 γ :=
  ⟨f a.x00 b.x00, f a.x01 b.x01, f a.x02 b.x02, f a.x03 b.x03, f a.x10 b.x10, f a.x11 b.x11, f a.x12 b.x12, f a.x13 b.x13, f a.x20 b.x20, f a.x21 b.x21, f a.x22 b.x22, f a.x23 b.x23, f a.x30 b.x30, f a.x31 b.x31, f a.x32 b.x32, f a.x33 b.x33⟩
def M44.All₂ {α β : Type} (p : α → β → Prop) (a : M44 α) (b : M44 β) : Prop :=
  p a.x00 b.x00 ∧ p a.x01 b.x01 ∧ p a.x02 b.x02 ∧ p a.x03 b.x03 ∧ p a.x10 b.x10 ∧ p a.x11 b.x11 ∧ p a.x12 b.x12 ∧ p a.x13 b.x13 ∧ p a.x20 b.x20 ∧ p a.x21 b.x21 ∧ p a.x22 b.x22 ∧ p a.x23 b.x23 ∧ p a.x30 b.x30 ∧ p a.x31 b.x31 ∧ p a.x32 b.x32 ∧ p a.x33 b.x33
def M44.const {α : Type} (s : α) : M44 α :=
  ⟨s, s, s, s, s, s, s, s, s, s, s, s, s, s, s, s⟩

def Quat.map {α β : Type} (f : α → β) (a : Quat α) : Quat β := ⟨f a.r, a.v.map f⟩
def Quat.zip {α β γ : Type} (f : α → β → γ) (a : Quat α) (b : Quat β) : Quat γ := ⟨f a.r b.r, V3.zip f a.v b.v⟩

end ImathVerif
