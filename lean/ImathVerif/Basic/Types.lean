/-
Structures mirroring the Imath aggregates (members in declaration order,
matrices row-major) and the scalar helper operations used by the generated
models.  Core Lean only: these files are linked into drivers.
-/
namespace ImathVerif

structure V2 (α : Type) where
  x : α
  y : α
deriving Repr, DecidableEq

structure V3 (α : Type) where
  x : α
  y : α
  z : α
deriving Repr, DecidableEq

structure V4 (α : Type) where
  x : α
  y : α
  z : α
  w : α
deriving Repr, DecidableEq

structure C4 (α : Type) where
  r : α
  g : α
  b : α
  a : α
deriving Repr, DecidableEq

structure Shear6 (α : Type) where
  xy : α
  xz : α
  yz : α
  yx : α
  zx : α
  zy : α
deriving Repr, DecidableEq

structure M22 (α : Type) where
  x00 : α
  x01 : α
  x10 : α
  x11 : α
deriving Repr, DecidableEq

structure M33 (α : Type) where
  x00 : α
  x01 : α
  x02 : α
  x10 : α
  x11 : α
  x12 : α
  x20 : α
  x21 : α
  x22 : α
deriving Repr, DecidableEq

structure M44 (α : Type) where
  x00 : α
  x01 : α
  x02 : α
  x03 : α
  x10 : α
  x11 : α
  x12 : α
  x13 : α
  x20 : α
  x21 : α
  x22 : α
  x23 : α
  x30 : α
  x31 : α
  x32 : α
  x33 : α
deriving Repr, DecidableEq

structure Quat (α : Type) where
  r : α
  v : V3 α
deriving Repr, DecidableEq

structure Box2 (α : Type) where
  min : V2 α
  max : V2 α
deriving Repr, DecidableEq

structure Box3 (α : Type) where
  min : V3 α
  max : V3 α
deriving Repr, DecidableEq

structure Box4 (α : Type) where
  min : V4 α
  max : V4 α
deriving Repr, DecidableEq

structure Interval (α : Type) where
  min : α
  max : α
deriving Repr, DecidableEq

structure Line3 (α : Type) where
  pos : V3 α
  dir : V3 α
deriving Repr, DecidableEq

structure Plane3 (α : Type) where
  normal : V3 α
  distance : α
deriving Repr, DecidableEq

structure Sphere3 (α : Type) where
  center : V3 α
  radius : α
deriving Repr, DecidableEq

/-- a printed text as extracted from `operator<<`: literal pieces and element tokens
(`tok i w flags prec`: input slot `i` printed with field width `w`, `ios` flags and precision) -/
inductive Seg where
  | lit (s : List Char)
  | tok (i w flags prec : Nat)
deriving Repr, DecidableEq

/-- kinds of C++ standard exceptions thrown by the checked (`...Exc`) variants -/
inductive Exc where
  | domainError | invalidArgument | overflowError | underflowError | outOfRange
  | logicError | runtimeError | other
deriving Repr, DecidableEq

/-- `IMATH_INTERNAL_NAMESPACE::abs`: `(a > 0) ? a : -a` (also used for `std::abs`) -/
def sabs {α : Type} [LT α] [DecidableLT α] [Neg α] [OfNat α 0] (a : α) : α :=
  if (0 : α) < a then a else -a

/-- `std::min(a,b)`: `(b < a) ? b : a` -/
def smin {α : Type} [LT α] [DecidableLT α] (a b : α) : α := if b < a then b else a

/-- `std::max(a,b)`: `(a < b) ? b : a` -/
def smax {α : Type} [LT α] [DecidableLT α] (a b : α) : α := if a < b then b else a

/-- `IMATH_INTERNAL_NAMESPACE::clamp`: `(a < l) ? l : ((a > h) ? h : a)` -/
def sclamp {α : Type} [LT α] [DecidableLT α] (a l h : α) : α :=
  if a < l then l else if h < a then h else a

/-- `(x1 > x2) ? x1 - x2 : x2 - x1` (ImathMath.h equalWithAbsError / equalWithRelError) -/
def sabsdiff {α : Type} [LT α] [DecidableLT α] [Sub α] (a b : α) : α := if b < a then a - b else b - a

end ImathVerif
