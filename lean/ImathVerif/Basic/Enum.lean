/-
Finite enumeration inside the kernel.

`allBits k base p` checks `p (base + i)` for all `i < 2^k` by binary splitting
(depth `k`, so the kernel never recurses deeper than `k` frames), and
`allBits_spec` lifts a successful check to the universally quantified
statement.  Used with `decide +kernel`; adds no axioms.
-/
namespace ImathVerif

def allBits : (k : Nat) → (base : Nat) → (p : Nat → Bool) → Bool
  | 0, base, p => p base
  | k+1, base, p => allBits k base p && allBits k (base + 2^k) p

theorem allBits_spec : ∀ (k base : Nat) (p : Nat → Bool),
    allBits k base p = true → ∀ i, i < 2^k → p (base + i) = true
  | 0, base, p, h, i, hi => by
      have : i = 0 := by omega
      subst this; simpa [allBits] using h
  | k+1, base, p, h, i, hi => by
      simp only [allBits, Bool.and_eq_true] at h
      by_cases hlt : i < 2^k
      · exact allBits_spec k base p h.1 i hlt
      · have h2 : i - 2^k < 2^k := by
          have : 2^(k+1) = 2^k + 2^k := by rw [Nat.pow_succ]; omega
          omega
        have := allBits_spec k (base + 2^k) p h.2 (i - 2^k) h2
        have e : base + 2^k + (i - 2^k) = base + i := by omega
        rwa [e] at this

/-- all `n < 2^k` satisfy `p` -/
theorem forall_lt_of_allBits (k : Nat) (p : Nat → Bool) (h : allBits k 0 p = true) :
    ∀ n, n < 2^k → p n = true := by
  intro n hn
  have := allBits_spec k 0 p h n hn
  simpa using this

end ImathVerif
