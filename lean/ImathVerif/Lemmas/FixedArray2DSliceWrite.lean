import ImathVerif.Lemmas.GridWrite
import ImathVerif.Lemmas.FixedArray2DWrite
/-!
FixedArray2D slice and mask writes refine nested-list assignment (C19).
-/
namespace ImathVerif.FixedArray2D
open ImathVerif ImathVerif.FixedArray

/-- a 2-D array as a grid: outer index `j` (rows of the nested list), inner index `i` -/
def View2D.grid (v : View2D) : Grid := ⟨v.buf, v.lenY, v.lenX, fun j i => v.pos i j⟩

theorem View2D.grid_toNested (h : Heap) (v : View2D) : v.grid.toNested h = v.toNested h := rfl

theorem View2D.grid_WF {sh : List Nat} {v : View2D} (w : v.WF sh) (hinj : v.Injective) : v.grid.WF sh := by
  obtain ⟨n, hn, hp⟩ := w.inBuf
  refine ⟨⟨n, hn, fun o i ho hi => hp i o hi ho⟩, ?_⟩
  intro o i o' i' ho hi ho' hi' he
  have := hinj i o i' o' hi ho hi' ho' he
  exact ⟨this.2, this.1⟩

/-- the nested `getD` reads of the abstraction -/
theorem View2D.toNested_getD (h : Heap) (v : View2D) {i j : Nat} (hi : i < v.lenX) (hj : j < v.lenY) :
    ((v.toNested h).getD j []).getD i 0 = cellAt h v.buf (v.pos i j) := by
  simp [View2D.toNested, List.getD_eq_getElem?_getD, hi, hj]

/-- **`a[sx, sy] = x`** (ints or slices per dimension): `for j in ys: for i in xs: nested[j][i] = x` -/
theorem setitemScalar2D_refines {h : Heap} {v : View2D} (w : v.WF (shape h)) (hinj : v.Injective) {ix iy : PyIdx}
    {sx sy : SliceIdx} (hsx : extract2D v.lenX ix = .ok sx) (hsy : extract2D v.lenY iy = .ok sy) (x : Int) :
    ∃ h', setitemScalar2D h v ix iy x = .ok h' ∧ shape h' = shape h ∧ Frame v.buf h h' ∧
      v.toNested h' = PyList.assign2D (v.toNested h) sy.positions sx.positions (fun _ _ => x) := by
  have hatx : ∀ i, i < sx.slicelength → sx.at i < v.lenX := fun i hi => slice_at_lt' w.lenXOk hsx i hi
  have haty : ∀ j, j < sy.slicelength → sy.at j < v.lenY := fun j hj => slice_at_lt' w.lenYOk hsy j hj
  obtain ⟨h', hl, hinv, ht⟩ := grid_loop2_refines (g := v.grid) (View2D.grid_WF w hinj)
    (fun b _ => sy.at b) (fun _ a => sx.at a) (fun _ _ => x) (fun _ _ => true) sy.slicelength sx.slicelength
    (fun b a hb ha _ => ⟨haty b hb, hatx a ha⟩)
    (fun j i h1 => v.set h1 (sx.at i) (sy.at j) x)
    (fun b a h1 _ _ _ => by simp [View2D.set, View2D.grid])
  refine ⟨h', ?_, hinv.1, hinv.2, ?_⟩
  · unfold setitemScalar2D
    simp only [hsx, hsy]
    exact hl
  · rw [← View2D.grid_toNested, ht, View2D.grid_toNested]
    simp only [if_true]
    exact assign2D_positions _ sy sx _

/-- **`a[sx, sy] = b`** for a 2-D right-hand side in another allocation, of the selected shape:
    `nested[ys[b]][xs[a]] = rhs[b][a]` (the loops run `a` outermost, as in the C++) -/
theorem setitemVector2D_refines {h : Heap} {v data : View2D} (w : v.WF (shape h)) (hinj : v.Injective)
    (wd : data.WF (shape h)) (hne : data.buf ≠ v.buf) {ix iy : PyIdx} {sx sy : SliceIdx}
    (hsx : extract2D v.lenX ix = .ok sx) (hsy : extract2D v.lenY iy = .ok sy)
    (hdx : data.lenX = sx.slicelength) (hdy : data.lenY = sy.slicelength) :
    ∃ h', setitemVector2D h v ix iy data = .ok h' ∧ shape h' = shape h ∧ Frame v.buf h h' ∧
      v.toNested h' = PyList.assign2DInnerFirst (v.toNested h) sy.positions sx.positions
        (fun b a => ((data.toNested h).getD b []).getD a 0) := by
  have hatx : ∀ i, i < sx.slicelength → sx.at i < v.lenX := fun i hi => slice_at_lt' w.lenXOk hsx i hi
  have haty : ∀ j, j < sy.slicelength → sy.at j < v.lenY := fun j hj => slice_at_lt' w.lenYOk hsy j hj
  obtain ⟨h', hl, hinv, ht⟩ := grid_loop2_refines (g := v.grid) (View2D.grid_WF w hinj)
    (fun _ b => sy.at b) (fun a _ => sx.at a) (fun a b => cellAt h data.buf (data.pos a b)) (fun _ _ => true)
    sx.slicelength sy.slicelength
    (fun a b ha hb _ => ⟨haty b hb, hatx a ha⟩)
    (fun i j h1 => match data.get h1 i j with
      | .ok x => v.set h1 (sx.at i) (sy.at j) x
      | .error e => .error e)
    (fun a b h1 ha hb hi1 => by
      have hd : data.get h1 a b = .ok (cellAt h data.buf (data.pos a b)) := by
        unfold View2D.get
        rw [rd_congr (hi1.2.2 _ hne)]
        exact wd.get (by omega) (by omega)
      simp [hd, View2D.set, View2D.grid])
  refine ⟨h', ?_, hinv.1, hinv.2, ?_⟩
  · unfold setitemVector2D
    have : ¬ (data.lenX ≠ sx.slicelength ∨ data.lenY ≠ sy.slicelength) := by simp [hdx, hdy]
    simp only [hsx, hsy, this, if_false]
    exact hl
  · rw [← View2D.grid_toNested, ht, View2D.grid_toNested]
    simp only [if_true]
    rw [← assign2DInnerFirst_positions]
    apply foldl_congr_mem
    intro a ha L1
    have ha' : a < sx.slicelength := by simpa using ha
    apply foldl_congr_mem
    intro b hb L2
    have hb' : b < sy.slicelength := by simpa using hb
    rw [View2D.toNested_getD h data (by omega) (by omega)]

/-- **`a[sx, sy] = d`** for a 1-D right-hand side of `len(xs)*len(ys)` elements in another allocation
    (`setitem_array1d`; each axis keeps its OWN step): `nested[ys[b]][xs[a]] = d[b*len(xs) + a]` -/
theorem setitemArray1D_refines {h : Heap} {v : View2D} {data : View} (w : v.WF (shape h)) (hinj : v.Injective)
    (wd : data.WF (shape h)) (hne : data.buf ≠ v.buf) {ix iy : PyIdx} {sx sy : SliceIdx}
    (hsx : extract2D v.lenX ix = .ok sx) (hsy : extract2D v.lenY iy = .ok sy)
    (hdl : data.length = sx.slicelength * sy.slicelength) :
    ∃ h', setitemArray1D h v ix iy data = .ok h' ∧ shape h' = shape h ∧ Frame v.buf h h' ∧
      v.toNested h' = PyList.assign2D (v.toNested h) sy.positions sx.positions
        (fun b a => (data.toList h).getD (b * sx.slicelength + a) 0) := by
  have hatx : ∀ i, i < sx.slicelength → sx.at i < v.lenX := fun i hi => slice_at_lt' w.lenXOk hsx i hi
  have haty : ∀ j, j < sy.slicelength → sy.at j < v.lenY := fun j hj => slice_at_lt' w.lenYOk hsy j hj
  have hz : ∀ b a, b < sy.slicelength → a < sx.slicelength → b * sx.slicelength + a < data.length := by
    intro b a hb ha
    rw [hdl]
    have : (b + 1) * sx.slicelength ≤ sy.slicelength * sx.slicelength := Nat.mul_le_mul_right _ (by omega)
    rw [Nat.add_mul, Nat.one_mul] at this
    rw [Nat.mul_comm sx.slicelength sy.slicelength]
    omega
  obtain ⟨h', hl, hinv, ht⟩ := grid_loop2_refines (g := v.grid) (View2D.grid_WF w hinj)
    (fun b _ => sy.at b) (fun _ a => sx.at a)
    (fun b a => cellAt h data.buf (data.cellPos (b * sx.slicelength + a))) (fun _ _ => true)
    sy.slicelength sx.slicelength
    (fun b a hb ha _ => ⟨haty b hb, hatx a ha⟩)
    (fun j i h1 => match data.get h1 (j * sx.slicelength + i) with
      | .ok x => v.set h1 (sx.at i) (sy.at j) x
      | .error e => .error e)
    (fun b a h1 hb ha hi1 => by
      have hd : data.get h1 (b * sx.slicelength + a) = .ok (cellAt h data.buf (data.cellPos (b * sx.slicelength + a))) := by
        rw [View.get_congr (hi1.2.2 _ hne)]
        exact wd.get (hz b a hb ha)
      simp [hd, View2D.set, View2D.grid])
  refine ⟨h', ?_, hinv.1, hinv.2, ?_⟩
  · unfold setitemArray1D
    have : ¬ (data.length ≠ sx.slicelength * sy.slicelength) := by simp [hdl]
    simp only [hsx, hsy, this, if_false]
    exact hl
  · rw [← View2D.grid_toNested, ht, View2D.grid_toNested]
    simp only [if_true]
    rw [← assign2D_positions]
    apply foldl_congr_mem
    intro b hb L1
    have hb' : b < sy.slicelength := by simpa using hb
    apply foldl_congr_mem
    intro a ha L2
    have ha' : a < sx.slicelength := by simpa using ha
    have := View.toList_getElem? h data _ (hz b a hb' ha')
    simp [List.getD_eq_getElem?_getD, this]


/-! ## mask writes -/

theorem assignMask2D_conv {α : Type} (L : List (List α)) {h : Heap} (mask : View2D) (lx ly : Nat) (hx : lx = mask.lenX)
    (hy : ly = mask.lenY) (val : Nat → Nat → α) :
    (List.range ly).foldl (fun L b =>
      (List.range lx).foldl (fun L a =>
        if (cellAt h mask.buf (mask.pos a b) != 0) = true then PyList.set2 L b a (val b a) else L) L) L
    = PyList.assignMask2D L (mask.toNested h) ly lx val := by
  unfold PyList.assignMask2D
  apply foldl_congr_mem
  intro b hb L1
  have hb' : b < mask.lenY := by have := List.mem_range.1 hb; omega
  apply foldl_congr_mem
  intro a ha L2
  have ha' : a < mask.lenX := by have := List.mem_range.1 ha; omega
  rw [View2D.toNested_getD h mask ha' hb']

/-- generic mask-write loop: `for j: for i: if mask(i,j): a(i,j) = val j i` with mask (and the values) in other allocations -/
theorem maskLoop2D_refines {h : Heap} {v mask : View2D} (w : v.WF (shape h)) (hinj : v.Injective)
    (wm : mask.WF (shape h)) (hnm : mask.buf ≠ v.buf) (hmx : mask.lenX = v.lenX) (hmy : mask.lenY = v.lenY)
    (val : Nat → Nat → Int) (body : Nat → Nat → Heap → Except Err Heap)
    (hbody : ∀ j i h1, j < v.lenY → i < v.lenX → GInv v.grid h h1 →
      body j i h1 = (match mask.get h1 i j with
        | .error e => .error e
        | .ok m => if m != 0 then v.set h1 i j (val j i) else .ok h1)) :
    ∃ h', forLoop2 body v.lenY v.lenX h = .ok h' ∧ shape h' = shape h ∧ Frame v.buf h h' ∧
      v.toNested h' = PyList.assignMask2D (v.toNested h) (mask.toNested h) v.lenY v.lenX val := by
  obtain ⟨h', hl, hinv, ht⟩ := grid_loop2_refines (g := v.grid) (View2D.grid_WF w hinj)
    (fun b _ => b) (fun _ a => a) val (fun b a => cellAt h mask.buf (mask.pos a b) != 0) v.lenY v.lenX
    (fun b a hb ha _ => ⟨hb, ha⟩) body
    (fun b a h1 hb ha hi1 => by
      rw [hbody b a h1 hb ha hi1]
      have hm : mask.get h1 a b = .ok (cellAt h mask.buf (mask.pos a b)) := by
        unfold View2D.get
        rw [rd_congr (hi1.2.2 _ hnm)]
        exact wm.get (by omega) (by omega)
      simp only [hm, View2D.set, View2D.grid])
  refine ⟨h', hl, hinv.1, hinv.2, ?_⟩
  rw [← View2D.grid_toNested, ht, View2D.grid_toNested]
  exact assignMask2D_conv _ mask v.lenX v.lenY hmx.symm hmy.symm val

/-- **`a[mask] = x`** (2-D mask of the array's shape, in another allocation): `nested[j][i] = x` wherever `mask[j][i]` -/
theorem setitemScalarMask2D_refines {h : Heap} {v mask : View2D} (w : v.WF (shape h)) (hinj : v.Injective)
    (wm : mask.WF (shape h)) (hnm : mask.buf ≠ v.buf) (hmx : mask.lenX = v.lenX) (hmy : mask.lenY = v.lenY) (x : Int) :
    ∃ h', setitemScalarMask2D h v mask x = .ok h' ∧ shape h' = shape h ∧ Frame v.buf h h' ∧
      v.toNested h' = PyList.assignMask2D (v.toNested h) (mask.toNested h) v.lenY v.lenX (fun _ _ => x) := by
  obtain ⟨h', hl, hs, hf, ht⟩ := maskLoop2D_refines w hinj wm hnm hmx hmy (fun _ _ => x) _ (fun j i h1 _ _ _ => rfl)
  refine ⟨h', ?_, hs, hf, ht⟩
  unfold setitemScalarMask2D
  simp only [matchDimension2D, hmx, hmy, ne_eq, not_true_eq_false, or_self, if_false]
  exact hl

/-- **`a[mask] = b`** for a 2-D right-hand side of the array's shape in another allocation:
    `nested[j][i] = rhs[j][i]` wherever `mask[j][i]` -/
theorem setitemVectorMask2D_refines {h : Heap} {v mask data : View2D} (w : v.WF (shape h)) (hinj : v.Injective)
    (wm : mask.WF (shape h)) (wd : data.WF (shape h)) (hnm : mask.buf ≠ v.buf) (hnd : data.buf ≠ v.buf)
    (hmx : mask.lenX = v.lenX) (hmy : mask.lenY = v.lenY) (hdx : data.lenX = v.lenX) (hdy : data.lenY = v.lenY) :
    ∃ h', setitemVectorMask2D h v mask data = .ok h' ∧ shape h' = shape h ∧ Frame v.buf h h' ∧
      v.toNested h' = PyList.assignMask2D (v.toNested h) (mask.toNested h) v.lenY v.lenX
        (fun j i => ((data.toNested h).getD j []).getD i 0) := by
  obtain ⟨h', hl, hs, hf, ht⟩ := maskLoop2D_refines w hinj wm hnm hmx hmy
    (fun j i => cellAt h data.buf (data.pos i j))
    (fun j i h1 => match mask.get h1 i j with
      | .error e => .error e
      | .ok m => if m != 0 then (match data.get h1 i j with
          | .ok x => v.set h1 i j x
          | .error e => .error e) else .ok h1)
    (fun j i h1 hj hi hi1 => by
      have hd : data.get h1 i j = .ok (cellAt h data.buf (data.pos i j)) := by
        unfold View2D.get
        rw [rd_congr (hi1.2.2 _ hnd)]
        exact wd.get (by omega) (by omega)
      simp only [hd])
  refine ⟨h', ?_, hs, hf, ?_⟩
  · unfold setitemVectorMask2D
    simp only [matchDimension2D, hmx, hmy, ne_eq, not_true_eq_false, or_self, if_false, hdx, hdy, and_self, if_true]
    exact hl
  · rw [ht]
    unfold PyList.assignMask2D
    apply foldl_congr_mem
    intro j hj L1
    have hj' : j < v.lenY := by simpa using hj
    apply foldl_congr_mem
    intro i hi L2
    have hi' : i < v.lenX := by simpa using hi
    have hget := View2D.toNested_getD h data (i := i) (j := j) (by omega) (by omega)
    simp only [hget]

/-- **`a[mask] = d`** for a 1-D right-hand side of `lenX*lenY` elements in another allocation
    (`setitem_array1d_mask`, full-length branch): `nested[j][i] = d[j*lenX + i]` wherever `mask[j][i]` -/
theorem setitemArray1DMask_full_refines {h : Heap} {v mask : View2D} {data : View} (w : v.WF (shape h)) (hinj : v.Injective)
    (wm : mask.WF (shape h)) (wd : data.WF (shape h)) (hnm : mask.buf ≠ v.buf) (hnd : data.buf ≠ v.buf)
    (hmx : mask.lenX = v.lenX) (hmy : mask.lenY = v.lenY) (hdl : data.length = v.lenX * v.lenY) :
    ∃ h', setitemArray1DMask h v mask data = .ok h' ∧ shape h' = shape h ∧ Frame v.buf h h' ∧
      v.toNested h' = PyList.assignMask2D (v.toNested h) (mask.toNested h) v.lenY v.lenX
        (fun j i => (data.toList h).getD (j * v.lenX + i) 0) := by
  have hz : ∀ j i, j < v.lenY → i < v.lenX → j * v.lenX + i < data.length := by
    intro j i hj hi
    rw [hdl]
    have : (j + 1) * v.lenX ≤ v.lenY * v.lenX := Nat.mul_le_mul_right _ (by omega)
    rw [Nat.add_mul, Nat.one_mul] at this
    rw [Nat.mul_comm v.lenX v.lenY]
    omega
  obtain ⟨h', hl, hs, hf, ht⟩ := maskLoop2D_refines w hinj wm hnm hmx hmy
    (fun j i => cellAt h data.buf (data.cellPos (j * v.lenX + i)))
    (fun j i h1 => match mask.get h1 i j with
      | .error e => .error e
      | .ok m => if m != 0 then (match data.get h1 (j * v.lenX + i) with
          | .ok x => v.set h1 i j x
          | .error e => .error e) else .ok h1)
    (fun j i h1 hj hi hi1 => by
      have hd : data.get h1 (j * v.lenX + i) = .ok (cellAt h data.buf (data.cellPos (j * v.lenX + i))) := by
        rw [View.get_congr (hi1.2.2 _ hnd)]
        exact wd.get (hz j i hj hi)
      simp only [hd])
  refine ⟨h', ?_, hs, hf, ?_⟩
  · unfold setitemArray1DMask
    simp only [matchDimension2D, hmx, hmy, ne_eq, not_true_eq_false, or_self, if_false, hdl, if_true]
    exact hl
  · rw [ht]
    unfold PyList.assignMask2D
    apply foldl_congr_mem
    intro j hj L1
    have hj' : j < v.lenY := by simpa using hj
    apply foldl_congr_mem
    intro i hi L2
    have hi' : i < v.lenX := by simpa using hi
    have := View.toList_getElem? h data _ (hz j i hj' hi')
    simp [List.getD_eq_getElem?_getD, this]

end ImathVerif.FixedArray2D
