import ImathVerif.Spec.FrustumSpec
import ImathVerif.Gen.Leaf
import ImathVerif.Gen.C05
import Mathlib.Tactic.Ring
import Mathlib.Tactic.FieldSimp
import Mathlib.Tactic.Linarith
import Mathlib.Tactic.SplitIfs
import Mathlib.Tactic.NormNum
import Mathlib.Tactic.Positivity
/-!
# Helper lemmas for C16 (Frustum / FrustumTest)

* consequences of the length specification `LenSpec`;
* `normalizeWith`, `planeThrough`, `planeND`: Lean spellings of the non-degenerate paths of `Vec3::normalize`,
  `Plane3::set (p1, p2, p3)` and `Plane3::set (normal, distance)` (the emitted frustum definitions are shown, by `rfl`-style structure theorems in
  Props/C16.lean, to be built from them), and the sign of their plane equations;
* Cauchy–Schwarz in the form needed for spheres, the support-function bound for boxes.
-/
set_option linter.unusedSimpArgs false
set_option linter.unusedSectionVars false
set_option linter.unusedVariables false
set_option linter.unusedTactic false
set_option linter.unreachableTactic false
namespace ImathVerif.C16
open ImathVerif ImathVerif.FrustumSpec
variable {α : Type} [Field α] [LinearOrder α] [IsStrictOrderedRing α]

/-! ## LenSpec -/
theorem lenSpec_eq_one {len : V3 α → α} (h : LenSpec len) (v : V3 α) (hv : normSq v = 1) : len v = 1 := by
  obtain ⟨h0, h1⟩ := h v
  rw [hv] at h1
  have : (len v - 1) * (len v + 1) = 0 := by ring_nf; rw [sq, h1]; ring
  rcases mul_eq_zero.mp this with h2 | h2
  · linarith
  · linarith

theorem lenSpec_pos {len : V3 α → α} (h : LenSpec len) (v : V3 α) (hv : normSq v ≠ 0) : 0 < len v := by
  obtain ⟨h0, h1⟩ := h v
  rcases h0.lt_or_eq with h2 | h2
  · exact h2
  · exfalso; apply hv; rw [← h1, ← h2]; ring

theorem lenSpec_eq_zero {len : V3 α → α} (h : LenSpec len) (v : V3 α) (hv : normSq v = 0) : len v = 0 := by
  obtain ⟨h0, h1⟩ := h v
  rw [hv] at h1
  exact mul_self_eq_zero.mp h1

theorem normSq_nonneg (v : V3 α) : 0 ≤ normSq v := by
  have := mul_self_nonneg v.x; have := mul_self_nonneg v.y; have := mul_self_nonneg v.z
  simp only [normSq]; linarith

theorem normSq_ne_zero_of_x (x y z : α) (hx : x ≠ 0) : normSq (⟨x, y, z⟩ : V3 α) ≠ 0 := by
  have : 0 < x * x := mul_self_pos.mpr hx
  have := mul_self_nonneg y; have := mul_self_nonneg z
  simp only [normSq]; linarith
theorem normSq_ne_zero_of_y (x y z : α) (hy : y ≠ 0) : normSq (⟨x, y, z⟩ : V3 α) ≠ 0 := by
  have : 0 < y * y := mul_self_pos.mpr hy
  have := mul_self_nonneg x; have := mul_self_nonneg z
  simp only [normSq]; linarith
theorem normSq_ne_zero_of_z (x y z : α) (hz : z ≠ 0) : normSq (⟨x, y, z⟩ : V3 α) ≠ 0 := by
  have : 0 < z * z := mul_self_pos.mpr hz
  have := mul_self_nonneg x; have := mul_self_nonneg y
  simp only [normSq]; linarith

/-! ## normalize and the two plane constructors -/

/-- `Vec3::normalize` with the length function `len`, on its non-degenerate path (`len v ≠ 0`): divide by the length -/
def normalizeWith (len : V3 α → α) (v : V3 α) : V3 α := ⟨v.x / len v, v.y / len v, v.z / len v⟩

/-- `a % b` -/
def cross (a b : V3 α) : V3 α := ⟨a.y * b.z - a.z * b.y, a.z * b.x - a.x * b.z, a.x * b.y - a.y * b.x⟩
def vsub (a b : V3 α) : V3 α := ⟨a.x - b.x, a.y - b.y, a.z - b.z⟩
def vdot (a b : V3 α) : α := a.x * b.x + a.y * b.y + a.z * b.z

/-- `Plane3::set (p1, p2, p3)` -/
def planeThrough (len : V3 α → α) (p1 p2 p3 : V3 α) : Plane3 α :=
  ⟨normalizeWith len (cross (vsub p2 p1) (vsub p3 p1)), vdot (normalizeWith len (cross (vsub p2 p1) (vsub p3 p1))) p1⟩

/-- `Plane3::set (normal, distance)` -/
def planeND (len : V3 α → α) (nv : V3 α) (d : α) : Plane3 α := ⟨normalizeWith len nv, d⟩

theorem normalizeWith_normSq {len : V3 α → α} (h : LenSpec len) (v : V3 α) (hv : normSq v ≠ 0) :
    normSq (normalizeWith len v) = 1 := by
  have hp := lenSpec_pos h v hv
  have h1 := (h v).2
  simp only [normalizeWith, normSq] at h1 ⊢
  have hne := ne_of_gt hp
  field_simp
  linarith

/-- with a correct length function, what `Vec3::normalize` leaves behind is a unit vector or (zero length: untouched) zero -/
theorem normalize_normSq_le_one {len : V3 α → α} (h : LenSpec len) (v : V3 α) :
    (len v = 0 → normSq v ≤ 1) ∧ (len v ≠ 0 → normSq (⟨v.x / len v, v.y / len v, v.z / len v⟩ : V3 α) ≤ 1) := by
  constructor
  · intro h0
    have := (h v).2
    rw [h0, mul_zero] at this
    rw [← this]; exact zero_le_one
  · intro h0
    have hv : normSq v ≠ 0 := by
      intro hz; exact h0 (lenSpec_eq_zero h v hz)
    exact le_of_eq (normalizeWith_normSq h v hv)

/-- value of the plane equation of `Plane3::set (normal, distance)` -/
theorem planeND_eval {len : V3 α → α} (h : LenSpec len) (nv : V3 α) (d : α) (hv : normSq nv ≠ 0) (p : V3 α) :
    planeEval (planeND len nv d) p = (vdot nv p - d * len nv) / len nv := by
  have hne := ne_of_gt (lenSpec_pos h nv hv)
  simp only [planeND, planeEval, normalizeWith, vdot]
  field_simp

/-- value of the plane equation of `Plane3::set (p1, p2, p3)`: `((p2−p1) × (p3−p1)) · (p − p1) / |…|` -/
theorem planeThrough_eval {len : V3 α → α} (h : LenSpec len) (p1 p2 p3 : V3 α)
    (hv : normSq (cross (vsub p2 p1) (vsub p3 p1)) ≠ 0) (p : V3 α) :
    planeEval (planeThrough len p1 p2 p3) p =
      vdot (cross (vsub p2 p1) (vsub p3 p1)) (vsub p p1) / len (cross (vsub p2 p1) (vsub p3 p1)) := by
  have hne := ne_of_gt (lenSpec_pos h _ hv)
  simp only [planeThrough, planeEval, normalizeWith, vdot]
  simp only [vsub]
  field_simp
  ring

/-- `Vec3::normalize` including its zero-length path (the vector is left untouched) -/
def normalizeIf {α : Type} [Div α] [DecidableEq α] [OfNat α 0] (len : V3 α → α) (v : V3 α) : V3 α :=
  if len v = (0 : α) then v else ⟨v.x / len v, v.y / len v, v.z / len v⟩
/-- `Plane3::set (p1, p2, p3)` including the degenerate path -/
def planeThroughIf (len : V3 α → α) (p1 p2 p3 : V3 α) : Plane3 α :=
  ⟨normalizeIf len (cross (vsub p2 p1) (vsub p3 p1)), vdot (normalizeIf len (cross (vsub p2 p1) (vsub p3 p1))) p1⟩

theorem normalizeIf_normSq_le_one {len : V3 α → α} (h : LenSpec len) (v : V3 α) : normSq (normalizeIf len v) ≤ 1 := by
  unfold normalizeIf
  split_ifs with h0
  · exact (normalize_normSq_le_one h v).1 h0
  · exact (normalize_normSq_le_one h v).2 h0
theorem planeThroughIf_eq {len : V3 α → α} (p1 p2 p3 : V3 α) (h0 : len (cross (vsub p2 p1) (vsub p3 p1)) ≠ 0) :
    planeThroughIf len p1 p2 p3 = planeThrough len p1 p2 p3 := by
  simp only [planeThroughIf, planeThrough, normalizeIf, normalizeWith, if_neg h0]

/-- a correct length function on axis vectors -/
theorem lenSpec_axis_z {len : V3 α → α} (h : LenSpec len) (k : α) : len ⟨0, 0, k⟩ = |k| := by
  obtain ⟨h0, h1⟩ := h ⟨0, 0, k⟩
  simp only [normSq, mul_zero, zero_add] at h1
  have : |len (⟨0, 0, k⟩ : V3 α)| = |k| := abs_eq_abs.mpr (by
    have : (len (⟨0, 0, k⟩ : V3 α) - k) * (len (⟨0, 0, k⟩ : V3 α) + k) = 0 := by ring_nf; rw [sq, h1]; ring
    rcases mul_eq_zero.mp this with h2 | h2
    · left; linarith
    · right; linarith)
  rwa [abs_of_nonneg h0] at this
theorem lenSpec_axis_y {len : V3 α → α} (h : LenSpec len) (k : α) : len ⟨0, k, 0⟩ = |k| := by
  obtain ⟨h0, h1⟩ := h ⟨0, k, 0⟩
  simp only [normSq, mul_zero, zero_add, add_zero] at h1
  have : |len (⟨0, k, 0⟩ : V3 α)| = |k| := abs_eq_abs.mpr (by
    have : (len (⟨0, k, 0⟩ : V3 α) - k) * (len (⟨0, k, 0⟩ : V3 α) + k) = 0 := by ring_nf; rw [sq, h1]; ring
    rcases mul_eq_zero.mp this with h2 | h2
    · left; linarith
    · right; linarith)
  rwa [abs_of_nonneg h0] at this
theorem lenSpec_axis_x {len : V3 α → α} (h : LenSpec len) (k : α) : len ⟨k, 0, 0⟩ = |k| := by
  obtain ⟨h0, h1⟩ := h ⟨k, 0, 0⟩
  simp only [normSq, mul_zero, add_zero] at h1
  have : |len (⟨k, 0, 0⟩ : V3 α)| = |k| := abs_eq_abs.mpr (by
    have : (len (⟨k, 0, 0⟩ : V3 α) - k) * (len (⟨k, 0, 0⟩ : V3 α) + k) = 0 := by ring_nf; rw [sq, h1]; ring
    rcases mul_eq_zero.mp this with h2 | h2
    · left; linarith
    · right; linarith)
  rwa [abs_of_nonneg h0] at this

theorem div_pos_nonpos_iff {a c : α} (hc : 0 < c) : a / c ≤ 0 ↔ a ≤ 0 := by
  constructor
  · intro h; by_contra hn; rw [not_le] at hn; have := div_pos hn hc; linarith
  · intro h; exact div_nonpos_of_nonpos_of_nonneg h hc.le
theorem div_pos_neg_iff {a c : α} (hc : 0 < c) : a / c < 0 ↔ a < 0 := by
  constructor
  · intro h; by_contra hn; rw [not_lt] at hn; have := div_nonneg hn hc.le; linarith
  · intro h; exact div_neg_of_neg_of_pos h hc
theorem pos_mul_nonpos_iff {a c : α} (hc : 0 < c) : c * a ≤ 0 ↔ a ≤ 0 := by
  constructor
  · intro h; by_contra hn; rw [not_le] at hn; have := mul_pos hc hn; linarith
  · intro h; exact mul_nonpos_of_nonneg_of_nonpos hc.le h
theorem pos_mul_neg_iff {a c : α} (hc : 0 < c) : c * a < 0 ↔ a < 0 := by
  constructor
  · intro h; by_contra hn; rw [not_lt] at hn; have := mul_nonneg hc.le hn; linarith
  · intro h; exact mul_neg_of_pos_of_neg hc h

/-! ## support-function bounds used by the culling tests -/

/-- `sabs` is the absolute value -/
theorem sabs_eq_abs (a : α) : sabs a = |a| := by
  unfold sabs
  split_ifs with h
  · exact (abs_of_pos h).symm
  · exact (abs_of_nonpos (not_lt.mp h)).symm

/-- Cauchy–Schwarz: a vector of norm ≤ 1 moves the plane equation by at most the radius inside a ball -/
theorem dot_le_radius (nx ny nz wx wy wz rad : α) (hn : nx * nx + ny * ny + nz * nz ≤ 1) (hr : 0 ≤ rad)
    (hw : wx * wx + wy * wy + wz * wz ≤ rad * rad) : nx * wx + ny * wy + nz * wz ≤ rad := by
  by_contra hc
  rw [not_le] at hc
  have hpos : 0 < nx * wx + ny * wy + nz * wz := lt_of_le_of_lt hr hc
  -- (n·w)² ≤ |n|²|w|² (Lagrange identity)
  have hcs : (nx * wx + ny * wy + nz * wz) * (nx * wx + ny * wy + nz * wz)
      ≤ (nx * nx + ny * ny + nz * nz) * (wx * wx + wy * wy + wz * wz) := by
    nlinarith [mul_self_nonneg (nx * wy - ny * wx), mul_self_nonneg (nx * wz - nz * wx), mul_self_nonneg (ny * wz - nz * wy)]
  have hww : 0 ≤ wx * wx + wy * wy + wz * wz := by
    have := mul_self_nonneg wx; have := mul_self_nonneg wy; have := mul_self_nonneg wz; linarith
  have h1 : (nx * nx + ny * ny + nz * nz) * (wx * wx + wy * wy + wz * wz) ≤ 1 * (rad * rad) :=
    mul_le_mul hn hw hww zero_le_one
  have h2 : rad * rad < (nx * wx + ny * wy + nz * wz) * (nx * wx + ny * wy + nz * wz) :=
    mul_lt_mul'' hc hc hr hr
  linarith

/-- a coordinate inside `[lo, hi]` is within the half-extent of the centre -/
theorem abs_sub_center_le {lo hi q : α} (h1 : lo ≤ q) (h2 : q ≤ hi) : |q - (lo + hi) / 2| ≤ hi - (lo + hi) / 2 := by
  rw [abs_le]; constructor <;> linarith

/-- one coordinate of the support-function bound: `a·q` differs from `a·c` by at most `|a|·e` when `|q − c| ≤ e` -/
theorem mul_sub_le_abs_mul {a q c e : α} (h : |q - c| ≤ e) : a * q ≤ a * c + |a| * e ∧ a * c - |a| * e ≤ a * q := by
  have h1 : |a * (q - c)| ≤ |a| * e := by rw [abs_mul]; exact mul_le_mul_of_nonneg_left h (abs_nonneg a)
  rw [abs_le] at h1
  constructor <;> nlinarith [h1.1, h1.2]

/-! ## frustum-specific helper facts -/
theorem cross_top (n l r t : α) : cross (vsub ⟨r, t, -n⟩ ⟨0, 0, 0⟩) (vsub ⟨l, t, -n⟩ ⟨0, 0, 0⟩) = ⟨0, n * (r - l), t * (r - l)⟩ := by
  simp only [cross, vsub]; congr 1 <;> ring
theorem cross_right (n r t b : α) : cross (vsub ⟨r, b, -n⟩ ⟨0, 0, 0⟩) (vsub ⟨r, t, -n⟩ ⟨0, 0, 0⟩) = ⟨n * (t - b), 0, r * (t - b)⟩ := by
  simp only [cross, vsub]; congr 1 <;> ring
theorem cross_bottom (n l r b : α) : cross (vsub ⟨l, b, -n⟩ ⟨0, 0, 0⟩) (vsub ⟨r, b, -n⟩ ⟨0, 0, 0⟩) = ⟨0, -(n * (r - l)), -(b * (r - l))⟩ := by
  simp only [cross, vsub]; congr 1 <;> ring
theorem cross_left (n l t b : α) : cross (vsub ⟨l, t, -n⟩ ⟨0, 0, 0⟩) (vsub ⟨l, b, -n⟩ ⟨0, 0, 0⟩) = ⟨-(n * (t - b)), 0, -(l * (t - b))⟩ := by
  simp only [cross, vsub]; congr 1 <;> ring
/-- a plane set from an axis unit vector: the plane equation is that coordinate minus the distance -/
theorem planeND_axis_eval {len : V3 α → α} (h : LenSpec len) (nv : V3 α) (hv : normSq nv = 1) (d : α) (p : V3 α) :
    planeEval (planeND len nv d) p = vdot nv p - d := by
  rw [planeND_eval h nv d (by rw [hv]; exact one_ne_zero), lenSpec_eq_one h nv hv]; simp
/-- three points whose cross product is a positive multiple `k·u` of a unit vector `u` give the plane
`Plane3::set (u, u·p1)` -/
theorem planeThroughIf_of_cross {len : V3 α → α} (h : LenSpec len) (p1 p2 p3 u : V3 α) (k d : α) (hk : 0 < k)
    (hu : normSq u = 1) (hc : cross (vsub p2 p1) (vsub p3 p1) = ⟨k * u.x, k * u.y, k * u.z⟩) (hd : vdot u p1 = d) :
    planeThroughIf len p1 p2 p3 = planeND len u d := by
  have hl : len ⟨k * u.x, k * u.y, k * u.z⟩ = k := by
    obtain ⟨h0, h1⟩ := h ⟨k * u.x, k * u.y, k * u.z⟩
    have h2 : normSq (⟨k * u.x, k * u.y, k * u.z⟩ : V3 α) = k * k := by
      simp only [normSq] at hu ⊢
      have : k * u.x * (k * u.x) + k * u.y * (k * u.y) + k * u.z * (k * u.z) = k * k * (u.x * u.x + u.y * u.y + u.z * u.z) := by ring
      rw [this, hu, mul_one]
    rw [h2] at h1
    have : (len (⟨k * u.x, k * u.y, k * u.z⟩ : V3 α) - k) * (len (⟨k * u.x, k * u.y, k * u.z⟩ : V3 α) + k) = 0 := by
      have e : ∀ x : α, (x - k) * (x + k) = x * x - k * k := fun x => by ring
      rw [e, h1]; ring
    rcases mul_eq_zero.mp this with h3 | h3
    · linarith
    · linarith
  have h1 : len u = 1 := lenSpec_eq_one h u hu
  have hk' := ne_of_gt hk
  rw [planeThroughIf_eq _ _ _ (by rw [hc, hl]; exact hk')]
  subst hd
  simp only [planeThrough, planeND, normalizeWith, hc, hl, h1, vdot, div_one, mul_div_cancel_left₀ _ hk']
theorem planeThrough_near {len : V3 α → α} (h : LenSpec len) (n l r t b : α) (hk : 0 < (r - l) * (t - b)) :
    planeThroughIf len ⟨l, b, -n⟩ ⟨r, b, -n⟩ ⟨r, t, -n⟩ = planeND len ⟨0, 0, 1⟩ (-n) := by
  refine planeThroughIf_of_cross h _ _ _ ⟨0, 0, 1⟩ ((r - l) * (t - b)) _ hk (by simp [normSq]) ?_ (by simp [vdot])
  simp only [cross, vsub]; congr 1 <;> ring
theorem planeThrough_far {len : V3 α → α} (h : LenSpec len) (f l r t b : α) (hk : 0 < (r - l) * (t - b)) :
    planeThroughIf len ⟨l, b, -f⟩ ⟨l, t, -f⟩ ⟨r, t, -f⟩ = planeND len ⟨0, 0, -1⟩ f := by
  refine planeThroughIf_of_cross h _ _ _ ⟨0, 0, -1⟩ ((r - l) * (t - b)) _ hk (by simp [normSq]) ?_ (by simp [vdot])
  simp only [cross, vsub]; congr 1 <;> ring

/-- `Line3::operator()`: the point at parameter `u` -/
def linePoint (L : Line3 α) (u : α) : V3 α := ⟨L.pos.x + L.dir.x * u, L.pos.y + L.dir.y * u, L.pos.z + L.dir.z * u⟩

/-! ## the FrustumTest queries as functions of six planes -/
abbrev Planes6 (α : Type) := Plane3 α × Plane3 α × Plane3 α × Plane3 α × Plane3 α × Plane3 α
/-- all six normals have length at most 1 (true of every result of `planes (p, M)`: see `planesM_*_normals_le_one`) -/
def normalsLeOne (P : Plane3 α × Plane3 α × Plane3 α × Plane3 α × Plane3 α × Plane3 α) : Prop :=
  normSq P.1.normal ≤ 1 ∧ normSq P.2.1.normal ≤ 1 ∧ normSq P.2.2.1.normal ≤ 1 ∧ normSq P.2.2.2.1.normal ≤ 1 ∧
  normSq P.2.2.2.2.1.normal ≤ 1 ∧ normSq P.2.2.2.2.2.normal ≤ 1
/-- the six-way early-out chain of FrustumTest -/
theorem six_chain_true (a0 a1 a2 a3 a4 a5 : α) :
    (if 0 ≤ a0 then false else if 0 ≤ a1 then false else if 0 ≤ a2 then false else if 0 ≤ a3 then false else
      if 0 ≤ a4 then false else if 0 ≤ a5 then false else true) = true ↔
    (a0 < 0 ∧ a1 < 0 ∧ a2 < 0 ∧ a3 < 0 ∧ a4 < 0 ∧ a5 < 0) := by
  split_ifs <;> simp_all [not_le]
theorem six_chain_false (a0 a1 a2 a3 a4 a5 : α) :
    (if 0 ≤ a0 then false else if 0 ≤ a1 then false else if 0 ≤ a2 then false else if 0 ≤ a3 then false else
      if 0 ≤ a4 then false else if 0 ≤ a5 then false else true) = false ↔
    (0 ≤ a0 ∨ 0 ≤ a1 ∨ 0 ≤ a2 ∨ 0 ≤ a3 ∨ 0 ≤ a4 ∨ 0 ≤ a5) := by
  split_ifs <;> simp_all [not_le]
def chain6 (a0 a1 a2 a3 a4 a5 : α) : Bool :=
  if 0 ≤ a0 then false else if 0 ≤ a1 then false else if 0 ≤ a2 then false else if 0 ≤ a3 then false else
    if 0 ≤ a4 then false else if 0 ≤ a5 then false else true
def sphereTerm (pl : Plane3 α) (s : Sphere3 α) (sgn : α) : α :=
  pl.normal.x * s.center.x + pl.normal.y * s.center.y + pl.normal.z * s.center.z + sgn * s.radius - pl.distance
def boxTerm (pl : Plane3 α) (bx : Box3 α) (sgn : α) : α :=
  pl.normal.x * ((bx.min.x + bx.max.x) / 2) + pl.normal.y * ((bx.min.y + bx.max.y) / 2) + pl.normal.z * ((bx.min.z + bx.max.z) / 2)
    + sgn * (sabs pl.normal.x * (bx.max.x - (bx.min.x + bx.max.x) / 2) + sabs pl.normal.y * (bx.max.y - (bx.min.y + bx.max.y) / 2)
             + sabs pl.normal.z * (bx.max.z - (bx.min.z + bx.max.z) / 2)) - pl.distance
def boxEmpty (bx : Box3 α) : Prop := bx.max.x < bx.min.x ∨ bx.max.y < bx.min.y ∨ bx.max.z < bx.min.z
def ftSphere (P : Planes6 α) (s : Sphere3 α) (sgn : α) : Bool :=
  chain6 (sphereTerm P.1 s sgn) (sphereTerm P.2.1 s sgn) (sphereTerm P.2.2.1 s sgn) (sphereTerm P.2.2.2.1 s sgn)
    (sphereTerm P.2.2.2.2.1 s sgn) (sphereTerm P.2.2.2.2.2 s sgn)
def ftBox (P : Planes6 α) (bx : Box3 α) (sgn : α) : Bool :=
  if bx.max.x < bx.min.x then false else if bx.max.y < bx.min.y then false else if bx.max.z < bx.min.z then false else
  chain6 (boxTerm P.1 bx sgn) (boxTerm P.2.1 bx sgn) (boxTerm P.2.2.1 bx sgn) (boxTerm P.2.2.2.1 bx sgn)
    (boxTerm P.2.2.2.2.1 bx sgn) (boxTerm P.2.2.2.2.2 bx sgn)
theorem ftSphere_eq (P : Planes6 α) (s : Sphere3 α) (sgn : α) (a0 a1 a2 a3 a4 a5 : α)
    (h0 : a0 = sphereTerm P.1 s sgn) (h1 : a1 = sphereTerm P.2.1 s sgn) (h2 : a2 = sphereTerm P.2.2.1 s sgn)
    (h3 : a3 = sphereTerm P.2.2.2.1 s sgn) (h4 : a4 = sphereTerm P.2.2.2.2.1 s sgn) (h5 : a5 = sphereTerm P.2.2.2.2.2 s sgn) :
    chain6 a0 a1 a2 a3 a4 a5 = ftSphere P s sgn := by
  subst h0 h1 h2 h3 h4 h5; rfl
theorem ftBox_eq (P : Planes6 α) (bx : Box3 α) (sgn : α) (a0 a1 a2 a3 a4 a5 : α)
    (h0 : a0 = boxTerm P.1 bx sgn) (h1 : a1 = boxTerm P.2.1 bx sgn) (h2 : a2 = boxTerm P.2.2.1 bx sgn)
    (h3 : a3 = boxTerm P.2.2.2.1 bx sgn) (h4 : a4 = boxTerm P.2.2.2.2.1 bx sgn) (h5 : a5 = boxTerm P.2.2.2.2.2 bx sgn) :
    (if bx.max.x < bx.min.x then false else if bx.max.y < bx.min.y then false else if bx.max.z < bx.min.z then false else
      chain6 a0 a1 a2 a3 a4 a5) = ftBox P bx sgn := by
  subst h0 h1 h2 h3 h4 h5; rfl
/-- per plane: a ball whose centre is at least `radius` outside the plane has no point strictly inside it -/
theorem sphere_out (pl : Plane3 α) (s : Sphere3 α) (q : V3 α) (hn : normSq pl.normal ≤ 1) (hr : 0 ≤ s.radius)
    (hq : sphereMem s q)
    (h : 0 ≤ pl.normal.x * s.center.x + pl.normal.y * s.center.y + pl.normal.z * s.center.z - s.radius - pl.distance) :
    ¬ planeEval pl q < 0 := by
  have := dot_le_radius (-pl.normal.x) (-pl.normal.y) (-pl.normal.z) (q.x - s.center.x) (q.y - s.center.y) (q.z - s.center.z)
    s.radius (by simp only [normSq] at hn; linarith) hr hq
  simp only [planeEval, not_lt]
  linarith
/-- per plane: a ball whose centre is more than `radius` inside the plane lies strictly inside it -/
theorem sphere_in (pl : Plane3 α) (s : Sphere3 α) (q : V3 α) (hn : normSq pl.normal ≤ 1) (hr : 0 ≤ s.radius)
    (hq : sphereMem s q)
    (h : pl.normal.x * s.center.x + pl.normal.y * s.center.y + pl.normal.z * s.center.z + s.radius - pl.distance < 0) :
    planeEval pl q < 0 := by
  have := dot_le_radius pl.normal.x pl.normal.y pl.normal.z (q.x - s.center.x) (q.y - s.center.y) (q.z - s.center.z)
    s.radius hn hr hq
  simp only [planeEval]
  linarith
theorem box_bounds (pl : Plane3 α) (bx : Box3 α) (q : V3 α) (hq : boxMem bx q) :
    let cx := (bx.min.x + bx.max.x) / 2; let cy := (bx.min.y + bx.max.y) / 2; let cz := (bx.min.z + bx.max.z) / 2
    let N := pl.normal.x * cx + pl.normal.y * cy + pl.normal.z * cz
    let E := sabs pl.normal.x * (bx.max.x - cx) + sabs pl.normal.y * (bx.max.y - cy) + sabs pl.normal.z * (bx.max.z - cz)
    N - E ≤ pl.normal.x * q.x + pl.normal.y * q.y + pl.normal.z * q.z ∧
    pl.normal.x * q.x + pl.normal.y * q.y + pl.normal.z * q.z ≤ N + E := by
  obtain ⟨x0, x1, y0, y1, z0, z1⟩ := hq
  have hx := mul_sub_le_abs_mul (a := pl.normal.x) (abs_sub_center_le x0 x1)
  have hy := mul_sub_le_abs_mul (a := pl.normal.y) (abs_sub_center_le y0 y1)
  have hz := mul_sub_le_abs_mul (a := pl.normal.z) (abs_sub_center_le z0 z1)
  simp only [sabs_eq_abs]
  constructor <;> linarith [hx.1, hx.2, hy.1, hy.2, hz.1, hz.2]
theorem box_out (pl : Plane3 α) (bx : Box3 α) (q : V3 α) (hq : boxMem bx q) (h : 0 ≤ boxTerm pl bx (-1)) :
    ¬ planeEval pl q < 0 := by
  have := (box_bounds pl bx q hq).1
  simp only [boxTerm, planeEval, not_lt] at h ⊢ this
  linarith
theorem box_in (pl : Plane3 α) (bx : Box3 α) (q : V3 α) (hq : boxMem bx q) (h : boxTerm pl bx 1 < 0) :
    planeEval pl q < 0 := by
  have := (box_bounds pl bx q hq).2
  simp only [boxTerm, planeEval] at h ⊢ this
  linarith
/-- isVisible (sphere) = false ⇒ no point of the ball is strictly inside all six planes -/
theorem ftSphere_visible_false (P : Planes6 α) (s : Sphere3 α) (hunit : normalsLeOne P) (hr : 0 ≤ s.radius)
    (h : ftSphere P s (-1) = false) (q : V3 α) (hq : sphereMem s q) : ¬ strictlyInAllPlanes P q := by
  simp only [ftSphere, chain6] at h
  rw [six_chain_false] at h
  obtain ⟨u0, u1, u2, u3, u4, u5⟩ := hunit
  rintro ⟨s0, s1, s2, s3, s4, s5⟩
  simp only [sphereTerm, neg_one_mul] at h
  rcases h with h | h | h | h | h | h
  · exact sphere_out _ s q u0 hr hq (by linarith) s0
  · exact sphere_out _ s q u1 hr hq (by linarith) s1
  · exact sphere_out _ s q u2 hr hq (by linarith) s2
  · exact sphere_out _ s q u3 hr hq (by linarith) s3
  · exact sphere_out _ s q u4 hr hq (by linarith) s4
  · exact sphere_out _ s q u5 hr hq (by linarith) s5
/-- completelyContains (sphere) = true ⇒ every point of the ball is strictly inside all six planes -/
theorem ftSphere_contains_true (P : Planes6 α) (s : Sphere3 α) (hunit : normalsLeOne P) (hr : 0 ≤ s.radius)
    (h : ftSphere P s 1 = true) (q : V3 α) (hq : sphereMem s q) : strictlyInAllPlanes P q := by
  simp only [ftSphere, chain6] at h
  rw [six_chain_true] at h
  obtain ⟨u0, u1, u2, u3, u4, u5⟩ := hunit
  simp only [sphereTerm, one_mul] at h
  obtain ⟨h0, h1, h2, h3, h4, h5⟩ := h
  exact ⟨sphere_in _ s q u0 hr hq h0, sphere_in _ s q u1 hr hq h1, sphere_in _ s q u2 hr hq h2,
         sphere_in _ s q u3 hr hq h3, sphere_in _ s q u4 hr hq h4, sphere_in _ s q u5 hr hq h5⟩
/-- isVisible (box) = false ⇒ no point of the box is strictly inside all six planes (an empty box has no points) -/
theorem ftBox_visible_false (P : Planes6 α) (bx : Box3 α) (h : ftBox P bx (-1) = false) (q : V3 α) (hq : boxMem bx q) :
    ¬ strictlyInAllPlanes P q := by
  obtain ⟨x0, x1, y0, y1, z0, z1⟩ := id hq
  have e0 : ¬ bx.max.x < bx.min.x := not_lt.mpr (le_trans x0 x1)
  have e1 : ¬ bx.max.y < bx.min.y := not_lt.mpr (le_trans y0 y1)
  have e2 : ¬ bx.max.z < bx.min.z := not_lt.mpr (le_trans z0 z1)
  simp only [ftBox, if_neg e0, if_neg e1, if_neg e2, chain6] at h
  rw [six_chain_false] at h
  rintro ⟨s0, s1, s2, s3, s4, s5⟩
  rcases h with h | h | h | h | h | h
  · exact box_out _ bx q hq h s0
  · exact box_out _ bx q hq h s1
  · exact box_out _ bx q hq h s2
  · exact box_out _ bx q hq h s3
  · exact box_out _ bx q hq h s4
  · exact box_out _ bx q hq h s5
/-- completelyContains (box) = true ⇒ every point of the box is strictly inside all six planes -/
theorem ftBox_contains_true (P : Planes6 α) (bx : Box3 α) (h : ftBox P bx 1 = true) (q : V3 α) (hq : boxMem bx q) :
    strictlyInAllPlanes P q := by
  simp only [ftBox] at h
  split_ifs at h with e0 e1 e2
  simp only [chain6] at h
  rw [six_chain_true] at h
  obtain ⟨h0, h1, h2, h3, h4, h5⟩ := h
  exact ⟨box_in _ bx q hq h0, box_in _ bx q hq h1, box_in _ bx q hq h2, box_in _ bx q hq h3, box_in _ bx q hq h4,
         box_in _ bx q hq h5⟩
/-- an empty box is never visible and never contained -/
theorem ftBox_empty (P : Planes6 α) (bx : Box3 α) (sgn : α) (h : boxEmpty bx) : ftBox P bx sgn = false := by
  simp only [ftBox]
  rcases h with h | h | h <;> split_ifs <;> first | rfl | exact absurd h ‹_›

/-! ## affine camera matrices -/

/-- affine matrix: last column (0,0,0,1) -/
def IsAffine (M : M44 α) : Prop := M.x03 = 0 ∧ M.x13 = 0 ∧ M.x23 = 0 ∧ M.x33 = 1
/-- determinant of the linear part -/
def det3 (M : M44 α) : α :=
  M.x00 * (M.x11 * M.x22 - M.x12 * M.x21) - M.x01 * (M.x10 * M.x22 - M.x12 * M.x20) + M.x02 * (M.x10 * M.x21 - M.x11 * M.x20)

theorem mulM44_affine (M : M44 α) (h : IsAffine M) (v : V3 α) :
    Gen.V3.mulM44 v M = ⟨v.x * M.x00 + v.y * M.x10 + v.z * M.x20 + M.x30, v.x * M.x01 + v.y * M.x11 + v.z * M.x21 + M.x31,
      v.x * M.x02 + v.y * M.x12 + v.z * M.x22 + M.x32⟩ := by
  obtain ⟨h0, h1, h2, h3⟩ := h
  simp only [Gen.V3.mulM44, h0, h1, h2, h3, mul_zero, add_zero, zero_add, div_one]

/-- the triple product scales by the determinant under an affine map -/
theorem triple_affine (M : M44 α) (h : IsAffine M) (p1 p2 p3 q : V3 α) :
    vdot (cross (vsub (Gen.V3.mulM44 p2 M) (Gen.V3.mulM44 p1 M)) (vsub (Gen.V3.mulM44 p3 M) (Gen.V3.mulM44 p1 M)))
        (vsub (Gen.V3.mulM44 q M) (Gen.V3.mulM44 p1 M))
      = det3 M * vdot (cross (vsub p2 p1) (vsub p3 p1)) (vsub q p1) := by
  simp only [mulM44_affine M h, vdot, cross, vsub, det3]
  ring

theorem normSq_ne_zero_of_vdot {c w : V3 α} (h : vdot c w ≠ 0) : normSq c ≠ 0 := by
  intro hz
  have hx := mul_self_nonneg c.x; have hy := mul_self_nonneg c.y; have hzz := mul_self_nonneg c.z
  simp only [normSq] at hz
  have h1 : c.x * c.x = 0 := by linarith
  have h2 : c.y * c.y = 0 := by linarith
  have h3 : c.z * c.z = 0 := by linarith
  apply h
  simp only [vdot, mul_self_eq_zero.mp h1, mul_self_eq_zero.mp h2, mul_self_eq_zero.mp h3, zero_mul, add_zero]

/-- **a plane set from three points, moved by an orientation-preserving affine map**: its equation at the image of `q`
is a positive multiple of the original plane's equation at `q` (same zero set, same side) -/
theorem planeThroughIf_affine {len : V3 α → α} (hl : LenSpec len) (M : M44 α) (h : IsAffine M) (hdet : 0 < det3 M)
    (p1 p2 p3 : V3 α) (hc : normSq (cross (vsub p2 p1) (vsub p3 p1)) ≠ 0) :
    ∃ κ : α, 0 < κ ∧ ∀ q : V3 α,
      planeEval (planeThroughIf len (Gen.V3.mulM44 p1 M) (Gen.V3.mulM44 p2 M) (Gen.V3.mulM44 p3 M)) (Gen.V3.mulM44 q M)
        = κ * planeEval (planeThroughIf len p1 p2 p3) q := by
  have hc' : normSq (cross (vsub (Gen.V3.mulM44 p2 M) (Gen.V3.mulM44 p1 M)) (vsub (Gen.V3.mulM44 p3 M) (Gen.V3.mulM44 p1 M))) ≠ 0 := by
    apply normSq_ne_zero_of_vdot (w := vsub (Gen.V3.mulM44 ⟨p1.x + (cross (vsub p2 p1) (vsub p3 p1)).x,
      p1.y + (cross (vsub p2 p1) (vsub p3 p1)).y, p1.z + (cross (vsub p2 p1) (vsub p3 p1)).z⟩ M) (Gen.V3.mulM44 p1 M))
    rw [triple_affine M h]
    apply mul_ne_zero (ne_of_gt hdet)
    have : vdot (cross (vsub p2 p1) (vsub p3 p1)) (vsub ⟨p1.x + (cross (vsub p2 p1) (vsub p3 p1)).x,
      p1.y + (cross (vsub p2 p1) (vsub p3 p1)).y, p1.z + (cross (vsub p2 p1) (vsub p3 p1)).z⟩ p1)
        = normSq (cross (vsub p2 p1) (vsub p3 p1)) := by
      simp only [vdot, vsub, normSq]; ring
    rw [this]; exact hc
  have l0 := lenSpec_pos hl _ hc
  have l1 := lenSpec_pos hl _ hc'
  refine ⟨det3 M * len (cross (vsub p2 p1) (vsub p3 p1)) /
    len (cross (vsub (Gen.V3.mulM44 p2 M) (Gen.V3.mulM44 p1 M)) (vsub (Gen.V3.mulM44 p3 M) (Gen.V3.mulM44 p1 M))),
    div_pos (mul_pos hdet l0) l1, ?_⟩
  intro q
  rw [planeThroughIf_eq _ _ _ (ne_of_gt l0), planeThroughIf_eq _ _ _ (ne_of_gt l1), planeThrough_eval hl _ _ _ hc,
    planeThrough_eval hl _ _ _ hc', triple_affine M h]
  have := ne_of_gt l0; have := ne_of_gt l1
  field_simp

/-- six plane equations that agree up to positive factors cut out the same (closed and open) region -/
theorem planes_pos_factors (P Q : Planes6 α) (x y : V3 α)
    (h0 : ∃ κ : α, 0 < κ ∧ planeEval P.1 x = κ * planeEval Q.1 y) (h1 : ∃ κ : α, 0 < κ ∧ planeEval P.2.1 x = κ * planeEval Q.2.1 y)
    (h2 : ∃ κ : α, 0 < κ ∧ planeEval P.2.2.1 x = κ * planeEval Q.2.2.1 y)
    (h3 : ∃ κ : α, 0 < κ ∧ planeEval P.2.2.2.1 x = κ * planeEval Q.2.2.2.1 y)
    (h4 : ∃ κ : α, 0 < κ ∧ planeEval P.2.2.2.2.1 x = κ * planeEval Q.2.2.2.2.1 y)
    (h5 : ∃ κ : α, 0 < κ ∧ planeEval P.2.2.2.2.2 x = κ * planeEval Q.2.2.2.2.2 y) :
    (strictlyInAllPlanes P x ↔ strictlyInAllPlanes Q y) ∧ (inAllPlanes P x ↔ inAllPlanes Q y) := by
  obtain ⟨k0, p0, e0⟩ := h0; obtain ⟨k1, p1, e1⟩ := h1; obtain ⟨k2, p2, e2⟩ := h2
  obtain ⟨k3, p3, e3⟩ := h3; obtain ⟨k4, p4, e4⟩ := h4; obtain ⟨k5, p5, e5⟩ := h5
  simp only [strictlyInAllPlanes, inAllPlanes, e0, e1, e2, e3, e4, e5, pos_mul_neg_iff p0, pos_mul_neg_iff p1, pos_mul_neg_iff p2,
    pos_mul_neg_iff p3, pos_mul_neg_iff p4, pos_mul_neg_iff p5, pos_mul_nonpos_iff p0, pos_mul_nonpos_iff p1,
    pos_mul_nonpos_iff p2, pos_mul_nonpos_iff p3, pos_mul_nonpos_iff p4, pos_mul_nonpos_iff p5, and_self]

theorem cross_near (n l r t b : α) :
    cross (vsub ⟨r, b, -n⟩ ⟨l, b, -n⟩) (vsub ⟨r, t, -n⟩ ⟨l, b, -n⟩) = (⟨0, 0, (r - l) * (t - b)⟩ : V3 α) := by
  simp only [cross, vsub]; congr 1 <;> ring
theorem cross_far (f l r t b : α) :
    cross (vsub ⟨l, t, -f⟩ ⟨l, b, -f⟩) (vsub ⟨r, t, -f⟩ ⟨l, b, -f⟩) = (⟨0, 0, -((r - l) * (t - b))⟩ : V3 α) := by
  simp only [cross, vsub]; congr 1 <;> ring

end ImathVerif.C16
