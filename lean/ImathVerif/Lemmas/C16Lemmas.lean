import ImathVerif.Spec.FrustumSpec
import ImathVerif.Gen.Leaf
import Mathlib.Tactic.Ring
import Mathlib.Tactic.FieldSimp
import Mathlib.Tactic.Linarith
import Mathlib.Tactic.SplitIfs
import Mathlib.Tactic.NormNum
import Mathlib.Tactic.Positivity
/-!
# Helper lemmas for C16 (Frustum / FrustumTest)

* consequences of the length specification `LenSpec`;
* `normalizeWith`, `planeThrough`, `planeND`: Lean spellings of the non-degenerate paths of `Vec3::normalize`,
  `Plane3::set (p1, p2, p3)` and `Plane3::set (normal, distance)` (the emitted frustum definitions are shown, by `rfl`-style structure theorems in
  Props/C16.lean, to be built from them), and the sign of their plane equations;
* Cauchy–Schwarz in the form needed for spheres, the support-function bound for boxes.
-/
set_option linter.unusedSimpArgs false
set_option linter.unusedSectionVars false
set_option linter.unusedVariables false
namespace ImathVerif.C16
open ImathVerif ImathVerif.FrustumSpec
variable {α : Type} [Field α] [LinearOrder α] [IsStrictOrderedRing α]

/-! ## LenSpec -/
theorem lenSpec_eq_one {len : V3 α → α} (h : LenSpec len) (v : V3 α) (hv : normSq v = 1) : len v = 1 := by
  obtain ⟨h0, h1⟩ := h v
  rw [hv] at h1
  have : (len v - 1) * (len v + 1) = 0 := by ring_nf; rw [sq, h1]; ring
  rcases mul_eq_zero.mp this with h2 | h2
  · linarith
  · linarith

theorem lenSpec_pos {len : V3 α → α} (h : LenSpec len) (v : V3 α) (hv : normSq v ≠ 0) : 0 < len v := by
  obtain ⟨h0, h1⟩ := h v
  rcases h0.lt_or_eq with h2 | h2
  · exact h2
  · exfalso; apply hv; rw [← h1, ← h2]; ring

theorem lenSpec_eq_zero {len : V3 α → α} (h : LenSpec len) (v : V3 α) (hv : normSq v = 0) : len v = 0 := by
  obtain ⟨h0, h1⟩ := h v
  rw [hv] at h1
  exact mul_self_eq_zero.mp h1

theorem normSq_nonneg (v : V3 α) : 0 ≤ normSq v := by
  have := mul_self_nonneg v.x; have := mul_self_nonneg v.y; have := mul_self_nonneg v.z
  simp only [normSq]; linarith

theorem normSq_ne_zero_of_x (x y z : α) (hx : x ≠ 0) : normSq (⟨x, y, z⟩ : V3 α) ≠ 0 := by
  have : 0 < x * x := mul_self_pos.mpr hx
  have := mul_self_nonneg y; have := mul_self_nonneg z
  simp only [normSq]; linarith
theorem normSq_ne_zero_of_y (x y z : α) (hy : y ≠ 0) : normSq (⟨x, y, z⟩ : V3 α) ≠ 0 := by
  have : 0 < y * y := mul_self_pos.mpr hy
  have := mul_self_nonneg x; have := mul_self_nonneg z
  simp only [normSq]; linarith
theorem normSq_ne_zero_of_z (x y z : α) (hz : z ≠ 0) : normSq (⟨x, y, z⟩ : V3 α) ≠ 0 := by
  have : 0 < z * z := mul_self_pos.mpr hz
  have := mul_self_nonneg x; have := mul_self_nonneg y
  simp only [normSq]; linarith

/-! ## normalize and the two plane constructors -/

/-- `Vec3::normalize` with the length function `len`, on its non-degenerate path (`len v ≠ 0`): divide by the length -/
def normalizeWith (len : V3 α → α) (v : V3 α) : V3 α := ⟨v.x / len v, v.y / len v, v.z / len v⟩

/-- `a % b` -/
def cross (a b : V3 α) : V3 α := ⟨a.y * b.z - a.z * b.y, a.z * b.x - a.x * b.z, a.x * b.y - a.y * b.x⟩
def vsub (a b : V3 α) : V3 α := ⟨a.x - b.x, a.y - b.y, a.z - b.z⟩
def vdot (a b : V3 α) : α := a.x * b.x + a.y * b.y + a.z * b.z

/-- `Plane3::set (p1, p2, p3)` -/
def planeThrough (len : V3 α → α) (p1 p2 p3 : V3 α) : Plane3 α :=
  ⟨normalizeWith len (cross (vsub p2 p1) (vsub p3 p1)), vdot (normalizeWith len (cross (vsub p2 p1) (vsub p3 p1))) p1⟩

/-- `Plane3::set (normal, distance)` -/
def planeND (len : V3 α → α) (nv : V3 α) (d : α) : Plane3 α := ⟨normalizeWith len nv, d⟩

theorem normalizeWith_normSq {len : V3 α → α} (h : LenSpec len) (v : V3 α) (hv : normSq v ≠ 0) :
    normSq (normalizeWith len v) = 1 := by
  have hp := lenSpec_pos h v hv
  have h1 := (h v).2
  simp only [normalizeWith, normSq] at h1 ⊢
  have hne := ne_of_gt hp
  field_simp
  linarith

/-- with a correct length function, what `Vec3::normalize` leaves behind is a unit vector or (zero length: untouched) zero -/
theorem normalize_normSq_le_one {len : V3 α → α} (h : LenSpec len) (v : V3 α) :
    (len v = 0 → normSq v ≤ 1) ∧ (len v ≠ 0 → normSq (⟨v.x / len v, v.y / len v, v.z / len v⟩ : V3 α) ≤ 1) := by
  constructor
  · intro h0
    have := (h v).2
    rw [h0, mul_zero] at this
    rw [← this]; exact zero_le_one
  · intro h0
    have hv : normSq v ≠ 0 := by
      intro hz; exact h0 (lenSpec_eq_zero h v hz)
    exact le_of_eq (normalizeWith_normSq h v hv)

/-- value of the plane equation of `Plane3::set (normal, distance)` -/
theorem planeND_eval {len : V3 α → α} (h : LenSpec len) (nv : V3 α) (d : α) (hv : normSq nv ≠ 0) (p : V3 α) :
    planeEval (planeND len nv d) p = (vdot nv p - d * len nv) / len nv := by
  have hne := ne_of_gt (lenSpec_pos h nv hv)
  simp only [planeND, planeEval, normalizeWith, vdot]
  field_simp

/-- value of the plane equation of `Plane3::set (p1, p2, p3)`: `((p2−p1) × (p3−p1)) · (p − p1) / |…|` -/
theorem planeThrough_eval {len : V3 α → α} (h : LenSpec len) (p1 p2 p3 : V3 α)
    (hv : normSq (cross (vsub p2 p1) (vsub p3 p1)) ≠ 0) (p : V3 α) :
    planeEval (planeThrough len p1 p2 p3) p =
      vdot (cross (vsub p2 p1) (vsub p3 p1)) (vsub p p1) / len (cross (vsub p2 p1) (vsub p3 p1)) := by
  have hne := ne_of_gt (lenSpec_pos h _ hv)
  simp only [planeThrough, planeEval, normalizeWith, vdot]
  simp only [vsub]
  field_simp
  ring

/-- `Vec3::normalize` including its zero-length path (the vector is left untouched) -/
def normalizeIf {α : Type} [Div α] [DecidableEq α] [OfNat α 0] (len : V3 α → α) (v : V3 α) : V3 α :=
  if len v = (0 : α) then v else ⟨v.x / len v, v.y / len v, v.z / len v⟩
/-- `Plane3::set (p1, p2, p3)` including the degenerate path -/
def planeThroughIf (len : V3 α → α) (p1 p2 p3 : V3 α) : Plane3 α :=
  ⟨normalizeIf len (cross (vsub p2 p1) (vsub p3 p1)), vdot (normalizeIf len (cross (vsub p2 p1) (vsub p3 p1))) p1⟩

theorem normalizeIf_normSq_le_one {len : V3 α → α} (h : LenSpec len) (v : V3 α) : normSq (normalizeIf len v) ≤ 1 := by
  unfold normalizeIf
  split_ifs with h0
  · exact (normalize_normSq_le_one h v).1 h0
  · exact (normalize_normSq_le_one h v).2 h0
theorem planeThroughIf_eq {len : V3 α → α} (p1 p2 p3 : V3 α) (h0 : len (cross (vsub p2 p1) (vsub p3 p1)) ≠ 0) :
    planeThroughIf len p1 p2 p3 = planeThrough len p1 p2 p3 := by
  simp only [planeThroughIf, planeThrough, normalizeIf, normalizeWith, if_neg h0]

/-- a correct length function on axis vectors -/
theorem lenSpec_axis_z {len : V3 α → α} (h : LenSpec len) (k : α) : len ⟨0, 0, k⟩ = |k| := by
  obtain ⟨h0, h1⟩ := h ⟨0, 0, k⟩
  simp only [normSq, mul_zero, zero_add] at h1
  have : |len (⟨0, 0, k⟩ : V3 α)| = |k| := abs_eq_abs.mpr (by
    have : (len (⟨0, 0, k⟩ : V3 α) - k) * (len (⟨0, 0, k⟩ : V3 α) + k) = 0 := by ring_nf; rw [sq, h1]; ring
    rcases mul_eq_zero.mp this with h2 | h2
    · left; linarith
    · right; linarith)
  rwa [abs_of_nonneg h0] at this
theorem lenSpec_axis_y {len : V3 α → α} (h : LenSpec len) (k : α) : len ⟨0, k, 0⟩ = |k| := by
  obtain ⟨h0, h1⟩ := h ⟨0, k, 0⟩
  simp only [normSq, mul_zero, zero_add, add_zero] at h1
  have : |len (⟨0, k, 0⟩ : V3 α)| = |k| := abs_eq_abs.mpr (by
    have : (len (⟨0, k, 0⟩ : V3 α) - k) * (len (⟨0, k, 0⟩ : V3 α) + k) = 0 := by ring_nf; rw [sq, h1]; ring
    rcases mul_eq_zero.mp this with h2 | h2
    · left; linarith
    · right; linarith)
  rwa [abs_of_nonneg h0] at this
theorem lenSpec_axis_x {len : V3 α → α} (h : LenSpec len) (k : α) : len ⟨k, 0, 0⟩ = |k| := by
  obtain ⟨h0, h1⟩ := h ⟨k, 0, 0⟩
  simp only [normSq, mul_zero, add_zero] at h1
  have : |len (⟨k, 0, 0⟩ : V3 α)| = |k| := abs_eq_abs.mpr (by
    have : (len (⟨k, 0, 0⟩ : V3 α) - k) * (len (⟨k, 0, 0⟩ : V3 α) + k) = 0 := by ring_nf; rw [sq, h1]; ring
    rcases mul_eq_zero.mp this with h2 | h2
    · left; linarith
    · right; linarith)
  rwa [abs_of_nonneg h0] at this

theorem div_pos_nonpos_iff {a c : α} (hc : 0 < c) : a / c ≤ 0 ↔ a ≤ 0 := by
  constructor
  · intro h; by_contra hn; rw [not_le] at hn; have := div_pos hn hc; linarith
  · intro h; exact div_nonpos_of_nonpos_of_nonneg h hc.le
theorem div_pos_neg_iff {a c : α} (hc : 0 < c) : a / c < 0 ↔ a < 0 := by
  constructor
  · intro h; by_contra hn; rw [not_lt] at hn; have := div_nonneg hn hc.le; linarith
  · intro h; exact div_neg_of_neg_of_pos h hc
theorem pos_mul_nonpos_iff {a c : α} (hc : 0 < c) : c * a ≤ 0 ↔ a ≤ 0 := by
  constructor
  · intro h; by_contra hn; rw [not_le] at hn; have := mul_pos hc hn; linarith
  · intro h; exact mul_nonpos_of_nonneg_of_nonpos hc.le h
theorem pos_mul_neg_iff {a c : α} (hc : 0 < c) : c * a < 0 ↔ a < 0 := by
  constructor
  · intro h; by_contra hn; rw [not_lt] at hn; have := mul_nonneg hc.le hn; linarith
  · intro h; exact mul_neg_of_pos_of_neg hc h

/-! ## support-function bounds used by the culling tests -/

/-- `sabs` is the absolute value -/
theorem sabs_eq_abs (a : α) : sabs a = |a| := by
  unfold sabs
  split_ifs with h
  · exact (abs_of_pos h).symm
  · exact (abs_of_nonpos (not_lt.mp h)).symm

/-- Cauchy–Schwarz: a vector of norm ≤ 1 moves the plane equation by at most the radius inside a ball -/
theorem dot_le_radius (nx ny nz wx wy wz rad : α) (hn : nx * nx + ny * ny + nz * nz ≤ 1) (hr : 0 ≤ rad)
    (hw : wx * wx + wy * wy + wz * wz ≤ rad * rad) : nx * wx + ny * wy + nz * wz ≤ rad := by
  by_contra hc
  rw [not_le] at hc
  have hpos : 0 < nx * wx + ny * wy + nz * wz := lt_of_le_of_lt hr hc
  -- (n·w)² ≤ |n|²|w|² (Lagrange identity)
  have hcs : (nx * wx + ny * wy + nz * wz) * (nx * wx + ny * wy + nz * wz)
      ≤ (nx * nx + ny * ny + nz * nz) * (wx * wx + wy * wy + wz * wz) := by
    nlinarith [mul_self_nonneg (nx * wy - ny * wx), mul_self_nonneg (nx * wz - nz * wx), mul_self_nonneg (ny * wz - nz * wy)]
  have hww : 0 ≤ wx * wx + wy * wy + wz * wz := by
    have := mul_self_nonneg wx; have := mul_self_nonneg wy; have := mul_self_nonneg wz; linarith
  have h1 : (nx * nx + ny * ny + nz * nz) * (wx * wx + wy * wy + wz * wz) ≤ 1 * (rad * rad) :=
    mul_le_mul hn hw hww zero_le_one
  have h2 : rad * rad < (nx * wx + ny * wy + nz * wz) * (nx * wx + ny * wy + nz * wz) :=
    mul_lt_mul'' hc hc hr hr
  linarith

/-- a coordinate inside `[lo, hi]` is within the half-extent of the centre -/
theorem abs_sub_center_le {lo hi q : α} (h1 : lo ≤ q) (h2 : q ≤ hi) : |q - (lo + hi) / 2| ≤ hi - (lo + hi) / 2 := by
  rw [abs_le]; constructor <;> linarith

/-- one coordinate of the support-function bound: `a·q` differs from `a·c` by at most `|a|·e` when `|q − c| ≤ e` -/
theorem mul_sub_le_abs_mul {a q c e : α} (h : |q - c| ≤ e) : a * q ≤ a * c + |a| * e ∧ a * c - |a| * e ≤ a * q := by
  have h1 : |a * (q - c)| ≤ |a| * e := by rw [abs_mul]; exact mul_le_mul_of_nonneg_left h (abs_nonneg a)
  rw [abs_le] at h1
  constructor <;> nlinarith [h1.1, h1.2]

end ImathVerif.C16
