import ImathVerif.Model.Half
import ImathVerif.Spec.HalfSpec
/-!
Helper lemmas for C01: `f2h` (model of imath_float_to_half) is IEEE
round-to-nearest-even on all 2^32 float bit patterns.  Structural proofs only
(no enumeration).  Core Lean only.

Route:
1. `f2h_eq`     : `f2h v = sign * 2^15 + f2hMag (v % 2^31)` where `f2hMag` is the
                  magnitude function written with `/` and `%` instead of bit operations.
2. `hval_succ`  : gap formula for the binary16 denotation; `hval_lt` strict monotonicity.
3. `rne_bracket`: a value bracketed by two neighbouring magnitudes and resolved by
                  "compare with the midpoint, tie to even" is `IsRNE16`.
4. range lemmas : flush / subnormal / normal / overflow.
-/
namespace ImathVerif.Half

/-! ### 1. bit operations to arithmetic -/

theorem and_0x8000 (x : Nat) : x &&& 0x8000 = (x / 32768 % 2) * 32768 := by
  have h1 : (x &&& 0x8000) / 2 ^ 15 = x / 2 ^ 15 % 2 := by
    rw [Nat.and_div_two_pow]
    show x / 2 ^ 15 &&& 1 = _
    rw [Nat.and_one_is_mod]
  have h2 : (x &&& 0x8000) % 2 ^ 15 = 0 := by
    rw [Nat.and_mod_two_pow]
    show x % 2 ^ 15 &&& 0 = 0
    exact Nat.and_zero _
  omega

theorem and_0x7fffffff (x : Nat) : x &&& 0x7fffffff = x % 2147483648 :=
  Nat.and_two_pow_sub_one_eq_mod x 31

theorem and_0x7fffff (x : Nat) : x &&& 0x7fffff = x % 8388608 :=
  Nat.and_two_pow_sub_one_eq_mod x 23

/-- `sign ||| x` for a sign bit `s * 2^15` and a 15-bit `x` -/
theorem sign_or (s x : Nat) (_hs : s ≤ 1) (hx : x < 32768) : s * 32768 ||| x = s * 32768 + x := by
  have := Nat.two_pow_add_eq_or_of_lt (i := 15) (b := x) hx s
  rw [Nat.mul_comm] at this
  exact this.symm

theorem or_0x7c00 (x : Nat) (hx : x < 1024) : 0x7c00 ||| x = 0x7c00 + x := by
  have := Nat.two_pow_add_eq_or_of_lt (i := 10) (b := x) hx 31
  exact this.symm

theorem or_0x800000 (x : Nat) (hx : x < 8388608) : 0x800000 ||| x = 8388608 + x := by
  have := Nat.two_pow_add_eq_or_of_lt (i := 23) (b := x) hx 1
  exact this.symm

theorem or_ite_one (m : Nat) : (m ||| (if m = 0 then 1 else 0)) = if m = 0 then 1 else m := by
  split
  · next h => subst h; rfl
  · exact Nat.or_zero m

/-- the round-up increment: 1 iff the remainder is above half, or equal to half with odd quotient -/
def rnd (rem half q : Nat) : Nat := if rem > half ∨ (rem = half ∧ q % 2 = 1) then 1 else 0

/-- magnitude (low 15 bits) of `f2h`, as a function of the float's magnitude bits -/
def f2hMag (ui : Nat) : Nat :=
  if 0x38800000 ≤ ui then
    if 0x7f800000 ≤ ui then
      if ui = 0x7f800000 then 0x7c00
      else 0x7c00 + (if ui % 8388608 / 8192 = 0 then 1 else ui % 8388608 / 8192)
    else if 0x477fefff < ui then 0x7c00
    else (ui - 0x38000000) / 8192 + rnd ((ui - 0x38000000) % 8192) 4096 ((ui - 0x38000000) / 8192)
  else if ui < 0x33000001 then 0
  else
    (8388608 + ui % 8388608) / 2 ^ (126 - ui / 8388608) +
      rnd ((8388608 + ui % 8388608) % 2 ^ (126 - ui / 8388608)) (2 ^ (125 - ui / 8388608))
        ((8388608 + ui % 8388608) / 2 ^ (126 - ui / 8388608))

theorem rne_core (u : Nat) :
    (u + 0x00000fff + ((u / 2 ^ 13) &&& 1)) / 2 ^ 13 = u / 8192 + rnd (u % 8192) 4096 (u / 8192) := by
  unfold rnd
  simp only [Nat.and_one_is_mod]
  split <;> omega

theorem sub_core (E M : Nat) (hE1 : 102 ≤ E) (hE2 : E ≤ 112) (hM : M < 16777216) :
    (M * 2 ^ (32 - (126 - E)) % 4294967296 > 0x80000000 ↔ M % 2 ^ (126 - E) > 2 ^ (125 - E)) ∧
    (M * 2 ^ (32 - (126 - E)) % 4294967296 = 0x80000000 ↔ M % 2 ^ (126 - E) = 2 ^ (125 - E)) ∧
    M / 2 ^ (126 - E) < 1024 := by
  have : E = 102 ∨ E = 103 ∨ E = 104 ∨ E = 105 ∨ E = 106 ∨ E = 107 ∨ E = 108 ∨ E = 109 ∨
      E = 110 ∨ E = 111 ∨ E = 112 := by omega
  rcases this with h | h | h | h | h | h | h | h | h | h | h <;> subst h <;> omega

theorem sub_sel (s q rm hf R : Nat) (hs : s ≤ 1) (hq : q < 1024)
    (c1 : R > 2147483648 ↔ rm > hf) (c2 : R = 2147483648 ↔ rm = hf) :
    (if R > 2147483648 ∨ (R = 2147483648 ∧ (s * 32768 + q) % 2 ≠ 0) then (s * 32768 + q + 1) % 65536
      else s * 32768 + q) = s * 32768 + (q + rnd rm hf q) := by
  unfold rnd
  split <;> split <;> omega

theorem f2h_eq (v : Nat) (hv : v < 4294967296) :
    f2h v = (v / 2147483648) * 32768 + f2hMag (v % 2147483648) := by
  have hs : v / 2147483648 ≤ 1 := by omega
  have hret : (v / 2 ^ 16) &&& 0x8000 = (v / 2147483648) * 32768 := by
    rw [and_0x8000]; omega
  unfold f2h f2hMag
  simp only [and_0x7fffffff, and_0x7fffff, Nat.shiftRight_eq_div_pow, hret]
  generalize v / 2147483648 = s at *
  have hui : v % 2147483648 < 2147483648 := Nat.mod_lt _ (by decide)
  generalize v % 2147483648 = ui at *
  have hF : ui % 8388608 < 8388608 := Nat.mod_lt _ (by decide)
  by_cases h1 : 947912704 ≤ ui
  · simp only [ge_iff_le, h1, if_true]
    by_cases h2 : 2139095040 ≤ ui
    · simp only [h2, if_true]
      have hm : ui % 8388608 / 2 ^ 13 < 1024 := by omega
      by_cases h3 : ui = 2139095040
      · simp only [h3, if_true]
        exact sign_or s _ hs (by decide)
      · simp only [h3, if_false]
        have e1 : u16 (ui % 8388608 / 2 ^ 13) = ui % 8388608 / 2 ^ 13 := by unfold u16; omega
        rw [e1, Nat.or_assoc, Nat.or_assoc, or_ite_one, show (8192 : Nat) = 2 ^ 13 from rfl]
        have : (if ui % 8388608 / 2 ^ 13 = 0 then 1 else ui % 8388608 / 2 ^ 13) < 1024 := by
          split <;> omega
        rw [or_0x7c00 _ this, sign_or s _ hs (by omega)]
    · simp only [h2, if_false]
      by_cases h3 : 1199566847 < ui
      · simp only [gt_iff_lt, h3, if_true]
        exact sign_or s _ hs (by decide)
      · simp only [gt_iff_lt, h3, if_false]
        rw [rne_core]
        have hb : (ui - 939524096) / 8192 + rnd ((ui - 939524096) % 8192) 4096 ((ui - 939524096) / 8192)
            < 32768 := by unfold rnd; split <;> omega
        have e1 : ∀ x, x < 32768 → u16 x = x := by intro x hx; unfold u16; omega
        rw [e1 _ hb, sign_or s _ hs hb]
  · simp only [ge_iff_le, h1, if_false]
    by_cases h2 : ui < 855638017
    · simp only [h2, if_true]; omega
    · simp only [h2, if_false]
      have hE1 : 102 ≤ ui / 8388608 := by omega
      have hE2 : ui / 8388608 ≤ 112 := by omega
      rw [or_0x800000 _ hF, show (2 : Nat) ^ 23 = 8388608 from rfl]
      have hM : 8388608 + ui % 8388608 < 16777216 := by omega
      obtain ⟨c1, c2, c3⟩ := sub_core (ui / 8388608) (8388608 + ui % 8388608) hE1 hE2 hM
      generalize 8388608 + ui % 8388608 = M at *
      generalize ui / 8388608 = E at *
      rw [sign_or s _ hs (by omega)]
      simp only [Nat.shiftLeft_eq, u32, u16, Nat.and_one_is_mod]
      exact sub_sel _ _ _ _ _ hs c3 c1 c2

/-! ### 2. the denotations: gap formula and strict monotonicity -/

theorem hval_succ (m : Nat) : hval (m + 1) = hval m + 2 ^ (m / 1024 - 1) := by
  unfold hval
  by_cases hf : m % 1024 = 1023
  · have e1 : (m + 1) / 1024 = m / 1024 + 1 := by omega
    have e2 : (m + 1) % 1024 = 0 := by omega
    rw [e1, e2, hf]
    by_cases he : m / 1024 = 0
    · rw [he]; rfl
    · have : m / 1024 = (m / 1024 - 1) + 1 := by omega
      rw [if_neg (by omega), if_neg he, Nat.add_sub_cancel]
      conv => lhs; rw [this, Nat.pow_succ]
      generalize 2 ^ (m / 1024 - 1) = P
      omega
  · have e1 : (m + 1) / 1024 = m / 1024 := by omega
    have e2 : (m + 1) % 1024 = m % 1024 + 1 := by omega
    rw [e1, e2]
    by_cases he : m / 1024 = 0
    · rw [if_pos he, if_pos he, he]
    · rw [if_neg he, if_neg he, ← Nat.add_assoc, Nat.add_mul, Nat.one_mul]

theorem fval_succ (m : Nat) : fval (m + 1) = fval m + 2 ^ (m / 8388608 - 1) := by
  unfold fval
  by_cases hf : m % 8388608 = 8388607
  · have e1 : (m + 1) / 8388608 = m / 8388608 + 1 := by omega
    have e2 : (m + 1) % 8388608 = 0 := by omega
    rw [e1, e2, hf]
    by_cases he : m / 8388608 = 0
    · rw [he]; rfl
    · have : m / 8388608 = (m / 8388608 - 1) + 1 := by omega
      rw [if_neg (by omega), if_neg he, Nat.add_sub_cancel]
      conv => lhs; rw [this, Nat.pow_succ]
      generalize 2 ^ (m / 8388608 - 1) = P
      omega
  · have e1 : (m + 1) / 8388608 = m / 8388608 := by omega
    have e2 : (m + 1) % 8388608 = m % 8388608 + 1 := by omega
    rw [e1, e2]
    by_cases he : m / 8388608 = 0
    · rw [if_pos he, if_pos he, he]
    · rw [if_neg he, if_neg he, ← Nat.add_assoc, Nat.add_mul, Nat.one_mul]

theorem lt_of_succ_gap (f : Nat → Nat) (g : Nat → Nat) (hs : ∀ m, f (m + 1) = f m + 2 ^ g m) :
    ∀ a b, a < b → f a < f b := by
  intro a b hab
  induction b with
  | zero => omega
  | succ n ih =>
    have hp : 0 < 2 ^ g n := Nat.pow_pos (by decide)
    rw [hs n]
    by_cases h : a = n
    · subst h; omega
    · have := ih (by omega); omega

theorem hval_lt : ∀ a b, a < b → hval a < hval b := lt_of_succ_gap hval _ hval_succ
theorem fval_lt : ∀ a b, a < b → fval a < fval b := lt_of_succ_gap fval _ fval_succ

theorem hval149_lt (a b : Nat) (h : a < b) : hval149 a < hval149 b := by
  unfold hval149
  exact Nat.mul_lt_mul_of_pos_right (hval_lt a b h) (Nat.pow_pos (by decide))

theorem fval_le (a b : Nat) (h : a ≤ b) : fval a ≤ fval b := by
  by_cases e : a = b
  · subst e; exact Nat.le_refl _
  · exact Nat.le_of_lt (fval_lt a b (by omega))

theorem fval_lt_iff (a b : Nat) : fval a < fval b ↔ a < b := by
  constructor
  · intro h
    by_cases c : a < b
    · exact c
    · have := fval_le b a (by omega); omega
  · exact fval_lt a b

theorem fval_le_iff (a b : Nat) : fval a ≤ fval b ↔ a ≤ b := by
  constructor
  · intro h
    by_cases c : a ≤ b
    · exact c
    · have := fval_lt b a (by omega); omega
  · exact fval_le a b

/-! ### 3. bracket + midpoint comparison + tie-to-even  ==>  nearest-even -/

/-- generic: `f` strictly increasing, `f q ≤ X ≤ f (q+1)`, `r` chosen between `q` and `q+1`
by comparing `2X` with `f q + f (q+1)`, ties to the even one. -/
theorem nearest_of_bracket (f : Nat → Nat) (mono : ∀ a b, a < b → f a < f b) (X q r : Nat)
    (lo : f q ≤ X) (hi : X ≤ f (q + 1))
    (sel : (r = q ∧ (2 * X < f q + f (q + 1) ∨ (2 * X = f q + f (q + 1) ∧ q % 2 = 0))) ∨
           (r = q + 1 ∧ (f q + f (q + 1) < 2 * X ∨ (2 * X = f q + f (q + 1) ∧ q % 2 = 1)))) :
    ∀ m, dist X (f r) ≤ dist X (f m) ∧ (dist X (f r) = dist X (f m) → m ≠ r → r % 2 = 0) := by
  intro m
  have hm : (m < q ∧ f m < f q) ∨ m = q ∨ m = q + 1 ∨ (q + 1 < m ∧ f (q + 1) < f m) := by
    by_cases h1 : m < q
    · exact Or.inl ⟨h1, mono _ _ h1⟩
    · by_cases h2 : q + 1 < m
      · exact Or.inr (Or.inr (Or.inr ⟨h2, mono _ _ h2⟩))
      · omega
  have hq := mono q (q + 1) (by omega)
  unfold dist
  rcases sel with ⟨hr, hs⟩ | ⟨hr, hs⟩ <;> subst hr <;>
    rcases hm with ⟨h1, h2⟩ | h | h | ⟨h1, h2⟩ <;> (try subst h) <;> omega

/-- the form used below: everything measured in units of `p`; `X` sits `rem` units above
`hval149 q`, the next magnitude is `2*half` units above it, and the result is `q + rnd rem half q`. -/
theorem rne_of_rnd (X p y rem half q : Nat) (hp : 0 < p) (hq : q < 0x7c00)
    (hX : X = p * (y + rem)) (h1 : hval149 q = p * y) (h2 : hval149 (q + 1) = p * (y + 2 * half))
    (hrem : rem ≤ 2 * half) : IsRNE16 X (q + rnd rem half q) := by
  have hr : rnd rem half q ≤ 1 := by unfold rnd; split <;> omega
  refine ⟨by omega, fun m _ => ?_⟩
  apply nearest_of_bracket hval149 hval149_lt X q
  · rw [h1, hX]; exact Nat.mul_le_mul_left p (by omega)
  · rw [h2, hX]; exact Nat.mul_le_mul_left p (by omega)
  · rw [h1, h2, hX, ← Nat.mul_add, Nat.mul_left_comm 2 p]
    have lt : ∀ a b, p * a < p * b ↔ a < b := fun a b => Nat.mul_lt_mul_left hp
    have eq : ∀ a b, p * a = p * b ↔ a = b := fun a b => Nat.mul_right_inj (by omega)
    rw [lt, lt, eq]
    unfold rnd
    split <;> omega

/-- at or above 2^16 everything rounds to the top pattern -/
theorem rne_top (X : Nat) (h : hval149 0x7c00 ≤ X) : IsRNE16 X 0x7c00 := by
  refine ⟨by omega, fun m hm => ?_⟩
  by_cases e : m = 0x7c00
  · subst e; exact ⟨Nat.le_refl _, fun _ h => absurd rfl h⟩
  · have := hval149_lt m 0x7c00 (by omega)
    unfold dist
    omega

/-! ### 4. the ranges -/

theorem fval_eq (u : Nat) (h : 8388608 ≤ u) :
    fval u = 2 ^ (u / 8388608 - 1) * (8388608 + u % 8388608) := by
  unfold fval
  rw [if_neg (by omega), Nat.mul_comm]

/-- normal results, including the part of the top binade that rounds up to 2^16 -/
theorem rne_normal (ui : Nat) (h1 : 0x38800000 ≤ ui) (h2 : ui < 0x47800000) :
    IsRNE16 (fval ui) ((ui - 0x38000000) / 8192 +
      rnd ((ui - 0x38000000) % 8192) 4096 ((ui - 0x38000000) / 8192)) := by
  have hk : ui / 8388608 = (ui / 8388608 - 113) + 113 := by omega
  have hr : (ui - 0x38000000) % 8192 = ui % 8388608 % 8192 := by omega
  have hq1 : (ui - 0x38000000) / 8192 / 1024 = (ui / 8388608 - 113) + 1 := by omega
  have hq2 : (ui - 0x38000000) / 8192 % 1024 = ui % 8388608 / 8192 := by omega
  have hqb : (ui - 0x38000000) / 8192 < 0x7c00 := by omega
  have hF : 8388608 + ui % 8388608 = (1024 + ui % 8388608 / 8192) * 8192 + ui % 8388608 % 8192 := by
    omega
  have hX := fval_eq ui (by omega)
  rw [hF, hk, Nat.add_sub_assoc (by decide)] at hX
  rw [hr]
  generalize ui / 8388608 - 113 = k at *
  generalize (ui - 0x38000000) / 8192 = q at *
  generalize ui % 8388608 / 8192 = a at *
  generalize ui % 8388608 % 8192 = rem at *
  have hp : (2 : Nat) ^ (k + (113 - 1)) = 2 ^ k * 2 ^ 112 := Nat.pow_add 2 k 112
  have e125 : (2 : Nat) ^ 125 = 2 ^ 112 * 8192 := by decide
  have hv : hval149 q = 2 ^ (k + (113 - 1)) * ((1024 + a) * 8192) := by
    unfold hval149 hval
    rw [hq1, hq2, if_neg (by omega), Nat.add_sub_cancel, hp, e125]
    ac_rfl
  apply rne_of_rnd (fval ui) (2 ^ (k + (113 - 1))) ((1024 + a) * 8192) rem 4096 q
    (Nat.pow_pos (by decide)) hqb hX hv
  · have : hval149 (q + 1) = hval149 q + 2 ^ (q / 1024 - 1) * 2 ^ 125 := by
      unfold hval149; rw [hval_succ, Nat.add_mul]
    rw [this, hv, hq1, Nat.add_sub_cancel, show 2 * 4096 = 8192 from rfl, Nat.mul_add, hp, e125]
    ac_rfl
  · omega

theorem hval_small (q : Nat) (h : q < 1024) : hval q = q := by
  unfold hval
  rw [if_pos (by omega)]; omega

/-- abstract form of the subnormal-result range: `M` is the 24-bit significand, the float is
`M * 2^e1`, and `e1 + (t+1) = 125` -/
theorem rne_subnormal_aux (X M e1 t : Nat) (he : e1 + (t + 1) = 125) (hX : X = 2 ^ e1 * M)
    (hq : M / 2 ^ (t + 1) < 1024) :
    IsRNE16 X (M / 2 ^ (t + 1) + rnd (M % 2 ^ (t + 1)) (2 ^ t) (M / 2 ^ (t + 1))) := by
  have e125 : (2 : Nat) ^ 125 = 2 ^ e1 * 2 ^ (t + 1) := by rw [← Nat.pow_add, he]
  have hdm : 2 ^ (t + 1) * (M / 2 ^ (t + 1)) + M % 2 ^ (t + 1) = M := Nat.div_add_mod M _
  have hml : M % 2 ^ (t + 1) < 2 ^ (t + 1) := Nat.mod_lt _ (Nat.pow_pos (by decide))
  have hps : (2 : Nat) ^ (t + 1) = 2 * 2 ^ t := by rw [Nat.pow_succ, Nat.mul_comm]
  generalize M / 2 ^ (t + 1) = q at *
  generalize M % 2 ^ (t + 1) = rem at *
  have hv : hval149 q = 2 ^ e1 * (q * 2 ^ (t + 1)) := by
    unfold hval149; rw [hval_small q hq, e125]; ac_rfl
  apply rne_of_rnd X (2 ^ e1) (q * 2 ^ (t + 1)) rem (2 ^ t) q (Nat.pow_pos (by decide)) (by omega) _ hv
  · unfold hval149
    rw [hval_succ, hval_small q hq, show q / 1024 - 1 = 0 by omega, e125, ← hps]
    show (q + 1) * _ = _
    rw [Nat.add_mul, Nat.one_mul, Nat.mul_add]
    ac_rfl
  · rw [← hps]; omega
  · rw [hX, ← hdm, Nat.mul_comm q]

theorem rne_subnormal (ui : Nat) (h1 : 0x33000001 ≤ ui) (h2 : ui < 0x38800000) :
    IsRNE16 (fval ui) ((8388608 + ui % 8388608) / 2 ^ (126 - ui / 8388608) +
      rnd ((8388608 + ui % 8388608) % 2 ^ (126 - ui / 8388608)) (2 ^ (125 - ui / 8388608))
        ((8388608 + ui % 8388608) / 2 ^ (126 - ui / 8388608))) := by
  have hE1 : 102 ≤ ui / 8388608 := by omega
  have hE2 : ui / 8388608 ≤ 112 := by omega
  have hM : 8388608 + ui % 8388608 < 16777216 := by omega
  obtain ⟨_, _, c3⟩ := sub_core (ui / 8388608) (8388608 + ui % 8388608) hE1 hE2 hM
  have hX := fval_eq ui (by omega)
  have e1 : 126 - ui / 8388608 = (125 - ui / 8388608) + 1 := by omega
  have e2 : ui / 8388608 - 1 + ((125 - ui / 8388608) + 1) = 125 := by omega
  rw [e1] at c3 ⊢
  exact rne_subnormal_aux _ _ _ _ e2 hX c3

/-- inputs up to and including 2^-25 round to zero -/
theorem rne_flush (ui : Nat) (h : ui < 0x33000001) : IsRNE16 (fval ui) 0 := by
  have hle : fval ui ≤ 2 ^ 124 := by
    have := fval_le ui 0x33000000 (by omega)
    have e : fval 0x33000000 = 2 ^ 124 := by decide
    omega
  have := rne_of_rnd (fval ui) 1 0 (fval ui) (2 ^ 124) 0 (by decide) (by decide) (by omega)
    (by decide) (by decide) (by omega)
  have e : rnd (fval ui) (2 ^ 124) 0 = 0 := by unfold rnd; rw [if_neg (by omega)]
  rw [e] at this
  exact this

theorem rne_overflow (ui : Nat) (h : 0x47800000 ≤ ui) : IsRNE16 (fval ui) 0x7c00 := by
  apply rne_top
  have := fval_le 0x47800000 ui h
  have e : fval 0x47800000 = hval149 0x7c00 := by decide
  omega

/-! ### 5. the magnitude function -/

theorem sub_bounds (E M : Nat) (hE1 : 102 ≤ E) (hE2 : E ≤ 112) (hM1 : 8388608 ≤ M)
    (hM2 : M < 16777216) (h : E = 102 → 8388608 < M) :
    1 ≤ M / 2 ^ (126 - E) + rnd (M % 2 ^ (126 - E)) (2 ^ (125 - E)) (M / 2 ^ (126 - E)) ∧
    M / 2 ^ (126 - E) + rnd (M % 2 ^ (126 - E)) (2 ^ (125 - E)) (M / 2 ^ (126 - E)) ≤ 1024 := by
  have : E = 102 ∨ E = 103 ∨ E = 104 ∨ E = 105 ∨ E = 106 ∨ E = 107 ∨ E = 108 ∨ E = 109 ∨
      E = 110 ∨ E = 111 ∨ E = 112 := by omega
  unfold rnd
  rcases this with h | h | h | h | h | h | h | h | h | h | h <;> subst h <;> split <;> omega

/-- the magnitude of `f2h` is the round-to-nearest-even binary16 magnitude of every finite float -/
theorem f2hMag_rne (ui : Nat) (h : ui < 0x7f800000) : IsRNE16 (fval ui) (f2hMag ui) := by
  unfold f2hMag
  by_cases h1 : 0x38800000 ≤ ui
  · rw [if_pos h1, if_neg (by omega)]
    by_cases h2 : 0x477fefff < ui
    · rw [if_pos h2]
      by_cases h3 : 0x47800000 ≤ ui
      · exact rne_overflow ui h3
      · have := rne_normal ui h1 (by omega)
        have e : (ui - 0x38000000) / 8192 +
            rnd ((ui - 0x38000000) % 8192) 4096 ((ui - 0x38000000) / 8192) = 0x7c00 := by
          unfold rnd; split <;> omega
        rwa [e] at this
    · rw [if_neg h2]
      exact rne_normal ui h1 (by omega)
  · rw [if_neg h1]
    by_cases h2 : ui < 0x33000001
    · rw [if_pos h2]; exact rne_flush ui h2
    · rw [if_neg h2]; exact rne_subnormal ui (by omega) (by omega)

theorem f2hMag_sub_bounds (ui : Nat) (h1 : 0x33000001 ≤ ui) (h2 : ui < 0x38800000) :
    1 ≤ f2hMag ui ∧ f2hMag ui ≤ 1024 := by
  unfold f2hMag
  rw [if_neg (by omega), if_neg (by omega)]
  exact sub_bounds _ _ (by omega) (by omega) (by omega) (by omega) (by omega)

theorem f2hMag_normal_bounds (ui : Nat) (h1 : 0x38800000 ≤ ui) (h2 : ui ≤ 0x477fefff) :
    1024 ≤ f2hMag ui ∧ f2hMag ui < 0x7c00 := by
  unfold f2hMag rnd
  rw [if_pos h1, if_neg (by omega), if_neg (by omega)]
  split <;> omega

theorem f2hMag_lt (ui : Nat) (h : ui < 2147483648) : f2hMag ui < 32768 := by
  by_cases h1 : 0x38800000 ≤ ui
  · by_cases h2 : ui ≤ 0x477fefff
    · have := f2hMag_normal_bounds ui h1 h2; omega
    · unfold f2hMag
      rw [if_pos h1]
      split
      · split
        · omega
        · split <;> omega
      · rw [if_pos (by omega)]; omega
  · by_cases h2 : ui < 0x33000001
    · unfold f2hMag; rw [if_neg h1, if_pos h2]; omega
    · have := f2hMag_sub_bounds ui (by omega) (by omega); omega

theorem f2hMag_inf_iff (ui : Nat) (h : ui ≤ 0x7f800000) : f2hMag ui = 0x7c00 ↔ 0x477ff000 ≤ ui := by
  by_cases h1 : 0x38800000 ≤ ui
  · by_cases h2 : ui ≤ 0x477fefff
    · have := f2hMag_normal_bounds ui h1 h2; omega
    · have : f2hMag ui = 0x7c00 := by
        unfold f2hMag
        rw [if_pos h1]
        split
        · rw [if_pos (by omega)]
        · rw [if_pos (by omega)]
      omega
  · by_cases h2 : ui < 0x33000001
    · have : f2hMag ui = 0 := by unfold f2hMag; rw [if_neg h1, if_pos h2]
      omega
    · have := f2hMag_sub_bounds ui (by omega) (by omega); omega

theorem f2hMag_zero_iff (ui : Nat) (h : ui < 2147483648) : f2hMag ui = 0 ↔ ui < 0x33000001 := by
  by_cases h1 : 0x38800000 ≤ ui
  · by_cases h2 : ui ≤ 0x477fefff
    · have := f2hMag_normal_bounds ui h1 h2; omega
    · have : 0x7c00 ≤ f2hMag ui := by
        unfold f2hMag
        rw [if_pos h1]
        split
        · split
          · omega
          · omega
        · rw [if_pos (by omega)]; omega
      omega
  · by_cases h2 : ui < 0x33000001
    · have : f2hMag ui = 0 := by unfold f2hMag; rw [if_neg h1, if_pos h2]
      omega
    · have := f2hMag_sub_bounds ui (by omega) (by omega); omega

theorem f2hMag_nan (ui : Nat) (h : 0x7f800000 < ui) :
    f2hMag ui = 0x7c00 + (if ui % 8388608 / 8192 = 0 then 1 else ui % 8388608 / 8192) := by
  unfold f2hMag
  rw [if_pos (by omega), if_pos (by omega), if_neg (by omega)]

/-! ### 6. back to `f2h` -/

theorem f2h_mod (v : Nat) (hv : v < 4294967296) : f2h v % 32768 = f2hMag (v % 2147483648) := by
  have := f2hMag_lt (v % 2147483648) (Nat.mod_lt _ (by decide))
  rw [f2h_eq v hv]; omega

theorem f2h_div (v : Nat) (hv : v < 4294967296) :
    f2h v < 65536 ∧ f2h v / 32768 = v / 2147483648 := by
  have := f2hMag_lt (v % 2147483648) (Nat.mod_lt _ (by decide))
  rw [f2h_eq v hv]; omega

end ImathVerif.Half
