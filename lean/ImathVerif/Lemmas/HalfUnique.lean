import ImathVerif.Lemmas.HalfRNE
/-!
`IsRNE16 X ·` is functional: the specification of C01 pins exactly one binary16
magnitude pattern for every `X`.  Core Lean only.

Idea: two distinct solutions `r < r'` are both at the minimal distance, so (tie clause)
both are even, so `r + 1` lies strictly between them; `hval149` is strictly increasing,
`X` is the midpoint of `hval149 r` and `hval149 r'`, hence `hval149 (r+1)` is strictly
closer to `X` than `hval149 r` — contradicting "nearest".
-/
namespace ImathVerif.Half

theorem dist_comm' (a b : Nat) : dist a b = dist b a := by unfold dist; omega

private theorem unique_aux (X r r' : Nat) (hlt : r < r')
    (h : IsRNE16 X r) (h' : IsRNE16 X r') : False := by
  obtain ⟨_, hn⟩ := h
  obtain ⟨hr', hn'⟩ := h'
  have e1 := hn r' hr'
  have e2 := hn' r (by omega)
  have heq : dist X (hval149 r) = dist X (hval149 r') := Nat.le_antisymm e1.1 e2.1
  have p1 : r % 2 = 0 := e1.2 heq (by omega)
  have p2 : r' % 2 = 0 := e2.2 heq.symm (by omega)
  have hmid : r + 1 < r' := by omega
  have m1 := hval149_lt r (r + 1) (by omega)
  have m2 := hval149_lt (r + 1) r' hmid
  have e3 := (hn (r + 1) (by omega)).1
  unfold dist at heq e3
  omega

/-- the RNE specification determines the result pattern -/
theorem IsRNE16_unique (X r r' : Nat) : IsRNE16 X r → IsRNE16 X r' → r = r' := by
  intro h h'
  rcases Nat.lt_trichotomy r r' with hlt | heq | hgt
  · exact (unique_aux X r r' hlt h h').elim
  · exact heq
  · exact (unique_aux X r' r hgt h' h).elim

/-- the tie clause is not vacuous: at an exact midpoint the odd neighbour is rejected -/
example : ¬ IsRNE16 (fval 0x38803000) 0x401 := by
  intro h
  have := (h.2 0x402 (by decide)).2 (by decide) (by decide)
  revert this; decide

end ImathVerif.Half
