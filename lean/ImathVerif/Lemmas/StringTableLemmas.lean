import ImathVerif.Model.StringTable
import ImathVerif.Spec.PyList
/-!
`StringTableT`: the index <-> string bijection is an invariant of `intern` (C19).
-/
namespace ImathVerif.StringTable

/-- entry `k` of the container carries index `o + k` -/
def IdxFrom (o : Nat) (t : Table) : Prop := ∀ k (hk : k < t.length), (t[k]).i = o + k

/-- the invariant: indices are `0 .. size-1` in order, strings are pairwise distinct -/
structure Inv (t : Table) : Prop where
  idx : IdxFrom 0 t
  nodup : (t.map (·.s)).Nodup

theorem findIdx_from {o : Nat} : ∀ {t : Table}, IdxFrom o t → ∀ i, o ≤ i → findIdx t i = t[i - o]?
  | [], _, i, _ => by simp [findIdx]
  | e :: t, h, i, hi => by
    have he : e.i = o := by have := h 0 (by simp); simpa using this
    have ht : IdxFrom (o + 1) t := by
      intro k hk
      have := h (k + 1) (by simp; omega)
      simp at this; omega
    unfold findIdx
    by_cases hio : i = o
    · subst hio; simp [he]
    · have : ¬ (e.i == i) = true := by simp [he]; omega
      simp only [List.find?_cons, this]
      have ih := findIdx_from ht i (by omega)
      unfold findIdx at ih
      rw [ih]
      have : i - o = (i - (o + 1)) + 1 := by omega
      rw [this]; simp

theorem Inv.findIdx {t : Table} (h : Inv t) (i : Nat) : findIdx t i = t[i]? := by
  simpa using findIdx_from h.idx i (Nat.zero_le _)

theorem findStr_some {t : Table} {s : String} {e : Entry} (h : findStr t s = some e) : e ∈ t ∧ e.s = s := by
  unfold findStr at h
  exact ⟨List.mem_of_find?_eq_some h, by simpa using List.find?_some h⟩

theorem findStr_none {t : Table} {s : String} (h : findStr t s = none) : s ∉ t.map (·.s) := by
  unfold findStr at h
  rw [List.find?_eq_none] at h
  intro hm
  obtain ⟨e, he, hes⟩ := List.mem_map.1 hm
  exact h e he (by simp [hes])

theorem Inv.entry_idx {t : Table} (h : Inv t) {e : Entry} (he : e ∈ t) : t[e.i]? = some e := by
  obtain ⟨k, hk, hke⟩ := List.getElem_of_mem he
  have := h.idx k hk
  rw [hke] at this
  simp at this
  rw [this, List.getElem?_eq_getElem hk, hke]

/-- what `intern` guarantees -/
structure InternPost (t : Table) (s : String) (t' : Table) (i : Nat) : Prop where
  inv : Inv t'
  reads : lookupIdx t' i = some s
  index : lookupStr t' s = some i
  stable : ∀ j x, lookupIdx t j = some x → lookupIdx t' j = some x
  grows : t.length ≤ t'.length

theorem intern_post {t : Table} (h : Inv t) (hsz : t.length ≤ indexMax) (s : String) :
    ∃ t' i, intern t s = some (t', i) ∧ InternPost t s t' i := by
  unfold intern
  cases hf : findStr t s with
  | some e =>
    obtain ⟨hm, hs⟩ := findStr_some hf
    refine ⟨t, e.i, rfl, h, ?_, ?_, fun _ _ hx => hx, Nat.le_refl _⟩
    · simp [lookupIdx, h.findIdx, h.entry_idx hm, hs]
    · simp [lookupStr, hf]
  | none =>
    have hnew : s ∉ t.map (·.s) := findStr_none hf
    have hni : findIdx t t.length = none := by rw [h.findIdx]; simp
    have hins : insert t ⟨t.length, s⟩ = t ++ [⟨t.length, s⟩] := by
      simp [insert, hf, hni]
    have hinv : Inv (t ++ [⟨t.length, s⟩]) := by
      constructor
      · intro k hk
        simp at hk
        by_cases hkt : k < t.length
        · simpa [List.getElem_append_left hkt] using h.idx k hkt
        · have : k = t.length := by omega
          subst this; simp
      · rw [List.map_append, List.nodup_append]
        refine ⟨h.nodup, by simp, ?_⟩
        intro a ha b hb
        simp at hb
        subst hb
        intro hab; subst hab; exact hnew ha
    have hgt : ¬ t.length > indexMax := by omega
    simp only [hgt, if_false, hins]
    refine ⟨_, _, rfl, hinv, ?_, ?_, ?_, by simp⟩
    · simp [lookupIdx, hinv.findIdx]
    · have : findStr (t ++ [⟨t.length, s⟩]) s = some ⟨t.length, s⟩ := by
        unfold findStr at hf ⊢
        rw [List.find?_append, hf]
        simp
      simp [lookupStr, this]
    · intro j x hx
      simp only [lookupIdx, h.findIdx, hinv.findIdx] at hx ⊢
      cases hj : t[j]? with
      | none => simp [hj] at hx
      | some e =>
        have hjl : j < t.length := (List.getElem?_eq_some_iff.1 hj).1
        simp only [hj] at hx
        simpa [List.getElem?_append_left hjl, hj] using hx

theorem nodup_map_inj {α β : Type} {f : α → β} : ∀ {l : List α}, (l.map f).Nodup →
    ∀ {a b : α}, a ∈ l → b ∈ l → f a = f b → a = b
  | [], _, _, _, ha, _, _ => by simp at ha
  | x :: l, hnd, a, b, ha, hb, hab => by
    simp only [List.map_cons, List.nodup_cons] at hnd
    simp only [List.mem_cons] at ha hb
    rcases ha with rfl | ha <;> rcases hb with rfl | hb
    · rfl
    · exact absurd (List.mem_map.2 ⟨b, hb, hab.symm⟩) hnd.1
    · exact absurd (List.mem_map.2 ⟨a, ha, hab⟩) hnd.1
    · exact nodup_map_inj hnd.2 ha hb hab

/-- **bijection**: index `i` holds string `s` iff string `s` has index `i` -/
theorem lookup_bijection {t : Table} (h : Inv t) (i : Nat) (s : String) :
    lookupIdx t i = some s ↔ lookupStr t s = some i := by
  simp only [lookupIdx, lookupStr, h.findIdx]
  constructor
  · intro hi
    cases hti : t[i]? with
    | none => simp [hti] at hi
    | some e =>
      simp [hti] at hi
      have hil : i < t.length := (List.getElem?_eq_some_iff.1 hti).1
      have hei : e.i = i := by
        have := h.idx i hil
        rw [List.getElem?_eq_getElem hil] at hti
        simp at hti; rw [hti] at this; simpa using this
      cases hf : findStr t s with
      | none =>
        have := findStr_none hf
        exact absurd (List.mem_map.2 ⟨e, List.mem_of_getElem? hti, hi⟩) this
      | some e' =>
        obtain ⟨hm', hs'⟩ := findStr_some hf
        -- distinct strings: e' = e
        have : e' = e := nodup_map_inj h.nodup hm' (List.mem_of_getElem? hti) (by rw [hs', hi])
        simp [this, hei]
  · intro hs
    cases hf : findStr t s with
    | none => simp [hf] at hs
    | some e =>
      simp [hf] at hs
      obtain ⟨hm, hes⟩ := findStr_some hf
      have := h.entry_idx hm
      rw [hs] at this
      simp [this, hes]

/-! ## string arrays -/

/-- array `a` represents the plain list of strings `strs` -/
structure Repr (a : ArrState) (strs : List String) : Prop where
  inv : Inv a.table
  len : strs.length = a.idx.length
  elems : ∀ i (hi : i < strs.length), getitemString a i = some strs[i]

theorem setitemString_repr {a : ArrState} {strs : List String} (r : Repr a strs) (hsz : a.table.length ≤ indexMax)
    {i : Nat} (hi : i < strs.length) (s : String) :
    ∃ a', setitemString a i s = some a' ∧ Repr a' (strs.set i s) ∧ a'.table.length ≤ a.table.length + 1 := by
  obtain ⟨t', di, hint, post⟩ := intern_post r.inv hsz s
  have hil : i < a.idx.length := by rw [← r.len]; exact hi
  refine ⟨⟨t', a.idx.set i di⟩, by simp [setitemString, hil, hint], ⟨post.inv, by simp [r.len], ?_⟩, ?_⟩
  · intro j hj
    simp at hj
    simp only [getitemString, List.getElem?_set, List.getElem_set]
    by_cases hij : i = j
    · subst hij; simp [hil, post.reads]
    · have := r.elems j hj
      simp only [getitemString] at this
      simp only [hij, if_false]
      cases hk : a.idx[j]? with
      | none => simp [hk] at this
      | some k =>
        simp only [hk] at this ⊢
        exact post.stable k _ this
  · -- the table grows by at most one entry
    unfold intern at hint
    split at hint
    · simp at hint; rw [← hint.1]; simp
    · simp only at hint
      split at hint
      · simp at hint
      · simp at hint
        rw [← hint.1]
        unfold insert
        split <;> simp


/-! ## array-to-array assignment across two tables -/

theorem setFromArray_repr (lb : List String) :
    ∀ (pairs : List (Nat × Nat)) (a : ArrState) (la : List String) (rd : Nat → ArrState → Option String),
      Repr a la → a.table.length + pairs.length ≤ indexMax →
      (∀ p ∈ pairs, p.1 < la.length ∧ p.2 < lb.length) →
      (∀ i (hi : i < lb.length) a', rd i a' = some lb[i]) →
      ∃ a', setFromArray a rd pairs = some a' ∧
        Repr a' (pairs.foldl (fun l p => l.set p.1 (lb[p.2]!)) la) := by
  intro pairs
  induction pairs with
  | nil => intro a la rd r _ _ _; exact ⟨a, rfl, r⟩
  | cons p rest ih =>
    intro a la rd r hsz hin hrd
    obtain ⟨hp1, hp2⟩ := hin p (by simp)
    obtain ⟨a1, h1, r1, hg⟩ := setitemString_repr r (by simp at hsz; omega) hp1 lb[p.2]
    obtain ⟨a2, h2, r2⟩ := ih a1 (la.set p.1 lb[p.2]) rd r1 (by simp at hsz ⊢; omega)
      (fun q hq => by have := hin q (by simp [hq]); simpa using this) hrd
    refine ⟨a2, ?_, ?_⟩
    · obtain ⟨p1, p2⟩ := p
      simp only [setFromArray, hrd p2 hp2 a, h1, h2]
    · have : lb[p.2]! = lb[p.2] := by simp [getElem!_def, List.getElem?_eq_getElem hp2]
      simp only [List.foldl_cons, this]
      exact r2

/-- **`a[pos] = b` re-interns across the two tables correctly**: if `a` represents `la` and ANOTHER array `b`
    represents `lb`, then after the assignment `a` represents `la` with `la[pos[i]] = lb[i]` — whatever the two tables'
    interning orders are (the index stored in `b` is never used in `a`'s table) -/
theorem setVecString_repr {a b : ArrState} {la lb : List String} (ra : Repr a la) (rb : Repr b lb) (pos : List Nat)
    (hsz : a.table.length + pos.length ≤ indexMax) (hpos : ∀ p ∈ pos, p < la.length) (hlen : pos.length = lb.length) :
    ∃ a', setVecString a b pos = some a' ∧ Repr a' (PyList.setZip la pos lb) := by
  have hpairs : ∀ q ∈ pos.zip (List.range pos.length), q.1 < la.length ∧ q.2 < lb.length := by
    intro q hq
    obtain ⟨h1, h2⟩ := List.of_mem_zip hq
    exact ⟨hpos _ h1, by have := List.mem_range.1 h2; omega⟩
  obtain ⟨a', h1, r1⟩ := setFromArray_repr lb (pos.zip (List.range pos.length)) a la (fun i _ => getitemString b i) ra
    (by simpa using hsz) hpairs (fun i hi _ => rb.elems i hi)
  refine ⟨a', h1, ?_⟩
  have : (pos.zip (List.range pos.length)).foldl (fun l p => l.set p.1 (lb[p.2]!)) la = PyList.setZip la pos lb := by
    unfold PyList.setZip
    have hz : pos.zip lb = (pos.zip (List.range pos.length)).map (fun p => (p.1, lb[p.2]!)) := by
      apply List.ext_getElem
      · simp [hlen]
      · intro i h1' h2'
        simp at h1' h2'
        have hil : i < lb.length := by omega
        simp [getElem!_def, List.getElem?_eq_getElem hil]
    rw [hz, List.foldl_map]
  rw [← this]
  exact r1


/-! ## `==` / `!=` through the intern tables -/

theorem eqArrays_fold {a b : ArrState} {la lb : List String} (ra : Repr a la) (rb : Repr b lb) :
    ∀ (l : List Nat), (∀ i ∈ l, i < la.length ∧ i < lb.length) →
      l.foldr (eqStep a b) (some []) = some (l.map (fun i => la[i]! == lb[i]!)) := by
  intro l
  induction l with
  | nil => intro _; rfl
  | cons i t ih =>
    intro hin
    obtain ⟨h1, h2⟩ := hin i (by simp)
    simp only [List.foldr_cons, ih (fun j hj => hin j (by simp [hj])), eqStep, ra.elems i h1, rb.elems i h2, List.map_cons]
    simp [getElem!_def, List.getElem?_eq_getElem h1, List.getElem?_eq_getElem h2]

/-- **`a == b`** (element-wise, each side looked up in its OWN table) is the comparison of the represented lists -/
theorem eqArrays_repr {a b : ArrState} {la lb : List String} (ra : Repr a la) (rb : Repr b lb)
    (hlen : la.length = lb.length) : eqArrays a b = some (List.zipWith (· == ·) la lb) := by
  unfold eqArrays
  rw [eqArrays_fold ra rb (List.range a.idx.length) (fun i hi => by
    have := List.mem_range.1 hi
    rw [← ra.len] at this
    exact ⟨this, by omega⟩)]
  congr 1
  apply List.ext_getElem
  · simp [← ra.len, hlen]
  · intro i h1 h2
    simp at h1 h2
    have hi1 : i < la.length := by rw [ra.len]; exact h1
    have hi2 : i < lb.length := by omega
    simp [getElem!_def, List.getElem?_eq_getElem hi1, List.getElem?_eq_getElem hi2]

/-- **`a == s`** (`hasString` + index comparison) is `[x == s for x in list]` — the index comparison is sound and
    complete because index ↔ string is a bijection -/
theorem eqString_repr {a : ArrState} {la : List String} (ra : Repr a la) (s : String) :
    eqString a s = la.map (· == s) := by
  have hel : ∀ i (hi : i < la.length), ∃ k, a.idx[i]? = some k ∧ lookupIdx a.table k = some la[i] := by
    intro i hi
    have := ra.elems i hi
    unfold getitemString at this
    cases hk : a.idx[i]? with
    | none => simp [hk] at this
    | some k => exact ⟨k, rfl, by simpa [hk] using this⟩
  unfold eqString
  cases hl : lookupStr a.table s with
  | some k =>
    simp only
    apply List.ext_getElem
    · simp [ra.len]
    · intro i h1 h2
      simp at h1 h2
      obtain ⟨k', hk', hlk⟩ := hel i h2
      have hki : a.idx[i] = k' := by
        have := List.getElem?_eq_getElem h1
        rw [this] at hk'; exact Option.some.inj hk'
      simp only [List.getElem_map, hki]
      by_cases he : k' = k
      · subst he
        have := (lookup_bijection ra.inv k' s).2 hl
        rw [hlk] at this
        simp [Option.some.inj this]
      · have hne : la[i] ≠ s := by
          intro hs
          rw [hs] at hlk
          have := (lookup_bijection ra.inv k' s).1 hlk
          rw [hl] at this
          exact he (Option.some.inj this).symm
        have e1 : (k' == k) = false := by simpa using he
        have e2 : (la[i] == s) = false := by simpa using hne
        rw [e1, e2]
  | none =>
    simp only
    apply List.ext_getElem
    · simp [ra.len]
    · intro i h1 h2
      simp at h1 h2
      obtain ⟨k', _, hlk⟩ := hel i h2
      have hne : la[i] ≠ s := by
        intro hs
        rw [hs] at hlk
        have := (lookup_bijection ra.inv k' s).1 hlk
        rw [hl] at this
        cases this
      simp [hne]

end ImathVerif.StringTable
