import ImathVerif.Lemmas.C12Length
import ImathVerif.Gen.C12
import Mathlib.Tactic.NormNum
/-!
# Lemmas for C12 — specification matrices and glue between the extracted wrappers (`Gen/C12.lean`)
and the hand model of the inner function (`Model/SHRT.lean`)
-/
namespace ImathVerif.C12
open ImathVerif ImathVerif.SHRT Matrix
set_option linter.unusedSectionVars false
variable {α : Type} [Field α] [LinearOrder α] [IsStrictOrderedRing α]

/-! adapters -/
theorem ear33_adapters_some {tmin tmax : α} {sqrt : α → α} {m : M33 α} {r : Res2 α}
    (h : ear33 tmax (Gen.V2.length tmin tmax sqrt) m = some r) :
    ear33Flag tmin tmax sqrt m = 1 ∧ ear33Mat tmin tmax sqrt m = r.m ∧ ear33Scl tmin tmax sqrt m = r.scl ∧
    ear33Shr tmin tmax sqrt m = r.shr := by
  simp [ear33Flag, ear33Mat, ear33Scl, ear33Shr, h]
theorem ear33_adapters_none {tmin tmax : α} {sqrt : α → α} {m : M33 α}
    (h : ear33 tmax (Gen.V2.length tmin tmax sqrt) m = none) : ear33Flag tmin tmax sqrt m = 0 := by
  simp [ear33Flag, h]

theorem ear44_adapters_some {tmin tmax : α} {sqrt : α → α} {m : M44 α} {r : Res3 α}
    (h : ear44 tmax (Gen.V3.length tmin tmax sqrt) m = some r) :
    ear44Flag tmin tmax sqrt m = 1 ∧ ear44Mat tmin tmax sqrt m = r.m ∧ ear44Scl tmin tmax sqrt m = r.scl ∧
    ear44Shr tmin tmax sqrt m = r.shr := by
  simp [ear44Flag, ear44Mat, ear44Scl, ear44Shr, h]
theorem ear44_adapters_none {tmin tmax : α} {sqrt : α → α} {m : M44 α}
    (h : ear44 tmax (Gen.V3.length tmin tmax sqrt) m = none) : ear44Flag tmin tmax sqrt m = 0 := by
  simp [ear44Flag, h]

def scaleH3 (s : V3 α) : Matrix (Fin 4) (Fin 4) α := !![s.x, 0, 0, 0; 0, s.y, 0, 0; 0, 0, s.z, 0; 0, 0, 0, 1]
def shearH3 (h : V3 α) : Matrix (Fin 4) (Fin 4) α := !![1, 0, 0, 0; h.x, 1, 0, 0; h.y, h.z, 1, 0; 0, 0, 0, 1]
def transH3 (t : V3 α) : Matrix (Fin 4) (Fin 4) α := !![1, 0, 0, 0; 0, 1, 0, 0; 0, 0, 1, 0; t.x, t.y, t.z, 1]
def linH3 (m : M44 α) : Matrix (Fin 4) (Fin 4) α :=
  !![m.x00, m.x01, m.x02, 0; m.x10, m.x11, m.x12, 0; m.x20, m.x21, m.x22, 0; 0, 0, 0, 1]
/-- the XYZ Euler rotation of `Matrix44::rotate (r)` / `setEulerAngles (r)` -/
def rotH3 (sin cos : α → α) (r : V3 α) : Matrix (Fin 4) (Fin 4) α :=
  !![cos r.z * cos r.y, sin r.z * cos r.y, -sin r.y, 0;
     -sin r.z * cos r.x + cos r.z * sin r.y * sin r.x, cos r.z * cos r.x + sin r.z * sin r.y * sin r.x, cos r.y * sin r.x, 0;
     sin r.z * sin r.x + cos r.z * sin r.y * cos r.x, -cos r.z * sin r.x + sin r.z * sin r.y * cos r.x, cos r.y * cos r.x, 0;
     0, 0, 0, 1]
def Affine3 (m : M44 α) : Prop := m.x03 = 0 ∧ m.x13 = 0 ∧ m.x23 = 0 ∧ m.x33 = 1

/-! spec matrices, 2-D homogeneous (row-vector convention: `v * M`) -/
def scaleH2 (s : V2 α) : Matrix (Fin 3) (Fin 3) α := !![s.x, 0, 0; 0, s.y, 0; 0, 0, 1]
def shearH2 (h : α) : Matrix (Fin 3) (Fin 3) α := !![1, 0, 0; h, 1, 0; 0, 0, 1]
def transH2 (t : V2 α) : Matrix (Fin 3) (Fin 3) α := !![1, 0, 0; 0, 1, 0; t.x, t.y, 1]
/-- the linear block of `m` as a homogeneous matrix -/
def linH2 (m : M33 α) : Matrix (Fin 3) (Fin 3) α := !![m.x00, m.x01, 0; m.x10, m.x11, 0; 0, 0, 1]
/-- `Matrix33::setRotation (r)` given `c = cos r`, `s = sin r` -/
def rotH2 (c s : α) : Matrix (Fin 3) (Fin 3) α := !![c, s, 0; -s, c, 0; 0, 0, 1]
def Affine2 (m : M33 α) : Prop := m.x02 = 0 ∧ m.x12 = 0 ∧ m.x22 = 1

/-- `-atan2 (y, x)` is an angle whose cosine / sine are `x` / `-y` on the unit circle -/
def TrigSpec (sin cos : α → α) (atan2 : α → α → α) : Prop :=
  ∀ x y, x * x + y * y = 1 → cos (-(atan2 y x)) = x ∧ sin (-(atan2 y x)) = -y

/-- a 2×2 rotation (orthonormal rows, det 1) is `[[c, s], [-s, c]]` -/
theorem rot2_shape {m : M33 α} (ho : lin2 m * (lin2 m)ᵀ = 1) (hd : (lin2 m).det = 1) :
    m.x00 * m.x00 + m.x01 * m.x01 = 1 ∧ m.x11 = m.x00 ∧ m.x01 = -m.x10 ∧ m.x00 * m.x00 + m.x10 * m.x10 = 1 := by
  have h00 := congrFun (congrFun ho 0) 0
  have h01 := congrFun (congrFun ho 0) 1
  have h11 := congrFun (congrFun ho 1) 1
  simp [lin2, Matrix.mul_apply, Fin.sum_univ_two] at h00 h01 h11
  simp [lin2, Matrix.det_fin_two] at hd
  have e1 : (m.x11 - m.x00) * (m.x11 - m.x00) + (m.x01 + m.x10) * (m.x01 + m.x10) = 0 := by
    linear_combination h00 + h11 - 2 * hd
  have a : m.x11 - m.x00 = 0 := by
    have := mul_self_nonneg (m.x01 + m.x10)
    have := mul_self_nonneg (m.x11 - m.x00)
    exact mul_self_eq_zero.mp (by linarith)
  have b : m.x01 + m.x10 = 0 := by
    have := mul_self_nonneg (m.x01 + m.x10)
    have := mul_self_nonneg (m.x11 - m.x00)
    exact mul_self_eq_zero.mp (by linarith)
  have e11 : m.x11 = m.x00 := by linarith
  have e01 : m.x01 = -m.x10 := by linarith
  refine ⟨h00, e11, e01, ?_⟩
  rw [e01] at h00; linarith

/-- unit rows have `Vec2::length` 1 -/
theorem len_eq_one {len : V2 α → α} (hl : LenSpec2 len) (x y : α) (h : x * x + y * y = 1) : len ⟨x, y⟩ = 1 := by
  obtain ⟨l0, l1⟩ := hl ⟨x, y⟩
  simp only [dot2] at l1
  rw [h] at l1
  rcases mul_self_eq_one_iff.mp l1 with e | e
  · exact e
  · rw [e] at l0; linarith

/-- from the 2×2 recomposition to the homogeneous one, for an affine matrix -/
theorem homog2 {s : V2 α} {h : α} {R m : M33 α} (ha : Affine2 m)
    (e : scaleMat2 s * shearMat2 h * lin2 R = lin2 m) :
    scaleH2 s * shearH2 h * linH2 R * transH2 ⟨m.x20, m.x21⟩ = m.toMat := by
  obtain ⟨a1, a2, a3⟩ := ha
  have h00 := congrFun (congrFun e 0) 0
  have h01 := congrFun (congrFun e 0) 1
  have h10 := congrFun (congrFun e 1) 0
  have h11 := congrFun (congrFun e 1) 1
  simp [scaleMat2, shearMat2, lin2, Matrix.mul_apply, Fin.sum_univ_two] at h00 h01 h10 h11
  ext i j
  fin_cases i <;> fin_cases j <;>
    simp [scaleH2, shearH2, linH2, transH2, M33.toMat, Matrix.mul_apply, Fin.sum_univ_three, a1, a2, a3] <;> linarith

/-- the witness: rotation by the 3-4-5 angle (cos = 4/5, sin = 3/5) followed by the translation (3, 4) -/
def W345 : M33 α := ⟨4/5, 3/5, 0, -3/5, 4/5, 0, 3, 4, 1⟩

theorem len_54 {len : V2 α → α} (hl : LenSpec2 len) (x y : α) (h : x * x + y * y = 25 / 16) : len ⟨x, y⟩ = 5 / 4 := by
  obtain ⟨l0, l1⟩ := hl ⟨x, y⟩
  simp only [dot2] at l1
  rw [h] at l1
  have : (len ⟨x, y⟩ - 5 / 4) * (len ⟨x, y⟩ + 5 / 4) = 0 := by linear_combination l1
  rcases mul_eq_zero.mp this with e | e
  · linarith
  · linarith

theorem ear33_W345 {tmax : α} (ht : 1 < tmax) {len : V2 α → α} (hl : LenSpec2 len) :
    ear33 tmax len (W345 : M33 α) = some ⟨W345, ⟨1, 1⟩, 0⟩ := by
  have hmax : maxAbs2 (⟨4/5, 3/5⟩ : V2 α) ⟨-3/5, 4/5⟩ = 4/5 := by
    simp only [maxAbs2, upd, sabs_eq_abs]
    norm_num [abs_of_pos, abs_of_neg]
  have t1 : ¬ tmax * (4 / 5) ≤ 4 / 5 := by
    intro h; nlinarith
  have t2 : ¬ tmax * (4 / 5) ≤ 3 / 5 := by
    intro h; nlinarith
  have hn : normRows2 tmax (4/5 : α) ⟨4/5, 3/5⟩ ⟨-3/5, 4/5⟩ = some (⟨1, 3/4⟩, ⟨-3/4, 1⟩) := by
    simp only [normRows2, checkRow2, tooSmall, sabs_eq_abs, V2.divS]
    norm_num [abs_of_pos, t1, t2]
  have l0 : len (⟨1, 3/4⟩ : V2 α) = 5/4 := len_54 hl _ _ (by norm_num)
  have l1 : len (⟨-3/4, 1⟩ : V2 α) = 5/4 := len_54 hl _ _ (by norm_num)
  have hg : gs2 tmax len (⟨1, 3/4⟩ : V2 α) ⟨-3/4, 1⟩ = some ⟨⟨4/5, 3/5⟩, ⟨-3/5, 4/5⟩, ⟨5/4, 5/4⟩, 0⟩ := by
    have hb : V2.subSmul (⟨-3/4, 1⟩ : V2 α) (dot2 (V2.divS ⟨1, 3/4⟩ (5/4)) ⟨-3/4, 1⟩) (V2.divS ⟨1, 3/4⟩ (5/4)) = ⟨-3/4, 1⟩ := by
      simp only [V2.subSmul, V2.divS, dot2]; norm_num
    simp only [gs2, l0]
    simp only [hb, l1]
    simp only [checkRow2, tooSmall, sabs_eq_abs, V2.divS, dot2]
    norm_num [abs_of_pos]
  have hf : flip2 (⟨⟨4/5, 3/5⟩, ⟨-3/5, 4/5⟩, ⟨5/4, 5/4⟩, 0⟩ : GS2 α) = ⟨⟨4/5, 3/5⟩, ⟨-3/5, 4/5⟩, ⟨5/4, 5/4⟩, 0⟩ := by
    simp only [flip2]; norm_num
  simp only [ear33, W345, hmax, hn, hg, hf, V2.mulS]
  norm_num
end ImathVerif.C12
