import ImathVerif.Spec.GeoSpec
import ImathVerif.Gen.Leaf
import Mathlib.Tactic.Ring
import Mathlib.Tactic.Linarith
import Mathlib.Tactic.FieldSimp
import Mathlib.Tactic.SplitIfs
import Mathlib.Tactic.Positivity
import Mathlib.Tactic.LinearCombination
import Mathlib.Algebra.Order.Ring.Abs
/-!
# Helper lemmas for C15 (line / plane / sphere / triangle primitives)

* `len_intro`: a small tactic that names an opaque `Gen.V?.length tmin tmax sqrt v` call and brings its
  specification (`LenSpec`) into the context;
* elementary facts about sums of squares and unit vectors over an ordered field;
* the vector identities behind the closest-point, plane-transform and triangle proofs.
-/
namespace ImathVerif.Geo
open ImathVerif

open Lean Elab Tactic Meta in
/-- `len_intro hlen L hsq hnn`: find the first fully applied opaque length call `Gen.V?.length tmin tmax sqrt v` in the
goal (or, failing that, in a hypothesis), replace it everywhere by a new variable `L`, and add its specification
`hsq : L ^ 2 = v·v`, `hnn : 0 ≤ L` obtained from `hlen : LenSpec? (Gen.V?.length tmin tmax sqrt)`. -/
elab "len_intro " hlen:ident L:ident hsq:ident hnn:ident : tactic => withMainContext do
  let g ← getMainGoal
  let mut ars : List (Name × Nat) := []
  for n in [``ImathVerif.Gen.V3.length, ``ImathVerif.Gen.V2.length, ``ImathVerif.Gen.V4.length] do
    ars := (n, (← getConstInfo n).type.getNumHeadForalls) :: ars
  let isLen (e : Expr) : Bool := !e.hasLooseBVars && ars.any (fun (n, k) => e.isAppOfArity n k)
  let mut found : Option Expr := (← instantiateMVars (← g.getType)).find? isLen
  if found.isNone then
    for d in (← getLCtx) do
      if found.isNone && !d.isImplementationDetail then
        found := (← instantiateMVars d.type).find? isLen
  let some e := found | throwError "len_intro: no opaque length call found"
  let stx ← Term.exprToSyntax e
  let arg ← Term.exprToSyntax e.appArg!
  evalTactic (← `(tactic| (
    obtain ⟨$hsq, $hnn⟩ := $hlen $arg
    generalize $stx = $L at *)))

open Lean Elab Tactic Meta in
/-- `len_intro_vec hlen L hsq hnn a b c ha hb hc`: like `len_intro` for a `V3` length call whose argument is an explicit
`⟨x, y, z⟩`; additionally the three (possibly huge) component terms are replaced everywhere by new variables
`a b c` with the defining equations `ha : x = a`, `hb : y = b`, `hc : z = c` kept in the context. -/
elab "len_intro_vec " hlen:ident L:ident hsq:ident hnn:ident a:ident b:ident c:ident ha:ident hb:ident hc:ident : tactic =>
  withMainContext do
  let g ← getMainGoal
  let ar := (← getConstInfo ``ImathVerif.Gen.V3.length).type.getNumHeadForalls
  let isLen (e : Expr) : Bool := !e.hasLooseBVars && e.isAppOfArity ``ImathVerif.Gen.V3.length ar
      && e.appArg!.isAppOfArity ``ImathVerif.V3.mk 4
  let mut found : Option Expr := (← instantiateMVars (← g.getType)).find? isLen
  if found.isNone then
    for d in (← getLCtx) do
      if found.isNone && !d.isImplementationDetail then
        found := (← instantiateMVars d.type).find? isLen
  let some e := found | throwError "len_intro_vec: no opaque length call on an explicit vector found"
  let stx ← Term.exprToSyntax e
  let arg ← Term.exprToSyntax e.appArg!
  let xs := e.appArg!.getAppArgs
  let x ← Term.exprToSyntax xs[1]!
  let y ← Term.exprToSyntax xs[2]!
  let z ← Term.exprToSyntax xs[3]!
  evalTactic (← `(tactic| (
    obtain ⟨$hsq, $hnn⟩ := $hlen $arg
    generalize $stx = $L at *
    generalize $ha : $x = $a at *
    generalize $hb : $y = $b at *
    generalize $hc : $z = $c at *)))

open Lean Elab Tactic Meta in
/-- `fun_arg_intro f D hD`: find the first application `f X` of the local function `f` (e.g. the `sqrt` parameter) in the
goal or a hypothesis and replace its argument `X` everywhere by a new variable `D`, keeping `hD : X = D`. -/
elab "fun_arg_intro " f:ident D:ident hD:ident : tactic => withMainContext do
  let g ← getMainGoal
  let fe ← Term.elabTerm f none
  let isApp (e : Expr) : Bool := !e.hasLooseBVars && e.isApp && e.appFn! == fe
  let mut found : Option Expr := (← instantiateMVars (← g.getType)).find? isApp
  if found.isNone then
    for d in (← getLCtx) do
      if found.isNone && !d.isImplementationDetail then
        found := (← instantiateMVars d.type).find? isApp
  let some e := found | throwError "fun_arg_intro: no application of the function found"
  let x ← Term.exprToSyntax e.appArg!
  evalTactic (← `(tactic| generalize $hD : $x = $D at *))

open Lean Elab Tactic Meta in
/-- `fun_arg_intro_at f D hD h`: like `fun_arg_intro`, but the application `f X` is looked for in the hypothesis `h` only -/
elab "fun_arg_intro_at " f:ident D:ident hD:ident h:ident : tactic => withMainContext do
  let fe ← Term.elabTerm f none
  let isApp (e : Expr) : Bool := !e.hasLooseBVars && e.isApp && e.appFn! == fe
  let d ← getLocalDeclFromUserName h.getId
  let some e := (← instantiateMVars d.type).find? isApp | throwError "fun_arg_intro_at: no application of the function found"
  let x ← Term.exprToSyntax e.appArg!
  evalTactic (← `(tactic| generalize $hD : $x = $D at *))

/-- equality of two spellings of the same field expression (also inside `/`, `|·|`, structures): syntactic, or after
`ring_nf` — keeps the bridging lemmas robust against harmless rewrites of the C++ (reordered products, hoisted terms) -/
macro "ac_rfl_nf" : tactic => `(tactic| first | rfl | ring_nf)
/-- use a hypothesis up to such respelling (hypothesis and goal are normalised in ONE `ring_nf` call so that the atom order agrees) -/
macro "ac_exact " h:ident : tactic => `(tactic| first | exact $h | (revert $h:ident; (ring_nf) <;> exact id))

variable {α : Type} [Field α] [LinearOrder α] [IsStrictOrderedRing α]

theorem sabs_eq_abs (x : α) : sabs x = |x| := by
  unfold sabs
  split_ifs with h
  · rw [abs_of_pos h]
  · rw [abs_of_nonpos (not_lt.mp h)]

theorem ite_false_iff {p : Prop} [Decidable p] (x : Bool) :
    ((if p then x else false) = true) ↔ (p ∧ x = true) := by
  by_cases h : p <;> simp [h]

/-! ## sums of squares -/

theorem sq3_eq_zero {x y z : α} (h : x * x + y * y + z * z = 0) : x = 0 ∧ y = 0 ∧ z = 0 := by
  have hx := mul_self_nonneg x
  have hy := mul_self_nonneg y
  have hz := mul_self_nonneg z
  refine ⟨?_, ?_, ?_⟩ <;> apply mul_self_eq_zero.mp <;> linarith

theorem dot_self_nonneg (v : V3 α) : 0 ≤ dot v v := by
  unfold dot
  have hx := mul_self_nonneg v.x
  have hy := mul_self_nonneg v.y
  have hz := mul_self_nonneg v.z
  linarith

theorem dot_self_eq_zero {v : V3 α} (h : dot v v = 0) : v = zero := by
  obtain ⟨hx, hy, hz⟩ := sq3_eq_zero (x := v.x) (y := v.y) (z := v.z) h
  cases v; simp only [zero, V3.mk.injEq] at *; exact ⟨hx, hy, hz⟩

theorem dot_self_pos {v : V3 α} (h : v ≠ zero) : 0 < dot v v :=
  lt_of_le_of_ne (dot_self_nonneg v) (fun h0 => h (dot_self_eq_zero h0.symm))

/-- a length that is zero belongs to the zero vector -/
theorem len_zero {L : α} {v : V3 α} (hsq : L ^ 2 = dot v v) (h0 : L = 0) : v = zero := by
  apply dot_self_eq_zero; rw [← hsq, h0]; ring

theorem len_ne_zero {L : α} {v : V3 α} (hsq : L ^ 2 = dot v v) (hv : v ≠ zero) : L ≠ 0 :=
  fun h0 => hv (len_zero hsq h0)

theorem len_pos {L : α} {v : V3 α} (hsq : L ^ 2 = dot v v) (hnn : 0 ≤ L) (hv : v ≠ zero) : 0 < L :=
  lt_of_le_of_ne hnn (Ne.symm (len_ne_zero hsq hv))

/-- the length of a unit vector is one -/
theorem len_unit {L : α} (hsq : L ^ 2 = 1) (hnn : 0 ≤ L) : L = 1 := by
  have h : (L - 1) * (L + 1) = 0 := by ring_nf; linarith
  rcases mul_eq_zero.mp h with h | h
  · linarith
  · linarith

theorem sub_ne_zero_of_ne {a b : V3 α} (h : a ≠ b) : sub b a ≠ zero := by
  intro h0
  apply h
  cases a; cases b
  simp only [sub, zero, V3.mk.injEq] at h0
  simp only [V3.mk.injEq]
  obtain ⟨h1, h2, h3⟩ := h0
  exact ⟨by linarith, by linarith, by linarith⟩

/-! ### the same for `V2`, `V4` -/

theorem len_zero2 {L : α} {v : V2 α} (hsq : L ^ 2 = dot2 v v) (h0 : L = 0) : v = zero2 := by
  rw [h0] at hsq
  simp only [dot2] at hsq
  have hx := mul_self_nonneg v.x
  have hy := mul_self_nonneg v.y
  have h1 : v.x = 0 := mul_self_eq_zero.mp (by nlinarith)
  have h2 : v.y = 0 := mul_self_eq_zero.mp (by nlinarith)
  cases v; simp only [zero2, V2.mk.injEq] at *; exact ⟨h1, h2⟩

theorem len_zero4 {L : α} {v : V4 α} (hsq : L ^ 2 = dot4 v v) (h0 : L = 0) : v = zero4 := by
  rw [h0] at hsq
  simp only [dot4] at hsq
  have hx := mul_self_nonneg v.x
  have hy := mul_self_nonneg v.y
  have hz := mul_self_nonneg v.z
  have hw := mul_self_nonneg v.w
  have h1 : v.x = 0 := mul_self_eq_zero.mp (by nlinarith)
  have h2 : v.y = 0 := mul_self_eq_zero.mp (by nlinarith)
  have h3 : v.z = 0 := mul_self_eq_zero.mp (by nlinarith)
  have h4 : v.w = 0 := mul_self_eq_zero.mp (by nlinarith)
  cases v; simp only [zero4, V4.mk.injEq] at *; exact ⟨h1, h2, h3, h4⟩

theorem dot2_self_eq_zero {v : V2 α} (h : dot2 v v = 0) : v = zero2 := len_zero2 (L := 0) (by rw [h]; ring) rfl
theorem dot4_self_eq_zero {v : V4 α} (h : dot4 v v = 0) : v = zero4 := len_zero4 (L := 0) (by rw [h]; ring) rfl

/-! ## line geometry -/

/-- if the segment between `l1(s0)` and `l2(t0)` is perpendicular to both directions, it is the shortest one -/
theorem dist2_min_of_perp (l1 l2 : Line3 α) (s0 t0 : α)
    (h1 : dot (sub (lineAt l1 s0) (lineAt l2 t0)) l1.dir = 0) (h2 : dot (sub (lineAt l1 s0) (lineAt l2 t0)) l2.dir = 0)
    (s t : α) : dist2 (lineAt l1 s0) (lineAt l2 t0) ≤ dist2 (lineAt l1 s) (lineAt l2 t) := by
  have key : dist2 (lineAt l1 s) (lineAt l2 t) = dist2 (lineAt l1 s0) (lineAt l2 t0)
      + 2 * (s - s0) * dot (sub (lineAt l1 s0) (lineAt l2 t0)) l1.dir
      - 2 * (t - t0) * dot (sub (lineAt l1 s0) (lineAt l2 t0)) l2.dir
      + (((s - s0) * l1.dir.x - (t - t0) * l2.dir.x) ^ 2 + ((s - s0) * l1.dir.y - (t - t0) * l2.dir.y) ^ 2
          + ((s - s0) * l1.dir.z - (t - t0) * l2.dir.z) ^ 2) := by
    simp only [dist2, dot, sub, lineAt]; ring
  rw [key, h1, h2]
  have := sq_nonneg ((s - s0) * l1.dir.x - (t - t0) * l2.dir.x)
  have := sq_nonneg ((s - s0) * l1.dir.y - (t - t0) * l2.dir.y)
  have := sq_nonneg ((s - s0) * l1.dir.z - (t - t0) * l2.dir.z)
  linarith

/-- point-to-line version: the foot of the perpendicular is the nearest point of the line -/
theorem dist2_min_of_perp_point (l : Line3 α) (p : V3 α) (s0 : α)
    (h : dot (sub p (lineAt l s0)) l.dir = 0) (s : α) : dist2 p (lineAt l s0) ≤ dist2 p (lineAt l s) := by
  have key : dist2 p (lineAt l s) = dist2 p (lineAt l s0) - 2 * (s - s0) * dot (sub p (lineAt l s0)) l.dir
      + (((s - s0) * l.dir.x) ^ 2 + ((s - s0) * l.dir.y) ^ 2 + ((s - s0) * l.dir.z) ^ 2) := by
    simp only [dist2, dot, sub, lineAt]; ring
  rw [key, h]
  have := sq_nonneg ((s - s0) * l.dir.x)
  have := sq_nonneg ((s - s0) * l.dir.y)
  have := sq_nonneg ((s - s0) * l.dir.z)
  linarith

omit [LinearOrder α] [IsStrictOrderedRing α] in
/-- Lagrange: `|a × b|² = |a|²|b|² − (a·b)²` -/
theorem lagrange (a b : V3 α) : dot (cross a b) (cross a b) = dot a a * dot b b - dot a b ^ 2 := by
  simp only [dot, cross]; ring

/-- for unit vectors, `(a·b)² ≤ 1` with equality iff parallel (`a × b = 0`) -/
theorem unit_dot_sq_le (a b : V3 α) (ha : dot a a = 1) (hb : dot b b = 1) : dot a b ^ 2 ≤ 1 := by
  have := dot_self_nonneg (cross a b)
  rw [lagrange, ha, hb] at this; linarith

theorem unit_parallel_iff (a b : V3 α) (ha : dot a a = 1) (hb : dot b b = 1) : dot a b ^ 2 = 1 ↔ cross a b = zero := by
  constructor
  · intro h
    apply dot_self_eq_zero
    rw [lagrange, ha, hb, h]; ring
  · intro h
    have := lagrange a b
    rw [h, ha, hb] at this
    simp only [dot, zero] at this ⊢
    linarith

/-! ## the common perpendicular of two lines with unit directions -/

/-- parameters of the two feet of the common perpendicular as `closestPoints` computes them: `n1/d`, `n2/d`
with `d = 1 − (d1·d2)²` -/
def cpDen (l1 l2 : Line3 α) : α := 1 - dot l1.dir l2.dir * dot l1.dir l2.dir
def cpNum1 (l1 l2 : Line3 α) : α := dot l1.dir l2.dir * dot l2.dir (sub l1.pos l2.pos) - dot l1.dir (sub l1.pos l2.pos)
def cpNum2 (l1 l2 : Line3 α) : α := dot l2.dir (sub l1.pos l2.pos) - dot l1.dir l2.dir * dot l1.dir (sub l1.pos l2.pos)

theorem cp_perp (l1 l2 : Line3 α) (hu1 : dot l1.dir l1.dir = 1) (hu2 : dot l2.dir l2.dir = 1) (hd : cpDen l1 l2 ≠ 0) :
    dot (sub (lineAt l1 (cpNum1 l1 l2 / cpDen l1 l2)) (lineAt l2 (cpNum2 l1 l2 / cpDen l1 l2))) l1.dir = 0 ∧
    dot (sub (lineAt l1 (cpNum1 l1 l2 / cpDen l1 l2)) (lineAt l2 (cpNum2 l1 l2 / cpDen l1 l2))) l2.dir = 0 := by
  have hs : cpNum1 l1 l2 / cpDen l1 l2 * cpDen l1 l2 = cpNum1 l1 l2 := by field_simp
  have ht : cpNum2 l1 l2 / cpDen l1 l2 * cpDen l1 l2 = cpNum2 l1 l2 := by field_simp
  generalize cpNum1 l1 l2 / cpDen l1 l2 = s at *
  generalize cpNum2 l1 l2 / cpDen l1 l2 = t at *
  constructor <;> apply mul_left_cancel₀ hd
  · simp only [cpDen, cpNum1, cpNum2, dot, sub, lineAt] at *
    linear_combination (l1.dir.x * l1.dir.x + l1.dir.y * l1.dir.y + l1.dir.z * l1.dir.z) * hs
      - (l1.dir.x * l2.dir.x + l1.dir.y * l2.dir.y + l1.dir.z * l2.dir.z) * ht
      + ((l1.dir.x * l2.dir.x + l1.dir.y * l2.dir.y + l1.dir.z * l2.dir.z) * (l2.dir.x * (l1.pos.x - l2.pos.x) + l2.dir.y * (l1.pos.y - l2.pos.y) + l2.dir.z * (l1.pos.z - l2.pos.z)) - (l1.dir.x * (l1.pos.x - l2.pos.x) + l1.dir.y * (l1.pos.y - l2.pos.y) + l1.dir.z * (l1.pos.z - l2.pos.z))) * hu1
  · simp only [cpDen, cpNum1, cpNum2, dot, sub, lineAt] at *
    linear_combination (l1.dir.x * l2.dir.x + l1.dir.y * l2.dir.y + l1.dir.z * l2.dir.z) * hs
      - (l2.dir.x * l2.dir.x + l2.dir.y * l2.dir.y + l2.dir.z * l2.dir.z) * ht
      - ((l2.dir.x * (l1.pos.x - l2.pos.x) + l2.dir.y * (l1.pos.y - l2.pos.y) + l2.dir.z * (l1.pos.z - l2.pos.z)) - (l1.dir.x * l2.dir.x + l1.dir.y * l2.dir.y + l1.dir.z * l2.dir.z) * (l1.dir.x * (l1.pos.x - l2.pos.x) + l1.dir.y * (l1.pos.y - l2.pos.y) + l1.dir.z * (l1.pos.z - l2.pos.z))) * hu2

omit [LinearOrder α] [IsStrictOrderedRing α] in
theorem cpDen_eq (l1 l2 : Line3 α) (hu1 : dot l1.dir l1.dir = 1) (hu2 : dot l2.dir l2.dir = 1) :
    cpDen l1 l2 = dot (cross l1.dir l2.dir) (cross l1.dir l2.dir) := by
  rw [lagrange, hu1, hu2]; unfold cpDen; ring

omit [LinearOrder α] [IsStrictOrderedRing α] in
/-- a vector perpendicular to `a` and `b` is parallel to `a × b`: `|v|²|a×b|² = (v·(a×b))²` -/
theorem perp_both_sq (v a b : V3 α) (h1 : dot v a = 0) (h2 : dot v b = 0) :
    dot v v * dot (cross a b) (cross a b) = dot v (cross a b) ^ 2 := by
  have key : dot v v * dot (cross a b) (cross a b) = dot v (cross a b) ^ 2
      + dot (sub (smul (dot v b) a) (smul (dot v a) b)) (sub (smul (dot v b) a) (smul (dot v a) b)) := by
    simp only [dot, cross, sub, smul]; ring
  rw [key, h1, h2]; simp only [dot, sub, smul]; ring

/-- for unit vectors with `(a·b)² = 1`, `b = (a·b) a` -/
theorem unit_parallel_eq (a b : V3 α) (ha : dot a a = 1) (hb : dot b b = 1) (h : dot a b ^ 2 = 1) :
    b = smul (dot a b) a := by
  have h0 : dot (sub b (smul (dot a b) a)) (sub b (smul (dot a b) a)) = 0 := by
    have : dot (sub b (smul (dot a b) a)) (sub b (smul (dot a b) a)) = dot b b - 2 * dot a b ^ 2 + dot a b ^ 2 * dot a a := by
      simp only [dot, sub, smul]; ring
    rw [this, ha, hb, h]; ring
  have := dot_self_eq_zero h0
  cases a; cases b
  simp only [sub, smul, zero, V3.mk.injEq, dot] at this ⊢
  obtain ⟨h1, h2, h3⟩ := this
  exact ⟨by linarith, by linarith, by linarith⟩

/-! ## `Line3::closestPointTo(Line3)` -/

/-- the parameter on `l1` of the point nearest to `l2` (unit directions, non-parallel) -/
def cplParam (l1 l2 : Line3 α) : α :=
  (dot l1.dir (sub l1.pos l2.pos) - dot l2.dir l1.dir * dot l2.dir (sub l1.pos l2.pos)) / (dot l2.dir l1.dir * dot l2.dir l1.dir - 1)

theorem cplParam_perp (l1 l2 : Line3 α) (hu1 : dot l1.dir l1.dir = 1) (hu2 : dot l2.dir l2.dir = 1)
    (hnp : dot l2.dir l1.dir ^ 2 ≠ 1) :
    dot (sub (lineAt l1 (cplParam l1 l2)) (lineAt l2 (dot (sub (lineAt l1 (cplParam l1 l2)) l2.pos) l2.dir))) l1.dir = 0 ∧
    dot (sub (lineAt l1 (cplParam l1 l2)) (lineAt l2 (dot (sub (lineAt l1 (cplParam l1 l2)) l2.pos) l2.dir))) l2.dir = 0 := by
  have hden : dot l2.dir l1.dir * dot l2.dir l1.dir - 1 ≠ 0 := fun h => hnp (by linear_combination h)
  have hs : cplParam l1 l2 * (dot l2.dir l1.dir * dot l2.dir l1.dir - 1)
      = dot l1.dir (sub l1.pos l2.pos) - dot l2.dir l1.dir * dot l2.dir (sub l1.pos l2.pos) := by
    unfold cplParam; field_simp
  generalize cplParam l1 l2 = s at *
  simp only [dot, sub, lineAt] at *
  constructor
  · linear_combination s * hu1 - hs
  · linear_combination (-(((l1.pos.x + s * l1.dir.x - l2.pos.x) * l2.dir.x + (l1.pos.y + s * l1.dir.y - l2.pos.y) * l2.dir.y)
      + (l1.pos.z + s * l1.dir.z - l2.pos.z) * l2.dir.z)) * hu2

/-- numerator and denominator of that parameter as the code computes them (`cplParam = cplNum / cplDen`) -/
def cplNum (l1 l2 : Line3 α) : α := dot l1.dir (sub l1.pos l2.pos) - dot l2.dir l1.dir * dot l2.dir (sub l1.pos l2.pos)
def cplDen (l1 l2 : Line3 α) : α := dot l2.dir l1.dir * dot l2.dir l1.dir - 1
omit [LinearOrder α] [IsStrictOrderedRing α] in
theorem cplParam_eq (l1 l2 : Line3 α) : cplParam l1 l2 = cplNum l1 l2 / cplDen l1 l2 := rfl

/-! ## `Sphere3::intersectT`: the coefficients of the quadratic `t² + B t + C` the code solves (it hard-wires `A = 1`) -/
def sphB (s : Sphere3 α) (l : Line3 α) : α := 2 * dot l.dir (sub l.pos s.center)
def sphC (s : Sphere3 α) (l : Line3 α) : α := dot (sub l.pos s.center) (sub l.pos s.center) - s.radius * s.radius
def sphD (s : Sphere3 α) (l : Line3 α) : α := sphB s l * sphB s l - 4 * sphC s l

/-! ## `Plane3 * Matrix44` -/

/-- the (un-normalised) normal of `plane * M` as the code builds it from the three points
`point = d·n`, `point + dir1×n`, `point + dir1` -/
def xformNormal (n : V3 α) (d : α) (m : M44 α) (dir1 : V3 α) : V3 α :=
  cross (sub (mulM44 (add (smul d n) (cross dir1 n)) m) (mulM44 (smul d n) m))
        (sub (mulM44 (add (smul d n) dir1) m) (mulM44 (smul d n) m))

theorem plane_xform_core (n : V3 α) (d : α) (m : M44 α) (dir1 v : V3 α) (haff : Affine m) :
    dot (xformNormal n d m dir1) (sub (mulM44 v m) (mulM44 (smul d n) m))
      = det3 m * (dot dir1 dir1 * dot n (sub v (smul d n)) - dot dir1 n * dot dir1 (sub v (smul d n))) := by
  obtain ⟨h03, h13, h23, h33⟩ := haff
  simp only [xformNormal, mulM44, dot, cross, sub, add, smul, det3, h03, h13, h23, h33, mul_zero, add_zero, zero_add, div_one]
  ring

/-- the un-normalised normal built by `plane * M` does not vanish for a non-singular affine `M` -/
theorem xformNormal_ne_zero (n : V3 α) (d : α) (m : M44 α) (D : V3 α) (haff : Affine m) (hdet : det3 m ≠ 0)
    (hu : dot n n = 1) (hDn : dot D n = 0) (hD : 0 < dot D D) : xformNormal n d m D ≠ zero := by
  intro h0
  have h := plane_xform_core n d m D (add (smul d n) n) haff
  rw [h0] at h
  have e1 : dot n (sub (add (smul d n) n) (smul d n)) = dot n n := by simp only [dot, sub, add, smul]; ring
  have e2 : dot (zero : V3 α) (sub (mulM44 (add (smul d n) n) m) (mulM44 (smul d n) m)) = 0 := by simp only [dot, zero]; ring
  rw [e1, e2, hu, hDn] at h
  have : det3 m * dot D D = 0 := by linear_combination -h
  rcases mul_eq_zero.mp this with h | h
  · exact hdet h
  · exact (ne_of_gt hD) h


/-! ## triangle `intersect` (ImathLineAlgo.h): named quantities and the barycentric algebra -/

/-- `a - en * (en ^ a)` -/
def perpTo (en a : V3 α) : V3 α := ⟨a.x - en.x * dot en a, a.y - en.y * dot en a, a.z - en.z * dot en a⟩
/-- `v / L` -/
def divS (v : V3 α) (L : α) : V3 α := ⟨v.x / L, v.y / L, v.z / L⟩
/-- un-normalised triangle normal `(v2−v1) × (v1−v0)` -/
def triN (v0 v1 v2 : V3 α) : V3 α := cross (sub v2 v1) (sub v1 v0)

/-- numerator / denominator of the barycentric coordinate of `vc` for the edge `va → vb` (Gram determinants) -/
def numA (p va vb vc : V3 α) : α :=
  dot (sub vb va) (sub vb va) * dot (sub p va) (sub vc va) - dot (sub vb va) (sub p va) * dot (sub vb va) (sub vc va)
def denA (va vb vc : V3 α) : α :=
  dot (sub vb va) (sub vb va) * dot (sub vc va) (sub vc va) - dot (sub vb va) (sub vc va) ^ 2

/-- projecting away a unit direction: `(a − u(u·a))·(b − u(u·b)) = a·b − (u·a)(u·b)` -/
theorem perpTo_dot (u a b : V3 α) (hu : dot u u = 1) : dot (perpTo u a) (perpTo u b) = dot a b - dot u a * dot u b := by
  simp only [perpTo, dot] at hu ⊢
  linear_combination ((u.x * a.x + u.y * a.y + u.z * a.z) * (u.x * b.x + u.y * b.y + u.z * b.z)) * hu

theorem divS_unit (E : V3 α) (L : α) (hL : L ≠ 0) (hsq : L ^ 2 = dot E E) : dot (divS E L) (divS E L) = 1 := by
  simp only [divS, dot] at hsq ⊢; field_simp; linarith

/-- the code's `e = c·d` for the edge with direction `E/L`, `L = |E|` -/
theorem perp_e_eq (E a b : V3 α) (L : α) (hL : L ≠ 0) (hsq : L ^ 2 = dot E E) :
    dot (perpTo (divS E L) a) (perpTo (divS E L) b) = (dot E E * dot a b - dot E a * dot E b) / dot E E := by
  rw [perpTo_dot _ _ _ (divS_unit E L hL hsq), ← hsq]
  simp only [divS, dot]; field_simp

theorem denA_eq (v0 v1 v2 : V3 α) :
    denA v0 v1 v2 = dot (triN v0 v1 v2) (triN v0 v1 v2) ∧ denA v1 v2 v0 = dot (triN v0 v1 v2) (triN v0 v1 v2) := by
  constructor <;> (simp only [denA, triN, dot, cross, sub]; ring)

/-- the barycentric identity: the Gram-determinant coordinates reproduce the point up to its normal component -/
theorem bary_identity (p v0 v1 v2 : V3 α) :
    sub (add (add (smul (numA p v1 v2 v0) v0) (smul (dot (triN v0 v1 v2) (triN v0 v1 v2) - numA p v1 v2 v0 - numA p v0 v1 v2) v1))
          (smul (numA p v0 v1 v2) v2)) (smul (dot (triN v0 v1 v2) (triN v0 v1 v2)) p)
      = smul (- dot (triN v0 v1 v2) (sub p v0)) (triN v0 v1 v2) := by
  simp only [numA, triN, dot, cross, sub, add, smul, V3.mk.injEq]
  refine ⟨?_, ?_, ?_⟩ <;> ring

/-! ## `Plane3 * Matrix44` for projective matrices: the homogeneous images of four points and the 4×4 determinant -/

/-- 4×4 determinant with rows `(a, aw)`, `(b, bw)`, `(c, cw)`, `(e, ew)` -/
def det4rows (a : V3 α) (aw : α) (b : V3 α) (bw : α) (c : V3 α) (cw : α) (e : V3 α) (ew : α) : α :=
  det4 ⟨a.x, a.y, a.z, aw, b.x, b.y, b.z, bw, c.x, c.y, c.z, cw, e.x, e.y, e.z, ew⟩

omit [LinearOrder α] [IsStrictOrderedRing α] in
/-- the triple product of three difference vectors of de-homogenised points is the determinant of the homogeneous rows -/
theorem triple_homog (a b c e : V3 α) (aw bw cw ew : α) (ha : aw ≠ 0) (hb : bw ≠ 0) (hc : cw ≠ 0) (he : ew ≠ 0) :
    dot (cross (sub (divS b bw) (divS a aw)) (sub (divS c cw) (divS a aw))) (sub (divS e ew) (divS a aw)) * (ew * aw * bw * cw)
      = det4rows e ew a aw b bw c cw := by
  simp only [dot, cross, sub, divS, det4rows, det4]
  field_simp
  ring

omit [LinearOrder α] [IsStrictOrderedRing α] in
/-- multiplicativity of the determinant for the rows `(p, 1)·M` -/
theorem det4rows_mul (e a b c : V3 α) (m : M44 α) :
    det4rows (numM44 e m) (wOf e m) (numM44 a m) (wOf a m) (numM44 b m) (wOf b m) (numM44 c m) (wOf c m)
      = det4rows e 1 a 1 b 1 c 1 * det4 m := by
  simp only [det4rows, det4, numM44, wOf]
  ring

omit [LinearOrder α] [IsStrictOrderedRing α] in
theorem det4rows_affine (e a b c : V3 α) :
    det4rows e 1 a 1 b 1 c 1 = dot (cross (sub b a) (sub c a)) (sub e a) := by
  simp only [det4rows, det4, dot, cross, sub]
  ring

omit [LinearOrder α] [IsStrictOrderedRing α] in
theorem mulM44_eq_divS (p : V3 α) (m : M44 α) : mulM44 p m = divS (numM44 p m) (wOf p m) := rfl

omit [LinearOrder α] [IsStrictOrderedRing α] in
/-- the projective generalisation of `plane_xform_core`: for ANY 4×4 matrix (no affinity, no regularity), as long as the
homogeneous `w` of the four points involved does not vanish -/
theorem plane_xform_core_proj (n : V3 α) (d : α) (m : M44 α) (D v : V3 α)
    (h0 : wOf (smul d n) m ≠ 0) (h1 : wOf (add (smul d n) (cross D n)) m ≠ 0) (h2 : wOf (add (smul d n) D) m ≠ 0) (hv : wOf v m ≠ 0) :
    dot (xformNormal n d m D) (sub (mulM44 v m) (mulM44 (smul d n) m))
      * (wOf v m * wOf (smul d n) m * wOf (add (smul d n) (cross D n)) m * wOf (add (smul d n) D) m)
      = det4 m * (dot D D * dot n (sub v (smul d n)) - dot D n * dot D (sub v (smul d n))) := by
  unfold xformNormal
  rw [mulM44_eq_divS, mulM44_eq_divS, mulM44_eq_divS, mulM44_eq_divS, triple_homog _ _ _ _ _ _ _ _ h0 h1 h2 hv, det4rows_mul, det4rows_affine]
  simp only [dot, cross, sub, add, smul]
  ring

/-! the quantities the code computes, by name (`len` is the length function) -/

section
variable (len : V3 α → α)
def triNh (v0 v1 v2 : V3 α) : V3 α := divS (triN v0 v1 v2) (len (triN v0 v1 v2))
def triD (l : Line3 α) (v0 v1 v2 : V3 α) : α := dot (triNh len v0 v1 v2) (sub v0 l.pos)
def triNd (l : Line3 α) (v0 v1 v2 : V3 α) : α := dot (triNh len v0 v1 v2) l.dir
def triPt (l : Line3 α) (v0 v1 v2 : V3 α) : V3 α := lineAt l (triD len l v0 v1 v2 / triNd len l v0 v1 v2)
/-- `e` of the edge `va → vb` with opposite vertex `vc` -/
def triE (pt va vb vc : V3 α) : α :=
  dot (perpTo (divS (sub vb va) (len (sub vb va))) (sub pt va)) (perpTo (divS (sub vb va) (len (sub vb va))) (sub vc va))
def triF (va vb vc : V3 α) : α :=
  dot (perpTo (divS (sub vb va) (len (sub vb va))) (sub vc va)) (perpTo (divS (sub vb va) (len (sub vb va))) (sub vc va))
def triBz (l : Line3 α) (v0 v1 v2 : V3 α) : α := triE len (triPt len l v0 v1 v2) v0 v1 v2 / triF len v0 v1 v2
def triBx (l : Line3 α) (v0 v1 v2 : V3 α) : α := triE len (triPt len l v0 v1 v2) v1 v2 v0 / triF len v1 v2 v0
def triBy (l : Line3 α) (v0 v1 v2 : V3 α) : α := 1 - triBx len l v0 v1 v2 - triBz len l v0 v1 v2


end

end ImathVerif.Geo
