import ImathVerif.Model.Fun
import ImathVerif.Spec.FunSpec
import Mathlib.Algebra.Order.Floor.Ring
import Mathlib.Tactic.Linarith
import Mathlib.Tactic.Ring
import Mathlib.Tactic.FieldSimp
/-!
Lemmas for C17, part 1: ImathFun.h / ImathFun.cpp / ImathMath.h.
-/
set_option linter.unusedSectionVars false
set_option linter.unusedSimpArgs false
set_option linter.unusedVariables false
namespace ImathVerif.Fun

/-! ### integer division -/

theorem divs_eq_tdiv (x y : Int) : divs x y = x.tdiv y := by
  unfold divs
  split_ifs <;> simp [Int.tdiv_neg, Int.neg_tdiv]

theorem mods_eq_tmod (x y : Int) : mods x y = x.tmod y := by
  unfold mods
  split_ifs <;> simp [Int.tmod_neg, Int.neg_tmod]

theorem ceil_form (x y : Int) (hy : 0 < y) : (y - 1 - x) / y = -(x / y) := by
  have hy0 : y ≠ 0 := by omega
  have : y - 1 - x = y * (-(x / y)) + (y - 1 - x % y) := by
    have := Int.mul_ediv_add_emod x y
    linarith
  rw [this, Int.mul_comm, Int.add_comm, Int.add_mul_ediv_right _ _ hy0,
    Int.ediv_eq_zero_of_lt] <;> [simp; skip; skip]
  · have := Int.emod_lt_of_pos x hy; omega
  · have := Int.emod_nonneg x hy0; have := Int.emod_lt_of_pos x hy; omega

/-- `(-(x+1)) / y = -(x / y) - 1` for y > 0 -/
theorem negsucc_form (x y : Int) (hy : 0 < y) : (-(x + 1)) / y = -(x / y) - 1 := by
  have hy0 : y ≠ 0 := by omega
  have e : -(x + 1) = (y - 1 - x) + (-1) * y := by ring
  rw [e, Int.add_mul_ediv_right _ _ hy0, ceil_form x y hy]; ring

theorem divp_eq_ediv (x y : Int) (hy : y ≠ 0) : divp x y = x / y := by
  unfold divp
  split_ifs with hx hy' hy'
  · rw [Int.tdiv_eq_ediv_of_nonneg hx]
  · rw [Int.tdiv_eq_ediv_of_nonneg hx, Int.ediv_neg, Int.neg_neg]
  · rw [Int.tdiv_eq_ediv_of_nonneg (by omega), negsucc_form x y (by omega)]; ring
  · rw [Int.tdiv_eq_ediv_of_nonneg (by omega), negsucc_form x (-y) (by omega), Int.ediv_neg]; ring

theorem modp_eq_emod (x y : Int) (hy : y ≠ 0) : modp x y = x % y := by
  unfold modp; rw [divp_eq_ediv x y hy, Int.emod_def]

theorem divs_mods (x y : Int) : x = y * divs x y + mods x y := by
  rw [divs_eq_tdiv, mods_eq_tmod]; exact (Int.mul_tdiv_add_tmod x y).symm

theorem mods_bound (x y : Int) (hy : y ≠ 0) :
    (mods x y).natAbs < y.natAbs ∧ (0 ≤ x → 0 ≤ mods x y) ∧ (x ≤ 0 → mods x y ≤ 0) := by
  rw [mods_eq_tmod]
  refine ⟨?_, ?_, ?_⟩
  · rw [Int.natAbs_tmod]; exact Nat.mod_lt _ (by omega)
  · intro h; exact Int.tmod_nonneg y h
  · intro h
    have := Int.tmod_nonneg y (show 0 ≤ -x by omega)
    rw [Int.neg_tmod] at this; omega

theorem divp_modp (x y : Int) (hy : y ≠ 0) :
    x = y * divp x y + modp x y ∧ 0 ≤ modp x y ∧ modp x y < |y| := by
  rw [divp_eq_ediv x y hy, modp_eq_emod x y hy]
  exact ⟨(Int.mul_ediv_add_emod x y).symm, Int.emod_nonneg x hy, Int.emod_lt_abs x hy⟩

/-! ### the 32-bit overflow guards -/

theorem inInt32_iff (i : Int) : inInt32 i = true ↔ -2147483648 ≤ i ∧ i ≤ 2147483647 := by
  simp [inInt32]

theorem tdiv_bounds (a b : Int) (ha : 0 ≤ a) (hb : 0 ≤ b) : 0 ≤ a.tdiv b ∧ a.tdiv b ≤ a :=
  ⟨Int.tdiv_nonneg ha hb, Int.tdiv_le_self b ha⟩

theorem tmod_bounds (a b : Int) (ha : 0 ≤ a) : 0 ≤ a.tmod b ∧ a.tmod b ≤ a := by
  have h1 := Int.tmod_nonneg b ha
  have h2 : (a.tmod b).natAbs ≤ a.natAbs := by rw [Int.natAbs_tmod]; exact Nat.mod_le _ _
  omega

theorem divs_noOverflow_iff (x y : Int) (hx : inInt32 x = true) (hy : inInt32 y = true) :
    noOverflow (divsSteps x y) = true ↔ x ≠ -2147483648 ∧ y ≠ -2147483648 := by
  rw [inInt32_iff] at hx hy
  unfold noOverflow divsSteps
  split_ifs with h1 h2 h2
  · have := tdiv_bounds x y h1 h2
    simp only [List.all_cons, List.all_nil, Bool.and_true, Bool.and_eq_true, inInt32_iff, Bool.true_and]; omega
  · have := tdiv_bounds x (-y) h1 (by omega)
    simp only [List.all_cons, List.all_nil, Bool.and_true, Bool.and_eq_true, inInt32_iff, Bool.true_and]; omega
  · have := tdiv_bounds (-x) y (by omega) h2
    simp only [List.all_cons, List.all_nil, Bool.and_true, Bool.and_eq_true, inInt32_iff, Bool.true_and]; omega
  · have := tdiv_bounds (-x) (-y) (by omega) (by omega)
    simp only [List.all_cons, List.all_nil, Bool.and_true, Bool.and_eq_true, inInt32_iff, Bool.true_and]; omega

theorem mods_noOverflow_iff (x y : Int) (hx : inInt32 x = true) (hy : inInt32 y = true) :
    noOverflow (modsSteps x y) = true ↔ x ≠ -2147483648 ∧ y ≠ -2147483648 := by
  rw [inInt32_iff] at hx hy
  unfold noOverflow modsSteps
  split_ifs with h1 h2 h2
  · have := tmod_bounds x y h1
    simp only [List.all_cons, List.all_nil, Bool.and_true, Bool.and_eq_true, inInt32_iff, Bool.true_and]; omega
  · have := tmod_bounds x (-y) h1
    simp only [List.all_cons, List.all_nil, Bool.and_true, Bool.and_eq_true, inInt32_iff, Bool.true_and]; omega
  · have := tmod_bounds (-x) y (by omega)
    simp only [List.all_cons, List.all_nil, Bool.and_true, Bool.and_eq_true, inInt32_iff, Bool.true_and]; omega
  · have := tmod_bounds (-x) (-y) (by omega)
    simp only [List.all_cons, List.all_nil, Bool.and_true, Bool.and_eq_true, inInt32_iff, Bool.true_and]; omega

/-- exactly which inputs make an intermediate of the repaired `divp` overflow: `-y` for
y = INT_MIN, and the final `1 + q` for (INT_MIN, -1), whose quotient 2^31 is not an int anyway -/
theorem divp_noOverflow_iff (x y : Int) (hx : inInt32 x = true) (hy : inInt32 y = true) :
    noOverflow (divpSteps x y) = true ↔
      y ≠ -2147483648 ∧ ¬ (x = -2147483648 ∧ y = -1) := by
  rw [inInt32_iff] at hx hy
  unfold noOverflow divpSteps
  split_ifs with h1 h2 h2
  · have := tdiv_bounds x y h1 h2
    simp only [List.all_cons, List.all_nil, Bool.and_true, Bool.and_eq_true, inInt32_iff]; omega
  · have := tdiv_bounds x (-y) h1 (by omega)
    simp only [List.all_cons, List.all_nil, Bool.and_true, Bool.and_eq_true, inInt32_iff]; omega
  · have := tdiv_bounds (-(x + 1)) y (by omega) h2
    simp only [List.all_cons, List.all_nil, Bool.and_true, Bool.and_eq_true, inInt32_iff]; omega
  · have := tdiv_bounds (-(x + 1)) (-y) (by omega) (by omega)
    have h3 : y = -1 → (-(x + 1)).tdiv (-y) = -(x + 1) := by
      intro h; rw [h]; simp
    have h4 : y ≤ -2 → (-(x + 1)).tdiv (-y) ≤ 1073741823 := by
      intro h
      have h5 : (-(x + 1)).tdiv (-y) * 2 ≤ (-(x + 1)).tdiv (-y) * (-y) :=
        Int.mul_le_mul_of_nonneg_left (by omega) this.1
      have h6 := Int.mul_tdiv_add_tmod (-(x + 1)) (-y)
      have h7 := Int.tmod_nonneg (-y) (show 0 ≤ -(x + 1) by omega)
      have h8 : (-(x + 1)).tdiv (-y) * (-y) = (-y) * (-(x + 1)).tdiv (-y) := Int.mul_comm _ _
      omega
    simp only [List.all_cons, List.all_nil, Bool.and_true, Bool.and_eq_true, inInt32_iff]
    constructor
    · intro h; omega
    · intro h
      rcases (show y = -1 ∨ y ≤ -2 by omega) with hy1 | hy2
      · have := h3 hy1; omega
      · have := h4 hy2; omega

/-- the negations alone: only `-y` can overflow -/
theorem divpNegations_iff (x y : Int) (hx : inInt32 x = true) (hy : inInt32 y = true) :
    noOverflow (divpNegations x y) = true ↔ y ≠ -2147483648 := by
  rw [inInt32_iff] at hx hy
  unfold noOverflow divpNegations
  split_ifs with h1 h2 h2
  · simp only [List.all_nil, true_iff]; omega
  · have := tdiv_bounds x (-y) h1 (by omega)
    simp only [List.all_cons, List.all_nil, Bool.and_true, Bool.and_eq_true, inInt32_iff]; omega
  · simp only [List.all_cons, List.all_nil, Bool.and_true, Bool.and_eq_true, inInt32_iff]; omega
  · simp only [List.all_cons, List.all_nil, Bool.and_true, Bool.and_eq_true, inInt32_iff]; omega

theorem wrap32_id (i : Int) (h : inInt32 i = true) : wrap32 i = i := by
  rw [inInt32_iff] at h; unfold wrap32; omega

theorem div32_some (a b : Int) (hb : b ≠ 0) (h : a ≠ -2147483648 ∨ b ≠ -1) : div32 a b = some (a.tdiv b) := by
  unfold div32; rw [if_neg]; omega
theorem mod32_some (a b : Int) (hb : b ≠ 0) (h : a ≠ -2147483648 ∨ b ≠ -1) : mod32 a b = some (a.tmod b) := by
  unfold mod32; rw [if_neg]; omega

theorem divs32_eq (x y : Int) (hy0 : y ≠ 0) (hx : inInt32 x = true) (hy : inInt32 y = true)
    (h : noOverflow (divsSteps x y) = true) : divs32 x y = some (divs x y) := by
  rw [inInt32_iff] at hx hy
  unfold noOverflow divsSteps at h
  unfold divs32 divs neg32
  split_ifs at h ⊢ with h1 h2 h2 <;>
    simp only [List.all_cons, List.all_nil, Bool.and_true, Bool.and_eq_true, inInt32_iff] at h
  · rw [div32_some _ _ hy0 (by omega)]
  · rw [wrap32_id (-y) (by rw [inInt32_iff]; omega), div32_some _ _ (by omega) (by omega), Option.map_some,
      wrap32_id _ (by rw [inInt32_iff]; omega)]
  · rw [wrap32_id (-x) (by rw [inInt32_iff]; omega), div32_some _ _ (by omega) (by omega), Option.map_some,
      wrap32_id _ (by rw [inInt32_iff]; omega)]
  · rw [wrap32_id (-x) (by rw [inInt32_iff]; omega), wrap32_id (-y) (by rw [inInt32_iff]; omega),
      div32_some _ _ (by omega) (by omega)]

theorem divp32_eq (x y : Int) (hy0 : y ≠ 0) (hx : inInt32 x = true) (hy : inInt32 y = true)
    (h : noOverflow (divpSteps x y) = true) : divp32 x y = some (divp x y) := by
  rw [inInt32_iff] at hx hy
  unfold noOverflow divpSteps at h
  unfold divp32 divp neg32
  split_ifs at h ⊢ with h1 h2 h2 <;>
    simp only [List.all_cons, List.all_nil, Bool.and_true, Bool.and_eq_true, inInt32_iff] at h
  · rw [div32_some _ _ hy0 (by omega)]
  · rw [wrap32_id (-y) (by rw [inInt32_iff]; omega), div32_some _ _ (by omega) (by omega), Option.map_some,
      wrap32_id _ (by rw [inInt32_iff]; omega)]
  · rw [wrap32_id (x + 1) (by rw [inInt32_iff]; omega), wrap32_id (-(x + 1)) (by rw [inInt32_iff]; omega),
      div32_some _ _ (by omega) (by omega), Option.map_some, wrap32_id _ (by rw [inInt32_iff]; omega)]
  · rw [wrap32_id (x + 1) (by rw [inInt32_iff]; omega), wrap32_id (-(x + 1)) (by rw [inInt32_iff]; omega),
      wrap32_id (-y) (by rw [inInt32_iff]; omega),
      div32_some _ _ (by omega) (by omega), Option.map_some, wrap32_id _ (by rw [inInt32_iff]; omega)]

/-- `modp` through wrapped arithmetic: right whenever `divp` is, even if `y * divp` wraps -/
theorem modp32_eq_wrap (x y : Int) (hy0 : y ≠ 0) (hx : inInt32 x = true) (hy : inInt32 y = true)
    (h : noOverflow (divpSteps x y) = true) : modp32 x y = some (x % y) := by
  unfold modp32
  rw [divp32_eq x y hy0 hx hy h, Option.map_some, divp_eq_ediv x y hy0]
  have h1 : x - y * (x / y) = x % y := by rw [Int.emod_def]
  have h2 := Int.emod_nonneg x hy0
  have h3 := Int.emod_lt_abs x hy0
  rw [inInt32_iff] at hx hy
  have h4 : |y| ≤ 2147483648 := by rw [abs_le]; omega
  generalize y * (x / y) = P at h1
  unfold wrap32
  congr 1
  omega



/-! ### floor / ceil / trunc -/
section
variable {α : Type} [Field α] [LinearOrder α] [IsStrictOrderedRing α] [FloorRing α]

/-- mathematical truncation toward zero -/
def truncZ (x : α) : Int := if 0 ≤ x then ⌊x⌋ else ⌈x⌉

/-- modelling assumption: the C++ cast `int (y)` is exact truncation toward zero for |y| < 2^31 -/
def IsTruncCast (toInt : α → Int) : Prop := ∀ y : α, |y| < 2147483648 → toInt y = truncZ y

theorem floor_eq (toInt : α → Int) (h : IsTruncCast toInt) (x : α) (hx : |x| < 2147483648) :
    floor toInt x = ⌊x⌋ := by
  unfold floor
  by_cases h0 : x ≥ 0
  · rw [if_pos h0, h x hx, truncZ, if_pos h0]
  · rw [if_neg h0]
    have hneg : x < 0 := not_le.mp h0
    have hy : 0 ≤ -x := by linarith
    rw [h (-x) (by rwa [abs_neg]), truncZ, if_pos hy]
    have hfl : ⌊x⌋ = -⌈-x⌉ := by rw [Int.ceil_neg, neg_neg]
    rw [hfl]
    by_cases hgt : -x > ((⌊-x⌋ : Int) : α)
    · rw [if_pos hgt]
      have : ⌈-x⌉ = ⌊-x⌋ + 1 := by
        rw [Int.ceil_eq_iff]; push_cast
        exact ⟨by linarith, (Int.lt_floor_add_one (-x)).le⟩
      rw [this]; ring
    · rw [if_neg hgt]
      have : -x = ((⌊-x⌋ : Int) : α) := le_antisymm (not_lt.mp hgt) (Int.floor_le (-x))
      have hc : ⌈-x⌉ = ⌊-x⌋ := by conv_lhs => rw [this]; exact Int.ceil_intCast _
      rw [hc]; ring

theorem ceil_eq (toInt : α → Int) (h : IsTruncCast toInt) (x : α) (hx : |x| < 2147483648) :
    ceil toInt x = ⌈x⌉ := by
  unfold ceil
  rw [floor_eq toInt h (-x) (by rwa [abs_neg]), Int.floor_neg, neg_neg]

theorem trunc_eq (toInt : α → Int) (h : IsTruncCast toInt) (x : α) (hx : |x| < 2147483648) :
    trunc toInt x = truncZ x := by
  unfold trunc
  split_ifs with h0
  · exact h x hx
  · have hneg : x < 0 := not_le.mp h0
    rw [h (-x) (by rwa [abs_neg]), truncZ, truncZ, if_pos (by linarith), if_neg h0, Int.floor_neg, neg_neg]
end

/-! ### definitional laws -/
section
variable {α : Type} [Field α] [LinearOrder α] [IsStrictOrderedRing α]

theorem abs_eq (a : α) : abs a = |a| := by
  unfold abs
  split_ifs with h
  · exact (abs_of_pos h).symm
  · exact (abs_of_nonpos (not_lt.mp h)).symm

theorem sign_spec (a : α) :
    (sign a = 1 ↔ 0 < a) ∧ (sign a = -1 ↔ a < 0) ∧ (sign a = 0 ↔ a = 0) := by
  unfold sign
  rcases lt_trichotomy a 0 with h | h | h
  · have : ¬ a > 0 := not_lt.mpr h.le
    simp [this, h, h.ne]
  · subst h; simp
  · have : ¬ a < 0 := not_lt.mpr h.le
    simp [h, this, h.ne']

theorem cmp_spec (a b : α) :
    (cmp a b = 1 ↔ b < a) ∧ (cmp a b = -1 ↔ a < b) ∧ (cmp a b = 0 ↔ a = b) := by
  unfold cmp
  obtain ⟨h1, h2, h3⟩ := sign_spec (a - b)
  exact ⟨h1.trans sub_pos, h2.trans sub_neg, h3.trans sub_eq_zero⟩

theorem cmpt_spec (a b t : α) : cmpt a b t = if |a - b| ≤ t then 0 else cmp a b := by
  unfold cmpt; rw [abs_eq]

theorem iszero_spec (a t : α) : iszero a t = true ↔ |a| ≤ t := by
  unfold iszero; rw [abs_eq]; simp

theorem equal_spec (a b t : α) : equal a b t = true ↔ |a - b| ≤ t := by
  unfold equal; rw [abs_eq]; simp

theorem clamp_spec (a l h : α) (hlh : l ≤ h) : clamp a l h = max l (min a h) := by
  unfold clamp
  split_ifs with h1 h2
  · rw [max_eq_left]; exact le_trans (min_le_left _ _) h1.le
  · rw [min_eq_right h2.le, max_eq_right hlh]
  · rw [min_eq_left (not_lt.mp h2), max_eq_right (not_lt.mp h1)]

theorem lerp_spec (a b t : α) : lerp a b t = a + (b - a) * t := by unfold lerp; ring
theorem lerp_zero (a b : α) : lerp a b 0 = a := by unfold lerp; ring
theorem lerp_one (a b : α) : lerp a b 1 = b := by unfold lerp; ring
theorem ulerp_eq_lerp (a b t : α) : ulerp a b t = lerp a b t := by
  unfold ulerp lerp; split_ifs <;> ring

/-- `ulerp` at unsigned `T`: whichever of a, b is larger, the unsigned difference taken is the non-wrapping one, so the
result is the affine interpolation (the two arms swapped would subtract the larger from the smaller and wrap) -/
theorem ulerpU_spec (cast : Nat → α) (hcast : ∀ n : Nat, cast n = (n : α)) (a b : Nat)
    (ha : a < 4294967296) (hb : b < 4294967296) (t : α) :
    ulerpU cast a b t = (a : α) + ((b : α) - (a : α)) * t := by
  unfold ulerpU
  split_ifs with h
  · have e : (a + 4294967296 - b) % 4294967296 = a - b := by omega
    rw [e, hcast, hcast, Nat.cast_sub (by omega : b ≤ a)]; ring
  · have e : (b + 4294967296 - a) % 4294967296 = b - a := by omega
    rw [e, hcast, hcast, Nat.cast_sub (by omega : a ≤ b)]

theorem equalWithAbsError_spec (x1 x2 e : α) : equalWithAbsError x1 x2 e = true ↔ |x1 - x2| ≤ e := by
  unfold equalWithAbsError
  split_ifs with h
  · rw [abs_of_pos (sub_pos.mpr h)]; simp
  · rw [abs_of_nonpos (sub_nonpos.mpr (not_lt.mp h))]; simp

theorem equalWithRelError_spec (x1 x2 e : α) :
    equalWithRelError x1 x2 e = true ↔ |x1 - x2| ≤ e * |x1| := by
  unfold equalWithRelError
  have h1 : (if x1 > x2 then x1 - x2 else x2 - x1) = |x1 - x2| := by
    split_ifs with h
    · rw [abs_of_pos (sub_pos.mpr h)]
    · rw [abs_of_nonpos (sub_nonpos.mpr (not_lt.mp h))]; ring
  have h2 : (if x1 > 0 then x1 else -x1) = |x1| := abs_eq x1
  rw [h1, h2]; simp

/-- the guard, in mathematical notation -/
theorem lerpfactorGuard_iff (tmax m a b : α) :
    lerpfactorGuard tmax m a b ↔ (|b - a| > 1 ∨ |m - a| < tmax * |b - a|) := by
  unfold lerpfactorGuard; simp only [abs_eq]

theorem lerpfactor_cases (tmax m a b : α) :
    lerpfactor tmax m a b = if lerpfactorGuard tmax m a b then (m - a) / (b - a) else 0 := by
  unfold lerpfactor lerpfactorGuard; rfl

/-- `a == b` never passes the guard (needs only `0 ≤ |n|`): the result is 0 -/
theorem lerpfactor_eq_endpoints (tmax m a : α) : lerpfactor tmax m a a = 0 := by
  rw [lerpfactor_cases]; split_ifs with h
  · simp
  · rfl

theorem lerpfactor_inverts_lerp (tmax a b t : α) (hab : a ≠ b)
    (hg : lerpfactorGuard tmax (lerp a b t) a b) : lerpfactor tmax (lerp a b t) a b = t := by
  rw [lerpfactor_cases, if_pos hg, lerp_spec]
  have : b - a ≠ 0 := sub_ne_zero.mpr hab.symm
  field_simp; ring

theorem lerp_lerpfactor (tmax m a b : α) (hab : a ≠ b) (hg : lerpfactorGuard tmax m a b) :
    lerp a b (lerpfactor tmax m a b) = m := by
  rw [lerpfactor_cases, if_pos hg, lerp_spec]
  have : b - a ≠ 0 := sub_ne_zero.mpr hab.symm
  field_simp; ring

/-- returns 0 exactly when the guard fires (or trivially when m = a) -/
theorem lerpfactor_eq_zero_iff (tmax m a b : α) :
    lerpfactor tmax m a b = 0 ↔ ¬ lerpfactorGuard tmax m a b ∨ m = a := by
  rw [lerpfactor_cases]
  constructor
  · intro h
    by_cases hg : lerpfactorGuard tmax m a b
    · right
      rw [if_pos hg] at h
      rcases div_eq_zero_iff.mp h with h | h
      · exact sub_eq_zero.mp h
      · exfalso
        rw [lerpfactorGuard_iff, h, abs_zero, mul_zero] at hg
        rcases hg with hg | hg
        · exact absurd hg (by norm_num)
        · exact absurd hg (not_lt.mpr (abs_nonneg _))
    · left; exact hg
  · rintro (h | h)
    · rw [if_neg h]
    · subst h; split_ifs <;> simp

/-- the quotient returned is bounded: it never overflows `tmax` unless `|m - a|` itself is larger -/
theorem lerpfactor_bounded (tmax m a b : α) (htmax : 0 < tmax) :
    |lerpfactor tmax m a b| < tmax ∨ |lerpfactor tmax m a b| ≤ |m - a| := by
  rw [lerpfactor_cases]
  by_cases hg : lerpfactorGuard tmax m a b
  · rw [if_pos hg, abs_div]
    rw [lerpfactorGuard_iff] at hg
    rcases hg with hg | hg
    · right
      exact div_le_self (abs_nonneg _) hg.le
    · left
      have hd : 0 < |b - a| := by
        by_contra hcon
        have : |b - a| = 0 := le_antisymm (not_lt.mp hcon) (abs_nonneg _)
        rw [this, mul_zero] at hg
        exact absurd hg (not_lt.mpr (abs_nonneg _))
      rwa [div_lt_iff₀ hd]
  · left; rw [if_neg hg, abs_zero]; exact htmax
end

/-! ### bit-level -/

/-- masking with a field mask `(2^w - 1) * 2^s` -/
theorem and_field (u s w : Nat) :
    u &&& ((2 ^ w - 1) * 2 ^ s) = ((u / 2 ^ s) % 2 ^ w) * 2 ^ s := by
  apply Nat.eq_of_testBit_eq
  intro i
  rw [Nat.testBit_and]
  by_cases h : i < s
  · rw [Nat.testBit_mul_two_pow, Nat.testBit_mul_two_pow]
    simp [show ¬ s ≤ i by omega]
  · have hs : s ≤ i := by omega
    rw [Nat.testBit_mul_two_pow, Nat.testBit_mul_two_pow, Nat.testBit_mod_two_pow, Nat.testBit_two_pow_sub_one]
    simp only [hs, decide_true, Bool.true_and]
    rw [Nat.testBit_div_two_pow]
    have : i - s + s = i := by omega
    rw [this]
    by_cases h2 : i - s < w <;> simp [h2]

theorem finitef_iff (u : Nat) : finitef u = true ↔ (u / 8388608) % 256 ≠ 255 := by
  unfold finitef
  have := and_field u 23 8
  simp only [show (2 ^ 8 - 1) * 2 ^ 23 = 2139095040 by decide, show (2:Nat) ^ 23 = 8388608 by decide,
    show (2:Nat) ^ 8 = 256 by decide] at this
  rw [show (0x7f800000 : Nat) = 2139095040 by decide, this]
  simp only [bne_iff_ne, ne_eq]
  omega

theorem finited_iff (u : Nat) : finited u = true ↔ (u / 4503599627370496) % 2048 ≠ 2047 := by
  unfold finited
  have := and_field u 52 11
  simp only [show (2 ^ 11 - 1) * 2 ^ 52 = 9218868437227405312 by decide,
    show (2:Nat) ^ 52 = 4503599627370496 by decide, show (2:Nat) ^ 11 = 2048 by decide] at this
  rw [show (0x7ff0000000000000 : Nat) = 9218868437227405312 by decide, this]
  simp only [bne_iff_ne, ne_eq]
  omega

theorem fvalP_step (p u : Nat) : fvalP p u < fvalP p (u + 1) := by
  unfold fvalP
  have hP : 0 < 2 ^ p := Nat.two_pow_pos p
  generalize hPe : 2 ^ p = P at *
  have hdm := Nat.div_add_mod u P
  have hm := Nat.mod_lt u hP
  by_cases hc : u % P + 1 < P
  · obtain ⟨e1, e2⟩ := (Nat.div_mod_unique (a := u + 1) (d := u / P) (c := u % P + 1) hP).mpr ⟨by omega, hc⟩
    rw [e1, e2]
    split
    · omega
    · apply Nat.mul_lt_mul_of_pos_right (by omega) (Nat.two_pow_pos _)
  · have hmx : u % P = P - 1 := by omega
    obtain ⟨e1, e2⟩ := (Nat.div_mod_unique (a := u + 1) (d := u / P + 1) (c := 0) hP).mpr
      ⟨by rw [Nat.mul_add]; omega, hP⟩
    rw [e1, e2, hmx]
    split
    · rename_i h0; rw [h0]; simp; exact hP
    · rename_i h0
      have : u / P + 1 - 1 = (u / P - 1) + 1 := by
        generalize u / P = e at h0 ⊢; omega
      rw [if_neg (Nat.succ_ne_zero _), this, Nat.pow_succ, ← Nat.mul_assoc, Nat.add_zero, Nat.mul_right_comm]
      apply Nat.mul_lt_mul_of_pos_right (by omega) (Nat.two_pow_pos _)

theorem fvalP_strictMono (p : Nat) : ∀ a b, a < b → fvalP p a < fvalP p b := by
  intro a b hab
  induction b with
  | zero => omega
  | succ n ih =>
    rcases Nat.lt_or_ge a n with h | h
    · exact Nat.lt_trans (ih h) (fvalP_step p n)
    · have : a = n := by omega
      subst this; exact fvalP_step p a

theorem fvalP_lt_iff (p a b : Nat) : fvalP p a < fvalP p b ↔ a < b := by
  constructor
  · intro h
    rcases Nat.lt_trichotomy a b with h1 | h1 | h1
    · exact h1
    · subst h1; omega
    · have := fvalP_strictMono p b a h1; omega
  · exact fvalP_strictMono p a b

theorem fvalP_zero (p : Nat) : fvalP p 0 = 0 := by
  unfold fvalP; simp [Nat.zero_div]

/-- `ordP` orders patterns exactly as their real values (any two patterns, ±0 identified) -/
theorem ordP_lt_iff (p sb u v : Nat) (hu : u < 2 * sb) (hv : v < 2 * sb) :
    ordP sb u < ordP sb v ↔ valP p sb u < valP p sb v := by
  unfold ordP valP
  have z := fvalP_zero p
  split <;> split
  · rw [Int.ofNat_lt, Int.ofNat_lt, fvalP_lt_iff]
  · rename_i h1 h2
    constructor <;> intro h <;> omega
  · rename_i h1 h2
    have h0 : 0 < u - sb ∨ u - sb = 0 := by omega
    have hv0 : 0 < v ∨ v = 0 := by omega
    rcases h0 with h0 | h0 <;> rcases hv0 with hv0 | hv0
    · have := fvalP_strictMono p 0 _ h0; have := fvalP_strictMono p 0 _ hv0; omega
    · subst hv0; have := fvalP_strictMono p 0 _ h0; omega
    · rw [h0]; have := fvalP_strictMono p 0 _ hv0; omega
    · rw [h0, hv0]; omega
  · rw [Int.neg_lt_neg_iff, Int.neg_lt_neg_iff, Int.ofNat_lt, Int.ofNat_lt, fvalP_lt_iff]

theorem succf_spec (u : Nat) (hu : u < 4294967296) :
    (isfinite32 u = true → ord32 (succf u) = ord32 u + 1 ∧ succf u < 4294967296) ∧
    (isfinite32 u = false → succf u = u) := by
  unfold succf
  constructor
  · intro h; rw [if_pos h]
    unfold isfinite32 at h
    simp only [Nat.shiftRight_eq_div_pow, bne_iff_ne, ne_eq] at h
    unfold nextUp32 ord32 ordP
    split_ifs <;> omega
  · intro h; simp [h]

theorem predf_spec (u : Nat) (hu : u < 4294967296) :
    (isfinite32 u = true → ord32 (predf u) = ord32 u - 1 ∧ predf u < 4294967296) ∧
    (isfinite32 u = false → predf u = u) := by
  unfold predf
  constructor
  · intro h; rw [if_pos h]
    unfold isfinite32 at h
    simp only [Nat.shiftRight_eq_div_pow, bne_iff_ne, ne_eq] at h
    unfold nextDown32 ord32 ordP
    split_ifs <;> omega
  · intro h; simp [h]

theorem succd_spec (u : Nat) (hu : u < 18446744073709551616) :
    (isfinite64 u = true → ord64 (succd u) = ord64 u + 1 ∧ succd u < 18446744073709551616) ∧
    (isfinite64 u = false → succd u = u) := by
  unfold succd
  constructor
  · intro h; rw [if_pos h]
    unfold isfinite64 at h
    simp only [Nat.shiftRight_eq_div_pow, bne_iff_ne, ne_eq] at h
    unfold nextUp64 ord64 ordP
    split_ifs <;> omega
  · intro h; simp [h]

theorem predd_spec (u : Nat) (hu : u < 18446744073709551616) :
    (isfinite64 u = true → ord64 (predd u) = ord64 u - 1 ∧ predd u < 18446744073709551616) ∧
    (isfinite64 u = false → predd u = u) := by
  unfold predd
  constructor
  · intro h; rw [if_pos h]
    unfold isfinite64 at h
    simp only [Nat.shiftRight_eq_div_pow, bne_iff_ne, ne_eq] at h
    unfold nextDown64 ord64 ordP
    split_ifs <;> omega
  · intro h; simp [h]

theorem mods32_eq (x y : Int) (hy0 : y ≠ 0) (hx : inInt32 x = true) (hy : inInt32 y = true)
    (h : noOverflow (modsSteps x y) = true) : mods32 x y = some (mods x y) := by
  rw [inInt32_iff] at hx hy
  unfold noOverflow modsSteps at h
  unfold mods32 mods neg32
  split_ifs at h ⊢ with h1 h2 h2 <;>
    simp only [List.all_cons, List.all_nil, Bool.and_true, Bool.and_eq_true, inInt32_iff] at h
  · rw [mod32_some _ _ hy0 (by omega)]
  · rw [wrap32_id (-y) (by rw [inInt32_iff]; omega), mod32_some _ _ (by omega) (by omega)]
  · rw [wrap32_id (-x) (by rw [inInt32_iff]; omega), mod32_some _ _ (by omega) (by omega), Option.map_some,
      wrap32_id _ (by rw [inInt32_iff]; omega)]
  · rw [wrap32_id (-x) (by rw [inInt32_iff]; omega), wrap32_id (-y) (by rw [inInt32_iff]; omega),
      mod32_some _ _ (by omega) (by omega), Option.map_some, wrap32_id _ (by rw [inInt32_iff]; omega)]

/-- BEFORE /repo commit f9bac53 `modp = x - y * divp (x, y)` was computed in int arithmetic: beyond the intermediates of
`divp` it had the int PRODUCT `y * divp`, which equals `x - x % y` and lies below INT_MIN for x within |y| - 1 of INT_MIN;
that was the only further overflow -/
theorem modpOld_noOverflow_iff (x y : Int) (hy0 : y ≠ 0) (hx : inInt32 x = true) (hy : inInt32 y = true)
    (hno : noOverflow (divpSteps x y) = true) :
    noOverflow (modpStepsOld x y) = true ↔ -2147483648 ≤ x - x % y := by
  have hq : divp x y = x / y := divp_eq_ediv x y hy0
  have hprod : y * (x / y) = x - x % y := by have := Int.emod_add_mul_ediv x y; omega
  have hr0 := Int.emod_nonneg x hy0
  have hr1 := Int.emod_lt_abs x hy0
  rw [inInt32_iff] at hx hy
  unfold noOverflow at hno ⊢
  unfold modpStepsOld
  rw [List.all_append, hno, Bool.true_and, hq, hprod]
  simp only [List.all_cons, List.all_nil, Bool.and_true, Bool.and_eq_true, inInt32_iff]
  have habs : |y| ≤ 2147483648 := by rw [abs_le]; omega
  constructor
  · intro h; exact h.1.1
  · intro h; omega

section
variable {α : Type} [Field α] [LinearOrder α] [IsStrictOrderedRing α] [FloorRing α]

theorem floorSteps_inRange (toInt : α → Int) (h : IsTruncCast toInt) (x : α)
    (hlo : -2147483648 < x) (hhi : x < 2147483648) : noOverflow (floorSteps toInt x) = true := by
  have habs : |x| < 2147483648 := by rw [abs_lt]; constructor <;> linarith
  unfold noOverflow floorSteps
  by_cases h0 : x ≥ 0
  · rw [if_pos h0, h x habs, truncZ, if_pos h0]
    simp only [List.all_cons, List.all_nil, Bool.and_true, inInt32_iff]
    have h1 : (0 : Int) ≤ ⌊x⌋ := Int.floor_nonneg.mpr h0
    have h2 : ⌊x⌋ < 2147483648 := by
      rw [Int.floor_lt]; push_cast; exact hhi
    omega
  · rw [if_neg h0]
    have hneg : x < 0 := not_le.mp h0
    have hy : 0 ≤ -x := by linarith
    rw [h (-x) (by rwa [abs_neg]), truncZ, if_pos hy]
    have h1 : (0 : Int) ≤ ⌊-x⌋ := Int.floor_nonneg.mpr hy
    have h2 : ⌊-x⌋ ≤ 2147483647 := by
      rw [← Int.lt_add_one_iff, Int.floor_lt]; push_cast; linarith
    simp only [List.all_cons, List.all_nil, Bool.and_true, Bool.and_eq_true, inInt32_iff]
    split_ifs <;> omega

/-- the expression BEFORE /repo commit 04462ef: for x in (-2^31, -(2^31 - 1)) (doubles only) the cast gives
`int (-x) = 2^31 - 1`, `-x` is not an integer, so `int (-x) + 1 = 2^31` overflowed although `⌊x⌋ = -2^31` IS an `int` -/
theorem floorStepsOld_overflow (toInt : α → Int) (h : IsTruncCast toInt) (x : α)
    (hlo : -2147483648 < x) (hhi : x < -2147483647) :
    noOverflow (floorStepsOld toInt x) = false ∧ ⌊x⌋ = -2147483648 ∧ inInt32 ⌊x⌋ = true := by
  have habs : |x| < 2147483648 := by rw [abs_lt]; constructor <;> linarith
  have h0 : ¬ x ≥ 0 := by intro h0; linarith
  have hy : 0 ≤ -x := by linarith
  have hfl : ⌊-x⌋ = 2147483647 := by
    rw [Int.floor_eq_iff]; push_cast; constructor <;> linarith
  have hgt : -x > ((⌊-x⌋ : Int) : α) := by rw [hfl]; push_cast; linarith
  have hfx : ⌊x⌋ = -2147483648 := by
    rw [Int.floor_eq_iff]; push_cast; constructor <;> linarith
  refine ⟨?_, hfx, by rw [hfx]; decide⟩
  unfold noOverflow floorStepsOld
  rw [if_neg h0, h (-x) (by rwa [abs_neg]), truncZ, if_pos hy, if_pos hgt, hfl]
  decide

/-- what the compiled code (wrapping `int` arithmetic) returns: `⌊x⌋` on the whole of |x| < 2^31 -/
theorem floor32_eq (toInt : α → Int) (h : IsTruncCast toInt) (x : α) (hx : |x| < 2147483648) :
    floor32 toInt x = ⌊x⌋ := by
  have hfe := floor_eq toInt h x hx
  obtain ⟨hxl, hxh⟩ := abs_lt.mp hx
  by_cases h0 : x ≥ 0
  · unfold floor32; rw [if_pos h0]; unfold floor at hfe; rw [if_pos h0] at hfe; exact hfe
  · have hno := floorSteps_inRange toInt h x hxl hxh
    unfold noOverflow floorSteps at hno
    rw [if_neg h0] at hno
    simp only [List.all_cons, List.all_nil, Bool.and_true, Bool.and_eq_true] at hno
    unfold floor32 neg32
    rw [if_neg h0, wrap32_id _ hno.2.1, wrap32_id _ hno.2.2]
    unfold floor at hfe; rw [if_neg h0] at hfe; exact hfe

/-- every `int` intermediate of `ceil` is representable for -2^31 < x ≤ 2^31 - 1 -/
theorem ceilSteps_inRange (toInt : α → Int) (h : IsTruncCast toInt) (x : α)
    (hlo : -2147483648 < x) (hhi : x ≤ 2147483647) : noOverflow (ceilSteps toInt x) = true := by
  have habs : |x| < 2147483648 := by rw [abs_lt]; constructor <;> linarith
  have h1 := floorSteps_inRange toInt h (-x) (by linarith) (by linarith)
  have hfe := floor_eq toInt h (-x) (by rwa [abs_neg])
  unfold noOverflow at h1 ⊢
  unfold ceilSteps
  rw [List.all_append, h1, Bool.true_and, hfe, Int.floor_neg, neg_neg]
  simp only [List.all_cons, List.all_nil, Bool.and_true, inInt32_iff]
  have hc1 : ⌈x⌉ ≤ 2147483647 := by rw [Int.ceil_le]; push_cast; exact hhi
  have hc2 : -2147483648 < ⌈x⌉ := by rw [Int.lt_ceil]; push_cast; exact hlo
  omega

theorem ceil32_eq (toInt : α → Int) (h : IsTruncCast toInt) (x : α)
    (hlo : -2147483648 < x) (hhi : x ≤ 2147483647) : ceil32 toInt x = ⌈x⌉ := by
  have habs : |x| < 2147483648 := by rw [abs_lt]; constructor <;> linarith
  unfold ceil32 neg32
  rw [floor32_eq toInt h (-x) (by rwa [abs_neg]), Int.floor_neg, neg_neg]
  have hc1 : ⌈x⌉ ≤ 2147483647 := by rw [Int.ceil_le]; push_cast; exact hhi
  have hc2 : -2147483648 < ⌈x⌉ := by rw [Int.lt_ceil]; push_cast; exact hlo
  exact wrap32_id _ (by rw [inInt32_iff]; omega)

/-- on (2^31 - 1, 2^31) (doubles only) `⌈x⌉ = 2^31` is not an `int`: the final negation `-floor (-x) = -INT_MIN`
overflows, and the wrapping evaluation returns INT_MIN -/
theorem ceil_overflow (toInt : α → Int) (h : IsTruncCast toInt) (x : α)
    (hlo : 2147483647 < x) (hhi : x < 2147483648) :
    ⌈x⌉ = 2147483648 ∧ inInt32 ⌈x⌉ = false ∧ noOverflow (ceilSteps toInt x) = false ∧
    ceil32 toInt x = -2147483648 := by
  have habs : |x| < 2147483648 := by rw [abs_lt]; constructor <;> linarith
  have hc : ⌈x⌉ = 2147483648 := by
    rw [Int.ceil_eq_iff]; push_cast; constructor <;> linarith
  have hfe := floor_eq toInt h (-x) (by rwa [abs_neg])
  rw [Int.floor_neg, hc] at hfe
  refine ⟨hc, by rw [hc]; decide, ?_, ?_⟩
  · unfold noOverflow ceilSteps
    rw [List.all_append, hfe]
    simp only [List.all_cons, List.all_nil, Bool.and_true]
    have : inInt32 (- -2147483648) = false := by decide
    rw [this, Bool.and_false]
  · unfold ceil32
    rw [floor32_eq toInt h (-x) (by rwa [abs_neg]), Int.floor_neg, hc]
    decide

theorem truncSteps_inRange (toInt : α → Int) (h : IsTruncCast toInt) (x : α) (hx : |x| < 2147483648) :
    noOverflow (truncSteps toInt x) = true ∧ trunc32 toInt x = truncZ x := by
  obtain ⟨hxl, hxh⟩ := abs_lt.mp hx
  have hte := trunc_eq toInt h x hx
  unfold noOverflow truncSteps trunc32 neg32
  unfold trunc at hte
  by_cases h0 : x ≥ 0
  · rw [if_pos h0] at hte ⊢
    rw [if_pos h0]
    refine ⟨?_, hte⟩
    simp only [List.all_cons, List.all_nil, Bool.and_true, inInt32_iff]
    rw [hte, truncZ, if_pos h0]
    have h1 : (0 : Int) ≤ ⌊x⌋ := Int.floor_nonneg.mpr h0
    have h2 : ⌊x⌋ < 2147483648 := by rw [Int.floor_lt]; push_cast; exact hxh
    omega
  · rw [if_neg h0] at hte ⊢
    rw [if_neg h0]
    have hy : 0 ≤ -x := by linarith [not_le.mp h0]
    have hti : toInt (-x) = ⌊-x⌋ := by rw [h (-x) (by rwa [abs_neg]), truncZ, if_pos hy]
    have h1 : (0 : Int) ≤ ⌊-x⌋ := Int.floor_nonneg.mpr hy
    have h2 : ⌊-x⌋ < 2147483648 := by rw [Int.floor_lt]; push_cast; linarith
    have hin : inInt32 (-toInt (-x)) = true := by rw [inInt32_iff, hti]; omega
    refine ⟨?_, by rw [wrap32_id _ hin]; exact hte⟩
    simp only [List.all_cons, List.all_nil, Bool.and_true, Bool.and_eq_true]
    exact ⟨by rw [inInt32_iff, hti]; omega, hin⟩
end

end ImathVerif.Fun
