import ImathVerif.Model.GaussJordan
import Mathlib.LinearAlgebra.Matrix.Determinant.Basic
import Mathlib.LinearAlgebra.Matrix.Block
import Mathlib.LinearAlgebra.Matrix.NonsingularInverse
import Mathlib.Algebra.Order.Ring.Abs
import Mathlib.Algebra.Order.Field.Basic
import Mathlib.Data.List.Range
import Mathlib.Tactic.Ring
import Mathlib.Tactic.FieldSimp
import Mathlib.Tactic.Linarith
import Mathlib.Tactic.SplitIfs
/-!
# Lemmas about the Gauss-Jordan hand model (`Model/GaussJordan.lean`), generic in the dimension `n`

* every row operation (swap, `axpy`, scale) applied to BOTH `s` and `t` preserves `s * M = t`
  and multiplies `det t` by a non-zero constant;
* the pivot search returns a row at or below `i` carrying the maximal `|t[r][i]|`;
* forward step `i` (when it does not exit) zeroes column `i` below the diagonal and keeps the
  zeros of the earlier columns; backward step `i` turns column `i` into the unit vector and keeps
  upper-triangularity and the later unit columns;
* an exit (`none`) happens only at a state with `det t = 0`;
* induction over the two index lists.
-/
set_option linter.unusedSectionVars false
namespace ImathVerif.GJ
open Matrix

variable {n : Nat} {α : Type}

/-- the model matrix as a Mathlib matrix -/
def Mat.toMatrix (m : Mat n α) : Matrix (Fin n) (Fin n) α := Matrix.of m.get

@[simp] theorem toMatrix_apply (m : Mat n α) (i j : Fin n) : m.toMatrix i j = m.get i j := rfl

@[simp] theorem get_ofFn (f : Fin n → Fin n → α) (i j : Fin n) : (Mat.ofFn f).get i j = f i j := by
  simp [Mat.get, Mat.ofFn]

@[simp] theorem get_identity [OfNat α 0] [OfNat α 1] (i j : Fin n) :
    (Mat.identity : Mat n α).get i j = if i = j then 1 else 0 := by
  simp [Mat.identity]

theorem get_swapRows (m : Mat n α) (i p r k : Fin n) :
    (swapRows m i p).get r k = if r = i then m.get p k else if r = p then m.get i k else m.get r k := by
  simp [swapRows]

theorem get_axpyRow [Sub α] [Mul α] (m : Mat n α) (j i : Fin n) (f : α) (r k : Fin n) :
    (axpyRow m j i f).get r k = if r = j then m.get j k - f * m.get i k else m.get r k := by
  simp [axpyRow]

theorem get_scaleRow [Div α] (m : Mat n α) (i : Fin n) (f : α) (r k : Fin n) :
    (scaleRow m i f).get r k = if r = i then m.get i k / f else m.get r k := by
  simp [scaleRow]

/-! ## index lists -/

theorem mem_rowsBelow (i r : Fin n) : r ∈ rowsBelow i ↔ i < r := by simp [rowsBelow]
theorem mem_rowsAbove (i r : Fin n) : r ∈ rowsAbove i ↔ r < i := by simp [rowsAbove]
theorem nodup_rowsBelow (i : Fin n) : (rowsBelow i).Nodup := (List.nodup_finRange n).filter _
theorem nodup_rowsAbove (i : Fin n) : (rowsAbove i).Nodup := (List.nodup_finRange n).filter _

theorem map_val_finRange (n : Nat) : (List.finRange n).map Fin.val = List.range n := by
  apply List.ext_getElem <;> simp

theorem filter_succ_lt_range (n : Nat) : (List.range n).filter (fun i => decide (i + 1 < n)) = List.range (n - 1) := by
  cases n with
  | zero => simp
  | succ m =>
    rw [List.range_succ, List.filter_append]
    simp

theorem map_val_fwdIdx (n : Nat) : (fwdIdx n).map Fin.val = List.range' 0 (fwdIdx n).length := by
  have h : (fwdIdx n).map Fin.val = List.range (n - 1) := by
    unfold fwdIdx
    have := @List.filter_map (Fin n) Nat Fin.val (fun i => decide (i + 1 < n)) (List.finRange n)
    rw [map_val_finRange, filter_succ_lt_range] at this
    rw [this]; rfl
  have hl : (fwdIdx n).length = n - 1 := by
    have := congrArg List.length h
    simpa using this
  rw [h, hl, List.range_eq_range']

theorem length_fwdIdx (n : Nat) : (fwdIdx n).length = n - 1 := by
  have := congrArg List.length (map_val_fwdIdx n)
  have h : (fwdIdx n).map Fin.val = List.range (n - 1) := by
    unfold fwdIdx
    have := @List.filter_map (Fin n) Nat Fin.val (fun i => decide (i + 1 < n)) (List.finRange n)
    rw [map_val_finRange, filter_succ_lt_range] at this
    rw [this]; rfl
  simpa using congrArg List.length h

theorem map_val_bwdIdx (n : Nat) : (bwdIdx n).map Fin.val = (List.range' 0 (bwdIdx n).length).reverse := by
  unfold bwdIdx
  rw [List.map_reverse, map_val_finRange, List.length_reverse, List.length_finRange, List.range_eq_range']

theorem length_bwdIdx (n : Nat) : (bwdIdx n).length = n := by simp [bwdIdx]

/-! ## generic induction principles for the two monadic folds -/

theorem foldlM_asc {σ : Type} (f : σ → Fin n → Option σ) (Q : Nat → σ → Prop)
    (step : ∀ (i : Fin n) (s s' : σ), Q i.val s → f s i = some s' → Q (i.val + 1) s') :
    ∀ (l : List (Fin n)) (k : Nat) (s s' : σ), l.map Fin.val = List.range' k l.length →
      Q k s → l.foldlM f s = some s' → Q (k + l.length) s' := by
  intro l
  induction l with
  | nil => intro k s s' _ hq h; simp at h; subst h; simpa using hq
  | cons a l ih =>
    intro k s s' hm hq h
    simp only [List.map_cons, List.length_cons, List.range'_succ, List.cons.injEq] at hm
    obtain ⟨ha, hl⟩ := hm
    rw [List.foldlM_cons] at h
    cases hfa : f s a with
    | none => simp [hfa] at h
    | some s1 =>
      simp only [hfa, Option.bind_eq_bind, Option.bind_some] at h
      have h1 := step a s s1 (ha ▸ hq) hfa
      have := ih (k + 1) s1 s' hl (ha ▸ h1) h
      simpa [Nat.add_assoc, Nat.add_comm 1] using this

theorem foldlM_desc {σ : Type} (f : σ → Fin n → Option σ) (Q : Nat → σ → Prop)
    (step : ∀ (i : Fin n) (s s' : σ), Q (i.val + 1) s → f s i = some s' → Q i.val s') :
    ∀ (l : List (Fin n)) (k : Nat) (s s' : σ), l.map Fin.val = (List.range' k l.length).reverse →
      Q (k + l.length) s → l.foldlM f s = some s' → Q k s' := by
  intro l
  induction l with
  | nil => intro k s s' _ hq h; simp at h; subst h; simpa using hq
  | cons a l ih =>
    intro k s s' hm hq h
    simp only [List.map_cons, List.length_cons, List.range'_concat, List.reverse_append, List.reverse_cons,
      List.reverse_nil, List.nil_append, List.singleton_append, List.cons.injEq, Nat.one_mul] at hm
    obtain ⟨ha, hl⟩ := hm
    rw [List.foldlM_cons] at h
    cases hfa : f s a with
    | none => simp [hfa] at h
    | some s1 =>
      simp only [hfa, Option.bind_eq_bind, Option.bind_some] at h
      have hq' : Q (a.val + 1) s := by
        rw [ha]; simpa [Nat.add_assoc] using hq
      have h1 := step a s s1 hq' hfa
      exact ih k s1 s' hl (ha ▸ h1) h

/-- a fold that returned `none` exited at some step, from a state reachable by the earlier steps -/
theorem foldlM_none_asc {σ : Type} (f : σ → Fin n → Option σ) (Q : Nat → σ → Prop)
    (step : ∀ (i : Fin n) (s s' : σ), Q i.val s → f s i = some s' → Q (i.val + 1) s') :
    ∀ (l : List (Fin n)) (k : Nat) (s : σ), l.map Fin.val = List.range' k l.length →
      Q k s → l.foldlM f s = none → ∃ (i : Fin n) (s0 : σ), Q i.val s0 ∧ f s0 i = none := by
  intro l
  induction l with
  | nil => intro k s _ _ h; simp at h
  | cons a l ih =>
    intro k s hm hq h
    simp only [List.map_cons, List.length_cons, List.range'_succ, List.cons.injEq] at hm
    obtain ⟨ha, hl⟩ := hm
    rw [List.foldlM_cons] at h
    cases hfa : f s a with
    | none => exact ⟨a, s, ha ▸ hq, hfa⟩
    | some s1 =>
      simp only [hfa, Option.bind_eq_bind, Option.bind_some] at h
      exact ih (k + 1) s1 hl (ha ▸ step a s s1 (ha ▸ hq) hfa) h

theorem foldlM_none_desc {σ : Type} (f : σ → Fin n → Option σ) (Q : Nat → σ → Prop)
    (step : ∀ (i : Fin n) (s s' : σ), Q (i.val + 1) s → f s i = some s' → Q i.val s') :
    ∀ (l : List (Fin n)) (k : Nat) (s : σ), l.map Fin.val = (List.range' k l.length).reverse →
      Q (k + l.length) s → l.foldlM f s = none → ∃ (i : Fin n) (s0 : σ), Q (i.val + 1) s0 ∧ f s0 i = none := by
  intro l
  induction l with
  | nil => intro k s _ _ h; simp at h
  | cons a l ih =>
    intro k s hm hq h
    simp only [List.map_cons, List.length_cons, List.range'_concat, List.reverse_append, List.reverse_cons,
      List.reverse_nil, List.nil_append, List.singleton_append, List.cons.injEq, Nat.one_mul] at hm
    obtain ⟨ha, hl⟩ := hm
    rw [List.foldlM_cons] at h
    have hq' : Q (a.val + 1) s := by
      rw [ha]; simpa [Nat.add_assoc] using hq
    cases hfa : f s a with
    | none => exact ⟨a, s, hq', hfa⟩
    | some s1 =>
      simp only [hfa, Option.bind_eq_bind, Option.bind_some] at h
      exact ih k s1 hl (ha ▸ step a s s1 hq' hfa) h

/-! ## the invariant `s * M = t` under the three row operations -/

section Field
variable [Field α]

/-- `s * M = t`, entry by entry -/
def Inv (M : Matrix (Fin n) (Fin n) α) (st : Mat n α × Mat n α) : Prop := st.1.toMatrix * M = st.2.toMatrix

theorem inv_iff (M : Matrix (Fin n) (Fin n) α) (st : Mat n α × Mat n α) :
    Inv M st ↔ ∀ r k, ∑ l, st.1.get r l * M l k = st.2.get r k := by
  unfold Inv
  constructor
  · intro h r k
    have := congrFun (congrFun h r) k
    simpa [Matrix.mul_apply] using this
  · intro h; ext r k; simpa [Matrix.mul_apply] using h r k

theorem inv_init (M : Mat n α) : Inv M.toMatrix (Mat.identity, M) := by
  rw [inv_iff]; intro r k
  simp [Finset.sum_ite_eq]

theorem inv_swap {M : Matrix (Fin n) (Fin n) α} {s t : Mat n α} (h : Inv M (s, t)) (i p : Fin n) :
    Inv M (swapRows s i p, swapRows t i p) := by
  rw [inv_iff] at h ⊢
  intro r k
  simp only [get_swapRows]
  split_ifs <;> exact h _ k

theorem inv_axpy {M : Matrix (Fin n) (Fin n) α} {s t : Mat n α} (h : Inv M (s, t)) (j i : Fin n) (f : α) :
    Inv M (axpyRow s j i f, axpyRow t j i f) := by
  rw [inv_iff] at h ⊢
  intro r k
  simp only [get_axpyRow]
  split_ifs with hr
  · simp only [sub_mul, Finset.sum_sub_distrib, mul_assoc, ← Finset.mul_sum]
    rw [h j k, h i k]
  · exact h r k

theorem inv_scale {M : Matrix (Fin n) (Fin n) α} {s t : Mat n α} (h : Inv M (s, t)) (i : Fin n) (f : α) :
    Inv M (scaleRow s i f, scaleRow t i f) := by
  rw [inv_iff] at h ⊢
  intro r k
  simp only [get_scaleRow]
  split_ifs with hr
  · have := h i k
    dsimp only at this ⊢
    rw [← this]
    simp only [div_eq_mul_inv, Finset.sum_mul]
    exact Finset.sum_congr rfl fun l _ => by ring
  · exact h r k

/-! ## determinant of `t` under the three row operations: multiplied by a unit -/

/-- `det t = c * det M` for some `c ≠ 0` -/
def DetRel (M : Matrix (Fin n) (Fin n) α) (t : Mat n α) : Prop := ∃ c : α, c ≠ 0 ∧ t.toMatrix.det = c * M.det

theorem detRel_init (M : Mat n α) : DetRel M.toMatrix M := ⟨1, one_ne_zero, by simp⟩

omit [Field α] in
theorem toMatrix_swapRows (t : Mat n α) (i p : Fin n) :
    (swapRows t i p).toMatrix = t.toMatrix.submatrix (Equiv.swap i p) id := by
  ext r k
  simp only [toMatrix_apply, get_swapRows, Matrix.submatrix_apply, id, Equiv.swap_apply_def]
  split_ifs <;> rfl

theorem detRel_swap {M : Matrix (Fin n) (Fin n) α} {t : Mat n α} (h : DetRel M t) (i p : Fin n) :
    DetRel M (swapRows t i p) := by
  obtain ⟨c, hc, hd⟩ := h
  refine ⟨((Equiv.Perm.sign (Equiv.swap i p) : ℤ) : α) * c, ?_, ?_⟩
  · apply mul_ne_zero _ hc
    rcases Int.units_eq_one_or (Equiv.Perm.sign (Equiv.swap i p)) with h1 | h1 <;> simp [h1]
  · rw [toMatrix_swapRows, Matrix.det_permute, hd, mul_assoc]

theorem toMatrix_axpyRow (t : Mat n α) (j i : Fin n) (f : α) :
    (axpyRow t j i f).toMatrix = t.toMatrix.updateRow j (t.toMatrix j + (-f) • t.toMatrix i) := by
  ext r k
  simp only [toMatrix_apply, get_axpyRow, Matrix.updateRow_apply, Pi.add_apply, Pi.smul_apply, smul_eq_mul]
  split_ifs <;> ring

theorem detRel_axpy {M : Matrix (Fin n) (Fin n) α} {t : Mat n α} (h : DetRel M t) {j i : Fin n} (hji : j ≠ i) (f : α) :
    DetRel M (axpyRow t j i f) := by
  obtain ⟨c, hc, hd⟩ := h
  exact ⟨c, hc, by rw [toMatrix_axpyRow, Matrix.det_updateRow_add_smul_self _ hji, hd]⟩

theorem toMatrix_scaleRow (t : Mat n α) (i : Fin n) (f : α) :
    (scaleRow t i f).toMatrix = t.toMatrix.updateRow i (f⁻¹ • t.toMatrix i) := by
  ext r k
  simp only [toMatrix_apply, get_scaleRow, Matrix.updateRow_apply, Pi.smul_apply, smul_eq_mul]
  split_ifs <;> ring

theorem detRel_scale {M : Matrix (Fin n) (Fin n) α} {t : Mat n α} (h : DetRel M t) (i : Fin n) {f : α} (hf : f ≠ 0) :
    DetRel M (scaleRow t i f) := by
  obtain ⟨c, hc, hd⟩ := h
  refine ⟨f⁻¹ * c, mul_ne_zero (inv_ne_zero hf) hc, ?_⟩
  rw [toMatrix_scaleRow, Matrix.det_updateRow_smul, Matrix.updateRow_eq_self, hd, mul_assoc]

end Field

/-! ## shape of `t`: pivot search, elimination below / above the pivot -/

section Ordered
variable [Field α] [LinearOrder α] [IsStrictOrderedRing α]

theorem absNeg_eq_abs (x : α) : absNeg x = |x| := by
  unfold absNeg
  split_ifs with h
  · rw [abs_of_neg h]
  · rw [abs_of_nonneg (not_lt.mp h)]

theorem pivot_fold (t : Mat n α) (i : Fin n) :
    ∀ (l : List (Fin n)) (acc : Fin n × α), acc.2 = |t.get acc.1 i| →
      let res := l.foldl (fun (acc : Fin n × α) j =>
          let tmp := absNeg (t.get j i)
          if acc.2 < tmp then (j, tmp) else acc) acc
      res.2 = |t.get res.1 i| ∧ (res.1 = acc.1 ∨ res.1 ∈ l) ∧ acc.2 ≤ res.2 ∧ ∀ r ∈ l, |t.get r i| ≤ res.2 := by
  intro l
  induction l with
  | nil => intro acc h; simp [h]
  | cons j l ih =>
    intro acc h
    simp only [List.foldl_cons, absNeg_eq_abs]
    by_cases hlt : acc.2 < |t.get j i|
    · simp only [hlt, if_true]
      obtain ⟨h1, h2, h3, h4⟩ := ih (j, |t.get j i|) rfl
      simp only [absNeg_eq_abs] at h1 h2 h3 h4
      refine ⟨h1, ?_, le_trans (le_of_lt hlt) h3, ?_⟩
      · rcases h2 with h2 | h2
        · right; simp [h2]
        · right; simp [h2]
      · intro r hr
        rcases List.mem_cons.mp hr with rfl | hr
        · exact h3
        · exact h4 r hr
    · simp only [hlt, if_false]
      obtain ⟨h1, h2, h3, h4⟩ := ih acc h
      simp only [absNeg_eq_abs] at h1 h2 h3 h4
      refine ⟨h1, ?_, h3, ?_⟩
      · rcases h2 with h2 | h2
        · left; exact h2
        · right; simp [h2]
      · intro r hr
        rcases List.mem_cons.mp hr with rfl | hr
        · exact le_trans (not_lt.mp hlt) h3
        · exact h4 r hr

/-- partial pivoting: a row at or below `i` whose entry in column `i` has the largest magnitude -/
theorem pivotSearch_spec (t : Mat n α) (i : Fin n) :
    (pivotSearch t i).2 = |t.get (pivotSearch t i).1 i| ∧ i ≤ (pivotSearch t i).1 ∧
      ∀ r, i ≤ r → |t.get r i| ≤ (pivotSearch t i).2 := by
  have h := pivot_fold t i (rowsBelow i) (i, absNeg (t.get i i)) (absNeg_eq_abs _)
  obtain ⟨h1, h2, h3, h4⟩ := h
  refine ⟨h1, ?_, ?_⟩
  · rcases h2 with h2 | h2
    · exact le_of_eq h2.symm
    · exact le_of_lt ((mem_rowsBelow i _).mp h2)
  · intro r hr
    rcases eq_or_lt_of_le hr with rfl | hlt
    · have h3' : absNeg (t.get i i) ≤ (pivotSearch t i).2 := h3
      rwa [absNeg_eq_abs] at h3'
    · exact h4 r ((mem_rowsBelow i r).mpr hlt)

/-- closed form of the forward row eliminations (the `t` component) -/
theorem elimRows_get (i : Fin n) :
    ∀ (js : List (Fin n)) (st : Mat n α × Mat n α), js.Nodup → i ∉ js → ∀ r k,
      (elimRows i st js).2.get r k =
        if r ∈ js then st.2.get r k - (st.2.get r i / st.2.get i i) * st.2.get i k else st.2.get r k := by
  intro js
  induction js with
  | nil => intro st _ _ r k; simp [elimRows]
  | cons j js ih =>
    intro st hnd hi r k
    have hji : j ≠ i := fun h => hi (h ▸ List.mem_cons_self)
    have hi' : i ∉ js := fun h => hi (List.mem_cons_of_mem _ h)
    obtain ⟨hj, hnd'⟩ := List.nodup_cons.mp hnd
    have := ih (axpyRow st.1 j i (st.2.get j i / st.2.get i i), axpyRow st.2 j i (st.2.get j i / st.2.get i i)) hnd' hi' r k
    simp only [elimRows, List.foldl_cons] at this ⊢
    rw [this]
    simp only [get_axpyRow, List.mem_cons]
    by_cases hr : r ∈ js
    · have hrj : r ≠ j := fun h => hj (h ▸ hr)
      simp [hr, hrj, hji.symm]
    · by_cases hrj : r = j
      · subst hrj; simp [hj]
      · simp [hr, hrj]

/-- closed form of the backward row eliminations (the `t` component) -/
theorem elimRowsB_get (i : Fin n) :
    ∀ (js : List (Fin n)) (st : Mat n α × Mat n α), js.Nodup → i ∉ js → ∀ r k,
      (elimRowsB i st js).2.get r k =
        if r ∈ js then st.2.get r k - st.2.get r i * st.2.get i k else st.2.get r k := by
  intro js
  induction js with
  | nil => intro st _ _ r k; simp [elimRowsB]
  | cons j js ih =>
    intro st hnd hi r k
    have hji : j ≠ i := fun h => hi (h ▸ List.mem_cons_self)
    have hi' : i ∉ js := fun h => hi (List.mem_cons_of_mem _ h)
    obtain ⟨hj, hnd'⟩ := List.nodup_cons.mp hnd
    have := ih (axpyRow st.1 j i (st.2.get j i), axpyRow st.2 j i (st.2.get j i)) hnd' hi' r k
    simp only [elimRowsB, List.foldl_cons] at this ⊢
    rw [this]
    simp only [get_axpyRow, List.mem_cons]
    by_cases hr : r ∈ js
    · have hrj : r ≠ j := fun h => hj (h ▸ hr)
      simp [hr, hrj, hji.symm]
    · by_cases hrj : r = j
      · subst hrj; simp [hj]
      · simp [hr, hrj]

theorem elimRows_inv {M : Matrix (Fin n) (Fin n) α} (i : Fin n) :
    ∀ (js : List (Fin n)) (st : Mat n α × Mat n α), Inv M st → Inv M (elimRows i st js) := by
  intro js
  induction js with
  | nil => intro st h; simpa [elimRows] using h
  | cons j js ih =>
    intro st h
    simp only [elimRows, List.foldl_cons]
    exact ih _ (inv_axpy (s := st.1) (t := st.2) h j i _)

theorem elimRowsB_inv {M : Matrix (Fin n) (Fin n) α} (i : Fin n) :
    ∀ (js : List (Fin n)) (st : Mat n α × Mat n α), Inv M st → Inv M (elimRowsB i st js) := by
  intro js
  induction js with
  | nil => intro st h; simpa [elimRowsB] using h
  | cons j js ih =>
    intro st h
    simp only [elimRowsB, List.foldl_cons]
    exact ih _ (inv_axpy (s := st.1) (t := st.2) h j i _)

theorem elimRows_detRel {M : Matrix (Fin n) (Fin n) α} (i : Fin n) :
    ∀ (js : List (Fin n)) (st : Mat n α × Mat n α), i ∉ js → DetRel M st.2 → DetRel M (elimRows i st js).2 := by
  intro js
  induction js with
  | nil => intro st _ h; simpa [elimRows] using h
  | cons j js ih =>
    intro st hi h
    have hji : j ≠ i := fun h => hi (h ▸ List.mem_cons_self)
    have hi' : i ∉ js := fun h => hi (List.mem_cons_of_mem _ h)
    simp only [elimRows, List.foldl_cons]
    exact ih _ hi' (detRel_axpy h hji _)

theorem elimRowsB_detRel {M : Matrix (Fin n) (Fin n) α} (i : Fin n) :
    ∀ (js : List (Fin n)) (st : Mat n α × Mat n α), i ∉ js → DetRel M st.2 → DetRel M (elimRowsB i st js).2 := by
  intro js
  induction js with
  | nil => intro st _ h; simpa [elimRowsB] using h
  | cons j js ih =>
    intro st hi h
    have hji : j ≠ i := fun h => hi (h ▸ List.mem_cons_self)
    have hi' : i ∉ js := fun h => hi (List.mem_cons_of_mem _ h)
    simp only [elimRowsB, List.foldl_cons]
    exact ih _ hi' (detRel_axpy h hji _)

/-- columns `< k` of `t` vanish below the diagonal -/
def ZeroBelow (k : Nat) (t : Mat n α) : Prop := ∀ c r : Fin n, c.val < k → c < r → t.get r c = 0
/-- `t` is upper triangular -/
def Upper (t : Mat n α) : Prop := ∀ c r : Fin n, c < r → t.get r c = 0
/-- columns `≥ k` of `t` are unit vectors -/
def UnitFrom (k : Nat) (t : Mat n α) : Prop := ∀ c r : Fin n, k ≤ c.val → t.get r c = if r = c then 1 else 0

end Ordered

/-! ## one forward step, one backward step -/

section Steps
variable [Field α] [LinearOrder α] [IsStrictOrderedRing α] [BEq α] [LawfulBEq α]

/-- the pair after the optional row swap of forward step `i` -/
def swapped (st : Mat n α × Mat n α) (i : Fin n) : Mat n α × Mat n α :=
  if (pivotSearch st.2 i).1 = i then st else (swapRows st.1 i (pivotSearch st.2 i).1, swapRows st.2 i (pivotSearch st.2 i).1)

theorem forwardStep_eq (st : Mat n α × Mat n α) (i : Fin n) :
    forwardStep st i = if (pivotSearch st.2 i).2 = 0 then none else some (elimRows i (swapped st i) (rowsBelow i)) := by
  unfold forwardStep swapped
  by_cases h : (pivotSearch st.2 i).2 = 0
  · simp [h]
  · simp [h]

theorem swapped_pivot_ne_zero (st : Mat n α × Mat n α) (i : Fin n) (h : (pivotSearch st.2 i).2 ≠ 0) :
    (swapped st i).2.get i i ≠ 0 := by
  obtain ⟨h1, _, _⟩ := pivotSearch_spec st.2 i
  have hp : st.2.get (pivotSearch st.2 i).1 i ≠ 0 := by
    intro h0; apply h; rw [h1, h0, abs_zero]
  unfold swapped
  split_ifs with hpi
  · rwa [hpi] at hp
  · simpa [get_swapRows] using hp

theorem swapped_inv {M : Matrix (Fin n) (Fin n) α} (st : Mat n α × Mat n α) (i : Fin n) (h : Inv M st) :
    Inv M (swapped st i) := by
  unfold swapped
  split_ifs
  · exact h
  · exact inv_swap (s := st.1) (t := st.2) h _ _

theorem swapped_detRel {M : Matrix (Fin n) (Fin n) α} (st : Mat n α × Mat n α) (i : Fin n) (h : DetRel M st.2) :
    DetRel M (swapped st i).2 := by
  unfold swapped
  split_ifs
  · exact h
  · exact detRel_swap h _ _

theorem swapped_zeroBelow (st : Mat n α × Mat n α) (i : Fin n) (h : ZeroBelow i.val st.2) :
    ZeroBelow i.val (swapped st i).2 := by
  obtain ⟨_, hp, _⟩ := pivotSearch_spec st.2 i
  unfold swapped
  split_ifs
  · exact h
  · intro c r hc hcr
    simp only [get_swapRows]
    have hci : c < i := hc
    split_ifs
    · exact h c _ hc (lt_of_lt_of_le hci hp)
    · exact h c _ hc hci
    · exact h c r hc hcr

/-- a forward step that does not exit keeps `s * M = t`, keeps `det t = c * det M`, and clears column `i` below the diagonal -/
theorem forwardStep_some {M : Matrix (Fin n) (Fin n) α} {st st' : Mat n α × Mat n α} {i : Fin n}
    (h : forwardStep st i = some st') :
    (Inv M st → Inv M st') ∧ (DetRel M st.2 → DetRel M st'.2) ∧ (ZeroBelow i.val st.2 → ZeroBelow (i.val + 1) st'.2) := by
  rw [forwardStep_eq] at h
  split_ifs at h with hz
  have hst : st' = elimRows i (swapped st i) (rowsBelow i) := (Option.some.inj h).symm
  have hnotin : i ∉ rowsBelow i := fun hm => lt_irrefl i ((mem_rowsBelow i i).mp hm)
  refine ⟨fun hI => hst ▸ elimRows_inv i _ _ (swapped_inv st i hI),
          fun hD => hst ▸ elimRows_detRel i _ _ hnotin (swapped_detRel st i hD), ?_⟩
  intro hZ c r hc hcr
  have hZ1 := swapped_zeroBelow st i hZ
  have hpiv := swapped_pivot_ne_zero st i hz
  rw [hst, elimRows_get i _ _ (nodup_rowsBelow i) hnotin]
  simp only [mem_rowsBelow]
  rcases Nat.lt_succ_iff_lt_or_eq.mp hc with hlt | heq
  · have h0 : (swapped st i).2.get r c = 0 := hZ1 c r hlt hcr
    split_ifs with hir
    · have h1 : (swapped st i).2.get i c = 0 := hZ1 c i hlt (by exact hlt)
      rw [h0, h1]; ring
    · exact h0
  · have hci : c = i := Fin.ext heq
    subst hci
    rw [if_pos hcr]
    field_simp
    ring

/-- a forward exit happens only when `det t = 0` -/
theorem forwardStep_none {st : Mat n α × Mat n α} {i : Fin n}
    (h : forwardStep st i = none) (hZ : ZeroBelow i.val st.2) : st.2.toMatrix.det = 0 := by
  rw [forwardStep_eq] at h
  split_ifs at h with hz
  obtain ⟨_, _, hmax⟩ := pivotSearch_spec st.2 i
  have hcol : ∀ r, i ≤ r → st.2.get r i = 0 := by
    intro r hr
    have := hmax r hr
    rw [hz] at this
    exact abs_nonpos_iff.mp this
  rw [Matrix.twoBlockTriangular_det st.2.toMatrix (fun r => r < i)]
  · have : (st.2.toMatrix.toSquareBlockProp fun r => ¬ r < i).det = 0 := by
      apply Matrix.det_eq_zero_of_column_eq_zero ⟨i, lt_irrefl i⟩
      intro r
      simp only [Matrix.toSquareBlockProp_def, Matrix.of_apply, toMatrix_apply]
      exact hcol r.1 (not_lt.mp r.2)
    rw [this, mul_zero]
  · intro r hr c hc
    simp only [toMatrix_apply]
    exact hZ c r hc (lt_of_lt_of_le hc (not_lt.mp hr))

theorem backwardStep_eq (st : Mat n α × Mat n α) (i : Fin n) :
    backwardStep st i = if st.2.get i i = 0 then none
      else some (elimRowsB i (scaleRow st.1 i (st.2.get i i), scaleRow st.2 i (st.2.get i i)) (rowsAbove i)) := by
  unfold backwardStep
  by_cases h : st.2.get i i = 0
  · simp [h]
  · simp [h]

/-- a backward step that does not exit keeps the two invariants, keeps `t` upper triangular and the later unit
columns, and turns column `i` into the unit vector -/
theorem backwardStep_some {M : Matrix (Fin n) (Fin n) α} {st st' : Mat n α × Mat n α} {i : Fin n}
    (h : backwardStep st i = some st') :
    (Inv M st → Inv M st') ∧ (DetRel M st.2 → DetRel M st'.2) ∧
      (Upper st.2 ∧ UnitFrom (i.val + 1) st.2 → Upper st'.2 ∧ UnitFrom i.val st'.2) := by
  rw [backwardStep_eq] at h
  split_ifs at h with hz
  have hst : st' = elimRowsB i (scaleRow st.1 i (st.2.get i i), scaleRow st.2 i (st.2.get i i)) (rowsAbove i) :=
    (Option.some.inj h).symm
  have hnotin : i ∉ rowsAbove i := fun hm => lt_irrefl i ((mem_rowsAbove i i).mp hm)
  refine ⟨fun hI => hst ▸ elimRowsB_inv i _ _ (inv_scale (s := st.1) (t := st.2) hI i _),
          fun hD => hst ▸ elimRowsB_detRel i _ _ hnotin (detRel_scale hD i hz), ?_⟩
  rintro ⟨hU, hE⟩
  -- row i after scaling is the unit vector e_i
  have hrow : ∀ k, (scaleRow st.2 i (st.2.get i i)).get i k = if i = k then 1 else 0 := by
    intro k
    simp only [get_scaleRow, if_true]
    rcases lt_trichotomy k i with hk | hk | hk
    · rw [hU k i hk, if_neg (ne_of_gt hk)]; simp
    · subst hk; simp [div_self hz]
    · have := hE k i (Nat.succ_le_of_lt hk)
      rw [this, if_neg (ne_of_lt hk)]; simp
  have hother : ∀ r k, r ≠ i → (scaleRow st.2 i (st.2.get i i)).get r k = st.2.get r k := by
    intro r k hr; simp [get_scaleRow, hr]
  have hget : ∀ r k, st'.2.get r k =
      if r < i then (scaleRow st.2 i (st.2.get i i)).get r k -
          (scaleRow st.2 i (st.2.get i i)).get r i * (scaleRow st.2 i (st.2.get i i)).get i k
      else (scaleRow st.2 i (st.2.get i i)).get r k := by
    intro r k
    rw [hst, elimRowsB_get i _ _ (nodup_rowsAbove i) hnotin]
    simp only [mem_rowsAbove]
  constructor
  · intro c r hcr
    rw [hget]
    split_ifs with hri
    · have hci : c ≠ i := ne_of_lt (lt_trans hcr hri)
      rw [hrow c, if_neg (Ne.symm hci), hother r c (ne_of_lt hri), hU c r hcr]; ring
    · by_cases hri' : r = i
      · subst hri'; rw [hrow c, if_neg (ne_of_gt hcr)]
      · rw [hother r c hri', hU c r hcr]
  · intro c r hc
    rw [hget]
    rcases Nat.eq_or_lt_of_le hc with heq | hlt
    · -- column i
      have hci : c = i := Fin.ext heq.symm
      subst hci
      split_ifs with hri h2 h2
      · exact absurd h2 (ne_of_lt hri)
      · rw [hrow c, if_pos rfl]; ring
      · subst h2; rw [hrow r, if_pos rfl]
      · have hgt : c < r := lt_of_le_of_ne (not_lt.mp hri) (Ne.symm h2)
        rw [hother r c h2, hU c r hgt]
    · -- later columns are untouched
      have hci : i < c := hlt
      have hE' := hE c r (Nat.succ_le_of_lt hlt)
      split_ifs with hri h2 h2
      · subst h2; exact absurd hri (not_lt.mpr (le_of_lt hci))
      · rw [hrow c, if_neg (ne_of_lt hci), hother r c (ne_of_lt hri), hE', if_neg h2]; ring
      · subst h2
        have : r ≠ i := ne_of_gt hci
        rw [hother r r this, hE', if_pos rfl]
      · by_cases hri' : r = i
        · subst hri'; rw [hrow c, if_neg (ne_of_lt hci)]
        · rw [hother r c hri', hE', if_neg h2]

/-- a backward exit happens only when `det t = 0` -/
theorem backwardStep_none {st : Mat n α × Mat n α} {i : Fin n}
    (h : backwardStep st i = none) (hU : Upper st.2) : st.2.toMatrix.det = 0 := by
  rw [backwardStep_eq] at h
  split_ifs at h with hz
  have hT : st.2.toMatrix.IsUpperTriangular := by
    intro r c hcr
    exact hU c r hcr
  rw [Matrix.det_of_isUpperTriangular hT]
  exact Finset.prod_eq_zero (Finset.mem_univ i) (by simpa using hz)

end Steps

/-! ## the two loops as folds over the index lists; the main statements -/

section Main
variable [Field α] [LinearOrder α] [IsStrictOrderedRing α] [BEq α] [LawfulBEq α]

/-- what holds after `k` forward steps -/
def FwdInv (M : Matrix (Fin n) (Fin n) α) (k : Nat) (st : Mat n α × Mat n α) : Prop :=
  Inv M st ∧ DetRel M st.2 ∧ ZeroBelow k st.2
/-- what holds when backward steps `k, k+1, …` have been done -/
def BwdInv (M : Matrix (Fin n) (Fin n) α) (k : Nat) (st : Mat n α × Mat n α) : Prop :=
  Inv M st ∧ DetRel M st.2 ∧ Upper st.2 ∧ UnitFrom k st.2

theorem fwdInv_step (M : Matrix (Fin n) (Fin n) α) (i : Fin n) (st st' : Mat n α × Mat n α)
    (h : FwdInv M i.val st) (hs : forwardStep st i = some st') : FwdInv M (i.val + 1) st' := by
  obtain ⟨h1, h2, h3⟩ := forwardStep_some (M := M) hs
  exact ⟨h1 h.1, h2 h.2.1, h3 h.2.2⟩

theorem bwdInv_step (M : Matrix (Fin n) (Fin n) α) (i : Fin n) (st st' : Mat n α × Mat n α)
    (h : BwdInv M (i.val + 1) st) (hs : backwardStep st i = some st') : BwdInv M i.val st' := by
  obtain ⟨h1, h2, h3⟩ := backwardStep_some (M := M) hs
  obtain ⟨hU, hE⟩ := h3 ⟨h.2.2.1, h.2.2.2⟩
  exact ⟨h1 h.1, h2 h.2.1, hU, hE⟩

theorem fwdInv_init (M : Mat n α) : FwdInv M.toMatrix 0 (Mat.identity, M) :=
  ⟨inv_init M, detRel_init M, fun _ _ hc _ => absurd hc (Nat.not_lt_zero _)⟩

/-- FORWARD PHASE as a fold over `fwdIdx n`: `s * M = t` is preserved by every swap / axpy step and `t` ends upper triangular -/
theorem forward_fold (M : Mat n α) (st : Mat n α × Mat n α)
    (h : (fwdIdx n).foldlM forwardStep (Mat.identity, M) = some st) :
    Inv M.toMatrix st ∧ DetRel M.toMatrix st.2 ∧ Upper st.2 := by
  have := foldlM_asc forwardStep (FwdInv M.toMatrix) (fwdInv_step M.toMatrix) (fwdIdx n) 0 _ st
    (map_val_fwdIdx n) (fwdInv_init M) h
  rw [length_fwdIdx, Nat.zero_add] at this
  refine ⟨this.1, this.2.1, ?_⟩
  intro c r hcr
  apply this.2.2 c r _ hcr
  have : c.val < r.val := hcr
  omega

theorem bwdInv_init (M : Matrix (Fin n) (Fin n) α) (st : Mat n α × Mat n α)
    (h1 : Inv M st) (h2 : DetRel M st.2) (h3 : Upper st.2) : BwdInv M (0 + (bwdIdx n).length) st := by
  refine ⟨h1, h2, h3, ?_⟩
  intro c r hc
  rw [length_bwdIdx, Nat.zero_add] at hc
  exact absurd c.isLt (not_lt.mpr hc)

/-- BACKWARD PHASE as a fold over `bwdIdx n`: the invariant is preserved by every scale / axpy step and `t` ends as the identity -/
theorem backward_fold (M : Matrix (Fin n) (Fin n) α) (st st' : Mat n α × Mat n α)
    (h1 : Inv M st) (h2 : DetRel M st.2) (h3 : Upper st.2)
    (h : (bwdIdx n).foldlM backwardStep st = some st') :
    Inv M st' ∧ st'.2.toMatrix = 1 := by
  have := foldlM_desc backwardStep (BwdInv M) (bwdInv_step M) (bwdIdx n) 0 st st'
    (map_val_bwdIdx n) (bwdInv_init M st h1 h2 h3) h
  refine ⟨this.1, ?_⟩
  ext r c
  rw [toMatrix_apply, this.2.2.2 c r (Nat.zero_le _), Matrix.one_apply]

/-- no pivot is zero ⇒ the final `t` is the identity and `s * M = 1` -/
theorem gjRun_some (M : Mat n α) (st : Mat n α × Mat n α) (h : gjRun M = some st) :
    st.1.toMatrix * M.toMatrix = 1 ∧ st.2.toMatrix = 1 := by
  unfold gjRun at h
  cases hf : (fwdIdx n).foldlM forwardStep (Mat.identity, M) with
  | none => simp [hf] at h
  | some st0 =>
    simp only [hf, Option.bind_some] at h
    obtain ⟨h1, h2, h3⟩ := forward_fold M st0 hf
    obtain ⟨h4, h5⟩ := backward_fold M.toMatrix st0 st h1 h2 h3 h
    exact ⟨by rw [← h5]; exact h4, h5⟩

/-- an exit (zero pivot after partial pivoting, or zero diagonal element in the backward loop) ⇒ `det M = 0` -/
theorem gjRun_none (M : Mat n α) (h : gjRun M = none) : M.toMatrix.det = 0 := by
  have key : ∀ t : Mat n α, DetRel M.toMatrix t → t.toMatrix.det = 0 → M.toMatrix.det = 0 := by
    intro t ⟨c, hc, hd⟩ h0
    rw [hd] at h0
    exact (mul_eq_zero.mp h0).resolve_left hc
  unfold gjRun at h
  cases hf : (fwdIdx n).foldlM forwardStep (Mat.identity, M) with
  | none =>
    obtain ⟨i, s0, hq, hn⟩ := foldlM_none_asc forwardStep (FwdInv M.toMatrix) (fwdInv_step M.toMatrix) (fwdIdx n) 0 _
      (map_val_fwdIdx n) (fwdInv_init M) hf
    exact key s0.2 hq.2.1 (forwardStep_none hn hq.2.2)
  | some st0 =>
    simp only [hf, Option.bind_some] at h
    obtain ⟨h1, h2, h3⟩ := forward_fold M st0 hf
    obtain ⟨i, s0, hq, hn⟩ := foldlM_none_desc backwardStep (BwdInv M.toMatrix) (bwdInv_step M.toMatrix) (bwdIdx n) 0 st0
      (map_val_bwdIdx n) (bwdInv_init M.toMatrix st0 h1 h2 h3) h
    exact key s0.2 hq.2.1 (backwardStep_none hn hq.2.2.1)

theorem gjCore_some (M s : Mat n α) (h : gjCore M = some s) :
    s.toMatrix * M.toMatrix = 1 ∧ M.toMatrix * s.toMatrix = 1 := by
  unfold gjCore at h
  cases hr : gjRun M with
  | none => simp [hr] at h
  | some st =>
    simp only [hr, Option.map_some, Option.some.injEq] at h
    have := (gjRun_some M st hr).1
    rw [h] at this
    exact ⟨this, mul_eq_one_comm.mp this⟩

theorem gjCore_none_iff (M : Mat n α) : gjCore M = none ↔ M.toMatrix.det = 0 := by
  constructor
  · intro h
    unfold gjCore at h
    cases hr : gjRun M with
    | none => exact gjRun_none M hr
    | some st => simp [hr] at h
  · intro h0
    cases hc : gjCore M with
    | none => rfl
    | some s =>
      have := (gjCore_some M s hc).1
      have hd := congrArg Matrix.det this
      rw [Matrix.det_mul, h0, mul_zero, Matrix.det_one] at hd
      exact absurd hd zero_ne_one

end Main

end ImathVerif.GJ
