import ImathVerif.Props.C07
import ImathVerif.Props.C06
/-!
# C07 ∘ C06 — the INSTANTIATION of C07's four Gauss-Jordan parameter functions with C06's hand model (helper file)

`gj`, `gjF`, `gjTs`, `gjTv` are all read off the SAME two model functions `M44.gjInverse` / `M44.gjInverseExc`, which are two
`match`es on the same `gjCore a.toGJ` (Model/GaussJordan.lean).  Consequently the three lemmas `gj_hok`, `gj_herr`, `gjF_eq`
below — the hypotheses of C07's M44 pair theorems — are TRUE BY CONSTRUCTION: they cannot fail on an edit to one of the four
real 4×4 bodies, and they are NOT counted as obligations of property C07 (audit W2).  That the four real bodies (two textual
copies × value / in-place) agree is decided elsewhere: the source tie and the exhaustive lattices of `tools/props/c07.py` /
`harness/corr/c07_pairs.cpp`.  What `Props/C07Link.lean` genuinely adds is the determinant characterisation (C06) and the
affine arm.
-/
set_option linter.unusedSectionVars false
set_option linter.unusedVariables false
set_option linter.unusedSimpArgs false
namespace ImathVerif.C07Link
open ImathVerif ImathVerif.C07 Matrix

variable {α : Type} [Field α] [LinearOrder α] [IsStrictOrderedRing α] [BEq α] [LawfulBEq α]

/-! ## The instantiation: C07's four parameter functions read off C06's Gauss-Jordan model at `n = 4` -/

/-- `gj44` := `Matrix44::gjInverse ()` (the `noexcept` body) -/
def gj (a : M44 α) : M44 α := a.gjInverse
/-- `gj44F` := `Matrix44::gjInverse (false)`: the `singExc` body with the flag off returns `Matrix44 ()` at its exits -/
def gjF (a : M44 α) : M44 α :=
  match a.gjInverseExc with
  | .ok y => y
  | .error _ => M44.identity
/-- `gj44Tstatus` := 0 when `gjInverse (true)` returns, 1 when it throws (the extractor's encoding, sym_c07.cpp) -/
def gjTs (a : M44 α) : α :=
  match a.gjInverseExc with
  | .ok _ => 0
  | .error _ => 1
/-- `gj44Tvalue` := the value `gjInverse (true)` returns; where it throws there is no value, and an ARBITRARY one
(here the argument itself, deliberately not the identity) is used: nothing below depends on it -/
def gjTv (a : M44 α) : M44 α :=
  match a.gjInverseExc with
  | .ok y => y
  | .error _ => a

theorem M44_one_eq_identity : M44.one α = (M44.identity : M44 α) := rfl

/-- C06 in one statement: singular ⇒ throws / identity; non-singular ⇒ returns the value of the unchecked form -/
theorem gjExc_cases (a : M44 α) :
    (a.toMat.det = 0 ∧ a.gjInverseExc = .error Exc.invalidArgument ∧ a.gjInverse = M44.identity) ∨
    (a.toMat.det ≠ 0 ∧ a.gjInverseExc = .ok a.gjInverse) := by
  by_cases hd : a.toMat.det = 0
  · exact Or.inl ⟨hd, (C06.M44_gjInverseExc_spec a).1 hd, C06.M44_gjInverse_singular a hd⟩
  · exact Or.inr ⟨hd, (C06.M44_gjInverseExc_spec a).2 hd⟩

/-- C07's hypothesis `hok`, a lemma (true by construction of the instantiation): when `gjInverse (true)` returns, it returns what `gjInverse ()` returns -/
theorem gj_hok (a : M44 α) : gjTs a = 0 → gjTv a = gj a := by
  unfold gjTs gjTv gj
  rcases gjExc_cases a with ⟨_, he, _⟩ | ⟨_, he⟩
  · rw [he]; simp
  · rw [he]; simp

/-- C07's hypothesis `herr`, a lemma (true by construction of the instantiation): when `gjInverse (true)` throws, `gjInverse ()` returns the identity -/
theorem gj_herr (a : M44 α) : gjTs a ≠ 0 → gj a = M44.one α := by
  unfold gjTs gj
  rcases gjExc_cases a with ⟨_, he, h1⟩ | ⟨_, he⟩
  · intro _; rw [h1]; rfl
  · rw [he]; simp

/-- C07's hypothesis `hF` (`M44_inverse_copies`), a lemma (true by construction of the instantiation): `gjInverse (false)` is `gjInverse ()` -/
theorem gjF_eq (a : M44 α) : gjF a = gj a := by
  unfold gjF gj
  rcases gjExc_cases a with ⟨_, he, h1⟩ | ⟨_, he⟩
  · rw [he, h1]
  · rw [he]

end ImathVerif.C07Link
