import ImathVerif.Gen.C10Quat
import ImathVerif.Gen.C10Rot
import ImathVerif.Lemmas.C10Lemmas
import Mathlib.Tactic.Ring
import Mathlib.Tactic.Linarith
import Mathlib.Tactic.LinearCombination
import Mathlib.Tactic.SplitIfs
import Mathlib.Tactic.FieldSimp
import Mathlib.Tactic.NormNum
/-!
Lemmas for C10's `setRotation` theorems: `Vec3::normalized`, the private `Quat::setRotationInternal` (unit, carries
f onto t, axis parallel to f × t), commuting quaternions with parallel axes, the half-turn fallback, the split path.
-/
namespace ImathVerif.C10
open ImathVerif

/-- unit vector -/
def UnitV {α : Type} [Add α] [Mul α] [One α] (a : V3 α) : Prop := a.x * a.x + a.y * a.y + a.z * a.z = 1

variable {α : Type} [Field α] [LinearOrder α] [IsStrictOrderedRing α]

theorem V3_normalized_zero (tmin tmax : α) {sqrt : α → α} (hsqrt : SqrtSpec sqrt) :
    Gen.C10.V3.normalized tmin tmax sqrt ⟨0, 0, 0⟩ = ⟨0, 0, 0⟩ := by
  have h0 : sqrt 0 = 0 := C08.sqrt_zero hsqrt
  simp only [Gen.C10.V3.normalized, C08.V3_length_eq tmin tmax hsqrt]
  simp [h0]

theorem V3_normalized_of_ne_zero (tmin tmax : α) {sqrt : α → α} (hsqrt : SqrtSpec sqrt) (a : V3 α) (ha : a ≠ ⟨0, 0, 0⟩) :
    Gen.C10.V3.normalized tmin tmax sqrt a =
      ⟨a.x / sqrt (a.x * a.x + a.y * a.y + a.z * a.z), a.y / sqrt (a.x * a.x + a.y * a.y + a.z * a.z),
       a.z / sqrt (a.x * a.x + a.y * a.y + a.z * a.z)⟩ ∧ UnitV (Gen.C10.V3.normalized tmin tmax sqrt a) := by
  obtain ⟨hl, hll⟩ := sqrt_len2 hsqrt a ha
  have e : Gen.C10.V3.normalized tmin tmax sqrt a =
      ⟨a.x / sqrt (a.x * a.x + a.y * a.y + a.z * a.z), a.y / sqrt (a.x * a.x + a.y * a.y + a.z * a.z),
       a.z / sqrt (a.x * a.x + a.y * a.y + a.z * a.z)⟩ := by
    simp only [Gen.C10.V3.normalized, C08.V3_length_eq tmin tmax hsqrt, hl, ↓reduceIte]
  refine ⟨e, ?_⟩
  rw [e]; simp only [UnitV]
  generalize sqrt (a.x * a.x + a.y * a.y + a.z * a.z) = l at hl hll
  field_simp; linear_combination -hll

/-- the polynomial heart of setRotationInternal: with s = f + t, L² = |s|², |f| = |t| = 1,
`L² f + 2 (f·s) |f|² s − 2 |f|² |s|² f = L² t` (component-wise) -/
theorem sri_poly (fx fy fz tx ty tz L : α) (hf : fx * fx + fy * fy + fz * fz = 1) (ht : tx * tx + ty * ty + tz * tz = 1)
    (hL : L * L = (fx + tx) * (fx + tx) + (fy + ty) * (fy + ty) + (fz + tz) * (fz + tz)) (fi ti : α) :
    L * L * fi + 2 * (fx * (fx + tx) + fy * (fy + ty) + fz * (fz + tz)) * (fx * fx + fy * fy + fz * fz) * (fi + ti)
      - 2 * (fx * fx + fy * fy + fz * fz) * ((fx + tx) * (fx + tx) + (fy + ty) * (fy + ty) + (fz + tz) * (fz + tz)) * fi
      = L * L * ti := by
  linear_combination (fi - ti) * hL + (-fi - ti - 2 * (fx * fx + fy * fy + fz * fz - 1) * fi) * ht +
    ((-1 - 2 * (fx * tx + fy * ty + fz * tz)) * fi + (3 + 2 * (fx * tx + fy * ty + fz * tz)) * ti +
      2 * (fx * fx + fy * fy + fz * fz - 1) * ti) * hf

theorem rotateVector_eq_mulQuat' {β : Type} [CommRing β] (q : Quat β) (v : V3 β) (hq : UnitQ q) :
    Gen.C10.Quat.rotateVector q v = Gen.C10.V3.mulQuat v q := by
  simp only [UnitQ, normSq] at hq
  simp only [Gen.C10.Quat.rotateVector, Gen.C10.V3.mulQuat]
  congr 1
  · linear_combination (v.x) * hq
  · linear_combination (v.y) * hq
  · linear_combination (v.z) * hq

/-- `setRotationInternal (f, t)` for unit f, t with f + t ≠ 0: a unit quaternion that carries f onto t,
with vector part parallel to f × t -/
theorem sri_spec (tmin tmax : α) {sqrt : α → α} (hsqrt : SqrtSpec sqrt) (f t : V3 α) (hf : UnitV f) (ht : UnitV t)
    (hs : (⟨f.x + t.x, f.y + t.y, f.z + t.z⟩ : V3 α) ≠ ⟨0, 0, 0⟩) :
    UnitQ (Gen.C10.Quat.setRotationInternal tmin tmax sqrt f t) ∧
    Gen.C10.V3.mulQuat f (Gen.C10.Quat.setRotationInternal tmin tmax sqrt f t) = t ∧
    Gen.C10.Quat.rotateVector (Gen.C10.Quat.setRotationInternal tmin tmax sqrt f t) f = t ∧
    (∃ k : α, (Gen.C10.Quat.setRotationInternal tmin tmax sqrt f t).v =
      ⟨k * (f.y * t.z - f.z * t.y), k * (f.z * t.x - f.x * t.z), k * (f.x * t.y - f.y * t.x)⟩) := by
  obtain ⟨hl, hll⟩ := sqrt_len2 hsqrt _ hs
  simp only at hl hll
  obtain ⟨fx, fy, fz⟩ := f
  obtain ⟨tx, ty, tz⟩ := t
  simp only [UnitV] at hf ht
  have e : Gen.C10.Quat.setRotationInternal tmin tmax sqrt ⟨fx, fy, fz⟩ ⟨tx, ty, tz⟩ =
      (let L := sqrt ((fx + tx) * (fx + tx) + (fy + ty) * (fy + ty) + (fz + tz) * (fz + tz))
       ⟨fx * ((fx + tx) / L) + fy * ((fy + ty) / L) + fz * ((fz + tz) / L),
        ⟨fy * ((fz + tz) / L) - fz * ((fy + ty) / L), fz * ((fx + tx) / L) - fx * ((fz + tz) / L),
         fx * ((fy + ty) / L) - fy * ((fx + tx) / L)⟩⟩) := by
    simp only [Gen.C10.Quat.setRotationInternal, C08.V3_length_eq tmin tmax hsqrt, hl, ↓reduceIte]
  rw [e]
  simp only
  generalize sqrt ((fx + tx) * (fx + tx) + (fy + ty) * (fy + ty) + (fz + tz) * (fz + tz)) = L at hl hll
  have hu : UnitQ (⟨fx * ((fx + tx) / L) + fy * ((fy + ty) / L) + fz * ((fz + tz) / L),
        ⟨fy * ((fz + tz) / L) - fz * ((fy + ty) / L), fz * ((fx + tx) / L) - fx * ((fz + tz) / L),
         fx * ((fy + ty) / L) - fy * ((fx + tx) / L)⟩⟩ : Quat α) := by
    simp only [UnitQ, normSq]
    field_simp
    linear_combination ((fx + tx) * (fx + tx) + (fy + ty) * (fy + ty) + (fz + tz) * (fz + tz)) * hf - hll
  have hm : Gen.C10.V3.mulQuat ⟨fx, fy, fz⟩ (⟨fx * ((fx + tx) / L) + fy * ((fy + ty) / L) + fz * ((fz + tz) / L),
        ⟨fy * ((fz + tz) / L) - fz * ((fy + ty) / L), fz * ((fx + tx) / L) - fx * ((fz + tz) / L),
         fx * ((fy + ty) / L) - fy * ((fx + tx) / L)⟩⟩ : Quat α) = ⟨tx, ty, tz⟩ := by
    simp only [Gen.C10.V3.mulQuat]
    have kx := sri_poly fx fy fz tx ty tz L hf ht hll fx tx
    have ky := sri_poly fx fy fz tx ty tz L hf ht hll fy ty
    have kz := sri_poly fx fy fz tx ty tz L hf ht hll fz tz
    congr 1
    · field_simp; linear_combination kx
    · field_simp; linear_combination ky
    · field_simp; linear_combination kz
  refine ⟨hu, hm, ?_, ?_⟩
  · rw [rotateVector_eq_mulQuat' _ _ hu]; exact hm
  · refine ⟨1 / L, ?_⟩
    congr 1 <;> (field_simp; ring)

/-- quaternions whose vector parts are multiples of one vector commute -/
theorem mul_comm_of_parallel (a b : Quat α) (w : V3 α) (ka kb : α)
    (ha : a.v = ⟨ka * w.x, ka * w.y, ka * w.z⟩) (hb : b.v = ⟨kb * w.x, kb * w.y, kb * w.z⟩) :
    Gen.C10.Quat.mul a b = Gen.C10.Quat.mul b a := by
  obtain ⟨ar, av⟩ := a; obtain ⟨br, bv⟩ := b
  simp only at ha hb
  subst ha hb
  simp only [Gen.C10.Quat.mul]
  congr 1; · ring
  congr 1 <;> ring

/-- a half turn about a unit axis n orthogonal to v maps v to -v -/
theorem rot_half_turn (n v : V3 α) (hn : UnitV n) (hp : n.x * v.x + n.y * v.y + n.z * v.z = 0) :
    Gen.C10.Quat.rotateVector ⟨0, n⟩ v = ⟨-v.x, -v.y, -v.z⟩ := by
  simp only [UnitV] at hn
  simp only [Gen.C10.Quat.rotateVector]
  congr 1
  · linear_combination (2 * n.x) * hp - v.x * hn
  · linear_combination (2 * n.y) * hp - v.y * hn
  · linear_combination (2 * n.z) * hp - v.z * hn

/-- the antipodal fallback: for a non-zero `w` orthogonal to `f`, `(0, w.normalized ())` is a unit quaternion
that maps f to -f -/
theorem fallback_spec (tmin tmax : α) {sqrt : α → α} (hsqrt : SqrtSpec sqrt) (f w : V3 α)
    (hw : w ≠ ⟨0, 0, 0⟩) (hperp : w.x * f.x + w.y * f.y + w.z * f.z = 0) :
    UnitQ (⟨0, Gen.C10.V3.normalized tmin tmax sqrt w⟩ : Quat α) ∧
    Gen.C10.Quat.rotateVector ⟨0, Gen.C10.V3.normalized tmin tmax sqrt w⟩ f = ⟨-f.x, -f.y, -f.z⟩ := by
  obtain ⟨e, hu⟩ := V3_normalized_of_ne_zero tmin tmax hsqrt w hw
  obtain ⟨hl, _⟩ := sqrt_len2 hsqrt w hw
  constructor
  · simp only [UnitV] at hu
    simp only [UnitQ, normSq]; linear_combination hu
  · apply rot_half_turn _ _ hu
    rw [e]; simp only
    generalize sqrt (w.x * w.x + w.y * w.y + w.z * w.z) = l at hl
    field_simp; linear_combination hperp

/-- |f + t|² = 2 + 2 f·t for unit vectors -/
theorem sum_len2 (f t : V3 α) (hf : UnitV f) (ht : UnitV t) :
    (f.x + t.x) * (f.x + t.x) + (f.y + t.y) * (f.y + t.y) + (f.z + t.z) * (f.z + t.z) =
      2 + 2 * (f.x * t.x + f.y * t.y + f.z * t.z) := by
  simp only [UnitV] at hf ht; linear_combination hf + ht

theorem sum_ne_zero (f t : V3 α) (hf : UnitV f) (ht : UnitV t) (hc : -1 < f.x * t.x + f.y * t.y + f.z * t.z) :
    (⟨f.x + t.x, f.y + t.y, f.z + t.z⟩ : V3 α) ≠ ⟨0, 0, 0⟩ := by
  intro h
  have h1 := congrArg V3.x h; have h2 := congrArg V3.y h; have h3 := congrArg V3.z h
  simp only at h1 h2 h3
  have := sum_len2 f t hf ht
  rw [h1, h2, h3] at this
  linarith

set_option hygiene false in
macro "gsplit" : tactic => `(tactic| (split_ifs with hc <;> simp only [hc, ↓reduceIte]))

/-- the fallback leaves: whichever coordinate axis is chosen, the result is a unit quaternion mapping f to -f -/
theorem fallback_leaves (tmin tmax : α) {sqrt : α → α} (hsqrt : SqrtSpec sqrt) (fx fy fz : α) (hf : UnitV (⟨fx, fy, fz⟩ : V3 α)) :
    let r : Quat α :=
      if fx * fx ≤ fy * fy then
        if fx * fx ≤ fz * fz then
          ⟨0, Gen.C10.V3.normalized tmin tmax sqrt ⟨fy * 0 - fz * 0, fz * 1 - fx * 0, fx * 0 - fy * 1⟩⟩
        else if fy * fy ≤ fz * fz then
          ⟨0, Gen.C10.V3.normalized tmin tmax sqrt ⟨fy * 0 - fz * 1, fz * 0 - fx * 0, fx * 1 - fy * 0⟩⟩
        else ⟨0, Gen.C10.V3.normalized tmin tmax sqrt ⟨fy * 1 - fz * 0, fz * 0 - fx * 1, fx * 0 - fy * 0⟩⟩
      else if fy * fy ≤ fz * fz then
        ⟨0, Gen.C10.V3.normalized tmin tmax sqrt ⟨fy * 0 - fz * 1, fz * 0 - fx * 0, fx * 1 - fy * 0⟩⟩
      else ⟨0, Gen.C10.V3.normalized tmin tmax sqrt ⟨fy * 1 - fz * 0, fz * 0 - fx * 1, fx * 0 - fy * 0⟩⟩
    UnitQ r ∧ Gen.C10.Quat.rotateVector r ⟨fx, fy, fz⟩ = ⟨-fx, -fy, -fz⟩ := by
  have hu := hf
  simp only [UnitV] at hu
  have hx2 := mul_self_nonneg fx; have hy2 := mul_self_nonneg fy; have hz2 := mul_self_nonneg fz
  intro r
  have key : ∀ w : V3 α, w.x * w.x + w.y * w.y + w.z * w.z ≠ 0 → w.x * fx + w.y * fy + w.z * fz = 0 →
      UnitQ (⟨0, Gen.C10.V3.normalized tmin tmax sqrt w⟩ : Quat α) ∧
      Gen.C10.Quat.rotateVector ⟨0, Gen.C10.V3.normalized tmin tmax sqrt w⟩ ⟨fx, fy, fz⟩ = ⟨-fx, -fy, -fz⟩ := by
    intro w hw hp
    apply fallback_spec tmin tmax hsqrt ⟨fx, fy, fz⟩ w _ hp
    intro h; apply hw; rw [h]; simp
  simp only [r]
  split_ifs with h1 h2 h3 h4
  · apply key
    · simp only; intro h; nlinarith
    · simp only; ring
  · apply key
    · simp only; intro h; nlinarith
    · simp only; ring
  · apply key
    · simp only; intro h; nlinarith
    · simp only; ring
  · apply key
    · simp only; intro h; nlinarith
    · simp only; ring
  · apply key
    · simp only; intro h; nlinarith
    · simp only; ring

theorem normSq_mul' {β : Type} [CommRing β] (a b : Quat β) :
    normSq (Gen.C10.Quat.mul a b) = normSq a * normSq b := by
  simp only [Gen.C10.Quat.mul, normSq]; ring
theorem rotateVector_mul' {β : Type} [CommRing β] (q1 q2 : Quat β) (v : V3 β) :
    Gen.C10.Quat.rotateVector (Gen.C10.Quat.mul q1 q2) v =
      Gen.C10.Quat.rotateVector q1 (Gen.C10.Quat.rotateVector q2 v) := by
  simp only [Gen.C10.Quat.rotateVector, Gen.C10.Quat.mul]
  congr 1 <;> ring

/-- the split path: q1 = sri (f, h), q2 = sri (h, t) with h the normalised halfway vector -/
theorem split_spec (tmin tmax : α) {sqrt : α → α} (hsqrt : SqrtSpec sqrt) (f t : V3 α) (hf : UnitV f) (ht : UnitV t)
    (hc : -1 < f.x * t.x + f.y * t.y + f.z * t.z) :
    let h := Gen.C10.V3.normalized tmin tmax sqrt ⟨f.x + t.x, f.y + t.y, f.z + t.z⟩
    let q1 := Gen.C10.Quat.setRotationInternal tmin tmax sqrt f h
    let q2 := Gen.C10.Quat.setRotationInternal tmin tmax sqrt h t
    UnitV h ∧ UnitQ (Gen.C10.Quat.mul q1 q2) ∧ Gen.C10.Quat.rotateVector (Gen.C10.Quat.mul q1 q2) f = t := by
  have hs := sum_ne_zero f t hf ht hc
  obtain ⟨eh, hH⟩ := V3_normalized_of_ne_zero tmin tmax hsqrt _ hs
  obtain ⟨hl, hll⟩ := sqrt_len2 hsqrt _ hs
  have hsum := sum_len2 f t hf ht
  simp only at eh hl hll
  intro h q1 q2
  have hL0 : 0 ≤ sqrt ((f.x + t.x) * (f.x + t.x) + (f.y + t.y) * (f.y + t.y) + (f.z + t.z) * (f.z + t.z)) :=
    (hsqrt _ (by rw [hsum]; linarith)).2
  -- explicit h = s / L
  have ehx : h.x = (f.x + t.x) / sqrt ((f.x + t.x) * (f.x + t.x) + (f.y + t.y) * (f.y + t.y) + (f.z + t.z) * (f.z + t.z)) := by
    simp only [h, eh]
  have ehy : h.y = (f.y + t.y) / sqrt ((f.x + t.x) * (f.x + t.x) + (f.y + t.y) * (f.y + t.y) + (f.z + t.z) * (f.z + t.z)) := by
    simp only [h, eh]
  have ehz : h.z = (f.z + t.z) / sqrt ((f.x + t.x) * (f.x + t.x) + (f.y + t.y) * (f.y + t.y) + (f.z + t.z) * (f.z + t.z)) := by
    simp only [h, eh]
  generalize sqrt ((f.x + t.x) * (f.x + t.x) + (f.y + t.y) * (f.y + t.y) + (f.z + t.z) * (f.z + t.z)) = L at *
  have hLpos : 0 < L := lt_of_le_of_ne hL0 (Ne.symm hl)
  have hfu := hf; have htu := ht
  simp only [UnitV] at hfu htu
  have hfh : -1 < f.x * h.x + f.y * h.y + f.z * h.z := by
    rw [ehx, ehy, ehz]
    have : f.x * ((f.x + t.x) / L) + f.y * ((f.y + t.y) / L) + f.z * ((f.z + t.z) / L) =
        (1 + (f.x * t.x + f.y * t.y + f.z * t.z)) / L := by field_simp; linear_combination hfu
    rw [this]
    have : 0 < (1 + (f.x * t.x + f.y * t.y + f.z * t.z)) / L := div_pos (by linarith) hLpos
    linarith
  have hht : -1 < h.x * t.x + h.y * t.y + h.z * t.z := by
    rw [ehx, ehy, ehz]
    have : (f.x + t.x) / L * t.x + (f.y + t.y) / L * t.y + (f.z + t.z) / L * t.z =
        (1 + (f.x * t.x + f.y * t.y + f.z * t.z)) / L := by field_simp; linear_combination htu
    rw [this]
    have : 0 < (1 + (f.x * t.x + f.y * t.y + f.z * t.z)) / L := div_pos (by linarith) hLpos
    linarith
  obtain ⟨u1, _, r1, k1, hv1⟩ := sri_spec tmin tmax hsqrt f h hf hH (sum_ne_zero f h hf hH hfh)
  obtain ⟨u2, _, r2, k2, hv2⟩ := sri_spec tmin tmax hsqrt h t hH ht (sum_ne_zero h t hH ht hht)
  refine ⟨hH, ?_, ?_⟩
  · simp only [UnitQ] at *; rw [normSq_mul', u1, u2, mul_one]
  · -- q1 and q2 have vector parts parallel to f × t: they commute
    have hcomm : Gen.C10.Quat.mul q1 q2 = Gen.C10.Quat.mul q2 q1 := by
      apply mul_comm_of_parallel q1 q2 ⟨f.y * t.z - f.z * t.y, f.z * t.x - f.x * t.z, f.x * t.y - f.y * t.x⟩ (k1 / L) (k2 / L)
      · rw [hv1, ehx, ehy, ehz]; congr 1 <;> (field_simp; ring)
      · rw [hv2, ehx, ehy, ehz]; congr 1 <;> (field_simp; ring)
    rw [hcomm, rotateVector_mul', r1, r2]

end ImathVerif.C10
