import ImathVerif.Model.FixedArray
import ImathVerif.Spec.PyList
/-!
Helper lemmas for C19: heap reads/writes, loops, fresh allocations, index arithmetic.
-/
namespace ImathVerif.FixedArray

/-! ## heap -/

/-- the shape of a heap: the length of every buffer.  Writes never change it. -/
def shape (h : Heap) : List Nat := h.map List.length

theorem rd_ok_iff {h : Heap} {b p : Nat} {x : Int} :
    h.rd b p = .ok x ↔ ∃ buf, h[b]? = some buf ∧ buf[p]? = some x := by
  unfold Heap.rd
  cases hb : h[b]? with
  | none => simp
  | some buf =>
    cases hp : buf[p]? with
    | none => simp [hp]
    | some y => simp [hp]

theorem rd_of_lt {h : Heap} {b p : Nat} {buf : List Int} (hb : h[b]? = some buf) (hp : p < buf.length) :
    h.rd b p = .ok buf[p] := by
  unfold Heap.rd
  simp [hb, List.getElem?_eq_getElem hp]

theorem rd_ne_oob_of_lt {h : Heap} {b p : Nat} {buf : List Int} (hb : h[b]? = some buf) (hp : p < buf.length) :
    ∃ x, h.rd b p = .ok x := ⟨_, rd_of_lt hb hp⟩

theorem wr_ok_iff {h h' : Heap} {b p : Nat} {x : Int} :
    h.wr b p x = .ok h' ↔ ∃ buf, h[b]? = some buf ∧ p < buf.length ∧ h' = h.set b (buf.set p x) := by
  unfold Heap.wr
  cases hb : h[b]? with
  | none => simp
  | some buf =>
    by_cases hp : p < buf.length
    · simp [hp, eq_comm]
    · simp [hp]

theorem wr_of_lt {h : Heap} {b p : Nat} {buf : List Int} (x : Int) (hb : h[b]? = some buf) (hp : p < buf.length) :
    h.wr b p x = .ok (h.set b (buf.set p x)) := by
  unfold Heap.wr
  simp [hb, hp]

/-- a write is an error only as `oob` -/
theorem wr_error {h : Heap} {b p : Nat} {x : Int} {e : Err} (he : h.wr b p x = .error e) : e = .oob := by
  unfold Heap.wr at he
  split at he
  · split at he <;> simp_all
  · simp_all

theorem rd_error {h : Heap} {b p : Nat} {e : Err} (he : h.rd b p = .error e) : e = .oob := by
  unfold Heap.rd at he
  split at he
  · split at he <;> simp_all
  · simp_all

theorem wr_shape {h h' : Heap} {b p : Nat} {x : Int} (hw : h.wr b p x = .ok h') : shape h' = shape h := by
  obtain ⟨buf, hb, hp, rfl⟩ := wr_ok_iff.1 hw
  unfold shape
  apply List.ext_getElem?
  intro i
  by_cases hi : i = b
  · subst hi
    simp [List.getElem?_set, hb]
    have : i < h.length := by
      have := (List.getElem?_eq_some_iff.1 hb).1; exact this
    simp [this]
  · simp [Ne.symm hi]

theorem wr_length {h h' : Heap} {b p : Nat} {x : Int} (hw : h.wr b p x = .ok h') : h'.length = h.length := by
  have := congrArg List.length (wr_shape hw)
  simpa [shape] using this

/-- a write to buffer `b` leaves every other buffer alone -/
theorem wr_other {h h' : Heap} {b p : Nat} {x : Int} (hw : h.wr b p x = .ok h') {b' : Nat} (hne : b' ≠ b) :
    h'[b']? = h[b']? := by
  obtain ⟨buf, hb, hp, rfl⟩ := wr_ok_iff.1 hw
  simp [Ne.symm hne]

theorem wr_same {h h' : Heap} {b p : Nat} {x : Int} (hw : h.wr b p x = .ok h') :
    ∃ buf, h[b]? = some buf ∧ p < buf.length ∧ h'[b]? = some (buf.set p x) := by
  obtain ⟨buf, hb, hp, rfl⟩ := wr_ok_iff.1 hw
  refine ⟨buf, hb, hp, ?_⟩
  have : b < h.length := (List.getElem?_eq_some_iff.1 hb).1
  simp [this]

theorem shape_getElem? (h : Heap) (b : Nat) : (shape h)[b]? = (h[b]?).map List.length := by
  simp [shape]

/-! ## loops -/

/-- invariant rule for `forLoop` -/
theorem forLoop_inv (P : Heap → Prop) (body : Nat → Heap → Except Err Heap)
    (hbody : ∀ i h h', P h → body i h = .ok h' → P h') :
    ∀ n i h h', P h → forLoop body n i h = .ok h' → P h' := by
  intro n
  induction n with
  | zero => intro i h h' hp hr; simp [forLoop] at hr; subst hr; exact hp
  | succ n ih =>
    intro i h h' hp hr
    simp only [forLoop] at hr
    cases hb : body i h with
    | error e => simp [hb] at hr
    | ok h1 =>
      simp only [hb] at hr
      exact ih (i+1) h1 h' (hbody i h h1 hp hb) hr

/-- a loop whose body cannot fail under the invariant cannot fail -/
theorem forLoop_ok (P : Heap → Prop) (body : Nat → Heap → Except Err Heap)
    (hbody : ∀ i h, P h → ∃ h', body i h = .ok h' ∧ P h') :
    ∀ n i h, P h → ∃ h', forLoop body n i h = .ok h' ∧ P h' := by
  intro n
  induction n with
  | zero => intro i h hp; exact ⟨h, rfl, hp⟩
  | succ n ih =>
    intro i h hp
    obtain ⟨h1, hb, hp1⟩ := hbody i h hp
    obtain ⟨h2, hl, hp2⟩ := ih (i+1) h1 hp1
    exact ⟨h2, by simp [forLoop, hb, hl], hp2⟩

/-- same, with the body allowed to depend on the loop counter staying in range -/
theorem forLoop_ok' (P : Heap → Prop) (body : Nat → Heap → Except Err Heap) (n i0 : Nat)
    (hbody : ∀ i h, i0 ≤ i → i < i0 + n → P h → ∃ h', body i h = .ok h' ∧ P h') :
    ∀ h, P h → ∃ h', forLoop body n i0 h = .ok h' ∧ P h' := by
  induction n generalizing i0 with
  | zero => intro h hp; exact ⟨h, rfl, hp⟩
  | succ n ih =>
    intro h hp
    obtain ⟨h1, hb, hp1⟩ := hbody i0 h (Nat.le_refl _) (by omega) hp
    obtain ⟨h2, hl, hp2⟩ := ih (i0+1) (fun i h hi hlt hp => hbody i h (by omega) (by omega) hp) h1 hp1
    exact ⟨h2, by simp [forLoop, hb, hl], hp2⟩

/-- errors of a loop are errors of its body -/
theorem forLoop_error (E : Err → Prop) (body : Nat → Heap → Except Err Heap)
    (hbody : ∀ i h e, body i h = .error e → E e) :
    ∀ n i h e, forLoop body n i h = .error e → E e := by
  intro n
  induction n with
  | zero => intro i h e hr; simp [forLoop] at hr
  | succ n ih =>
    intro i h e hr
    simp only [forLoop] at hr
    cases hb : body i h with
    | error e' => simp [hb] at hr; subst hr; exact hbody i h e' hb
    | ok h1 => simp only [hb] at hr; exact ih (i+1) h1 e hr

/-! ## mapE -/

theorem mapE_ok_of_forall {ι α : Type} (f : ι → Except Err α) (g : ι → α) :
    ∀ l : List ι, (∀ i ∈ l, f i = .ok (g i)) → mapE f l = .ok (l.map g) := by
  intro l
  induction l with
  | nil => intro _; rfl
  | cons a l ih =>
    intro hf
    simp [mapE, hf a (by simp), ih (fun i hi => hf i (by simp [hi]))]

theorem mapE_error {ι α : Type} (E : Err → Prop) (f : ι → Except Err α)
    (hf : ∀ i e, f i = .error e → E e) : ∀ (l : List ι) e, mapE f l = .error e → E e := by
  intro l
  induction l with
  | nil => intro e h; simp [mapE] at h
  | cons a l ih =>
    intro e h
    simp only [mapE] at h
    cases hfa : f a with
    | error e' => simp [hfa] at h; subst h; exact hf a e' hfa
    | ok x =>
      simp only [hfa] at h
      cases hm : mapE f l with
      | error e' => simp [hm] at h; subst h; exact ih e' hm
      | ok xs => simp [hm] at h

theorem mapE_length {ι α : Type} (f : ι → Except Err α) :
    ∀ (l : List ι) xs, mapE f l = .ok xs → xs.length = l.length := by
  intro l
  induction l with
  | nil => intro xs h; simp [mapE] at h; subst h; rfl
  | cons a l ih =>
    intro xs h
    simp only [mapE] at h
    cases hfa : f a with
    | error e' => simp [hfa] at h
    | ok x =>
      simp only [hfa] at h
      cases hm : mapE f l with
      | error e' => simp [hm] at h
      | ok ys => simp [hm] at h; subst h; simp [ih ys hm]

end ImathVerif.FixedArray

namespace ImathVerif.FixedArray

/-! ## frames: which buffer an operation may write -/

/-- `h'` differs from `h` at most inside buffer `bw`, and no buffer was added or removed -/
def Frame (bw : Nat) (h h' : Heap) : Prop :=
  h'.length = h.length ∧ ∀ b', b' ≠ bw → h'[b']? = h[b']?

theorem Frame.refl (bw : Nat) (h : Heap) : Frame bw h h := ⟨rfl, fun _ _ => rfl⟩

theorem Frame.trans {bw : Nat} {h1 h2 h3 : Heap} (a : Frame bw h1 h2) (b : Frame bw h2 h3) : Frame bw h1 h3 :=
  ⟨b.1.trans a.1, fun b' hne => (b.2 b' hne).trans (a.2 b' hne)⟩

theorem wr_frame {h h' : Heap} {b p : Nat} {x : Int} (hw : h.wr b p x = .ok h') : Frame b h h' :=
  ⟨wr_length hw, fun _ hne => wr_other hw hne⟩

theorem forLoop_frame (bw : Nat) (body : Nat → Heap → Except Err Heap)
    (hbody : ∀ i h h', body i h = .ok h' → Frame bw h h') :
    ∀ n i h h', forLoop body n i h = .ok h' → Frame bw h h' := by
  intro n i h h' hr
  exact forLoop_inv (fun x => Frame bw h x) body
    (fun i h1 h2 hp hb => hp.trans (hbody i h1 h2 hb)) n i h h' (Frame.refl _ _) hr

theorem forLoop_shape (body : Nat → Heap → Except Err Heap)
    (hbody : ∀ i h h', body i h = .ok h' → shape h' = shape h) :
    ∀ n i h h', forLoop body n i h = .ok h' → shape h' = shape h := by
  intro n i h h' hr
  exact forLoop_inv (fun x => shape x = shape h) body
    (fun i h1 h2 hp hb => (hbody i h1 h2 hb).trans hp) n i h h' rfl hr

/-! ### every mutating operation: requires `_writable`, writes only `_ptr`'s buffer, keeps the shape -/

/-- summary of a successful mutation through view `v` -/
structure Mutates (v : View) (h h' : Heap) : Prop where
  writable : v.writable = true
  frame : Frame v.buf h h'
  shape : shape h' = shape h

theorem writeSliceElem_frame {v : View} {s : SliceIdx} {x : Int} {i : Nat} {h1 h2 : Heap}
    (hb : v.writeSliceElem s x i h1 = .ok h2) : Frame v.buf h1 h2 ∧ shape h2 = shape h1 := by
  unfold View.writeSliceElem at hb
  split at hb
  · exact ⟨wr_frame hb, wr_shape hb⟩
  · simp at hb

theorem writeRaw_frame {v : View} {x : Int} {i : Nat} {h1 h2 : Heap}
    (hb : v.writeRaw x i h1 = .ok h2) : Frame v.buf h1 h2 ∧ shape h2 = shape h1 := by
  unfold View.writeRaw at hb
  split at hb
  · exact ⟨wr_frame hb, wr_shape hb⟩
  · simp at hb

theorem writeIfMask_frame {v mask : View} {x : Int} {i : Nat} {h1 h2 : Heap}
    (hb : v.writeIfMask mask x i h1 = .ok h2) : Frame v.buf h1 h2 ∧ shape h2 = shape h1 := by
  unfold View.writeIfMask at hb
  split at hb
  · split at hb
    · exact ⟨wr_frame hb, wr_shape hb⟩
    · simp at hb; subst hb; exact ⟨Frame.refl _ _, rfl⟩
  · simp at hb

theorem writeSliceFrom_frame {v data : View} {s : SliceIdx} {i : Nat} {h1 h2 : Heap}
    (hb : v.writeSliceFrom s data i h1 = .ok h2) : Frame v.buf h1 h2 ∧ shape h2 = shape h1 := by
  unfold View.writeSliceFrom at hb
  split at hb
  · exact writeSliceElem_frame hb
  · simp at hb

theorem writeIfMaskFrom_frame {v mask data : View} {i : Nat} {h1 h2 : Heap}
    (hb : v.writeIfMaskFrom mask data i h1 = .ok h2) : Frame v.buf h1 h2 ∧ shape h2 = shape h1 := by
  unfold View.writeIfMaskFrom at hb
  split at hb
  · simp at hb
  · split at hb
    · split at hb
      · exact ⟨wr_frame hb, wr_shape hb⟩
      · simp at hb
    · simp at hb; subst hb; exact ⟨Frame.refl _ _, rfl⟩

theorem setitemScalar_mutates {h h' : Heap} {v : View} {idx : PyIdx} {x : Int} {ms : Int}
    (hr : setitemScalar h v idx x ms = .ok h') : Mutates v h h' := by
  unfold setitemScalar at hr
  split at hr
  · simp at hr
  · rename_i hw
    split at hr
    · simp at hr
    · exact ⟨by simpa using hw,
        forLoop_frame v.buf _ (fun i h1 h2 hb => (writeSliceElem_frame hb).1) _ _ _ _ hr,
        forLoop_shape _ (fun i h1 h2 hb => (writeSliceElem_frame hb).2) _ _ _ _ hr⟩

theorem writeRawIfMask_frame {v mask : View} {x : Int} {i : Nat} {h1 h2 : Heap}
    (hb : v.writeRawIfMask mask x i h1 = .ok h2) : Frame v.buf h1 h2 ∧ shape h2 = shape h1 := by
  unfold View.writeRawIfMask at hb
  split at hb
  · split at hb
    · exact writeRaw_frame hb
    · simp at hb; subst hb; exact ⟨Frame.refl _ _, rfl⟩
  · simp at hb

theorem setitemScalarMask_mutates {h h' : Heap} {v mask : View} {x : Int} {honour : Bool}
    (hr : setitemScalarMask h v mask x honour = .ok h') : Mutates v h h' := by
  unfold setitemScalarMask at hr
  split at hr
  · simp at hr
  · rename_i hw
    split at hr
    · simp at hr
    · split at hr
      · split at hr
        · exact ⟨by simpa using hw,
            forLoop_frame v.buf _ (fun i h1 h2 hb => (writeRawIfMask_frame hb).1) _ _ _ _ hr,
            forLoop_shape _ (fun i h1 h2 hb => (writeRawIfMask_frame hb).2) _ _ _ _ hr⟩
        · exact ⟨by simpa using hw,
            forLoop_frame v.buf _ (fun i h1 h2 hb => (writeRaw_frame hb).1) _ _ _ _ hr,
            forLoop_shape _ (fun i h1 h2 hb => (writeRaw_frame hb).2) _ _ _ _ hr⟩
      · exact ⟨by simpa using hw,
          forLoop_frame v.buf _ (fun i h1 h2 hb => (writeIfMask_frame hb).1) _ _ _ _ hr,
          forLoop_shape _ (fun i h1 h2 hb => (writeIfMask_frame hb).2) _ _ _ _ hr⟩

theorem setitemVector_mutates {h h' : Heap} {v data : View} {idx : PyIdx} {ms : Int}
    (hr : setitemVector h v idx data ms = .ok h') : Mutates v h h' := by
  unfold setitemVector at hr
  split at hr
  · simp at hr
  · rename_i hw
    split at hr
    · simp at hr
    · split at hr
      · simp at hr
      · exact ⟨by simpa using hw,
          forLoop_frame v.buf _ (fun i h1 h2 hb => (writeSliceFrom_frame hb).1) _ _ _ _ hr,
          forLoop_shape _ (fun i h1 h2 hb => (writeSliceFrom_frame hb).2) _ _ _ _ hr⟩

theorem packLoop_frame (v mask data : View) :
    ∀ n i di h h', packLoop v mask data n i di h = .ok h' → Frame v.buf h h' ∧ shape h' = shape h := by
  intro n
  induction n with
  | zero => intro i di h h' hr; simp [packLoop] at hr; subst hr; exact ⟨Frame.refl _ _, rfl⟩
  | succ n ih =>
    intro i di h h' hr
    simp only [packLoop] at hr
    split at hr
    · simp at hr
    · split at hr
      · split at hr
        · simp at hr
        · split at hr
          · simp at hr
          · rename_i h1 hw
            have := ih _ _ _ _ hr
            exact ⟨(wr_frame hw).trans this.1, this.2.trans (wr_shape hw)⟩
      · exact ih _ _ _ _ hr

theorem setitemVectorMask_mutates {h h' : Heap} {v mask data : View}
    (hr : setitemVectorMask h v mask data = .ok h') : Mutates v h h' := by
  unfold setitemVectorMask at hr
  split at hr
  · simp at hr
  · rename_i hw
    split at hr
    · simp at hr
    · split at hr
      · simp at hr
      · split at hr
        · exact ⟨by simpa using hw,
            forLoop_frame v.buf _ (fun i h1 h2 hb => (writeIfMaskFrom_frame hb).1) _ _ _ _ hr,
            forLoop_shape _ (fun i h1 h2 hb => (writeIfMaskFrom_frame hb).2) _ _ _ _ hr⟩
        · split at hr
          · simp at hr
          · split at hr
            · simp at hr
            · have := packLoop_frame v mask data _ _ _ _ _ hr
              exact ⟨by simpa using hw, this.1, this.2⟩

/-! ### accessors -/

/-- the allocation an accessor points into -/
def WAccess.buf : WAccess → Nat
  | .direct a => a.buf
  | .masked a => a.buf

theorem WAccess.set_frame {h h' : Heap} {acc : WAccess} {i : Nat} {x : Int} {b : Nat}
    (hb : acc.buf = b)
    (hr : acc.set h i x = .ok h') : Frame b h h' ∧ shape h' = shape h := by
  cases acc with
  | direct a =>
    simp only [WAccess.set, DirectAccess.set] at hr
    simp only [WAccess.buf] at hb; subst hb
    exact ⟨wr_frame hr, wr_shape hr⟩
  | masked a =>
    simp only [WAccess.set, MaskedAccess.set] at hr
    simp only [WAccess.buf] at hb; subst hb
    split at hr
    · exact ⟨wr_frame hr, wr_shape hr⟩
    · simp at hr

theorem maskedAccess_buf {cfg : Cfg} {a : View} {acc : MaskedAccess}
    (h : WritableMaskedAccess.mk' cfg a = .ok acc) :
    acc.buf = a.buf ∧ (cfg.maskedAccessThrows = true → a.writable = true) := by
  unfold WritableMaskedAccess.mk' ReadOnlyMaskedAccess.mk' at h
  split at h
  · simp at h
  · rename_i acc0 h0
    split at h0
    · simp at h0
    · simp at h0
      split at h
      · split at h
        · simp at h
        · rename_i hw hc
          simp at h; subst h; subst h0
          exact ⟨rfl, fun hc' => by simp [hc'] at hc⟩
      · rename_i hw
        simp at h; subst h; subst h0
        exact ⟨rfl, fun _ => by simpa using hw⟩

theorem selfAccess_buf {cfg : Cfg} {a : View} {acc : WAccess} (h : selfAccess cfg a = .ok acc) :
    acc.buf = a.buf ∧ (cfg.maskedAccessThrows = true → a.writable = true) := by
  unfold selfAccess at h
  split at h
  · split at h
    · rename_i acc' hm
      simp at h; subst h
      exact maskedAccess_buf hm
    · simp at h
  · split at h
    · rename_i acc' hd
      simp at h; subst h
      unfold WritableDirectAccess.mk' ReadOnlyDirectAccess.mk' at hd
      split at hd
      · simp at hd
      · rename_i acc0 h0
        split at h0
        · simp at h0
        · simp at h0
          split at hd
          · simp at hd
          · rename_i hw
            simp at hd; subst hd; subst h0
            exact ⟨rfl, fun _ => by simpa using hw⟩
    · simp at h

theorem addScalar_frame {acc : WAccess} {x : Int} {i : Nat} {h1 h2 : Heap} {b : Nat} (hb : acc.buf = b)
    (hr : acc.addScalar x i h1 = .ok h2) : Frame b h1 h2 ∧ shape h2 = shape h1 := by
  unfold WAccess.addScalar at hr
  split at hr
  · simp at hr
  · exact WAccess.set_frame hb hr

theorem addFrom_frame {acc bacc : WAccess} {i : Nat} {h1 h2 : Heap} {b : Nat} (hb : acc.buf = b)
    (hr : acc.addFrom bacc i h1 = .ok h2) : Frame b h1 h2 ∧ shape h2 = shape h1 := by
  unfold WAccess.addFrom at hr
  split at hr
  · simp at hr
  · split at hr
    · simp at hr
    · exact WAccess.set_frame hb hr

theorem addFromRaw_frame {a : View} {acc : MaskedAccess} {bacc : WAccess} {i : Nat} {h1 h2 : Heap} {b : Nat}
    (hb : acc.buf = b) (hr : acc.addFromRaw a bacc i h1 = .ok h2) : Frame b h1 h2 ∧ shape h2 = shape h1 := by
  unfold MaskedAccess.addFromRaw at hr
  split at hr
  · simp at hr
  · split at hr
    · simp at hr
    · split at hr
      · simp at hr
      · simp only [MaskedAccess.set] at hr
        split at hr
        · rw [hb] at hr; exact ⟨wr_frame hr, wr_shape hr⟩
        · simp at hr

/-- in-place `a += x`: with the accessor guard in place a success means `a` is writable -/
theorem iaddScalar_mutates {cfg : Cfg} {h h' : Heap} {a : View} {x : Int}
    (hr : iaddScalar cfg h a x = .ok h') :
    (cfg.maskedAccessThrows = true → a.writable = true) ∧ Frame a.buf h h' ∧ shape h' = shape h := by
  unfold iaddScalar at hr
  simp only at hr
  split at hr
  · simp at hr
  · rename_i acc hacc
    have hb := selfAccess_buf hacc
    exact ⟨hb.2, forLoop_frame a.buf _ (fun i h1 h2 hbd => (addScalar_frame hb.1 hbd).1) _ _ _ _ hr,
      forLoop_shape _ (fun i h1 h2 hbd => (addScalar_frame hb.1 hbd).2) _ _ _ _ hr⟩

theorem iaddVector_mutates {cfg : Cfg} {h h' : Heap} {a b : View}
    (hr : iaddVector cfg h a b = .ok h') :
    (cfg.maskedAccessThrows = true → a.writable = true) ∧ Frame a.buf h h' ∧ shape h' = shape h := by
  unfold iaddVector at hr
  split at hr
  · simp at hr
  · rename_i len _
    split at hr
    · split at hr
      · simp at hr
      · rename_i acc hacc
        have hb := maskedAccess_buf hacc
        split at hr
        · simp at hr
        · exact ⟨hb.2, forLoop_frame a.buf _ (fun i h1 h2 hbd => (addFromRaw_frame hb.1 hbd).1) _ _ _ _ hr,
            forLoop_shape _ (fun i h1 h2 hbd => (addFromRaw_frame hb.1 hbd).2) _ _ _ _ hr⟩
    · split at hr
      · simp at hr
      · rename_i acc hacc
        have hb := selfAccess_buf hacc
        split at hr
        · simp at hr
        · exact ⟨hb.2, forLoop_frame a.buf _ (fun i h1 h2 hbd => (addFrom_frame hb.1 hbd).1) _ _ _ _ hr,
            forLoop_shape _ (fun i h1 h2 hbd => (addFrom_frame hb.1 hbd).2) _ _ _ _ hr⟩

end ImathVerif.FixedArray

namespace ImathVerif.FixedArray

/-! ## operations that create arrays -/

/-- the result lives in a fresh allocation appended to the heap -/
def Fresh (h : Heap) (r : Heap × View) : Prop := ∃ vals, r.1 = h ++ [vals] ∧ r.2.buf = h.length

theorem alloc_fresh (h : Heap) (vals : List Int) : Fresh h (alloc h vals) := ⟨vals, rfl, rfl⟩

theorem getslice_fresh {h : Heap} {v : View} {idx : PyIdx} {r : Heap × View} {ms : Int}
    (hr : getslice h v idx ms = .ok r) : Fresh h r := by
  unfold getslice at hr
  split at hr
  · simp at hr
  · split at hr
    · simp at hr
    · simp at hr; subst hr; exact alloc_fresh _ _

theorem convert_fresh {cfg : Cfg} {h : Heap} {v : View} {r : Heap × View}
    (hr : convert cfg h v = .ok r) : Fresh h r := by
  unfold convert at hr
  split at hr
  · simp at hr
  · rename_i vals _
    simp only at hr
    split at hr
    · simp at hr; subst hr; exact alloc_fresh _ _
    · split at hr
      · split at hr
        · simp at hr
        · simp at hr; subst hr; exact ⟨vals, rfl, rfl⟩
      · simp at hr; subst hr; exact alloc_fresh _ _

theorem ifelseVector_fresh {h : Heap} {v c o : View} {r : Heap × View} {cr : Bool}
    (hr : ifelseVector h v c o cr = .ok r) : Fresh h r := by
  unfold ifelseVector at hr
  split at hr
  · simp at hr
  · split at hr
    · simp at hr
    · split at hr
      · simp at hr
      · simp at hr; subst hr; exact alloc_fresh _ _

theorem ifelseScalar_fresh {h : Heap} {v c : View} {x : Int} {r : Heap × View} {cr : Bool}
    (hr : ifelseScalar h v c x cr = .ok r) : Fresh h r := by
  unfold ifelseScalar at hr
  split at hr
  · simp at hr
  · split at hr
    · simp at hr
    · simp at hr; subst hr; exact alloc_fresh _ _

/-- a masked reference shares the allocation and the writable flag of its source -/
theorem getsliceMask_inherits {h : Heap} {f mask m : View} (hr : getsliceMask h f mask = .ok m) :
    m.buf = f.buf ∧ m.writable = f.writable ∧ m.off = f.off ∧ m.stride = f.stride := by
  unfold getsliceMask at hr
  split at hr
  · simp at hr
  · split at hr
    · simp at hr
    · split at hr
      · simp at hr
      · simp at hr; subst hr; exact ⟨rfl, rfl, rfl, rfl⟩

end ImathVerif.FixedArray
