import ImathVerif.Lemmas.C12Lemmas
import ImathVerif.Gen.Leaf
import Mathlib.Tactic.Positivity
/-!
# `Vec2::length` / `Vec3::length` (extracted, `Gen/Leaf.lean`) are the non-negative square root of `v·v`

Exact semantics of `length()` including the `lengthTiny` arm (all 9 / 129 paths, both the underflow and the overflow guard), for any square
root satisfying `SqrtSpec`.  Used by C12 to discharge the `LenSpec` hypotheses of the Gram-Schmidt lemmas.
-/
namespace ImathVerif.SHRT
set_option linter.unusedSectionVars false
variable {α : Type} [Field α] [LinearOrder α] [IsStrictOrderedRing α]

/-- specification of the square root parameter -/
def SqrtSpec (sqrt : α → α) : Prop := ∀ x, 0 ≤ x → 0 ≤ sqrt x ∧ sqrt x * sqrt x = x

theorem tiny2 {sqrt : α → α} (hs : SqrtSpec sqrt) (a b : α) (hb : |b| ≠ 0) :
    0 ≤ |b| * sqrt (|a| / |b| * (|a| / |b|) + |b| / |b| * (|b| / |b|)) ∧
    |b| * sqrt (|a| / |b| * (|a| / |b|) + |b| / |b| * (|b| / |b|)) *
      (|b| * sqrt (|a| / |b| * (|a| / |b|) + |b| / |b| * (|b| / |b|))) = a * a + b * b := by
  set q := |a| / |b| * (|a| / |b|) + |b| / |b| * (|b| / |b|) with hq
  have hq0 : 0 ≤ q := add_nonneg (mul_self_nonneg _) (mul_self_nonneg _)
  obtain ⟨s0, s1⟩ := hs q hq0
  refine ⟨mul_nonneg (abs_nonneg b) s0, ?_⟩
  have : |b| * sqrt q * (|b| * sqrt q) = |b| * |b| * (sqrt q * sqrt q) := by ring
  rw [this, s1, hq]
  have e1 : |a| * |a| = a * a := abs_mul_abs_self a
  have e2 : |b| * |b| = b * b := abs_mul_abs_self b
  field_simp
  nlinarith [e1, e2]

theorem V2_length_spec {tmin tmax : α} {sqrt : α → α} (hs : SqrtSpec sqrt) : LenSpec2 (Gen.V2.length tmin tmax sqrt) := by
  intro v
  obtain ⟨x, y⟩ := v
  have hxy : 0 ≤ x * x + y * y := add_nonneg (mul_self_nonneg _) (mul_self_nonneg _)
  -- the scaled (lengthTiny) sub-tree, which the code enters when the sum of squares under- OR overflows
  have tiny : ∀ (r : α), r = (if |x| < |y| then (if |y| = 0 then 0 else |y| * sqrt (|x| / |y| * (|x| / |y|) + |y| / |y| * (|y| / |y|)))
      else (if |x| = 0 then 0 else |x| * sqrt (|x| / |x| * (|x| / |x|) + |y| / |x| * (|y| / |x|)))) →
      0 ≤ r ∧ r * r = x * x + y * y := by
    intro r hr
    subst hr
    split_ifs with h2 h3 h4
    · rw [h3] at h2; exact absurd h2 (not_lt.mpr (abs_nonneg x))
    · exact tiny2 hs x y h3
    · have hy : |y| ≤ 0 := by rw [← h4]; exact not_lt.mp h2
      have hy0 : y = 0 := abs_eq_zero.mp (le_antisymm hy (abs_nonneg y))
      have hx0 : x = 0 := abs_eq_zero.mp h4
      simp [hx0, hy0]
    · have := tiny2 hs y x h4
      rw [add_comm (y * y)] at this
      rw [add_comm (|x| / |x| * (|x| / |x|))]
      exact this
  simp only [Gen.V2.length, dot2, sabs_eq_abs]
  by_cases h1 : x * x + y * y < 2 * tmin
  · rw [if_pos h1]; exact tiny _ rfl
  · rw [if_neg h1]
    by_cases h2 : tmax < x * x + y * y
    · rw [if_pos h2]; exact tiny _ rfl
    · rw [if_neg h2]; exact hs _ hxy

theorem tiny3 {sqrt : α → α} (hs : SqrtSpec sqrt) (X Y Z m S : α) (hm : 0 < m) (hS : X * X + Y * Y + Z * Z = S) :
    0 ≤ m * sqrt (X / m * (X / m) + Y / m * (Y / m) + Z / m * (Z / m)) ∧
    m * sqrt (X / m * (X / m) + Y / m * (Y / m) + Z / m * (Z / m)) *
      (m * sqrt (X / m * (X / m) + Y / m * (Y / m) + Z / m * (Z / m))) = S := by
  set q := X / m * (X / m) + Y / m * (Y / m) + Z / m * (Z / m) with hq
  have hq0 : 0 ≤ q := add_nonneg (add_nonneg (mul_self_nonneg _) (mul_self_nonneg _)) (mul_self_nonneg _)
  obtain ⟨s0, s1⟩ := hs q hq0
  refine ⟨mul_nonneg hm.le s0, ?_⟩
  have : m * sqrt q * (m * sqrt q) = m * m * (sqrt q * sqrt q) := by ring
  rw [this, s1, hq, ← hS]
  have := hm.ne'
  field_simp

-- closes `0 ≤ T ∧ T * T = x*x + y*y + z*z` for the scaled (`lengthTiny`) sub-tree `T` of `Vec3::length`
set_option hygiene false in
local macro "tiny3tac " hs:ident : tactic =>
  `(tactic| (split_ifs <;> first
    | (have hx : x = 0 := by linarith
       have hy : y = 0 := by linarith
       have hz : z = 0 := by linarith
       subst hx hy hz; simp)
    | (refine tiny3 $hs _ _ _ _ _ ?_ ?_
       · apply lt_of_le_of_ne (by linarith); intro hh; simp_all
       · ring)))

set_option maxHeartbeats 32000000 in
theorem V3_length_spec {tmin tmax : α} {sqrt : α → α} (hs : SqrtSpec sqrt) : LenSpec3 (Gen.V3.length tmin tmax sqrt) := by
  intro v
  obtain ⟨x, y, z⟩ := v
  have hpos : 0 ≤ x * x + y * y + z * z :=
    add_nonneg (add_nonneg (mul_self_nonneg _) (mul_self_nonneg _)) (mul_self_nonneg _)
  simp (config := {maxSteps := 20000000}) only [Gen.V3.length, dot3]
  -- the code enters the scaled sub-tree when the sum of squares under- OR overflows
  by_cases h1 : x * x + y * y + z * z < 2 * tmin
  · rw [if_pos h1]
    clear h1
    tiny3tac hs
  · rw [if_neg h1]
    by_cases h2 : tmax < x * x + y * y + z * z
    · rw [if_pos h2]
      clear h1 h2
      tiny3tac hs
    · rw [if_neg h2]; exact hs _ hpos
end ImathVerif.SHRT
