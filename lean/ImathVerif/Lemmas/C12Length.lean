import ImathVerif.Lemmas.C12Lemmas
import ImathVerif.Gen.Leaf
import Mathlib.Tactic.Positivity
/-!
# `Vec2::length` / `Vec3::length` (extracted, `Gen/Leaf.lean`) are the non-negative square root of `v·v`

Exact semantics of `length()` including the `lengthTiny` arm (all 5 / 65 paths), for any square
root satisfying `SqrtSpec`.  Used by C12 to discharge the `LenSpec` hypotheses of the Gram-Schmidt lemmas.
-/
namespace ImathVerif.SHRT
set_option linter.unusedSectionVars false
variable {α : Type} [Field α] [LinearOrder α] [IsStrictOrderedRing α]

/-- specification of the square root parameter -/
def SqrtSpec (sqrt : α → α) : Prop := ∀ x, 0 ≤ x → 0 ≤ sqrt x ∧ sqrt x * sqrt x = x

theorem tiny2 {sqrt : α → α} (hs : SqrtSpec sqrt) (a b : α) (hb : |b| ≠ 0) :
    0 ≤ |b| * sqrt (|a| / |b| * (|a| / |b|) + |b| / |b| * (|b| / |b|)) ∧
    |b| * sqrt (|a| / |b| * (|a| / |b|) + |b| / |b| * (|b| / |b|)) *
      (|b| * sqrt (|a| / |b| * (|a| / |b|) + |b| / |b| * (|b| / |b|))) = a * a + b * b := by
  set q := |a| / |b| * (|a| / |b|) + |b| / |b| * (|b| / |b|) with hq
  have hq0 : 0 ≤ q := add_nonneg (mul_self_nonneg _) (mul_self_nonneg _)
  obtain ⟨s0, s1⟩ := hs q hq0
  refine ⟨mul_nonneg (abs_nonneg b) s0, ?_⟩
  have : |b| * sqrt q * (|b| * sqrt q) = |b| * |b| * (sqrt q * sqrt q) := by ring
  rw [this, s1, hq]
  have e1 : |a| * |a| = a * a := abs_mul_abs_self a
  have e2 : |b| * |b| = b * b := abs_mul_abs_self b
  field_simp
  nlinarith [e1, e2]

theorem V2_length_spec {tmin : α} {sqrt : α → α} (hs : SqrtSpec sqrt) : LenSpec2 (Gen.V2.length tmin sqrt) := by
  intro v
  obtain ⟨x, y⟩ := v
  have hxy : 0 ≤ x * x + y * y := add_nonneg (mul_self_nonneg _) (mul_self_nonneg _)
  simp only [Gen.V2.length, dot2, sabs_eq_abs]
  split_ifs with h1 h2 h3 h4
  · rw [h3] at h2; exact absurd h2 (not_lt.mpr (abs_nonneg x))
  · have := tiny2 hs x y h3
    exact this
  · have hy : |y| ≤ 0 := by rw [← h4]; exact not_lt.mp h2
    have hy0 : y = 0 := abs_eq_zero.mp (le_antisymm hy (abs_nonneg y))
    have hx0 : x = 0 := abs_eq_zero.mp h4
    simp [hx0, hy0]
  · have := tiny2 hs y x h4
    rw [add_comm (y * y)] at this
    rw [add_comm (|x| / |x| * (|x| / |x|))]
    exact this
  · exact hs _ hxy

theorem tiny3 {sqrt : α → α} (hs : SqrtSpec sqrt) (X Y Z m S : α) (hm : 0 < m) (hS : X * X + Y * Y + Z * Z = S) :
    0 ≤ m * sqrt (X / m * (X / m) + Y / m * (Y / m) + Z / m * (Z / m)) ∧
    m * sqrt (X / m * (X / m) + Y / m * (Y / m) + Z / m * (Z / m)) *
      (m * sqrt (X / m * (X / m) + Y / m * (Y / m) + Z / m * (Z / m))) = S := by
  set q := X / m * (X / m) + Y / m * (Y / m) + Z / m * (Z / m) with hq
  have hq0 : 0 ≤ q := add_nonneg (add_nonneg (mul_self_nonneg _) (mul_self_nonneg _)) (mul_self_nonneg _)
  obtain ⟨s0, s1⟩ := hs q hq0
  refine ⟨mul_nonneg hm.le s0, ?_⟩
  have : m * sqrt q * (m * sqrt q) = m * m * (sqrt q * sqrt q) := by ring
  rw [this, s1, hq, ← hS]
  have := hm.ne'
  field_simp

set_option maxHeartbeats 8000000 in
theorem V3_length_spec {tmin : α} {sqrt : α → α} (hs : SqrtSpec sqrt) : LenSpec3 (Gen.V3.length tmin sqrt) := by
  intro v
  obtain ⟨x, y, z⟩ := v
  have hpos : 0 ≤ x * x + y * y + z * z :=
    add_nonneg (add_nonneg (mul_self_nonneg _) (mul_self_nonneg _)) (mul_self_nonneg _)
  simp only [Gen.V3.length, dot3]
  split_ifs <;> first
    | exact hs _ hpos
    | (have hx : x = 0 := by linarith
       have hy : y = 0 := by linarith
       have hz : z = 0 := by linarith
       subst hx hy hz; simp)
    | (refine tiny3 hs _ _ _ _ _ ?_ ?_
       · apply lt_of_le_of_ne (by linarith); intro hh; simp_all
       · ring)
end ImathVerif.SHRT
