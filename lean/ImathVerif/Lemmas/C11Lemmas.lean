import ImathVerif.Lemmas.C11Tables
import Mathlib.Tactic.Ring
import Mathlib.Tactic.FinCases
import Mathlib.Tactic.Linarith
import Mathlib.Tactic.LinearCombination
/-!
Helper lemmas for C11 (Euler angles): decoded-bit tables, extensionality for the aggregate
structures, orthonormality of elementary rotations, quaternion → matrix algebra.
-/
namespace ImathVerif.Euler
open ImathVerif Matrix

/-! ## decoded order bits as tables (each row checked against the model of `setOrder`/`angleOrder` by `rfl`) -/

theorem Ord.i_table (o : Ord) : o.i = (match o with
    | .XYZ => 0 | .XZY => 0 | .YZX => 1 | .YXZ => 1 | .ZXY => 2 | .ZYX => 2
    | .XZX => 0 | .XYX => 0 | .YXY => 1 | .YZY => 1 | .ZYZ => 2 | .ZXZ => 2
    | .XYZr => 2 | .XZYr => 2 | .YZXr => 1 | .YXZr => 1 | .ZXYr => 0 | .ZYXr => 0
    | .XZXr => 2 | .XYXr => 2 | .YXYr => 1 | .YZYr => 1 | .ZYZr => 0 | .ZXZr => 0    : Fin 3) := by
  cases o <;> rfl

theorem Ord.j_table (o : Ord) : o.j = (match o with
    | .XYZ => 1 | .XZY => 2 | .YZX => 2 | .YXZ => 0 | .ZXY => 0 | .ZYX => 1
    | .XZX => 2 | .XYX => 1 | .YXY => 0 | .YZY => 2 | .ZYZ => 1 | .ZXZ => 0
    | .XYZr => 1 | .XZYr => 0 | .YZXr => 0 | .YXZr => 2 | .ZXYr => 2 | .ZYXr => 1
    | .XZXr => 0 | .XYXr => 1 | .YXYr => 2 | .YZYr => 0 | .ZYZr => 1 | .ZXZr => 2    : Fin 3) := by
  cases o <;> rfl

theorem Ord.k_table (o : Ord) : o.k = (match o with
    | .XYZ => 2 | .XZY => 1 | .YZX => 0 | .YXZ => 2 | .ZXY => 1 | .ZYX => 0
    | .XZX => 1 | .XYX => 2 | .YXY => 2 | .YZY => 0 | .ZYZ => 0 | .ZXZ => 1
    | .XYZr => 0 | .XZYr => 1 | .YZXr => 2 | .YXZr => 0 | .ZXYr => 1 | .ZYXr => 2
    | .XZXr => 1 | .XYXr => 0 | .YXYr => 0 | .YZYr => 2 | .ZYZr => 2 | .ZXZr => 1    : Fin 3) := by
  cases o <;> rfl

theorem Ord.h_table (o : Ord) : o.h = (match o with
    | .XYZ => 2 | .XZY => 1 | .YZX => 0 | .YXZ => 2 | .ZXY => 1 | .ZYX => 0
    | .XZX => 0 | .XYX => 0 | .YXY => 1 | .YZY => 1 | .ZYZ => 2 | .ZXZ => 2
    | .XYZr => 0 | .XZYr => 1 | .YZXr => 2 | .YXZr => 0 | .ZXYr => 1 | .ZYXr => 2
    | .XZXr => 2 | .XYXr => 2 | .YXYr => 1 | .YZYr => 1 | .ZYZr => 0 | .ZXZr => 0    : Fin 3) := by
  cases o <;> rfl

theorem Ord.static_table (o : Ord) : o.static = (match o with
    | .XYZ => true | .XZY => true | .YZX => true | .YXZ => true | .ZXY => true | .ZYX => true
    | .XZX => true | .XYX => true | .YXY => true | .YZY => true | .ZYZ => true | .ZXZ => true
    | .XYZr => false | .XZYr => false | .YZXr => false | .YXZr => false | .ZXYr => false | .ZYXr => false
    | .XZXr => false | .XYXr => false | .YXYr => false | .YZYr => false | .ZYZr => false | .ZXZr => false    : Bool) := by
  cases o <;> rfl

theorem Ord.even_table (o : Ord) : o.even = (match o with
    | .XYZ => true | .XZY => false | .YZX => true | .YXZ => false | .ZXY => true | .ZYX => false
    | .XZX => false | .XYX => true | .YXY => false | .YZY => true | .ZYZ => false | .ZXZ => true
    | .XYZr => false | .XZYr => true | .YZXr => false | .YXZr => true | .ZXYr => false | .ZYXr => true
    | .XZXr => true | .XYXr => false | .YXYr => true | .YZYr => false | .ZYZr => true | .ZXZr => false    : Bool) := by
  cases o <;> rfl

theorem Ord.repeated_table (o : Ord) : o.repeated = (match o with
    | .XYZ => false | .XZY => false | .YZX => false | .YXZ => false | .ZXY => false | .ZYX => false
    | .XZX => true | .XYX => true | .YXY => true | .YZY => true | .ZYZ => true | .ZXZ => true
    | .XYZr => false | .XZYr => false | .YZXr => false | .YXZr => false | .ZXYr => false | .ZYXr => false
    | .XZXr => true | .XYXr => true | .YXYr => true | .YZYr => true | .ZYZr => true | .ZXZr => true    : Bool) := by
  cases o <;> rfl

/-! ## extensionality -/

theorem M33.ext' {α : Type} {a b : M33 α} (h00 : a.x00 = b.x00) (h01 : a.x01 = b.x01) (h02 : a.x02 = b.x02)
    (h10 : a.x10 = b.x10) (h11 : a.x11 = b.x11) (h12 : a.x12 = b.x12)
    (h20 : a.x20 = b.x20) (h21 : a.x21 = b.x21) (h22 : a.x22 = b.x22) : a = b := by
  cases a; cases b; simp_all

theorem M44.ext' {α : Type} {a b : M44 α} (h00 : a.x00 = b.x00) (h01 : a.x01 = b.x01) (h02 : a.x02 = b.x02) (h03 : a.x03 = b.x03)
    (h10 : a.x10 = b.x10) (h11 : a.x11 = b.x11) (h12 : a.x12 = b.x12) (h13 : a.x13 = b.x13)
    (h20 : a.x20 = b.x20) (h21 : a.x21 = b.x21) (h22 : a.x22 = b.x22) (h23 : a.x23 = b.x23)
    (h30 : a.x30 = b.x30) (h31 : a.x31 = b.x31) (h32 : a.x32 = b.x32) (h33 : a.x33 = b.x33) : a = b := by
  cases a; cases b; simp_all

theorem V3.ext' {α : Type} {a b : V3 α} (hx : a.x = b.x) (hy : a.y = b.y) (hz : a.z = b.z) : a = b := by
  cases a; cases b; simp_all

theorem Quat.ext' {α : Type} {a b : Quat α} (hr : a.r = b.r) (hx : a.v.x = b.v.x) (hy : a.v.y = b.v.y) (hz : a.v.z = b.v.z) : a = b := by
  obtain ⟨ar, ⟨ax, ay, az⟩⟩ := a; obtain ⟨br, ⟨bx, b_y, bz⟩⟩ := b; simp_all

theorem M33.toMat_injective {α : Type} : Function.Injective (M33.toMat (α := α)) := by
  intro a b h
  have e := fun i j => congrFun (congrFun h i) j
  have h00 := e 0 0; have h01 := e 0 1; have h02 := e 0 2
  have h10 := e 1 0; have h11 := e 1 1; have h12 := e 1 2
  have h20 := e 2 0; have h21 := e 2 1; have h22 := e 2 2
  simp [M33.toMat] at h00 h01 h02 h10 h11 h12 h20 h21 h22
  exact M33.ext' h00 h01 h02 h10 h11 h12 h20 h21 h22

/-! ## elementary rotations -/

theorem rotAxM_toMat {α : Type} [Zero α] [One α] [Neg α] (ax : Fin 3) (s c : α) : (rotAxM ax s c).toMat = rotAx ax s c := by
  fin_cases ax <;> rfl

theorem mul33_toMat {α : Type} [CommRing α] (a b : M33 α) : (mul33 a b).toMat = a.toMat * b.toMat := by
  ext i j; fin_cases i <;> fin_cases j <;> simp [mul33, M33.toMat, Matrix.mul_apply, Fin.sum_univ_three]

/-- the sign the code gives the angles of an odd-parity order (`angles *= -1.0`) and the matching
    sign of the sine: `sg even (sin (ng even x))` is `sin x` for an odd function `sin` -/
def ng {α : Type} [Mul α] [Neg α] [One α] (even : Bool) (x : α) : α := if even then x else x * (-1)
def sg {α : Type} [Neg α] (even : Bool) (s : α) : α := if even then s else -s
/-- `toQuat` negates only the middle angle, with unary minus -/
def ngq {α : Type} [Neg α] (even : Bool) (x : α) : α := if even then x else -x

theorem sg_sq {α : Type} [CommRing α] (e : Bool) (s c : α) (h : s ^ 2 + c ^ 2 = 1) : (sg e s) ^ 2 + c ^ 2 = 1 := by
  cases e <;> simp [sg, h]

theorem rotAx_mul_transpose {α : Type} [CommRing α] (ax : Fin 3) (s c : α) (h : s ^ 2 + c ^ 2 = 1) :
    rotAx ax s c * (rotAx ax s c)ᵀ = 1 := by
  fin_cases ax <;>
  (ext i j; fin_cases i <;> fin_cases j <;>
    simp [rotAx, Matrix.mul_apply, Fin.sum_univ_three, Matrix.one_apply] <;> first | ring1 | linear_combination h)

theorem rotAx_transpose_mul {α : Type} [CommRing α] (ax : Fin 3) (s c : α) (h : s ^ 2 + c ^ 2 = 1) :
    (rotAx ax s c)ᵀ * rotAx ax s c = 1 := by
  fin_cases ax <;>
  (ext i j; fin_cases i <;> fin_cases j <;>
    simp [rotAx, Matrix.mul_apply, Fin.sum_univ_three, Matrix.one_apply] <;> first | ring1 | linear_combination h)

theorem rotAx_det {α : Type} [CommRing α] (ax : Fin 3) (s c : α) (h : s ^ 2 + c ^ 2 = 1) :
    (rotAx ax s c).det = 1 := by
  fin_cases ax <;> (simp [rotAx, Matrix.det_fin_three] <;> linear_combination h)

/-- a product of three elementary rotations is orthonormal with determinant one -/
theorem eulerMatSC_orthonormal {α : Type} [CommRing α] (o : Ord) (s1 c1 s2 c2 s3 c3 : α)
    (h1 : s1 ^ 2 + c1 ^ 2 = 1) (h2 : s2 ^ 2 + c2 ^ 2 = 1) (h3 : s3 ^ 2 + c3 ^ 2 = 1) :
    eulerMatSC o s1 c1 s2 c2 s3 c3 * (eulerMatSC o s1 c1 s2 c2 s3 c3)ᵀ = 1
    ∧ (eulerMatSC o s1 c1 s2 c2 s3 c3)ᵀ * eulerMatSC o s1 c1 s2 c2 s3 c3 = 1
    ∧ (eulerMatSC o s1 c1 s2 c2 s3 c3).det = 1 := by
  unfold eulerMatSC
  refine ⟨?_, ?_, ?_⟩
  · rw [Matrix.transpose_mul, Matrix.transpose_mul]
    calc rotAx o.i s1 c1 * rotAx o.j s2 c2 * rotAx o.h s3 c3 * ((rotAx o.h s3 c3)ᵀ * ((rotAx o.j s2 c2)ᵀ * (rotAx o.i s1 c1)ᵀ))
        = rotAx o.i s1 c1 * (rotAx o.j s2 c2 * (rotAx o.h s3 c3 * (rotAx o.h s3 c3)ᵀ) * (rotAx o.j s2 c2)ᵀ) * (rotAx o.i s1 c1)ᵀ := by
          simp only [Matrix.mul_assoc]
      _ = 1 := by
          rw [rotAx_mul_transpose _ _ _ h3, Matrix.mul_one, rotAx_mul_transpose _ _ _ h2, Matrix.mul_one, rotAx_mul_transpose _ _ _ h1]
  · rw [Matrix.transpose_mul, Matrix.transpose_mul]
    calc (rotAx o.h s3 c3)ᵀ * ((rotAx o.j s2 c2)ᵀ * (rotAx o.i s1 c1)ᵀ) * (rotAx o.i s1 c1 * rotAx o.j s2 c2 * rotAx o.h s3 c3)
        = (rotAx o.h s3 c3)ᵀ * ((rotAx o.j s2 c2)ᵀ * ((rotAx o.i s1 c1)ᵀ * rotAx o.i s1 c1) * rotAx o.j s2 c2) * rotAx o.h s3 c3 := by
          simp only [Matrix.mul_assoc]
      _ = 1 := by
          rw [rotAx_transpose_mul _ _ _ h1, Matrix.mul_one, rotAx_transpose_mul _ _ _ h2, Matrix.mul_one, rotAx_transpose_mul _ _ _ h3]
  · rw [Matrix.det_mul, Matrix.det_mul, rotAx_det _ _ _ h1, rotAx_det _ _ _ h2, rotAx_det _ _ _ h3]; simp

/-! ## quaternions -/

/-- the homogeneous (degree-2) rotation matrix of a quaternion, row-vector convention -/
def quatHom {α : Type} [CommRing α] (q : Quat α) : Matrix (Fin 3) (Fin 3) α :=
  !![q.r * q.r + q.v.x * q.v.x - q.v.y * q.v.y - q.v.z * q.v.z, 2 * (q.v.x * q.v.y + q.v.z * q.r), 2 * (q.v.z * q.v.x - q.v.y * q.r);
     2 * (q.v.x * q.v.y - q.v.z * q.r), q.r * q.r - q.v.x * q.v.x + q.v.y * q.v.y - q.v.z * q.v.z, 2 * (q.v.y * q.v.z + q.v.x * q.r);
     2 * (q.v.z * q.v.x + q.v.y * q.r), 2 * (q.v.y * q.v.z - q.v.x * q.r), q.r * q.r - q.v.x * q.v.x - q.v.y * q.v.y + q.v.z * q.v.z]

theorem quatHom_qmul {α : Type} [CommRing α] (p q : Quat α) : quatHom (qmul p q) = quatHom q * quatHom p := by
  ext i j; fin_cases i <;> fin_cases j <;>
    simp [quatHom, qmul, Matrix.mul_apply, Fin.sum_univ_three] <;> ring

theorem qnorm2_qmul {α : Type} [CommRing α] (p q : Quat α) : qnorm2 (qmul p q) = qnorm2 p * qnorm2 q := by
  simp only [qnorm2, qmul]; ring

/-- `Quat::toMatrix33` of a UNIT quaternion is the homogeneous form -/
theorem Quat_toMatrix33_eq_hom {α : Type} [CommRing α] (q : Quat α) (h : qnorm2 q = 1) :
    (Gen.Euler.Quat_toMatrix33 q).toMat = quatHom q := by
  simp only [qnorm2] at h
  ext i j; fin_cases i <;> fin_cases j <;>
    simp [Gen.Euler.Quat_toMatrix33, M33.toMat, quatHom] <;> linear_combination (-1 : α) * h

theorem qnorm2_axisQ {α : Type} [CommRing α] (ax : Fin 3) (s c : α) (h : s ^ 2 + c ^ 2 = 1) : qnorm2 (axisQ ax s c) = 1 := by
  fin_cases ax <;> (simp [qnorm2, axisQ] <;> linear_combination h)

/-- the axis quaternion built from the half-angle sine/cosine `(s, c)` is the elementary rotation
    with sine `2 s c` and cosine `c² − s²` -/
theorem quatHom_axisQ {α : Type} [CommRing α] (ax : Fin 3) (s c : α) (h : s ^ 2 + c ^ 2 = 1) :
    quatHom (axisQ ax s c) = rotAx ax (2 * s * c) (c ^ 2 - s ^ 2) := by
  fin_cases ax <;>
  (ext i j; fin_cases i <;> fin_cases j <;> simp [quatHom, axisQ, rotAx] <;> first | ring1 | linear_combination h)

theorem qnorm2_eulerQuatSC {α : Type} [CommRing α] (o : Ord) (s1 c1 s2 c2 s3 c3 : α)
    (h1 : s1 ^ 2 + c1 ^ 2 = 1) (h2 : s2 ^ 2 + c2 ^ 2 = 1) (h3 : s3 ^ 2 + c3 ^ 2 = 1) :
    qnorm2 (eulerQuatSC o s1 c1 s2 c2 s3 c3) = 1 := by
  unfold eulerQuatSC
  rw [qnorm2_qmul, qnorm2_qmul, qnorm2_axisQ _ _ _ h1, qnorm2_axisQ _ _ _ h2, qnorm2_axisQ _ _ _ h3]; simp

/-- `Quat::toMatrix33` of the product of the three axis quaternions is the product of the three
    elementary rotations (half-angle formulas) -/
theorem Quat_toMatrix33_eulerQuatSC {α : Type} [CommRing α] (o : Ord) (s1 c1 s2 c2 s3 c3 : α)
    (h1 : s1 ^ 2 + c1 ^ 2 = 1) (h2 : s2 ^ 2 + c2 ^ 2 = 1) (h3 : s3 ^ 2 + c3 ^ 2 = 1) :
    (Gen.Euler.Quat_toMatrix33 (eulerQuatSC o s1 c1 s2 c2 s3 c3)).toMat
      = eulerMatSC o (2 * s1 * c1) (c1 ^ 2 - s1 ^ 2) (2 * s2 * c2) (c2 ^ 2 - s2 ^ 2) (2 * s3 * c3) (c3 ^ 2 - s3 ^ 2) := by
  rw [Quat_toMatrix33_eq_hom _ (qnorm2_eulerQuatSC o _ _ _ _ _ _ h1 h2 h3)]
  unfold eulerQuatSC eulerMatSC
  rw [quatHom_qmul, quatHom_qmul, quatHom_axisQ _ _ _ h1, quatHom_axisQ _ _ _ h2, quatHom_axisQ _ _ _ h3, Matrix.mul_assoc]

/-! ## tactic: unfold the spec-side tables at a concrete order -/

/-- unfold the spec-side tables at a concrete order -/
macro "ordtabs" : tactic => `(tactic| simp only [mul33, rotAxM, qmul, axisQ, angles, ng, sg, ngq, Ord.i_table, Ord.j_table,
  Ord.h_table, Ord.k_table, Ord.static_table, Ord.even_table, Ord.repeated_table, if_true, if_false, Bool.false_eq_true])

end ImathVerif.Euler
