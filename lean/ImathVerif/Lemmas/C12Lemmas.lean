import ImathVerif.Model.SHRT
import ImathVerif.Spec.MatSpec
import Mathlib.Tactic.Ring
import Mathlib.Tactic.Linarith
import Mathlib.Tactic.FieldSimp
import Mathlib.Tactic.FinCases
import Mathlib.Tactic.SplitIfs
import Mathlib.Tactic.LinearCombination
import Mathlib.Algebra.Order.Field.Basic
import Mathlib.Algebra.Order.Ring.Abs
import Mathlib.LinearAlgebra.Matrix.Determinant.Basic
/-!
# Lemmas for C12 — Gram-Schmidt SHRT extraction (hand model `Model/SHRT.lean`)

Exact arithmetic over an ordered field; `len` is any function with `0 ≤ len v` and
`len v * len v = v·v` (the extracted `Vec::length` with a square-root satisfying its spec).
-/
namespace ImathVerif.SHRT
open Matrix

/-! ## specification-level matrices -/

/-- upper-left 2×2 block of a 2-D homogeneous transform -/
def lin2 {α : Type} (m : M33 α) : Matrix (Fin 2) (Fin 2) α := !![m.x00, m.x01; m.x10, m.x11]
/-- upper-left 3×3 block of a 3-D homogeneous transform -/
def lin3 {α : Type} (m : M44 α) : Matrix (Fin 3) (Fin 3) α :=
  !![m.x00, m.x01, m.x02; m.x10, m.x11, m.x12; m.x20, m.x21, m.x22]
def scaleMat2 {α : Type} [Zero α] (s : V2 α) : Matrix (Fin 2) (Fin 2) α := !![s.x, 0; 0, s.y]
/-- Imath 2-D shear (`Matrix33::setShear (xy)`): `xy` in slot [1][0] -/
def shearMat2 {α : Type} [Zero α] [One α] (h : α) : Matrix (Fin 2) (Fin 2) α := !![1, 0; h, 1]
def scaleMat3 {α : Type} [Zero α] (s : V3 α) : Matrix (Fin 3) (Fin 3) α := !![s.x, 0, 0; 0, s.y, 0; 0, 0, s.z]
/-- Imath 3-D shear (`Matrix44::setShear (Vec3 (xy, xz, yz))`) -/
def shearMat3 {α : Type} [Zero α] [One α] (h : V3 α) : Matrix (Fin 3) (Fin 3) α := !![1, 0, 0; h.x, 1, 0; h.y, h.z, 1]

/-- hypothesis on the length function: the non-negative square root of `v·v` -/
def LenSpec2 {α : Type} [Field α] [LinearOrder α] (len : V2 α → α) : Prop :=
  ∀ v, 0 ≤ len v ∧ len v * len v = dot2 v v
def LenSpec3 {α : Type} [Field α] [LinearOrder α] (len : V3 α → α) : Prop :=
  ∀ v, 0 ≤ len v ∧ len v * len v = dot3 v v

section field
set_option linter.unusedSectionVars false
variable {α : Type} [Field α] [LinearOrder α] [IsStrictOrderedRing α]

theorem sabs_eq_abs (a : α) : sabs a = |a| := by
  unfold sabs
  split_ifs with h
  · exact (abs_of_pos h).symm
  · exact (abs_of_nonpos (not_lt.mp h)).symm

/-- the guard fires for a zero scale, whatever the row: a zero scale is never "removed" -/
theorem tooSmall_zero (tmax x : α) : tooSmall tmax (0 : α) x = true := by
  simp [tooSmall, sabs_eq_abs]

theorem checkRow2_ne_zero {tmax scl : α} {row : V2 α} (h : checkRow2 tmax scl row = true) : scl ≠ 0 := by
  rintro rfl
  simp [checkRow2, tooSmall_zero] at h

theorem checkRow3_ne_zero {tmax scl : α} {row : V3 α} (h : checkRow3 tmax scl row = true) : scl ≠ 0 := by
  rintro rfl
  simp [checkRow3, tooSmall_zero] at h

/-! ## vector algebra -/

@[simp] theorem dot2_divS_left (a b : V2 α) (s : α) : dot2 (V2.divS a s) b = dot2 a b / s := by
  simp only [dot2, V2.divS]; ring
@[simp] theorem dot2_divS_right (a b : V2 α) (s : α) : dot2 a (V2.divS b s) = dot2 a b / s := by
  simp only [dot2, V2.divS]; ring
@[simp] theorem dot2_subSmul_right (a b c : V2 α) (h : α) : dot2 a (V2.subSmul b h c) = dot2 a b - h * dot2 a c := by
  simp only [dot2, V2.subSmul]; ring
@[simp] theorem dot2_subSmul_left (a b c : V2 α) (h : α) : dot2 (V2.subSmul b h c) a = dot2 b a - h * dot2 c a := by
  simp only [dot2, V2.subSmul]; ring
theorem dot2_comm (a b : V2 α) : dot2 a b = dot2 b a := by simp only [dot2]; ring

@[simp] theorem dot3_divS_left (a b : V3 α) (s : α) : dot3 (V3.divS a s) b = dot3 a b / s := by
  simp only [dot3, V3.divS]; ring
@[simp] theorem dot3_divS_right (a b : V3 α) (s : α) : dot3 a (V3.divS b s) = dot3 a b / s := by
  simp only [dot3, V3.divS]; ring
@[simp] theorem dot3_subSmul_right (a b c : V3 α) (h : α) : dot3 a (V3.subSmul b h c) = dot3 a b - h * dot3 a c := by
  simp only [dot3, V3.subSmul]; ring
@[simp] theorem dot3_subSmul_left (a b c : V3 α) (h : α) : dot3 (V3.subSmul b h c) a = dot3 b a - h * dot3 c a := by
  simp only [dot3, V3.subSmul]; ring
theorem dot3_comm (a b : V3 α) : dot3 a b = dot3 b a := by simp only [dot3]; ring

/-! ## 2-D Gram-Schmidt -/

/-- what `gs2` returns, in closed form -/
theorem gs2_some {tmax : α} {len : V2 α → α} {a0 a1 : V2 α} {g : GS2 α} (h : gs2 tmax len a0 a1 = some g) :
    len a0 ≠ 0 ∧ len (V2.subSmul a1 (dot2 (V2.divS a0 (len a0)) a1) (V2.divS a0 (len a0))) ≠ 0 ∧
    g = ⟨V2.divS a0 (len a0),
         V2.divS (V2.subSmul a1 (dot2 (V2.divS a0 (len a0)) a1) (V2.divS a0 (len a0)))
           (len (V2.subSmul a1 (dot2 (V2.divS a0 (len a0)) a1) (V2.divS a0 (len a0)))),
         ⟨len a0, len (V2.subSmul a1 (dot2 (V2.divS a0 (len a0)) a1) (V2.divS a0 (len a0)))⟩,
         dot2 (V2.divS a0 (len a0)) a1 / len (V2.subSmul a1 (dot2 (V2.divS a0 (len a0)) a1) (V2.divS a0 (len a0)))⟩ := by
  simp only [gs2] at h
  split_ifs at h with h1 h2
  simp only [Bool.not_eq_true', Bool.not_eq_false] at h1 h2
  simp only [Option.some.injEq] at h
  exact ⟨checkRow2_ne_zero h1, checkRow2_ne_zero h2, h.symm⟩

/-- rows returned by `gs2` are orthonormal; the inputs are recovered from scale, shear and rows -/
theorem gs2_spec {tmax : α} {len : V2 α → α} (hlen : LenSpec2 len) {a0 a1 : V2 α} {g : GS2 α}
    (h : gs2 tmax len a0 a1 = some g) :
    dot2 g.r0 g.r0 = 1 ∧ dot2 g.r0 g.r1 = 0 ∧ dot2 g.r1 g.r1 = 1 ∧ g.scl.x ≠ 0 ∧ g.scl.y ≠ 0 ∧
    0 < g.scl.x ∧ 0 < g.scl.y ∧
    a0 = ⟨g.scl.x * g.r0.x, g.scl.x * g.r0.y⟩ ∧
    a1 = ⟨g.scl.y * (g.shr * g.r0.x + g.r1.x), g.scl.y * (g.shr * g.r0.y + g.r1.y)⟩ := by
  obtain ⟨hx, hy, rfl⟩ := gs2_some h
  set sx := len a0 with hsx
  set r0 := V2.divS a0 sx with hr0
  set h0 := dot2 r0 a1 with hh0
  set b1 := V2.subSmul a1 h0 r0 with hb1
  set sy := len b1 with hsy
  have e00 : dot2 r0 r0 = 1 := by
    have e := (hlen a0).2
    rw [← hsx] at e
    rw [hr0, dot2_divS_left, dot2_divS_right, ← e]
    field_simp
  have e01 : dot2 r0 b1 = 0 := by
    rw [hb1, dot2_subSmul_right, e00]; ring
  have e11 : dot2 b1 b1 = sy * sy := by
    have e := (hlen b1).2
    rw [← hsy] at e
    exact e.symm
  refine ⟨e00, ?_, ?_, hx, hy, lt_of_le_of_ne (hlen a0).1 (Ne.symm hx), lt_of_le_of_ne (hlen b1).1 (Ne.symm hy), ?_, ?_⟩
  · show dot2 r0 (V2.divS b1 sy) = 0
    rw [dot2_divS_right, e01]; simp
  · show dot2 (V2.divS b1 sy) (V2.divS b1 sy) = 1
    rw [dot2_divS_left, dot2_divS_right, e11]; field_simp
  · show a0 = ⟨sx * (V2.divS a0 sx).x, sx * (V2.divS a0 sx).y⟩
    cases a0; simp only [V2.divS]; congr 1 <;> field_simp
  · show a1 = ⟨sy * (h0 / sy * r0.x + (V2.divS b1 sy).x), sy * (h0 / sy * r0.y + (V2.divS b1 sy).y)⟩
    cases a1
    simp only [V2.divS, hb1, V2.subSmul]
    congr 1 <;> field_simp <;> ring

/-- the flip keeps orthonormality and the recomposition, and makes the determinant non-negative -/
theorem flip2_spec (g : GS2 α) :
    dot2 (flip2 g).r0 (flip2 g).r0 = dot2 g.r0 g.r0 ∧
    dot2 (flip2 g).r0 (flip2 g).r1 * dot2 (flip2 g).r0 (flip2 g).r1 = dot2 g.r0 g.r1 * dot2 g.r0 g.r1 ∧
    dot2 (flip2 g).r1 (flip2 g).r1 = dot2 g.r1 g.r1 ∧ (flip2 g).r0 = g.r0 ∧ (flip2 g).scl.x = g.scl.x ∧
    (flip2 g).scl.y * ((flip2 g).shr * (flip2 g).r0.x + (flip2 g).r1.x) = g.scl.y * (g.shr * g.r0.x + g.r1.x) ∧
    (flip2 g).scl.y * ((flip2 g).shr * (flip2 g).r0.y + (flip2 g).r1.y) = g.scl.y * (g.shr * g.r0.y + g.r1.y) ∧
    0 ≤ (flip2 g).r0.x * (flip2 g).r1.y - (flip2 g).r0.y * (flip2 g).r1.x ∧
    ((flip2 g).scl.y = g.scl.y ∨ (flip2 g).scl.y = -g.scl.y) := by
  by_cases hd : g.r0.x * g.r1.y - g.r0.y * g.r1.x < 0
  · have e : flip2 g = ⟨g.r0, ⟨g.r1.x * (-1), g.r1.y * (-1)⟩, ⟨g.scl.x, g.scl.y * (-1)⟩, g.shr * (-1)⟩ := by
      simp only [flip2, if_pos hd]
    rw [e]
    refine ⟨rfl, ?_, ?_, rfl, rfl, ?_, ?_, ?_, Or.inr ?_⟩
    · simp only [dot2]; ring
    · simp only [dot2]; ring
    · ring
    · ring
    · have : g.r0.x * (g.r1.y * -1) - g.r0.y * (g.r1.x * -1) = -(g.r0.x * g.r1.y - g.r0.y * g.r1.x) := by ring
      rw [this]; linarith
    · ring
  · have e : flip2 g = g := by simp only [flip2, if_neg hd]
    rw [e]
    exact ⟨rfl, rfl, rfl, rfl, rfl, rfl, rfl, not_lt.mp hd, Or.inl rfl⟩

theorem normRows2_some {tmax maxVal : α} {r0 r1 a0 a1 : V2 α} (h : normRows2 tmax maxVal r0 r1 = some (a0, a1)) :
    (maxVal ≠ 0 ∧ a0 = V2.divS r0 maxVal ∧ a1 = V2.divS r1 maxVal) ∨ (maxVal = 0 ∧ a0 = r0 ∧ a1 = r1) := by
  simp only [normRows2] at h
  split_ifs at h with h0 h1 h2
  · simp only [Option.some.injEq, Prod.mk.injEq] at h
    left; exact ⟨by simpa using h0, h.1.symm, h.2.symm⟩
  · simp only [Option.some.injEq, Prod.mk.injEq] at h
    right; exact ⟨by simpa using h0, h.1.symm, h.2.symm⟩

/-- `maxAbs2` is zero only when all four entries are zero -/
theorem upd_nonneg {m x : α} (hm : 0 ≤ m) : 0 ≤ upd m x := by
  unfold upd; split_ifs <;> simp [sabs_eq_abs, hm]
theorem upd_eq_zero {m x : α} (hm : 0 ≤ m) (h : upd m x = 0) : m = 0 ∧ x = 0 := by
  unfold upd at h
  rw [sabs_eq_abs] at h
  split_ifs at h with hlt
  · have hx : x = 0 := abs_eq_zero.mp h
    subst hx; simp at hlt; exact absurd hlt (not_lt.mpr hm)
  · subst h
    have : |x| ≤ 0 := not_lt.mp hlt
    exact ⟨rfl, abs_eq_zero.mp (le_antisymm this (abs_nonneg x))⟩

theorem maxAbs2_eq_zero {r0 r1 : V2 α} (h : maxAbs2 r0 r1 = 0) : r0 = ⟨0, 0⟩ ∧ r1 = ⟨0, 0⟩ := by
  unfold maxAbs2 at h
  have n0 : (0 : α) ≤ 0 := le_refl _
  have n1 := upd_nonneg (x := r0.x) n0
  have n2 := upd_nonneg (x := r0.y) n1
  have n3 := upd_nonneg (x := r1.x) n2
  obtain ⟨h3, e4⟩ := upd_eq_zero n3 h
  obtain ⟨h2, e3⟩ := upd_eq_zero n2 h3
  obtain ⟨h1, e2⟩ := upd_eq_zero n1 h2
  obtain ⟨_, e1⟩ := upd_eq_zero n0 h1
  cases r0; cases r1; simp_all

theorem maxAbs3_eq_zero {r0 r1 r2 : V3 α} (h : maxAbs3 r0 r1 r2 = 0) :
    r0 = ⟨0, 0, 0⟩ ∧ r1 = ⟨0, 0, 0⟩ ∧ r2 = ⟨0, 0, 0⟩ := by
  unfold maxAbs3 at h
  have n0 : (0 : α) ≤ 0 := le_refl _
  have n1 := upd_nonneg (x := r0.x) n0
  have n2 := upd_nonneg (x := r0.y) n1
  have n3 := upd_nonneg (x := r0.z) n2
  have n4 := upd_nonneg (x := r1.x) n3
  have n5 := upd_nonneg (x := r1.y) n4
  have n6 := upd_nonneg (x := r1.z) n5
  have n7 := upd_nonneg (x := r2.x) n6
  have n8 := upd_nonneg (x := r2.y) n7
  obtain ⟨h8, e9⟩ := upd_eq_zero n8 h
  obtain ⟨h7, e8⟩ := upd_eq_zero n7 h8
  obtain ⟨h6, e7⟩ := upd_eq_zero n6 h7
  obtain ⟨h5, e6⟩ := upd_eq_zero n5 h6
  obtain ⟨h4, e5⟩ := upd_eq_zero n4 h5
  obtain ⟨h3, e4⟩ := upd_eq_zero n3 h4
  obtain ⟨h2, e3⟩ := upd_eq_zero n2 h3
  obtain ⟨h1, e2⟩ := upd_eq_zero n1 h2
  obtain ⟨_, e1⟩ := upd_eq_zero n0 h1
  cases r0; cases r1; cases r2; simp_all

/-! ## 2-D: the whole function -/

theorem ear33_some {tmax : α} {len : V2 α → α} {m : M33 α} {r : Res2 α} (h : ear33 tmax len m = some r) :
    ∃ a0 a1 g, normRows2 tmax (maxAbs2 ⟨m.x00, m.x01⟩ ⟨m.x10, m.x11⟩) ⟨m.x00, m.x01⟩ ⟨m.x10, m.x11⟩ = some (a0, a1) ∧
      gs2 tmax len a0 a1 = some g ∧
      r = ⟨⟨(flip2 g).r0.x, (flip2 g).r0.y, m.x02, (flip2 g).r1.x, (flip2 g).r1.y, m.x12, m.x20, m.x21, m.x22⟩,
           V2.mulS (flip2 g).scl (maxAbs2 ⟨m.x00, m.x01⟩ ⟨m.x10, m.x11⟩), (flip2 g).shr⟩ := by
  unfold ear33 at h
  simp only at h
  split at h
  · exact absurd h (by simp)
  · rename_i a0 a1 hn
    split at h
    · exact absurd h (by simp)
    · rename_i g hg
      exact ⟨a0, a1, g, hn, hg, by simpa using h.symm⟩

theorem ear33_spec {tmax : α} {len : V2 α → α} (hlen : LenSpec2 len) {m : M33 α} {r : Res2 α}
    (h : ear33 tmax len m = some r) :
    scaleMat2 r.scl * shearMat2 r.shr * lin2 r.m = lin2 m ∧
    lin2 r.m * (lin2 r.m)ᵀ = 1 ∧ (lin2 r.m).det = 1 ∧
    r.m.x02 = m.x02 ∧ r.m.x12 = m.x12 ∧ r.m.x20 = m.x20 ∧ r.m.x21 = m.x21 ∧ r.m.x22 = m.x22 ∧
    0 < r.scl.x ∧ r.scl.y ≠ 0 := by
  obtain ⟨a0, a1, g, hn, hg, rfl⟩ := ear33_some h
  obtain ⟨e00, e01, e11, hx, hy, px, py, ha0, ha1⟩ := gs2_spec hlen hg
  obtain ⟨f00, f01, f11, fr0, fsx, fa1x, fa1y, fdet, fsy⟩ := flip2_spec g
  set f := flip2 g with hf
  set mv := maxAbs2 (⟨m.x00, m.x01⟩ : V2 α) ⟨m.x10, m.x11⟩ with hmv
  -- maxVal ≠ 0: otherwise the rows are zero and the X scale is 0
  have hmv0 : mv ≠ 0 := by
    rcases normRows2_some hn with ⟨h0, _, _⟩ | ⟨h0, e0, _⟩
    · exact h0
    · exfalso
      have hz := (maxAbs2_eq_zero h0).1
      rw [e0, hz] at ha0
      have hx0 := congrArg V2.x ha0
      have hy0 := congrArg V2.y ha0
      simp only at hx0 hy0
      have a := (mul_eq_zero.mp hx0.symm).resolve_left hx
      have b := (mul_eq_zero.mp hy0.symm).resolve_left hx
      simp [dot2, a, b] at e00
  have hmvpos : 0 < mv := lt_of_le_of_ne (by
    rw [hmv]; unfold maxAbs2
    exact upd_nonneg (upd_nonneg (upd_nonneg (upd_nonneg (le_refl _))))) (Ne.symm hmv0)
  rcases normRows2_some hn with ⟨_, e0, e1⟩ | ⟨h0, _, _⟩
  swap
  · exact absurd h0 hmv0
  have r00 : m.x00 = mv * (g.scl.x * g.r0.x) := by
    have := congrArg V2.x ha0; rw [e0] at this; simp only [V2.divS] at this
    field_simp at this; linarith
  have r01 : m.x01 = mv * (g.scl.x * g.r0.y) := by
    have := congrArg V2.y ha0; rw [e0] at this; simp only [V2.divS] at this
    field_simp at this; linarith
  have r10 : m.x10 = mv * (g.scl.y * (g.shr * g.r0.x + g.r1.x)) := by
    have := congrArg V2.x ha1; rw [e1] at this; simp only [V2.divS] at this
    field_simp at this; linarith
  have r11 : m.x11 = mv * (g.scl.y * (g.shr * g.r0.y + g.r1.y)) := by
    have := congrArg V2.y ha1; rw [e1] at this; simp only [V2.divS] at this
    field_simp at this; linarith
  have d01 : dot2 f.r0 f.r1 = 0 := by
    have : dot2 f.r0 f.r1 * dot2 f.r0 f.r1 = 0 := by rw [f01, e01]; ring
    exact mul_self_eq_zero.mp this
  have d00 : dot2 f.r0 f.r0 = 1 := by rw [f00, e00]
  have d11 : dot2 f.r1 f.r1 = 1 := by rw [f11, e11]
  simp only [dot2] at d00 d01 d11
  have hdet : f.r0.x * f.r1.y - f.r0.y * f.r1.x = 1 := by
    have sq : (f.r0.x * f.r1.y - f.r0.y * f.r1.x) * (f.r0.x * f.r1.y - f.r0.y * f.r1.x) = 1 := by
      have e : (f.r0.x * f.r1.y - f.r0.y * f.r1.x) * (f.r0.x * f.r1.y - f.r0.y * f.r1.x) =
          (f.r0.x * f.r0.x + f.r0.y * f.r0.y) * (f.r1.x * f.r1.x + f.r1.y * f.r1.y) -
          (f.r0.x * f.r1.x + f.r0.y * f.r1.y) * (f.r0.x * f.r1.x + f.r0.y * f.r1.y) := by ring
      rw [e, d00, d11, d01]; ring
    have := mul_self_eq_one_iff.mp sq
    rcases this with h1 | h1
    · exact h1
    · rw [h1] at fdet; linarith
  refine ⟨?_, ?_, ?_, rfl, rfl, rfl, rfl, rfl, ?_, ?_⟩
  · ext i j
    fin_cases i <;> fin_cases j <;>
      simp [scaleMat2, shearMat2, lin2, V2.mulS, Matrix.mul_apply, Fin.sum_univ_two]
    · rw [r00, fsx, fr0]; ring
    · rw [r01, fsx, fr0]; ring
    · rw [r10, ← fa1x]; ring
    · rw [r11, ← fa1y]; ring
  · ext i j
    fin_cases i <;> fin_cases j <;>
      simp [lin2, Matrix.mul_apply, Fin.sum_univ_two, Matrix.transpose_apply]
    · linarith
    · linarith
    · linarith
    · linarith
  · simp [lin2, Matrix.det_fin_two]; linarith
  · show 0 < f.scl.x * mv
    rw [fsx]; exact mul_pos px hmvpos
  · show f.scl.y * mv ≠ 0
    rcases fsy with e | e <;> rw [e]
    · exact mul_ne_zero hy hmv0
    · exact mul_ne_zero (neg_ne_zero.mpr hy) hmv0

/-! ## 3-D -/

theorem gs3_spec {tmax : α} {len : V3 α → α} (hlen : LenSpec3 len) {a0 a1 a2 : V3 α} {g : GS3 α}
    (h : gs3 tmax len a0 a1 a2 = some g) :
    dot3 g.r0 g.r0 = 1 ∧ dot3 g.r1 g.r1 = 1 ∧ dot3 g.r2 g.r2 = 1 ∧
    dot3 g.r0 g.r1 = 0 ∧ dot3 g.r0 g.r2 = 0 ∧ dot3 g.r1 g.r2 = 0 ∧
    0 < g.scl.x ∧ 0 < g.scl.y ∧ 0 < g.scl.z ∧
    a0 = ⟨g.scl.x * g.r0.x, g.scl.x * g.r0.y, g.scl.x * g.r0.z⟩ ∧
    a1 = ⟨g.scl.y * (g.shr.x * g.r0.x + g.r1.x), g.scl.y * (g.shr.x * g.r0.y + g.r1.y),
          g.scl.y * (g.shr.x * g.r0.z + g.r1.z)⟩ ∧
    a2 = ⟨g.scl.z * (g.shr.y * g.r0.x + g.shr.z * g.r1.x + g.r2.x),
          g.scl.z * (g.shr.y * g.r0.y + g.shr.z * g.r1.y + g.r2.y),
          g.scl.z * (g.shr.y * g.r0.z + g.shr.z * g.r1.z + g.r2.z)⟩ := by
  simp only [gs3] at h
  split_ifs at h with c1 c2 c3
  simp only [Bool.not_eq_true', Bool.not_eq_false] at c1 c2 c3
  simp only [Option.some.injEq] at h
  subst h
  have hx := checkRow3_ne_zero c1
  have hy := checkRow3_ne_zero c2
  have hz := checkRow3_ne_zero c3
  set sx := len a0 with hsx
  set r0 := V3.divS a0 sx with hr0
  set h0 := dot3 r0 a1 with hh0
  set b1 := V3.subSmul a1 h0 r0 with hb1
  set sy := len b1 with hsy
  set r1 := V3.divS b1 sy with hr1
  set h1 := dot3 r0 a2 with hh1
  set b2 := V3.subSmul a2 h1 r0 with hb2
  set h2 := dot3 r1 b2 with hh2
  set c2v := V3.subSmul b2 h2 r1 with hc2
  set sz := len c2v with hsz
  have l0 : sx * sx = dot3 a0 a0 := by have e := (hlen a0).2; rwa [← hsx] at e
  have l1 : sy * sy = dot3 b1 b1 := by have e := (hlen b1).2; rwa [← hsy] at e
  have l2 : sz * sz = dot3 c2v c2v := by have e := (hlen c2v).2; rwa [← hsz] at e
  have e00 : dot3 r0 r0 = 1 := by
    rw [hr0, dot3_divS_left, dot3_divS_right, ← l0]; field_simp
  have e0b1 : dot3 r0 b1 = 0 := by rw [hb1, dot3_subSmul_right, e00]; ring
  have e11 : dot3 r1 r1 = 1 := by
    rw [hr1, dot3_divS_left, dot3_divS_right, ← l1]; field_simp
  have e01 : dot3 r0 r1 = 0 := by rw [hr1, dot3_divS_right, e0b1]; simp
  have e10 : dot3 r1 r0 = 0 := by rw [dot3_comm, e01]
  have e0b2 : dot3 r0 b2 = 0 := by rw [hb2, dot3_subSmul_right, e00]; ring
  have e0c2 : dot3 r0 c2v = 0 := by rw [hc2, dot3_subSmul_right, e0b2, e01]; ring
  have e1c2 : dot3 r1 c2v = 0 := by rw [hc2, dot3_subSmul_right, e11]; ring
  refine ⟨e00, e11, ?_, e01, ?_, ?_, lt_of_le_of_ne (hlen a0).1 (Ne.symm hx), lt_of_le_of_ne (hlen b1).1 (Ne.symm hy),
    lt_of_le_of_ne (hlen c2v).1 (Ne.symm hz), ?_, ?_, ?_⟩
  · show dot3 (V3.divS c2v sz) (V3.divS c2v sz) = 1
    rw [dot3_divS_left, dot3_divS_right, ← l2]; field_simp
  · show dot3 r0 (V3.divS c2v sz) = 0
    rw [dot3_divS_right, e0c2]; simp
  · show dot3 r1 (V3.divS c2v sz) = 0
    rw [dot3_divS_right, e1c2]; simp
  · show a0 = ⟨sx * (V3.divS a0 sx).x, sx * (V3.divS a0 sx).y, sx * (V3.divS a0 sx).z⟩
    cases a0; simp only [V3.divS]; congr 1 <;> field_simp
  · show a1 = ⟨sy * (h0 / sy * r0.x + (V3.divS b1 sy).x), sy * (h0 / sy * r0.y + (V3.divS b1 sy).y),
        sy * (h0 / sy * r0.z + (V3.divS b1 sy).z)⟩
    cases a1
    simp only [V3.divS, hb1, V3.subSmul]
    congr 1 <;> field_simp <;> ring
  · show a2 = ⟨sz * (h1 / sz * r0.x + h2 / sz * r1.x + (V3.divS c2v sz).x),
        sz * (h1 / sz * r0.y + h2 / sz * r1.y + (V3.divS c2v sz).y),
        sz * (h1 / sz * r0.z + h2 / sz * r1.z + (V3.divS c2v sz).z)⟩
    cases a2
    simp only [V3.divS, hc2, hb2, V3.subSmul]
    congr 1 <;> field_simp <;> ring

theorem flip3_cases (g : GS3 α) :
    (dot3 g.r0 (cross3 g.r1 g.r2) < 0 ∧
      flip3 g = ⟨V3.mulS g.r0 (-1), V3.mulS g.r1 (-1), V3.mulS g.r2 (-1), V3.mulS g.scl (-1), g.shr⟩) ∨
    (0 ≤ dot3 g.r0 (cross3 g.r1 g.r2) ∧ flip3 g = g) := by
  by_cases hd : dot3 g.r0 (cross3 g.r1 g.r2) < 0
  · left; exact ⟨hd, by simp only [flip3, if_pos hd]⟩
  · right; exact ⟨not_lt.mp hd, by simp only [flip3, if_neg hd]⟩

theorem normRows3_some {tmax maxVal : α} {r0 r1 r2 a0 a1 a2 : V3 α}
    (h : normRows3 tmax maxVal r0 r1 r2 = some (a0, a1, a2)) :
    (maxVal ≠ 0 ∧ a0 = V3.divS r0 maxVal ∧ a1 = V3.divS r1 maxVal ∧ a2 = V3.divS r2 maxVal) ∨
    (maxVal = 0 ∧ a0 = r0 ∧ a1 = r1 ∧ a2 = r2) := by
  simp only [normRows3] at h
  split_ifs at h with h0 h1 h2 h3
  · simp only [Option.some.injEq, Prod.mk.injEq] at h
    left; exact ⟨by simpa using h0, h.1.symm, h.2.1.symm, h.2.2.symm⟩
  · simp only [Option.some.injEq, Prod.mk.injEq] at h
    right; exact ⟨by simpa using h0, h.1.symm, h.2.1.symm, h.2.2.symm⟩

theorem ear44_some {tmax : α} {len : V3 α → α} {m : M44 α} {r : Res3 α} (h : ear44 tmax len m = some r) :
    ∃ a0 a1 a2 g,
      normRows3 tmax (maxAbs3 ⟨m.x00, m.x01, m.x02⟩ ⟨m.x10, m.x11, m.x12⟩ ⟨m.x20, m.x21, m.x22⟩)
        ⟨m.x00, m.x01, m.x02⟩ ⟨m.x10, m.x11, m.x12⟩ ⟨m.x20, m.x21, m.x22⟩ = some (a0, a1, a2) ∧
      gs3 tmax len a0 a1 a2 = some g ∧
      r = ⟨⟨(flip3 g).r0.x, (flip3 g).r0.y, (flip3 g).r0.z, m.x03, (flip3 g).r1.x, (flip3 g).r1.y, (flip3 g).r1.z, m.x13,
            (flip3 g).r2.x, (flip3 g).r2.y, (flip3 g).r2.z, m.x23, m.x30, m.x31, m.x32, m.x33⟩,
           V3.mulS (flip3 g).scl (maxAbs3 ⟨m.x00, m.x01, m.x02⟩ ⟨m.x10, m.x11, m.x12⟩ ⟨m.x20, m.x21, m.x22⟩),
           (flip3 g).shr⟩ := by
  unfold ear44 at h
  simp only at h
  split at h
  · exact absurd h (by simp)
  · rename_i a0 a1 a2 hn
    split at h
    · exact absurd h (by simp)
    · rename_i g hg
      exact ⟨a0, a1, a2, g, hn, hg, by simpa using h.symm⟩

/-- `row0 · (row1 × row2)` is the determinant of the matrix with these rows -/
theorem dot_cross_eq_det (a b c : V3 α) :
    dot3 a (cross3 b c) = (!![a.x, a.y, a.z; b.x, b.y, b.z; c.x, c.y, c.z] : Matrix (Fin 3) (Fin 3) α).det := by
  simp [dot3, cross3, Matrix.det_fin_three]; ring

/-- a 3×3 matrix with orthonormal rows and non-negative determinant has determinant 1 -/
theorem det_eq_one_of_orthonormal (R : Matrix (Fin 3) (Fin 3) α) (h : R * Rᵀ = 1) (hd : 0 ≤ R.det) : R.det = 1 := by
  have : R.det * R.det = 1 := by
    have := congrArg Matrix.det h
    rwa [Matrix.det_mul, Matrix.det_transpose, Matrix.det_one] at this
  rcases mul_self_eq_one_iff.mp this with h1 | h1
  · exact h1
  · rw [h1] at hd; linarith

theorem ear44_spec {tmax : α} {len : V3 α → α} (hlen : LenSpec3 len) {m : M44 α} {r : Res3 α}
    (h : ear44 tmax len m = some r) :
    scaleMat3 r.scl * shearMat3 r.shr * lin3 r.m = lin3 m ∧
    lin3 r.m * (lin3 r.m)ᵀ = 1 ∧ (lin3 r.m).det = 1 ∧
    r.m.x03 = m.x03 ∧ r.m.x13 = m.x13 ∧ r.m.x23 = m.x23 ∧
    r.m.x30 = m.x30 ∧ r.m.x31 = m.x31 ∧ r.m.x32 = m.x32 ∧ r.m.x33 = m.x33 ∧
    r.scl.x ≠ 0 ∧ r.scl.y ≠ 0 ∧ r.scl.z ≠ 0 := by
  obtain ⟨a0, a1, a2, g, hn, hg, rfl⟩ := ear44_some h
  obtain ⟨e00, e11, e22, e01, e02, e12, px, py, pz, ha0, ha1, ha2⟩ := gs3_spec hlen hg
  set mv := maxAbs3 (⟨m.x00, m.x01, m.x02⟩ : V3 α) ⟨m.x10, m.x11, m.x12⟩ ⟨m.x20, m.x21, m.x22⟩ with hmv
  have hmv0 : mv ≠ 0 := by
    rcases normRows3_some hn with ⟨h0, _, _⟩ | ⟨h0, e0, _⟩
    · exact h0
    · exfalso
      have hz := (maxAbs3_eq_zero h0).1
      rw [e0, hz] at ha0
      have hx0 := congrArg V3.x ha0
      have hy0 := congrArg V3.y ha0
      have hz0 := congrArg V3.z ha0
      simp only at hx0 hy0 hz0
      have a := (mul_eq_zero.mp hx0.symm).resolve_left (ne_of_gt px)
      have b := (mul_eq_zero.mp hy0.symm).resolve_left (ne_of_gt px)
      have c := (mul_eq_zero.mp hz0.symm).resolve_left (ne_of_gt px)
      simp [dot3, a, b, c] at e00
  rcases normRows3_some hn with ⟨_, e0, e1, e2⟩ | ⟨h0, _, _⟩
  swap
  · exact absurd h0 hmv0
  rw [e0] at ha0; rw [e1] at ha1; rw [e2] at ha2
  simp only [V3.divS, V3.mk.injEq] at ha0 ha1 ha2
  obtain ⟨a00, a01, a02⟩ := ha0
  obtain ⟨a10, a11, a12⟩ := ha1
  obtain ⟨a20, a21, a22⟩ := ha2
  rw [div_eq_iff hmv0] at a00 a01 a02 a10 a11 a12 a20 a21 a22
  simp only [dot3] at e00 e11 e22 e01 e02 e12
  have hdetg := dot_cross_eq_det g.r0 g.r1 g.r2
  rcases flip3_cases g with ⟨hd, hf⟩ | ⟨hd, hf⟩
  · -- flipped: every row and every scale negated
    rw [hf]
    have hR : lin3 (⟨(V3.mulS g.r0 (-1)).x, (V3.mulS g.r0 (-1)).y, (V3.mulS g.r0 (-1)).z, m.x03,
        (V3.mulS g.r1 (-1)).x, (V3.mulS g.r1 (-1)).y, (V3.mulS g.r1 (-1)).z, m.x13,
        (V3.mulS g.r2 (-1)).x, (V3.mulS g.r2 (-1)).y, (V3.mulS g.r2 (-1)).z, m.x23, m.x30, m.x31, m.x32, m.x33⟩ : M44 α) *
        (lin3 (⟨(V3.mulS g.r0 (-1)).x, (V3.mulS g.r0 (-1)).y, (V3.mulS g.r0 (-1)).z, m.x03,
        (V3.mulS g.r1 (-1)).x, (V3.mulS g.r1 (-1)).y, (V3.mulS g.r1 (-1)).z, m.x13,
        (V3.mulS g.r2 (-1)).x, (V3.mulS g.r2 (-1)).y, (V3.mulS g.r2 (-1)).z, m.x23, m.x30, m.x31, m.x32, m.x33⟩ : M44 α))ᵀ = 1 := by
      ext i j
      fin_cases i <;> fin_cases j <;>
        simp [lin3, V3.mulS, Matrix.mul_apply, Fin.sum_univ_three, Matrix.transpose_apply] <;> linarith
    refine ⟨?_, hR, ?_, rfl, rfl, rfl, rfl, rfl, rfl, rfl, ?_, ?_, ?_⟩
    · ext i j
      fin_cases i <;> fin_cases j <;>
        simp [scaleMat3, shearMat3, lin3, V3.mulS, Matrix.mul_apply, Fin.sum_univ_three]
      · rw [a00]; ring
      · rw [a01]; ring
      · rw [a02]; ring
      · rw [a10]; ring
      · rw [a11]; ring
      · rw [a12]; ring
      · rw [a20]; ring
      · rw [a21]; ring
      · rw [a22]; ring
    · apply det_eq_one_of_orthonormal _ hR
      have : (lin3 (⟨(V3.mulS g.r0 (-1)).x, (V3.mulS g.r0 (-1)).y, (V3.mulS g.r0 (-1)).z, m.x03,
        (V3.mulS g.r1 (-1)).x, (V3.mulS g.r1 (-1)).y, (V3.mulS g.r1 (-1)).z, m.x13,
        (V3.mulS g.r2 (-1)).x, (V3.mulS g.r2 (-1)).y, (V3.mulS g.r2 (-1)).z, m.x23, m.x30, m.x31, m.x32, m.x33⟩ : M44 α)).det =
          -dot3 g.r0 (cross3 g.r1 g.r2) := by
        simp [lin3, V3.mulS, Matrix.det_fin_three, dot3, cross3]; ring
      rw [this]; linarith
    · show g.scl.x * -1 * mv ≠ 0
      exact mul_ne_zero (mul_ne_zero (ne_of_gt px) (by norm_num)) hmv0
    · show g.scl.y * -1 * mv ≠ 0
      exact mul_ne_zero (mul_ne_zero (ne_of_gt py) (by norm_num)) hmv0
    · show g.scl.z * -1 * mv ≠ 0
      exact mul_ne_zero (mul_ne_zero (ne_of_gt pz) (by norm_num)) hmv0
  · rw [hf]
    have hR : lin3 (⟨g.r0.x, g.r0.y, g.r0.z, m.x03, g.r1.x, g.r1.y, g.r1.z, m.x13,
        g.r2.x, g.r2.y, g.r2.z, m.x23, m.x30, m.x31, m.x32, m.x33⟩ : M44 α) *
        (lin3 (⟨g.r0.x, g.r0.y, g.r0.z, m.x03, g.r1.x, g.r1.y, g.r1.z, m.x13,
        g.r2.x, g.r2.y, g.r2.z, m.x23, m.x30, m.x31, m.x32, m.x33⟩ : M44 α))ᵀ = 1 := by
      ext i j
      fin_cases i <;> fin_cases j <;>
        simp [lin3, Matrix.mul_apply, Fin.sum_univ_three, Matrix.transpose_apply] <;> linarith
    refine ⟨?_, hR, ?_, rfl, rfl, rfl, rfl, rfl, rfl, rfl, ?_, ?_, ?_⟩
    · ext i j
      fin_cases i <;> fin_cases j <;>
        simp [scaleMat3, shearMat3, lin3, V3.mulS, Matrix.mul_apply, Fin.sum_univ_three]
      · rw [a00]; ring
      · rw [a01]; ring
      · rw [a02]; ring
      · rw [a10]; ring
      · rw [a11]; ring
      · rw [a12]; ring
      · rw [a20]; ring
      · rw [a21]; ring
      · rw [a22]; ring
    · apply det_eq_one_of_orthonormal _ hR
      have : (lin3 (⟨g.r0.x, g.r0.y, g.r0.z, m.x03, g.r1.x, g.r1.y, g.r1.z, m.x13,
        g.r2.x, g.r2.y, g.r2.z, m.x23, m.x30, m.x31, m.x32, m.x33⟩ : M44 α)).det = dot3 g.r0 (cross3 g.r1 g.r2) := by
        rw [hdetg]; rfl
      rw [this]; exact hd
    · exact mul_ne_zero (ne_of_gt px) hmv0
    · exact mul_ne_zero (ne_of_gt py) hmv0
    · exact mul_ne_zero (ne_of_gt pz) hmv0

end field
end ImathVerif.SHRT
