import ImathVerif.Model.Jacobi
import ImathVerif.Spec.MatSpec
import Mathlib.Tactic.Ring
import Mathlib.Tactic.Linarith
import Mathlib.Tactic.FinCases
import Mathlib.Tactic.IntervalCases
import Mathlib.Tactic.LinearCombination
import Mathlib.LinearAlgebra.Matrix.Determinant.Basic
/-!
# Lemmas for C12 — one Jacobi rotation is an orthogonal similarity (hand model `Model/Jacobi.lean`)
-/
namespace ImathVerif.Jacobi
open Matrix

/-- the upper-left n×n block of a function matrix as a Mathlib matrix -/
def toM {α : Type} (n : Nat) (f : Mat α) : Matrix (Fin n) (Fin n) α := Matrix.of fun i j => f i.val j.val

/-- Givens rotation in the (j,k) plane: `J[j][j] = c, J[j][k] = s, J[k][j] = -s, J[k][k] = c` -/
def givens {α : Type} [Zero α] [One α] [Neg α] (n j k : Nat) (c s : α) : Matrix (Fin n) (Fin n) α :=
  Matrix.of fun a b =>
    if a.val = j ∧ b.val = j then c else if a.val = j ∧ b.val = k then s
    else if a.val = k ∧ b.val = j then -s else if a.val = k ∧ b.val = k then c
    else if a = b then 1 else 0

section ring
variable {α : Type} [CommRing α]

theorem givens_orth3 (j k : Nat) (hjk : j < k) (hk : k < 3) (c s : α) (h : c * c + s * s = 1) :
    givens 3 j k c s * (givens 3 j k c s)ᵀ = 1 := by
  interval_cases k <;> interval_cases j <;>
  · ext a b
    fin_cases a <;> fin_cases b <;>
      simp [givens, Matrix.mul_apply, Fin.sum_univ_three, Matrix.transpose_apply] <;> first | ring1 | linear_combination h

theorem givens_orth4 (j k : Nat) (hjk : j < k) (hk : k < 4) (c s : α) (h : c * c + s * s = 1) :
    givens 4 j k c s * (givens 4 j k c s)ᵀ = 1 := by
  interval_cases k <;> interval_cases j <;>
  · ext a b
    fin_cases a <;> fin_cases b <;>
      simp [givens, Matrix.mul_apply, Fin.sum_univ_four, Matrix.transpose_apply] <;> first | ring1 | linear_combination h

theorem rotRight3 (A : Mat α) (j k : Nat) (hjk : j < k) (hk : k < 3) (c s : α) :
    toM 3 (rotRight A j k c s) = toM 3 A * givens 3 j k c s := by
  interval_cases k <;> interval_cases j <;>
  · ext a b
    fin_cases a <;> fin_cases b <;>
      simp [toM, rotRight, givens, Matrix.mul_apply, Fin.sum_univ_three] <;> ring

theorem rotRight4 (A : Mat α) (j k : Nat) (hjk : j < k) (hk : k < 4) (c s : α) :
    toM 4 (rotRight A j k c s) = toM 4 A * givens 4 j k c s := by
  interval_cases k <;> interval_cases j <;>
  · ext a b
    fin_cases a <;> fin_cases b <;>
      simp [toM, rotRight, givens, Matrix.mul_apply, Fin.sum_univ_four] <;> ring


/-- the composed left rotation `c_1 = c_2*c - s_2*s`, `s_1 = s_2*c + c_2*s` -/
def c1 (p : Angles α) : α := p.c2 * p.c - p.s2 * p.s
def s1 (p : Angles α) : α := p.s2 * p.c + p.c2 * p.s

/-- the parameters are two unit pairs that make the rotated 2×2 block `[[w, x], [y, z]]` diagonal -/
structure Diagonalises (p : Angles α) (w x y z : α) : Prop where
  unit1 : p.c * p.c + p.s * p.s = 1
  unit2 : p.c2 * p.c2 + p.s2 * p.s2 = 1
  off_jk : c1 p * (w * p.s2 + x * p.c2) - s1 p * (y * p.s2 + z * p.c2) = 0
  off_kj : s1 p * (w * p.c2 - x * p.s2) + c1 p * (y * p.c2 - z * p.s2) = 0

theorem unit_c1s1 {p : Angles α} (h1 : p.c * p.c + p.s * p.s = 1) (h2 : p.c2 * p.c2 + p.s2 * p.s2 = 1) :
    c1 p * c1 p + s1 p * s1 p = 1 := by
  have : c1 p * c1 p + s1 p * s1 p = (p.c2 * p.c2 + p.s2 * p.s2) * (p.c * p.c + p.s * p.s) := by
    simp only [c1, s1]; ring
  rw [this, h1, h2]; ring

theorem svdApply_A3 (j k : Nat) (hjk : j < k) (hk : k < 3) (p : Angles α) (st : SVDState α) (hch : p.changed = true)
    (ho1 : c1 p * (st.A j j * p.s2 + st.A j k * p.c2) - s1 p * (st.A k j * p.s2 + st.A k k * p.c2) = 0)
    (ho2 : s1 p * (st.A j j * p.c2 - st.A j k * p.s2) + c1 p * (st.A k j * p.c2 - st.A k k * p.s2) = 0) :
    toM 3 (svdApply j k p st).2.A = (givens 3 j k (c1 p) (s1 p))ᵀ * toM 3 st.A * givens 3 j k p.c2 p.s2 := by
  simp only [c1, s1] at ho1 ho2
  interval_cases k <;> interval_cases j <;>
  · ext a b
    fin_cases a <;> fin_cases b <;>
      simp [svdApply, hch, c1, s1, toM, givens, Matrix.mul_apply, Fin.sum_univ_three, Matrix.transpose_apply] <;>
      first | ring1 | linear_combination ho1 | linear_combination ho2 | linear_combination -ho1 | linear_combination -ho2

theorem svdApply_A4 (j k : Nat) (hjk : j < k) (hk : k < 4) (p : Angles α) (st : SVDState α) (hch : p.changed = true)
    (ho1 : c1 p * (st.A j j * p.s2 + st.A j k * p.c2) - s1 p * (st.A k j * p.s2 + st.A k k * p.c2) = 0)
    (ho2 : s1 p * (st.A j j * p.c2 - st.A j k * p.s2) + c1 p * (st.A k j * p.c2 - st.A k k * p.s2) = 0) :
    toM 4 (svdApply j k p st).2.A = (givens 4 j k (c1 p) (s1 p))ᵀ * toM 4 st.A * givens 4 j k p.c2 p.s2 := by
  simp only [c1, s1] at ho1 ho2
  interval_cases k <;> interval_cases j <;>
  · ext a b
    fin_cases a <;> fin_cases b <;>
      simp [svdApply, hch, c1, s1, toM, givens, Matrix.mul_apply, Fin.sum_univ_four, Matrix.transpose_apply] <;>
      first | ring1 | linear_combination ho1 | linear_combination ho2 | linear_combination -ho1 | linear_combination -ho2

theorem svdApply_UV (j k : Nat) (p : Angles α) (st : SVDState α) (hch : p.changed = true) :
    (svdApply j k p st).2.U = rotRight st.U j k (c1 p) (s1 p) ∧ (svdApply j k p st).2.V = rotRight st.V j k p.c2 p.s2 := by
  simp [svdApply, hch, c1, s1]

/-- orthogonal similarity: the generic matrix argument -/
theorem similarity {n : Nat} (U A V G1 G2 : Matrix (Fin n) (Fin n) α) (h1 : G1 * G1ᵀ = 1) (h2 : G2 * G2ᵀ = 1) :
    (U * G1) * (G1ᵀ * A * G2) * (V * G2)ᵀ = U * A * Vᵀ ∧
    (U * G1) * (U * G1)ᵀ = U * Uᵀ ∧ (V * G2) * (V * G2)ᵀ = V * Vᵀ := by
  have e1 : ∀ X : Matrix (Fin n) (Fin n) α, G1 * (G1ᵀ * X) = X := fun X => by rw [← Matrix.mul_assoc, h1, Matrix.one_mul]
  have e2 : ∀ X : Matrix (Fin n) (Fin n) α, G2 * (G2ᵀ * X) = X := fun X => by rw [← Matrix.mul_assoc, h2, Matrix.one_mul]
  refine ⟨?_, ?_, ?_⟩
  · simp only [Matrix.transpose_mul, Matrix.mul_assoc, e1, e2]
  · simp only [Matrix.transpose_mul, Matrix.mul_assoc, e1]
  · simp only [Matrix.transpose_mul, Matrix.mul_assoc, e2]


/-- a rotation step is exact: `changed` with diagonalising unit parameters, or the early exit on an
already-zero off-diagonal pair -/
def StepOK (n : Nat) (st : SVDState α) (j k : Nat) (p : Angles α) : Prop :=
  j < k ∧ k < n ∧
  ((p.changed = true ∧ Diagonalises p (st.A j j) (st.A j k) (st.A k j) (st.A k k)) ∨
   (p.changed = false ∧ st.A j k = 0 ∧ st.A k j = 0))

/-- `U · A · Vᵀ` -/
def prodUAV (n : Nat) (st : SVDState α) : Matrix (Fin n) (Fin n) α := toM n st.U * toM n st.A * (toM n st.V)ᵀ

theorem svdApply_unchanged (n j k : Nat) (p : Angles α) (st : SVDState α) (hch : p.changed = false)
    (h1 : st.A j k = 0) (h2 : st.A k j = 0) :
    toM n (svdApply j k p st).2.A = toM n st.A ∧ (svdApply j k p st).2.U = st.U ∧ (svdApply j k p st).2.V = st.V := by
  refine ⟨?_, by simp [svdApply, hch], by simp [svdApply, hch]⟩
  ext a b
  simp only [toM, Matrix.of_apply, svdApply, hch, Bool.not_false, if_true]
  split_ifs with hc
  · rcases hc with ⟨ha, hb⟩ | ⟨ha, hb⟩
    · rw [ha, hb, h2]
    · rw [ha, hb, h1]
  · rfl

theorem svdApply_invariant3 {st : SVDState α} {j k : Nat} {p : Angles α} (h : StepOK 3 st j k p) :
    prodUAV 3 (svdApply j k p st).2 = prodUAV 3 st ∧
    toM 3 (svdApply j k p st).2.U * (toM 3 (svdApply j k p st).2.U)ᵀ = toM 3 st.U * (toM 3 st.U)ᵀ ∧
    toM 3 (svdApply j k p st).2.V * (toM 3 (svdApply j k p st).2.V)ᵀ = toM 3 st.V * (toM 3 st.V)ᵀ := by
  obtain ⟨hjk, hk, hc⟩ := h
  rcases hc with ⟨hch, hd⟩ | ⟨hch, h1, h2⟩
  · obtain ⟨eU, eV⟩ := svdApply_UV j k p st hch
    have eA := svdApply_A3 j k hjk hk p st hch hd.off_jk hd.off_kj
    simp only [prodUAV]
    rw [eU, eV, eA, rotRight3 _ j k hjk hk, rotRight3 _ j k hjk hk]
    exact similarity _ _ _ _ _ (givens_orth3 j k hjk hk _ _ (unit_c1s1 hd.unit1 hd.unit2))
      (givens_orth3 j k hjk hk _ _ hd.unit2)
  · obtain ⟨eA, eU, eV⟩ := svdApply_unchanged 3 j k p st hch h1 h2
    simp only [prodUAV]
    rw [eA, eU, eV]
    exact ⟨rfl, rfl, rfl⟩

theorem svdApply_invariant4 {st : SVDState α} {j k : Nat} {p : Angles α} (h : StepOK 4 st j k p) :
    prodUAV 4 (svdApply j k p st).2 = prodUAV 4 st ∧
    toM 4 (svdApply j k p st).2.U * (toM 4 (svdApply j k p st).2.U)ᵀ = toM 4 st.U * (toM 4 st.U)ᵀ ∧
    toM 4 (svdApply j k p st).2.V * (toM 4 (svdApply j k p st).2.V)ᵀ = toM 4 st.V * (toM 4 st.V)ᵀ := by
  obtain ⟨hjk, hk, hc⟩ := h
  rcases hc with ⟨hch, hd⟩ | ⟨hch, h1, h2⟩
  · obtain ⟨eU, eV⟩ := svdApply_UV j k p st hch
    have eA := svdApply_A4 j k hjk hk p st hch hd.off_jk hd.off_kj
    simp only [prodUAV]
    rw [eU, eV, eA, rotRight4 _ j k hjk hk, rotRight4 _ j k hjk hk]
    exact similarity _ _ _ _ _ (givens_orth4 j k hjk hk _ _ (unit_c1s1 hd.unit1 hd.unit2))
      (givens_orth4 j k hjk hk _ _ hd.unit2)
  · obtain ⟨eA, eU, eV⟩ := svdApply_unchanged 4 j k p st hch h1 h2
    simp only [prodUAV]
    rw [eA, eU, eV]
    exact ⟨rfl, rfl, rfl⟩

/-- a sequence of rotations (any number of sweeps): `(j, k, parameters)` per step -/
def runSteps (st : SVDState α) : List (Nat × Nat × Angles α) → SVDState α
  | [] => st
  | s :: ss => runSteps (svdApply s.1 s.2.1 s.2.2 st).2 ss

/-- every step of the run is exact w.r.t. the state it is applied to -/
def RunOK (n : Nat) (st : SVDState α) : List (Nat × Nat × Angles α) → Prop
  | [] => True
  | s :: ss => StepOK n st s.1 s.2.1 s.2.2 ∧ RunOK n (svdApply s.1 s.2.1 s.2.2 st).2 ss

end ring
end ImathVerif.Jacobi
