import ImathVerif.Lemmas.Rand48
/-!
C18: the two 48-bit states of the model (the caller's array / `Rand48::_state`, and the file-static
`staticState`) are independent streams — helper lemmas (core Lean only).  `run` accumulates the outputs by
appending; `run_cons` turns it into the head/tail form used by the inductions.
-/
namespace ImathVerif.Rand48
open ImathVerif.Rand48.Spec

theorem foldl_runStep_acc (ops : List Op) : ∀ (w : World) (acc : List Out),
    ops.foldl runStep (w, acc) = ((ops.foldl runStep (w, [])).1, acc ++ (ops.foldl runStep (w, [])).2) := by
  induction ops with
  | nil => intro w acc; simp
  | cons op ops ih =>
    intro w acc
    simp only [List.foldl_cons, runStep]
    rw [ih _ (acc ++ _), ih _ ([] ++ _)]
    simp [List.append_assoc]

theorem run_nil (w : World) : run [] w = (w, []) := rfl

theorem run_cons (op : Op) (ops : List Op) (w : World) :
    run (op :: ops) w = ((run ops (step w op).2).1, (step w op).1 :: (run ops (step w op).2).2) := by
  unfold run
  simp only [List.foldl_cons, runStep]
  rw [foldl_runStep_acc]
  simp

theorem foldl_runStep32_acc (ops : List Op32) : ∀ (st : Nat) (acc : List Out),
    ops.foldl runStep32 (st, acc) = ((ops.foldl runStep32 (st, [])).1, acc ++ (ops.foldl runStep32 (st, [])).2) := by
  induction ops with
  | nil => intro st acc; simp
  | cons op ops ih =>
    intro st acc
    simp only [List.foldl_cons, runStep32]
    rw [ih _ (acc ++ _), ih _ ([] ++ _)]
    simp [List.append_assoc]

theorem run32_cons (op : Op32) (ops : List Op32) (st : Nat) :
    run32 (op :: ops) st = ((run32 ops (step32 st op).2).1, (step32 st op).1 :: (run32 ops (step32 st op).2).2) := by
  unfold run32
  simp only [List.foldl_cons, runStep32]
  rw [foldl_runStep32_acc]
  simp

/-- a call that does not touch the static state leaves it alone, and its result and the new caller's
state are functions of the caller's state only -/
theorem step_nonstatic (w w' : World) (op : Op) (h : Op.touchesStat op = false) (hu : w.user = w'.user) :
    (step w op).2.stat = w.stat ∧ (step w op).1 = (step w' op).1 ∧ (step w op).2.user = (step w' op).2.user := by
  obtain ⟨u, st⟩ := w
  obtain ⟨u', st'⟩ := w'
  simp only at hu
  subst hu
  cases op <;> simp_all [step, Op.touchesStat]

/-- a call on the static state leaves the caller's state alone, and its result and the new static state
are functions of the static state only -/
theorem step_static (w w' : World) (op : Op) (h : Op.touchesStat op = true) (hs : w.stat = w'.stat) :
    (step w op).2.user = w.user ∧ (step w op).1 = (step w' op).1 ∧ (step w op).2.stat = (step w' op).2.stat := by
  obtain ⟨u, st⟩ := w
  obtain ⟨u', st'⟩ := w'
  simp only at hs
  subst hs
  cases op <;> simp_all [step, Op.touchesStat]

end ImathVerif.Rand48
