import ImathVerif.Model.Dispatch
import Mathlib.Data.List.Perm.Basic
import Mathlib.Tactic.Linarith

/-! Helper lemmas for C20 (dispatch model). -/
namespace ImathVerif.Dispatch

variable {α σ β : Type}

/-! ### the loop -/

theorem exec_eq_runList (step : Nat → σ → σ) (s e : Nat) (h : σ) :
    exec step s e h = runList step (List.range' s (e - s)) h := by
  induction hn : e - s generalizing s h with
  | zero =>
    unfold exec
    have : ¬ s < e := by omega
    simp [this, runList]
  | succ n ih =>
    unfold exec
    have h1 : s < e := by omega
    simp only [h1, if_true]
    rw [ih (s + 1) (step s h) (by omega)]
    simp [runList, List.range'_succ]

theorem runList_append (step : Nat → σ → σ) (l₁ l₂ : List Nat) (h : σ) :
    runList step (l₁ ++ l₂) h = runList step l₂ (runList step l₁ h) := by
  simp [runList, List.foldl_append]

theorem exec_split' (step : Nat → σ → σ) (s m e : Nat) (h1 : s ≤ m) (h2 : m ≤ e) (h : σ) :
    exec step s e h = exec step m e (exec step s m h) := by
  rw [exec_eq_runList, exec_eq_runList, exec_eq_runList, ← runList_append]
  congr 1
  have : e - s = (m - s) + (e - m) := by omega
  rw [this, ← List.range'_append]
  congr 2
  omega

theorem exec_empty (step : Nat → σ → σ) (s e : Nat) (he : e ≤ s) (h : σ) : exec step s e h = h := by
  unfold exec
  have : ¬ s < e := by omega
  simp [this]

theorem runRanges_ofStep (step : Nat → σ → σ) (rs : List Range) (h : σ) :
    runRanges (Task.ofStep step) rs h = runList step (flatten rs) h := by
  unfold runRanges flatten runList
  rw [List.foldl_flatMap]
  congr 1
  funext acc r
  simp [Task.ofStep, exec_eq_runList, runList]

/-! ### partitions are permutations of `[0,len)` -/

theorem count_flatten (rs : List Range) (i : Nat) : (flatten rs).count i = coverCount rs i := by
  induction rs with
  | nil => simp [flatten, coverCount]
  | cons r rs ih =>
    have hf : flatten (r :: rs) = List.range' r.start (r.stop - r.start) ++ flatten rs := by
      simp [flatten]
    rw [hf, List.count_append, ih]
    simp only [coverCount, List.filter_cons]
    rw [List.count_range']
    by_cases hc : r.covers i = true
    · have hc' := hc
      simp only [Range.covers, Bool.and_eq_true, decide_eq_true_eq] at hc'
      have : ∃ k, k < r.stop - r.start ∧ i = r.start + 1 * k := ⟨i - r.start, by omega, by omega⟩
      rw [if_pos this, if_pos hc, List.length_cons]; omega
    · have hc' := hc
      simp only [Range.covers, Bool.and_eq_true, decide_eq_true_eq, not_and] at hc'
      have : ¬ ∃ k, k < r.stop - r.start ∧ i = r.start + 1 * k := by
        rintro ⟨k, hk, rfl⟩; omega
      rw [if_neg this, if_neg hc]; omega

theorem coverCount_of_ge (len : Nat) (rs : List Range) (hw : ∀ r ∈ rs, r.start ≤ r.stop ∧ r.stop ≤ len)
    (i : Nat) (hi : len ≤ i) : coverCount rs i = 0 := by
  unfold coverCount
  rw [List.length_eq_zero_iff, List.filter_eq_nil_iff]
  intro r hr
  have := hw r hr
  simp only [Range.covers, Bool.and_eq_true, decide_eq_true_eq, not_and]
  omega

theorem flatten_perm_range (len : Nat) (rs : List Range) (hp : IsPartition len rs) :
    (flatten rs).Perm (List.range len) := by
  rw [List.perm_iff_count]
  intro i
  rw [count_flatten, List.count_range]
  by_cases hi : i < len
  · simp [hi, hp.2 i hi]
  · simp [hi, coverCount_of_ge len rs hp.1 i (by omega)]

theorem mem_flatten_lt (len : Nat) (rs : List Range) (hw : ∀ r ∈ rs, r.start ≤ r.stop ∧ r.stop ≤ len)
    (i : Nat) (hi : i ∈ flatten rs) : i < len := by
  by_contra hlt
  have h0 := coverCount_of_ge len rs hw i (by omega)
  rw [← count_flatten] at h0
  exact (List.count_eq_zero.mp h0) hi

theorem isPartition_perm (len : Nat) (rs rs' : List Range) (hperm : rs'.Perm rs) (hp : IsPartition len rs) :
    IsPartition len rs' := by
  refine ⟨fun r hr => hp.1 r (hperm.subset hr), fun i hi => ?_⟩
  rw [← hp.2 i hi]
  unfold coverCount
  exact (hperm.filter _).length_eq

/-! ### footprints and commutation -/

/-- `step` writes only cell `w i`, and the value written depends only on the cells `r i`. -/
structure Footprint (step : Nat → Heap α → Heap α) (w : Nat → Addr) (r : Nat → List Addr) : Prop where
  frame : ∀ i (h : Heap α) x, x ≠ w i → (step i h).get x = h.get x
  dep : ∀ i (h h' : Heap α), (∀ x ∈ r i, h.get x = h'.get x) → (step i h).get (w i) = (step i h').get (w i)

theorem ElemTask.footprint (t : ElemTask α) : Footprint t.step t.w t.r where
  frame := by
    intro i h x hx
    simp [ElemTask.step, Heap.write, ElemTask.w] at *
    intro hx'; exact absurd hx' hx
  dep := by
    intro i h h' hagree
    simp only [ElemTask.step, Heap.write, ElemTask.w, if_true]
    congr 1
    apply List.map_congr_left
    intro a ha
    cases a with
    | const v => rfl
    | arr acc =>
      simp only [Arg.read]
      apply hagree
      simp only [ElemTask.r, List.mem_flatMap]
      exact ⟨_, ha, by simp [Arg.locs]⟩

theorem step_comm {step : Nat → Heap α → Heap α} {w : Nat → Addr} {r : Nat → List Addr}
    (fp : Footprint step w r) (len : Nat) (hna : NoCrossAlias len w r)
    (i j : Nat) (hi : i < len) (hj : j < len) (h : Heap α) :
    step j (step i h) = step i (step j h) := by
  by_cases hij : i = j
  · subst hij; rfl
  have hji : j ≠ i := fun e => hij e.symm
  obtain ⟨hw1, hr1⟩ := hna i hi j hj hij
  obtain ⟨hw2, hr2⟩ := hna j hj i hi hji
  apply Heap.ext'
  intro x
  by_cases hxi : x = w i
  · subst hxi
    rw [fp.frame j _ _ hw1]
    apply fp.dep
    intro y hy
    have : y ≠ w j := fun e => hr2 (e ▸ hy)
    rw [fp.frame j _ _ this]
  · by_cases hxj : x = w j
    · subst hxj
      rw [fp.frame i _ _ hw2]
      symm
      apply fp.dep
      intro y hy
      have : y ≠ w i := fun e => hr1 (e ▸ hy)
      rw [fp.frame i _ _ this]
    · rw [fp.frame j _ _ hxj, fp.frame i _ _ hxi, fp.frame i _ _ hxi, fp.frame j _ _ hxj]

theorem runList_perm {step : Nat → Heap α → Heap α} {w : Nat → Addr} {r : Nat → List Addr}
    (fp : Footprint step w r) (len : Nat) (hna : NoCrossAlias len w r)
    (l₁ l₂ : List Nat) (hperm : l₁.Perm l₂) (hlt : ∀ i ∈ l₁, i < len) (h : Heap α) :
    runList step l₁ h = runList step l₂ h := by
  unfold runList
  apply List.Perm.foldl_eq' hperm
  intro x hx y hy z
  exact step_comm fp len hna x y (hlt x hx) (hlt y hy) z

theorem runList_frame {step : Nat → Heap α → Heap α} {w : Nat → Addr} {r : Nat → List Addr}
    (fp : Footprint step w r) (l : List Nat) (h : Heap α) (x : Addr) (hx : ∀ j ∈ l, x ≠ w j) :
    (runList step l h).get x = h.get x := by
  induction l generalizing h with
  | nil => rfl
  | cons j l ih =>
    simp only [runList, List.foldl_cons] at *
    rw [ih (step j h) (fun k hk => hx k (List.mem_cons_of_mem _ hk))]
    exact fp.frame j h x (hx j List.mem_cons_self)

/-- value of cell `w i` after running any duplicate-free list containing `i` -/
theorem runList_at {step : Nat → Heap α → Heap α} {w : Nat → Addr} {r : Nat → List Addr}
    (fp : Footprint step w r) (len : Nat) (hna : NoCrossAlias len w r)
    (l : List Nat) (hnd : l.Nodup) (hlt : ∀ i ∈ l, i < len) (h : Heap α) (i : Nat) (hi : i ∈ l) :
    (runList step l h).get (w i) = (step i h).get (w i) := by
  have hperm : l.Perm (l.erase i ++ [i]) := by
    have := List.perm_cons_erase hi
    exact this.trans (List.perm_append_singleton i (l.erase i)).symm
  rw [runList_perm fp len hna _ _ hperm hlt, runList_append]
  simp only [runList, List.foldl_cons, List.foldl_nil]
  apply fp.dep
  intro y hy
  apply runList_frame fp
  intro j hj e
  have hjl : j ∈ l := List.mem_of_mem_erase hj
  have hji : j ≠ i := by
    intro e'; subst e'
    exact (List.Nodup.not_mem_erase hnd) hj
  exact (hna j (hlt j hjl) i (hlt i hi) hji).2 (e ▸ hy)

theorem runList_range_eq_elementwise {step : Nat → Heap α → Heap α} {w : Nat → Addr} {r : Nat → List Addr}
    (fp : Footprint step w r) (len : Nat) (hna : NoCrossAlias len w r) (h : Heap α) :
    runList step (List.range len) h = elementwise step w len h := by
  apply Heap.ext'
  intro x
  unfold elementwise
  simp only
  cases hf : (List.range len).find? (fun i => w i = x) with
  | some i =>
    have hm := List.mem_of_find?_eq_some hf
    have hw := List.find?_some hf
    simp only [decide_eq_true_eq] at hw
    subst hw
    exact runList_at fp len hna _ List.nodup_range (fun j hj => List.mem_range.mp hj) h i hm
  | none =>
    rw [List.find?_eq_none] at hf
    apply runList_frame fp
    intro j hj e
    exact hf j hj (by simp [e])

/-! ### commutative idempotent monoids (reductions) -/

/-- `join` with identity `empty`: associative, commutative, idempotent. -/
structure JoinLaws (join : β → β → β) (empty : β) : Prop where
  assoc : ∀ a b c, join (join a b) c = join a (join b c)
  comm : ∀ a b, join a b = join b a
  idem : ∀ a, join a a = a
  id_right : ∀ a, join a empty = a

theorem JoinLaws.id_left {join : β → β → β} {empty : β} (L : JoinLaws join empty) (a : β) : join empty a = a := by
  rw [L.comm, L.id_right]

/-- join of all points of a list of indices -/
def joinList (join : β → β → β) (empty : β) (pt : Nat → β) (l : List Nat) : β :=
  l.foldl (fun b p => join b (pt p)) empty

theorem foldl_join_init {join : β → β → β} {empty : β} (L : JoinLaws join empty) (pt : Nat → β) (l : List Nat) (b : β) :
    l.foldl (fun b p => join b (pt p)) b = join b (joinList join empty pt l) := by
  induction l generalizing b with
  | nil => simp [joinList, L.id_right]
  | cons p l ih =>
    simp only [List.foldl_cons, joinList]
    rw [ih (join b (pt p)), ih (join empty (pt p)), L.id_left, L.assoc]

theorem joinList_append {join : β → β → β} {empty : β} (L : JoinLaws join empty) (pt : Nat → β) (l₁ l₂ : List Nat) :
    joinList join empty pt (l₁ ++ l₂) = join (joinList join empty pt l₁) (joinList join empty pt l₂) := by
  unfold joinList
  rw [List.foldl_append, foldl_join_init L]
  rfl

theorem joinList_perm {join : β → β → β} {empty : β} (L : JoinLaws join empty) (pt : Nat → β) (l₁ l₂ : List Nat)
    (hp : l₁.Perm l₂) : joinList join empty pt l₁ = joinList join empty pt l₂ := by
  unfold joinList
  apply List.Perm.foldl_eq' hp
  intro x _ y _ z
  rw [L.assoc, L.comm (pt x), ← L.assoc]

theorem joinList_cons {join : β → β → β} {empty : β} (L : JoinLaws join empty) (pt : Nat → β) (p : Nat) (l : List Nat) :
    joinList join empty pt (p :: l) = join (pt p) (joinList join empty pt l) := by
  have := joinList_append L pt [p] l
  simp only [List.singleton_append] at this
  rw [this]
  simp [joinList, L.id_left]

/-- absorbing a point already present (idempotence) -/
theorem joinList_absorb {join : β → β → β} {empty : β} (L : JoinLaws join empty) (pt : Nat → β) (l : List Nat) (p : Nat)
    (hp : p ∈ l) : join (pt p) (joinList join empty pt l) = joinList join empty pt l := by
  induction l with
  | nil => cases hp
  | cons q l ih =>
    rw [joinList_cons L]
    rcases List.mem_cons.mp hp with rfl | hm
    · rw [← L.assoc, L.idem]
    · rw [← L.assoc, L.comm (pt p), L.assoc, ih hm]

/-- with idempotence only the SET of indices matters -/
theorem joinList_set_eq {join : β → β → β} {empty : β} (L : JoinLaws join empty) (pt : Nat → β) (l₁ l₂ : List Nat)
    (hsub : ∀ p ∈ l₁, p ∈ l₂) : join (joinList join empty pt l₁) (joinList join empty pt l₂) = joinList join empty pt l₂ := by
  induction l₁ with
  | nil => simp [joinList, L.id_left]
  | cons p l ih =>
    rw [joinList_cons L, L.assoc, ih (fun q hq => hsub q (List.mem_cons_of_mem _ hq))]
    exact joinList_absorb L pt l₂ p (hsub p List.mem_cons_self)

theorem joinList_ext {join : β → β → β} {empty : β} (L : JoinLaws join empty) (pt : Nat → β) (l₁ l₂ : List Nat)
    (h12 : ∀ p ∈ l₁, p ∈ l₂) (h21 : ∀ p ∈ l₂, p ∈ l₁) : joinList join empty pt l₁ = joinList join empty pt l₂ := by
  rw [← joinList_set_eq L pt l₁ l₂ h12, L.comm, joinList_set_eq L pt l₂ l₁ h21]

/-- total of the partial results of threads `ts` -/
def total (join : β → β → β) (empty : β) (P : Nat → β) (ts : List Nat) : β :=
  ts.foldl (fun b t => join b (P t)) empty

theorem total_eq_joinList (join : β → β → β) (empty : β) (P : Nat → β) (ts : List Nat) :
    total join empty P ts = joinList join empty P ts := rfl

theorem reduceExec_eq {join : β → β → β} {empty : β} (L : JoinLaws join empty) (pt : Nat → β) (tid s e : Nat) (P : Nat → β) :
    exec (reduceStep join pt tid) s e P =
      fun t => if t = tid then join (P t) (joinList join empty pt (List.range' s (e - s))) else P t := by
  rw [exec_eq_runList]
  generalize List.range' s (e - s) = l
  induction l generalizing P with
  | nil => funext t; simp [runList, joinList, L.id_right]
  | cons p l ih =>
    simp only [runList, List.foldl_cons] at *
    rw [ih]
    funext t
    by_cases ht : t = tid
    · simp only [ht, if_true, reduceStep]
      rw [joinList_cons L, L.assoc]
    · simp [ht, reduceStep]

theorem total_update {join : β → β → β} {empty : β} (L : JoinLaws join empty) (P : Nat → β) (tid : Nat) (x : β)
    (ts : List Nat) (hnd : ts.Nodup) :
    total join empty (fun t => if t = tid then join (P t) x else P t) ts =
      if tid ∈ ts then join (total join empty P ts) x else total join empty P ts := by
  induction ts with
  | nil => simp [total]
  | cons t ts ih =>
    have hnd' := (List.nodup_cons.mp hnd)
    simp only [total_eq_joinList] at *
    rw [joinList_cons L, joinList_cons L, ih hnd'.2]
    by_cases ht : t = tid
    · subst ht
      simp [hnd'.1]
      rw [L.assoc, L.comm x, ← L.assoc]
    · have : tid ≠ t := fun e => ht e.symm
      by_cases hm : tid ∈ ts
      · simp [ht, hm, this, L.assoc]
      · simp [ht, hm, this]

/-- After a scripted dispatch of the reduction task the partial results of all
    threads together hold exactly the points visited. -/
theorem total_runRanges {join : β → β → β} {empty : β} (L : JoinLaws join empty) (pt : Nat → β) (n : Nat)
    (rs : List Range) (htid : ∀ r ∈ rs, r.tid < n) (P : Nat → β) :
    total join empty (runRanges (reduceTask join pt) rs P) (List.range n) =
      join (total join empty P (List.range n)) (joinList join empty pt (flatten rs)) := by
  induction rs generalizing P with
  | nil => simp [runRanges, flatten, joinList, L.id_right]
  | cons r rs ih =>
    have hf : flatten (r :: rs) = List.range' r.start (r.stop - r.start) ++ flatten rs := by simp [flatten]
    simp only [runRanges, List.foldl_cons] at *
    rw [ih (fun r' hr' => htid r' (List.mem_cons_of_mem _ hr')), hf, joinList_append L]
    simp only [reduceTask]
    rw [reduceExec_eq L, total_update L _ _ _ _ List.nodup_range]
    have : r.tid ∈ List.range n := List.mem_range.mpr (htid r List.mem_cons_self)
    simp [this, L.assoc]

theorem hull_laws : JoinLaws hull none where
  assoc := by
    intro a b c
    rcases a with _ | ⟨a1, a2⟩ <;> rcases b with _ | ⟨b1, b2⟩ <;> rcases c with _ | ⟨c1, c2⟩ <;> simp [hull]
  comm := by
    intro a b
    rcases a with _ | ⟨a1, a2⟩ <;> rcases b with _ | ⟨b1, b2⟩ <;> simp [hull]
    constructor <;> omega
  idem := by
    intro a
    rcases a with _ | ⟨a1, a2⟩ <;> simp [hull]
  id_right := by
    intro a
    rcases a with _ | ⟨a1, a2⟩ <;> simp [hull]

end ImathVerif.Dispatch
