import ImathVerif.Model.Dispatch
import Mathlib.Data.List.Perm.Basic
import Mathlib.Tactic.Linarith

/-! Helper lemmas for C20 (dispatch model). -/
namespace ImathVerif.Dispatch

variable {α σ β : Type}

/-! ### the loop -/

theorem exec_eq_runList (step : Nat → σ → σ) (s e : Nat) (h : σ) :
    exec step s e h = runList step (List.range' s (e - s)) h := by
  induction hn : e - s generalizing s h with
  | zero =>
    unfold exec
    have : ¬ s < e := by omega
    simp [this, runList]
  | succ n ih =>
    unfold exec
    have h1 : s < e := by omega
    simp only [h1, if_true]
    rw [ih (s + 1) (step s h) (by omega)]
    simp [runList, List.range'_succ]

theorem runList_append (step : Nat → σ → σ) (l₁ l₂ : List Nat) (h : σ) :
    runList step (l₁ ++ l₂) h = runList step l₂ (runList step l₁ h) := by
  simp [runList, List.foldl_append]

theorem exec_split' (step : Nat → σ → σ) (s m e : Nat) (h1 : s ≤ m) (h2 : m ≤ e) (h : σ) :
    exec step s e h = exec step m e (exec step s m h) := by
  rw [exec_eq_runList, exec_eq_runList, exec_eq_runList, ← runList_append]
  congr 1
  have : e - s = (m - s) + (e - m) := by omega
  rw [this, ← List.range'_append]
  congr 2
  omega

theorem exec_empty (step : Nat → σ → σ) (s e : Nat) (he : e ≤ s) (h : σ) : exec step s e h = h := by
  unfold exec
  have : ¬ s < e := by omega
  simp [this]

theorem runRanges_ofStep (step : Nat → σ → σ) (rs : List Range) (h : σ) :
    runRanges (Task.ofStep step) rs h = runList step (flatten rs) h := by
  unfold runRanges flatten runList
  rw [List.foldl_flatMap]
  congr 1
  funext acc r
  simp [Task.ofStep, exec_eq_runList, runList]

/-! ### partitions are permutations of `[0,len)` -/

theorem count_flatten (rs : List Range) (i : Nat) : (flatten rs).count i = coverCount rs i := by
  induction rs with
  | nil => simp [flatten, coverCount]
  | cons r rs ih =>
    have hf : flatten (r :: rs) = List.range' r.start (r.stop - r.start) ++ flatten rs := by
      simp [flatten]
    rw [hf, List.count_append, ih]
    simp only [coverCount, List.filter_cons]
    rw [List.count_range']
    by_cases hc : r.covers i = true
    · have hc' := hc
      simp only [Range.covers, Bool.and_eq_true, decide_eq_true_eq] at hc'
      have : ∃ k, k < r.stop - r.start ∧ i = r.start + 1 * k := ⟨i - r.start, by omega, by omega⟩
      rw [if_pos this, if_pos hc, List.length_cons]; omega
    · have hc' := hc
      simp only [Range.covers, Bool.and_eq_true, decide_eq_true_eq, not_and] at hc'
      have : ¬ ∃ k, k < r.stop - r.start ∧ i = r.start + 1 * k := by
        rintro ⟨k, hk, rfl⟩; omega
      rw [if_neg this, if_neg hc]; omega

theorem coverCount_of_ge (len : Nat) (rs : List Range) (hw : ∀ r ∈ rs, r.start ≤ r.stop ∧ r.stop ≤ len)
    (i : Nat) (hi : len ≤ i) : coverCount rs i = 0 := by
  unfold coverCount
  rw [List.length_eq_zero_iff, List.filter_eq_nil_iff]
  intro r hr
  have := hw r hr
  simp only [Range.covers, Bool.and_eq_true, decide_eq_true_eq, not_and]
  omega

theorem flatten_perm_range (len : Nat) (rs : List Range) (hp : IsPartition len rs) :
    (flatten rs).Perm (List.range len) := by
  rw [List.perm_iff_count]
  intro i
  rw [count_flatten, List.count_range]
  by_cases hi : i < len
  · simp [hi, hp.2 i hi]
  · simp [hi, coverCount_of_ge len rs hp.1 i (by omega)]

theorem mem_flatten_lt (len : Nat) (rs : List Range) (hw : ∀ r ∈ rs, r.start ≤ r.stop ∧ r.stop ≤ len)
    (i : Nat) (hi : i ∈ flatten rs) : i < len := by
  by_contra hlt
  have h0 := coverCount_of_ge len rs hw i (by omega)
  rw [← count_flatten] at h0
  exact (List.count_eq_zero.mp h0) hi

theorem isPartition_perm (len : Nat) (rs rs' : List Range) (hperm : rs'.Perm rs) (hp : IsPartition len rs) :
    IsPartition len rs' := by
  refine ⟨fun r hr => hp.1 r (hperm.subset hr), fun i hi => ?_⟩
  rw [← hp.2 i hi]
  unfold coverCount
  exact (hperm.filter _).length_eq

/-! ### footprints and commutation -/

/-- `step` writes only cell `w i`, and the value written depends only on the cells `r i`. -/
structure Footprint (step : Nat → Heap α → Heap α) (w : Nat → Addr) (r : Nat → List Addr) : Prop where
  frame : ∀ i (h : Heap α) x, x ≠ w i → (step i h).get x = h.get x
  dep : ∀ i (h h' : Heap α), (∀ x ∈ r i, h.get x = h'.get x) → (step i h).get (w i) = (step i h').get (w i)

theorem ElemTask.footprint (t : ElemTask α) : Footprint t.step t.w t.r where
  frame := by
    intro i h x hx
    simp [ElemTask.step, Heap.write, ElemTask.w] at *
    intro hx'; exact absurd hx' hx
  dep := by
    intro i h h' hagree
    simp only [ElemTask.step, Heap.write, ElemTask.w, if_true]
    congr 1
    apply List.map_congr_left
    intro a ha
    cases a with
    | const v => rfl
    | arr acc =>
      simp only [Arg.read]
      apply hagree
      simp only [ElemTask.r, List.mem_flatMap]
      exact ⟨_, ha, by simp [Arg.locs]⟩

theorem step_comm {step : Nat → Heap α → Heap α} {w : Nat → Addr} {r : Nat → List Addr}
    (fp : Footprint step w r) (len : Nat) (hna : NoCrossAlias len w r)
    (i j : Nat) (hi : i < len) (hj : j < len) (h : Heap α) :
    step j (step i h) = step i (step j h) := by
  by_cases hij : i = j
  · subst hij; rfl
  have hji : j ≠ i := fun e => hij e.symm
  obtain ⟨hw1, hr1⟩ := hna i hi j hj hij
  obtain ⟨hw2, hr2⟩ := hna j hj i hi hji
  apply Heap.ext'
  intro x
  by_cases hxi : x = w i
  · subst hxi
    rw [fp.frame j _ _ hw1]
    apply fp.dep
    intro y hy
    have : y ≠ w j := fun e => hr2 (e ▸ hy)
    rw [fp.frame j _ _ this]
  · by_cases hxj : x = w j
    · subst hxj
      rw [fp.frame i _ _ hw2]
      symm
      apply fp.dep
      intro y hy
      have : y ≠ w i := fun e => hr1 (e ▸ hy)
      rw [fp.frame i _ _ this]
    · rw [fp.frame j _ _ hxj, fp.frame i _ _ hxi, fp.frame i _ _ hxi, fp.frame j _ _ hxj]

theorem runList_perm {step : Nat → Heap α → Heap α} {w : Nat → Addr} {r : Nat → List Addr}
    (fp : Footprint step w r) (len : Nat) (hna : NoCrossAlias len w r)
    (l₁ l₂ : List Nat) (hperm : l₁.Perm l₂) (hlt : ∀ i ∈ l₁, i < len) (h : Heap α) :
    runList step l₁ h = runList step l₂ h := by
  unfold runList
  apply List.Perm.foldl_eq' hperm
  intro x hx y hy z
  exact step_comm fp len hna x y (hlt x hx) (hlt y hy) z

theorem runList_frame {step : Nat → Heap α → Heap α} {w : Nat → Addr} {r : Nat → List Addr}
    (fp : Footprint step w r) (l : List Nat) (h : Heap α) (x : Addr) (hx : ∀ j ∈ l, x ≠ w j) :
    (runList step l h).get x = h.get x := by
  induction l generalizing h with
  | nil => rfl
  | cons j l ih =>
    simp only [runList, List.foldl_cons] at *
    rw [ih (step j h) (fun k hk => hx k (List.mem_cons_of_mem _ hk))]
    exact fp.frame j h x (hx j List.mem_cons_self)

/-- value of cell `w i` after running any duplicate-free list containing `i` -/
theorem runList_at {step : Nat → Heap α → Heap α} {w : Nat → Addr} {r : Nat → List Addr}
    (fp : Footprint step w r) (len : Nat) (hna : NoCrossAlias len w r)
    (l : List Nat) (hnd : l.Nodup) (hlt : ∀ i ∈ l, i < len) (h : Heap α) (i : Nat) (hi : i ∈ l) :
    (runList step l h).get (w i) = (step i h).get (w i) := by
  have hperm : l.Perm (l.erase i ++ [i]) := by
    have := List.perm_cons_erase hi
    exact this.trans (List.perm_append_singleton i (l.erase i)).symm
  rw [runList_perm fp len hna _ _ hperm hlt, runList_append]
  simp only [runList, List.foldl_cons, List.foldl_nil]
  apply fp.dep
  intro y hy
  apply runList_frame fp
  intro j hj e
  have hjl : j ∈ l := List.mem_of_mem_erase hj
  have hji : j ≠ i := by
    intro e'; subst e'
    exact (List.Nodup.not_mem_erase hnd) hj
  exact (hna j (hlt j hjl) i (hlt i hi) hji).2 (e ▸ hy)

theorem runList_range_eq_elementwise {step : Nat → Heap α → Heap α} {w : Nat → Addr} {r : Nat → List Addr}
    (fp : Footprint step w r) (len : Nat) (hna : NoCrossAlias len w r) (h : Heap α) :
    runList step (List.range len) h = elementwise step w len h := by
  apply Heap.ext'
  intro x
  unfold elementwise
  simp only
  cases hf : (List.range len).find? (fun i => w i = x) with
  | some i =>
    have hm := List.mem_of_find?_eq_some hf
    have hw := List.find?_some hf
    simp only [decide_eq_true_eq] at hw
    subst hw
    exact runList_at fp len hna _ List.nodup_range (fun j hj => List.mem_range.mp hj) h i hm
  | none =>
    rw [List.find?_eq_none] at hf
    apply runList_frame fp
    intro j hj e
    exact hf j hj (by simp [e])

/-! ### commutative idempotent monoids (reductions) -/

/-- `join` with identity `empty`: associative, commutative, idempotent. -/
structure JoinLaws (join : β → β → β) (empty : β) : Prop where
  assoc : ∀ a b c, join (join a b) c = join a (join b c)
  comm : ∀ a b, join a b = join b a
  idem : ∀ a, join a a = a
  id_right : ∀ a, join a empty = a

theorem JoinLaws.id_left {join : β → β → β} {empty : β} (L : JoinLaws join empty) (a : β) : join empty a = a := by
  rw [L.comm, L.id_right]

/-- join of all points of a list of indices -/
def joinList (join : β → β → β) (empty : β) (pt : Nat → β) (l : List Nat) : β :=
  l.foldl (fun b p => join b (pt p)) empty

theorem foldl_join_init {join : β → β → β} {empty : β} (L : JoinLaws join empty) (pt : Nat → β) (l : List Nat) (b : β) :
    l.foldl (fun b p => join b (pt p)) b = join b (joinList join empty pt l) := by
  induction l generalizing b with
  | nil => simp [joinList, L.id_right]
  | cons p l ih =>
    simp only [List.foldl_cons, joinList]
    rw [ih (join b (pt p)), ih (join empty (pt p)), L.id_left, L.assoc]

theorem joinList_append {join : β → β → β} {empty : β} (L : JoinLaws join empty) (pt : Nat → β) (l₁ l₂ : List Nat) :
    joinList join empty pt (l₁ ++ l₂) = join (joinList join empty pt l₁) (joinList join empty pt l₂) := by
  unfold joinList
  rw [List.foldl_append, foldl_join_init L]
  rfl

theorem joinList_perm {join : β → β → β} {empty : β} (L : JoinLaws join empty) (pt : Nat → β) (l₁ l₂ : List Nat)
    (hp : l₁.Perm l₂) : joinList join empty pt l₁ = joinList join empty pt l₂ := by
  unfold joinList
  apply List.Perm.foldl_eq' hp
  intro x _ y _ z
  rw [L.assoc, L.comm (pt x), ← L.assoc]

theorem joinList_cons {join : β → β → β} {empty : β} (L : JoinLaws join empty) (pt : Nat → β) (p : Nat) (l : List Nat) :
    joinList join empty pt (p :: l) = join (pt p) (joinList join empty pt l) := by
  have := joinList_append L pt [p] l
  simp only [List.singleton_append] at this
  rw [this]
  simp [joinList, L.id_left]

/-- absorbing a point already present (idempotence) -/
theorem joinList_absorb {join : β → β → β} {empty : β} (L : JoinLaws join empty) (pt : Nat → β) (l : List Nat) (p : Nat)
    (hp : p ∈ l) : join (pt p) (joinList join empty pt l) = joinList join empty pt l := by
  induction l with
  | nil => cases hp
  | cons q l ih =>
    rw [joinList_cons L]
    rcases List.mem_cons.mp hp with rfl | hm
    · rw [← L.assoc, L.idem]
    · rw [← L.assoc, L.comm (pt p), L.assoc, ih hm]

/-- with idempotence only the SET of indices matters -/
theorem joinList_set_eq {join : β → β → β} {empty : β} (L : JoinLaws join empty) (pt : Nat → β) (l₁ l₂ : List Nat)
    (hsub : ∀ p ∈ l₁, p ∈ l₂) : join (joinList join empty pt l₁) (joinList join empty pt l₂) = joinList join empty pt l₂ := by
  induction l₁ with
  | nil => simp [joinList, L.id_left]
  | cons p l ih =>
    rw [joinList_cons L, L.assoc, ih (fun q hq => hsub q (List.mem_cons_of_mem _ hq))]
    exact joinList_absorb L pt l₂ p (hsub p List.mem_cons_self)

theorem joinList_ext {join : β → β → β} {empty : β} (L : JoinLaws join empty) (pt : Nat → β) (l₁ l₂ : List Nat)
    (h12 : ∀ p ∈ l₁, p ∈ l₂) (h21 : ∀ p ∈ l₂, p ∈ l₁) : joinList join empty pt l₁ = joinList join empty pt l₂ := by
  rw [← joinList_set_eq L pt l₁ l₂ h12, L.comm, joinList_set_eq L pt l₂ l₁ h21]

/-- total of the partial results of threads `ts` -/
def total (join : β → β → β) (empty : β) (P : Nat → β) (ts : List Nat) : β :=
  ts.foldl (fun b t => join b (P t)) empty

theorem total_eq_joinList (join : β → β → β) (empty : β) (P : Nat → β) (ts : List Nat) :
    total join empty P ts = joinList join empty P ts := rfl

theorem reduceExec_eq {join : β → β → β} {empty : β} (L : JoinLaws join empty) (pt : Nat → β) (tid s e : Nat) (P : Nat → β) :
    exec (reduceStep join pt tid) s e P =
      fun t => if t = tid then join (P t) (joinList join empty pt (List.range' s (e - s))) else P t := by
  rw [exec_eq_runList]
  generalize List.range' s (e - s) = l
  induction l generalizing P with
  | nil => funext t; simp [runList, joinList, L.id_right]
  | cons p l ih =>
    simp only [runList, List.foldl_cons] at *
    rw [ih]
    funext t
    by_cases ht : t = tid
    · simp only [ht, if_true, reduceStep]
      rw [joinList_cons L, L.assoc]
    · simp [ht, reduceStep]

theorem total_update {join : β → β → β} {empty : β} (L : JoinLaws join empty) (P : Nat → β) (tid : Nat) (x : β)
    (ts : List Nat) (hnd : ts.Nodup) :
    total join empty (fun t => if t = tid then join (P t) x else P t) ts =
      if tid ∈ ts then join (total join empty P ts) x else total join empty P ts := by
  induction ts with
  | nil => simp [total]
  | cons t ts ih =>
    have hnd' := (List.nodup_cons.mp hnd)
    simp only [total_eq_joinList] at *
    rw [joinList_cons L, joinList_cons L, ih hnd'.2]
    by_cases ht : t = tid
    · subst ht
      simp [hnd'.1]
      rw [L.assoc, L.comm x, ← L.assoc]
    · have : tid ≠ t := fun e => ht e.symm
      by_cases hm : tid ∈ ts
      · simp [ht, hm, this, L.assoc]
      · simp [ht, hm, this]

/-- After a scripted dispatch of the reduction task the partial results of all
    threads together hold exactly the points visited. -/
theorem total_runRanges {join : β → β → β} {empty : β} (L : JoinLaws join empty) (pt : Nat → β) (n : Nat)
    (rs : List Range) (htid : ∀ r ∈ rs, r.tid < n) (P : Nat → β) :
    total join empty (runRanges (reduceTask join pt) rs P) (List.range n) =
      join (total join empty P (List.range n)) (joinList join empty pt (flatten rs)) := by
  induction rs generalizing P with
  | nil => simp [runRanges, flatten, joinList, L.id_right]
  | cons r rs ih =>
    have hf : flatten (r :: rs) = List.range' r.start (r.stop - r.start) ++ flatten rs := by simp [flatten]
    simp only [runRanges, List.foldl_cons] at *
    rw [ih (fun r' hr' => htid r' (List.mem_cons_of_mem _ hr')), hf, joinList_append L]
    simp only [reduceTask]
    rw [reduceExec_eq L, total_update L _ _ _ _ List.nodup_range]
    have : r.tid ∈ List.range n := List.mem_range.mpr (htid r List.mem_cons_self)
    simp [this, L.assoc]

theorem hull_laws : JoinLaws hull none where
  assoc := by
    intro a b c
    rcases a with _ | ⟨a1, a2⟩ <;> rcases b with _ | ⟨b1, b2⟩ <;> rcases c with _ | ⟨c1, c2⟩ <;> simp [hull]
  comm := by
    intro a b
    rcases a with _ | ⟨a1, a2⟩ <;> rcases b with _ | ⟨b1, b2⟩ <;> simp [hull]
    constructor <;> omega
  idem := by
    intro a
    rcases a with _ | ⟨a1, a2⟩ <;> simp [hull]
  id_right := by
    intro a
    rcases a with _ | ⟨a1, a2⟩ <;> simp [hull]

/-! ### arbitrary tasks: compositional laws suffice -/

/-- The three observable laws of a task on `[0,len)`: an empty range does nothing, a 2-way split equals the
    unsplit call (whatever thread ids the pieces get), two disjoint non-empty sub-ranges may be swapped.
    These are exactly the two families of scripts the harness runs (2-way split; swap). -/
structure Compositional (t : Task σ) (len : Nat) : Prop where
  nil : ∀ s tid h, t s s tid h = h
  split : ∀ s m e tid tid' h, s ≤ m → m ≤ e → e ≤ len → t s e tid h = t m e tid' (t s m tid h)
  comm : ∀ a b c d tid tid' h, a < b → b ≤ c → c < d → d ≤ len →
    t c d tid' (t a b tid h) = t a b tid (t c d tid' h)

theorem task_tid_irrelevant (t : Task σ) (len : Nat)
    (hnil : ∀ s tid h, t s s tid h = h)
    (hsplit : ∀ s m e tid tid' h, s ≤ m → m ≤ e → e ≤ len → t s e tid h = t m e tid' (t s m tid h))
    (s e tid tid' : Nat) (h : σ) (h1 : s ≤ e) (h2 : e ≤ len) : t s e tid h = t s e tid' h := by
  rw [hsplit s s e tid tid' h (Nat.le_refl s) h1 h2, hnil]

/-- `rs` covers `[a,b)` exactly once, nothing below `a`, nothing beyond `b`. -/
def IsPartitionOn (a b : Nat) (rs : List Range) : Prop :=
  (∀ r ∈ rs, r.start ≤ r.stop ∧ r.stop ≤ b) ∧ (∀ i, a ≤ i → i < b → coverCount rs i = 1) ∧
    (∀ i, i < a → coverCount rs i = 0)

theorem isPartitionOn_of_isPartition (len : Nat) (rs : List Range) (hp : IsPartition len rs) :
    IsPartitionOn 0 len rs :=
  ⟨hp.1, fun i _ hi => hp.2 i hi, fun i hi => absurd hi (Nat.not_lt_zero i)⟩

theorem coverCount_cons (r : Range) (rs : List Range) (i : Nat) :
    coverCount (r :: rs) i = (if r.covers i = true then 1 else 0) + coverCount rs i := by
  unfold coverCount
  by_cases hc : r.covers i = true
  · rw [List.filter_cons, if_pos hc, if_pos hc, List.length_cons]; omega
  · rw [List.filter_cons, if_neg hc, if_neg hc]; omega

theorem coverCount_perm (rs rs' : List Range) (hperm : rs.Perm rs') (i : Nat) :
    coverCount rs i = coverCount rs' i := by
  unfold coverCount
  exact (hperm.filter _).length_eq

theorem coverCount_pos_of_mem (rs : List Range) (r : Range) (hr : r ∈ rs) (i : Nat) (hc : r.covers i = true) :
    1 ≤ coverCount rs i := by
  unfold coverCount
  have : r ∈ rs.filter fun r => r.covers i := List.mem_filter.mpr ⟨hr, hc⟩
  exact List.length_pos_of_mem this

theorem coverCount_two_of_mem (rs : List Range) (x y : Range) (hx : x ∈ rs) (hy : y ∈ rs) (hxy : x ≠ y)
    (i : Nat) (hcx : x.covers i = true) (hcy : y.covers i = true) : 2 ≤ coverCount rs i := by
  have hp := List.perm_cons_erase hx
  rw [coverCount_perm _ _ hp, coverCount_cons, if_pos hcx]
  have : y ∈ rs.erase x := (List.mem_erase_of_ne (fun e => hxy e.symm)).mpr hy
  have := coverCount_pos_of_mem _ y this i hcy
  omega

theorem covers_iff (r : Range) (i : Nat) : r.covers i = true ↔ r.start ≤ i ∧ i < r.stop := by
  simp [Range.covers]

theorem isPartitionOn_le_one (a b : Nat) (rs : List Range) (hp : IsPartitionOn a b rs) (i : Nat) :
    coverCount rs i ≤ 1 := by
  by_cases h1 : i < a
  · have := hp.2.2 i h1; omega
  · by_cases h2 : i < b
    · have := hp.2.1 i (by omega) h2; omega
    · have := coverCount_of_ge b rs hp.1 i (by omega); omega

/-- Two calls of a family of ranges in which no index is covered twice commute. -/
theorem range_comm (t : Task σ) (len : Nat)
    (hnil : ∀ s tid h, t s s tid h = h)
    (hcomm : ∀ a b c d tid tid' h, a < b → b ≤ c → c < d → d ≤ len →
      t c d tid' (t a b tid h) = t a b tid (t c d tid' h))
    (rs : List Range) (hw : ∀ r ∈ rs, r.start ≤ r.stop ∧ r.stop ≤ len) (hc : ∀ i, coverCount rs i ≤ 1)
    (x : Range) (hx : x ∈ rs) (y : Range) (hy : y ∈ rs) (z : σ) :
    t y.start y.stop y.tid (t x.start x.stop x.tid z) = t x.start x.stop x.tid (t y.start y.stop y.tid z) := by
  by_cases hxy : x = y
  · subst hxy; rfl
  obtain ⟨hx1, hx2⟩ := hw x hx
  obtain ⟨hy1, hy2⟩ := hw y hy
  by_cases hxe : x.start = x.stop
  · rw [hxe, hnil, hnil]
  by_cases hye : y.start = y.stop
  · rw [hye, hnil, hnil]
  have hdis : ∀ i, ¬ (x.covers i = true ∧ y.covers i = true) := by
    rintro i ⟨h1, h2⟩
    have := coverCount_two_of_mem rs x y hx hy hxy i h1 h2
    have := hc i
    omega
  by_cases h1 : x.stop ≤ y.start
  · exact hcomm x.start x.stop y.start y.stop x.tid y.tid z (by omega) h1 (by omega) hy2
  by_cases h2 : y.stop ≤ x.start
  · exact (hcomm y.start y.stop x.start x.stop y.tid x.tid z (by omega) h2 (by omega) hx2).symm
  exfalso
  apply hdis (max x.start y.start)
  rw [covers_iff, covers_iff]
  omega

theorem runRanges_all_empty (t : Task σ) (hnil : ∀ s tid h, t s s tid h = h) (rs : List Range)
    (he : ∀ r ∈ rs, r.start = r.stop) (h : σ) : runRanges t rs h = h := by
  induction rs generalizing h with
  | nil => rfl
  | cons r rs ih =>
    simp only [runRanges, List.foldl_cons] at *
    rw [he r List.mem_cons_self, hnil]
    exact ih (fun r' hr' => he r' (List.mem_cons_of_mem _ hr')) h

theorem runRanges_partitionOn (t : Task σ) (len : Nat)
    (hnil : ∀ s tid h, t s s tid h = h)
    (hsplit : ∀ s m e tid tid' h, s ≤ m → m ≤ e → e ≤ len → t s e tid h = t m e tid' (t s m tid h))
    (hcomm : ∀ a b c d tid tid' h, a < b → b ≤ c → c < d → d ≤ len →
      t c d tid' (t a b tid h) = t a b tid (t c d tid' h))
    (b : Nat) (hb : b ≤ len) (n : Nat) :
    ∀ (rs : List Range), rs.length = n → ∀ (a : Nat) (h : σ), a ≤ b → IsPartitionOn a b rs →
      runRanges t rs h = t a b 0 h := by
  induction n with
  | zero =>
    intro rs hn a h hab hp
    have : rs = [] := List.length_eq_zero_iff.mp hn
    subst this
    have : a = b := by
      by_contra hne
      have := hp.2.1 a (Nat.le_refl a) (by omega)
      simp [coverCount] at this
    subst this
    rw [hnil]; rfl
  | succ n ih =>
    intro rs hn a h hab hp
    by_cases hab' : a = b
    · subst hab'
      rw [hnil]
      apply runRanges_all_empty t hnil
      intro r hr
      obtain ⟨h1, h2⟩ := hp.1 r hr
      by_contra hne
      have hc : r.covers r.start = true := by rw [covers_iff]; omega
      have := coverCount_pos_of_mem rs r hr r.start hc
      have := hp.2.2 r.start (by omega)
      omega
    · have hlt : a < b := by omega
      -- the unique range covering `a`
      have h1 := hp.2.1 a (Nat.le_refl a) hlt
      have hex : ∃ r ∈ rs, r.covers a = true := by
        unfold coverCount at h1
        have : 0 < (rs.filter fun r => r.covers a).length := by omega
        obtain ⟨r, hr⟩ := List.exists_mem_of_length_pos this
        exact ⟨r, (List.mem_filter.mp hr).1, (List.mem_filter.mp hr).2⟩
      obtain ⟨r, hr, hra⟩ := hex
      have hra' := (covers_iff r a).mp hra
      obtain ⟨hw1, hw2⟩ := hp.1 r hr
      have hstart : r.start = a := by
        by_contra hne
        have hc : r.covers r.start = true := by rw [covers_iff]; omega
        have := coverCount_pos_of_mem rs r hr r.start hc
        have := hp.2.2 r.start (by omega)
        omega
      have hperm := List.perm_cons_erase hr
      have hwl : ∀ r ∈ rs, r.start ≤ r.stop ∧ r.stop ≤ len := fun r' hr' =>
        ⟨(hp.1 r' hr').1, Nat.le_trans (hp.1 r' hr').2 hb⟩
      have e1 : runRanges t rs h = runRanges t (r :: rs.erase r) h := by
        unfold runRanges
        apply List.Perm.foldl_eq' hperm
        intro x hx y hy z
        exact range_comm t len hnil hcomm rs hwl (isPartitionOn_le_one a b rs hp) x hx y hy z
      have hp' : IsPartitionOn r.stop b (rs.erase r) := by
        refine ⟨fun r' hr' => hp.1 r' (List.mem_of_mem_erase hr'), ?_, ?_⟩
        · intro i hi1 hi2
          have := hp.2.1 i (by omega) hi2
          rw [coverCount_perm _ _ hperm, coverCount_cons] at this
          have hn : ¬ r.covers i = true := by rw [covers_iff]; omega
          rw [if_neg hn] at this
          omega
        · intro i hi
          by_cases hia : i < a
          · have := hp.2.2 i hia
            rw [coverCount_perm _ _ hperm, coverCount_cons] at this
            omega
          · have := hp.2.1 i (by omega) (by omega)
            rw [coverCount_perm _ _ hperm, coverCount_cons] at this
            have hc : r.covers i = true := by rw [covers_iff]; omega
            rw [if_pos hc] at this
            omega
      have hlen : (rs.erase r).length = n := by
        rw [List.length_erase_of_mem hr, hn]; rfl
      rw [e1]
      simp only [runRanges, List.foldl_cons]
      have := ih (rs.erase r) hlen r.stop (t r.start r.stop r.tid h) hw2 hp'
      simp only [runRanges] at this
      rw [this, hstart]
      rw [hsplit a r.stop b 0 0 h (by omega) hw2 hb]
      rw [task_tid_irrelevant t len hnil hsplit a r.stop r.tid 0 h (by omega) (by omega)]


/-! ### `Task.ofStep` of a footprint-respecting step is compositional -/

theorem exec_comm_ranges {step : Nat → Heap α → Heap α} {w : Nat → Addr} {r : Nat → List Addr}
    (fp : Footprint step w r) (len : Nat) (hna : NoCrossAlias len w r)
    (a b c d : Nat) (hb : b ≤ len) (hd : d ≤ len) (h : Heap α) :
    exec step c d (exec step a b h) = exec step a b (exec step c d h) := by
  rw [exec_eq_runList step c d, exec_eq_runList step a b, exec_eq_runList step a b, exec_eq_runList step c d,
    ← runList_append, ← runList_append]
  apply runList_perm fp len hna _ _ List.perm_append_comm
  intro i hi
  rcases List.mem_append.mp hi with hi | hi <;> rw [List.mem_range'_1] at hi <;> omega

theorem compositional_ofStep {step : Nat → Heap α → Heap α} {w : Nat → Addr} {r : Nat → List Addr}
    (fp : Footprint step w r) (len : Nat) (hna : NoCrossAlias len w r) :
    Compositional (Task.ofStep step) len where
  nil := fun s _ h => exec_empty step s s (Nat.le_refl s) h
  split := fun s m e _ _ h h1 h2 _ => exec_split' step s m e h1 h2 h
  comm := fun a b c d _ _ h _ hbc hcd hd => exec_comm_ranges fp len hna a b c d (by omega) hd h

/-! ### the two-function reduction (`extendBy (point)` in the task, `extendBy (box)` in the merge) -/

section twofun
variable {π : Type}

theorem reduceTask2_eq (extP : β → π → β) (extB : β → β → β) (ofPt : π → β)
    (hpt : ∀ b p, extP b p = extB b (ofPt p)) (pts : Nat → π) :
    reduceTask2 extP pts = reduceTask extB (fun p => ofPt (pts p)) := by
  funext s e tid
  unfold reduceTask2 reduceTask
  congr 1
  funext p P t
  simp only [reduceStep2, reduceStep, hpt]

/-- If extending by a point is extending by the degenerate box of that point, the literal two-function
    reduction is the one-function reduction on degenerate boxes. -/
theorem boxExtendBy2_eq_boxExtendBy (extP : β → π → β) (extB : β → β → β) (ofPt : π → β)
    (hpt : ∀ b p, extP b p = extB b (ofPt p)) (empty : β) (pool : Option Pool) (pts : Nat → π) (len : Nat) (box : β) :
    boxExtendBy2 extP extB empty pool pts len box =
      boxExtendBy extB empty pool (fun p => ofPt (pts p)) len box := by
  unfold boxExtendBy2 boxExtendBy
  rw [reduceTask2_eq extP extB ofPt hpt]

theorem foldPoints2_eq_foldPoints (extP : β → π → β) (extB : β → β → β) (ofPt : π → β)
    (hpt : ∀ b p, extP b p = extB b (ofPt p)) (pts : Nat → π) (len : Nat) (box : β) :
    foldPoints2 extP pts len box = foldPoints extB (fun p => ofPt (pts p)) len box := by
  unfold foldPoints2 foldPoints
  simp only [hpt]

end twofun

end ImathVerif.Dispatch
