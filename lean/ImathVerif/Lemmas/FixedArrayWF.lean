import ImathVerif.Lemmas.FixedArrayLemmas
import ImathVerif.Lemmas.SliceLemmas
/-!
Well-formed views, the abstraction of a view to the list of its elements, and the
read side of the refinement (C19).
-/
namespace ImathVerif.FixedArray
open ImathVerif

/-- `_indices[i]` (or `i` itself for an unmasked array) -/
def View.rawOf (v : View) (i : Nat) : Nat :=
  match v.indices with
  | some idx => idx.getD i 0
  | none => i

/-- position inside the allocation of virtual element `i` -/
def View.cellPos (v : View) (i : Nat) : Nat := v.pos (v.rawOf i)

/-- content of a heap cell (0 outside; only used inside) -/
def cellAt (h : Heap) (b p : Nat) : Int := ((h[b]?.getD [])[p]?).getD 0

/-- the elements of a view, as Python sees them -/
def View.toList (h : Heap) (v : View) : List Int :=
  (List.range v.length).map (fun i => cellAt h v.buf (v.cellPos i))

/-- A view is well formed w.r.t. the shape of the heap: its allocation exists, every element it can
    address lies inside it, the stride is positive, mask indices are strictly increasing and below the
    unmasked length, and the length fits `Py_ssize_t`. -/
structure View.WF (sh : List Nat) (v : View) : Prop where
  lenOk : (v.length : Int) ≤ PY_SSIZE_T_MAX
  stridePos : 0 < v.stride
  inBuf : ∃ n, sh[v.buf]? = some n ∧
    match v.indices with
    | none => ∀ i, i < v.length → v.pos i < n
    | some idx => idx.length = v.length ∧ (∀ r ∈ idx, r < v.unmaskedLength) ∧
        (∀ k, k < v.unmaskedLength → v.pos k < n) ∧ idx.Pairwise (· < ·)

theorem View.WF.cellPos_lt {sh : List Nat} {v : View} (w : v.WF sh) {i : Nat} (hi : i < v.length) :
    ∃ n, sh[v.buf]? = some n ∧ v.cellPos i < n := by
  obtain ⟨n, hn, hm⟩ := w.inBuf
  refine ⟨n, hn, ?_⟩
  unfold View.cellPos View.rawOf
  cases hidx : v.indices with
  | none => simp only [hidx] at hm ⊢; exact hm i hi
  | some idx =>
    simp only [hidx] at hm ⊢
    obtain ⟨h1, h2, h3, _⟩ := hm
    have : i < idx.length := by omega
    apply h3
    apply h2
    simp [List.getD_eq_getElem?_getD, List.getElem?_eq_getElem this]

theorem View.WF.elemIndex {sh : List Nat} {v : View} (w : v.WF sh) {i : Nat} (hi : i < v.length) :
    v.elemIndex i = .ok (v.rawOf i) := by
  unfold View.elemIndex View.isMasked View.rawPtrIndex View.rawOf
  obtain ⟨n, hn, hm⟩ := w.inBuf
  cases hidx : v.indices with
  | none => simp
  | some idx =>
    simp only [hidx] at hm
    have : i < idx.length := by omega
    simp [List.getD_eq_getElem?_getD, List.getElem?_eq_getElem this]

theorem View.WF.rawPtrIndex {sh : List Nat} {v : View} (w : v.WF sh) {i : Nat} (hi : i < v.length)
    (hm : v.isMasked = true) : v.rawPtrIndex i = .ok (v.rawOf i) := by
  have := w.elemIndex hi
  unfold View.elemIndex at this
  simpa [hm] using this

theorem rd_cellAt {h : Heap} {b p n : Nat} (hb : (shape h)[b]? = some n) (hp : p < n) :
    h.rd b p = .ok (cellAt h b p) := by
  rw [shape_getElem?] at hb
  cases hbuf : h[b]? with
  | none => simp [hbuf] at hb
  | some buf =>
    simp [hbuf] at hb
    subst hb
    rw [rd_of_lt hbuf hp]
    simp [cellAt, hbuf, List.getElem?_eq_getElem hp]

/-- reading element `i < len` of a well-formed view never leaves the buffer -/
theorem View.WF.get {h : Heap} {v : View} (w : v.WF (shape h)) {i : Nat} (hi : i < v.length) :
    v.get h i = .ok (cellAt h v.buf (v.cellPos i)) := by
  unfold View.get
  rw [w.elemIndex hi]
  obtain ⟨n, hn, hp⟩ := w.cellPos_lt hi
  exact rd_cellAt hn hp

theorem View.WF.readAll {h : Heap} {v : View} (w : v.WF (shape h)) :
    v.readAll h v.length = .ok (v.toList h) := by
  unfold View.readAll View.toList
  apply mapE_ok_of_forall
  intro i hi
  exact w.get (by simpa using hi)

theorem View.toList_length (h : Heap) (v : View) : (v.toList h).length = v.length := by
  simp [View.toList]

theorem View.toList_getElem? (h : Heap) (v : View) (i : Nat) (hi : i < v.length) :
    (v.toList h)[i]? = some (cellAt h v.buf (v.cellPos i)) := by
  simp [View.toList, hi]

/-- the abstraction only looks at the view's own buffer -/
theorem View.toList_congr {h h' : Heap} {v : View} (hb : h'[v.buf]? = h[v.buf]?) : v.toList h' = v.toList h := by
  simp [View.toList, cellAt, hb]

/-- well-formedness survives allocations -/
theorem View.WF.append {sh : List Nat} {v : View} (w : v.WF sh) (k : Nat) : v.WF (sh ++ [k]) := by
  obtain ⟨n, hn, hm⟩ := w.inBuf
  refine ⟨w.lenOk, w.stridePos, n, ?_, hm⟩
  have : v.buf < sh.length := (List.getElem?_eq_some_iff.1 hn).1
  simp [List.getElem?_append_left this, hn]

theorem shape_append (h : Heap) (vals : List Int) : shape (h ++ [vals]) = shape h ++ [vals.length] := by
  simp [shape]

/-- the dense array on a fresh allocation is well formed and holds exactly the allocated values -/
theorem alloc_WF (h : Heap) (vals : List Int) (hl : (vals.length : Int) ≤ PY_SSIZE_T_MAX) :
    (alloc h vals).2.WF (shape (alloc h vals).1) ∧ (alloc h vals).2.toList (alloc h vals).1 = vals := by
  constructor
  · refine ⟨hl, by simp [alloc], vals.length, ?_, ?_⟩
    · simp [alloc, shape]
    · simp only [alloc]
      intro i hi
      simpa [View.pos] using hi
  · simp only [alloc, View.toList, View.cellPos, View.rawOf, View.pos, cellAt]
    apply List.ext_getElem?
    intro i
    by_cases hi : i < vals.length
    · simp [hi]
    · simp [hi]

/-- where slice element `i` lives, for a position inside the array -/
theorem View.WF.sliceElemPos {sh : List Nat} {v : View} (w : v.WF sh) {s : SliceIdx} {i : Nat}
    (hlt : s.at i < v.length) : v.sliceElemPos s i = .ok (v.cellPos (s.at i)) := by
  unfold View.sliceElemPos
  by_cases hm : v.isMasked = true
  · simp only [hm, if_true, w.rawPtrIndex hlt hm]; rfl
  · have hm' : v.isMasked = false := by simpa using hm
    simp only [hm', Bool.false_eq_true, if_false]
    unfold View.cellPos View.rawOf
    unfold View.isMasked at hm'
    cases hidx : v.indices with
    | none => rfl
    | some idx => simp [hidx] at hm'

theorem View.WF.readSliceElem {h : Heap} {v : View} (w : v.WF (shape h)) {s : SliceIdx} {i : Nat}
    (hlt : s.at i < v.length) : v.readSliceElem h s i = .ok (cellAt h v.buf (v.cellPos (s.at i))) := by
  unfold View.readSliceElem
  rw [w.sliceElemPos hlt]
  obtain ⟨n, hn, hp⟩ := w.cellPos_lt hlt
  exact rd_cellAt hn hp

/-! ## reads refine the list operations -/

/-- **`a[i]` for an int `i`** (any sign): same element as the Python list, `IndexError` in exactly the same cases -/
theorem getitem_refines {h : Heap} {v : View} (w : v.WF (shape h)) (i : Int) :
    getitem h v i = (match PyList.getitem (v.toList h) i with
      | some x => .ok x
      | none => .error .indexError) := by
  have hspec := canonicalIndex_pylist (v.toList h) i
  rw [View.toList_length] at hspec
  unfold getitem
  cases hc : canonicalIndex v.length i with
  | ok k =>
    simp only [hc] at hspec ⊢
    have hk := canonicalIndex_lt hc
    rw [w.get hk, ← hspec, View.toList_getElem? h v k hk]
  | error e =>
    simp only [hc] at hspec ⊢
    rw [← hspec, (canonicalIndex_error hc).1]

theorem pick_range_map {α : Type} (l : List α) (f : Nat → Nat) (n : Nat) (hf : ∀ i, i < n → f i < l.length)
    (g : Nat → α) (hg : ∀ i, i < n → l[f i]? = some (g i)) :
    PyList.pick l ((List.range n).map f) = (List.range n).map g := by
  unfold PyList.pick
  rw [List.filterMap_map]
  induction n with
  | zero => simp
  | succ n ih =>
    rw [List.range_succ, List.filterMap_append, List.map_append,
      ih (fun i hi => hf i (by omega)) (fun i hi => hg i (by omega))]
    simp [hg n (by omega)]

/-- **`a[start:stop:step]`** (any signs): whenever the slice is accepted, the result is a fresh, dense,
    writable array holding exactly `list[start:stop:step]`; nothing else in the heap changes. -/
theorem getslice_refines {h : Heap} {v : View} (w : v.WF (shape h)) {a b c : Option Int}
    (hc : ∀ x, c = some x → -PY_SSIZE_T_MAX ≤ x) {h' : Heap} {f : View} {ms : Int}
    (hr : getslice h v (.slice a b c) ms = .ok (h', f)) :
    PyList.getslice (v.toList h) a b c = some (f.toList h') ∧
    f.WF (shape h') ∧ f.writable = true ∧ f.indices = none ∧ f.buf = h.length ∧
    (∃ vals, h' = h ++ [vals]) := by
  unfold getslice at hr
  cases hs : extractSliceIndices v.length (.slice a b c) (-1) ms with
  | error e => simp [hs] at hr
  | ok s =>
    simp only [hs] at hr
    have hat : ∀ i, i < s.slicelength → s.at i < v.length := fun i hi => slice_at_lt' w.lenOk hs i hi
    have hspec := extract_slice_spec w.lenOk hc hs
    -- every read succeeds
    have hread : mapE (v.readSliceElem h s) (List.range s.slicelength)
        = .ok ((List.range s.slicelength).map (fun i => cellAt h v.buf (v.cellPos (s.at i)))) := by
      apply mapE_ok_of_forall
      intro i hi
      have hi' : i < s.slicelength := by simpa using hi
      exact w.readSliceElem (hat i hi')
    rw [hread] at hr
    simp only [Except.ok.injEq] at hr
    have hlen : (((List.range s.slicelength).map (fun i => cellAt h v.buf (v.cellPos (s.at i)))).length : Int)
        ≤ PY_SSIZE_T_MAX := by
      have h1 : s.slicelength ≤ v.length := by
        -- the selected positions are distinct elements of `0..len-1`; enough: slicelength ≤ len via the spec list
        have hsp := hspec
        unfold PyList.sliceIndices at hsp
        -- direct arithmetic bound instead
        clear hsp
        obtain ⟨h1, h2, h3⟩ := extract_slice_form w.lenOk hc hs
        rcases h3 with ⟨hpos, hst, hl⟩ | ⟨hneg, hst, hl⟩
        · rw [hl]; unfold countUp
          have hE := boundUp_le (n := v.length) b (Nat.le_refl _)
          split
          · have : (PyList.boundUp v.length b v.length - PyList.boundUp v.length a 0 - 1) / s.step.toNat
              ≤ (PyList.boundUp v.length b v.length - PyList.boundUp v.length a 0 - 1) := Nat.div_le_self _ _
            omega
          · omega
        · rw [hl]; unfold countDown
          have hE := boundDown_range (n := v.length) b (d := -1) (by omega)
          have hSr := boundDown_range (n := v.length) a (d := (v.length : Int) - 1) (by omega)
          split
          · have : (PyList.boundDown v.length a ((v.length : Int) - 1) - PyList.boundDown v.length b (-1) - 1).toNat
                / (-s.step).toNat
              ≤ (PyList.boundDown v.length a ((v.length : Int) - 1) - PyList.boundDown v.length b (-1) - 1).toNat :=
              Nat.div_le_self _ _
            omega
          · omega
      have := w.lenOk
      simp only [List.length_map, List.length_range]
      omega
    have hA := alloc_WF h _ hlen
    rw [hr] at hA
    simp only at hA
    refine ⟨?_, hA.1, ?_, ?_, ?_, ?_⟩
    · unfold PyList.getslice
      rw [View.toList_length, hspec, hA.2]
      simp only [Option.map_some, Option.some.injEq]
      apply pick_range_map
      · intro i hi; rw [View.toList_length]; exact hat i hi
      · intro i hi; exact View.toList_getElem? h v _ (hat i hi)
    · have := congrArg (fun p => p.2.writable) hr; simpa [alloc] using this.symm
    · have := congrArg (fun p => p.2.indices) hr; simpa [alloc] using this.symm
    · have := congrArg (fun p => p.2.buf) hr; simpa [alloc] using this.symm
    · have := congrArg (fun p => p.1) hr; exact ⟨_, by simpa [alloc] using this.symm⟩

end ImathVerif.FixedArray

namespace ImathVerif.FixedArray
open ImathVerif

theorem map_getD_range {α β : Type} (l : List α) (d : α) (g : α → β) :
    (List.range l.length).map (fun i => g (l.getD i d)) = l.map g := by
  apply List.ext_getElem
  · simp
  · intro i h1 h2
    simp at h1
    simp [List.getD_eq_getElem?_getD, List.getElem?_eq_getElem h1]

theorem pick_map_of_lt {α : Type} (l : List α) (idx : List Nat) (g : Nat → α)
    (hg : ∀ j ∈ idx, l[j]? = some (g j)) : PyList.pick l idx = idx.map g := by
  unfold PyList.pick
  induction idx with
  | nil => rfl
  | cons a t ih =>
    simp only [List.filterMap_cons, hg a (by simp), List.map_cons]
    rw [ih (fun j hj => hg j (by simp [hj]))]

theorem maskIndices_mem {bits : List Int} {r : Nat} (h : r ∈ maskIndices bits) : r < bits.length := by
  unfold maskIndices at h
  simp at h
  exact h.1

theorem maskIndices_pairwise (bits : List Int) : (maskIndices bits).Pairwise (· < ·) := by
  unfold maskIndices
  exact List.Pairwise.filter _ List.pairwise_lt_range

theorem maskIndices_eq_spec (bits : List Int) : maskIndices bits = PyList.maskPositions bits := rfl

/-- **`a[mask]`**: for an unmasked array and a 0/1 (any non-zero = selected) mask of the same length the
    result is a reference — same allocation, same writability — whose elements are exactly the
    selected ones, in order. -/
theorem getsliceMask_refines {h : Heap} {f mask : View} (wf : f.WF (shape h)) (wm : mask.WF (shape h))
    (hun : f.indices = none) (hlen : f.length = mask.length) :
    ∃ m, getsliceMask h f mask = .ok m ∧
      m.toList h = PyList.select (f.toList h) (mask.toList h) ∧
      m.WF (shape h) ∧ m.buf = f.buf ∧ m.writable = f.writable ∧
      m.indices = some (PyList.maskPositions (mask.toList h)) := by
  unfold getsliceMask
  have hm : f.isMasked = false := by simp [View.isMasked, hun]
  simp only [hm, Bool.false_eq_true, if_false]
  have hmd : matchDimension f mask.length = .ok f.length := by simp [matchDimension, hlen]
  simp only [hmd]
  have hrd : mask.readAll h f.length = .ok (mask.toList h) := by rw [hlen]; exact wm.readAll
  simp only [hrd]
  refine ⟨_, rfl, ?_, ?_, rfl, rfl, rfl⟩
  · -- elements
    have hbl : (mask.toList h).length = f.length := by rw [View.toList_length, hlen]
    unfold PyList.select
    rw [← maskIndices_eq_spec]
    rw [pick_map_of_lt (f.toList h) (maskIndices (mask.toList h)) (fun j => cellAt h f.buf (f.pos j))]
    · simp only [View.toList, View.cellPos, View.rawOf]
      exact map_getD_range (maskIndices (mask.toList h)) 0 (fun r => cellAt h f.buf (f.pos r))
    · intro j hj
      have hjl : j < f.length := by have := maskIndices_mem hj; omega
      rw [View.toList_getElem? h f j hjl]
      simp [View.cellPos, View.rawOf, hun]
  · -- well-formedness
    obtain ⟨n, hn, hp⟩ := wf.inBuf
    simp only [hun] at hp
    have hbl : (mask.toList h).length = f.length := by rw [View.toList_length, hlen]
    refine ⟨?_, wf.stridePos, n, hn, ?_⟩
    · have h1 : (maskIndices (mask.toList h)).length ≤ (mask.toList h).length := by
        unfold maskIndices
        have := List.length_filter_le (fun i => (mask.toList h)[i]! != 0) (List.range (mask.toList h).length)
        simpa using this
      have := wf.lenOk
      simp only
      omega
    · simp only
      refine ⟨trivial, ?_, ?_, maskIndices_pairwise _⟩
      · intro r hr; have := maskIndices_mem hr; omega
      · intro k hk; exact hp k hk

end ImathVerif.FixedArray

namespace ImathVerif.FixedArray
open ImathVerif

/-- once the subscript is accepted, `getslice` cannot fail (every read is inside the buffer) -/
theorem getslice_ok {h : Heap} {v : View} (w : v.WF (shape h)) {idx : PyIdx} {s : SliceIdx} {ms : Int}
    (hs : extractSliceIndices v.length idx (-1) ms = .ok s) : ∃ r, getslice h v idx ms = .ok r := by
  have hread : mapE (v.readSliceElem h s) (List.range s.slicelength)
      = .ok ((List.range s.slicelength).map (fun i => cellAt h v.buf (v.cellPos (s.at i)))) := by
    apply mapE_ok_of_forall
    intro i hi
    exact w.readSliceElem (slice_at_lt' w.lenOk hs i (by simpa using hi))
  unfold getslice
  simp only [hs, hread]
  exact ⟨_, rfl⟩

end ImathVerif.FixedArray
