import ImathVerif.Lemmas.C13Shapes
import Mathlib.Algebra.Order.Ring.Abs
import Mathlib.Algebra.Order.Field.Basic
import Mathlib.Algebra.Order.Group.Abs
import Mathlib.Tactic.Linarith
import Mathlib.Tactic.Ring
/-!
# C13: lemmas for `clip` / `closestPointOnBox` (nearest-point facts)

Gen-free mathematics: the per-axis clamp is nearest; `InsideChoice` (an interior point moved to the face with the
smallest of the six face distances) is on the surface and nearest among surface points.  The induction principle
over the 69 extracted paths of `closestPointOnBox` (`Box3.closestPointOnBox_cases`) lives in Props/C13.lean.
-/
set_option linter.unusedTactic false
set_option linter.unreachableTactic false
set_option linter.unusedVariables false
set_option linter.unusedSimpArgs false
set_option linter.unnecessarySeqFocus false
namespace ImathVerif.C13
open ImathVerif
variable {α : Type}

/-- per axis, the clipped coordinate is at least as close to `a` as any coordinate of the interval -/
theorem sclamp_nearest [AddCommGroup α] [LinearOrder α] [IsOrderedAddMonoid α] (a l h q : α) (h1 : l ≤ q) (h2 : q ≤ h) :
    |sclamp a l h - a| ≤ |q - a| := by
  rcases sclamp_between a l h q h1 h2 with ⟨h3, h4⟩ | ⟨h3, h4⟩
  · rw [abs_of_nonneg (sub_nonneg.2 h3), abs_of_nonneg (sub_nonneg.2 (le_trans h3 h4))]
    exact sub_le_sub_right h4 a
  · rw [abs_of_nonpos (sub_nonpos.2 h4), abs_of_nonpos (sub_nonpos.2 (le_trans h3 h4))]
    exact neg_le_neg (sub_le_sub_right h3 a)

theorem ite_ind {c : Prop} [Decidable c] {β : Type} (P : β → Prop) {a b : β} (ha : c → P a) (hb : ¬ c → P b) :
    P (ite c a b) := by
  by_cases h : c
  · rw [if_pos h]; exact ha h
  · rw [if_neg h]; exact hb h

/-- which face an interior point is moved to: the face whose distance is minimal among the six -/
def Box3.InsideChoice [LE α] [Sub α] (p : V3 α) (b : Box3 α) (q : V3 α) : Prop :=
  (q = ⟨b.min.x, p.y, p.z⟩ ∧ (p.x - b.min.x) ≤ (b.max.x - p.x) ∧ (p.x - b.min.x) ≤ (p.y - b.min.y) ∧ (p.x - b.min.x) ≤ (b.max.y - p.y) ∧ (p.x - b.min.x) ≤ (p.z - b.min.z) ∧ (p.x - b.min.x) ≤ (b.max.z - p.z)) ∨
  (q = ⟨b.max.x, p.y, p.z⟩ ∧ (b.max.x - p.x) ≤ (p.x - b.min.x) ∧ (b.max.x - p.x) ≤ (p.y - b.min.y) ∧ (b.max.x - p.x) ≤ (b.max.y - p.y) ∧ (b.max.x - p.x) ≤ (p.z - b.min.z) ∧ (b.max.x - p.x) ≤ (b.max.z - p.z)) ∨
  (q = ⟨p.x, b.min.y, p.z⟩ ∧ (p.y - b.min.y) ≤ (p.x - b.min.x) ∧ (p.y - b.min.y) ≤ (b.max.x - p.x) ∧ (p.y - b.min.y) ≤ (b.max.y - p.y) ∧ (p.y - b.min.y) ≤ (p.z - b.min.z) ∧ (p.y - b.min.y) ≤ (b.max.z - p.z)) ∨
  (q = ⟨p.x, b.max.y, p.z⟩ ∧ (b.max.y - p.y) ≤ (p.x - b.min.x) ∧ (b.max.y - p.y) ≤ (b.max.x - p.x) ∧ (b.max.y - p.y) ≤ (p.y - b.min.y) ∧ (b.max.y - p.y) ≤ (p.z - b.min.z) ∧ (b.max.y - p.y) ≤ (b.max.z - p.z)) ∨
  (q = ⟨p.x, p.y, b.min.z⟩ ∧ (p.z - b.min.z) ≤ (p.x - b.min.x) ∧ (p.z - b.min.z) ≤ (b.max.x - p.x) ∧ (p.z - b.min.z) ≤ (p.y - b.min.y) ∧ (p.z - b.min.z) ≤ (b.max.y - p.y) ∧ (p.z - b.min.z) ≤ (b.max.z - p.z)) ∨
  (q = ⟨p.x, p.y, b.max.z⟩ ∧ (b.max.z - p.z) ≤ (p.x - b.min.x) ∧ (b.max.z - p.z) ≤ (b.max.x - p.x) ∧ (b.max.z - p.z) ≤ (p.y - b.min.y) ∧ (b.max.z - p.z) ≤ (b.max.y - p.y) ∧ (b.max.z - p.z) ≤ (p.z - b.min.z))

section ring
variable [CommRing α] [LinearOrder α] [IsStrictOrderedRing α]

def V3.dist2 (a b : V3 α) : α := (a.x - b.x) ^ 2 + (a.y - b.y) ^ 2 + (a.z - b.z) ^ 2

theorem sq_le_sq_of_between (a c q : α) (h : (a ≤ c ∧ c ≤ q) ∨ (q ≤ c ∧ c ≤ a)) : (c - a) ^ 2 ≤ (q - a) ^ 2 := by
  rcases h with ⟨h1, h2⟩ | ⟨h1, h2⟩
  · exact pow_le_pow_left₀ (sub_nonneg.2 h1) (sub_le_sub_right h2 a) 2
  · have : (a - c) ^ 2 ≤ (a - q) ^ 2 := pow_le_pow_left₀ (sub_nonneg.2 h2) (sub_le_sub_left h1 a) 2
    calc (c - a) ^ 2 = (a - c) ^ 2 := by ring
      _ ≤ (a - q) ^ 2 := this
      _ = (q - a) ^ 2 := by ring

theorem sq_le_sq_of_le_abs (d e : α) (h0 : 0 ≤ d) (h : d ≤ e) : d ^ 2 ≤ e ^ 2 := pow_le_pow_left₀ h0 h 2

/-- a point of the surface is at least `d` away from an interior point all of whose six face distances are ≥ d -/
theorem inside_core (p s : V3 α) (b : Box3 α) (d : α) (hd0 : 0 ≤ d)
    (hx1 : d ≤ p.x - b.min.x) (hx2 : d ≤ b.max.x - p.x) (hy1 : d ≤ p.y - b.min.y) (hy2 : d ≤ b.max.y - p.y)
    (hz1 : d ≤ p.z - b.min.z) (hz2 : d ≤ b.max.z - p.z)
    (hs : s.x = b.min.x ∨ s.x = b.max.x ∨ s.y = b.min.y ∨ s.y = b.max.y ∨ s.z = b.min.z ∨ s.z = b.max.z) :
    d ^ 2 ≤ V3.dist2 s p := by
  have a1 := sq_nonneg (s.x - p.x); have a2 := sq_nonneg (s.y - p.y); have a3 := sq_nonneg (s.z - p.z)
  unfold V3.dist2
  rcases hs with h | h | h | h | h | h <;> rw [h]
  · have := sq_le_sq_of_le_abs _ _ hd0 hx1
    have e : (b.min.x - p.x) ^ 2 = (p.x - b.min.x) ^ 2 := by ring
    linarith
  · have := sq_le_sq_of_le_abs _ _ hd0 hx2; linarith
  · have := sq_le_sq_of_le_abs _ _ hd0 hy1
    have e : (b.min.y - p.y) ^ 2 = (p.y - b.min.y) ^ 2 := by ring
    linarith
  · have := sq_le_sq_of_le_abs _ _ hd0 hy2; linarith
  · have := sq_le_sq_of_le_abs _ _ hd0 hz1
    have e : (b.min.z - p.z) ^ 2 = (p.z - b.min.z) ^ 2 := by ring
    linarith
  · have := sq_le_sq_of_le_abs _ _ hd0 hz2; linarith


/-- Euclidean form of "clip is the nearest point of the box" -/
theorem Box3.clipN_dist2_le (p q : V3 α) (b : Box3 α) (hq : Box3.Mem q b) :
    V3.dist2 (Box3.clipN p b) p ≤ V3.dist2 q p := by
  obtain ⟨⟨q1, q2⟩, ⟨q3, q4⟩, ⟨q5, q6⟩⟩ := hq
  unfold V3.dist2 Box3.clipN
  exact add_le_add (add_le_add (sq_le_sq_of_between _ _ _ (sclamp_between _ _ _ _ q1 q2))
    (sq_le_sq_of_between _ _ _ (sclamp_between _ _ _ _ q3 q4))) (sq_le_sq_of_between _ _ _ (sclamp_between _ _ _ _ q5 q6))

theorem Box3.insideChoice_nearest (p q s : V3 α) (b : Box3 α) (hp : Box3.Mem p b) (hq : Box3.InsideChoice p b q)
    (hs : s.x = b.min.x ∨ s.x = b.max.x ∨ s.y = b.min.y ∨ s.y = b.max.y ∨ s.z = b.min.z ∨ s.z = b.max.z) :
    V3.dist2 q p ≤ V3.dist2 s p := by
  obtain ⟨⟨p1, p2⟩, ⟨p3, p4⟩, ⟨p5, p6⟩⟩ := hp
  rcases hq with ⟨rfl, h1, h2, h3, h4, h5⟩ | ⟨rfl, h1, h2, h3, h4, h5⟩ | ⟨rfl, h1, h2, h3, h4, h5⟩ |
    ⟨rfl, h1, h2, h3, h4, h5⟩ | ⟨rfl, h1, h2, h3, h4, h5⟩ | ⟨rfl, h1, h2, h3, h4, h5⟩
  · refine le_trans (le_of_eq ?_) (inside_core p s b (p.x - b.min.x) (sub_nonneg.2 p1) (le_refl _) h1 h2 h3 h4 h5 hs)
    simp only [V3.dist2]; ring
  · refine le_trans (le_of_eq ?_) (inside_core p s b (b.max.x - p.x) (sub_nonneg.2 p2) h1 (le_refl _) h2 h3 h4 h5 hs)
    simp only [V3.dist2]; ring
  · refine le_trans (le_of_eq ?_) (inside_core p s b (p.y - b.min.y) (sub_nonneg.2 p3) h1 h2 (le_refl _) h3 h4 h5 hs)
    simp only [V3.dist2]; ring
  · refine le_trans (le_of_eq ?_) (inside_core p s b (b.max.y - p.y) (sub_nonneg.2 p4) h1 h2 h3 (le_refl _) h4 h5 hs)
    simp only [V3.dist2]; ring
  · refine le_trans (le_of_eq ?_) (inside_core p s b (p.z - b.min.z) (sub_nonneg.2 p5) h1 h2 h3 h4 (le_refl _) h5 hs)
    simp only [V3.dist2]; ring
  · refine le_trans (le_of_eq ?_) (inside_core p s b (b.max.z - p.z) (sub_nonneg.2 p6) h1 h2 h3 h4 h5 (le_refl _) hs)
    simp only [V3.dist2]; ring

end ring

section order
variable [LinearOrder α]

/-- the clip of a point outside a non-inverted box lies on the surface -/
theorem Box3.clipN_onSurface (p : V3 α) (b : Box3 α) (hb : ¬ Box3.Inverted b) (hp : ¬ Box3.Mem p b) :
    Box3.OnSurface (Box3.clipN p b) b := by
  refine ⟨Box3.clipN_mem p b hb, ?_⟩
  simp only [Box3.Mem, not_and_or, not_le] at hp
  simp only [Box3.clipN, sclamp]
  simp only [Box3.Inverted, not_or, not_lt] at hb
  obtain ⟨b1, b2, b3⟩ := hb
  rcases hp with (h | h) | (h | h) | (h | h)
  · left; rw [if_pos h]
  · right; left; rw [if_neg (by order), if_pos h]
  · right; right; left; rw [if_pos h]
  · right; right; right; left; rw [if_neg (by order), if_pos h]
  · right; right; right; right; left; rw [if_pos h]
  · right; right; right; right; right; rw [if_neg (by order), if_pos h]

theorem Box3.insideChoice_onSurface [Sub α] (p q : V3 α) (b : Box3 α) (hp : Box3.Mem p b) (hq : Box3.InsideChoice p b q) :
    Box3.OnSurface q b := by
  obtain ⟨⟨p1, p2⟩, ⟨p3, p4⟩, ⟨p5, p6⟩⟩ := hp
  rcases hq with ⟨rfl, -⟩ | ⟨rfl, -⟩ | ⟨rfl, -⟩ | ⟨rfl, -⟩ | ⟨rfl, -⟩ | ⟨rfl, -⟩ <;>
    refine ⟨⟨⟨?_, ?_⟩, ⟨?_, ?_⟩, ⟨?_, ?_⟩⟩, ?_⟩ <;> first | order | simp
end order
end ImathVerif.C13
