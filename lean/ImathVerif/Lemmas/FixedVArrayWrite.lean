import ImathVerif.Lemmas.FixedVArrayLemmas
import ImathVerif.Lemmas.GridWrite
/-!
FixedVArray writes refine nested-list updates (C19): `va[i][j] = x`, `va[idx] = row`, `va[mask] = row`, `va[idx] = vb`,
`va[mask] = vb`, `va.size[idx] = k`, `va.size[mask] = k`, `va.size[idx] = sizes`, `va.size[mask] = sizes`.
All statements are about the success path; a row-length mismatch raises in the middle of the loop (the model keeps the
partial heap, see `Model/FixedVArray.lean`) and is outside the nested-list specification.
-/
namespace ImathVerif.FixedVArray
open ImathVerif ImathVerif.FixedArray

theorem resizeRow_eq_spec (r : List Int) (k : Nat) : resizeRow r k = PyList.resize r k := rfl

theorem VView.WF.slotOf_inj {sh : List Nat} {v : VView} (w : v.WF sh) {i j : Nat} (hi : i < v.length) (hj : j < v.length)
    (he : v.slotOf i = v.slotOf j) : i = j := by
  unfold VView.slotOf at he
  obtain ⟨n, _, hm⟩ := w.inBuf
  cases hidx : v.indices with
  | none => simpa [hidx] using he
  | some idx =>
    simp only [hidx] at hm he
    obtain ⟨h1, _, hpw⟩ := hm
    have hi' : i < idx.length := by omega
    have hj' : j < idx.length := by omega
    simp only [List.getD_eq_getElem?_getD, List.getElem?_eq_getElem hi', List.getElem?_eq_getElem hj',
      Option.getD_some] at he
    rw [List.pairwise_iff_getElem] at hpw
    rcases Nat.lt_trichotomy i j with h | h | h
    · have := hpw i j hi' hj' h; omega
    · exact h
    · have := hpw j i hj' hi' h; omega

theorem wrV_ok_iff {h h' : VHeap} {b p : Nat} {r : List Int} :
    h.wr b p r = .ok h' ↔ ∃ rows, h[b]? = some rows ∧ p < rows.length ∧ h' = h.set b (rows.set p r) := by
  unfold VHeap.wr
  cases hb : h[b]? with
  | none => simp
  | some rows =>
    by_cases hp : p < rows.length
    · simp [hp, eq_comm]
    · simp [hp]

theorem VView.WF.rdSlot {h : VHeap} {v : VView} (w : v.WF (vshape h)) {i : Nat} (hi : i < v.length) :
    h.rd v.buf (v.slotOf i) = .ok (rowAt h v.buf (v.slotOf i)) := by
  obtain ⟨_, n, hn, hlt⟩ := w.slot hi
  exact rd_rowAt hn hlt

/-- one row store = `nested[i] = r`; nothing else changes -/
theorem VView.WF.store {h : VHeap} {v : VView} (w : v.WF (vshape h)) {i : Nat} (hi : i < v.length) (r : List Int) :
    ∃ h', h.wr v.buf (v.slotOf i) r = .ok h' ∧ vshape h' = vshape h ∧ (∀ b, b ≠ v.buf → h'[b]? = h[b]?) ∧
      v.toNested h' = (v.toNested h).set i r ∧ rowAt h' v.buf (v.slotOf i) = r ∧
      (∀ p, p ≠ v.slotOf i → rowAt h' v.buf p = rowAt h v.buf p) := by
  obtain ⟨_, n, hn, hlt⟩ := w.slot hi
  rw [vshape_getElem?] at hn
  cases hrows : h[v.buf]? with
  | none => simp [hrows] at hn
  | some rows =>
    simp [hrows] at hn
    subst hn
    have hbl : v.buf < h.length := (List.getElem?_eq_some_iff.1 hrows).1
    have hrow' : ∀ p, rowAt (h.set v.buf (rows.set (v.slotOf i) r)) v.buf p
        = if v.slotOf i = p then r else rowAt h v.buf p := by
      intro p
      unfold rowAt
      simp only [List.getElem?_set_self hbl, Option.getD_some, hrows]
      by_cases hp : v.slotOf i = p
      · subst hp; simp [hlt]
      · simp [List.getElem?_set_ne hp, hp]
    refine ⟨_, wrV_ok_iff.2 ⟨rows, hrows, hlt, rfl⟩, ?_, ?_, ?_, ?_, ?_⟩
    · unfold vshape
      apply List.ext_getElem?
      intro b
      by_cases hb : b = v.buf
      · subst hb
        have hg : h[v.buf] = rows := (List.getElem?_eq_some_iff.1 hrows).2
        simp [hbl, hg]
      · simp [List.getElem?_set_ne (Ne.symm hb)]
    · intro b hb; simp [List.getElem?_set_ne (Ne.symm hb)]
    · apply List.ext_getElem
      · simp [VView.toNested]
      · intro j h1 h2
        have hj : j < v.length := by simpa [VView.toNested] using h1
        simp only [VView.toNested, List.getElem_map, List.getElem_range, List.getElem_set]
        rw [hrow']
        by_cases hij : i = j
        · subst hij; simp
        · have : ¬ (v.slotOf i = v.slotOf j) := fun he => hij (w.slotOf_inj hi hj he)
          simp [hij, this]
    · rw [hrow']; simp
    · intro p hp
      rw [hrow']
      have : ¬ (v.slotOf i = p) := fun he => hp he.symm
      simp [this]

/-- the invariant of a write loop through `v`: same numbers of rows, only `v`'s allocation changes -/
def VInv (v : VView) (h h1 : VHeap) : Prop := vshape h1 = vshape h ∧ ∀ b, b ≠ v.buf → h1[b]? = h[b]?

theorem VInv.refl (v : VView) (h : VHeap) : VInv v h h := ⟨rfl, fun _ _ => rfl⟩

theorem rowAt_congr {h h1 : VHeap} {b : Nat} (hb : h1[b]? = h[b]?) (p : Nat) : rowAt h1 b p = rowAt h b p := by
  simp [rowAt, hb]

theorem rdV_congr {h h1 : VHeap} {b : Nat} (hb : h1[b]? = h[b]?) (p : Nat) : h1.rd b p = h.rd b p := by
  unfold VHeap.rd; rw [hb]

/-- loop rule (success path of `loopV`) -/
theorem loopV_abs {β : Type} (abs : VHeap → β) (Inv : VHeap → Prop) (body : Nat → VHeap → Except Err VHeap)
    (F : Nat → β → β) : ∀ (n i0 : Nat),
    (∀ i h, i0 ≤ i → i < i0 + n → Inv h → ∃ h', body i h = .ok h' ∧ Inv h' ∧ abs h' = F i (abs h)) →
    ∀ h, Inv h → ∃ h', loopV body n i0 h = (h', none) ∧ Inv h' ∧
      abs h' = (List.range' i0 n).foldl (fun b i => F i b) (abs h) := by
  intro n
  induction n with
  | zero => intro i0 _ h hi; exact ⟨h, rfl, hi, by simp⟩
  | succ n ih =>
    intro i0 hstep h hi
    obtain ⟨h1, hb, hi1, ha1⟩ := hstep i0 h (Nat.le_refl _) (by omega) hi
    obtain ⟨h2, hl, hi2, ha2⟩ := ih (i0 + 1) (fun i h' h1' h2' => hstep i h' (by omega) (by omega)) h1 hi1
    refine ⟨h2, by simp [loopV, hb, hl], hi2, ?_⟩
    rw [ha2, ha1, List.range'_succ, List.foldl_cons]

theorem VView.toNested_getElem?' (h : VHeap) (v : VView) {i : Nat} (hi : i < v.length) :
    (v.toNested h)[i]? = some (rowAt h v.buf (v.slotOf i)) := VView.toNested_getElem? h v i hi

/-! ## element write through a row reference -/

/-- **`va[i][j] = x`**: `nested[i][j] = x` (`IndexError` for `i`, then read-only, then `IndexError` for `j`) -/
theorem setElem_refines {h : VHeap} {v : VView} (w : v.WF (vshape h)) (hw : v.writable = true) {i j : Int} {ci cj : Nat}
    (hi : canonicalIndex v.length i = .ok ci)
    (hj : canonicalIndex ((v.toNested h).getD ci []).length j = .ok cj) (x : Int) :
    ∃ h', setElem h v i j x = .ok h' ∧ vshape h' = vshape h ∧
      v.toNested h' = (v.toNested h).set ci (((v.toNested h).getD ci []).set cj x) := by
  have hci := canonicalIndex_lt hi
  have hrow : (v.toNested h).getD ci [] = rowAt h v.buf (v.slotOf ci) := by
    simp [List.getD_eq_getElem?_getD, VView.toNested_getElem? h v ci hci]
  rw [hrow] at hj ⊢
  obtain ⟨h', hwr, hs, _, ht, _, _⟩ := w.store hci ((rowAt h v.buf (v.slotOf ci)).set cj x)
  refine ⟨h', ?_, hs, ht⟩
  unfold setElem rowSlot
  simp only [hi, (w.slot hci).1, w.rdSlot hci, hw, Bool.not_true, Bool.false_eq_true, if_false, hj]
  exact hwr

/-! ## `va[idx] = row` and `va[mask] = row` -/

/-- **`va[idx] = row`** (int or slice; every selected item has `len(row)` elements): `for p in positions: nested[p] = row` -/
theorem setRow_refines {h : VHeap} {v : VView} (w : v.WF (vshape h)) (hw : v.writable = true) {idx : PyIdx}
    {s : SliceIdx} (hs : extractV v.length idx = .ok s) (data : List Int)
    (hlen : ∀ a, a < s.slicelength → ((v.toNested h).getD (s.at a) []).length = data.length) :
    ∃ h', setRow h v idx data = (h', none) ∧ vshape h' = vshape h ∧
      v.toNested h' = PyList.setEach (v.toNested h) s.positions data := by
  have hat : ∀ a, a < s.slicelength → s.at a < v.length := fun a ha => slice_at_lt' w.lenOk hs a ha
  have hrowlen : ∀ a, a < s.slicelength → (rowAt h v.buf (v.slotOf (s.at a))).length = data.length := by
    intro a ha
    have := hlen a ha
    simpa [List.getD_eq_getElem?_getD, VView.toNested_getElem? h v _ (hat a ha)] using this
  obtain ⟨h', hl, hinv, ht⟩ := loopV_abs (fun h1 => v.toNested h1)
    (fun h1 => VInv v h h1 ∧ ∀ a, a < s.slicelength → (rowAt h1 v.buf (v.slotOf (s.at a))).length = data.length)
    (fun i h1 => match v.sliceSlot s i with
                 | .error e => .error e
                 | .ok p => assignRow v.buf data p h1)
    (fun a L => L.set (s.at a) data) s.slicelength 0
    (fun a h1 _ ha hi1 => by
      have ha' : a < s.slicelength := by omega
      have w1 : v.WF (vshape h1) := by rw [hi1.1.1]; exact w
      obtain ⟨h2, hwr, hs2, hother, ht2, hsame, hrest⟩ := w1.store (hat a ha') data
      refine ⟨h2, ?_, ⟨⟨hs2.trans hi1.1.1, fun b hb => (hother b hb).trans (hi1.1.2 b hb)⟩, ?_⟩, ht2⟩
      · simp only [VView.sliceSlot, (w.slot (hat a ha')).1, assignRow, w1.rdSlot (hat a ha')]
        have : ¬ (data.length ≠ (rowAt h1 v.buf (v.slotOf (s.at a))).length) := by simp [hi1.2 a ha']
        simp only [this, if_false]
        exact hwr
      · intro a' ha2
        by_cases hp : v.slotOf (s.at a') = v.slotOf (s.at a)
        · rw [hp, hsame]
        · rw [hrest _ hp]; exact hi1.2 a' ha2)
    h ⟨VInv.refl v h, hrowlen⟩
  refine ⟨h', ?_, hinv.1.1, ?_⟩
  · unfold setRow
    simp only [hw, Bool.not_true, Bool.false_eq_true, if_false, hs]
    exact hl
  · rw [ht]
    unfold PyList.setEach SliceIdx.positions
    rw [List.foldl_map, ← List.range_eq_range']

theorem foldl_filter_set {α : Type} (c : Nat → Bool) (g : Nat → List α → List α) (n : Nat) (L : List α) :
    (List.range' 0 n).foldl (fun L i => if c i then g i L else L) L
      = ((List.range n).filter c).foldl (fun L i => g i L) L := by
  rw [List.foldl_filter, ← List.range_eq_range']

/-- **`va[mask] = row`** on an unmasked array, mask of the array's length: `nested[i] = row` wherever `mask[i]` -/
theorem setRowMask_refines {h : VHeap} {v : VView} (w : v.WF (vshape h)) (hw : v.writable = true)
    (hun : v.indices = none) (bits : List Int) (hbl : bits.length = v.length) (data : List Int)
    (hlen : ∀ i ∈ PyList.maskPositions bits, ((v.toNested h).getD i []).length = data.length) :
    ∃ h', setRowMask h v bits data = (h', none) ∧ vshape h' = vshape h ∧
      v.toNested h' = PyList.setEach (v.toNested h) (PyList.maskPositions bits) data := by
  have hso : ∀ i, v.slotOf i = i := by intro i; simp [VView.slotOf, hun]
  have hmem : ∀ i, i < v.length → (bits[i]! != 0) = true → i ∈ PyList.maskPositions bits := by
    intro i hi hb
    simp only [PyList.maskPositions, List.mem_filter, List.mem_range]
    exact ⟨by omega, hb⟩
  obtain ⟨h', hl, hinv, ht⟩ := loopV_abs (fun h1 => v.toNested h1)
    (fun h1 => VInv v h h1 ∧ ∀ i, i < v.length → (bits[i]! != 0) = true → (rowAt h1 v.buf i).length = data.length)
    (fun i h1 => if bits[i]! != 0 then assignRow v.buf data i h1 else .ok h1)
    (fun i L => if bits[i]! != 0 then L.set i data else L) v.length 0
    (fun i h1 _ hi hi1 => by
      have hi' : i < v.length := by omega
      by_cases hb : (bits[i]! != 0) = true
      · have w1 : v.WF (vshape h1) := by rw [hi1.1.1]; exact w
        obtain ⟨h2, hwr, hs2, hother, ht2, hsame, hrest⟩ := w1.store hi' data
        rw [hso] at hwr hsame hrest
        refine ⟨h2, ?_, ⟨⟨hs2.trans hi1.1.1, fun b hb' => (hother b hb').trans (hi1.1.2 b hb')⟩, ?_⟩, by rw [if_pos hb]; exact ht2⟩
        · have hrd := w1.rdSlot hi'
          rw [hso] at hrd
          rw [if_pos hb]
          simp only [assignRow, hrd]
          have : ¬ (data.length ≠ (rowAt h1 v.buf i).length) := by simp [hi1.2 i hi' hb]
          simp only [this, if_false]
          exact hwr
        · intro i' hi2 hb2
          by_cases hp : i' = i
          · rw [hp, hsame]
          · rw [hrest _ hp]; exact hi1.2 i' hi2 hb2
      · exact ⟨h1, by rw [if_neg hb], hi1, by rw [if_neg hb]⟩)
    h ⟨VInv.refl v h, fun i hi hb => by
      have := hlen i (hmem i hi hb)
      simpa [List.getD_eq_getElem?_getD, VView.toNested_getElem? h v i hi, hso] using this⟩
  refine ⟨h', ?_, hinv.1.1, ?_⟩
  · unfold setRowMask
    have hm : v.isMasked = false := by simp [VView.isMasked, hun]
    simp only [hw, Bool.not_true, Bool.false_eq_true, if_false, matchDim, hbl, if_true, hm]
    exact hl
  · rw [ht, foldl_filter_set (fun i => bits[i]! != 0) (fun i L => L.set i data)]
    unfold PyList.setEach PyList.maskPositions
    rw [hbl]

/-! ## `va[idx] = vb` and `va[mask] = vb` -/

theorem foldl_set_zip {α : Type} (q : Nat → Nat) (d : Nat → α) (n : Nat) (L : List α) :
    (List.range' 0 n).foldl (fun L a => L.set (q a) (d a)) L
      = PyList.setZip L ((List.range n).map q) ((List.range n).map d) := by
  unfold PyList.setZip
  rw [FixedArray.zip_map_map, List.foldl_map, ← List.range_eq_range']

/-- **`va[idx] = vb`** (another variable array, in another allocation, with as many items as selected):
    `for p, row in zip(positions, vb): nested[p] = row` — rows are replaced whatever their lengths -/
theorem setVec_refines {h : VHeap} {v d : VView} (w : v.WF (vshape h)) (wd : d.WF (vshape h)) (hw : v.writable = true)
    (hne : d.buf ≠ v.buf) {idx : PyIdx} {s : SliceIdx} (hs : extractV v.length idx = .ok s)
    (hdl : d.length = s.slicelength) :
    ∃ h', setVec h v idx d = (h', none) ∧ vshape h' = vshape h ∧
      v.toNested h' = PyList.setZip (v.toNested h) s.positions (d.toNested h) := by
  have hat : ∀ a, a < s.slicelength → s.at a < v.length := fun a ha => slice_at_lt' w.lenOk hs a ha
  obtain ⟨h', hl, hinv, ht⟩ := loopV_abs (fun h1 => v.toNested h1) (VInv v h)
    (fun i h1 => match d.getItem h1 i with
                 | .error e => .error e
                 | .ok r => match v.sliceSlot s i with
                   | .error e => .error e
                   | .ok p => h1.wr v.buf p r)
    (fun a L => L.set (s.at a) (rowAt h d.buf (d.slotOf a))) s.slicelength 0
    (fun a h1 _ ha hi1 => by
      have ha' : a < s.slicelength := by omega
      have w1 : v.WF (vshape h1) := by rw [hi1.1]; exact w
      have wd1 : d.WF (vshape h1) := by rw [hi1.1]; exact wd
      obtain ⟨h2, hwr, hs2, hother, ht2, _, _⟩ := w1.store (hat a ha') (rowAt h d.buf (d.slotOf a))
      refine ⟨h2, ?_, ⟨hs2.trans hi1.1, fun b hb => (hother b hb).trans (hi1.2 b hb)⟩, ht2⟩
      rw [wd1.getItem (by omega), rowAt_congr (hi1.2 _ hne)]
      simp only [VView.sliceSlot, (w.slot (hat a ha')).1]
      exact hwr)
    h (VInv.refl v h)
  refine ⟨h', ?_, hinv.1, ?_⟩
  · unfold setVec
    have : ¬ (d.length ≠ s.slicelength) := by simp [hdl]
    simp only [hw, Bool.not_true, Bool.false_eq_true, if_false, hs, this]
    exact hl
  · rw [ht, foldl_set_zip]
    unfold SliceIdx.positions VView.toNested
    rw [hdl]

/-- **`va[mask] = vb`**, `len(vb) == len(va)` (unmasked `va`; mask of its length; `vb` in another allocation):
    `nested[i] = vb[i]` wherever `mask[i]` -/
theorem setVecMask_same_refines {h : VHeap} {v d : VView} (w : v.WF (vshape h)) (wd : d.WF (vshape h))
    (hw : v.writable = true) (hun : v.indices = none) (hne : d.buf ≠ v.buf) (bits : List Int)
    (hbl : bits.length = v.length) (hdl : d.length = v.length) :
    ∃ h', setVecMask h v bits d = (h', none) ∧ vshape h' = vshape h ∧
      v.toNested h' = PyList.setMaskSame (v.toNested h) bits (d.toNested h) := by
  have hso : ∀ i, v.slotOf i = i := by intro i; simp [VView.slotOf, hun]
  obtain ⟨h', hl, hinv, ht⟩ := loopV_abs (fun h1 => v.toNested h1) (VInv v h)
    (fun i h1 => if bits[i]! != 0 then (match d.getItem h1 i with
        | .error e => .error e
        | .ok r => h1.wr v.buf i r) else .ok h1)
    (fun i L => if bits[i]! != 0 then L.set i (rowAt h d.buf (d.slotOf i)) else L) v.length 0
    (fun i h1 _ hi hi1 => by
      have hi' : i < v.length := by omega
      by_cases hb : (bits[i]! != 0) = true
      · have w1 : v.WF (vshape h1) := by rw [hi1.1]; exact w
        have wd1 : d.WF (vshape h1) := by rw [hi1.1]; exact wd
        obtain ⟨h2, hwr, hs2, hother, ht2, _, _⟩ := w1.store hi' (rowAt h d.buf (d.slotOf i))
        rw [hso] at hwr
        refine ⟨h2, ?_, ⟨hs2.trans hi1.1, fun b hb' => (hother b hb').trans (hi1.2 b hb')⟩, by rw [if_pos hb]; exact ht2⟩
        rw [if_pos hb, wd1.getItem (by omega), rowAt_congr (hi1.2 _ hne)]
        exact hwr
      · exact ⟨h1, by rw [if_neg hb], hi1, by rw [if_neg hb]⟩)
    h (VInv.refl v h)
  refine ⟨h', ?_, hinv.1, ?_⟩
  · unfold setVecMask
    have hm : v.isMasked = false := by simp [VView.isMasked, hun]
    simp only [hw, Bool.not_true, Bool.false_eq_true, if_false, hm, matchDim, hbl, if_true, hdl]
    exact hl
  · rw [ht, foldl_filter_set (fun i => bits[i]! != 0) (fun i L => L.set i (rowAt h d.buf (d.slotOf i)))]
    unfold PyList.setMaskSame PyList.setZip PyList.maskPositions
    rw [hbl]
    have hpick : PyList.pick (d.toNested h) ((List.range v.length).filter (fun i => bits[i]! != 0))
        = ((List.range v.length).filter (fun i => bits[i]! != 0)).map (fun i => rowAt h d.buf (d.slotOf i)) := by
      apply pick_map_of_lt
      intro j hj
      have hj' : j < d.length := by have := (List.mem_filter.1 hj).1; simp at this; omega
      exact VView.toNested_getElem? h d j hj'
    rw [hpick]
    have := FixedArray.zip_map_map ((List.range v.length).filter (fun i => bits[i]! != 0)) id
      (fun i => rowAt h d.buf (d.slotOf i))
    simp only [List.map_id] at this
    rw [this, List.foldl_map]
    rfl

/-! ## `va.size[...] = ...` -/

theorem set_eq_modifyAt {α : Type} {L : List α} {p : Nat} {r : α} (hp : L[p]? = some r) (f : α → α) :
    L.set p (f r) = PyList.modifyAt L p f := by
  simp [PyList.modifyAt, hp]

/-- one resize = `nested[i] = resize(nested[i], k)` -/
theorem VView.WF.resizeStep {h : VHeap} {v : VView} (w : v.WF (vshape h)) {i : Nat} (hi : i < v.length) (k : Nat) :
    ∃ h', resizeAt v.buf k (v.slotOf i) h = .ok h' ∧ vshape h' = vshape h ∧ (∀ b, b ≠ v.buf → h'[b]? = h[b]?) ∧
      v.toNested h' = PyList.modifyAt (v.toNested h) i (fun r => PyList.resize r k) := by
  obtain ⟨h', hwr, hs, ho, ht, _, _⟩ := w.store hi (resizeRow (rowAt h v.buf (v.slotOf i)) k)
  refine ⟨h', ?_, hs, ho, ?_⟩
  · simp only [resizeAt, w.rdSlot hi]; exact hwr
  · rw [ht, resizeRow_eq_spec]
    exact set_eq_modifyAt (VView.toNested_getElem? h v i hi) (fun r => PyList.resize r k)

/-- **`va.size[idx] = k`**: every selected row is truncated / zero-extended to `k` elements -/
theorem setSize_refines {h : VHeap} {v : VView} (w : v.WF (vshape h)) (hw : v.writable = true) {idx : PyIdx}
    {s : SliceIdx} (hs : extractV v.length idx = .ok s) (k : Nat) :
    ∃ h', setSize h v idx k = (h', none) ∧ vshape h' = vshape h ∧
      v.toNested h' = PyList.modifyEach (v.toNested h) s.positions (fun r => PyList.resize r k) := by
  have hat : ∀ a, a < s.slicelength → s.at a < v.length := fun a ha => slice_at_lt' w.lenOk hs a ha
  obtain ⟨h', hl, hinv, ht⟩ := loopV_abs (fun h1 => v.toNested h1) (VInv v h)
    (fun i h1 => match v.sliceSlot s i with
                 | .error e => .error e
                 | .ok p => resizeAt v.buf k p h1)
    (fun a L => PyList.modifyAt L (s.at a) (fun r => PyList.resize r k)) s.slicelength 0
    (fun a h1 _ ha hi1 => by
      have ha' : a < s.slicelength := by omega
      have w1 : v.WF (vshape h1) := by rw [hi1.1]; exact w
      obtain ⟨h2, hr, hs2, hother, ht2⟩ := w1.resizeStep (hat a ha') k
      refine ⟨h2, ?_, ⟨hs2.trans hi1.1, fun b hb => (hother b hb).trans (hi1.2 b hb)⟩, ht2⟩
      simp only [VView.sliceSlot, (w.slot (hat a ha')).1]
      exact hr)
    h (VInv.refl v h)
  refine ⟨h', ?_, hinv.1, ?_⟩
  · unfold setSize
    simp only [hw, Bool.not_true, Bool.false_eq_true, if_false, hs]
    exact hl
  · rw [ht]
    unfold PyList.modifyEach SliceIdx.positions
    rw [List.foldl_map, ← List.range_eq_range']

/-- **`va.size[idx] = sizes`** (an `IntArray` with one non-negative size per selected item) -/
theorem setSizeVec_refines {h : VHeap} {v : VView} (w : v.WF (vshape h)) (hw : v.writable = true) {idx : PyIdx}
    {s : SliceIdx} (hs : extractV v.length idx = .ok s) (sizes : List Int) (hsl : sizes.length = s.slicelength) :
    ∃ h', setSizeVec h v idx sizes = (h', none) ∧ vshape h' = vshape h ∧
      v.toNested h' = PyList.modifyZip (v.toNested h) s.positions sizes (fun k r => PyList.resize r k.toNat) := by
  have hat : ∀ a, a < s.slicelength → s.at a < v.length := fun a ha => slice_at_lt' w.lenOk hs a ha
  obtain ⟨h', hl, hinv, ht⟩ := loopV_abs (fun h1 => v.toNested h1) (VInv v h)
    (fun i h1 => match v.sliceSlot s i with
                 | .error e => .error e
                 | .ok p => resizeAt v.buf (sizes[i]!).toNat p h1)
    (fun a L => PyList.modifyAt L (s.at a) (fun r => PyList.resize r (sizes[a]!).toNat)) s.slicelength 0
    (fun a h1 _ ha hi1 => by
      have ha' : a < s.slicelength := by omega
      have w1 : v.WF (vshape h1) := by rw [hi1.1]; exact w
      obtain ⟨h2, hr, hs2, hother, ht2⟩ := w1.resizeStep (hat a ha') (sizes[a]!).toNat
      refine ⟨h2, ?_, ⟨hs2.trans hi1.1, fun b hb => (hother b hb).trans (hi1.2 b hb)⟩, ht2⟩
      simp only [VView.sliceSlot, (w.slot (hat a ha')).1]
      exact hr)
    h (VInv.refl v h)
  refine ⟨h', ?_, hinv.1, ?_⟩
  · unfold setSizeVec
    have : ¬ (sizes.length ≠ s.slicelength) := by simp [hsl]
    simp only [hw, Bool.not_true, Bool.false_eq_true, if_false, hs, this]
    exact hl
  · rw [ht]
    unfold PyList.modifyZip SliceIdx.positions
    have hz : ((List.range s.slicelength).map s.at).zip sizes
        = (List.range s.slicelength).map (fun a => (s.at a, sizes[a]!)) := by
      apply List.ext_getElem
      · simp [hsl]
      · intro i h1 h2
        simp at h1 h2
        have : i < sizes.length := by omega
        simp [getElem!_def, List.getElem?_eq_getElem this]
    rw [hz, List.foldl_map, ← List.range_eq_range']

/-- **`va.size[mask] = k`** on an unmasked array: the rows where `mask[i]` are resized -/
theorem setSizeMask_refines {h : VHeap} {v : VView} (w : v.WF (vshape h)) (hw : v.writable = true)
    (hun : v.indices = none) (bits : List Int) (hbl : bits.length = v.length) (k : Nat) :
    ∃ h', setSizeMask h v bits k = (h', none) ∧ vshape h' = vshape h ∧
      v.toNested h' = PyList.modifyEach (v.toNested h) (PyList.maskPositions bits) (fun r => PyList.resize r k) := by
  have hso : ∀ i, v.slotOf i = i := by intro i; simp [VView.slotOf, hun]
  obtain ⟨h', hl, hinv, ht⟩ := loopV_abs (fun h1 => v.toNested h1) (VInv v h)
    (fun i h1 => if bits[i]! != 0 then resizeAt v.buf k i h1 else .ok h1)
    (fun i L => if bits[i]! != 0 then PyList.modifyAt L i (fun r => PyList.resize r k) else L) v.length 0
    (fun i h1 _ hi hi1 => by
      have hi' : i < v.length := by omega
      by_cases hb : (bits[i]! != 0) = true
      · have w1 : v.WF (vshape h1) := by rw [hi1.1]; exact w
        obtain ⟨h2, hr, hs2, hother, ht2⟩ := w1.resizeStep hi' k
        rw [hso] at hr
        exact ⟨h2, by rw [if_pos hb]; exact hr, ⟨hs2.trans hi1.1, fun b hb' => (hother b hb').trans (hi1.2 b hb')⟩, by rw [if_pos hb]; exact ht2⟩
      · exact ⟨h1, by rw [if_neg hb], hi1, by rw [if_neg hb]⟩)
    h (VInv.refl v h)
  refine ⟨h', ?_, hinv.1, ?_⟩
  · unfold setSizeMask
    have hm : v.isMasked = false := by simp [VView.isMasked, hun]
    simp only [hw, Bool.not_true, Bool.false_eq_true, if_false, matchDim, hbl, if_true, hm]
    exact hl
  · rw [ht, foldl_filter_set (fun i => bits[i]! != 0) (fun i L => PyList.modifyAt L i (fun r => PyList.resize r k))]
    unfold PyList.modifyEach PyList.maskPositions
    rw [hbl]

end ImathVerif.FixedVArray
