import ImathVerif.Lemmas.FixedArray2DLemmas
import ImathVerif.Lemmas.FixedArrayInplace
/-!
`a[i, j] = x` on a FixedArray2D against nested lists (C19).
-/
namespace ImathVerif.FixedArray2D
open ImathVerif ImathVerif.FixedArray

/-- distinct `(i, j)` inside the array are distinct cells (true for every array made from Python: `stride = (1, lenX)`) -/
def View2D.Injective (v : View2D) : Prop :=
  ∀ i j i' j', i < v.lenX → j < v.lenY → i' < v.lenX → j' < v.lenY → v.pos i j = v.pos i' j' → i = i' ∧ j = j'

theorem alloc2D_Injective (h : Heap) (lx ly : Nat) (vals : List Int) : (alloc2D h lx ly vals).2.Injective := by
  intro i j i' j' hi hj hi' hj' he
  simp only [alloc2D, View2D.pos] at hi hj hi' hj' he
  simp only [Nat.one_mul] at he
  -- j*lx + i = j'*lx + i' with i, i' < lx
  have h1 : (j * lx + i) / lx = j := by
    rw [Nat.mul_comm, Nat.mul_add_div (by omega), Nat.div_eq_of_lt hi]; omega
  have h2 : (j' * lx + i') / lx = j' := by
    rw [Nat.mul_comm, Nat.mul_add_div (by omega), Nat.div_eq_of_lt hi']; omega
  have hjj : j = j' := by rw [← h1, ← h2, he]
  subst hjj
  exact ⟨by omega, rfl⟩

theorem int_slice_at0 {n : Nat} (hn : (n : Int) ≤ PY_SSIZE_T_MAX) {k : Nat} (hk : k < n) :
    (⟨k, k + 1, 1, 1⟩ : SliceIdx).at 0 = k := by
  unfold SliceIdx.at
  simp only [Int.natCast_zero, Int.zero_mul, Int.add_zero]
  have : (k : Int) < 18446744073709551616 := by unfold PY_SSIZE_T_MAX at hn; omega
  rw [wrap64_of_range (by omega) this]; simp

/-- **`a[i, j] = x`** for ints of any sign: exactly `nested[j][i] = x` — one cell changes -/
theorem setitemScalar2D_int_refines {h : Heap} {v : View2D} (w : v.WF (shape h)) (hinj : v.Injective) {i j : Int}
    {ci cj : Nat} (hi : canonicalIndex v.lenX i = .ok ci) (hj : canonicalIndex v.lenY j = .ok cj) (x : Int) :
    ∃ h', setitemScalar2D h v (.int i) (.int j) x = .ok h' ∧ shape h' = shape h ∧ Frame v.buf h h' ∧
      v.toNested h' = (v.toNested h).set cj (((v.toNested h).getD cj []).set ci x) := by
  have hci := canonicalIndex_lt hi
  have hcj := canonicalIndex_lt hj
  obtain ⟨n, hn, hp⟩ := w.inBuf
  have hlt := hp ci cj hci hcj
  rw [shape_getElem?] at hn
  cases hbuf : h[v.buf]? with
  | none => simp [hbuf] at hn
  | some buf =>
    simp [hbuf] at hn
    subst hn
    have hwr := wr_of_lt x hbuf hlt
    refine ⟨_, ?_, wr_shape hwr, wr_frame hwr, ?_⟩
    · unfold setitemScalar2D extract2D
      simp only [extractSliceIndices, hi, hj, forLoop2, forLoop, View2D.set]
      rw [int_slice_at0 w.lenXOk hci, int_slice_at0 w.lenYOk hcj, hwr]
    · apply List.ext_getElem
      · simp [View2D.toNested]
      · intro j' h1 h2
        have hj' : j' < v.lenY := by simpa [View2D.toNested] using h1
        simp only [View2D.toNested, List.getElem_map, List.getElem_range, List.getElem_set]
        by_cases hjj : cj = j'
        · subst hjj
          simp only [if_true]
          have hrow : ((List.range v.lenY).map (fun j => (List.range v.lenX).map (fun i => cellAt h v.buf (v.pos i j)))).getD cj []
              = (List.range v.lenX).map (fun i => cellAt h v.buf (v.pos i cj)) := by
            simp [List.getD_eq_getElem?_getD, hcj]
          rw [hrow]
          apply List.ext_getElem
          · simp
          · intro i' h3 h4
            have hi' : i' < v.lenX := by simpa using h3
            simp only [List.getElem_map, List.getElem_range, List.getElem_set]
            by_cases hii : ci = i'
            · subst hii
              simp only [if_true]
              exact cellAt_wr_same hwr
            · simp only [hii, if_false]
              apply cellAt_wr hwr
              right
              intro he
              exact hii ((hinj i' cj ci cj hi' hcj hci hcj he).1).symm
        · simp only [hjj, if_false]
          apply List.ext_getElem
          · simp
          · intro i' h3 h4
            have hi' : i' < v.lenX := by simpa using h3
            simp only [List.getElem_map, List.getElem_range]
            apply cellAt_wr hwr
            right
            intro he
            exact hjj ((hinj i' j' ci cj hi' hj' hci hcj he).2).symm

end ImathVerif.FixedArray2D
