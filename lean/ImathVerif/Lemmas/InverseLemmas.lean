import ImathVerif.Spec.InverseSpec
import ImathVerif.Model.GaussJordan
import ImathVerif.Lemmas.GaussJordanLemmas
import Mathlib.LinearAlgebra.Matrix.Adjugate
import Mathlib.LinearAlgebra.Matrix.NonsingularInverse
import Mathlib.Algebra.Order.Ring.Abs
import Mathlib.Algebra.Order.Field.Basic
import Mathlib.Tactic.Ring
import Mathlib.Tactic.FinCases
import Mathlib.Tactic.SplitIfs
import Mathlib.Tactic.FieldSimp
import Mathlib.Tactic.Linarith
/-!
Helper lemmas for C06: `sabs` is `|·|`, collapsing the extracted guard chains, `det⁻¹ • adjugate` is a
two-sided inverse, and the bridge between the `M33`/`M44` structures and the generic Gauss-Jordan model.
-/
namespace ImathVerif.C06
open ImathVerif Matrix

theorem sabs_eq_abs {α : Type} [Ring α] [LinearOrder α] [IsOrderedRing α] (x : α) : sabs x = |x| := by
  unfold sabs
  split_ifs with h
  · rw [abs_of_pos h]
  · rw [abs_of_nonpos (not_lt.mp h)]

/-- `if p then A else if q then A else I` is `if p ∨ q then A else I` -/
theorem ite_or_else {β : Sort _} {p q : Prop} [Decidable p] [Decidable q] (A I : β) :
    (if p then A else if q then A else I) = if p ∨ q then A else I := by
  by_cases hp : p <;> by_cases hq : q <;> simp [hp, hq]

/-! Guard conjunctions: the extracted chain `|s| < |r| * tmin⁻¹ ∧ …` against the specification's `∀ i j, …`.  The two
sides list the same guards, possibly in another order and with cofactors / determinant written differently; every
conjunct is matched up to ring normalisation of `s` and of `r` (so reordered sums in the C++ do not matter). -/
section
variable {α : Type} [Field α] [LinearOrder α]
theorem guard_congr_mul {s s' r r' t : α} (hs : s = s') (hr : r = r') : (|s| < |r| * t⁻¹ ↔ |s'| < |r'| * t⁻¹) := by rw [hs, hr]
theorem guard_congr_div {s s' r r' t : α} (hs : s = s') (hr : r = r') : (|s| < |r| / t ↔ |s'| < |r'| / t) := by rw [hs, hr]
theorem guard_congr_md {s s' r r' t : α} (hs : s = s') (hr : r = r') : (|s| < |r| * t⁻¹ ↔ |s'| < |r'| / t) := by rw [hs, hr, div_eq_mul_inv]
theorem guard_congr_dm {s s' r r' t : α} (hs : s = s') (hr : r = r') : (|s| < |r| / t ↔ |s'| < |r'| * t⁻¹) := by rw [hs, hr, div_eq_mul_inv]
theorem one_le_congr {r r' : α} (h : r = r') : (1 ≤ |r| ↔ 1 ≤ |r'|) := by rw [h]
end

macro "gfind " h:ident : tactic =>
  `(tactic| first
    | (refine (guard_congr_mul ?_ ?_).mp $h <;> ring1)
    | (refine (guard_congr_div ?_ ?_).mp $h <;> ring1)
    | (refine (guard_congr_md ?_ ?_).mp $h <;> ring1)
    | (refine (guard_congr_dm ?_ ?_).mp $h <;> ring1))
/-- entry goal of `X * A = 1` in which the code's determinant expression occurs only as `(…)⁻¹`: name that inverse, identify it
with the inverse of the canonical determinant polynomial `c` (known non-zero), clear denominators -/
macro "invtac " ty:term:max c:term:max hd:ident : tactic =>
  `(tactic| (generalize hu : (_ : $ty)⁻¹ = u
             obtain ⟨D, hD⟩ : ∃ D : $ty, D = $c := ⟨_, rfl⟩
             have hdD : D ≠ 0 := by rw [hD]; exact $hd
             have hu2 : u = D⁻¹ := by rw [← hu, hD]; first | ring1 | (congr 1; ring1)
             rw [hu2]; field_simp; first | done | ring1 | (rw [hD]; ring1)))

macro "guards4" : tactic =>
  `(tactic| (constructor <;>
      (rintro ⟨h1, h2, h3, h4⟩
       and_intros <;> first | gfind h1 | gfind h2 | gfind h3 | gfind h4)))
macro "guards9" : tactic =>
  `(tactic| (constructor <;>
      (rintro ⟨h1, h2, h3, h4, h5, h6, h7, h8, h9⟩
       and_intros <;>
          first | gfind h1 | gfind h2 | gfind h3 | gfind h4 | gfind h5 | gfind h6 | gfind h7 | gfind h8 | gfind h9)))

section
variable {α : Type} [Field α]

/-- canonical polynomial forms of the determinants (spec side) -/
theorem M22_det_canon (a : M22 α) : a.toMat.det = a.x00 * a.x11 - a.x01 * a.x10 := by
  simp [M22.toMat, Matrix.det_fin_two]
theorem M33_det_canon (a : M33 α) :
    a.toMat.det = a.x00 * a.x11 * a.x22 - a.x00 * a.x12 * a.x21 - a.x01 * a.x10 * a.x22 + a.x01 * a.x12 * a.x20
      + a.x02 * a.x10 * a.x21 - a.x02 * a.x11 * a.x20 := by
  simp [M33.toMat, Matrix.det_fin_three]

theorem M33_det_expand (a : M33 α) :
    a.x00 * (a.x11 * a.x22 - a.x21 * a.x12) + a.x01 * (a.x20 * a.x12 - a.x10 * a.x22)
      + a.x02 * (a.x10 * a.x21 - a.x20 * a.x11) = a.toMat.det := by
  simp [M33.toMat, Matrix.det_fin_three]; ring

/-- `det⁻¹ • adjugate` is a two-sided inverse when `det ≠ 0` -/
theorem mul_inv_smul_adjugate {n : Type} [Fintype n] [DecidableEq n] (A : Matrix n n α) (h : A.det ≠ 0) :
    A * (A.det⁻¹ • A.adjugate) = 1 ∧ (A.det⁻¹ • A.adjugate) * A = 1 := by
  constructor
  · rw [Matrix.mul_smul, Matrix.mul_adjugate, smul_smul, inv_mul_cancel₀ h, one_smul]
  · rw [Matrix.smul_mul, Matrix.adjugate_mul, smul_smul, inv_mul_cancel₀ h, one_smul]

/-- a left inverse is `det⁻¹ • adjugate` -/
theorem eq_inv_smul_adjugate_of_mul_eq_one {n : Type} [Fintype n] [DecidableEq n] (A X : Matrix n n α)
    (h : X * A = 1) : X = A.det⁻¹ • A.adjugate := by
  have hd : A.det ≠ 0 := by
    intro h0
    have := congrArg Matrix.det h
    rw [Matrix.det_mul, h0, mul_zero, Matrix.det_one] at this
    exact zero_ne_one this
  have h2 := (mul_inv_smul_adjugate A hd).1
  calc X = X * (A * (A.det⁻¹ • A.adjugate)) := by rw [h2, Matrix.mul_one]
    _ = (X * A) * (A.det⁻¹ • A.adjugate) := by rw [Matrix.mul_assoc]
    _ = A.det⁻¹ • A.adjugate := by rw [h, Matrix.one_mul]

end

section
variable {α : Type} [Field α] [LinearOrder α] [IsStrictOrderedRing α]

/-- the overflow guard can only pass when the determinant is non-zero (for ANY `tmin`: `0 / tmin = 0`) -/
theorem det_ne_zero_of_guard {d tmin s : α} (h : 1 ≤ |d| ∨ |s| < |d| / tmin) : d ≠ 0 := by
  rintro rfl
  rcases h with h | h
  · simp at h; linarith
  · simp at h; exact absurd h (not_lt.mpr (abs_nonneg s))

theorem det_ne_zero_of_guard_mul {d t s : α} (h : 1 ≤ |d| ∨ |s| < |d| * t) : d ≠ 0 := by
  rintro rfl
  rcases h with h | h
  · simp at h; linarith
  · simp at h; exact absurd h (not_lt.mpr (abs_nonneg s))

/-- a guard `|s| < |d| / tmin` says that the quotient the code is about to form, `s / d`, is below `1 / tmin` in magnitude -/
theorem guard_iff_quot_lt {s d tmin : α} (hd : d ≠ 0) (ht : 0 < tmin) : |s| < |d| / tmin ↔ |d⁻¹ * s| < 1 / tmin := by
  have hdp : 0 < |d| := abs_pos.mpr hd
  rw [abs_mul, abs_inv, lt_div_iff₀ ht, lt_div_iff₀ ht, inv_mul_eq_div, div_mul_eq_mul_div, div_lt_iff₀ hdp, one_mul]

/-- all guards of a block pass ⇔ every entry of the exact inverse of that block is below `1 / tmin` in magnitude -/
theorem guards_iff_inverse_entries_lt {n : Type} [Fintype n] [DecidableEq n] (A : Matrix n n α) (tmin : α) (ht : 0 < tmin)
    (hd : A.det ≠ 0) :
    (∀ i j, |A.adjugate i j| < |A.det| / tmin) ↔ ∀ i j, |(A.det⁻¹ • A.adjugate) i j| < 1 / tmin := by
  refine forall_congr' fun i => forall_congr' fun j => ?_
  rw [Matrix.smul_apply, smul_eq_mul]
  exact guard_iff_quot_lt hd ht

/-- for `det A ≠ 0`: `if P then det⁻¹ • adjugate else 1` is the true inverse exactly when `P` holds (the identity is the
inverse of the identity only, and `|det 1| = 1` takes the unguarded branch) -/
theorem ite_eq_inverse_iff {n : Type} [Fintype n] [DecidableEq n] (A : Matrix n n α) (hd : A.det ≠ 0) (P : Prop) [Decidable P]
    (hP : 1 ≤ |A.det| → P) : (if P then A.det⁻¹ • A.adjugate else 1) = A.det⁻¹ • A.adjugate ↔ P := by
  by_cases h : P
  · simp [h]
  · rw [if_neg h]
    simp only [h, iff_false]
    intro h1
    have h2 := (mul_inv_smul_adjugate A hd).1
    rw [← h1, Matrix.mul_one] at h2
    exact h (hP (by rw [h2, Matrix.det_one, abs_one]))

/-- with a zero determinant neither `|r| ≥ 1` nor any guard `|r| / tmin > |s|` holds -/
theorem not_guard_of_det_zero {tmin s : α} : ¬ ((1 : α) ≤ |(0 : α)| ∨ |s| < |(0 : α)| / tmin) := by
  simp

end

/-! ### bridge between the structures and the generic Gauss-Jordan model -/
section
variable {α : Type}
open GJ

theorem M33_toGJ_toMatrix (a : M33 α) : a.toGJ.toMatrix = a.toMat := by
  ext i j; fin_cases i <;> fin_cases j <;> rfl
theorem M44_toGJ_toMatrix (a : M44 α) : a.toGJ.toMatrix = a.toMat := by
  ext i j; fin_cases i <;> fin_cases j <;> rfl
theorem M33_ofGJ_toMat (m : Mat 3 α) : (M33.ofGJ m).toMat = m.toMatrix := by
  ext i j; fin_cases i <;> fin_cases j <;> rfl
theorem M44_ofGJ_toMat (m : Mat 4 α) : (M44.ofGJ m).toMat = m.toMatrix := by
  ext i j; fin_cases i <;> fin_cases j <;> rfl
theorem M33_identity_toMat [Zero α] [One α] : (M33.identity : M33 α).toMat = 1 := by
  ext i j; fin_cases i <;> fin_cases j <;> rfl
theorem M44_identity_toMat [Zero α] [One α] : (M44.identity : M44 α).toMat = 1 := by
  ext i j; fin_cases i <;> fin_cases j <;> rfl

end
end ImathVerif.C06
