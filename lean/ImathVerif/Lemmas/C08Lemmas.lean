import ImathVerif.Gen.Leaf
import Mathlib.Tactic.Ring
import Mathlib.Tactic.Linarith
import Mathlib.Tactic.FieldSimp
import Mathlib.Tactic.SplitIfs
import Mathlib.Algebra.Order.Field.Basic
/-!
# C08 lemmas — `Vec2/3::length()` (with `lengthTiny` inlined) is the Euclidean norm

`Gen.V2.length`, `Gen.V3.length` are the REAL bodies of `Vec2/3<T>::length()` extracted at `T = Sym`
(harness/sym/sym_leaf.cpp → Gen/Leaf.lean; 9 / 129 paths).  (`Gen.V4.length`, 513 paths, is in
`Lemmas/C08LemmasV4.lean` so that the two big trees elaborate in parallel.)

Everything is over an arbitrary ordered field `α` with a function `sqrt : α → α` that satisfies
`hsqrt : ∀ x, 0 ≤ x → sqrt x * sqrt x = x ∧ 0 ≤ sqrt x` (true for `Real.sqrt`, see `Props/C08.lean`).
`tmin`, `tmax` (`std::numeric_limits<T>::min()/max()`) are arbitrary: the result is the same on every side of
the guard `dot < 2*tmin || dot > tmax` (since /repo 16a5ca8 the scaled branch is also taken when the squares overflow).

Proof scheme that scales to the 513-path tree: `ite_eq_of` peels one `if` at a time (no simp pass over the
whole tree), and every leaf is one of three shapes
  * `sqrt (Σ xᵢ²)`                      – the direct branch,
  * `m * sqrt (Σ (pᵢ/m)²)` with `m = ±xⱼ` – `scaled_div` (`scaledN` are its readable instances): equals
    `sqrt (Σ pᵢ²)` because `0 < m` on that path; the algebraic side condition is closed by `ring`, so
    `x / m` vs `x * (1 / m)` makes no difference HERE (that difference is a rounding matter: residue),
  * `0`                                  – `zeroN`: the path conditions force every component to be 0.
These are theorems about exact arithmetic.  Rounding (ulp accuracy, underflow of squares, overflow of
`1/max`) is NOT covered here; it is measured by harness/corr/c08_residue.cpp (level: partial).
-/
namespace ImathVerif.C08
open ImathVerif

section
variable {α : Type} [Field α] [LinearOrder α] [IsStrictOrderedRing α] {sqrt : α → α}

/-- a `sqrt` with `sqrt x * sqrt x = x ∧ 0 ≤ sqrt x` on non-negatives is THE non-negative root -/
theorem sqrt_unique (hsqrt : ∀ x, 0 ≤ x → sqrt x * sqrt x = x ∧ 0 ≤ sqrt x) {x y : α} (hy : 0 ≤ y) (h : y * y = x) :
    sqrt x = y := by
  have hx : 0 ≤ x := h ▸ mul_self_nonneg y
  obtain ⟨h1, h2⟩ := hsqrt x hx
  exact (mul_self_inj h2 hy).1 (h1.trans h.symm)

theorem sqrt_zero (hsqrt : ∀ x, 0 ≤ x → sqrt x * sqrt x = x ∧ 0 ≤ sqrt x) : sqrt 0 = 0 :=
  sqrt_unique hsqrt le_rfl (mul_zero 0)

theorem sqrt_mul_self (hsqrt : ∀ x, 0 ≤ x → sqrt x * sqrt x = x ∧ 0 ≤ sqrt x) {y : α} (hy : 0 ≤ y) : sqrt (y * y) = y :=
  sqrt_unique hsqrt hy rfl

theorem sqrt_eq_zero_iff (hsqrt : ∀ x, 0 ≤ x → sqrt x * sqrt x = x ∧ 0 ≤ sqrt x) {x : α} (hx : 0 ≤ x) :
    sqrt x = 0 ↔ x = 0 := by
  constructor
  · intro h
    have := (hsqrt x hx).1
    rw [h, mul_zero] at this
    exact this.symm
  · rintro rfl
    exact sqrt_zero hsqrt

theorem sqrt_pos_of_pos (hsqrt : ∀ x, 0 ≤ x → sqrt x * sqrt x = x ∧ 0 ≤ sqrt x) {x : α} (hx : 0 < x) : 0 < sqrt x :=
  lt_of_le_of_ne' (hsqrt x hx.le).2 (fun h => hx.ne' ((sqrt_eq_zero_iff hsqrt hx.le).1 h))

/-- `m * sqrt t = sqrt (m² t)` for `m > 0`: the identity behind `lengthTiny` -/
theorem scaled (hsqrt : ∀ x, 0 ≤ x → sqrt x * sqrt x = x ∧ 0 ≤ sqrt x) {m t S : α} (hm : 0 < m) (ht : 0 ≤ t)
    (hS : m * m * t = S) : m * sqrt t = sqrt S := by
  obtain ⟨h1, h2⟩ := hsqrt t ht
  refine (sqrt_unique hsqrt (mul_nonneg hm.le h2) ?_).symm
  calc m * sqrt t * (m * sqrt t) = m * m * (sqrt t * sqrt t) := by ring
    _ = S := by rw [h1, hS]

/-- the form used on the leaves of the extracted trees: the side condition `t = S / (m * m)` is closed by
`ring` whatever the algebraic spelling of the scaled squares is (`x / m * (x / m)`, `x * (1 / m) * …`). -/
theorem scaled_div (hsqrt : ∀ x, 0 ≤ x → sqrt x * sqrt x = x ∧ 0 ≤ sqrt x) {m t S : α} (hm : 0 < m) (hS0 : 0 ≤ S)
    (hS : t = S / (m * m)) : m * sqrt t = sqrt S := by
  have hmm : 0 < m * m := mul_pos hm hm
  refine scaled hsqrt hm (by rw [hS]; exact div_nonneg hS0 hmm.le) ?_
  rw [hS, mul_div_cancel₀ _ hmm.ne']

theorem scaled2 (hsqrt : ∀ x, 0 ≤ x → sqrt x * sqrt x = x ∧ 0 ≤ sqrt x) {m p q S : α} (hm : 0 < m)
    (hS : p * p + q * q = S) :
    m * sqrt (p / m * (p / m) + q / m * (q / m)) = sqrt S := by
  refine scaled hsqrt hm (add_nonneg (mul_self_nonneg _) (mul_self_nonneg _)) ?_
  rw [← hS]; field_simp

theorem scaled3 (hsqrt : ∀ x, 0 ≤ x → sqrt x * sqrt x = x ∧ 0 ≤ sqrt x) {m p q r S : α} (hm : 0 < m)
    (hS : p * p + q * q + r * r = S) :
    m * sqrt (p / m * (p / m) + q / m * (q / m) + r / m * (r / m)) = sqrt S := by
  refine scaled hsqrt hm (add_nonneg (add_nonneg (mul_self_nonneg _) (mul_self_nonneg _)) (mul_self_nonneg _)) ?_
  rw [← hS]; field_simp

theorem scaled4 (hsqrt : ∀ x, 0 ≤ x → sqrt x * sqrt x = x ∧ 0 ≤ sqrt x) {m p q r s S : α} (hm : 0 < m)
    (hS : p * p + q * q + r * r + s * s = S) :
    m * sqrt (p / m * (p / m) + q / m * (q / m) + r / m * (r / m) + s / m * (s / m)) = sqrt S := by
  refine scaled hsqrt hm
    (add_nonneg (add_nonneg (add_nonneg (mul_self_nonneg _) (mul_self_nonneg _)) (mul_self_nonneg _)) (mul_self_nonneg _)) ?_
  rw [← hS]; field_simp

theorem zero2 (hsqrt : ∀ x, 0 ≤ x → sqrt x * sqrt x = x ∧ 0 ≤ sqrt x) {x y S : α}
    (hx : x = 0) (hy : y = 0) (hS : x * x + y * y = S) : 0 = sqrt S := by
  subst hx hy
  rw [← hS]; simp [sqrt_zero hsqrt]

theorem zero3 (hsqrt : ∀ x, 0 ≤ x → sqrt x * sqrt x = x ∧ 0 ≤ sqrt x) {x y z S : α}
    (hx : x = 0) (hy : y = 0) (hz : z = 0) (hS : x * x + y * y + z * z = S) : 0 = sqrt S := by
  subst hx hy hz
  rw [← hS]; simp [sqrt_zero hsqrt]

theorem zero4 (hsqrt : ∀ x, 0 ≤ x → sqrt x * sqrt x = x ∧ 0 ≤ sqrt x) {x y z w S : α}
    (hx : x = 0) (hy : y = 0) (hz : z = 0) (hw : w = 0) (hS : x * x + y * y + z * z + w * w = S) : 0 = sqrt S := by
  subst hx hy hz hw
  rw [← hS]; simp [sqrt_zero hsqrt]

/-- peel one `if` of an emitted decision tree without traversing the rest of the tree -/
theorem ite_eq_of {β : Type} {c : Prop} [Decidable c] {a b r : β} (h1 : c → a = r) (h2 : ¬c → b = r) :
    (if c then a else b) = r := by
  split_ifs with h
  · exact h1 h
  · exact h2 h

/-- `std::abs` / `Imath::abs` as emitted (`sabs`) is the absolute value -/
theorem sabs_eq_abs_c08 (a : α) : sabs a = |a| := by
  unfold sabs
  split_ifs with h
  · exact (abs_of_pos h).symm
  · exact (abs_of_nonpos (not_lt.1 h)).symm

/-- sum of squares is zero iff every component is zero -/
theorem sumsq2_eq_zero {x y : α} : x * x + y * y = 0 ↔ x = 0 ∧ y = 0 := by
  constructor
  · intro h
    have hx := mul_self_nonneg x; have hy := mul_self_nonneg y
    exact ⟨mul_self_eq_zero.1 (by linarith), mul_self_eq_zero.1 (by linarith)⟩
  · rintro ⟨rfl, rfl⟩; simp

theorem sumsq3_eq_zero {x y z : α} : x * x + y * y + z * z = 0 ↔ x = 0 ∧ y = 0 ∧ z = 0 := by
  constructor
  · intro h
    have hx := mul_self_nonneg x; have hy := mul_self_nonneg y; have hz := mul_self_nonneg z
    exact ⟨mul_self_eq_zero.1 (by linarith), mul_self_eq_zero.1 (by linarith), mul_self_eq_zero.1 (by linarith)⟩
  · rintro ⟨rfl, rfl, rfl⟩; simp

theorem sumsq4_eq_zero {x y z w : α} : x * x + y * y + z * z + w * w = 0 ↔ x = 0 ∧ y = 0 ∧ z = 0 ∧ w = 0 := by
  constructor
  · intro h
    have hx := mul_self_nonneg x; have hy := mul_self_nonneg y; have hz := mul_self_nonneg z; have hw := mul_self_nonneg w
    exact ⟨mul_self_eq_zero.1 (by linarith), mul_self_eq_zero.1 (by linarith), mul_self_eq_zero.1 (by linarith),
      mul_self_eq_zero.1 (by linarith)⟩
  · rintro ⟨rfl, rfl, rfl, rfl⟩; simp

/-! ## the extracted `length()` trees -/

/-- `Vec2<T>::length()` (real body, `lengthTiny` inlined, 9 paths) is `sqrt (x² + y²)` for EVERY vector and
all limits `tmin`, `tmax` — on every side of the guard `dot < 2*tmin || dot > tmax`. -/
theorem V2_length_eq (tmin tmax : α) (hsqrt : ∀ x, 0 ≤ x → sqrt x * sqrt x = x ∧ 0 ≤ sqrt x) (a : V2 α) :
    Gen.V2.length tmin tmax sqrt a = sqrt (a.x * a.x + a.y * a.y) := by
  obtain ⟨x, y⟩ := a
  simp only [Gen.V2.length, sabs_eq_abs_c08]
  have hx := abs_nonneg x; have hy := abs_nonneg y
  have e : x * x + y * y = |x| * |x| + |y| * |y| := by rw [abs_mul_abs_self, abs_mul_abs_self]
  have hS0 : 0 ≤ x * x + y * y := add_nonneg (mul_self_nonneg _) (mul_self_nonneg _)
  repeat' (refine ite_eq_of ?_ ?_ <;> intro _)
  all_goals first
    | (refine congrArg sqrt ?_; ring)
    | (refine zero2 hsqrt (x := x) (y := y) (abs_eq_zero.1 (le_antisymm (by linarith) (by linarith)))
        (abs_eq_zero.1 (le_antisymm (by linarith) (by linarith))) (by ring))
    | (refine scaled_div hsqrt (lt_of_le_of_ne' (by linarith) (by assumption)) hS0 ?_; rw [e]; ring)

/-- `Vec3<T>::length()` (real body, `lengthTiny` inlined, 69 paths) is `sqrt (x² + y² + z²)` for EVERY
vector and all limits `tmin`, `tmax`. -/
theorem V3_length_eq (tmin tmax : α) (hsqrt : ∀ x, 0 ≤ x → sqrt x * sqrt x = x ∧ 0 ≤ sqrt x) (a : V3 α) :
    Gen.V3.length tmin tmax sqrt a = sqrt (a.x * a.x + a.y * a.y + a.z * a.z) := by
  obtain ⟨x, y, z⟩ := a
  simp (config := { maxSteps := 10000000 }) only [Gen.V3.length]
  have hS0 : 0 ≤ x * x + y * y + z * z := add_nonneg (add_nonneg (mul_self_nonneg _) (mul_self_nonneg _)) (mul_self_nonneg _)
  repeat' (refine ite_eq_of ?_ ?_ <;> intro _)
  all_goals first
    | (refine congrArg sqrt ?_; ring)
    | (refine zero3 hsqrt (x := x) (y := y) (z := z) (le_antisymm (by linarith) (by linarith))
        (le_antisymm (by linarith) (by linarith)) (le_antisymm (by linarith) (by linarith)) (by ring))
    | (refine scaled_div hsqrt (lt_of_le_of_ne' (by linarith) (by assumption)) hS0 (by ring))

/-- the form used by callers that only need "`length` is the non-negative root of the dot product" -/
theorem V2_length_sq (tmin tmax : α) (hsqrt : ∀ x, 0 ≤ x → sqrt x * sqrt x = x ∧ 0 ≤ sqrt x) (a : V2 α) :
    Gen.V2.length tmin tmax sqrt a * Gen.V2.length tmin tmax sqrt a = a.x * a.x + a.y * a.y ∧ 0 ≤ Gen.V2.length tmin tmax sqrt a := by
  rw [V2_length_eq tmin tmax hsqrt a]
  exact hsqrt _ (add_nonneg (mul_self_nonneg _) (mul_self_nonneg _))

theorem V3_length_sq (tmin tmax : α) (hsqrt : ∀ x, 0 ≤ x → sqrt x * sqrt x = x ∧ 0 ≤ sqrt x) (a : V3 α) :
    Gen.V3.length tmin tmax sqrt a * Gen.V3.length tmin tmax sqrt a = a.x * a.x + a.y * a.y + a.z * a.z ∧
      0 ≤ Gen.V3.length tmin tmax sqrt a := by
  rw [V3_length_eq tmin tmax hsqrt a]
  exact hsqrt _ (add_nonneg (add_nonneg (mul_self_nonneg _) (mul_self_nonneg _)) (mul_self_nonneg _))

end
end ImathVerif.C08
