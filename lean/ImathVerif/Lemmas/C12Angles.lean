import ImathVerif.Lemmas.C12Jacobi
import ImathVerif.Lemmas.C12Length
import Mathlib.Tactic.NormNum
/-!
# Lemmas for C12 — the rotation parameters computed by `twoSidedJacobiRotation` (tolerance 0) diagonalise the 2×2 block
-/
namespace ImathVerif.Jacobi
open ImathVerif.SHRT
set_option linter.unusedSectionVars false
variable {α : Type} [Field α] [LinearOrder α] [IsStrictOrderedRing α]

theorem ulemma {sqrt : α → α} (hs : SqrtSpec sqrt) (a : α) :
    (1 / sqrt (1 + a * a)) * (1 / sqrt (1 + a * a)) * (1 + a * a) = 1 := by
  have h0 : 0 < 1 + a * a := by nlinarith [mul_self_nonneg a]
  obtain ⟨s0, s1⟩ := hs _ h0.le
  set S := sqrt (1 + a * a) with hS
  have hne : S ≠ 0 := by
    intro h; rw [h] at s1; nlinarith
  rw [← s1]
  field_simp

theorem tlemma {sqrt : α → α} (hs : SqrtSpec sqrt) (rho : α) :
    (if rho < 0 then -(1 / (|rho| + sqrt (1 + rho * rho))) else 1 / (|rho| + sqrt (1 + rho * rho))) *
      (if rho < 0 then -(1 / (|rho| + sqrt (1 + rho * rho))) else 1 / (|rho| + sqrt (1 + rho * rho))) +
    2 * rho * (if rho < 0 then -(1 / (|rho| + sqrt (1 + rho * rho))) else 1 / (|rho| + sqrt (1 + rho * rho))) - 1 = 0 := by
  have h0 : 0 < 1 + rho * rho := by nlinarith [mul_self_nonneg rho]
  obtain ⟨s0, s1⟩ := hs _ h0.le
  set S := sqrt (1 + rho * rho) with hS
  have hSpos : 0 < S := by
    rcases lt_or_eq_of_le s0 with h | h
    · exact h
    · rw [← h] at s1; nlinarith
  have hD : 0 < |rho| + S := by positivity
  split_ifs with h
  · rw [abs_of_neg h] at hD ⊢
    have hne : -rho + S ≠ 0 := ne_of_gt hD
    field_simp
    nlinarith [s1]
  · rw [abs_of_nonneg (not_lt.mp h)] at hD ⊢
    have hne : rho + S ≠ 0 := ne_of_gt hD
    field_simp
    nlinarith [s1]

/-- the algebraic core: symmetrising pair (c, s), tangent t of the diagonalising angle -/
theorem diag_core (c s c2 t w x y z : α) (ch : Bool) (hsym : c * (x - y) = s * (w + z))
    (hteq : (c * x - s * z) * t * t + (s * (x + y) + c * (z - w)) * t - (c * x - s * z) = 0)
    (hu1 : c * c + s * s = 1) (hu2 : c2 * c2 * (1 + t * t) = 1) :
    Diagonalises (⟨c, s, c2, c2 * t, ch⟩ : Angles α) w x y z := by
  refine ⟨hu1, ?_, ?_, ?_⟩
  · show c2 * c2 + c2 * t * (c2 * t) = 1
    linear_combination hu2
  · show (c2 * c - c2 * t * s) * (w * (c2 * t) + x * c2) - (c2 * t * c + c2 * s) * (y * (c2 * t) + z * c2) = 0
    linear_combination (-(c2 * c2)) * hteq + (c2 * c2 * t * t) * hsym
  · show (c2 * t * c + c2 * s) * (w * c2 - x * (c2 * t)) + (c2 * c - c2 * t * s) * (y * c2 - z * (c2 * t)) = 0
    linear_combination (-(c2 * c2)) * hteq - (c2 * c2) * hsym

theorem abs_le_zero_mul {a b : α} : |a| ≤ 0 * |b| ↔ a = 0 := by
  rw [zero_mul]; exact ⟨fun h => abs_eq_zero.mp (le_antisymm h (abs_nonneg a)), fun h => by simp [h]⟩

/-- with tolerance 0 the parameters computed by `twoSidedJacobiRotation` are unit pairs that diagonalise the 2×2
block exactly; the early exit (`changed = false`) happens only when the off-diagonal pair is already zero -/
theorem svdAngles_diagonalises {sqrt : α → α} (hs : SqrtSpec sqrt) (w x y z : α) :
    ((svdAngles 0 sqrt w x y z).changed = true ∧ Diagonalises (svdAngles 0 sqrt w x y z) w x y z) ∨
    ((svdAngles 0 sqrt w x y z).changed = false ∧ x = 0 ∧ y = 0) := by
  simp only [svdAngles, sabs_eq_abs, abs_le_zero_mul]
  by_cases h1 : x - y = 0
  · have hxy : x = y := by linarith
    subst hxy
    simp only [if_pos h1]
    by_cases h2 : x + x = 0
    · right
      have hx : x = 0 := by linarith
      simp [hx]
    · left
      simp only [if_neg h2]
      refine ⟨trivial, ?_⟩
      have ht := tlemma hs ((z - w) / (x + x))
      have hu := ulemma hs (if (z - w) / (x + x) < 0 then -(1 / (|(z - w) / (x + x)| + sqrt (1 + (z - w) / (x + x) * ((z - w) / (x + x)))))
        else 1 / (|(z - w) / (x + x)| + sqrt (1 + (z - w) / (x + x) * ((z - w) / (x + x)))))
      set t := (if (z - w) / (x + x) < 0 then -(1 / (|(z - w) / (x + x)| + sqrt (1 + (z - w) / (x + x) * ((z - w) / (x + x)))))
        else 1 / (|(z - w) / (x + x)| + sqrt (1 + (z - w) / (x + x) * ((z - w) / (x + x))))) with htdef
      apply diag_core 1 0 _ t w x x z true (by ring) _ (by ring) hu
      have e : (z - w) / (x + x) * (x + x) = z - w := div_mul_cancel₀ _ h2
      linear_combination x * ht - t * e
  · left
    simp only [if_neg h1]
    have hu1 := ulemma hs ((w + z) / (x - y))
    set rho := (w + z) / (x - y) with hrho
    set s0 := 1 / sqrt (1 + rho * rho) with hs0
    set s := (if rho < 0 then -s0 else s0) with hsdef
    have hss : s * s = s0 * s0 := by
      rw [hsdef]; split_ifs <;> ring
    have hu : s * rho * (s * rho) + s * s = 1 := by
      have : s * rho * (s * rho) + s * s = s * s * (1 + rho * rho) := by ring
      rw [this, hss]; exact hu1
    have hsym : s * rho * (x - y) = s * (w + z) := by
      rw [hrho]; field_simp
    by_cases h2 : 2 * (s * rho * x - s * z) = 0
    · simp only [if_pos h2]
      refine ⟨trivial, ?_⟩
      have := diag_core (s * rho) s 1 0 w x y z true hsym (by linear_combination (-(1 / 2 : α)) * h2) hu (by ring)
      simpa using this
    · simp only [if_neg h2]
      refine ⟨trivial, ?_⟩
      set m1 := s * (x + y) + s * rho * (z - w) with hm1
      set m2 := 2 * (s * rho * x - s * z) with hm2
      have ht := tlemma hs (m1 / m2)
      have hu2 := ulemma hs (if m1 / m2 < 0 then -(1 / (|m1 / m2| + sqrt (1 + m1 / m2 * (m1 / m2))))
        else 1 / (|m1 / m2| + sqrt (1 + m1 / m2 * (m1 / m2))))
      set t := (if m1 / m2 < 0 then -(1 / (|m1 / m2| + sqrt (1 + m1 / m2 * (m1 / m2))))
        else 1 / (|m1 / m2| + sqrt (1 + m1 / m2 * (m1 / m2)))) with htdef
      apply diag_core (s * rho) s _ t w x y z true hsym _ hu hu2
      have e : m1 / m2 * m2 = m1 := div_mul_cancel₀ _ h2
      linear_combination (m2 / 2) * ht - t * e - ((t * t - 1) / 2) * hm2

/-- hence with tolerance 0 every rotation of `twoSidedJacobiRotation` is exact (`StepOK`) -/
theorem stepOK_tol0 {sqrt : α → α} (hs : SqrtSpec sqrt) (n j k : Nat) (hjk : j < k) (hk : k < n) (st : SVDState α) :
    StepOK n st j k (svdAngles 0 sqrt (st.A j j) (st.A j k) (st.A k j) (st.A k k)) := by
  refine ⟨hjk, hk, ?_⟩
  rcases svdAngles_diagonalises hs (st.A j j) (st.A j k) (st.A k j) (st.A k k) with ⟨h1, h2⟩ | ⟨h1, h2, h3⟩
  · exact Or.inl ⟨h1, h2⟩
  · exact Or.inr ⟨h1, h2, h3⟩

/-- a run of rotations with the computed parameters (tolerance 0) over a list of index pairs -/
def runPairs (sqrt : α → α) (st : SVDState α) : List (Nat × Nat) → SVDState α
  | [] => st
  | jk :: rest => runPairs sqrt (twoSidedJacobiRotation 0 sqrt jk.1 jk.2 st).2 rest

end ImathVerif.Jacobi
