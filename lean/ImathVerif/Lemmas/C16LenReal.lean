import ImathVerif.Spec.FrustumSpec
import ImathVerif.Gen.Leaf
import Mathlib.Analysis.Real.Sqrt
import Mathlib.Tactic.Ring
import Mathlib.Tactic.FieldSimp
import Mathlib.Tactic.Linarith
import Mathlib.Tactic.SplitIfs
import Mathlib.Tactic.Positivity
/-!
# `Gen.V3.length` over ℝ satisfies `LenSpec` (non-vacuity of the length hypothesis of Props/C16.lean)
-/
namespace ImathVerif.C16
open ImathVerif ImathVerif.FrustumSpec

theorem len_leaf (m a b c N : ℝ) (hm : 0 ≤ m) (hQ : m * m * (a * a + b * b + c * c) = N) :
    0 ≤ m * Real.sqrt (a * a + b * b + c * c) ∧
      (m * Real.sqrt (a * a + b * b + c * c)) * (m * Real.sqrt (a * a + b * b + c * c)) = N := by
  have hQ0 : 0 ≤ a * a + b * b + c * c := by
    have := mul_self_nonneg a; have := mul_self_nonneg b; have := mul_self_nonneg c; linarith
  refine ⟨mul_nonneg hm (Real.sqrt_nonneg _), ?_⟩
  have : (m * Real.sqrt (a * a + b * b + c * c)) * (m * Real.sqrt (a * a + b * b + c * c))
      = m * m * (Real.sqrt (a * a + b * b + c * c) * Real.sqrt (a * a + b * b + c * c)) := by ring
  rw [this, Real.mul_self_sqrt hQ0, hQ]

set_option maxHeartbeats 4000000 in
/-- the real `Vec3::length` (all 129 paths, `lengthTiny` included) satisfies the length specification over ℝ with the real
square root, for every value of `numeric_limits<T>::min ()` and `max ()` -/
theorem lenSpec_real (tmin tmax : ℝ) : LenSpec (Gen.V3.length tmin tmax Real.sqrt) := by
  intro v
  rcases v with ⟨x, y, z⟩
  simp (config := { maxSteps := 8000000 }) only [Gen.V3.length, normSq]
  -- outermost: squares underflow -> lengthTiny; squares overflow -> lengthTiny; else sqrt
  by_cases h1 : x * x + y * y + z * z < 2 * tmin
  · rw [if_pos h1]
    split_ifs <;>
      first
      | (refine len_leaf _ _ _ _ _ (by linarith) ?_; (try simp only [neg_eq_zero] at *); field_simp)
      | (have hx : x = 0 := by linarith
         have hy : y = 0 := by linarith
         have hz : z = 0 := by linarith
         subst hx hy hz; simp)
  · rw [if_neg h1]
    by_cases h2 : tmax < x * x + y * y + z * z
    · rw [if_pos h2]
      split_ifs <;>
        first
        | (refine len_leaf _ _ _ _ _ (by linarith) ?_; (try simp only [neg_eq_zero] at *); field_simp)
        | (have hx : x = 0 := by linarith
           have hy : y = 0 := by linarith
           have hz : z = 0 := by linarith
           subst hx hy hz; simp)
    · rw [if_neg h2]
      exact ⟨Real.sqrt_nonneg _, Real.mul_self_sqrt (by have := mul_self_nonneg x; have := mul_self_nonneg y; have := mul_self_nonneg z; linarith)⟩
end ImathVerif.C16
