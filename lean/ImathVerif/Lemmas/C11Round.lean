import ImathVerif.Lemmas.C11Lemmas
import Mathlib.LinearAlgebra.Matrix.Adjugate
import Mathlib.LinearAlgebra.Matrix.Determinant.Basic
import Mathlib.Tactic.LinearCombination
import Mathlib.Tactic.Linarith
/-!
C11, the direction of the property: `toMatrix33 (extract M) = M` for EVERY rotation matrix `M`.

Gen-independent part.  `Euler::extract` reads the first angle, removes that rotation (`N = R_i(∓x)·M`,
so that one entry of `N` vanishes and another is non-negative WHATEVER `atan2 (0, 0)` returns) and reads
the other two angles off `N`, which is then exactly a product of two elementary rotations.  All 24
orders follow from two CORE cases by relabelling the axes:

* `coreExNR` / `coreMNR` — first/second/third axis 0, 1, 2, parity even, non-repeated (this is order XYZ);
* `coreExR`  / `coreMR`  — axes 0, 1, 0, parity even (order XYX).

`permM o M` is `M` with rows and columns relabelled by `(o.i, o.j, o.k) ↦ (0, 1, 2)` (`o.i`, `o.j`, `o.k` are
the axes the MODEL of `angleOrder` decodes from the order bits); it is again a rotation matrix
(`permM_rot`, through `Matrix.submatrix` along the permutation), also for the parity-odd orders, where
the relabelling is an odd permutation.  Props/C11Round.lean shows, per order, that the extracted
`Euler::extract` / `toMatrix33` ARE the core functions on the relabelled matrix, up to the sign (parity) and
the x ↔ z swap (rotating frame) that the code applies.
-/
set_option autoImplicit false
set_option linter.unusedSectionVars false
set_option linter.unusedSimpArgs false
set_option linter.unusedTactic false
set_option linter.unreachableTactic false
namespace ImathVerif.Euler
open ImathVerif Matrix

variable {α : Type} [Field α] [LinearOrder α] [IsStrictOrderedRing α]

/-- what the round trip needs from `sin`, `cos`, `atan2`; nothing is asked of `atan2 0 0`
    (same content as `C12Link.EulerTrigSpec`) -/
structure TrigSpec (sin cos : α → α) (atan2 : α → α → α) : Prop where
  sin_zero : sin 0 = 0
  cos_zero : cos 0 = 1
  sin_neg : ∀ t, sin (-t) = -sin t
  cos_neg : ∀ t, cos (-t) = cos t
  sq : ∀ t, sin t * sin t + cos t * cos t = 1
  atan2_spec : ∀ x y r, 0 < r → r * r = x * x + y * y → cos (atan2 y x) * r = x ∧ sin (atan2 y x) * r = y

/-- `sqrt` on non-negative arguments (the form used by C08 / C11) -/
def SqrtOK (sqrt : α → α) : Prop := ∀ x, 0 ≤ x → sqrt x * sqrt x = x ∧ 0 ≤ sqrt x

/-! ## rotation matrices, entrywise -/

/-- entrywise content of "orthonormal with determinant one": rows and columns orthonormal, and every
    entry equals its cofactor (`Rᵀ = adj R`) -/
structure IsRot (m : M33 α) : Prop where
  r00 : m.x00 * m.x00 + m.x01 * m.x01 + m.x02 * m.x02 = 1
  r11 : m.x10 * m.x10 + m.x11 * m.x11 + m.x12 * m.x12 = 1
  r22 : m.x20 * m.x20 + m.x21 * m.x21 + m.x22 * m.x22 = 1
  r01 : m.x00 * m.x10 + m.x01 * m.x11 + m.x02 * m.x12 = 0
  r02 : m.x00 * m.x20 + m.x01 * m.x21 + m.x02 * m.x22 = 0
  r12 : m.x10 * m.x20 + m.x11 * m.x21 + m.x12 * m.x22 = 0
  k00 : m.x00 * m.x00 + m.x10 * m.x10 + m.x20 * m.x20 = 1
  k11 : m.x01 * m.x01 + m.x11 * m.x11 + m.x21 * m.x21 = 1
  k22 : m.x02 * m.x02 + m.x12 * m.x12 + m.x22 * m.x22 = 1
  c00 : m.x00 = m.x11 * m.x22 - m.x12 * m.x21
  c01 : m.x01 = m.x12 * m.x20 - m.x10 * m.x22
  c02 : m.x02 = m.x10 * m.x21 - m.x11 * m.x20
  c10 : m.x10 = m.x02 * m.x21 - m.x01 * m.x22
  c11 : m.x11 = m.x00 * m.x22 - m.x02 * m.x20
  c12 : m.x12 = m.x01 * m.x20 - m.x00 * m.x21
  c20 : m.x20 = m.x01 * m.x12 - m.x02 * m.x11
  c21 : m.x21 = m.x02 * m.x10 - m.x00 * m.x12
  c22 : m.x22 = m.x00 * m.x11 - m.x01 * m.x10

/-- a 3×3 rotation matrix is its own cofactor matrix: `Rᵀ = adj R` -/
theorem transpose_eq_adjugate' {A : Matrix (Fin 3) (Fin 3) α} (ho : A * Aᵀ = 1) (hd : A.det = 1) : Aᵀ = A.adjugate := by
  have h1 : Aᵀ * A = 1 := mul_eq_one_comm.mp ho
  calc Aᵀ = Aᵀ * (A * A.adjugate) := by rw [Matrix.mul_adjugate, hd, one_smul, Matrix.mul_one]
    _ = A.adjugate := by rw [← Matrix.mul_assoc, h1, Matrix.one_mul]

theorem IsRot.of_toMat {m : M33 α} (ho : m.toMat * m.toMatᵀ = 1) (hd : m.toMat.det = 1) : IsRot m := by
  have hadj := transpose_eq_adjugate' ho hd
  have hk : m.toMatᵀ * m.toMat = 1 := mul_eq_one_comm.mp ho
  obtain ⟨a, b, c, d, e, f, g, h, i⟩ := m
  have r00 := congrFun (congrFun ho 0) 0
  have r11 := congrFun (congrFun ho 1) 1
  have r22 := congrFun (congrFun ho 2) 2
  have r01 := congrFun (congrFun ho 0) 1
  have r02 := congrFun (congrFun ho 0) 2
  have r12 := congrFun (congrFun ho 1) 2
  have k00 := congrFun (congrFun hk 0) 0
  have k11 := congrFun (congrFun hk 1) 1
  have k22 := congrFun (congrFun hk 2) 2
  simp [M33.toMat, Matrix.mul_apply, Fin.sum_univ_three] at r00 r11 r22 r01 r02 r12 k00 k11 k22
  have ca := congrFun (congrFun hadj 0) 0
  have cb := congrFun (congrFun hadj 1) 0
  have cc := congrFun (congrFun hadj 2) 0
  have cd := congrFun (congrFun hadj 0) 1
  have ce := congrFun (congrFun hadj 1) 1
  have cf := congrFun (congrFun hadj 2) 1
  have cg := congrFun (congrFun hadj 0) 2
  have ch := congrFun (congrFun hadj 1) 2
  have ci := congrFun (congrFun hadj 2) 2
  simp [M33.toMat, Matrix.adjugate_fin_three] at ca cb cc cd ce cf cg ch ci
  constructor <;> simp only <;> linarith

/-! ## relabelling the axes -/

/-- entry `(r, c)` of an `M33` -/
def ent (m : M33 α) (r c : Fin 3) : α := m.toMat r c

/-- the axes of order `o` as a map `0 ↦ i, 1 ↦ j, 2 ↦ k` … -/
def Ord.sig (o : Ord) : Fin 3 → Fin 3 := ![o.i, o.j, o.k]
/-- … and its inverse (`i ↦ 0, j ↦ 1`, the remaining axis `↦ 2`) -/
def Ord.sigInv (o : Ord) : Fin 3 → Fin 3 := fun r => if r = o.i then 0 else if r = o.j then 1 else 2

theorem Ord.sig_table (o : Ord) : o.sig = (match o with
    | .XYZ => ![0, 1, 2] | .XZY => ![0, 2, 1] | .YZX => ![1, 2, 0] | .YXZ => ![1, 0, 2] | .ZXY => ![2, 0, 1] | .ZYX => ![2, 1, 0]
    | .XZX => ![0, 2, 1] | .XYX => ![0, 1, 2] | .YXY => ![1, 0, 2] | .YZY => ![1, 2, 0] | .ZYZ => ![2, 1, 0] | .ZXZ => ![2, 0, 1]
    | .XYZr => ![2, 1, 0] | .XZYr => ![2, 0, 1] | .YZXr => ![1, 0, 2] | .YXZr => ![1, 2, 0] | .ZXYr => ![0, 2, 1] | .ZYXr => ![0, 1, 2]
    | .XZXr => ![2, 0, 1] | .XYXr => ![2, 1, 0] | .YXYr => ![1, 2, 0] | .YZYr => ![1, 0, 2] | .ZYZr => ![0, 1, 2] | .ZXZr => ![0, 2, 1]) := by
  cases o <;> rfl

theorem Ord.sigInv_table (o : Ord) : o.sigInv = (match o with
    | .XYZ => ![0, 1, 2] | .XZY => ![0, 2, 1] | .YZX => ![2, 0, 1] | .YXZ => ![1, 0, 2] | .ZXY => ![1, 2, 0] | .ZYX => ![2, 1, 0]
    | .XZX => ![0, 2, 1] | .XYX => ![0, 1, 2] | .YXY => ![1, 0, 2] | .YZY => ![2, 0, 1] | .ZYZ => ![2, 1, 0] | .ZXZ => ![1, 2, 0]
    | .XYZr => ![2, 1, 0] | .XZYr => ![1, 2, 0] | .YZXr => ![1, 0, 2] | .YXZr => ![2, 0, 1] | .ZXYr => ![0, 2, 1] | .ZYXr => ![0, 1, 2]
    | .XZXr => ![1, 2, 0] | .XYXr => ![2, 1, 0] | .YXYr => ![2, 0, 1] | .YZYr => ![1, 0, 2] | .ZYZr => ![0, 1, 2] | .ZXZr => ![0, 2, 1]) := by
  cases o <;> (funext r; fin_cases r <;> rfl)

/-- the relabelling of order `o` is a permutation of the three axes -/
def Ord.perm (o : Ord) : Fin 3 ≃ Fin 3 where
  toFun := o.sig
  invFun := o.sigInv
  left_inv := by cases o <;> decide
  right_inv := by cases o <;> decide

/-- `M` with rows and columns relabelled: entry `(a, b)` of the result is `M[σ a][σ b]`, `σ = (i, j, k)` -/
def permM (o : Ord) (m : M33 α) : M33 α :=
  ⟨ent m (o.sig 0) (o.sig 0), ent m (o.sig 0) (o.sig 1), ent m (o.sig 0) (o.sig 2),
   ent m (o.sig 1) (o.sig 0), ent m (o.sig 1) (o.sig 1), ent m (o.sig 1) (o.sig 2),
   ent m (o.sig 2) (o.sig 0), ent m (o.sig 2) (o.sig 1), ent m (o.sig 2) (o.sig 2)⟩

/-- the inverse relabelling: entry `(r, c)` of the result is `M[σ⁻¹ r][σ⁻¹ c]` -/
def unpermM (o : Ord) (m : M33 α) : M33 α :=
  ⟨ent m (o.sigInv 0) (o.sigInv 0), ent m (o.sigInv 0) (o.sigInv 1), ent m (o.sigInv 0) (o.sigInv 2),
   ent m (o.sigInv 1) (o.sigInv 0), ent m (o.sigInv 1) (o.sigInv 1), ent m (o.sigInv 1) (o.sigInv 2),
   ent m (o.sigInv 2) (o.sigInv 0), ent m (o.sigInv 2) (o.sigInv 1), ent m (o.sigInv 2) (o.sigInv 2)⟩

theorem permM_toMat (o : Ord) (m : M33 α) : (permM o m).toMat = m.toMat.submatrix o.perm o.perm := by
  ext r c
  fin_cases r <;> fin_cases c <;> rfl

theorem unpermM_permM (o : Ord) (m : M33 α) : unpermM o (permM o m) = m := by
  obtain ⟨a, b, c, d, e, f, g, h, i⟩ := m
  cases o <;> rfl

/-- the relabelled matrix of a rotation is a rotation (also when the relabelling is an odd permutation) -/
theorem permM_rot (o : Ord) (m : M33 α) (ho : m.toMat * m.toMatᵀ = 1) (hd : m.toMat.det = 1) :
    (permM o m).toMat * (permM o m).toMatᵀ = 1 ∧ (permM o m).toMat.det = 1 := by
  rw [permM_toMat]
  refine ⟨?_, ?_⟩
  · rw [Matrix.transpose_submatrix, Matrix.submatrix_mul_equiv, ho, Matrix.submatrix_one_equiv]
  · rw [Matrix.det_submatrix_equiv_self, hd]

/-! ## the two core cases -/

/-- `Euler::extract` for axes 0, 1, 2, parity even, static frame, written out: first angle from
    `M[1][2], M[2][2]`, then the other two from `N = R₀(−X)·M` -/
def coreExNR (sqrt sin cos : α → α) (atan2 : α → α → α) (m : M33 α) : V3 α :=
  let X := atan2 m.x12 m.x22
  ⟨X, atan2 (-m.x02) (sqrt (m.x00 * m.x00 + m.x01 * m.x01)),
   atan2 (-(cos X * m.x10 - sin X * m.x20)) (cos X * m.x11 - sin X * m.x21)⟩

/-- `Euler::toMatrix33`, non-repeated branch, axes 0, 1, 2, from the sines / cosines of the three angles -/
def coreMNR (si ci sj cj sh ch : α) : M33 α :=
  ⟨cj * ch, cj * sh, -sj,
   sj * (si * ch) - ci * sh, sj * (si * sh) + ci * ch, cj * si,
   sj * (ci * ch) + si * sh, sj * (ci * sh) - si * ch, cj * ci⟩

/-- `Euler::extract`, repeated-axis branch, axes 0, 1, 2 (the third rotation is about axis 0 again), parity even -/
def coreExR (sqrt sin cos : α → α) (atan2 : α → α → α) (m : M33 α) : V3 α :=
  let X := atan2 m.x10 m.x20
  let n10 := cos X * m.x10 - sin X * m.x20
  let n20 := sin X * m.x10 + cos X * m.x20
  ⟨X, atan2 (sqrt (n10 * n10 + n20 * n20)) m.x00,
   atan2 (cos X * m.x12 - sin X * m.x22) (cos X * m.x11 - sin X * m.x21)⟩

/-- `Euler::toMatrix33`, repeated-axis branch, axes 0, 1, 2 -/
def coreMR (si ci sj cj sh ch : α) : M33 α :=
  ⟨cj, sj * sh, -sj * ch,
   sj * si, -cj * (si * sh) + ci * ch, cj * (si * ch) + ci * sh,
   sj * ci, -cj * (ci * sh) - si * ch, cj * (ci * ch) - si * sh⟩

theorem sqrt_unique' {sqrt : α → α} (hs : SqrtOK sqrt) {x y : α} (hy : 0 ≤ y) (h : y * y = x) : sqrt x = y := by
  have hx : 0 ≤ x := by rw [← h]; exact mul_self_nonneg y
  obtain ⟨q1, q0⟩ := hs x hx
  rcases mul_self_eq_mul_self_iff.mp (q1.trans h.symm) with e | e
  · exact e
  · have : sqrt x = 0 := by linarith
    have : y = 0 := by linarith
    linarith

/-- first-angle removal: for `X = atan2 (p, q)`, `cos X · p = sin X · q` and `0 ≤ sin X · p + cos X · q`,
    also when `p = q = 0` -/
theorem first_angle {sqrt sin cos : α → α} {atan2 : α → α → α} (hs : SqrtOK sqrt) (ht : TrigSpec sin cos atan2) (p q : α) :
    sin (atan2 p q) * q = cos (atan2 p q) * p ∧ 0 ≤ sin (atan2 p q) * p + cos (atan2 p q) * q := by
  have hT := ht.sq (atan2 p q)
  by_cases hz : p * p + q * q = 0
  · obtain ⟨hp, hq⟩ := mul_self_add_mul_self_eq_zero.mp hz
    subst hp hq; simp
  · have hp : 0 ≤ p * p + q * q := add_nonneg (mul_self_nonneg _) (mul_self_nonneg _)
    obtain ⟨q1, q0⟩ := hs _ hp
    have qpos : 0 < sqrt (p * p + q * q) := by
      apply lt_of_le_of_ne q0
      intro hq; rw [← hq] at q1; exact hz (by rw [← q1]; ring)
    obtain ⟨u, v⟩ := ht.atan2_spec q p _ qpos (by rw [q1]; ring)
    constructor
    · linear_combination (-sin (atan2 p q)) * u + cos (atan2 p q) * v
    · have : sin (atan2 p q) * p + cos (atan2 p q) * q = sqrt (p * p + q * q) := by
        linear_combination (-sin (atan2 p q)) * v - cos (atan2 p q) * u + (sqrt (p * p + q * q)) * hT
      rw [this]; exact q0

/-- CORE, non-repeated: rebuilding the angles read off a rotation matrix gives the matrix back — EVERY rotation
    matrix, `M[0][2] = ±1` (gimbal lock) included -/
theorem core_NR {sqrt sin cos : α → α} {atan2 : α → α → α} (hs : SqrtOK sqrt) (ht : TrigSpec sin cos atan2)
    (m : M33 α) (hr : IsRot m) :
    coreMNR (sin (coreExNR sqrt sin cos atan2 m).x) (cos (coreExNR sqrt sin cos atan2 m).x)
            (sin (coreExNR sqrt sin cos atan2 m).y) (cos (coreExNR sqrt sin cos atan2 m).y)
            (sin (coreExNR sqrt sin cos atan2 m).z) (cos (coreExNR sqrt sin cos atan2 m).z) = m := by
  obtain ⟨a, b, c, d, e, f, g, h, i⟩ := m
  obtain ⟨r00, r11, r22, r01, r02, r12, k00, k11, k22, ca, cb, cc, cd, ce, cf, cg, ch, ci⟩ := hr
  simp only at r00 r11 r22 r01 r02 r12 k00 k11 k22 ca cb cc cd ce cf cg ch ci
  simp only [coreExNR]
  obtain ⟨hA, hB⟩ := first_angle hs ht f i
  have hT := ht.sq (atan2 f i)
  generalize atan2 f i = X at hA hB hT ⊢
  generalize hcx : cos X = cx at hA hB hT ⊢
  generalize hsx : sin X = sx at hA hB hT ⊢
  -- second angle
  have hcy : sqrt (a * a + b * b) = sx * f + cx * i :=
    sqrt_unique' hs hB (by linear_combination k22 - r00 + (f * f + i * i) * hT + (cx * f - sx * i) * hA)
  obtain ⟨cY, sY⟩ := ht.atan2_spec (sqrt (a * a + b * b)) (-c) 1 one_pos
    (by rw [hcy]; linear_combination -k22 - (f * f + i * i) * hT - (cx * f - sx * i) * hA)
  rw [mul_one] at cY sY
  replace cY := cY.trans hcy
  -- third angle
  obtain ⟨cZ, sZ⟩ := ht.atan2_spec (cx * e - sx * h) (-(cx * d - sx * g)) 1 one_pos
    (by linear_combination -(cx * cx * r11 + sx * sx * r22 - 2 * cx * sx * r12 + hT + (cx * f - sx * i) * hA))
  rw [mul_one] at cZ sZ
  simp only [coreMNR]
  rw [cZ, sZ, cY, sY]
  apply M33.ext' <;> simp only
  · linear_combination -ca + (e * i - h * f) * hT - (sx * e + cx * h) * hA
  · linear_combination -cb + (f * g - d * i) * hT + (sx * d + cx * g) * hA
  · ring
  · linear_combination d * hT + sx * b * hA - sx * sx * cd - sx * cx * cg
  · linear_combination e * hT - sx * a * hA - sx * sx * ce - sx * cx * ch
  · linear_combination f * hT + cx * hA
  · linear_combination g * hT + cx * b * hA - cx * sx * cd - cx * cx * cg
  · linear_combination h * hT - cx * a * hA - cx * sx * ce - cx * cx * ch
  · linear_combination i * hT - sx * hA

/-- CORE, repeated axis: the same for the branch of `extract` / `toMatrix33` used by the twelve orders whose first and
    third axis coincide — EVERY rotation matrix, `M[0][0] = ±1` (gimbal lock: middle angle 0 or π) included -/
theorem core_R {sqrt sin cos : α → α} {atan2 : α → α → α} (hs : SqrtOK sqrt) (ht : TrigSpec sin cos atan2)
    (m : M33 α) (hr : IsRot m) :
    coreMR (sin (coreExR sqrt sin cos atan2 m).x) (cos (coreExR sqrt sin cos atan2 m).x)
           (sin (coreExR sqrt sin cos atan2 m).y) (cos (coreExR sqrt sin cos atan2 m).y)
           (sin (coreExR sqrt sin cos atan2 m).z) (cos (coreExR sqrt sin cos atan2 m).z) = m := by
  obtain ⟨a, b, c, d, e, f, g, h, i⟩ := m
  obtain ⟨r00, r11, r22, r01, r02, r12, k00, k11, k22, c00, c01, c02, c10, c11, c12, c20, c21, c22⟩ := hr
  simp only at r00 r11 r22 r01 r02 r12 k00 k11 k22 c00 c01 c02 c10 c11 c12 c20 c21 c22
  simp only [coreExR]
  obtain ⟨hA, hB⟩ := first_angle hs ht d g
  have hT := ht.sq (atan2 d g)
  generalize atan2 d g = X at hA hB hT ⊢
  generalize hcx : cos X = cx at hA hB hT ⊢
  generalize hsx : sin X = sx at hA hB hT ⊢
  -- second angle: `sy = N[2][0] ≥ 0` because `N[1][0] = 0`
  have hsy : sqrt ((cx * d - sx * g) * (cx * d - sx * g) + (sx * d + cx * g) * (sx * d + cx * g)) = sx * d + cx * g :=
    sqrt_unique' hs hB (by linear_combination (cx * d - sx * g) * hA)
  obtain ⟨cY, sY⟩ := ht.atan2_spec a (sqrt ((cx * d - sx * g) * (cx * d - sx * g) + (sx * d + cx * g) * (sx * d + cx * g))) 1 one_pos
    (by rw [hsy]; linear_combination -k00 - (d * d + g * g) * hT - (cx * d - sx * g) * hA)
  rw [mul_one] at cY sY
  replace sY := sY.trans hsy
  -- third angle
  obtain ⟨cZ, sZ⟩ := ht.atan2_spec (cx * e - sx * h) (cx * f - sx * i) 1 one_pos
    (by linear_combination -hT - cx * cx * r11 - sx * sx * r22 + 2 * cx * sx * r12 - (cx * d - sx * g) * hA)
  rw [mul_one] at cZ sZ
  simp only [coreMR]
  rw [cZ, sZ, cY, sY]
  apply M33.ext' <;> simp only
  · linear_combination (f * g - d * i) * hT - c01 - (sx * f + cx * i) * hA
  · linear_combination (d * h - e * g) * hT - c02 + (sx * e + cx * h) * hA
  · linear_combination d * hT + cx * hA
  · linear_combination e * hT - sx * sx * c11 + sx * c * hA - cx * sx * c21
  · linear_combination f * hT - sx * sx * c12 - sx * b * hA - cx * sx * c22
  · linear_combination g * hT - sx * hA
  · linear_combination h * hT - cx * cx * c21 + cx * c * hA - sx * cx * c11
  · linear_combination i * hT - cx * cx * c22 - cx * b * hA - sx * cx * c12

end ImathVerif.Euler
