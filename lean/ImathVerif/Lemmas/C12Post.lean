import ImathVerif.Lemmas.C12Jacobi
import Mathlib.Tactic.SplitIfs
import Mathlib.Algebra.Order.Ring.Abs
import Mathlib.Algebra.Order.Field.Basic
/-!
# Lemmas for C12 — post-passes of `twoSidedJacobiSVD` (sign fix-up, sorting, forcePositiveDeterminant)
Each elementary operation (negate one singular value together with a column of `U` or `V`; exchange two
singular values together with the columns of `U` and `V`) leaves `U · diag(S) · Vᵀ` and the Gram matrices
`U·Uᵀ`, `V·Vᵀ` unchanged; the post-passes are compositions of such operations.
-/
namespace ImathVerif.Jacobi
open Matrix
set_option linter.unusedSectionVars false
variable {α : Type} [Field α] [LinearOrder α] [IsStrictOrderedRing α]

/-- `U · diag(S) · Vᵀ` -/
def usvProd (n : Nat) (t : USV α) : Matrix (Fin n) (Fin n) α :=
  toM n t.U * Matrix.diagonal (fun a : Fin n => t.S a.val) * (toM n t.V)ᵀ
def gramU (n : Nat) (t : USV α) : Matrix (Fin n) (Fin n) α := toM n t.U * (toM n t.U)ᵀ
def gramV (n : Nat) (t : USV α) : Matrix (Fin n) (Fin n) α := toM n t.V * (toM n t.V)ᵀ

/-- what every post-pass operation preserves -/
def Same (n : Nat) (t' t : USV α) : Prop := usvProd n t' = usvProd n t ∧ gramU n t' = gramU n t ∧ gramV n t' = gramV n t
theorem Same.refl (n : Nat) (t : USV α) : Same n t t := ⟨rfl, rfl, rfl⟩
theorem Same.trans {n : Nat} {a b c : USV α} (h1 : Same n a b) (h2 : Same n b c) : Same n a c :=
  ⟨h1.1.trans h2.1, h1.2.1.trans h2.2.1, h1.2.2.trans h2.2.2⟩

theorem signFix_same3 (i : Nat) (hi : i < 3) (t : USV α) : Same 3 (signFix i t) t := by
  unfold signFix
  split_ifs
  · interval_cases i <;>
    · refine ⟨?_, ?_, ?_⟩ <;>
      · ext a b
        fin_cases a <;> fin_cases b <;>
          simp [usvProd, gramU, gramV, toM, Matrix.mul_apply, Fin.sum_univ_three, Matrix.diagonal, Matrix.transpose_apply]
  · exact Same.refl _ _

theorem signFix_same4 (i : Nat) (hi : i < 4) (t : USV α) : Same 4 (signFix i t) t := by
  unfold signFix
  split_ifs
  · interval_cases i <;>
    · refine ⟨?_, ?_, ?_⟩ <;>
      · ext a b
        fin_cases a <;> fin_cases b <;>
          simp [usvProd, gramU, gramV, toM, Matrix.mul_apply, Fin.sum_univ_four, Matrix.diagonal, Matrix.transpose_apply]
  · exact Same.refl _ _

theorem swapCols_same3 (j k : Nat) (hjk : j < k) (hk : k < 3) (t : USV α) : Same 3 (swapCols j k t) t := by
  interval_cases k <;> interval_cases j <;>
  · refine ⟨?_, ?_, ?_⟩ <;>
    · ext a b
      fin_cases a <;> fin_cases b <;>
        simp [usvProd, gramU, gramV, swapCols, toM, Matrix.mul_apply, Fin.sum_univ_three, Matrix.diagonal, Matrix.transpose_apply] <;> ring

set_option maxHeartbeats 4000000 in
theorem swapCols_same4 (j k : Nat) (hjk : j < k) (hk : k < 4) (t : USV α) : Same 4 (swapCols j k t) t := by
  interval_cases k <;> interval_cases j <;>
  · refine ⟨?_, ?_, ?_⟩ <;>
    · ext a b
      fin_cases a <;> fin_cases b <;>
        simp [usvProd, gramU, gramV, swapCols, toM, Matrix.mul_apply, Fin.sum_univ_four, Matrix.diagonal, Matrix.transpose_apply] <;> ring

theorem bubble_same3 (j : Nat) (hj : j + 1 < 3) (t : USV α) : Same 3 (bubble j t) t := by
  unfold bubble
  split_ifs
  · exact swapCols_same3 j (j + 1) (Nat.lt_succ_self j) hj t
  · exact Same.refl _ _

theorem insertCol_same4 (i : Nat) (hi : i < 4) (t : USV α) : Same 4 (insertCol i t) t := by
  induction i generalizing t with
  | zero => exact Same.refl _ _
  | succ i ih =>
    unfold insertCol
    split_ifs
    · exact (ih (Nat.lt_of_succ_lt hi) _).trans (swapCols_same4 i (i + 1) (Nat.lt_succ_self i) hi t)
    · exact Same.refl _ _

theorem post3_same (t : USV α) : Same 3 (post3 t) t := by
  unfold post3
  exact (bubble_same3 0 (by norm_num) _).trans <| (bubble_same3 1 (by norm_num) _).trans <|
    (bubble_same3 0 (by norm_num) _).trans <| (signFix_same3 2 (by norm_num) _).trans <|
    (signFix_same3 1 (by norm_num) _).trans (signFix_same3 0 (by norm_num) _)

theorem post4_same (t : USV α) : Same 4 (post4 t) t := by
  unfold post4
  exact (insertCol_same4 3 (by norm_num) _).trans <| (insertCol_same4 2 (by norm_num) _).trans <|
    (insertCol_same4 1 (by norm_num) _).trans <| (signFix_same4 3 (by norm_num) _).trans <|
    (signFix_same4 2 (by norm_num) _).trans <| (signFix_same4 1 (by norm_num) _).trans (signFix_same4 0 (by norm_num) _)

theorem forcePos_same3 (dU dV : α) (t : USV α) : Same 3 (forcePos 2 dU dV t) t := by
  unfold forcePos
  split_ifs <;>
  · refine ⟨?_, ?_, ?_⟩ <;>
    · ext a b
      fin_cases a <;> fin_cases b <;>
        simp [usvProd, gramU, gramV, toM, Matrix.mul_apply, Fin.sum_univ_three, Matrix.diagonal, Matrix.transpose_apply]

theorem forcePos_same4 (dU dV : α) (t : USV α) : Same 4 (forcePos 3 dU dV t) t := by
  unfold forcePos
  split_ifs <;>
  · refine ⟨?_, ?_, ?_⟩ <;>
    · ext a b
      fin_cases a <;> fin_cases b <;>
        simp [usvProd, gramU, gramV, toM, Matrix.mul_apply, Fin.sum_univ_four, Matrix.diagonal, Matrix.transpose_apply]

/-! ## signs and order -/

theorem signFix_S (i : Nat) (t : USV α) (c : Nat) : (signFix i t).S c = if c = i then |t.S c| else t.S c := by
  unfold signFix
  by_cases h : t.S i < 0
  · simp only [if_pos h]
    split_ifs with hc
    · subst hc; exact (abs_of_neg h).symm
    · rfl
  · simp only [if_neg h]
    split_ifs with hc
    · subst hc; exact (abs_of_nonneg (not_lt.mp h)).symm
    · rfl

theorem bubble_S (j : Nat) (t : USV α) (c : Nat) :
    (bubble j t).S c = if c = j then max (t.S j) (t.S (j + 1)) else if c = j + 1 then min (t.S j) (t.S (j + 1)) else t.S c := by
  unfold bubble
  by_cases h : t.S j < t.S (j + 1)
  · simp only [if_pos h, swapCols, max_eq_right h.le, min_eq_left h.le]
    split_ifs with h1 h2 <;> simp_all
  · simp only [if_neg h, max_eq_left (not_lt.mp h), min_eq_right (not_lt.mp h)]
    split_ifs with h1 h2
    · rw [h1]
    · rw [h2]
    · rfl

/-- after the 3×3 post-pass the singular values are non-negative and descending -/
theorem post3_sorted (t : USV α) : (post3 t).S 0 ≥ (post3 t).S 1 ∧ (post3 t).S 1 ≥ (post3 t).S 2 ∧ (post3 t).S 2 ≥ 0 := by
  have ha := abs_nonneg (t.S 0)
  have hb := abs_nonneg (t.S 1)
  have hc := abs_nonneg (t.S 2)
  simp only [post3, bubble_S, signFix_S, Nat.reduceAdd, reduceIte, OfNat.ofNat_ne_zero, OfNat.zero_ne_ofNat, OfNat.ofNat_ne_one, OfNat.one_ne_ofNat, one_ne_zero, zero_ne_one]
  set a := |t.S 0|
  set b := |t.S 1|
  set c := |t.S 2|
  refine ⟨?_, ?_, ?_⟩
  · exact le_trans (min_le_left _ _) (le_max_left _ _)
  · refine le_min ?_ ?_
    · exact le_trans (min_le_left _ _) (le_trans (min_le_left _ _) (le_max_left _ _))
    · exact le_trans (min_le_left _ _) (le_max_left _ _)
  · exact le_min (le_min ha hb) hc

/-! ## 4×4: order after the insertion sort, determinants after forcePositiveDeterminant -/

theorem swapCols_S (j k : Nat) (t : USV α) (c : Nat) :
    (swapCols j k t).S c = t.S (if c = j then k else if c = k then j else c) := rfl

theorem sabs_eq_abs' (a : α) : sabs a = |a| := by
  unfold sabs
  split_ifs with h
  · exact (abs_of_pos h).symm
  · exact (abs_of_nonpos (not_lt.mp h)).symm

/-- the three insertions of the 4×4 post-pass sort four non-negative values in descending order
(at most 6 comparisons: finite case split) -/
theorem insert3_sorted (u : USV α) (h0 : 0 ≤ u.S 0) (h1 : 0 ≤ u.S 1) (h2 : 0 ≤ u.S 2) (h3 : 0 ≤ u.S 3) :
    (insertCol 3 (insertCol 2 (insertCol 1 u))).S 0 ≥ (insertCol 3 (insertCol 2 (insertCol 1 u))).S 1 ∧
    (insertCol 3 (insertCol 2 (insertCol 1 u))).S 1 ≥ (insertCol 3 (insertCol 2 (insertCol 1 u))).S 2 ∧
    (insertCol 3 (insertCol 2 (insertCol 1 u))).S 2 ≥ (insertCol 3 (insertCol 2 (insertCol 1 u))).S 3 ∧
    (insertCol 3 (insertCol 2 (insertCol 1 u))).S 3 ≥ 0 := by
  simp only [insertCol, sabs_eq_abs']
  split_ifs <;>
    (try simp only [swapCols_S] at *) <;>
    (try simp only [Nat.reduceEqDiff, OfNat.ofNat_ne_zero, OfNat.zero_ne_ofNat, OfNat.ofNat_ne_one, OfNat.one_ne_ofNat, one_ne_zero,
      zero_ne_one, if_true, if_false] at *) <;>
    (simp only [abs_of_nonneg h0, abs_of_nonneg h1, abs_of_nonneg h2, abs_of_nonneg h3] at *) <;>
    (refine ⟨?_, ?_, ?_, ?_⟩ <;> linarith)

/-- after the 4×4 post-pass the singular values are non-negative and descending -/
theorem post4_sorted (t : USV α) :
    (post4 t).S 0 ≥ (post4 t).S 1 ∧ (post4 t).S 1 ≥ (post4 t).S 2 ∧ (post4 t).S 2 ≥ (post4 t).S 3 ∧ (post4 t).S 3 ≥ 0 := by
  unfold post4
  apply insert3_sorted <;> (simp only [signFix_S]; simp)

/-- `forcePositiveDeterminant` multiplies `det U` by `-1` exactly when the determinant it is given is negative (3×3) -/
theorem forcePos_det3 (dU dV : α) (t : USV α) :
    (toM 3 (forcePos 2 dU dV t).U).det = (if dU < 0 then -1 else 1) * (toM 3 t.U).det ∧
    (toM 3 (forcePos 2 dU dV t).V).det = (if dV < 0 then -1 else 1) * (toM 3 t.V).det := by
  unfold forcePos
  constructor <;> split_ifs <;> simp [toM, Matrix.det_fin_three] <;> ring

theorem forcePos_det4 (dU dV : α) (t : USV α) :
    (toM 4 (forcePos 3 dU dV t).U).det = (if dU < 0 then -1 else 1) * (toM 4 t.U).det ∧
    (toM 4 (forcePos 3 dU dV t).V).det = (if dV < 0 then -1 else 1) * (toM 4 t.V).det := by
  unfold forcePos
  constructor <;> split_ifs <;> simp [toM, Matrix.det_succ_row_zero, Fin.sum_univ_succ, Matrix.det_fin_three, Matrix.submatrix, Fin.succAbove] <;> ring

end ImathVerif.Jacobi
