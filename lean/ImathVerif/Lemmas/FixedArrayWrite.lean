import ImathVerif.Lemmas.FixedArrayWF
/-!
The write side of the refinement (C19): a loop of stores through a well-formed view acts on the
abstraction `View.toList` exactly like the same sequence of `List.set`s, and touches no other cell.
-/
namespace ImathVerif.FixedArray
open ImathVerif

theorem View.WF.rawOf_inj {sh : List Nat} {v : View} (w : v.WF sh) {k q : Nat} (hk : k < v.length)
    (hq : q < v.length) (he : v.rawOf k = v.rawOf q) : k = q := by
  unfold View.rawOf at he
  obtain ⟨n, hn, hm⟩ := w.inBuf
  cases hidx : v.indices with
  | none => simpa [hidx] using he
  | some idx =>
    simp only [hidx] at hm he
    obtain ⟨h1, _, _, hpw⟩ := hm
    have hk' : k < idx.length := by omega
    have hq' : q < idx.length := by omega
    simp only [List.getD_eq_getElem?_getD, List.getElem?_eq_getElem hk', List.getElem?_eq_getElem hq',
      Option.getD_some] at he
    rw [List.pairwise_iff_getElem] at hpw
    rcases Nat.lt_trichotomy k q with h | h | h
    · have := hpw k q hk' hq' h; omega
    · exact h
    · have := hpw q k hq' hk' h; omega

theorem View.WF.cellPos_inj {sh : List Nat} {v : View} (w : v.WF sh) {k q : Nat} (hk : k < v.length)
    (hq : q < v.length) (he : v.cellPos k = v.cellPos q) : k = q := by
  unfold View.cellPos View.pos at he
  have h1 : v.rawOf k * v.stride = v.rawOf q * v.stride := by omega
  exact w.rawOf_inj hk hq (Nat.eq_of_mul_eq_mul_right w.stridePos h1)

theorem cellAt_set_same {h : Heap} {b : Nat} {buf : List Int} (hb : h[b]? = some buf) (p q : Nat) (x : Int) :
    cellAt (h.set b (buf.set q x)) b p = if q = p ∧ p < buf.length then x else cellAt h b p := by
  have hbl : b < h.length := (List.getElem?_eq_some_iff.1 hb).1
  unfold cellAt
  simp only [List.getElem?_set_self hbl, Option.getD_some, hb]
  by_cases hqp : q = p
  · subst hqp
    by_cases hp : q < buf.length
    · simp [hp]
    · simp [hp, List.getElem?_eq_none (Nat.le_of_not_lt hp)]
  · simp [List.getElem?_set_ne hqp, hqp]

theorem cellAt_other {h h' : Heap} {b : Nat} (hb : h'[b]? = h[b]?) (p : Nat) : cellAt h' b p = cellAt h b p := by
  simp [cellAt, hb]

/-- one store through a view = one `List.set` on its abstraction -/
theorem View.WF.toList_store {h : Heap} {v : View} (w : v.WF (shape h)) {q : Nat} (hq : q < v.length) (x : Int) :
    ∃ h', h.wr v.buf (v.cellPos q) x = .ok h' ∧ shape h' = shape h ∧ Frame v.buf h h' ∧
      v.toList h' = (v.toList h).set q x ∧
      (∀ p, p ≠ v.cellPos q → cellAt h' v.buf p = cellAt h v.buf p) := by
  obtain ⟨n, hn, hp⟩ := w.cellPos_lt hq
  rw [shape_getElem?] at hn
  cases hbuf : h[v.buf]? with
  | none => simp [hbuf] at hn
  | some buf =>
    simp [hbuf] at hn
    subst hn
    have hwr := wr_of_lt x hbuf hp
    refine ⟨_, hwr, wr_shape hwr, wr_frame hwr, ?_, ?_⟩
    · apply List.ext_getElem
      · simp [View.toList]
      · intro i h1 h2
        have hi : i < v.length := by simpa [View.toList] using h1
        simp only [View.toList, List.getElem_map, List.getElem_range, List.getElem_set]
        rw [cellAt_set_same hbuf]
        by_cases hqi : q = i
        · subst hqi; simp [hp]
        · have : ¬ (v.cellPos q = v.cellPos i) := fun he => hqi (w.cellPos_inj hq hi he)
          simp [hqi, this]
    · intro p hpne
      rw [cellAt_set_same hbuf]
      have : ¬ (v.cellPos q = p) := fun he => hpne he.symm
      simp [this]

/-- canonical conditional store through a view at virtual index `q i` -/
def storeBody (v : View) (q : Nat → Nat) (val : Nat → Int) (c : Nat → Bool) (i : Nat) (h : Heap) : Except Err Heap :=
  if c i then h.wr v.buf (v.cellPos (q i)) (val i) else .ok h

/-- the same stores on a list -/
def storeSpec (q : Nat → Nat) (val : Nat → Int) (c : Nat → Bool) (l : List Int) (i : Nat) : List Int :=
  if c i then l.set (q i) (val i) else l

/-- **store loops refine list updates**, for any (possibly repeating) in-range virtual indices -/
theorem store_loop_refines {v : View} (q : Nat → Nat) (val : Nat → Int) (c : Nat → Bool) :
    ∀ (n i0 : Nat) (h : Heap), v.WF (shape h) →
      (∀ i, i0 ≤ i → i < i0 + n → c i = true → q i < v.length) →
      ∃ h', forLoop (storeBody v q val c) n i0 h = .ok h' ∧ shape h' = shape h ∧ Frame v.buf h h' ∧
        v.toList h' = (List.range' i0 n).foldl (storeSpec q val c) (v.toList h) ∧
        (∀ p, (∀ i, i0 ≤ i → i < i0 + n → c i = true → v.cellPos (q i) ≠ p) →
          cellAt h' v.buf p = cellAt h v.buf p) := by
  intro n
  induction n with
  | zero =>
    intro i0 h w hq
    exact ⟨h, rfl, rfl, Frame.refl _ _, by simp, fun p _ => rfl⟩
  | succ n ih =>
    intro i0 h w hq
    by_cases hc : c i0 = true
    · obtain ⟨h1, hw1, hs1, hf1, ht1, hc1⟩ := w.toList_store (hq i0 (Nat.le_refl _) (by omega) hc) (val i0)
      have w1 : v.WF (shape h1) := by rw [hs1]; exact w
      obtain ⟨h2, hl2, hs2, hf2, ht2, hc2⟩ := ih (i0 + 1) h1 w1 (fun i h1 h2 hci => hq i (by omega) (by omega) hci)
      refine ⟨h2, ?_, hs2.trans hs1, hf1.trans hf2, ?_, ?_⟩
      · simp only [forLoop, storeBody, hc, if_true, hw1]; exact hl2
      · rw [ht2, ht1, List.range'_succ, List.foldl_cons]; simp [storeSpec, hc]
      · intro p hp
        rw [hc2 p (fun i h1 h2 hci => hp i (by omega) (by omega) hci)]
        exact hc1 p (fun he => hp i0 (Nat.le_refl _) (by omega) hc he.symm)
    · obtain ⟨h2, hl2, hs2, hf2, ht2, hc2⟩ := ih (i0 + 1) h w (fun i h1 h2 hci => hq i (by omega) (by omega) hci)
      refine ⟨h2, ?_, hs2, hf2, ?_, ?_⟩
      · simp only [forLoop, storeBody, hc]; exact hl2
      · rw [ht2, List.range'_succ, List.foldl_cons]; simp [storeSpec, hc]
      · intro p hp
        exact hc2 p (fun i h1 h2 hci => hp i (by omega) (by omega) hci)

/-- two loop bodies that agree on every heap satisfying an invariant give the same loop -/
theorem forLoop_congr (P : Heap → Prop) (body body' : Nat → Heap → Except Err Heap) :
    ∀ (n i0 : Nat) (h : Heap), P h →
      (∀ i h1, i0 ≤ i → i < i0 + n → P h1 → body i h1 = body' i h1) →
      (∀ i h1 h2, P h1 → body' i h1 = .ok h2 → P h2) →
      forLoop body n i0 h = forLoop body' n i0 h := by
  intro n
  induction n with
  | zero => intro i0 h _ _ _; rfl
  | succ n ih =>
    intro i0 h hp he hinv
    simp only [forLoop]
    rw [he i0 h (Nat.le_refl _) (by omega) hp]
    cases hb : body' i0 h with
    | error e => rfl
    | ok h1 =>
      simp only
      exact ih (i0 + 1) h1 (hinv i0 h h1 hp hb) (fun i h2 h3 h4 h5 => he i h2 (by omega) (by omega) h5) hinv

/-- a read through a view only depends on the view's own buffer -/
theorem View.get_congr {h h' : Heap} {v : View} (hb : h'[v.buf]? = h[v.buf]?) (i : Nat) : v.get h' i = v.get h i := by
  unfold View.get Heap.rd
  rw [hb]

theorem storeBody_frame {v : View} {q : Nat → Nat} {val : Nat → Int} {c : Nat → Bool} {i : Nat} {h1 h2 : Heap}
    (hb : storeBody v q val c i h1 = .ok h2) : Frame v.buf h1 h2 := by
  unfold storeBody at hb
  split at hb
  · exact wr_frame hb
  · simp at hb; subst hb; exact Frame.refl _ _

/-! ## list-side bookkeeping -/

theorem foldl_storeSpec_const (q : Nat → Nat) (x : Int) (n : Nat) (l : List Int) :
    (List.range' 0 n).foldl (storeSpec q (fun _ => x) (fun _ => true)) l
      = PyList.setEach l ((List.range n).map q) x := by
  unfold PyList.setEach
  rw [List.foldl_map, ← List.range_eq_range']
  rfl

theorem zip_map_map {α β γ : Type} (r : List α) (f : α → β) (g : α → γ) :
    (r.map f).zip (r.map g) = r.map (fun i => (f i, g i)) := by
  induction r with
  | nil => rfl
  | cons a t ih => simp [ih]

theorem foldl_storeSpec_zip (q : Nat → Nat) (d : Nat → Int) (n : Nat) (l : List Int) :
    (List.range' 0 n).foldl (storeSpec q d (fun _ => true)) l
      = PyList.setZip l ((List.range n).map q) ((List.range n).map d) := by
  unfold PyList.setZip
  rw [zip_map_map, List.foldl_map, ← List.range_eq_range']
  rfl

end ImathVerif.FixedArray
