import ImathVerif.Lemmas.FixedArrayWF
/-!
The write side of the refinement (C19): a loop of stores through a well-formed view acts on the
abstraction `View.toList` exactly like the same sequence of `List.set`s, and touches no other cell.
-/
namespace ImathVerif.FixedArray
open ImathVerif

theorem View.WF.rawOf_inj {sh : List Nat} {v : View} (w : v.WF sh) {k q : Nat} (hk : k < v.length)
    (hq : q < v.length) (he : v.rawOf k = v.rawOf q) : k = q := by
  unfold View.rawOf at he
  obtain ⟨n, hn, hm⟩ := w.inBuf
  cases hidx : v.indices with
  | none => simpa [hidx] using he
  | some idx =>
    simp only [hidx] at hm he
    obtain ⟨h1, _, _, hpw⟩ := hm
    have hk' : k < idx.length := by omega
    have hq' : q < idx.length := by omega
    simp only [List.getD_eq_getElem?_getD, List.getElem?_eq_getElem hk', List.getElem?_eq_getElem hq',
      Option.getD_some] at he
    rw [List.pairwise_iff_getElem] at hpw
    rcases Nat.lt_trichotomy k q with h | h | h
    · have := hpw k q hk' hq' h; omega
    · exact h
    · have := hpw q k hq' hk' h; omega

theorem View.WF.cellPos_inj {sh : List Nat} {v : View} (w : v.WF sh) {k q : Nat} (hk : k < v.length)
    (hq : q < v.length) (he : v.cellPos k = v.cellPos q) : k = q := by
  unfold View.cellPos View.pos at he
  have h1 : v.rawOf k * v.stride = v.rawOf q * v.stride := by omega
  exact w.rawOf_inj hk hq (Nat.eq_of_mul_eq_mul_right w.stridePos h1)

theorem cellAt_set_same {h : Heap} {b : Nat} {buf : List Int} (hb : h[b]? = some buf) (p q : Nat) (x : Int) :
    cellAt (h.set b (buf.set q x)) b p = if q = p ∧ p < buf.length then x else cellAt h b p := by
  have hbl : b < h.length := (List.getElem?_eq_some_iff.1 hb).1
  unfold cellAt
  simp only [List.getElem?_set_self hbl, Option.getD_some, hb]
  by_cases hqp : q = p
  · subst hqp
    by_cases hp : q < buf.length
    · simp [hp]
    · simp [hp]
  · simp [List.getElem?_set_ne hqp, hqp]

theorem cellAt_other {h h' : Heap} {b : Nat} (hb : h'[b]? = h[b]?) (p : Nat) : cellAt h' b p = cellAt h b p := by
  simp [cellAt, hb]

/-- one store through a view = one `List.set` on its abstraction -/
theorem View.WF.toList_store {h : Heap} {v : View} (w : v.WF (shape h)) {q : Nat} (hq : q < v.length) (x : Int) :
    ∃ h', h.wr v.buf (v.cellPos q) x = .ok h' ∧ shape h' = shape h ∧ Frame v.buf h h' ∧
      v.toList h' = (v.toList h).set q x ∧
      (∀ p, p ≠ v.cellPos q → cellAt h' v.buf p = cellAt h v.buf p) := by
  obtain ⟨n, hn, hp⟩ := w.cellPos_lt hq
  rw [shape_getElem?] at hn
  cases hbuf : h[v.buf]? with
  | none => simp [hbuf] at hn
  | some buf =>
    simp [hbuf] at hn
    subst hn
    have hwr := wr_of_lt x hbuf hp
    refine ⟨_, hwr, wr_shape hwr, wr_frame hwr, ?_, ?_⟩
    · apply List.ext_getElem
      · simp [View.toList]
      · intro i h1 h2
        have hi : i < v.length := by simpa [View.toList] using h1
        simp only [View.toList, List.getElem_map, List.getElem_range, List.getElem_set]
        rw [cellAt_set_same hbuf]
        by_cases hqi : q = i
        · subst hqi; simp [hp]
        · have : ¬ (v.cellPos q = v.cellPos i) := fun he => hqi (w.cellPos_inj hq hi he)
          simp [hqi, this]
    · intro p hpne
      rw [cellAt_set_same hbuf]
      have : ¬ (v.cellPos q = p) := fun he => hpne he.symm
      simp [this]

/-- canonical conditional store through a view at virtual index `q i` -/
def storeBody (v : View) (q : Nat → Nat) (val : Nat → Int) (c : Nat → Bool) (i : Nat) (h : Heap) : Except Err Heap :=
  if c i then h.wr v.buf (v.cellPos (q i)) (val i) else .ok h

/-- the same stores on a list -/
def storeSpec (q : Nat → Nat) (val : Nat → Int) (c : Nat → Bool) (l : List Int) (i : Nat) : List Int :=
  if c i then l.set (q i) (val i) else l

/-- **store loops refine list updates**, for any (possibly repeating) in-range virtual indices -/
theorem store_loop_refines {v : View} (q : Nat → Nat) (val : Nat → Int) (c : Nat → Bool) :
    ∀ (n i0 : Nat) (h : Heap), v.WF (shape h) →
      (∀ i, i0 ≤ i → i < i0 + n → c i = true → q i < v.length) →
      ∃ h', forLoop (storeBody v q val c) n i0 h = .ok h' ∧ shape h' = shape h ∧ Frame v.buf h h' ∧
        v.toList h' = (List.range' i0 n).foldl (storeSpec q val c) (v.toList h) ∧
        (∀ p, (∀ i, i0 ≤ i → i < i0 + n → c i = true → v.cellPos (q i) ≠ p) →
          cellAt h' v.buf p = cellAt h v.buf p) := by
  intro n
  induction n with
  | zero =>
    intro i0 h w hq
    exact ⟨h, rfl, rfl, Frame.refl _ _, by simp, fun p _ => rfl⟩
  | succ n ih =>
    intro i0 h w hq
    by_cases hc : c i0 = true
    · obtain ⟨h1, hw1, hs1, hf1, ht1, hc1⟩ := w.toList_store (hq i0 (Nat.le_refl _) (by omega) hc) (val i0)
      have w1 : v.WF (shape h1) := by rw [hs1]; exact w
      obtain ⟨h2, hl2, hs2, hf2, ht2, hc2⟩ := ih (i0 + 1) h1 w1 (fun i h1 h2 hci => hq i (by omega) (by omega) hci)
      refine ⟨h2, ?_, hs2.trans hs1, hf1.trans hf2, ?_, ?_⟩
      · simp only [forLoop, storeBody, hc, if_true, hw1]; exact hl2
      · rw [ht2, ht1, List.range'_succ, List.foldl_cons]; simp [storeSpec, hc]
      · intro p hp
        rw [hc2 p (fun i h1 h2 hci => hp i (by omega) (by omega) hci)]
        exact hc1 p (fun he => hp i0 (Nat.le_refl _) (by omega) hc he.symm)
    · obtain ⟨h2, hl2, hs2, hf2, ht2, hc2⟩ := ih (i0 + 1) h w (fun i h1 h2 hci => hq i (by omega) (by omega) hci)
      refine ⟨h2, ?_, hs2, hf2, ?_, ?_⟩
      · simp only [forLoop, storeBody, hc]; exact hl2
      · rw [ht2, List.range'_succ, List.foldl_cons]; simp [storeSpec, hc]
      · intro p hp
        exact hc2 p (fun i h1 h2 hci => hp i (by omega) (by omega) hci)

/-- two loop bodies that agree on every heap satisfying an invariant give the same loop -/
theorem forLoop_congr (P : Heap → Prop) (body body' : Nat → Heap → Except Err Heap) :
    ∀ (n i0 : Nat) (h : Heap), P h →
      (∀ i h1, i0 ≤ i → i < i0 + n → P h1 → body i h1 = body' i h1) →
      (∀ i h1 h2, P h1 → body' i h1 = .ok h2 → P h2) →
      forLoop body n i0 h = forLoop body' n i0 h := by
  intro n
  induction n with
  | zero => intro i0 h _ _ _; rfl
  | succ n ih =>
    intro i0 h hp he hinv
    simp only [forLoop]
    rw [he i0 h (Nat.le_refl _) (by omega) hp]
    cases hb : body' i0 h with
    | error e => rfl
    | ok h1 =>
      simp only
      exact ih (i0 + 1) h1 (hinv i0 h h1 hp hb) (fun i h2 h3 h4 h5 => he i h2 (by omega) (by omega) h5) hinv

/-- a read through a view only depends on the view's own buffer -/
theorem View.get_congr {h h' : Heap} {v : View} (hb : h'[v.buf]? = h[v.buf]?) (i : Nat) : v.get h' i = v.get h i := by
  unfold View.get Heap.rd
  rw [hb]

theorem storeBody_frame {v : View} {q : Nat → Nat} {val : Nat → Int} {c : Nat → Bool} {i : Nat} {h1 h2 : Heap}
    (hb : storeBody v q val c i h1 = .ok h2) : Frame v.buf h1 h2 := by
  unfold storeBody at hb
  split at hb
  · exact wr_frame hb
  · simp at hb; subst hb; exact Frame.refl _ _

/-! ## list-side bookkeeping -/

theorem foldl_storeSpec_const (q : Nat → Nat) (x : Int) (n : Nat) (l : List Int) :
    (List.range' 0 n).foldl (storeSpec q (fun _ => x) (fun _ => true)) l
      = PyList.setEach l ((List.range n).map q) x := by
  unfold PyList.setEach
  rw [List.foldl_map, ← List.range_eq_range']
  rfl

theorem zip_map_map {α β γ : Type} (r : List α) (f : α → β) (g : α → γ) :
    (r.map f).zip (r.map g) = r.map (fun i => (f i, g i)) := by
  induction r with
  | nil => rfl
  | cons a t ih => simp [ih]

theorem foldl_storeSpec_zip (q : Nat → Nat) (d : Nat → Int) (n : Nat) (l : List Int) :
    (List.range' 0 n).foldl (storeSpec q d (fun _ => true)) l
      = PyList.setZip l ((List.range n).map q) ((List.range n).map d) := by
  unfold PyList.setZip
  rw [zip_map_map, List.foldl_map, ← List.range_eq_range']
  rfl

end ImathVerif.FixedArray

namespace ImathVerif.FixedArray
open ImathVerif

theorem View.WF.writeSliceElem_eq {sh : List Nat} {v : View} (w : v.WF sh) {s : SliceIdx} {i : Nat}
    (hlt : s.at i < v.length) (x : Int) (h1 : Heap) :
    v.writeSliceElem s x i h1 = h1.wr v.buf (v.cellPos (s.at i)) x := by
  unfold View.writeSliceElem
  rw [w.sliceElemPos hlt]

/-- **`a[start:stop:step] = x`** through any well-formed writable view (dense, strided or masked):
    the view afterwards reads as the Python list after `for k in range(len)[slice]: l[k] = x`,
    and no cell outside the selected ones changes. -/
theorem setitemScalar_slice_refines {h : Heap} {v : View} (w : v.WF (shape h)) (hw : v.writable = true)
    {a b c : Option Int} (hc : ∀ y, c = some y → -PY_SSIZE_T_MAX ≤ y) {s : SliceIdx} {ms : Int}
    (hs : extractSliceIndices v.length (.slice a b c) (-1) ms = .ok s) (x : Int) :
    ∃ h', setitemScalar h v (.slice a b c) x ms = .ok h' ∧ shape h' = shape h ∧ Frame v.buf h h' ∧
      PyList.setsliceScalar (v.toList h) a b c x = some (v.toList h') ∧
      (∀ p, (∀ i, i < s.slicelength → v.cellPos (s.at i) ≠ p) → cellAt h' v.buf p = cellAt h v.buf p) := by
  have hat : ∀ i, i < s.slicelength → s.at i < v.length := fun i hi => slice_at_lt' w.lenOk hs i hi
  obtain ⟨h', hl, hsh, hfr, htl, hcell⟩ :=
    store_loop_refines (v := v) s.at (fun _ => x) (fun _ => true) s.slicelength 0 h w
      (fun i _ hi _ => hat i (by omega))
  have hcongr : forLoop (v.writeSliceElem s x) s.slicelength 0 h
      = forLoop (storeBody v s.at (fun _ => x) (fun _ => true)) s.slicelength 0 h := by
    apply forLoop_congr (fun h1 => True) _ _ _ _ _ trivial
    · intro i h1 _ hi _
      simp only [storeBody, if_true]
      exact w.writeSliceElem_eq (hat i (by omega)) x h1
    · intros; trivial
  refine ⟨h', ?_, hsh, hfr, ?_, fun p hp => hcell p (fun i _ hi _ => hp i (by omega))⟩
  · unfold setitemScalar
    simp only [hw, Bool.not_true, Bool.false_eq_true, if_false, hs, hcongr, hl]
  · unfold PyList.setsliceScalar
    rw [View.toList_length, extract_slice_spec w.lenOk hc hs, htl, foldl_storeSpec_const]
    rfl

/-- **`a[start:stop:step] = b`** (array right-hand side in another allocation): lengths must match
    (`IndexError` otherwise, see `setitemVector_length_error`), then the view reads as the list after the
    extended-slice assignment. -/
theorem setitemVector_slice_refines {h : Heap} {v data : View} (w : v.WF (shape h)) (wd : data.WF (shape h))
    (hw : v.writable = true) (hne : data.buf ≠ v.buf)
    {a b c : Option Int} (hc : ∀ y, c = some y → -PY_SSIZE_T_MAX ≤ y) {s : SliceIdx} {ms : Int}
    (hs : extractSliceIndices v.length (.slice a b c) (-1) ms = .ok s) (hlen : data.length = s.slicelength) :
    ∃ h', setitemVector h v (.slice a b c) data ms = .ok h' ∧ shape h' = shape h ∧ Frame v.buf h h' ∧
      PyList.setsliceVector (v.toList h) a b c (data.toList h) = some (v.toList h') ∧
      (∀ p, (∀ i, i < s.slicelength → v.cellPos (s.at i) ≠ p) → cellAt h' v.buf p = cellAt h v.buf p) := by
  have hat : ∀ i, i < s.slicelength → s.at i < v.length := fun i hi => slice_at_lt' w.lenOk hs i hi
  let d : Nat → Int := fun i => cellAt h data.buf (data.cellPos i)
  obtain ⟨h', hl, hsh, hfr, htl, hcell⟩ :=
    store_loop_refines (v := v) s.at d (fun _ => true) s.slicelength 0 h w (fun i _ hi _ => hat i (by omega))
  have hcongr : forLoop (v.writeSliceFrom s data) s.slicelength 0 h
      = forLoop (storeBody v s.at d (fun _ => true)) s.slicelength 0 h := by
    apply forLoop_congr (fun h1 => h1[data.buf]? = h[data.buf]?) _ _ _ _ _ rfl
    · intro i h1 _ hi hp
      simp only [storeBody, if_true, View.writeSliceFrom]
      rw [View.get_congr hp, wd.get (by omega)]
      exact w.writeSliceElem_eq (hat i (by omega)) _ h1
    · intro i h1 h2 hp hb
      rw [(storeBody_frame hb).2 _ hne]; exact hp
  refine ⟨h', ?_, hsh, hfr, ?_, fun p hp => hcell p (fun i _ hi _ => hp i (by omega))⟩
  · unfold setitemVector
    have : ¬ (data.length ≠ s.slicelength) := by simp [hlen]
    simp only [hw, Bool.not_true, Bool.false_eq_true, if_false, hs, this, hcongr, hl]
  · unfold PyList.setsliceVector
    rw [View.toList_length, extract_slice_spec w.lenOk hc hs]
    simp only [List.length_map, List.length_range, View.toList_length, hlen, if_true]
    rw [htl, foldl_storeSpec_zip]
    simp only [View.toList, hlen, d]

theorem foldl_storeSpec_filter (q : Nat → Nat) (val : Nat → Int) (c : Nat → Bool) (n : Nat) (l : List Int) :
    (List.range' 0 n).foldl (storeSpec q val c) l
      = ((List.range n).filter c).foldl (fun l i => l.set (q i) (val i)) l := by
  rw [List.foldl_filter, ← List.range_eq_range']
  rfl

/-- **`a[mask] = x`** on an unmasked array, mask in another allocation and of the same length -/
theorem setitemScalarMask_refines {h : Heap} {v mask : View} (w : v.WF (shape h)) (wm : mask.WF (shape h))
    (hw : v.writable = true) (hun : v.indices = none) (hne : mask.buf ≠ v.buf) (hlen : mask.length = v.length)
    (x : Int) :
    ∃ h', setitemScalarMask h v mask x = .ok h' ∧ shape h' = shape h ∧ Frame v.buf h h' ∧
      v.toList h' = PyList.setMaskScalar (v.toList h) (mask.toList h) x := by
  let bits := mask.toList h
  let c : Nat → Bool := fun i => bits[i]! != 0
  obtain ⟨h', hl, hsh, hfr, htl, _⟩ :=
    store_loop_refines (v := v) id (fun _ => x) c v.length 0 h w (fun i _ hi _ => by simpa using hi)
  have hcp : ∀ i, v.cellPos i = v.pos i := by intro i; simp [View.cellPos, View.rawOf, hun]
  have hcongr : forLoop (v.writeIfMask mask x) v.length 0 h = forLoop (storeBody v id (fun _ => x) c) v.length 0 h := by
    apply forLoop_congr (fun h1 => h1[mask.buf]? = h[mask.buf]?) _ _ _ _ _ rfl
    · intro i h1 _ hi hp
      have hi' : i < mask.length := by omega
      simp only [storeBody, View.writeIfMask, id]
      rw [View.get_congr hp, wm.get hi', hcp]
      have : bits[i]! = cellAt h mask.buf (mask.cellPos i) := by
        have := View.toList_getElem? h mask i hi'
        simp [bits, getElem!_def, this]
      simp only [c, this]
    · intro i h1 h2 hp hb
      rw [(storeBody_frame hb).2 _ hne]; exact hp
  refine ⟨h', ?_, hsh, hfr, ?_⟩
  · unfold setitemScalarMask
    have hm : v.isMasked = false := by simp [View.isMasked, hun]
    have hmd : matchDimension v mask.length false = .ok v.length := by simp [matchDimension, hlen]
    simp only [hw, Bool.not_true, Bool.false_eq_true, if_false, hmd, hm, hcongr, hl]
  · rw [htl, foldl_storeSpec_filter]
    unfold PyList.setMaskScalar PyList.setEach PyList.maskPositions
    have : (mask.toList h).length = v.length := by rw [View.toList_length, hlen]
    rw [this]
    rfl

/-- **`a[mask] = b`** with `len(b) == len(a)`: `a[i] = b[i]` wherever `mask[i]` -/
theorem setitemVectorMask_same_refines {h : Heap} {v mask data : View} (w : v.WF (shape h))
    (wm : mask.WF (shape h)) (wd : data.WF (shape h)) (hw : v.writable = true) (hun : v.indices = none)
    (hnm : mask.buf ≠ v.buf) (hnd : data.buf ≠ v.buf) (hlen : mask.length = v.length)
    (hdl : data.length = v.length) :
    ∃ h', setitemVectorMask h v mask data = .ok h' ∧ shape h' = shape h ∧ Frame v.buf h h' ∧
      v.toList h' = PyList.setMaskSame (v.toList h) (mask.toList h) (data.toList h) := by
  let bits := mask.toList h
  let c : Nat → Bool := fun i => bits[i]! != 0
  let d : Nat → Int := fun i => cellAt h data.buf (data.cellPos i)
  obtain ⟨h', hl, hsh, hfr, htl, _⟩ :=
    store_loop_refines (v := v) id d c v.length 0 h w (fun i _ hi _ => by simpa using hi)
  have hcp : ∀ i, v.cellPos i = v.pos i := by intro i; simp [View.cellPos, View.rawOf, hun]
  have hcongr : forLoop (v.writeIfMaskFrom mask data) v.length 0 h = forLoop (storeBody v id d c) v.length 0 h := by
    apply forLoop_congr (fun h1 => h1[mask.buf]? = h[mask.buf]? ∧ h1[data.buf]? = h[data.buf]?) _ _ _ _ _ ⟨rfl, rfl⟩
    · intro i h1 _ hi hp
      have hi' : i < mask.length := by omega
      have hi2 : i < data.length := by omega
      simp only [storeBody, View.writeIfMaskFrom, id]
      rw [View.get_congr hp.1, wm.get hi', View.get_congr hp.2, wd.get hi2, hcp]
      have : bits[i]! = cellAt h mask.buf (mask.cellPos i) := by
        have := View.toList_getElem? h mask i hi'
        simp [bits, getElem!_def, this]
      simp only [c, this, d]
    · intro i h1 h2 hp hb
      have hf := storeBody_frame hb
      exact ⟨by rw [hf.2 _ hnm]; exact hp.1, by rw [hf.2 _ hnd]; exact hp.2⟩
  refine ⟨h', ?_, hsh, hfr, ?_⟩
  · unfold setitemVectorMask
    have hm : v.isMasked = false := by simp [View.isMasked, hun]
    have hmd : matchDimension v mask.length = .ok v.length := by simp [matchDimension, hlen]
    simp only [hw, Bool.not_true, Bool.false_eq_true, if_false, hmd, hm, hdl, if_true, hcongr, hl]
  · rw [htl, foldl_storeSpec_filter]
    unfold PyList.setMaskSame PyList.setZip PyList.maskPositions
    have hml : (mask.toList h).length = v.length := by rw [View.toList_length, hlen]
    rw [hml]
    have hpick : PyList.pick (data.toList h) ((List.range v.length).filter c)
        = ((List.range v.length).filter c).map d := by
      apply pick_map_of_lt
      intro j hj
      have hj' : j < data.length := by
        have := (List.mem_filter.1 hj).1; simp at this; omega
      exact View.toList_getElem? h data j hj'
    show _ = List.foldl _ _ (((List.range v.length).filter c).zip (PyList.pick (data.toList h) ((List.range v.length).filter c)))
    rw [hpick]
    have : ((List.range v.length).filter c).zip (((List.range v.length).filter c).map d)
        = ((List.range v.length).filter c).map (fun i => (i, d i)) := by
      have := zip_map_map ((List.range v.length).filter c) id d
      simpa using this
    rw [this, List.foldl_map]
    rfl

/-- length mismatch in `a[slice] = b`: `IndexError`, and (being an error) nothing is written -/
theorem setitemVector_length_error {h : Heap} {v data : View} (hw : v.writable = true) {idx : PyIdx} {s : SliceIdx}
    {ms : Int} (hs : extractSliceIndices v.length idx (-1) ms = .ok s) (hlen : data.length ≠ s.slicelength) :
    setitemVector h v idx data ms = .error .srcDimMismatch := by
  unfold setitemVector
  simp [hw, hs, hlen]

end ImathVerif.FixedArray

namespace ImathVerif.FixedArray
open ImathVerif

/-- **`a[i] = x`** for an int `i` of any sign -/
theorem setitemScalar_int_refines {h : Heap} {v : View} (w : v.WF (shape h)) (hw : v.writable = true)
    (i : Int) (x : Int) :
    (∀ k, canonicalIndex v.length i = .ok k →
      ∃ h', setitemScalar h v (.int i) x = .ok h' ∧ shape h' = shape h ∧ Frame v.buf h h' ∧
        v.toList h' = (v.toList h).set k x) ∧
    (∀ e, canonicalIndex v.length i = .error e → setitemScalar h v (.int i) x = .error .indexError) := by
  constructor
  · intro k hk
    have hs : extractSliceIndices v.length (.int i) = .ok ⟨k, k + 1, 1, 1⟩ := by
      simp [extractSliceIndices, hk]
    have hklt := canonicalIndex_lt hk
    have hn64 : (v.length : Int) < 18446744073709551616 := by
      have := w.lenOk; unfold PY_SSIZE_T_MAX at this; omega
    have hat0 : (⟨k, k + 1, 1, 1⟩ : SliceIdx).at 0 = k := by
      unfold SliceIdx.at
      simp only [Int.natCast_zero, Int.zero_mul, Int.add_zero]
      rw [wrap64_of_range (by omega) (by omega)]; simp
    obtain ⟨h', hl, hsh, hfr, htl, _⟩ :=
      store_loop_refines (v := v) (fun _ => k) (fun _ => x) (fun _ => true) 1 0 h w (fun _ _ _ _ => hklt)
    refine ⟨h', ?_, hsh, hfr, ?_⟩
    · unfold setitemScalar
      simp only [hw, Bool.not_true, Bool.false_eq_true, if_false, hs]
      have : forLoop (v.writeSliceElem ⟨k, k + 1, 1, 1⟩ x) 1 0 h
          = forLoop (storeBody v (fun _ => k) (fun _ => x) (fun _ => true)) 1 0 h := by
        apply forLoop_congr (fun _ => True) _ _ _ _ _ trivial
        · intro j h1 _ hj _
          have : j = 0 := by omega
          subst this
          simp only [storeBody, if_true]
          rw [w.writeSliceElem_eq (by rw [hat0]; exact hklt) x h1, hat0]
        · intros; trivial
      rw [this, hl]
    · rw [htl]; simp [storeSpec]
  · intro e he
    unfold setitemScalar
    simp [hw, extractSliceIndices, he, (canonicalIndex_error he).1]

theorem ifelse_getElem {choice l other : List Int} {n : Nat} (h1 : choice.length = n) (h2 : l.length = n)
    (h3 : other.length = n) :
    PyList.ifelse choice l other
      = (List.range n).map (fun (i : Nat) => if choice[i]! != 0 then l[i]! else other[i]!) := by
  unfold PyList.ifelse
  apply List.ext_getElem
  · simp [h1, h2, h3]
  · intro i hi hi'
    simp at hi hi'
    have a1 : i < choice.length := by omega
    have a2 : i < l.length := by omega
    have a3 : i < other.length := by omega
    simp [List.getElem_zip, a1, a2, a3]

/-- **`a.ifelse(choice, other)`** on a WRITABLE array (see `ifelse_readonly_quirk` for read-only ones):
    a fresh array `[a[i] if choice[i] else other[i]]` -/
theorem ifelseVector_refines {h : Heap} {v choice other : View} (w : v.WF (shape h)) (wc : choice.WF (shape h))
    (wo : other.WF (shape h)) {cr : Bool} (hw : cr = true ∨ v.writable = true) (hl1 : choice.length = v.length)
    (hl2 : other.length = v.length) :
    ∃ h' f, ifelseVector h v choice other cr = .ok (h', f) ∧
      f.toList h' = PyList.ifelse (choice.toList h) (v.toList h) (other.toList h) ∧
      f.WF (shape h') ∧ f.buf = h.length ∧ (∃ vals, h' = h ++ [vals]) := by
  let g : Nat → Int := fun i =>
    if cellAt h choice.buf (choice.cellPos i) != 0 then cellAt h v.buf (v.cellPos i)
    else cellAt h other.buf (other.cellPos i)
  have hread : mapE (v.chooseFrom h choice other cr) (List.range v.length) = .ok ((List.range v.length).map g) := by
    apply mapE_ok_of_forall
    intro i hi
    have hi' : i < v.length := by simpa using hi
    have hrd : (if cr then v.get h i else v.getNonConst h i) = .ok (cellAt h v.buf (v.cellPos i)) := by
      rcases hw with hcr | hwr
      · simp [hcr, w.get hi']
      · cases cr <;> simp [View.getNonConst, hwr, w.get hi']
    simp only [View.chooseFrom, wc.get (by omega : i < choice.length), hrd, wo.get (by omega : i < other.length), g]
    split <;> rfl
  have hlen : (((List.range v.length).map g).length : Int) ≤ PY_SSIZE_T_MAX := by
    simpa using w.lenOk
  have hA := alloc_WF h _ hlen
  refine ⟨_, _, ?_, ?_, hA.1, rfl, ⟨_, rfl⟩⟩
  · unfold ifelseVector
    simp only [matchDimension, hl1, hl2, if_true, hread]
  · rw [hA.2, ifelse_getElem (n := v.length) (by rw [View.toList_length, hl1]) (View.toList_length h v)
      (by rw [View.toList_length, hl2])]
    apply List.map_congr_left
    intro i hi
    have hi' : i < v.length := by simpa using hi
    simp [g, getElem!_def, View.toList_getElem? h v i hi', View.toList_getElem? h choice i (by omega),
      View.toList_getElem? h other i (by omega)]

end ImathVerif.FixedArray
