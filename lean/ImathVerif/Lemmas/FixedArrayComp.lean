import ImathVerif.Lemmas.FixedArrayWrite
/-!
Component arrays of vector arrays (C19): `Vec3Array_get` and its six copies, model `compView`.
-/
namespace ImathVerif.FixedArray
open ImathVerif

/-- a view on `w`-component elements: every element it can address has its `w` cells inside the allocation -/
structure View.WideWF (sh : List Nat) (w : Nat) (v : View) : Prop where
  lenOk : (v.length : Int) ≤ PY_SSIZE_T_MAX
  stridePos : 0 < v.stride
  inBuf : ∃ n, sh[v.buf]? = some n ∧
    match v.indices with
    | none => ∀ i, i < v.length → v.pos i + w ≤ n
    | some idx => idx.length = v.length ∧ (∀ r ∈ idx, r < v.unmaskedLength) ∧
        (∀ k, k < v.unmaskedLength → v.pos k + w ≤ n) ∧ idx.Pairwise (· < ·)

/-- a wide view is in particular a well-formed view (on the first components) -/
theorem View.WideWF.toWF {sh : List Nat} {w : Nat} {v : View} (hw : 0 < w) (W : v.WideWF sh w) : v.WF sh := by
  obtain ⟨n, hn, hm⟩ := W.inBuf
  refine ⟨W.lenOk, W.stridePos, n, hn, ?_⟩
  cases hidx : v.indices with
  | none =>
    simp only [hidx] at hm ⊢
    intro i hi; have := hm i hi; omega
  | some idx =>
    simp only [hidx] at hm ⊢
    obtain ⟨h1, h2, h3, h4⟩ := hm
    exact ⟨h1, h2, fun k hk => by have := h3 k hk; omega, h4⟩

/-- the freshly filled vector array is wide-well-formed -/
theorem allocWide_WideWF (h : Heap) (w n : Nat) (cells : List Int) (hw : 0 < w) (hc : cells.length = w * n)
    (hl : (n : Int) ≤ PY_SSIZE_T_MAX) :
    (allocWide h w cells).2.WideWF (shape (allocWide h w cells).1) w ∧ (allocWide h w cells).2.length = n := by
  have hlen : cells.length / w = n := by rw [hc]; exact Nat.mul_div_cancel_left n hw
  refine ⟨⟨by simp only [allocWide, hlen]; exact hl, by simp [allocWide, hw], cells.length, ?_, ?_⟩, by simp [allocWide, hlen]⟩
  · simp [allocWide, shape]
  · simp only [allocWide, hlen]
    intro i hi
    simp only [View.pos, Nat.zero_add]
    rw [hc]
    have : (i + 1) * w ≤ n * w := Nat.mul_le_mul_right w (by omega)
    rw [Nat.add_mul, Nat.one_mul] at this
    rw [Nat.mul_comm w n]
    exact this

/-- the component view of either variant shares storage and WRITABILITY with its source (clause 12: an element
    accessor derived from a read-only array is read-only) -/
theorem compView_inherits {km : Bool} {va c : View} {k : Nat} (h : compView km va k = .ok c) :
    c.buf = va.buf ∧ c.writable = va.writable ∧ c.stride = va.stride ∧ c.length = va.length := by
  unfold compView at h
  split at h
  · simp at h; subst h; exact ⟨rfl, rfl, rfl, rfl⟩
  · split at h
    · simp at h; subst h; exact ⟨rfl, rfl, rfl, rfl⟩
    · split at h
      · simp at h
      · simp at h; subst h; exact ⟨rfl, rfl, rfl, rfl⟩

/-- **`va.x` / `.y` / … (intended behaviour, `compView true`)**: for a vector array whose elements have `w` cells and
    `k < w`, the component array is a well-formed view on the same storage, with the same mask, the same
    writability, and its element `i` is component `k` of element `i` of `va` — for dense arrays AND masked references. -/
theorem compView_refines {h : Heap} {va : View} {w k : Nat} (hk : k < w) (W : va.WideWF (shape h) w) :
    ∃ c, compView true va k = .ok c ∧ c.WF (shape h) ∧ c.buf = va.buf ∧ c.writable = va.writable ∧
      c.indices = va.indices ∧ c.length = va.length ∧
      c.toList h = (List.range va.length).map (fun i => cellAt h va.buf (va.cellPos i + k)) := by
  refine ⟨{ va with off := va.off + k }, by simp [compView], ?_, rfl, rfl, rfl, rfl, ?_⟩
  · obtain ⟨n, hn, hm⟩ := W.inBuf
    refine ⟨W.lenOk, W.stridePos, n, hn, ?_⟩
    cases hidx : va.indices with
    | none =>
      simp only [hidx] at hm ⊢
      intro i hi
      have := hm i hi
      simp only [View.pos] at this ⊢
      omega
    | some idx =>
      simp only [hidx] at hm ⊢
      obtain ⟨h1, h2, h3, h4⟩ := hm
      refine ⟨h1, h2, fun j hj => ?_, h4⟩
      have := h3 j hj
      simp only [View.pos] at this ⊢
      omega
  · simp only [View.toList]
    apply List.map_congr_left
    intro i _
    have : ({ va with off := va.off + k } : View).cellPos i = va.cellPos i + k := by
      simp only [View.cellPos, View.pos, View.rawOf]
      omega
    rw [this]

/-- non-vacuity: the 4-element, 3-component array of the witness and its masked reference `[0,1,0,1]` are
    wide-well-formed, and `.x` through the intended model reads `[1, 3]` -/
example :
    let hv := allocWide [] 3 [0, 10, 20, 1, 11, 21, 2, 12, 22, 3, 13, 23]
    hv.2.WideWF (shape hv.1) 3 := (allocWide_WideWF [] 3 4 _ (by decide) (by decide) (by decide)).1

end ImathVerif.FixedArray
