import ImathVerif.Lemmas.C09FrameLemmas
/-!
Helper lemmas for C09, third part: lastFrame / nextFrame.
-/
set_option linter.unusedSectionVars false
set_option linter.unreachableTactic false
set_option linter.unusedTactic false
set_option linter.unusedVariables false
set_option linter.unusedSimpArgs false
namespace ImathVerif.C09
open ImathVerif Matrix

section Next
variable {α : Type} [Field α] [LinearOrder α] [IsStrictOrderedRing α]

/-- row vector times the 3×3 block -/
def vecRot (v : V3 α) (Q : Matrix (Fin 3) (Fin 3) α) : V3 α :=
  ⟨v.x * Q 0 0 + v.y * Q 1 0 + v.z * Q 2 0, v.x * Q 0 1 + v.y * Q 1 1 + v.z * Q 2 1, v.x * Q 0 2 + v.y * Q 1 2 + v.z * Q 2 2⟩

/-- frame times a translation: same axes, origin moved by `v` -/
theorem frame_mul_trans {a c : M44 α} {v : V3 α} (ha : IsFrame a) (h : c.toMat = a.toMat * transMat v) :
    IsFrame c ∧ rot3 c = rot3 a ∧ row3 c = vadd (row3 a) v := by
  obtain ⟨hra, ha0, ha1, ha2, ha33⟩ := ha
  have e := fun i j => congrFun (congrFun h i) j
  have e00 := e 0 0; have e01 := e 0 1; have e02 := e 0 2; have e03 := e 0 3
  have e10 := e 1 0; have e11 := e 1 1; have e12 := e 1 2; have e13 := e 1 3
  have e20 := e 2 0; have e21 := e 2 1; have e22 := e 2 2; have e23 := e 2 3
  have e30 := e 3 0; have e31 := e 3 1; have e32 := e 3 2; have e33 := e 3 3
  simp [M44.toMat, transMat, Matrix.mul_apply, Fin.sum_univ_four, ha0, ha1, ha2, ha33]
    at e00 e01 e02 e03 e10 e11 e12 e13 e20 e21 e22 e23 e30 e31 e32 e33
  have hr : rot3 c = rot3 a := by
    ext i j; fin_cases i <;> fin_cases j <;> simp [rot3, e00, e01, e02, e10, e11, e12, e20, e21, e22]
  refine ⟨⟨?_, e03, e13, e23, e33⟩, hr, ?_⟩
  · rw [hr]; exact hra
  · simp [row3, vadd, e30, e31, e32]

/-- frame times (translate by `u`, rotate by the frame `r` about the origin, translate by `v`) -/
theorem frame_mul_TRT {a r c : M44 α} {u v : V3 α} (ha : IsFrame a) (hr : IsFrame r) (hr3 : row3 r = ⟨0, 0, 0⟩)
    (h : c.toMat = a.toMat * (transMat u * r.toMat * transMat v)) :
    IsFrame c ∧ rot3 c = rot3 a * rot3 r ∧ row3 c = vadd (vecRot (vadd (row3 a) u) (rot3 r)) v := by
  obtain ⟨hra, ha0, ha1, ha2, ha33⟩ := ha
  obtain ⟨hrr, hr0, hr1, hr2, hr33⟩ := hr
  simp only [row3, V3.mk.injEq] at hr3
  obtain ⟨hr30, hr31, hr32⟩ := hr3
  have e := fun i j => congrFun (congrFun h i) j
  have e00 := e 0 0; have e01 := e 0 1; have e02 := e 0 2; have e03 := e 0 3
  have e10 := e 1 0; have e11 := e 1 1; have e12 := e 1 2; have e13 := e 1 3
  have e20 := e 2 0; have e21 := e 2 1; have e22 := e 2 2; have e23 := e 2 3
  have e30 := e 3 0; have e31 := e 3 1; have e32 := e 3 2; have e33 := e 3 3
  simp [M44.toMat, transMat, Matrix.mul_apply, Fin.sum_univ_four, ha0, ha1, ha2, ha33, hr0, hr1, hr2, hr33, hr30, hr31, hr32]
    at e00 e01 e02 e03 e10 e11 e12 e13 e20 e21 e22 e23 e30 e31 e32 e33
  have hq : rot3 c = rot3 a * rot3 r := by
    ext i j; fin_cases i <;> fin_cases j <;>
      simp [rot3, Matrix.mul_apply, Fin.sum_univ_three, e00, e01, e02, e10, e11, e12, e20, e21, e22]
  refine ⟨⟨?_, e03, e13, e23, e33⟩, hq, ?_⟩
  · rw [hq]; exact hra.mul hrr
  · simp only [row3, vadd, vecRot, rot3, V3.mk.injEq, e30, e31, e32]
    refine ⟨?_, ?_, ?_⟩ <;> simp <;> ring

/-- turning the unit vector `f` about `f × g` by the angle whose cosine is `f·g` and whose sine is `|f × g|` gives `g` -/
theorem rodrigues_align {len : V3 α → α} (hlen : LenSpec len) {f g : V3 α} (hf : dot f f = 1) (ha : cross f g ≠ ⟨0, 0, 0⟩) :
    rodrigues (len (cross f g)) (dot f g) (nrm len (cross f g)) f = g := by
  have hl := len_ne_zero hlen ha
  rw [nrm_of_ne hl]
  obtain ⟨f1, f2, f3⟩ := f
  obtain ⟨g1, g2, g3⟩ := g
  simp only [dot] at hf
  generalize hL : len (cross ⟨f1, f2, f3⟩ ⟨g1, g2, g3⟩) = L at hl ⊢
  simp only [rodrigues, vadd, smul, cross, dot, V3.mk.injEq]
  refine ⟨?_, ?_, ?_⟩
  · field_simp
    linear_combination (L ^ 2 * g1) * hf
  · field_simp
    linear_combination (L ^ 2 * g2) * hf
  · field_simp
    linear_combination (L ^ 2 * g3) * hf

theorem vecMul_rows3 (p r0 r1 r2 : V3 α) :
    p.toVec ᵥ* rows3 r0 r1 r2 = (vadd (vadd (smul p.x r0) (smul p.y r1)) (smul p.z r2)).toVec := by
  ext j; fin_cases j <;>
    simp [rows3, V3.toVec, vadd, smul, Matrix.vecMul, dotProduct, Fin.sum_univ_three]

/-- ALL paths of `nextFrame`: if the result is `Mi * nextFrameStep …` (which is what the extracted tree computes), an orthonormal
right-handed previous frame with origin `pi` is taken to an orthonormal right-handed frame with origin `pj`, its axes turned by the
rotation `nextFrameRot` -/
theorem nextFrameStep_isFrame {len : V3 α → α} (sin cos acos : α → α) (hlen : LenSpec len)
    (hsc : ∀ x, sin x ^ 2 + cos x ^ 2 = 1) (Mi R : M44 α) (pi pj ti tj : V3 α) (hMi : IsFrame Mi) (hpi : row3 Mi = pi)
    (h : R.toMat = Mi.toMat * nextFrameStep len sin cos acos pi pj ti tj) :
    IsFrame R ∧ row3 R = pj ∧ rot3 R = rot3 Mi * nextFrameRot len sin cos acos ti tj ∧ IsRot (nextFrameRot len sin cos acos ti tj) := by
  simp only [nextFrameStep] at h
  simp only [nextFrameRot]
  set fi : V3 α := ⟨ti.x / len ti, ti.y / len ti, ti.z / len ti⟩ with hfi
  set fj : V3 α := ⟨tj.x / len tj, tj.y / len tj, tj.z / len tj⟩ with hfj
  set dd : α := (if 1 < dot fi fj then (1 : α) else if dot fi fj < -1 then -1 else dot fi fj) with hdd
  by_cases hc : ¬len ti = 0 ∧ ¬len tj = 0 ∧ ¬len (cross fi fj) = 0 ∧ ¬acos dd = 0
  · rw [if_pos hc] at h ⊢
    obtain ⟨_, _, ha, _⟩ := hc
    have hR := axisAngleM44_isFrame hlen (hsc (acos dd)) (axis := cross fi fj) ha
    obtain ⟨h1, h2, h3⟩ := frame_mul_TRT hMi hR.1 hR.2 h
    refine ⟨h1, ?_, h2, hR.1.1⟩
    rw [h3, hpi]
    obtain ⟨x, y, z⟩ := pi
    obtain ⟨x', y', z'⟩ := pj
    simp [vadd, vneg, vecRot]
  · rw [if_neg hc] at h ⊢
    obtain ⟨h1, h2, h3⟩ := frame_mul_trans hMi h
    refine ⟨h1, ?_, by rw [h2, Matrix.mul_one], IsRot.one⟩
    rw [h3, hpi]
    obtain ⟨x, y, z⟩ := pi
    obtain ⟨x', y', z'⟩ := pj
    simp [vadd, vsub]

/-- non-zero, non-parallel tangents: the rotation applied by `nextFrame` takes the direction of `ti` to the direction of `tj` -/
theorem nextFrameRot_align {len : V3 α → α} (sin cos acos : α → α) (hlen : LenSpec len)
    (hac : AcosSpec sin cos acos) (ti tj : V3 α) (hi : ti ≠ ⟨0, 0, 0⟩) (hj : tj ≠ ⟨0, 0, 0⟩) (hij : cross ti tj ≠ ⟨0, 0, 0⟩) :
    (nrm len ti).toVec ᵥ* nextFrameRot len sin cos acos ti tj
      = (nrm len tj).toVec := by
  obtain ⟨hsc, hcos0, hacos⟩ := hac
  have hli := len_ne_zero hlen hi
  have hlj := len_ne_zero hlen hj
  have hpi := len_pos hlen hi
  have hpj := len_pos hlen hj
  have hf := nrm_unit hlen hli
  have hg := nrm_unit hlen hlj
  -- a = f × g is a positive multiple of ti × tj
  have ha : cross (nrm len ti) (nrm len tj) ≠ ⟨0, 0, 0⟩ := by
    rw [nrm_eq_smul hli, nrm_eq_smul hlj, cross_smul_smul]
    exact smul_ne_zero' (mul_ne_zero (inv_ne_zero hli) (inv_ne_zero hlj)) hij
  have hla := len_ne_zero hlen ha
  have hlag := lagrange (nrm len ti) (nrm len tj)
  rw [hf, hg] at hlag
  have hpos : 0 < dot (cross (nrm len ti) (nrm len tj))
      (cross (nrm len ti) (nrm len tj)) :=
    lt_of_le_of_ne (dot_self_nonneg _) (Ne.symm (dot_ne_zero ha))
  set d := dot (nrm len ti) (nrm len tj) with hd
  have hd1 : d ≤ 1 := by nlinarith [sq_nonneg (d - 1), sq_nonneg (d + 1)]
  have hd2 : -1 ≤ d := by nlinarith [sq_nonneg (d - 1), sq_nonneg (d + 1)]
  obtain ⟨hc, hs0⟩ := hacos d hd2 hd1
  have hs : sin (acos d) = len (cross (nrm len ti) (nrm len tj)) := by
    apply eq_of_sq_eq hs0 (hlen _).2
    rw [len_sq hlen, hlag]
    have := hsc (acos d)
    rw [hc] at this
    linear_combination this
  have hr : acos d ≠ 0 := by
    intro h0
    rw [h0, hcos0] at hc
    rw [← hc] at hlag
    rw [hlag] at hpos
    norm_num at hpos
  -- select the rotating path of nextFrameRot
  have hnrm_i := nrm_of_ne hli
  have hnrm_j := nrm_of_ne hlj
  have hclamp : (if 1 < d then (1 : α) else if d < -1 then -1 else d) = d := by
    rw [if_neg (not_lt.mpr hd1), if_neg (not_lt.mpr hd2)]
  simp only [nextFrameRot, ← hnrm_i, ← hnrm_j, ← hd, hclamp]
  rw [if_pos ⟨hli, hlj, hla, hr⟩]
  unfold axisAngleM44
  rw [rot3_frameM44, hs, hc]
  have hal := rodrigues_align hlen hf ha
  rw [← axisAngle_apply] at hal
  rw [vecMul_rows3, hal]

end Next
end ImathVerif.C09
