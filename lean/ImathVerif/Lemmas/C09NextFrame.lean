import ImathVerif.Lemmas.C09FrameLemmas
import ImathVerif.Lemmas.C09NextFrameTree
/-!
Helper lemmas for C09, third part: lastFrame / nextFrame.
-/
set_option linter.unusedSectionVars false
set_option linter.unreachableTactic false
set_option linter.unusedTactic false
set_option linter.unusedVariables false
set_option linter.unusedSimpArgs false
namespace ImathVerif.C09
open ImathVerif Matrix

section Next
variable {α : Type} [Field α] [LinearOrder α] [IsStrictOrderedRing α]

/-- row vector times the 3×3 block -/
def vecRot (v : V3 α) (Q : Matrix (Fin 3) (Fin 3) α) : V3 α :=
  ⟨v.x * Q 0 0 + v.y * Q 1 0 + v.z * Q 2 0, v.x * Q 0 1 + v.y * Q 1 1 + v.z * Q 2 1, v.x * Q 0 2 + v.y * Q 1 2 + v.z * Q 2 2⟩

/-- frame times a translation: same axes, origin moved by `v` -/
theorem frame_mul_trans {a c : M44 α} {v : V3 α} (ha : IsFrame a) (h : c.toMat = a.toMat * transMat v) :
    IsFrame c ∧ rot3 c = rot3 a ∧ row3 c = vadd (row3 a) v := by
  obtain ⟨hra, ha0, ha1, ha2, ha33⟩ := ha
  have e := fun i j => congrFun (congrFun h i) j
  have e00 := e 0 0; have e01 := e 0 1; have e02 := e 0 2; have e03 := e 0 3
  have e10 := e 1 0; have e11 := e 1 1; have e12 := e 1 2; have e13 := e 1 3
  have e20 := e 2 0; have e21 := e 2 1; have e22 := e 2 2; have e23 := e 2 3
  have e30 := e 3 0; have e31 := e 3 1; have e32 := e 3 2; have e33 := e 3 3
  simp [M44.toMat, transMat, Matrix.mul_apply, Fin.sum_univ_four, ha0, ha1, ha2, ha33]
    at e00 e01 e02 e03 e10 e11 e12 e13 e20 e21 e22 e23 e30 e31 e32 e33
  have hr : rot3 c = rot3 a := by
    ext i j; fin_cases i <;> fin_cases j <;> simp [rot3, e00, e01, e02, e10, e11, e12, e20, e21, e22]
  refine ⟨⟨?_, e03, e13, e23, e33⟩, hr, ?_⟩
  · rw [hr]; exact hra
  · simp [row3, vadd, e30, e31, e32]

/-- frame times (translate by `u`, rotate by the frame `r` about the origin, translate by `v`) -/
theorem frame_mul_TRT {a r c : M44 α} {u v : V3 α} (ha : IsFrame a) (hr : IsFrame r) (hr3 : row3 r = ⟨0, 0, 0⟩)
    (h : c.toMat = a.toMat * (transMat u * r.toMat * transMat v)) :
    IsFrame c ∧ rot3 c = rot3 a * rot3 r ∧ row3 c = vadd (vecRot (vadd (row3 a) u) (rot3 r)) v := by
  obtain ⟨hra, ha0, ha1, ha2, ha33⟩ := ha
  obtain ⟨hrr, hr0, hr1, hr2, hr33⟩ := hr
  simp only [row3, V3.mk.injEq] at hr3
  obtain ⟨hr30, hr31, hr32⟩ := hr3
  have e := fun i j => congrFun (congrFun h i) j
  have e00 := e 0 0; have e01 := e 0 1; have e02 := e 0 2; have e03 := e 0 3
  have e10 := e 1 0; have e11 := e 1 1; have e12 := e 1 2; have e13 := e 1 3
  have e20 := e 2 0; have e21 := e 2 1; have e22 := e 2 2; have e23 := e 2 3
  have e30 := e 3 0; have e31 := e 3 1; have e32 := e 3 2; have e33 := e 3 3
  simp [M44.toMat, transMat, Matrix.mul_apply, Fin.sum_univ_four, ha0, ha1, ha2, ha33, hr0, hr1, hr2, hr33, hr30, hr31, hr32]
    at e00 e01 e02 e03 e10 e11 e12 e13 e20 e21 e22 e23 e30 e31 e32 e33
  have hq : rot3 c = rot3 a * rot3 r := by
    ext i j; fin_cases i <;> fin_cases j <;>
      simp [rot3, Matrix.mul_apply, Fin.sum_univ_three, e00, e01, e02, e10, e11, e12, e20, e21, e22]
  refine ⟨⟨?_, e03, e13, e23, e33⟩, hq, ?_⟩
  · rw [hq]; exact hra.mul hrr
  · simp only [row3, vadd, vecRot, rot3, V3.mk.injEq, e30, e31, e32]
    refine ⟨?_, ?_, ?_⟩ <;> simp <;> ring

/-- turning the unit vector `f` about `f × g` by the angle whose cosine is `f·g` and whose sine is `|f × g|` gives `g` -/
theorem rodrigues_align {len : V3 α → α} (hlen : LenSpec len) {f g : V3 α} (hf : dot f f = 1) (ha : cross f g ≠ ⟨0, 0, 0⟩) :
    rodrigues (len (cross f g)) (dot f g) (nrm len (cross f g)) f = g := by
  have hl := len_ne_zero hlen ha
  rw [nrm_of_ne hl]
  obtain ⟨f1, f2, f3⟩ := f
  obtain ⟨g1, g2, g3⟩ := g
  simp only [dot] at hf
  generalize hL : len (cross ⟨f1, f2, f3⟩ ⟨g1, g2, g3⟩) = L at hl ⊢
  simp only [rodrigues, vadd, smul, cross, dot, V3.mk.injEq]
  refine ⟨?_, ?_, ?_⟩
  · field_simp
    linear_combination (L ^ 2 * g1) * hf
  · field_simp
    linear_combination (L ^ 2 * g2) * hf
  · field_simp
    linear_combination (L ^ 2 * g3) * hf

theorem setAxisAngle_isFrame (tmin : α) (sqrt sin cos : α → α) (hlen : LenSpec (Gen.V3.length tmin sqrt))
    (hsc : ∀ x, sin x ^ 2 + cos x ^ 2 = 1) (m0 : M44 α) (axis : V3 α) (angle : α) (h : Gen.V3.length tmin sqrt axis ≠ 0) :
    IsFrame (Gen.M44.setAxisAngle tmin sqrt sin cos m0 axis angle) ∧
      row3 (Gen.M44.setAxisAngle tmin sqrt sin cos m0 axis angle) = ⟨0, 0, 0⟩ := by
  rw [setAxisAngle_eq tmin sqrt sin cos m0 axis angle h]
  exact ⟨⟨isRot_axisAngle (nrm_unit hlen h) (hsc angle), isAffine_frameM44 _ _ _ _⟩, rfl⟩

theorem vecMul_rows3 (p r0 r1 r2 : V3 α) :
    p.toVec ᵥ* rows3 r0 r1 r2 = (vadd (vadd (smul p.x r0) (smul p.y r1)) (smul p.z r2)).toVec := by
  ext j; fin_cases j <;>
    simp [rows3, V3.toVec, vadd, smul, Matrix.vecMul, dotProduct, Fin.sum_univ_three]

/-- the rotation `nextFrame` applies to the axes of the previous frame -/
def nextFrameRot (tmin : α) (sqrt sin cos acos : α → α) (ti tj : V3 α) : Matrix (Fin 3) (Fin 3) α :=
  let len := Gen.V3.length tmin sqrt
  let fi : V3 α := ⟨ti.x / len ti, ti.y / len ti, ti.z / len ti⟩
  let fj : V3 α := ⟨tj.x / len tj, tj.y / len tj, tj.z / len tj⟩
  let d0 := dot fi fj
  let d := if 1 < d0 then 1 else if d0 < -1 then -1 else d0
  if ¬ len ti = 0 ∧ ¬ len tj = 0 ∧ ¬ len (cross fi fj) = 0 ∧ ¬ acos d = 0 then
    rot3 (Gen.M44.setAxisAngle tmin sqrt sin cos M44.identity (cross fi fj) (acos d))
  else 1

/-- ALL paths of `nextFrame`: an orthonormal right-handed previous frame with origin `pi` is taken to an orthonormal
right-handed frame with origin `pj`, its axes turned by the rotation `nextFrameRot` -/
theorem nextFrame_isFrame (tmin : α) (sqrt sin cos acos : α → α) (hlen : LenSpec (Gen.V3.length tmin sqrt))
    (hsc : ∀ x, sin x ^ 2 + cos x ^ 2 = 1) (Mi : M44 α) (pi pj ti tj : V3 α) (hMi : IsFrame Mi) (hpi : row3 Mi = pi) :
    IsFrame (Gen.Frame.nextFrame tmin sqrt sin cos acos Mi pi pj ti tj).1 ∧
      row3 (Gen.Frame.nextFrame tmin sqrt sin cos acos Mi pi pj ti tj).1 = pj ∧
      rot3 (Gen.Frame.nextFrame tmin sqrt sin cos acos Mi pi pj ti tj).1 = rot3 Mi * nextFrameRot tmin sqrt sin cos acos ti tj ∧
      IsRot (nextFrameRot tmin sqrt sin cos acos ti tj) := by
  have h := nextFrame_toMat tmin sqrt sin cos acos Mi pi pj ti tj
  simp only [nextFrameStep] at h
  simp only [nextFrameRot]
  set fi : V3 α := ⟨ti.x / Gen.V3.length tmin sqrt ti, ti.y / Gen.V3.length tmin sqrt ti, ti.z / Gen.V3.length tmin sqrt ti⟩ with hfi
  set fj : V3 α := ⟨tj.x / Gen.V3.length tmin sqrt tj, tj.y / Gen.V3.length tmin sqrt tj, tj.z / Gen.V3.length tmin sqrt tj⟩ with hfj
  set dd : α := (if 1 < dot fi fj then (1 : α) else if dot fi fj < -1 then -1 else dot fi fj) with hdd
  by_cases hc : ¬Gen.V3.length tmin sqrt ti = 0 ∧ ¬Gen.V3.length tmin sqrt tj = 0 ∧
      ¬Gen.V3.length tmin sqrt (cross fi fj) = 0 ∧ ¬acos dd = 0
  · rw [if_pos hc] at h ⊢
    obtain ⟨_, _, ha, _⟩ := hc
    have hR := setAxisAngle_isFrame tmin sqrt sin cos hlen hsc M44.identity (cross fi fj) (acos dd) ha
    obtain ⟨h1, h2, h3⟩ := frame_mul_TRT hMi hR.1 hR.2 h
    refine ⟨h1, ?_, h2, hR.1.1⟩
    rw [h3, hpi]
    obtain ⟨x, y, z⟩ := pi
    obtain ⟨x', y', z'⟩ := pj
    simp [vadd, vneg, vecRot]
  · rw [if_neg hc] at h ⊢
    obtain ⟨h1, h2, h3⟩ := frame_mul_trans hMi h
    refine ⟨h1, ?_, by rw [h2, Matrix.mul_one], IsRot.one⟩
    rw [h3, hpi]
    obtain ⟨x, y, z⟩ := pi
    obtain ⟨x', y', z'⟩ := pj
    simp [vadd, vsub]

/-- the tangents handed back by `nextFrame` (they are non-const references): normalised when both are non-zero, else untouched -/
theorem nextFrame_tangents (tmin : α) (sqrt sin cos acos : α → α) (Mi : M44 α) (pi pj ti tj : V3 α) :
    (Gen.Frame.nextFrame tmin sqrt sin cos acos Mi pi pj ti tj).2 =
      if ¬ Gen.V3.length tmin sqrt ti = 0 ∧ ¬ Gen.V3.length tmin sqrt tj = 0 then
        (⟨ti.x / Gen.V3.length tmin sqrt ti, ti.y / Gen.V3.length tmin sqrt ti, ti.z / Gen.V3.length tmin sqrt ti⟩,
         ⟨tj.x / Gen.V3.length tmin sqrt tj, tj.y / Gen.V3.length tmin sqrt tj, tj.z / Gen.V3.length tmin sqrt tj⟩)
      else (ti, tj) := by
  obtain ⟨ax, ay, az⟩ := ti
  obtain ⟨bx, by', bz⟩ := tj
  simp only [Gen.Frame.nextFrame]
  split_ifs <;> first | rfl | (exfalso; simp_all; done)

/-- what is assumed of `acos` (with `sin`, `cos`) for the alignment statement; real `arccos` satisfies it -/
def AcosSpec (sin cos acos : α → α) : Prop :=
  (∀ x, sin x ^ 2 + cos x ^ 2 = 1) ∧ cos 0 = 1 ∧ ∀ x, -1 ≤ x → x ≤ 1 → cos (acos x) = x ∧ 0 ≤ sin (acos x)

/-- non-zero, non-parallel tangents: the rotation applied by `nextFrame` takes the direction of `ti` to the direction of `tj` -/
theorem nextFrameRot_align (tmin : α) (sqrt sin cos acos : α → α) (hlen : LenSpec (Gen.V3.length tmin sqrt))
    (hac : AcosSpec sin cos acos) (ti tj : V3 α) (hi : ti ≠ ⟨0, 0, 0⟩) (hj : tj ≠ ⟨0, 0, 0⟩) (hij : cross ti tj ≠ ⟨0, 0, 0⟩) :
    (nrm (Gen.V3.length tmin sqrt) ti).toVec ᵥ* nextFrameRot tmin sqrt sin cos acos ti tj
      = (nrm (Gen.V3.length tmin sqrt) tj).toVec := by
  obtain ⟨hsc, hcos0, hacos⟩ := hac
  have hli := len_ne_zero hlen hi
  have hlj := len_ne_zero hlen hj
  have hpi := len_pos hlen hi
  have hpj := len_pos hlen hj
  have hf := nrm_unit hlen hli
  have hg := nrm_unit hlen hlj
  -- a = f × g is a positive multiple of ti × tj
  have ha : cross (nrm (Gen.V3.length tmin sqrt) ti) (nrm (Gen.V3.length tmin sqrt) tj) ≠ ⟨0, 0, 0⟩ := by
    rw [nrm_eq_smul hli, nrm_eq_smul hlj, cross_smul_smul]
    exact smul_ne_zero' (mul_ne_zero (inv_ne_zero hli) (inv_ne_zero hlj)) hij
  have hla := len_ne_zero hlen ha
  have hlag := lagrange (nrm (Gen.V3.length tmin sqrt) ti) (nrm (Gen.V3.length tmin sqrt) tj)
  rw [hf, hg] at hlag
  have hpos : 0 < dot (cross (nrm (Gen.V3.length tmin sqrt) ti) (nrm (Gen.V3.length tmin sqrt) tj))
      (cross (nrm (Gen.V3.length tmin sqrt) ti) (nrm (Gen.V3.length tmin sqrt) tj)) :=
    lt_of_le_of_ne (dot_self_nonneg _) (Ne.symm (dot_ne_zero ha))
  set d := dot (nrm (Gen.V3.length tmin sqrt) ti) (nrm (Gen.V3.length tmin sqrt) tj) with hd
  have hd1 : d ≤ 1 := by nlinarith [sq_nonneg (d - 1), sq_nonneg (d + 1)]
  have hd2 : -1 ≤ d := by nlinarith [sq_nonneg (d - 1), sq_nonneg (d + 1)]
  obtain ⟨hc, hs0⟩ := hacos d hd2 hd1
  have hs : sin (acos d) = Gen.V3.length tmin sqrt (cross (nrm (Gen.V3.length tmin sqrt) ti) (nrm (Gen.V3.length tmin sqrt) tj)) := by
    apply eq_of_sq_eq hs0 (hlen _).2
    rw [len_sq hlen, hlag]
    have := hsc (acos d)
    rw [hc] at this
    linear_combination this
  have hr : acos d ≠ 0 := by
    intro h0
    rw [h0, hcos0] at hc
    rw [← hc] at hlag
    rw [hlag] at hpos
    norm_num at hpos
  -- select the rotating path of nextFrameRot
  have hnrm_i := nrm_of_ne hli
  have hnrm_j := nrm_of_ne hlj
  have hclamp : (if 1 < d then (1 : α) else if d < -1 then -1 else d) = d := by
    rw [if_neg (not_lt.mpr hd1), if_neg (not_lt.mpr hd2)]
  simp only [nextFrameRot, ← hnrm_i, ← hnrm_j, ← hd, hclamp]
  rw [if_pos ⟨hli, hlj, hla, hr⟩, setAxisAngle_eq _ _ _ _ _ _ _ hla, rot3_frameM44, hs, hc]
  have hal := rodrigues_align hlen hf ha
  rw [← axisAngle_apply] at hal
  rw [vecMul_rows3, hal]

/-! ### lastFrame, addOffset -/

theorem lastFrame_toMat (Mi : M44 α) (pi pj : V3 α) :
    (Gen.Frame.lastFrame Mi pi pj).toMat = Mi.toMat * transMat (vsub pj pi) := by
  ext i j; fin_cases i <;> fin_cases j <;>
    simp [Gen.Frame.lastFrame, transMat, vsub, M44.toMat, Matrix.mul_apply, Fin.sum_univ_four] <;> ring

theorem transMat_eq_setTranslation (m0 : M44 α) (v : V3 α) : transMat v = (Gen.M44.setTranslation m0 v).toMat := by
  ext i j; fin_cases i <;> fin_cases j <;> simp [Gen.M44.setTranslation, transMat, M44.toMat]

/-- the degrees→radians factor used by `addOffset`: the double nearest to π/180, as an exact rational -/
def degToRad : α := (5030569068109113 : α) / 288230376151711744

set_option maxHeartbeats 1000000 in
theorem addOffset_toMat (sin cos : α → α) (inMat ref m0 m1 : M44 α) (tOffset rOffset sOffset : V3 α) :
    (Gen.Frame.addOffset sin cos inMat tOffset rOffset sOffset ref).toMat =
      (Gen.M44.setScaleV m0 sOffset).toMat
        * ((Gen.M44.setEulerAngles sin cos m1 (smul degToRad rOffset)).toMat * transMat tOffset)
        * inMat.toMat * ref.toMat := by
  obtain ⟨rx, ry, rz⟩ := rOffset
  simp only [smul, degToRad]
  have e : ∀ x : α, x * ((5030569068109113 : α) / 288230376151711744) = (5030569068109113 : α) / 288230376151711744 * x :=
    fun x => mul_comm _ _
  generalize hsx : sin ((5030569068109113 : α) / 288230376151711744 * rx) = sx
  generalize hsy : sin ((5030569068109113 : α) / 288230376151711744 * ry) = sy
  generalize hsz : sin ((5030569068109113 : α) / 288230376151711744 * rz) = sz
  generalize hcx : cos ((5030569068109113 : α) / 288230376151711744 * rx) = cx
  generalize hcy : cos ((5030569068109113 : α) / 288230376151711744 * ry) = cy
  generalize hcz : cos ((5030569068109113 : α) / 288230376151711744 * rz) = cz
  ext i j; fin_cases i <;> fin_cases j <;>
    simp [Gen.Frame.addOffset, Gen.M44.setScaleV, Gen.M44.setEulerAngles, transMat, M44.toMat, Matrix.mul_apply,
      Fin.sum_univ_four, e, hsx, hsy, hsz, hcx, hcy, hcz] <;> ring

end Next
end ImathVerif.C09
