import ImathVerif.Lemmas.C09FrameLemmas
import ImathVerif.Gen.C05
/-!
Helper lemmas for C09: the extracted `Quat::setRotation(from, to)` tree (89 paths) equals the documented case analysis
(slow to elaborate, hence its own module).
-/
set_option linter.unusedSectionVars false
set_option linter.unreachableTactic false
set_option linter.unusedTactic false
set_option linter.unusedVariables false
set_option linter.unusedSimpArgs false
namespace ImathVerif.C09
open ImathVerif Matrix

section QuatTree
variable {α : Type} [Field α] [LinearOrder α] [IsStrictOrderedRing α]

/-- `Quat::setRotationInternal(f0, t0, q)`: `h0 = (f0 + t0).normalized(); q.r = f0 ^ h0; q.v = f0 % h0` -/
def qInternal (len : V3 α → α) (f0 t0 : V3 α) : Quat α :=
  ⟨dot f0 (nrm len (vadd f0 t0)), cross f0 (nrm len (vadd f0 t0))⟩

/-- the axis chosen by `Quat::setRotation` for exactly opposite directions: `f0 ×` the coordinate axis along which `f0` is smallest -/
def qOppositeAxis (len : V3 α → α) (f0 : V3 α) : V3 α :=
  if f0.x * f0.x ≤ f0.y * f0.y ∧ f0.x * f0.x ≤ f0.z * f0.z then nrm len (cross f0 ⟨1, 0, 0⟩)
  else if f0.y * f0.y ≤ f0.z * f0.z then nrm len (cross f0 ⟨0, 1, 0⟩)
  else nrm len (cross f0 ⟨0, 0, 1⟩)

/-- `Quat::setRotation(from, to)` as documented in ImathQuat.h: angle ≤ π/2 — one half-way quaternion; larger angles — product of two
half rotations through `h0 = (f0 + t0)^`; `|f0 + t0|² ≤ (8 ε)²` (opposite to within the rounding of the two normalisations, in particular
exactly opposite) — half-turn about an axis perpendicular to `f0` -/
def quatSetRotationSpec (len : V3 α → α) (teps : α) (fromDir toDir : V3 α) : Quat α :=
  let f0 := nrm len fromDir
  let t0 := nrm len toDir
  if 0 ≤ dot f0 t0 then qInternal len f0 t0
  else
    let s := vadd f0 t0
    let h0 : V3 α := if (8 * teps) * (8 * teps) < dot s s then nrm len s else ⟨0, 0, 0⟩
    if dot h0 h0 = 0 then ⟨0, qOppositeAxis len f0⟩
    else Gen.Quat.mulAssign (qInternal len f0 h0) (qInternal len h0 t0)

set_option maxHeartbeats 8000000 in
theorem quatSetRotation_eq_spec (tmin teps : α) (sqrt : α → α) (q : Quat α) (fromDir toDir : V3 α) :
    Gen.Frame.quatSetRotation tmin teps sqrt q fromDir toDir = quatSetRotationSpec (Gen.V3.length tmin sqrt) teps fromDir toDir := by
  obtain ⟨fx, fy, fz⟩ := fromDir
  obtain ⟨tx, ty, tz⟩ := toDir
  simp only [Gen.Frame.quatSetRotation, quatSetRotationSpec, qInternal, qOppositeAxis, Gen.Quat.mulAssign, nrm, cross, dot, vadd]
  generalize Gen.V3.length tmin sqrt = len
  by_cases h1 : len ⟨fx, fy, fz⟩ = 0 <;> by_cases h2 : len ⟨tx, ty, tz⟩ = 0 <;>
    simp only [h1, h2, if_true, if_false] <;> tree_eq

end QuatTree
end ImathVerif.C09
