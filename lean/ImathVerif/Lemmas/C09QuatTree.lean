import ImathVerif.Spec.TransformSpec
import ImathVerif.Gen.C09Quat
import ImathVerif.Gen.C05
import Mathlib.Tactic.Ring
/-!
Helper lemmas for C09: the extracted `Quat::setRotation(from, to)` tree (89 paths) equals the documented case analysis
(slow to elaborate, hence its own module).
-/
set_option linter.unusedSectionVars false
set_option linter.unreachableTactic false
set_option linter.unusedTactic false
set_option linter.unusedVariables false
set_option linter.unusedSimpArgs false
namespace ImathVerif.C09
open ImathVerif Matrix

section QuatTree
variable {α : Type} [Field α] [LinearOrder α] [IsStrictOrderedRing α]

/-- `Quat::setRotationInternal(f0, t0, q)`: `h0 = (f0 + t0).normalized(); q.r = f0 ^ h0; q.v = f0 % h0` -/
def qInternal (len : V3 α → α) (f0 t0 : V3 α) : Quat α :=
  ⟨dot f0 (nrm len (vadd f0 t0)), cross f0 (nrm len (vadd f0 t0))⟩

/-- the axis chosen by `Quat::setRotation` for exactly opposite directions: `f0 ×` the coordinate axis along which `f0` is smallest -/
def qOppositeAxis (len : V3 α → α) (f0 : V3 α) : V3 α :=
  if f0.x * f0.x ≤ f0.y * f0.y ∧ f0.x * f0.x ≤ f0.z * f0.z then nrm len (cross f0 ⟨1, 0, 0⟩)
  else if f0.y * f0.y ≤ f0.z * f0.z then nrm len (cross f0 ⟨0, 1, 0⟩)
  else nrm len (cross f0 ⟨0, 0, 1⟩)

/-- `Quat::setRotation(from, to)` as documented in ImathQuat.h: angle ≤ π/2 — one half-way quaternion; larger angles — product of two
half rotations through `h0 = (f0 + t0)^`; `|f0 + t0|² ≤ (8 ε)²` (opposite to within the rounding of the two normalisations, in particular
exactly opposite) — half-turn about an axis perpendicular to `f0` -/
def quatSetRotationSpec (len : V3 α → α) (teps : α) (fromDir toDir : V3 α) : Quat α :=
  let f0 := nrm len fromDir
  let t0 := nrm len toDir
  if 0 ≤ dot f0 t0 then qInternal len f0 t0
  else
    let s := vadd f0 t0
    let h0 : V3 α := if (8 * teps) * (8 * teps) < dot s s then nrm len s else ⟨0, 0, 0⟩
    if dot h0 h0 = 0 then ⟨0, qOppositeAxis len f0⟩
    else Gen.Quat.mulAssign (qInternal len f0 h0) (qInternal len h0 t0)

set_option maxHeartbeats 8000000 in
/-- for non-zero `from`, `to` (the only inputs the property speaks about) the extracted tree IS the documented case analysis -/
theorem quatSetRotation_eq_spec (tmin teps : α) (sqrt : α → α) (q : Quat α) (fromDir toDir : V3 α)
    (h1 : Gen.V3.length tmin sqrt fromDir ≠ 0) (h2 : Gen.V3.length tmin sqrt toDir ≠ 0) :
    Gen.Frame.quatSetRotation tmin teps sqrt q fromDir toDir = quatSetRotationSpec (Gen.V3.length tmin sqrt) teps fromDir toDir := by
  obtain ⟨fx, fy, fz⟩ := fromDir
  obtain ⟨tx, ty, tz⟩ := toDir
  simp only [Gen.Frame.quatSetRotation, quatSetRotationSpec, qInternal, qOppositeAxis, Gen.Quat.mulAssign, nrm, cross, dot, vadd]
  generalize Gen.V3.length tmin sqrt = len at h1 h2 ⊢
  simp only [h1, h2, if_true, if_false]
  generalize fx / len ⟨fx, fy, fz⟩ = a1
  generalize fy / len ⟨fx, fy, fz⟩ = a2
  generalize fz / len ⟨fx, fy, fz⟩ = a3
  generalize tx / len ⟨tx, ty, tz⟩ = b1
  generalize ty / len ⟨tx, ty, tz⟩ = b2
  generalize tz / len ⟨tx, ty, tz⟩ = b3
  by_cases hd : 0 ≤ a1 * b1 + a2 * b2 + a3 * b3
  · simp only [hd, if_true]
    split_ifs <;> simp_all
  · simp only [hd, if_false]
    by_cases hc : 8 * teps * (8 * teps) < (a1 + b1) * (a1 + b1) + (a2 + b2) * (a2 + b2) + (a3 + b3) * (a3 + b3)
    · simp only [hc, if_true]
      by_cases hs : len ⟨a1 + b1, a2 + b2, a3 + b3⟩ = 0
      · simp only [hs, if_true]
        split_ifs <;> simp_all
      · simp only [hs, if_false]
        split_ifs <;> first | rfl | (simp_all; done)
    · simp only [hc, if_false]
      split_ifs <;> simp_all

end QuatTree
end ImathVerif.C09
