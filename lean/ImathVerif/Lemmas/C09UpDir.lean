import ImathVerif.Lemmas.C09FrameLemmas
/-!
Helper lemmas for C09: the documented purpose of the `upDir` argument of `alignZAxisWithTargetDir` / `rotationMatrixWithUpDir`
("you want the up vector to be pointing in a certain direction"): the frame's y-row has a POSITIVE component along `upDir`, and its x-row
is perpendicular to `upDir` (so `upDir` lies in the frame's y–z half plane `y > 0`).  Independent of the cross-product order written in
`alignZSpec`.
-/
set_option linter.unusedSectionVars false
set_option linter.unreachableTactic false
set_option linter.unusedTactic false
set_option linter.unusedVariables false
namespace ImathVerif.C09
open ImathVerif Matrix

section Up
variable {α : Type} [Field α] [LinearOrder α] [IsStrictOrderedRing α]

/-- `(t × (u × t)) · u = |u × t|²` -/
theorem dot_cross_cross_up (t u : V3 α) : dot (cross t (cross u t)) u = dot (cross u t) (cross u t) := by
  simp only [dot, cross]; ring

/-- the y-row `(t × (u × t))^` has a positive component along `u`, the x-row `(u × t)^` none -/
theorem up_component_pos {len : V3 α → α} (hlen : LenSpec len) {t u : V3 α} (ht : t ≠ ⟨0, 0, 0⟩) (hut : cross u t ≠ ⟨0, 0, 0⟩) :
    0 < dot (nrm len (cross t (cross u t))) u ∧ dot (nrm len (cross u t)) u = 0 := by
  have hl : len (cross t (cross u t)) = len t * len (cross u t) := len_cross_perp hlen (dot_cross_right u t)
  have hp : 0 < len (cross t (cross u t)) := by rw [hl]; exact mul_pos (len_pos hlen ht) (len_pos hlen hut)
  constructor
  · rw [nrm_eq_smul hp.ne', dot_smul_left, dot_cross_cross_up]
    exact mul_pos (inv_pos.mpr hp) (lt_of_le_of_ne (dot_self_nonneg _) (Ne.symm (dot_ne_zero hut)))
  · rw [nrm_eq_smul (len_ne_zero hlen hut), dot_smul_left, dot_cross_left, mul_zero]

/-- a rotation applied after its transpose: `A · (Aᵀ · B) = B` on the 3×3 blocks -/
theorem rot_mul_transpose_mul {A B : Matrix (Fin 3) (Fin 3) α} (hA : IsRot A) : A * (Aᵀ * B) = B := by
  rw [← Matrix.mul_assoc, hA.1, Matrix.one_mul]

/-- row `i` of a product is the row vector `A i` times the right factor -/
theorem row_vecMul (A R : Matrix (Fin 3) (Fin 3) α) (i : Fin 3) : (fun j => A i j) ᵥ* R = fun j => (A * R) i j := by
  ext j; simp [Matrix.vecMul, dotProduct, Matrix.mul_apply]

theorem row1_toVec (m : M44 α) : (row1 m).toVec = fun j => rot3 m 1 j := by
  ext j; fin_cases j <;> simp [V3.toVec, row1, rot3]
theorem row0_toVec (m : M44 α) : (row0 m).toVec = fun j => rot3 m 0 j := by
  ext j; fin_cases j <;> simp [V3.toVec, row0, rot3]
theorem row2_toVec (m : M44 α) : (row2 m).toVec = fun j => rot3 m 2 j := by
  ext j; fin_cases j <;> simp [V3.toVec, row2, rot3]

end Up
end ImathVerif.C09
