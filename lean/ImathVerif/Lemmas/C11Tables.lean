import ImathVerif.Spec.EulerSpec
import ImathVerif.Gen.C11Euler
import ImathVerif.Gen.C11Algo
import Mathlib.Algebra.Order.Field.Basic
/-!
Dispatch of the per-order extracted definitions (`Gen.Euler.<member>_<ORDER>`, one per enumerator,
regenerated from the headers on every run) over the inductive `Euler.Ord`, so that a property of
"all 24 orders" is ONE theorem `∀ o : Ord, …` proved by `cases o`.  Pure boilerplate (generated
once by tools/scaffold/c11_tables.py); every row names the Gen definition of the same order.
-/
namespace ImathVerif.Euler
open ImathVerif

def toM33 {α : Type} [Field α] (o : Ord) (sin cos : α → α) (a : V3 α) : M33 α :=
  match o with
  | .XYZ => Gen.Euler.toMatrix33_XYZ sin cos a
  | .XZY => Gen.Euler.toMatrix33_XZY sin cos a
  | .YZX => Gen.Euler.toMatrix33_YZX sin cos a
  | .YXZ => Gen.Euler.toMatrix33_YXZ sin cos a
  | .ZXY => Gen.Euler.toMatrix33_ZXY sin cos a
  | .ZYX => Gen.Euler.toMatrix33_ZYX sin cos a
  | .XZX => Gen.Euler.toMatrix33_XZX sin cos a
  | .XYX => Gen.Euler.toMatrix33_XYX sin cos a
  | .YXY => Gen.Euler.toMatrix33_YXY sin cos a
  | .YZY => Gen.Euler.toMatrix33_YZY sin cos a
  | .ZYZ => Gen.Euler.toMatrix33_ZYZ sin cos a
  | .ZXZ => Gen.Euler.toMatrix33_ZXZ sin cos a
  | .XYZr => Gen.Euler.toMatrix33_XYZr sin cos a
  | .XZYr => Gen.Euler.toMatrix33_XZYr sin cos a
  | .YZXr => Gen.Euler.toMatrix33_YZXr sin cos a
  | .YXZr => Gen.Euler.toMatrix33_YXZr sin cos a
  | .ZXYr => Gen.Euler.toMatrix33_ZXYr sin cos a
  | .ZYXr => Gen.Euler.toMatrix33_ZYXr sin cos a
  | .XZXr => Gen.Euler.toMatrix33_XZXr sin cos a
  | .XYXr => Gen.Euler.toMatrix33_XYXr sin cos a
  | .YXYr => Gen.Euler.toMatrix33_YXYr sin cos a
  | .YZYr => Gen.Euler.toMatrix33_YZYr sin cos a
  | .ZYZr => Gen.Euler.toMatrix33_ZYZr sin cos a
  | .ZXZr => Gen.Euler.toMatrix33_ZXZr sin cos a

def toM44 {α : Type} [Field α] (o : Ord) (sin cos : α → α) (a : V3 α) : M44 α :=
  match o with
  | .XYZ => Gen.Euler.toMatrix44_XYZ sin cos a
  | .XZY => Gen.Euler.toMatrix44_XZY sin cos a
  | .YZX => Gen.Euler.toMatrix44_YZX sin cos a
  | .YXZ => Gen.Euler.toMatrix44_YXZ sin cos a
  | .ZXY => Gen.Euler.toMatrix44_ZXY sin cos a
  | .ZYX => Gen.Euler.toMatrix44_ZYX sin cos a
  | .XZX => Gen.Euler.toMatrix44_XZX sin cos a
  | .XYX => Gen.Euler.toMatrix44_XYX sin cos a
  | .YXY => Gen.Euler.toMatrix44_YXY sin cos a
  | .YZY => Gen.Euler.toMatrix44_YZY sin cos a
  | .ZYZ => Gen.Euler.toMatrix44_ZYZ sin cos a
  | .ZXZ => Gen.Euler.toMatrix44_ZXZ sin cos a
  | .XYZr => Gen.Euler.toMatrix44_XYZr sin cos a
  | .XZYr => Gen.Euler.toMatrix44_XZYr sin cos a
  | .YZXr => Gen.Euler.toMatrix44_YZXr sin cos a
  | .YXZr => Gen.Euler.toMatrix44_YXZr sin cos a
  | .ZXYr => Gen.Euler.toMatrix44_ZXYr sin cos a
  | .ZYXr => Gen.Euler.toMatrix44_ZYXr sin cos a
  | .XZXr => Gen.Euler.toMatrix44_XZXr sin cos a
  | .XYXr => Gen.Euler.toMatrix44_XYXr sin cos a
  | .YXYr => Gen.Euler.toMatrix44_YXYr sin cos a
  | .YZYr => Gen.Euler.toMatrix44_YZYr sin cos a
  | .ZYZr => Gen.Euler.toMatrix44_ZYZr sin cos a
  | .ZXZr => Gen.Euler.toMatrix44_ZXZr sin cos a

def toQuat {α : Type} [Field α] (o : Ord) (sin cos : α → α) (a : V3 α) : Quat α :=
  match o with
  | .XYZ => Gen.Euler.toQuat_XYZ sin cos a
  | .XZY => Gen.Euler.toQuat_XZY sin cos a
  | .YZX => Gen.Euler.toQuat_YZX sin cos a
  | .YXZ => Gen.Euler.toQuat_YXZ sin cos a
  | .ZXY => Gen.Euler.toQuat_ZXY sin cos a
  | .ZYX => Gen.Euler.toQuat_ZYX sin cos a
  | .XZX => Gen.Euler.toQuat_XZX sin cos a
  | .XYX => Gen.Euler.toQuat_XYX sin cos a
  | .YXY => Gen.Euler.toQuat_YXY sin cos a
  | .YZY => Gen.Euler.toQuat_YZY sin cos a
  | .ZYZ => Gen.Euler.toQuat_ZYZ sin cos a
  | .ZXZ => Gen.Euler.toQuat_ZXZ sin cos a
  | .XYZr => Gen.Euler.toQuat_XYZr sin cos a
  | .XZYr => Gen.Euler.toQuat_XZYr sin cos a
  | .YZXr => Gen.Euler.toQuat_YZXr sin cos a
  | .YXZr => Gen.Euler.toQuat_YXZr sin cos a
  | .ZXYr => Gen.Euler.toQuat_ZXYr sin cos a
  | .ZYXr => Gen.Euler.toQuat_ZYXr sin cos a
  | .XZXr => Gen.Euler.toQuat_XZXr sin cos a
  | .XYXr => Gen.Euler.toQuat_XYXr sin cos a
  | .YXYr => Gen.Euler.toQuat_YXYr sin cos a
  | .YZYr => Gen.Euler.toQuat_YZYr sin cos a
  | .ZYZr => Gen.Euler.toQuat_ZYZr sin cos a
  | .ZXZr => Gen.Euler.toQuat_ZXZr sin cos a

def exM33 {α : Type} [Field α] (o : Ord) (sqrt sin cos : α → α) (atan2 : α → α → α) (m : M33 α) : V3 α :=
  match o with
  | .XYZ => Gen.Euler.extractM33_XYZ sqrt sin cos atan2 m
  | .XZY => Gen.Euler.extractM33_XZY sqrt sin cos atan2 m
  | .YZX => Gen.Euler.extractM33_YZX sqrt sin cos atan2 m
  | .YXZ => Gen.Euler.extractM33_YXZ sqrt sin cos atan2 m
  | .ZXY => Gen.Euler.extractM33_ZXY sqrt sin cos atan2 m
  | .ZYX => Gen.Euler.extractM33_ZYX sqrt sin cos atan2 m
  | .XZX => Gen.Euler.extractM33_XZX sqrt sin cos atan2 m
  | .XYX => Gen.Euler.extractM33_XYX sqrt sin cos atan2 m
  | .YXY => Gen.Euler.extractM33_YXY sqrt sin cos atan2 m
  | .YZY => Gen.Euler.extractM33_YZY sqrt sin cos atan2 m
  | .ZYZ => Gen.Euler.extractM33_ZYZ sqrt sin cos atan2 m
  | .ZXZ => Gen.Euler.extractM33_ZXZ sqrt sin cos atan2 m
  | .XYZr => Gen.Euler.extractM33_XYZr sqrt sin cos atan2 m
  | .XZYr => Gen.Euler.extractM33_XZYr sqrt sin cos atan2 m
  | .YZXr => Gen.Euler.extractM33_YZXr sqrt sin cos atan2 m
  | .YXZr => Gen.Euler.extractM33_YXZr sqrt sin cos atan2 m
  | .ZXYr => Gen.Euler.extractM33_ZXYr sqrt sin cos atan2 m
  | .ZYXr => Gen.Euler.extractM33_ZYXr sqrt sin cos atan2 m
  | .XZXr => Gen.Euler.extractM33_XZXr sqrt sin cos atan2 m
  | .XYXr => Gen.Euler.extractM33_XYXr sqrt sin cos atan2 m
  | .YXYr => Gen.Euler.extractM33_YXYr sqrt sin cos atan2 m
  | .YZYr => Gen.Euler.extractM33_YZYr sqrt sin cos atan2 m
  | .ZYZr => Gen.Euler.extractM33_ZYZr sqrt sin cos atan2 m
  | .ZXZr => Gen.Euler.extractM33_ZXZr sqrt sin cos atan2 m

def exM44 {α : Type} [Field α] (o : Ord) (sqrt sin cos : α → α) (atan2 : α → α → α) (m : M44 α) : V3 α :=
  match o with
  | .XYZ => Gen.Euler.extractM44_XYZ sqrt sin cos atan2 m
  | .XZY => Gen.Euler.extractM44_XZY sqrt sin cos atan2 m
  | .YZX => Gen.Euler.extractM44_YZX sqrt sin cos atan2 m
  | .YXZ => Gen.Euler.extractM44_YXZ sqrt sin cos atan2 m
  | .ZXY => Gen.Euler.extractM44_ZXY sqrt sin cos atan2 m
  | .ZYX => Gen.Euler.extractM44_ZYX sqrt sin cos atan2 m
  | .XZX => Gen.Euler.extractM44_XZX sqrt sin cos atan2 m
  | .XYX => Gen.Euler.extractM44_XYX sqrt sin cos atan2 m
  | .YXY => Gen.Euler.extractM44_YXY sqrt sin cos atan2 m
  | .YZY => Gen.Euler.extractM44_YZY sqrt sin cos atan2 m
  | .ZYZ => Gen.Euler.extractM44_ZYZ sqrt sin cos atan2 m
  | .ZXZ => Gen.Euler.extractM44_ZXZ sqrt sin cos atan2 m
  | .XYZr => Gen.Euler.extractM44_XYZr sqrt sin cos atan2 m
  | .XZYr => Gen.Euler.extractM44_XZYr sqrt sin cos atan2 m
  | .YZXr => Gen.Euler.extractM44_YZXr sqrt sin cos atan2 m
  | .YXZr => Gen.Euler.extractM44_YXZr sqrt sin cos atan2 m
  | .ZXYr => Gen.Euler.extractM44_ZXYr sqrt sin cos atan2 m
  | .ZYXr => Gen.Euler.extractM44_ZYXr sqrt sin cos atan2 m
  | .XZXr => Gen.Euler.extractM44_XZXr sqrt sin cos atan2 m
  | .XYXr => Gen.Euler.extractM44_XYXr sqrt sin cos atan2 m
  | .YXYr => Gen.Euler.extractM44_YXYr sqrt sin cos atan2 m
  | .YZYr => Gen.Euler.extractM44_YZYr sqrt sin cos atan2 m
  | .ZYZr => Gen.Euler.extractM44_ZYZr sqrt sin cos atan2 m
  | .ZXZr => Gen.Euler.extractM44_ZXZr sqrt sin cos atan2 m

def exQuat {α : Type} [Field α] (o : Ord) (sqrt sin cos : α → α) (atan2 : α → α → α) (q : Quat α) : V3 α :=
  match o with
  | .XYZ => Gen.Euler.extractQuat_XYZ sqrt sin cos atan2 q
  | .XZY => Gen.Euler.extractQuat_XZY sqrt sin cos atan2 q
  | .YZX => Gen.Euler.extractQuat_YZX sqrt sin cos atan2 q
  | .YXZ => Gen.Euler.extractQuat_YXZ sqrt sin cos atan2 q
  | .ZXY => Gen.Euler.extractQuat_ZXY sqrt sin cos atan2 q
  | .ZYX => Gen.Euler.extractQuat_ZYX sqrt sin cos atan2 q
  | .XZX => Gen.Euler.extractQuat_XZX sqrt sin cos atan2 q
  | .XYX => Gen.Euler.extractQuat_XYX sqrt sin cos atan2 q
  | .YXY => Gen.Euler.extractQuat_YXY sqrt sin cos atan2 q
  | .YZY => Gen.Euler.extractQuat_YZY sqrt sin cos atan2 q
  | .ZYZ => Gen.Euler.extractQuat_ZYZ sqrt sin cos atan2 q
  | .ZXZ => Gen.Euler.extractQuat_ZXZ sqrt sin cos atan2 q
  | .XYZr => Gen.Euler.extractQuat_XYZr sqrt sin cos atan2 q
  | .XZYr => Gen.Euler.extractQuat_XZYr sqrt sin cos atan2 q
  | .YZXr => Gen.Euler.extractQuat_YZXr sqrt sin cos atan2 q
  | .YXZr => Gen.Euler.extractQuat_YXZr sqrt sin cos atan2 q
  | .ZXYr => Gen.Euler.extractQuat_ZXYr sqrt sin cos atan2 q
  | .ZYXr => Gen.Euler.extractQuat_ZYXr sqrt sin cos atan2 q
  | .XZXr => Gen.Euler.extractQuat_XZXr sqrt sin cos atan2 q
  | .XYXr => Gen.Euler.extractQuat_XYXr sqrt sin cos atan2 q
  | .YXYr => Gen.Euler.extractQuat_YXYr sqrt sin cos atan2 q
  | .YZYr => Gen.Euler.extractQuat_YZYr sqrt sin cos atan2 q
  | .ZYZr => Gen.Euler.extractQuat_ZYZr sqrt sin cos atan2 q
  | .ZXZr => Gen.Euler.extractQuat_ZXZr sqrt sin cos atan2 q

def ctorM33 {α : Type} [Field α] (o : Ord) (sqrt sin cos : α → α) (atan2 : α → α → α) (m : M33 α) : V3 α × Int :=
  match o with
  | .XYZ => Gen.Euler.ctorM33_XYZ sqrt sin cos atan2 m
  | .XZY => Gen.Euler.ctorM33_XZY sqrt sin cos atan2 m
  | .YZX => Gen.Euler.ctorM33_YZX sqrt sin cos atan2 m
  | .YXZ => Gen.Euler.ctorM33_YXZ sqrt sin cos atan2 m
  | .ZXY => Gen.Euler.ctorM33_ZXY sqrt sin cos atan2 m
  | .ZYX => Gen.Euler.ctorM33_ZYX sqrt sin cos atan2 m
  | .XZX => Gen.Euler.ctorM33_XZX sqrt sin cos atan2 m
  | .XYX => Gen.Euler.ctorM33_XYX sqrt sin cos atan2 m
  | .YXY => Gen.Euler.ctorM33_YXY sqrt sin cos atan2 m
  | .YZY => Gen.Euler.ctorM33_YZY sqrt sin cos atan2 m
  | .ZYZ => Gen.Euler.ctorM33_ZYZ sqrt sin cos atan2 m
  | .ZXZ => Gen.Euler.ctorM33_ZXZ sqrt sin cos atan2 m
  | .XYZr => Gen.Euler.ctorM33_XYZr sqrt sin cos atan2 m
  | .XZYr => Gen.Euler.ctorM33_XZYr sqrt sin cos atan2 m
  | .YZXr => Gen.Euler.ctorM33_YZXr sqrt sin cos atan2 m
  | .YXZr => Gen.Euler.ctorM33_YXZr sqrt sin cos atan2 m
  | .ZXYr => Gen.Euler.ctorM33_ZXYr sqrt sin cos atan2 m
  | .ZYXr => Gen.Euler.ctorM33_ZYXr sqrt sin cos atan2 m
  | .XZXr => Gen.Euler.ctorM33_XZXr sqrt sin cos atan2 m
  | .XYXr => Gen.Euler.ctorM33_XYXr sqrt sin cos atan2 m
  | .YXYr => Gen.Euler.ctorM33_YXYr sqrt sin cos atan2 m
  | .YZYr => Gen.Euler.ctorM33_YZYr sqrt sin cos atan2 m
  | .ZYZr => Gen.Euler.ctorM33_ZYZr sqrt sin cos atan2 m
  | .ZXZr => Gen.Euler.ctorM33_ZXZr sqrt sin cos atan2 m

def ctorM44 {α : Type} [Field α] (o : Ord) (sqrt sin cos : α → α) (atan2 : α → α → α) (m : M44 α) : V3 α × Int :=
  match o with
  | .XYZ => Gen.Euler.ctorM44_XYZ sqrt sin cos atan2 m
  | .XZY => Gen.Euler.ctorM44_XZY sqrt sin cos atan2 m
  | .YZX => Gen.Euler.ctorM44_YZX sqrt sin cos atan2 m
  | .YXZ => Gen.Euler.ctorM44_YXZ sqrt sin cos atan2 m
  | .ZXY => Gen.Euler.ctorM44_ZXY sqrt sin cos atan2 m
  | .ZYX => Gen.Euler.ctorM44_ZYX sqrt sin cos atan2 m
  | .XZX => Gen.Euler.ctorM44_XZX sqrt sin cos atan2 m
  | .XYX => Gen.Euler.ctorM44_XYX sqrt sin cos atan2 m
  | .YXY => Gen.Euler.ctorM44_YXY sqrt sin cos atan2 m
  | .YZY => Gen.Euler.ctorM44_YZY sqrt sin cos atan2 m
  | .ZYZ => Gen.Euler.ctorM44_ZYZ sqrt sin cos atan2 m
  | .ZXZ => Gen.Euler.ctorM44_ZXZ sqrt sin cos atan2 m
  | .XYZr => Gen.Euler.ctorM44_XYZr sqrt sin cos atan2 m
  | .XZYr => Gen.Euler.ctorM44_XZYr sqrt sin cos atan2 m
  | .YZXr => Gen.Euler.ctorM44_YZXr sqrt sin cos atan2 m
  | .YXZr => Gen.Euler.ctorM44_YXZr sqrt sin cos atan2 m
  | .ZXYr => Gen.Euler.ctorM44_ZXYr sqrt sin cos atan2 m
  | .ZYXr => Gen.Euler.ctorM44_ZYXr sqrt sin cos atan2 m
  | .XZXr => Gen.Euler.ctorM44_XZXr sqrt sin cos atan2 m
  | .XYXr => Gen.Euler.ctorM44_XYXr sqrt sin cos atan2 m
  | .YXYr => Gen.Euler.ctorM44_YXYr sqrt sin cos atan2 m
  | .YZYr => Gen.Euler.ctorM44_YZYr sqrt sin cos atan2 m
  | .ZYZr => Gen.Euler.ctorM44_ZYZr sqrt sin cos atan2 m
  | .ZXZr => Gen.Euler.ctorM44_ZXZr sqrt sin cos atan2 m

def ctorXYZ {α : Type} [Field α] (o : Ord) (v : V3 α) : V3 α × Int :=
  match o with
  | .XYZ => Gen.Euler.ctorXYZLayout_XYZ v
  | .XZY => Gen.Euler.ctorXYZLayout_XZY v
  | .YZX => Gen.Euler.ctorXYZLayout_YZX v
  | .YXZ => Gen.Euler.ctorXYZLayout_YXZ v
  | .ZXY => Gen.Euler.ctorXYZLayout_ZXY v
  | .ZYX => Gen.Euler.ctorXYZLayout_ZYX v
  | .XZX => Gen.Euler.ctorXYZLayout_XZX v
  | .XYX => Gen.Euler.ctorXYZLayout_XYX v
  | .YXY => Gen.Euler.ctorXYZLayout_YXY v
  | .YZY => Gen.Euler.ctorXYZLayout_YZY v
  | .ZYZ => Gen.Euler.ctorXYZLayout_ZYZ v
  | .ZXZ => Gen.Euler.ctorXYZLayout_ZXZ v
  | .XYZr => Gen.Euler.ctorXYZLayout_XYZr v
  | .XZYr => Gen.Euler.ctorXYZLayout_XZYr v
  | .YZXr => Gen.Euler.ctorXYZLayout_YZXr v
  | .YXZr => Gen.Euler.ctorXYZLayout_YXZr v
  | .ZXYr => Gen.Euler.ctorXYZLayout_ZXYr v
  | .ZYXr => Gen.Euler.ctorXYZLayout_ZYXr v
  | .XZXr => Gen.Euler.ctorXYZLayout_XZXr v
  | .XYXr => Gen.Euler.ctorXYZLayout_XYXr v
  | .YXYr => Gen.Euler.ctorXYZLayout_YXYr v
  | .YZYr => Gen.Euler.ctorXYZLayout_YZYr v
  | .ZYZr => Gen.Euler.ctorXYZLayout_ZYZr v
  | .ZXZr => Gen.Euler.ctorXYZLayout_ZXZr v

def ctorXYZs {α : Type} [Field α] (o : Ord) (xi yi zi : α) : V3 α × Int :=
  match o with
  | .XYZ => Gen.Euler.ctorXYZLayoutScalars_XYZ xi yi zi
  | .XZY => Gen.Euler.ctorXYZLayoutScalars_XZY xi yi zi
  | .YZX => Gen.Euler.ctorXYZLayoutScalars_YZX xi yi zi
  | .YXZ => Gen.Euler.ctorXYZLayoutScalars_YXZ xi yi zi
  | .ZXY => Gen.Euler.ctorXYZLayoutScalars_ZXY xi yi zi
  | .ZYX => Gen.Euler.ctorXYZLayoutScalars_ZYX xi yi zi
  | .XZX => Gen.Euler.ctorXYZLayoutScalars_XZX xi yi zi
  | .XYX => Gen.Euler.ctorXYZLayoutScalars_XYX xi yi zi
  | .YXY => Gen.Euler.ctorXYZLayoutScalars_YXY xi yi zi
  | .YZY => Gen.Euler.ctorXYZLayoutScalars_YZY xi yi zi
  | .ZYZ => Gen.Euler.ctorXYZLayoutScalars_ZYZ xi yi zi
  | .ZXZ => Gen.Euler.ctorXYZLayoutScalars_ZXZ xi yi zi
  | .XYZr => Gen.Euler.ctorXYZLayoutScalars_XYZr xi yi zi
  | .XZYr => Gen.Euler.ctorXYZLayoutScalars_XZYr xi yi zi
  | .YZXr => Gen.Euler.ctorXYZLayoutScalars_YZXr xi yi zi
  | .YXZr => Gen.Euler.ctorXYZLayoutScalars_YXZr xi yi zi
  | .ZXYr => Gen.Euler.ctorXYZLayoutScalars_ZXYr xi yi zi
  | .ZYXr => Gen.Euler.ctorXYZLayoutScalars_ZYXr xi yi zi
  | .XZXr => Gen.Euler.ctorXYZLayoutScalars_XZXr xi yi zi
  | .XYXr => Gen.Euler.ctorXYZLayoutScalars_XYXr xi yi zi
  | .YXYr => Gen.Euler.ctorXYZLayoutScalars_YXYr xi yi zi
  | .YZYr => Gen.Euler.ctorXYZLayoutScalars_YZYr xi yi zi
  | .ZYZr => Gen.Euler.ctorXYZLayoutScalars_ZYZr xi yi zi
  | .ZXZr => Gen.Euler.ctorXYZLayoutScalars_ZXZr xi yi zi

def ctorIJK {α : Type} [Field α] (o : Ord) (v : V3 α) : V3 α × Int :=
  match o with
  | .XYZ => Gen.Euler.ctorIJKLayout_XYZ v
  | .XZY => Gen.Euler.ctorIJKLayout_XZY v
  | .YZX => Gen.Euler.ctorIJKLayout_YZX v
  | .YXZ => Gen.Euler.ctorIJKLayout_YXZ v
  | .ZXY => Gen.Euler.ctorIJKLayout_ZXY v
  | .ZYX => Gen.Euler.ctorIJKLayout_ZYX v
  | .XZX => Gen.Euler.ctorIJKLayout_XZX v
  | .XYX => Gen.Euler.ctorIJKLayout_XYX v
  | .YXY => Gen.Euler.ctorIJKLayout_YXY v
  | .YZY => Gen.Euler.ctorIJKLayout_YZY v
  | .ZYZ => Gen.Euler.ctorIJKLayout_ZYZ v
  | .ZXZ => Gen.Euler.ctorIJKLayout_ZXZ v
  | .XYZr => Gen.Euler.ctorIJKLayout_XYZr v
  | .XZYr => Gen.Euler.ctorIJKLayout_XZYr v
  | .YZXr => Gen.Euler.ctorIJKLayout_YZXr v
  | .YXZr => Gen.Euler.ctorIJKLayout_YXZr v
  | .ZXYr => Gen.Euler.ctorIJKLayout_ZXYr v
  | .ZYXr => Gen.Euler.ctorIJKLayout_ZYXr v
  | .XZXr => Gen.Euler.ctorIJKLayout_XZXr v
  | .XYXr => Gen.Euler.ctorIJKLayout_XYXr v
  | .YXYr => Gen.Euler.ctorIJKLayout_YXYr v
  | .YZYr => Gen.Euler.ctorIJKLayout_YZYr v
  | .ZYZr => Gen.Euler.ctorIJKLayout_ZYZr v
  | .ZXZr => Gen.Euler.ctorIJKLayout_ZXZr v

def setXYZ {α : Type} [Field α] (o : Ord) (a v : V3 α) : V3 α :=
  match o with
  | .XYZ => Gen.Euler.setXYZVector_XYZ a v
  | .XZY => Gen.Euler.setXYZVector_XZY a v
  | .YZX => Gen.Euler.setXYZVector_YZX a v
  | .YXZ => Gen.Euler.setXYZVector_YXZ a v
  | .ZXY => Gen.Euler.setXYZVector_ZXY a v
  | .ZYX => Gen.Euler.setXYZVector_ZYX a v
  | .XZX => Gen.Euler.setXYZVector_XZX a v
  | .XYX => Gen.Euler.setXYZVector_XYX a v
  | .YXY => Gen.Euler.setXYZVector_YXY a v
  | .YZY => Gen.Euler.setXYZVector_YZY a v
  | .ZYZ => Gen.Euler.setXYZVector_ZYZ a v
  | .ZXZ => Gen.Euler.setXYZVector_ZXZ a v
  | .XYZr => Gen.Euler.setXYZVector_XYZr a v
  | .XZYr => Gen.Euler.setXYZVector_XZYr a v
  | .YZXr => Gen.Euler.setXYZVector_YZXr a v
  | .YXZr => Gen.Euler.setXYZVector_YXZr a v
  | .ZXYr => Gen.Euler.setXYZVector_ZXYr a v
  | .ZYXr => Gen.Euler.setXYZVector_ZYXr a v
  | .XZXr => Gen.Euler.setXYZVector_XZXr a v
  | .XYXr => Gen.Euler.setXYZVector_XYXr a v
  | .YXYr => Gen.Euler.setXYZVector_YXYr a v
  | .YZYr => Gen.Euler.setXYZVector_YZYr a v
  | .ZYZr => Gen.Euler.setXYZVector_ZYZr a v
  | .ZXZr => Gen.Euler.setXYZVector_ZXZr a v

def toXYZ {α : Type} [Field α] (o : Ord) (a : V3 α) : V3 α :=
  match o with
  | .XYZ => Gen.Euler.toXYZVector_XYZ a
  | .XZY => Gen.Euler.toXYZVector_XZY a
  | .YZX => Gen.Euler.toXYZVector_YZX a
  | .YXZ => Gen.Euler.toXYZVector_YXZ a
  | .ZXY => Gen.Euler.toXYZVector_ZXY a
  | .ZYX => Gen.Euler.toXYZVector_ZYX a
  | .XZX => Gen.Euler.toXYZVector_XZX a
  | .XYX => Gen.Euler.toXYZVector_XYX a
  | .YXY => Gen.Euler.toXYZVector_YXY a
  | .YZY => Gen.Euler.toXYZVector_YZY a
  | .ZYZ => Gen.Euler.toXYZVector_ZYZ a
  | .ZXZ => Gen.Euler.toXYZVector_ZXZ a
  | .XYZr => Gen.Euler.toXYZVector_XYZr a
  | .XZYr => Gen.Euler.toXYZVector_XZYr a
  | .YZXr => Gen.Euler.toXYZVector_YZXr a
  | .YXZr => Gen.Euler.toXYZVector_YXZr a
  | .ZXYr => Gen.Euler.toXYZVector_ZXYr a
  | .ZYXr => Gen.Euler.toXYZVector_ZYXr a
  | .XZXr => Gen.Euler.toXYZVector_XZXr a
  | .XYXr => Gen.Euler.toXYZVector_XYXr a
  | .YXYr => Gen.Euler.toXYZVector_YXYr a
  | .YZYr => Gen.Euler.toXYZVector_YZYr a
  | .ZYZr => Gen.Euler.toXYZVector_ZYZr a
  | .ZXZr => Gen.Euler.toXYZVector_ZXZr a

def setOrderKeeps {α : Type} [Field α] (o : Ord) (a : V3 α) : V3 α × Int :=
  match o with
  | .XYZ => Gen.Euler.setOrderKeepsAngles_XYZ a
  | .XZY => Gen.Euler.setOrderKeepsAngles_XZY a
  | .YZX => Gen.Euler.setOrderKeepsAngles_YZX a
  | .YXZ => Gen.Euler.setOrderKeepsAngles_YXZ a
  | .ZXY => Gen.Euler.setOrderKeepsAngles_ZXY a
  | .ZYX => Gen.Euler.setOrderKeepsAngles_ZYX a
  | .XZX => Gen.Euler.setOrderKeepsAngles_XZX a
  | .XYX => Gen.Euler.setOrderKeepsAngles_XYX a
  | .YXY => Gen.Euler.setOrderKeepsAngles_YXY a
  | .YZY => Gen.Euler.setOrderKeepsAngles_YZY a
  | .ZYZ => Gen.Euler.setOrderKeepsAngles_ZYZ a
  | .ZXZ => Gen.Euler.setOrderKeepsAngles_ZXZ a
  | .XYZr => Gen.Euler.setOrderKeepsAngles_XYZr a
  | .XZYr => Gen.Euler.setOrderKeepsAngles_XZYr a
  | .YZXr => Gen.Euler.setOrderKeepsAngles_YZXr a
  | .YXZr => Gen.Euler.setOrderKeepsAngles_YXZr a
  | .ZXYr => Gen.Euler.setOrderKeepsAngles_ZXYr a
  | .ZYXr => Gen.Euler.setOrderKeepsAngles_ZYXr a
  | .XZXr => Gen.Euler.setOrderKeepsAngles_XZXr a
  | .XYXr => Gen.Euler.setOrderKeepsAngles_XYXr a
  | .YXYr => Gen.Euler.setOrderKeepsAngles_YXYr a
  | .YZYr => Gen.Euler.setOrderKeepsAngles_YZYr a
  | .ZYZr => Gen.Euler.setOrderKeepsAngles_ZYZr a
  | .ZXZr => Gen.Euler.setOrderKeepsAngles_ZXZr a

def reorderFromXYZ {α : Type} [Field α] (o : Ord) (sqrt sin cos : α → α) (atan2 : α → α → α) (a : V3 α) : V3 α × Int :=
  match o with
  | .XYZ => Gen.Euler.reorderFromXYZ_XYZ sqrt sin cos atan2 a
  | .XZY => Gen.Euler.reorderFromXYZ_XZY sqrt sin cos atan2 a
  | .YZX => Gen.Euler.reorderFromXYZ_YZX sqrt sin cos atan2 a
  | .YXZ => Gen.Euler.reorderFromXYZ_YXZ sqrt sin cos atan2 a
  | .ZXY => Gen.Euler.reorderFromXYZ_ZXY sqrt sin cos atan2 a
  | .ZYX => Gen.Euler.reorderFromXYZ_ZYX sqrt sin cos atan2 a
  | .XZX => Gen.Euler.reorderFromXYZ_XZX sqrt sin cos atan2 a
  | .XYX => Gen.Euler.reorderFromXYZ_XYX sqrt sin cos atan2 a
  | .YXY => Gen.Euler.reorderFromXYZ_YXY sqrt sin cos atan2 a
  | .YZY => Gen.Euler.reorderFromXYZ_YZY sqrt sin cos atan2 a
  | .ZYZ => Gen.Euler.reorderFromXYZ_ZYZ sqrt sin cos atan2 a
  | .ZXZ => Gen.Euler.reorderFromXYZ_ZXZ sqrt sin cos atan2 a
  | .XYZr => Gen.Euler.reorderFromXYZ_XYZr sqrt sin cos atan2 a
  | .XZYr => Gen.Euler.reorderFromXYZ_XZYr sqrt sin cos atan2 a
  | .YZXr => Gen.Euler.reorderFromXYZ_YZXr sqrt sin cos atan2 a
  | .YXZr => Gen.Euler.reorderFromXYZ_YXZr sqrt sin cos atan2 a
  | .ZXYr => Gen.Euler.reorderFromXYZ_ZXYr sqrt sin cos atan2 a
  | .ZYXr => Gen.Euler.reorderFromXYZ_ZYXr sqrt sin cos atan2 a
  | .XZXr => Gen.Euler.reorderFromXYZ_XZXr sqrt sin cos atan2 a
  | .XYXr => Gen.Euler.reorderFromXYZ_XYXr sqrt sin cos atan2 a
  | .YXYr => Gen.Euler.reorderFromXYZ_YXYr sqrt sin cos atan2 a
  | .YZYr => Gen.Euler.reorderFromXYZ_YZYr sqrt sin cos atan2 a
  | .ZYZr => Gen.Euler.reorderFromXYZ_ZYZr sqrt sin cos atan2 a
  | .ZXZr => Gen.Euler.reorderFromXYZ_ZXZr sqrt sin cos atan2 a

def reorderToZYXr {α : Type} [Field α] (o : Ord) (sqrt sin cos : α → α) (atan2 : α → α → α) (a : V3 α) : V3 α × Int :=
  match o with
  | .XYZ => Gen.Euler.reorderToZYXr_XYZ sqrt sin cos atan2 a
  | .XZY => Gen.Euler.reorderToZYXr_XZY sqrt sin cos atan2 a
  | .YZX => Gen.Euler.reorderToZYXr_YZX sqrt sin cos atan2 a
  | .YXZ => Gen.Euler.reorderToZYXr_YXZ sqrt sin cos atan2 a
  | .ZXY => Gen.Euler.reorderToZYXr_ZXY sqrt sin cos atan2 a
  | .ZYX => Gen.Euler.reorderToZYXr_ZYX sqrt sin cos atan2 a
  | .XZX => Gen.Euler.reorderToZYXr_XZX sqrt sin cos atan2 a
  | .XYX => Gen.Euler.reorderToZYXr_XYX sqrt sin cos atan2 a
  | .YXY => Gen.Euler.reorderToZYXr_YXY sqrt sin cos atan2 a
  | .YZY => Gen.Euler.reorderToZYXr_YZY sqrt sin cos atan2 a
  | .ZYZ => Gen.Euler.reorderToZYXr_ZYZ sqrt sin cos atan2 a
  | .ZXZ => Gen.Euler.reorderToZYXr_ZXZ sqrt sin cos atan2 a
  | .XYZr => Gen.Euler.reorderToZYXr_XYZr sqrt sin cos atan2 a
  | .XZYr => Gen.Euler.reorderToZYXr_XZYr sqrt sin cos atan2 a
  | .YZXr => Gen.Euler.reorderToZYXr_YZXr sqrt sin cos atan2 a
  | .YXZr => Gen.Euler.reorderToZYXr_YXZr sqrt sin cos atan2 a
  | .ZXYr => Gen.Euler.reorderToZYXr_ZXYr sqrt sin cos atan2 a
  | .ZYXr => Gen.Euler.reorderToZYXr_ZYXr sqrt sin cos atan2 a
  | .XZXr => Gen.Euler.reorderToZYXr_XZXr sqrt sin cos atan2 a
  | .XYXr => Gen.Euler.reorderToZYXr_XYXr sqrt sin cos atan2 a
  | .YXYr => Gen.Euler.reorderToZYXr_YXYr sqrt sin cos atan2 a
  | .YZYr => Gen.Euler.reorderToZYXr_YZYr sqrt sin cos atan2 a
  | .ZYZr => Gen.Euler.reorderToZYXr_ZYZr sqrt sin cos atan2 a
  | .ZXZr => Gen.Euler.reorderToZYXr_ZXZr sqrt sin cos atan2 a

def nearest {α : Type} [Field α] [LinearOrder α] (o : Ord) (angleMod : α → α) (xyzRot target : V3 α) : V3 α :=
  match o with
  | .XYZ => Gen.Euler.nearestRotation_XYZ angleMod xyzRot target
  | .XZY => Gen.Euler.nearestRotation_XZY angleMod xyzRot target
  | .YZX => Gen.Euler.nearestRotation_YZX angleMod xyzRot target
  | .YXZ => Gen.Euler.nearestRotation_YXZ angleMod xyzRot target
  | .ZXY => Gen.Euler.nearestRotation_ZXY angleMod xyzRot target
  | .ZYX => Gen.Euler.nearestRotation_ZYX angleMod xyzRot target
  | .XZX => Gen.Euler.nearestRotation_XZX angleMod xyzRot target
  | .XYX => Gen.Euler.nearestRotation_XYX angleMod xyzRot target
  | .YXY => Gen.Euler.nearestRotation_YXY angleMod xyzRot target
  | .YZY => Gen.Euler.nearestRotation_YZY angleMod xyzRot target
  | .ZYZ => Gen.Euler.nearestRotation_ZYZ angleMod xyzRot target
  | .ZXZ => Gen.Euler.nearestRotation_ZXZ angleMod xyzRot target
  | .XYZr => Gen.Euler.nearestRotation_XYZr angleMod xyzRot target
  | .XZYr => Gen.Euler.nearestRotation_XZYr angleMod xyzRot target
  | .YZXr => Gen.Euler.nearestRotation_YZXr angleMod xyzRot target
  | .YXZr => Gen.Euler.nearestRotation_YXZr angleMod xyzRot target
  | .ZXYr => Gen.Euler.nearestRotation_ZXYr angleMod xyzRot target
  | .ZYXr => Gen.Euler.nearestRotation_ZYXr angleMod xyzRot target
  | .XZXr => Gen.Euler.nearestRotation_XZXr angleMod xyzRot target
  | .XYXr => Gen.Euler.nearestRotation_XYXr angleMod xyzRot target
  | .YXYr => Gen.Euler.nearestRotation_YXYr angleMod xyzRot target
  | .YZYr => Gen.Euler.nearestRotation_YZYr angleMod xyzRot target
  | .ZYZr => Gen.Euler.nearestRotation_ZYZr angleMod xyzRot target
  | .ZXZr => Gen.Euler.nearestRotation_ZXZr angleMod xyzRot target

def makeNear {α : Type} [Field α] [LinearOrder α] (o : Ord) (angleMod : α → α) (a t : V3 α) : V3 α × Int :=
  match o with
  | .XYZ => Gen.Euler.makeNear_XYZ angleMod a t
  | .XZY => Gen.Euler.makeNear_XZY angleMod a t
  | .YZX => Gen.Euler.makeNear_YZX angleMod a t
  | .YXZ => Gen.Euler.makeNear_YXZ angleMod a t
  | .ZXY => Gen.Euler.makeNear_ZXY angleMod a t
  | .ZYX => Gen.Euler.makeNear_ZYX angleMod a t
  | .XZX => Gen.Euler.makeNear_XZX angleMod a t
  | .XYX => Gen.Euler.makeNear_XYX angleMod a t
  | .YXY => Gen.Euler.makeNear_YXY angleMod a t
  | .YZY => Gen.Euler.makeNear_YZY angleMod a t
  | .ZYZ => Gen.Euler.makeNear_ZYZ angleMod a t
  | .ZXZ => Gen.Euler.makeNear_ZXZ angleMod a t
  | .XYZr => Gen.Euler.makeNear_XYZr angleMod a t
  | .XZYr => Gen.Euler.makeNear_XZYr angleMod a t
  | .YZXr => Gen.Euler.makeNear_YZXr angleMod a t
  | .YXZr => Gen.Euler.makeNear_YXZr angleMod a t
  | .ZXYr => Gen.Euler.makeNear_ZXYr angleMod a t
  | .ZYXr => Gen.Euler.makeNear_ZYXr angleMod a t
  | .XZXr => Gen.Euler.makeNear_XZXr angleMod a t
  | .XYXr => Gen.Euler.makeNear_XYXr angleMod a t
  | .YXYr => Gen.Euler.makeNear_YXYr angleMod a t
  | .YZYr => Gen.Euler.makeNear_YZYr angleMod a t
  | .ZYZr => Gen.Euler.makeNear_ZYZr angleMod a t
  | .ZXZr => Gen.Euler.makeNear_ZXZr angleMod a t

def copyAssign {α : Type} [Field α] (o : Ord) (a v : V3 α) : V3 α × Int × V3 α × Int × V3 α × Int :=
  match o with
  | .XYZ => Gen.Euler.copyAndAssign_XYZ a v
  | .XZY => Gen.Euler.copyAndAssign_XZY a v
  | .YZX => Gen.Euler.copyAndAssign_YZX a v
  | .YXZ => Gen.Euler.copyAndAssign_YXZ a v
  | .ZXY => Gen.Euler.copyAndAssign_ZXY a v
  | .ZYX => Gen.Euler.copyAndAssign_ZYX a v
  | .XZX => Gen.Euler.copyAndAssign_XZX a v
  | .XYX => Gen.Euler.copyAndAssign_XYX a v
  | .YXY => Gen.Euler.copyAndAssign_YXY a v
  | .YZY => Gen.Euler.copyAndAssign_YZY a v
  | .ZYZ => Gen.Euler.copyAndAssign_ZYZ a v
  | .ZXZ => Gen.Euler.copyAndAssign_ZXZ a v
  | .XYZr => Gen.Euler.copyAndAssign_XYZr a v
  | .XZYr => Gen.Euler.copyAndAssign_XZYr a v
  | .YZXr => Gen.Euler.copyAndAssign_YZXr a v
  | .YXZr => Gen.Euler.copyAndAssign_YXZr a v
  | .ZXYr => Gen.Euler.copyAndAssign_ZXYr a v
  | .ZYXr => Gen.Euler.copyAndAssign_ZYXr a v
  | .XZXr => Gen.Euler.copyAndAssign_XZXr a v
  | .XYXr => Gen.Euler.copyAndAssign_XYXr a v
  | .YXYr => Gen.Euler.copyAndAssign_YXYr a v
  | .YZYr => Gen.Euler.copyAndAssign_YZYr a v
  | .ZYZr => Gen.Euler.copyAndAssign_ZYZr a v
  | .ZXZr => Gen.Euler.copyAndAssign_ZXZr a v

def makeNearZYXr {α : Type} [Field α] [LinearOrder α] (o : Ord) (sqrt sin cos : α → α) (atan2 : α → α → α) (angleMod : α → α) (a t : V3 α) : V3 α × Int :=
  match o with
  | .XYZ => Gen.Euler.makeNearFromZYXr_XYZ sqrt sin cos atan2 angleMod a t
  | .XZY => Gen.Euler.makeNearFromZYXr_XZY sqrt sin cos atan2 angleMod a t
  | .YZX => Gen.Euler.makeNearFromZYXr_YZX sqrt sin cos atan2 angleMod a t
  | .YXZ => Gen.Euler.makeNearFromZYXr_YXZ sqrt sin cos atan2 angleMod a t
  | .ZXY => Gen.Euler.makeNearFromZYXr_ZXY sqrt sin cos atan2 angleMod a t
  | .ZYX => Gen.Euler.makeNearFromZYXr_ZYX sqrt sin cos atan2 angleMod a t
  | .XZX => Gen.Euler.makeNearFromZYXr_XZX sqrt sin cos atan2 angleMod a t
  | .XYX => Gen.Euler.makeNearFromZYXr_XYX sqrt sin cos atan2 angleMod a t
  | .YXY => Gen.Euler.makeNearFromZYXr_YXY sqrt sin cos atan2 angleMod a t
  | .YZY => Gen.Euler.makeNearFromZYXr_YZY sqrt sin cos atan2 angleMod a t
  | .ZYZ => Gen.Euler.makeNearFromZYXr_ZYZ sqrt sin cos atan2 angleMod a t
  | .ZXZ => Gen.Euler.makeNearFromZYXr_ZXZ sqrt sin cos atan2 angleMod a t
  | .XYZr => Gen.Euler.makeNearFromZYXr_XYZr sqrt sin cos atan2 angleMod a t
  | .XZYr => Gen.Euler.makeNearFromZYXr_XZYr sqrt sin cos atan2 angleMod a t
  | .YZXr => Gen.Euler.makeNearFromZYXr_YZXr sqrt sin cos atan2 angleMod a t
  | .YXZr => Gen.Euler.makeNearFromZYXr_YXZr sqrt sin cos atan2 angleMod a t
  | .ZXYr => Gen.Euler.makeNearFromZYXr_ZXYr sqrt sin cos atan2 angleMod a t
  | .ZYXr => Gen.Euler.makeNearFromZYXr_ZYXr angleMod a t
  | .XZXr => Gen.Euler.makeNearFromZYXr_XZXr sqrt sin cos atan2 angleMod a t
  | .XYXr => Gen.Euler.makeNearFromZYXr_XYXr sqrt sin cos atan2 angleMod a t
  | .YXYr => Gen.Euler.makeNearFromZYXr_YXYr sqrt sin cos atan2 angleMod a t
  | .YZYr => Gen.Euler.makeNearFromZYXr_YZYr sqrt sin cos atan2 angleMod a t
  | .ZYZr => Gen.Euler.makeNearFromZYXr_ZYZr sqrt sin cos atan2 angleMod a t
  | .ZXZr => Gen.Euler.makeNearFromZYXr_ZXZr sqrt sin cos atan2 angleMod a t

def makeNearXYZ {α : Type} [Field α] [LinearOrder α] (o : Ord) (sqrt sin cos : α → α) (atan2 : α → α → α) (angleMod : α → α) (a t : V3 α) : V3 α × Int :=
  match o with
  | .XYZ => Gen.Euler.makeNearFromXYZ_XYZ angleMod a t
  | .XZY => Gen.Euler.makeNearFromXYZ_XZY sqrt sin cos atan2 angleMod a t
  | .YZX => Gen.Euler.makeNearFromXYZ_YZX sqrt sin cos atan2 angleMod a t
  | .YXZ => Gen.Euler.makeNearFromXYZ_YXZ sqrt sin cos atan2 angleMod a t
  | .ZXY => Gen.Euler.makeNearFromXYZ_ZXY sqrt sin cos atan2 angleMod a t
  | .ZYX => Gen.Euler.makeNearFromXYZ_ZYX sqrt sin cos atan2 angleMod a t
  | .XZX => Gen.Euler.makeNearFromXYZ_XZX sqrt sin cos atan2 angleMod a t
  | .XYX => Gen.Euler.makeNearFromXYZ_XYX sqrt sin cos atan2 angleMod a t
  | .YXY => Gen.Euler.makeNearFromXYZ_YXY sqrt sin cos atan2 angleMod a t
  | .YZY => Gen.Euler.makeNearFromXYZ_YZY sqrt sin cos atan2 angleMod a t
  | .ZYZ => Gen.Euler.makeNearFromXYZ_ZYZ sqrt sin cos atan2 angleMod a t
  | .ZXZ => Gen.Euler.makeNearFromXYZ_ZXZ sqrt sin cos atan2 angleMod a t
  | .XYZr => Gen.Euler.makeNearFromXYZ_XYZr sqrt sin cos atan2 angleMod a t
  | .XZYr => Gen.Euler.makeNearFromXYZ_XZYr sqrt sin cos atan2 angleMod a t
  | .YZXr => Gen.Euler.makeNearFromXYZ_YZXr sqrt sin cos atan2 angleMod a t
  | .YXZr => Gen.Euler.makeNearFromXYZ_YXZr sqrt sin cos atan2 angleMod a t
  | .ZXYr => Gen.Euler.makeNearFromXYZ_ZXYr sqrt sin cos atan2 angleMod a t
  | .ZYXr => Gen.Euler.makeNearFromXYZ_ZYXr sqrt sin cos atan2 angleMod a t
  | .XZXr => Gen.Euler.makeNearFromXYZ_XZXr sqrt sin cos atan2 angleMod a t
  | .XYXr => Gen.Euler.makeNearFromXYZ_XYXr sqrt sin cos atan2 angleMod a t
  | .YXYr => Gen.Euler.makeNearFromXYZ_YXYr sqrt sin cos atan2 angleMod a t
  | .YZYr => Gen.Euler.makeNearFromXYZ_YZYr sqrt sin cos atan2 angleMod a t
  | .ZYZr => Gen.Euler.makeNearFromXYZ_ZYZr sqrt sin cos atan2 angleMod a t
  | .ZXZr => Gen.Euler.makeNearFromXYZ_ZXZr sqrt sin cos atan2 angleMod a t

def angleOrderG (o : Ord) : Int × Int × Int :=
  match o with
  | .XYZ => Gen.Euler.angleOrder_XYZ (α := Unit)
  | .XZY => Gen.Euler.angleOrder_XZY (α := Unit)
  | .YZX => Gen.Euler.angleOrder_YZX (α := Unit)
  | .YXZ => Gen.Euler.angleOrder_YXZ (α := Unit)
  | .ZXY => Gen.Euler.angleOrder_ZXY (α := Unit)
  | .ZYX => Gen.Euler.angleOrder_ZYX (α := Unit)
  | .XZX => Gen.Euler.angleOrder_XZX (α := Unit)
  | .XYX => Gen.Euler.angleOrder_XYX (α := Unit)
  | .YXY => Gen.Euler.angleOrder_YXY (α := Unit)
  | .YZY => Gen.Euler.angleOrder_YZY (α := Unit)
  | .ZYZ => Gen.Euler.angleOrder_ZYZ (α := Unit)
  | .ZXZ => Gen.Euler.angleOrder_ZXZ (α := Unit)
  | .XYZr => Gen.Euler.angleOrder_XYZr (α := Unit)
  | .XZYr => Gen.Euler.angleOrder_XZYr (α := Unit)
  | .YZXr => Gen.Euler.angleOrder_YZXr (α := Unit)
  | .YXZr => Gen.Euler.angleOrder_YXZr (α := Unit)
  | .ZXYr => Gen.Euler.angleOrder_ZXYr (α := Unit)
  | .ZYXr => Gen.Euler.angleOrder_ZYXr (α := Unit)
  | .XZXr => Gen.Euler.angleOrder_XZXr (α := Unit)
  | .XYXr => Gen.Euler.angleOrder_XYXr (α := Unit)
  | .YXYr => Gen.Euler.angleOrder_YXYr (α := Unit)
  | .YZYr => Gen.Euler.angleOrder_YZYr (α := Unit)
  | .ZYZr => Gen.Euler.angleOrder_ZYZr (α := Unit)
  | .ZXZr => Gen.Euler.angleOrder_ZXZr (α := Unit)

def angleMappingG (o : Ord) : Int × Int × Int :=
  match o with
  | .XYZ => Gen.Euler.angleMapping_XYZ (α := Unit)
  | .XZY => Gen.Euler.angleMapping_XZY (α := Unit)
  | .YZX => Gen.Euler.angleMapping_YZX (α := Unit)
  | .YXZ => Gen.Euler.angleMapping_YXZ (α := Unit)
  | .ZXY => Gen.Euler.angleMapping_ZXY (α := Unit)
  | .ZYX => Gen.Euler.angleMapping_ZYX (α := Unit)
  | .XZX => Gen.Euler.angleMapping_XZX (α := Unit)
  | .XYX => Gen.Euler.angleMapping_XYX (α := Unit)
  | .YXY => Gen.Euler.angleMapping_YXY (α := Unit)
  | .YZY => Gen.Euler.angleMapping_YZY (α := Unit)
  | .ZYZ => Gen.Euler.angleMapping_ZYZ (α := Unit)
  | .ZXZ => Gen.Euler.angleMapping_ZXZ (α := Unit)
  | .XYZr => Gen.Euler.angleMapping_XYZr (α := Unit)
  | .XZYr => Gen.Euler.angleMapping_XZYr (α := Unit)
  | .YZXr => Gen.Euler.angleMapping_YZXr (α := Unit)
  | .YXZr => Gen.Euler.angleMapping_YXZr (α := Unit)
  | .ZXYr => Gen.Euler.angleMapping_ZXYr (α := Unit)
  | .ZYXr => Gen.Euler.angleMapping_ZYXr (α := Unit)
  | .XZXr => Gen.Euler.angleMapping_XZXr (α := Unit)
  | .XYXr => Gen.Euler.angleMapping_XYXr (α := Unit)
  | .YXYr => Gen.Euler.angleMapping_YXYr (α := Unit)
  | .YZYr => Gen.Euler.angleMapping_YZYr (α := Unit)
  | .ZYZr => Gen.Euler.angleMapping_ZYZr (α := Unit)
  | .ZXZr => Gen.Euler.angleMapping_ZXZr (α := Unit)

def orderG (o : Ord) : Int × Bool × Bool × Bool × Bool × Int :=
  match o with
  | .XYZ => Gen.Euler.order_XYZ (α := Unit)
  | .XZY => Gen.Euler.order_XZY (α := Unit)
  | .YZX => Gen.Euler.order_YZX (α := Unit)
  | .YXZ => Gen.Euler.order_YXZ (α := Unit)
  | .ZXY => Gen.Euler.order_ZXY (α := Unit)
  | .ZYX => Gen.Euler.order_ZYX (α := Unit)
  | .XZX => Gen.Euler.order_XZX (α := Unit)
  | .XYX => Gen.Euler.order_XYX (α := Unit)
  | .YXY => Gen.Euler.order_YXY (α := Unit)
  | .YZY => Gen.Euler.order_YZY (α := Unit)
  | .ZYZ => Gen.Euler.order_ZYZ (α := Unit)
  | .ZXZ => Gen.Euler.order_ZXZ (α := Unit)
  | .XYZr => Gen.Euler.order_XYZr (α := Unit)
  | .XZYr => Gen.Euler.order_XZYr (α := Unit)
  | .YZXr => Gen.Euler.order_YZXr (α := Unit)
  | .YXZr => Gen.Euler.order_YXZr (α := Unit)
  | .ZXYr => Gen.Euler.order_ZXYr (α := Unit)
  | .ZYXr => Gen.Euler.order_ZYXr (α := Unit)
  | .XZXr => Gen.Euler.order_XZXr (α := Unit)
  | .XYXr => Gen.Euler.order_XYXr (α := Unit)
  | .YXYr => Gen.Euler.order_YXYr (α := Unit)
  | .YZYr => Gen.Euler.order_YZYr (α := Unit)
  | .ZYZr => Gen.Euler.order_ZYZr (α := Unit)
  | .ZXZr => Gen.Euler.order_ZXZr (α := Unit)

/-- unfold `toM33 o` at a concrete order -/
macro "unfold_toM33" : tactic => `(tactic| simp only [toM33, Gen.Euler.toMatrix33_XYZ, Gen.Euler.toMatrix33_XZY, Gen.Euler.toMatrix33_YZX, Gen.Euler.toMatrix33_YXZ, Gen.Euler.toMatrix33_ZXY, Gen.Euler.toMatrix33_ZYX, Gen.Euler.toMatrix33_XZX, Gen.Euler.toMatrix33_XYX, Gen.Euler.toMatrix33_YXY, Gen.Euler.toMatrix33_YZY, Gen.Euler.toMatrix33_ZYZ, Gen.Euler.toMatrix33_ZXZ, Gen.Euler.toMatrix33_XYZr, Gen.Euler.toMatrix33_XZYr, Gen.Euler.toMatrix33_YZXr, Gen.Euler.toMatrix33_YXZr, Gen.Euler.toMatrix33_ZXYr, Gen.Euler.toMatrix33_ZYXr, Gen.Euler.toMatrix33_XZXr, Gen.Euler.toMatrix33_XYXr, Gen.Euler.toMatrix33_YXYr, Gen.Euler.toMatrix33_YZYr, Gen.Euler.toMatrix33_ZYZr, Gen.Euler.toMatrix33_ZXZr])

/-- unfold `toM44 o` at a concrete order -/
macro "unfold_toM44" : tactic => `(tactic| simp only [toM44, Gen.Euler.toMatrix44_XYZ, Gen.Euler.toMatrix44_XZY, Gen.Euler.toMatrix44_YZX, Gen.Euler.toMatrix44_YXZ, Gen.Euler.toMatrix44_ZXY, Gen.Euler.toMatrix44_ZYX, Gen.Euler.toMatrix44_XZX, Gen.Euler.toMatrix44_XYX, Gen.Euler.toMatrix44_YXY, Gen.Euler.toMatrix44_YZY, Gen.Euler.toMatrix44_ZYZ, Gen.Euler.toMatrix44_ZXZ, Gen.Euler.toMatrix44_XYZr, Gen.Euler.toMatrix44_XZYr, Gen.Euler.toMatrix44_YZXr, Gen.Euler.toMatrix44_YXZr, Gen.Euler.toMatrix44_ZXYr, Gen.Euler.toMatrix44_ZYXr, Gen.Euler.toMatrix44_XZXr, Gen.Euler.toMatrix44_XYXr, Gen.Euler.toMatrix44_YXYr, Gen.Euler.toMatrix44_YZYr, Gen.Euler.toMatrix44_ZYZr, Gen.Euler.toMatrix44_ZXZr])

/-- unfold `toQuat o` at a concrete order -/
macro "unfold_toQuat" : tactic => `(tactic| simp only [toQuat, Gen.Euler.toQuat_XYZ, Gen.Euler.toQuat_XZY, Gen.Euler.toQuat_YZX, Gen.Euler.toQuat_YXZ, Gen.Euler.toQuat_ZXY, Gen.Euler.toQuat_ZYX, Gen.Euler.toQuat_XZX, Gen.Euler.toQuat_XYX, Gen.Euler.toQuat_YXY, Gen.Euler.toQuat_YZY, Gen.Euler.toQuat_ZYZ, Gen.Euler.toQuat_ZXZ, Gen.Euler.toQuat_XYZr, Gen.Euler.toQuat_XZYr, Gen.Euler.toQuat_YZXr, Gen.Euler.toQuat_YXZr, Gen.Euler.toQuat_ZXYr, Gen.Euler.toQuat_ZYXr, Gen.Euler.toQuat_XZXr, Gen.Euler.toQuat_XYXr, Gen.Euler.toQuat_YXYr, Gen.Euler.toQuat_YZYr, Gen.Euler.toQuat_ZYZr, Gen.Euler.toQuat_ZXZr])

/-- unfold `exM33 o` at a concrete order -/
macro "unfold_exM33" : tactic => `(tactic| simp only [exM33, Gen.Euler.extractM33_XYZ, Gen.Euler.extractM33_XZY, Gen.Euler.extractM33_YZX, Gen.Euler.extractM33_YXZ, Gen.Euler.extractM33_ZXY, Gen.Euler.extractM33_ZYX, Gen.Euler.extractM33_XZX, Gen.Euler.extractM33_XYX, Gen.Euler.extractM33_YXY, Gen.Euler.extractM33_YZY, Gen.Euler.extractM33_ZYZ, Gen.Euler.extractM33_ZXZ, Gen.Euler.extractM33_XYZr, Gen.Euler.extractM33_XZYr, Gen.Euler.extractM33_YZXr, Gen.Euler.extractM33_YXZr, Gen.Euler.extractM33_ZXYr, Gen.Euler.extractM33_ZYXr, Gen.Euler.extractM33_XZXr, Gen.Euler.extractM33_XYXr, Gen.Euler.extractM33_YXYr, Gen.Euler.extractM33_YZYr, Gen.Euler.extractM33_ZYZr, Gen.Euler.extractM33_ZXZr])

/-- unfold `exM44 o` at a concrete order -/
macro "unfold_exM44" : tactic => `(tactic| simp only [exM44, Gen.Euler.extractM44_XYZ, Gen.Euler.extractM44_XZY, Gen.Euler.extractM44_YZX, Gen.Euler.extractM44_YXZ, Gen.Euler.extractM44_ZXY, Gen.Euler.extractM44_ZYX, Gen.Euler.extractM44_XZX, Gen.Euler.extractM44_XYX, Gen.Euler.extractM44_YXY, Gen.Euler.extractM44_YZY, Gen.Euler.extractM44_ZYZ, Gen.Euler.extractM44_ZXZ, Gen.Euler.extractM44_XYZr, Gen.Euler.extractM44_XZYr, Gen.Euler.extractM44_YZXr, Gen.Euler.extractM44_YXZr, Gen.Euler.extractM44_ZXYr, Gen.Euler.extractM44_ZYXr, Gen.Euler.extractM44_XZXr, Gen.Euler.extractM44_XYXr, Gen.Euler.extractM44_YXYr, Gen.Euler.extractM44_YZYr, Gen.Euler.extractM44_ZYZr, Gen.Euler.extractM44_ZXZr])

/-- unfold `exQuat o` at a concrete order -/
macro "unfold_exQuat" : tactic => `(tactic| simp only [exQuat, Gen.Euler.extractQuat_XYZ, Gen.Euler.extractQuat_XZY, Gen.Euler.extractQuat_YZX, Gen.Euler.extractQuat_YXZ, Gen.Euler.extractQuat_ZXY, Gen.Euler.extractQuat_ZYX, Gen.Euler.extractQuat_XZX, Gen.Euler.extractQuat_XYX, Gen.Euler.extractQuat_YXY, Gen.Euler.extractQuat_YZY, Gen.Euler.extractQuat_ZYZ, Gen.Euler.extractQuat_ZXZ, Gen.Euler.extractQuat_XYZr, Gen.Euler.extractQuat_XZYr, Gen.Euler.extractQuat_YZXr, Gen.Euler.extractQuat_YXZr, Gen.Euler.extractQuat_ZXYr, Gen.Euler.extractQuat_ZYXr, Gen.Euler.extractQuat_XZXr, Gen.Euler.extractQuat_XYXr, Gen.Euler.extractQuat_YXYr, Gen.Euler.extractQuat_YZYr, Gen.Euler.extractQuat_ZYZr, Gen.Euler.extractQuat_ZXZr])

/-- unfold `ctorM33 o` at a concrete order -/
macro "unfold_ctorM33" : tactic => `(tactic| simp only [ctorM33, Gen.Euler.ctorM33_XYZ, Gen.Euler.ctorM33_XZY, Gen.Euler.ctorM33_YZX, Gen.Euler.ctorM33_YXZ, Gen.Euler.ctorM33_ZXY, Gen.Euler.ctorM33_ZYX, Gen.Euler.ctorM33_XZX, Gen.Euler.ctorM33_XYX, Gen.Euler.ctorM33_YXY, Gen.Euler.ctorM33_YZY, Gen.Euler.ctorM33_ZYZ, Gen.Euler.ctorM33_ZXZ, Gen.Euler.ctorM33_XYZr, Gen.Euler.ctorM33_XZYr, Gen.Euler.ctorM33_YZXr, Gen.Euler.ctorM33_YXZr, Gen.Euler.ctorM33_ZXYr, Gen.Euler.ctorM33_ZYXr, Gen.Euler.ctorM33_XZXr, Gen.Euler.ctorM33_XYXr, Gen.Euler.ctorM33_YXYr, Gen.Euler.ctorM33_YZYr, Gen.Euler.ctorM33_ZYZr, Gen.Euler.ctorM33_ZXZr])

/-- unfold `ctorM44 o` at a concrete order -/
macro "unfold_ctorM44" : tactic => `(tactic| simp only [ctorM44, Gen.Euler.ctorM44_XYZ, Gen.Euler.ctorM44_XZY, Gen.Euler.ctorM44_YZX, Gen.Euler.ctorM44_YXZ, Gen.Euler.ctorM44_ZXY, Gen.Euler.ctorM44_ZYX, Gen.Euler.ctorM44_XZX, Gen.Euler.ctorM44_XYX, Gen.Euler.ctorM44_YXY, Gen.Euler.ctorM44_YZY, Gen.Euler.ctorM44_ZYZ, Gen.Euler.ctorM44_ZXZ, Gen.Euler.ctorM44_XYZr, Gen.Euler.ctorM44_XZYr, Gen.Euler.ctorM44_YZXr, Gen.Euler.ctorM44_YXZr, Gen.Euler.ctorM44_ZXYr, Gen.Euler.ctorM44_ZYXr, Gen.Euler.ctorM44_XZXr, Gen.Euler.ctorM44_XYXr, Gen.Euler.ctorM44_YXYr, Gen.Euler.ctorM44_YZYr, Gen.Euler.ctorM44_ZYZr, Gen.Euler.ctorM44_ZXZr])

/-- unfold `ctorXYZ o` at a concrete order -/
macro "unfold_ctorXYZ" : tactic => `(tactic| simp only [ctorXYZ, Gen.Euler.ctorXYZLayout_XYZ, Gen.Euler.ctorXYZLayout_XZY, Gen.Euler.ctorXYZLayout_YZX, Gen.Euler.ctorXYZLayout_YXZ, Gen.Euler.ctorXYZLayout_ZXY, Gen.Euler.ctorXYZLayout_ZYX, Gen.Euler.ctorXYZLayout_XZX, Gen.Euler.ctorXYZLayout_XYX, Gen.Euler.ctorXYZLayout_YXY, Gen.Euler.ctorXYZLayout_YZY, Gen.Euler.ctorXYZLayout_ZYZ, Gen.Euler.ctorXYZLayout_ZXZ, Gen.Euler.ctorXYZLayout_XYZr, Gen.Euler.ctorXYZLayout_XZYr, Gen.Euler.ctorXYZLayout_YZXr, Gen.Euler.ctorXYZLayout_YXZr, Gen.Euler.ctorXYZLayout_ZXYr, Gen.Euler.ctorXYZLayout_ZYXr, Gen.Euler.ctorXYZLayout_XZXr, Gen.Euler.ctorXYZLayout_XYXr, Gen.Euler.ctorXYZLayout_YXYr, Gen.Euler.ctorXYZLayout_YZYr, Gen.Euler.ctorXYZLayout_ZYZr, Gen.Euler.ctorXYZLayout_ZXZr])

/-- unfold `ctorXYZs o` at a concrete order -/
macro "unfold_ctorXYZs" : tactic => `(tactic| simp only [ctorXYZs, Gen.Euler.ctorXYZLayoutScalars_XYZ, Gen.Euler.ctorXYZLayoutScalars_XZY, Gen.Euler.ctorXYZLayoutScalars_YZX, Gen.Euler.ctorXYZLayoutScalars_YXZ, Gen.Euler.ctorXYZLayoutScalars_ZXY, Gen.Euler.ctorXYZLayoutScalars_ZYX, Gen.Euler.ctorXYZLayoutScalars_XZX, Gen.Euler.ctorXYZLayoutScalars_XYX, Gen.Euler.ctorXYZLayoutScalars_YXY, Gen.Euler.ctorXYZLayoutScalars_YZY, Gen.Euler.ctorXYZLayoutScalars_ZYZ, Gen.Euler.ctorXYZLayoutScalars_ZXZ, Gen.Euler.ctorXYZLayoutScalars_XYZr, Gen.Euler.ctorXYZLayoutScalars_XZYr, Gen.Euler.ctorXYZLayoutScalars_YZXr, Gen.Euler.ctorXYZLayoutScalars_YXZr, Gen.Euler.ctorXYZLayoutScalars_ZXYr, Gen.Euler.ctorXYZLayoutScalars_ZYXr, Gen.Euler.ctorXYZLayoutScalars_XZXr, Gen.Euler.ctorXYZLayoutScalars_XYXr, Gen.Euler.ctorXYZLayoutScalars_YXYr, Gen.Euler.ctorXYZLayoutScalars_YZYr, Gen.Euler.ctorXYZLayoutScalars_ZYZr, Gen.Euler.ctorXYZLayoutScalars_ZXZr])

/-- unfold `ctorIJK o` at a concrete order -/
macro "unfold_ctorIJK" : tactic => `(tactic| simp only [ctorIJK, Gen.Euler.ctorIJKLayout_XYZ, Gen.Euler.ctorIJKLayout_XZY, Gen.Euler.ctorIJKLayout_YZX, Gen.Euler.ctorIJKLayout_YXZ, Gen.Euler.ctorIJKLayout_ZXY, Gen.Euler.ctorIJKLayout_ZYX, Gen.Euler.ctorIJKLayout_XZX, Gen.Euler.ctorIJKLayout_XYX, Gen.Euler.ctorIJKLayout_YXY, Gen.Euler.ctorIJKLayout_YZY, Gen.Euler.ctorIJKLayout_ZYZ, Gen.Euler.ctorIJKLayout_ZXZ, Gen.Euler.ctorIJKLayout_XYZr, Gen.Euler.ctorIJKLayout_XZYr, Gen.Euler.ctorIJKLayout_YZXr, Gen.Euler.ctorIJKLayout_YXZr, Gen.Euler.ctorIJKLayout_ZXYr, Gen.Euler.ctorIJKLayout_ZYXr, Gen.Euler.ctorIJKLayout_XZXr, Gen.Euler.ctorIJKLayout_XYXr, Gen.Euler.ctorIJKLayout_YXYr, Gen.Euler.ctorIJKLayout_YZYr, Gen.Euler.ctorIJKLayout_ZYZr, Gen.Euler.ctorIJKLayout_ZXZr])

/-- unfold `setXYZ o` at a concrete order -/
macro "unfold_setXYZ" : tactic => `(tactic| simp only [setXYZ, Gen.Euler.setXYZVector_XYZ, Gen.Euler.setXYZVector_XZY, Gen.Euler.setXYZVector_YZX, Gen.Euler.setXYZVector_YXZ, Gen.Euler.setXYZVector_ZXY, Gen.Euler.setXYZVector_ZYX, Gen.Euler.setXYZVector_XZX, Gen.Euler.setXYZVector_XYX, Gen.Euler.setXYZVector_YXY, Gen.Euler.setXYZVector_YZY, Gen.Euler.setXYZVector_ZYZ, Gen.Euler.setXYZVector_ZXZ, Gen.Euler.setXYZVector_XYZr, Gen.Euler.setXYZVector_XZYr, Gen.Euler.setXYZVector_YZXr, Gen.Euler.setXYZVector_YXZr, Gen.Euler.setXYZVector_ZXYr, Gen.Euler.setXYZVector_ZYXr, Gen.Euler.setXYZVector_XZXr, Gen.Euler.setXYZVector_XYXr, Gen.Euler.setXYZVector_YXYr, Gen.Euler.setXYZVector_YZYr, Gen.Euler.setXYZVector_ZYZr, Gen.Euler.setXYZVector_ZXZr])

/-- unfold `toXYZ o` at a concrete order -/
macro "unfold_toXYZ" : tactic => `(tactic| simp only [toXYZ, Gen.Euler.toXYZVector_XYZ, Gen.Euler.toXYZVector_XZY, Gen.Euler.toXYZVector_YZX, Gen.Euler.toXYZVector_YXZ, Gen.Euler.toXYZVector_ZXY, Gen.Euler.toXYZVector_ZYX, Gen.Euler.toXYZVector_XZX, Gen.Euler.toXYZVector_XYX, Gen.Euler.toXYZVector_YXY, Gen.Euler.toXYZVector_YZY, Gen.Euler.toXYZVector_ZYZ, Gen.Euler.toXYZVector_ZXZ, Gen.Euler.toXYZVector_XYZr, Gen.Euler.toXYZVector_XZYr, Gen.Euler.toXYZVector_YZXr, Gen.Euler.toXYZVector_YXZr, Gen.Euler.toXYZVector_ZXYr, Gen.Euler.toXYZVector_ZYXr, Gen.Euler.toXYZVector_XZXr, Gen.Euler.toXYZVector_XYXr, Gen.Euler.toXYZVector_YXYr, Gen.Euler.toXYZVector_YZYr, Gen.Euler.toXYZVector_ZYZr, Gen.Euler.toXYZVector_ZXZr])

/-- unfold `setOrderKeeps o` at a concrete order -/
macro "unfold_setOrderKeeps" : tactic => `(tactic| simp only [setOrderKeeps, Gen.Euler.setOrderKeepsAngles_XYZ, Gen.Euler.setOrderKeepsAngles_XZY, Gen.Euler.setOrderKeepsAngles_YZX, Gen.Euler.setOrderKeepsAngles_YXZ, Gen.Euler.setOrderKeepsAngles_ZXY, Gen.Euler.setOrderKeepsAngles_ZYX, Gen.Euler.setOrderKeepsAngles_XZX, Gen.Euler.setOrderKeepsAngles_XYX, Gen.Euler.setOrderKeepsAngles_YXY, Gen.Euler.setOrderKeepsAngles_YZY, Gen.Euler.setOrderKeepsAngles_ZYZ, Gen.Euler.setOrderKeepsAngles_ZXZ, Gen.Euler.setOrderKeepsAngles_XYZr, Gen.Euler.setOrderKeepsAngles_XZYr, Gen.Euler.setOrderKeepsAngles_YZXr, Gen.Euler.setOrderKeepsAngles_YXZr, Gen.Euler.setOrderKeepsAngles_ZXYr, Gen.Euler.setOrderKeepsAngles_ZYXr, Gen.Euler.setOrderKeepsAngles_XZXr, Gen.Euler.setOrderKeepsAngles_XYXr, Gen.Euler.setOrderKeepsAngles_YXYr, Gen.Euler.setOrderKeepsAngles_YZYr, Gen.Euler.setOrderKeepsAngles_ZYZr, Gen.Euler.setOrderKeepsAngles_ZXZr])

/-- unfold `reorderFromXYZ o` at a concrete order -/
macro "unfold_reorderFromXYZ" : tactic => `(tactic| simp only [reorderFromXYZ, Gen.Euler.reorderFromXYZ_XYZ, Gen.Euler.reorderFromXYZ_XZY, Gen.Euler.reorderFromXYZ_YZX, Gen.Euler.reorderFromXYZ_YXZ, Gen.Euler.reorderFromXYZ_ZXY, Gen.Euler.reorderFromXYZ_ZYX, Gen.Euler.reorderFromXYZ_XZX, Gen.Euler.reorderFromXYZ_XYX, Gen.Euler.reorderFromXYZ_YXY, Gen.Euler.reorderFromXYZ_YZY, Gen.Euler.reorderFromXYZ_ZYZ, Gen.Euler.reorderFromXYZ_ZXZ, Gen.Euler.reorderFromXYZ_XYZr, Gen.Euler.reorderFromXYZ_XZYr, Gen.Euler.reorderFromXYZ_YZXr, Gen.Euler.reorderFromXYZ_YXZr, Gen.Euler.reorderFromXYZ_ZXYr, Gen.Euler.reorderFromXYZ_ZYXr, Gen.Euler.reorderFromXYZ_XZXr, Gen.Euler.reorderFromXYZ_XYXr, Gen.Euler.reorderFromXYZ_YXYr, Gen.Euler.reorderFromXYZ_YZYr, Gen.Euler.reorderFromXYZ_ZYZr, Gen.Euler.reorderFromXYZ_ZXZr])

/-- unfold `reorderToZYXr o` at a concrete order -/
macro "unfold_reorderToZYXr" : tactic => `(tactic| simp only [reorderToZYXr, Gen.Euler.reorderToZYXr_XYZ, Gen.Euler.reorderToZYXr_XZY, Gen.Euler.reorderToZYXr_YZX, Gen.Euler.reorderToZYXr_YXZ, Gen.Euler.reorderToZYXr_ZXY, Gen.Euler.reorderToZYXr_ZYX, Gen.Euler.reorderToZYXr_XZX, Gen.Euler.reorderToZYXr_XYX, Gen.Euler.reorderToZYXr_YXY, Gen.Euler.reorderToZYXr_YZY, Gen.Euler.reorderToZYXr_ZYZ, Gen.Euler.reorderToZYXr_ZXZ, Gen.Euler.reorderToZYXr_XYZr, Gen.Euler.reorderToZYXr_XZYr, Gen.Euler.reorderToZYXr_YZXr, Gen.Euler.reorderToZYXr_YXZr, Gen.Euler.reorderToZYXr_ZXYr, Gen.Euler.reorderToZYXr_ZYXr, Gen.Euler.reorderToZYXr_XZXr, Gen.Euler.reorderToZYXr_XYXr, Gen.Euler.reorderToZYXr_YXYr, Gen.Euler.reorderToZYXr_YZYr, Gen.Euler.reorderToZYXr_ZYZr, Gen.Euler.reorderToZYXr_ZXZr])

/-- unfold `nearest o` at a concrete order -/
macro "unfold_nearest" : tactic => `(tactic| simp only [nearest, Gen.Euler.nearestRotation_XYZ, Gen.Euler.nearestRotation_XZY, Gen.Euler.nearestRotation_YZX, Gen.Euler.nearestRotation_YXZ, Gen.Euler.nearestRotation_ZXY, Gen.Euler.nearestRotation_ZYX, Gen.Euler.nearestRotation_XZX, Gen.Euler.nearestRotation_XYX, Gen.Euler.nearestRotation_YXY, Gen.Euler.nearestRotation_YZY, Gen.Euler.nearestRotation_ZYZ, Gen.Euler.nearestRotation_ZXZ, Gen.Euler.nearestRotation_XYZr, Gen.Euler.nearestRotation_XZYr, Gen.Euler.nearestRotation_YZXr, Gen.Euler.nearestRotation_YXZr, Gen.Euler.nearestRotation_ZXYr, Gen.Euler.nearestRotation_ZYXr, Gen.Euler.nearestRotation_XZXr, Gen.Euler.nearestRotation_XYXr, Gen.Euler.nearestRotation_YXYr, Gen.Euler.nearestRotation_YZYr, Gen.Euler.nearestRotation_ZYZr, Gen.Euler.nearestRotation_ZXZr])

/-- unfold `makeNear o` at a concrete order -/
macro "unfold_makeNear" : tactic => `(tactic| simp only [makeNear, Gen.Euler.makeNear_XYZ, Gen.Euler.makeNear_XZY, Gen.Euler.makeNear_YZX, Gen.Euler.makeNear_YXZ, Gen.Euler.makeNear_ZXY, Gen.Euler.makeNear_ZYX, Gen.Euler.makeNear_XZX, Gen.Euler.makeNear_XYX, Gen.Euler.makeNear_YXY, Gen.Euler.makeNear_YZY, Gen.Euler.makeNear_ZYZ, Gen.Euler.makeNear_ZXZ, Gen.Euler.makeNear_XYZr, Gen.Euler.makeNear_XZYr, Gen.Euler.makeNear_YZXr, Gen.Euler.makeNear_YXZr, Gen.Euler.makeNear_ZXYr, Gen.Euler.makeNear_ZYXr, Gen.Euler.makeNear_XZXr, Gen.Euler.makeNear_XYXr, Gen.Euler.makeNear_YXYr, Gen.Euler.makeNear_YZYr, Gen.Euler.makeNear_ZYZr, Gen.Euler.makeNear_ZXZr])

/-- unfold `copyAssign o` at a concrete order -/
macro "unfold_copyAssign" : tactic => `(tactic| simp only [copyAssign, Gen.Euler.copyAndAssign_XYZ, Gen.Euler.copyAndAssign_XZY, Gen.Euler.copyAndAssign_YZX, Gen.Euler.copyAndAssign_YXZ, Gen.Euler.copyAndAssign_ZXY, Gen.Euler.copyAndAssign_ZYX, Gen.Euler.copyAndAssign_XZX, Gen.Euler.copyAndAssign_XYX, Gen.Euler.copyAndAssign_YXY, Gen.Euler.copyAndAssign_YZY, Gen.Euler.copyAndAssign_ZYZ, Gen.Euler.copyAndAssign_ZXZ, Gen.Euler.copyAndAssign_XYZr, Gen.Euler.copyAndAssign_XZYr, Gen.Euler.copyAndAssign_YZXr, Gen.Euler.copyAndAssign_YXZr, Gen.Euler.copyAndAssign_ZXYr, Gen.Euler.copyAndAssign_ZYXr, Gen.Euler.copyAndAssign_XZXr, Gen.Euler.copyAndAssign_XYXr, Gen.Euler.copyAndAssign_YXYr, Gen.Euler.copyAndAssign_YZYr, Gen.Euler.copyAndAssign_ZYZr, Gen.Euler.copyAndAssign_ZXZr])

/-- unfold `makeNearZYXr o` at a concrete order -/
macro "unfold_makeNearZYXr" : tactic => `(tactic| simp only [makeNearZYXr, Gen.Euler.makeNearFromZYXr_XYZ, Gen.Euler.makeNearFromZYXr_XZY, Gen.Euler.makeNearFromZYXr_YZX, Gen.Euler.makeNearFromZYXr_YXZ, Gen.Euler.makeNearFromZYXr_ZXY, Gen.Euler.makeNearFromZYXr_ZYX, Gen.Euler.makeNearFromZYXr_XZX, Gen.Euler.makeNearFromZYXr_XYX, Gen.Euler.makeNearFromZYXr_YXY, Gen.Euler.makeNearFromZYXr_YZY, Gen.Euler.makeNearFromZYXr_ZYZ, Gen.Euler.makeNearFromZYXr_ZXZ, Gen.Euler.makeNearFromZYXr_XYZr, Gen.Euler.makeNearFromZYXr_XZYr, Gen.Euler.makeNearFromZYXr_YZXr, Gen.Euler.makeNearFromZYXr_YXZr, Gen.Euler.makeNearFromZYXr_ZXYr, Gen.Euler.makeNearFromZYXr_ZYXr, Gen.Euler.makeNearFromZYXr_XZXr, Gen.Euler.makeNearFromZYXr_XYXr, Gen.Euler.makeNearFromZYXr_YXYr, Gen.Euler.makeNearFromZYXr_YZYr, Gen.Euler.makeNearFromZYXr_ZYZr, Gen.Euler.makeNearFromZYXr_ZXZr])

/-- unfold `makeNearXYZ o` at a concrete order -/
macro "unfold_makeNearXYZ" : tactic => `(tactic| simp only [makeNearXYZ, Gen.Euler.makeNearFromXYZ_XYZ, Gen.Euler.makeNearFromXYZ_XZY, Gen.Euler.makeNearFromXYZ_YZX, Gen.Euler.makeNearFromXYZ_YXZ, Gen.Euler.makeNearFromXYZ_ZXY, Gen.Euler.makeNearFromXYZ_ZYX, Gen.Euler.makeNearFromXYZ_XZX, Gen.Euler.makeNearFromXYZ_XYX, Gen.Euler.makeNearFromXYZ_YXY, Gen.Euler.makeNearFromXYZ_YZY, Gen.Euler.makeNearFromXYZ_ZYZ, Gen.Euler.makeNearFromXYZ_ZXZ, Gen.Euler.makeNearFromXYZ_XYZr, Gen.Euler.makeNearFromXYZ_XZYr, Gen.Euler.makeNearFromXYZ_YZXr, Gen.Euler.makeNearFromXYZ_YXZr, Gen.Euler.makeNearFromXYZ_ZXYr, Gen.Euler.makeNearFromXYZ_ZYXr, Gen.Euler.makeNearFromXYZ_XZXr, Gen.Euler.makeNearFromXYZ_XYXr, Gen.Euler.makeNearFromXYZ_YXYr, Gen.Euler.makeNearFromXYZ_YZYr, Gen.Euler.makeNearFromXYZ_ZYZr, Gen.Euler.makeNearFromXYZ_ZXZr])

end ImathVerif.Euler
