import ImathVerif.Lemmas.FixedArrayInv
/-!
Functional correctness of the in-place operators (`a += x`, `a += b` through the four accessor classes), of the packed
branch of `a[mask] = data`, and of `a[mask] = x` on a masked reference (C19).
-/
namespace ImathVerif.FixedArray
open ImathVerif

theorem cellAt_wr_same {h h1 : Heap} {b p : Nat} {x : Int} (hw : h.wr b p x = .ok h1) : cellAt h1 b p = x := by
  obtain ⟨buf, hb, hp, rfl⟩ := wr_ok_iff.1 hw
  rw [cellAt_set_same hb]
  simp [hp]

/-- the read-modify-write body of the vectorised in-place operators on element `i` of view `v` -/
def rmwBody (v : View) (f : Nat → Int → Int) (i : Nat) (h : Heap) : Except Err Heap :=
  match h.rd v.buf (v.cellPos i) with
  | .ok y => h.wr v.buf (v.cellPos i) (f i y)
  | .error e => .error e

/-- **a read-modify-write loop over elements `i0 .. i0+n-1` of a well-formed view** applies `f` to exactly those
    elements, once each, and touches nothing else -/
theorem rmw_loop_refines {v : View} (f : Nat → Int → Int) :
    ∀ (n i0 : Nat) (h : Heap), v.WF (shape h) → i0 + n ≤ v.length →
      ∃ h', forLoop (rmwBody v f) n i0 h = .ok h' ∧ shape h' = shape h ∧ Frame v.buf h h' ∧
        (∀ j, j < v.length → cellAt h' v.buf (v.cellPos j) =
          if i0 ≤ j ∧ j < i0 + n then f j (cellAt h v.buf (v.cellPos j)) else cellAt h v.buf (v.cellPos j)) ∧
        (∀ p, (∀ j, i0 ≤ j → j < i0 + n → v.cellPos j ≠ p) → cellAt h' v.buf p = cellAt h v.buf p) := by
  intro n
  induction n with
  | zero =>
    intro i0 h _ _
    refine ⟨h, rfl, rfl, Frame.refl _ _, fun j _ => ?_, fun p _ => rfl⟩
    have : ¬ (i0 ≤ j ∧ j < i0 + 0) := by omega
    rw [if_neg this]
  | succ n ih =>
    intro i0 h w hle
    have hi0 : i0 < v.length := by omega
    obtain ⟨h1, hw1, hs1⟩ := w.wr_ok hi0 (f i0 (cellAt h v.buf (v.cellPos i0)))
    have w1 : v.WF (shape h1) := by rw [hs1]; exact w
    obtain ⟨h2, hl2, hs2, hf2, hc2, ho2⟩ := ih (i0 + 1) h1 w1 (by omega)
    refine ⟨h2, ?_, hs2.trans hs1, (wr_frame hw1).trans hf2, ?_, ?_⟩
    · simp only [forLoop, rmwBody, rd_ok_of_WF w hi0, hw1]; exact hl2
    · intro j hj
      rw [hc2 j hj]
      by_cases hji : j = i0
      · subst hji
        have h1' : ¬ (j + 1 ≤ j ∧ j < j + 1 + n) := by omega
        have h2' : (j ≤ j ∧ j < j + (n + 1)) := by omega
        simp only [h1', h2', if_false, if_true, and_self]
        exact cellAt_wr_same hw1
      · have hne : v.cellPos j ≠ v.cellPos i0 := fun he => hji (w.cellPos_inj hj hi0 he)
        rw [cellAt_wr hw1 v.buf (v.cellPos j) (Or.inr hne)]
        by_cases hr : i0 + 1 ≤ j ∧ j < i0 + 1 + n
        · have : i0 ≤ j ∧ j < i0 + (n + 1) := by omega
          simp [hr, this]
        · have : ¬ (i0 ≤ j ∧ j < i0 + (n + 1)) := by omega
          simp [hr, this]
    · intro p hp
      rw [ho2 p (fun j h1' h2' => hp j (by omega) (by omega))]
      exact cellAt_wr hw1 v.buf p (Or.inr (fun he => hp i0 (Nat.le_refl _) (by omega) he.symm))

/-- over the whole view: `toList` is mapped -/
theorem rmw_loop_toList {v : View} (f : Nat → Int → Int) {h h' : Heap}
    (hc : ∀ j, j < v.length → cellAt h' v.buf (v.cellPos j) =
      if 0 ≤ j ∧ j < 0 + v.length then f j (cellAt h v.buf (v.cellPos j)) else cellAt h v.buf (v.cellPos j)) :
    v.toList h' = (List.range v.length).map (fun j => f j (cellAt h v.buf (v.cellPos j))) := by
  simp only [View.toList]
  apply List.map_congr_left
  intro j hj
  have hj' : j < v.length := by simpa using hj
  rw [hc j hj']
  have : 0 ≤ j ∧ j < 0 + v.length := by omega
  rw [if_pos this]

/-- **`a += x`** (current code; dense, strided or masked `a`): every element of `a`, and nothing else, is increased by `x` -/
theorem iaddScalar_refines {h : Heap} {a : View} (w : a.WF (shape h)) (hw : a.writable = true) (x : Int) :
    ∃ h', iaddScalar Cfg.current h a x = .ok h' ∧ shape h' = shape h ∧ Frame a.buf h h' ∧
      a.toList h' = (a.toList h).map (· + x) ∧
      (∀ p, (∀ j, j < a.length → a.cellPos j ≠ p) → cellAt h' a.buf p = cellAt h a.buf p) := by
  obtain ⟨h', hl, hs, hf, hc, ho⟩ := rmw_loop_refines (v := a) (fun _ y => y + x) a.length 0 h w (by omega)
  refine ⟨h', ?_, hs, hf, ?_, fun p hp => ho p (fun j _ hj => hp j (by omega))⟩
  · unfold iaddScalar
    simp only
    rcases selfAccess_cases Cfg.current a with ⟨acc, hacc, hacc'⟩ | herr
    · simp only [hacc]
      rw [← hl]
      apply forLoop_congr (fun _ => True) _ _ _ _ _ trivial
      · intro i h1 _ hi _
        obtain ⟨hg, hset⟩ := hacc'.get_set w (by omega : i < a.length) h1
        simp only [WAccess.addScalar, rmwBody, hg]
        cases h1.rd a.buf (a.cellPos i) with
        | error e => rfl
        | ok y => exact hset _
      · intros; trivial
    · exfalso
      unfold selfAccess WritableMaskedAccess.mk' WritableDirectAccess.mk' ReadOnlyMaskedAccess.mk' ReadOnlyDirectAccess.mk'
        View.isMasked at herr
      cases hi : a.indices <;> simp [hi, hw] at herr
  · rw [rmw_loop_toList (fun _ y => y + x) hc]
    simp [View.toList]


theorem rd_congr {h h' : Heap} {b : Nat} (hb : h'[b]? = h[b]?) (p : Nat) : h'.rd b p = h.rd b p := by
  unfold Heap.rd; rw [hb]

theorem rmwBody_other {v : View} {f : Nat → Int → Int} {i : Nat} {h1 h2 : Heap} (hb : rmwBody v f i h1 = .ok h2)
    {b : Nat} (hne : b ≠ v.buf) : h2[b]? = h1[b]? := by
  unfold rmwBody at hb
  split at hb
  · exact wr_other hb hne
  · simp at hb

theorem zipWith_range_maps (n : Nat) (g1 g2 : Nat → Int) :
    List.zipWith (· + ·) ((List.range n).map g1) ((List.range n).map g2) = (List.range n).map (fun j => g1 j + g2 j) := by
  apply List.ext_getElem
  · simp
  · intro i h1 h2
    simp

/-- **`a += b`**, element-wise kernel (`b` of `a`'s own length, in another allocation; `a` dense, strided or a masked
    reference): `a[i] += b[i]` for every `i` — both arrays are read through their own masks -/
theorem iaddVector_refines {h : Heap} {a b : View} (w : a.WF (shape h)) (wb : b.WF (shape h)) (hw : a.writable = true)
    (hne : b.buf ≠ a.buf) (hlen : b.length = a.length) (hk : ¬ (a.isMasked = true ∧ b.length = a.unmaskedLength)) :
    ∃ h', iaddVector Cfg.current h a b = .ok h' ∧ shape h' = shape h ∧ Frame a.buf h h' ∧
      a.toList h' = List.zipWith (· + ·) (a.toList h) (b.toList h) := by
  let f : Nat → Int → Int := fun i y => y + cellAt h b.buf (b.cellPos i)
  obtain ⟨h', hl, hs, hf, hc, _⟩ := rmw_loop_refines (v := a) f a.length 0 h w (by omega)
  refine ⟨h', ?_, hs, hf, ?_⟩
  · unfold iaddVector
    have hmd : matchDimension a b.length false = .ok a.length := by simp [matchDimension, hlen]
    simp only [hmd, hk, if_false]
    obtain ⟨bacc, hbacc, hob⟩ := argAccess_cases b
    rcases selfAccess_cases Cfg.current a with ⟨acc, hacc, hoa⟩ | herr
    · simp only [hacc, hbacc]
      rw [← hl]
      apply forLoop_congr (fun h1 => h1[b.buf]? = h[b.buf]?) _ _ _ _ _ rfl
      · intro i h1 _ hi hp
        have hia : i < a.length := by omega
        have hib : i < b.length := by omega
        obtain ⟨hg, hset⟩ := hoa.get_set w hia h1
        simp only [WAccess.addFrom, rmwBody, hg]
        cases h1.rd a.buf (a.cellPos i) with
        | error e => rfl
        | ok y =>
          simp only
          rw [(hob.get_set wb hib h1).1, rd_congr hp, rd_ok_of_WF wb hib]
          exact hset _
      · intro i h1 h2 hp hb
        rw [rmwBody_other hb hne]; exact hp
    · exfalso
      unfold selfAccess WritableMaskedAccess.mk' WritableDirectAccess.mk' ReadOnlyMaskedAccess.mk' ReadOnlyDirectAccess.mk'
        View.isMasked at herr
      cases hi : a.indices <;> simp [hi, hw] at herr
  · rw [rmw_loop_toList f hc]
    simp only [View.toList, hlen, f]
    exact (zipWith_range_maps a.length _ _).symm

/-- **`m += b`** for a masked reference `m` and `b` of the UNMASKED length (`VectorizedMaskedVoidOperation1`):
    `m[i] += b[raw_ptr_index(i)]`, i.e. the right-hand side is picked at the masked positions -/
theorem iaddVector_masked_refines {h : Heap} {a b : View} {idx : List Nat} (w : a.WF (shape h)) (wb : b.WF (shape h))
    (hw : a.writable = true) (hne : b.buf ≠ a.buf) (hidx : a.indices = some idx) (hlen : b.length = a.unmaskedLength) :
    ∃ h', iaddVector Cfg.current h a b = .ok h' ∧ shape h' = shape h ∧ Frame a.buf h h' ∧
      a.toList h' = List.zipWith (· + ·) (a.toList h) (PyList.pick (b.toList h) idx) := by
  have hm : a.isMasked = true := by simp [View.isMasked, hidx]
  obtain ⟨n, _, hin⟩ := w.inBuf
  simp only [hidx] at hin
  obtain ⟨hil, hir, _, _⟩ := hin
  have hraw : ∀ i, i < a.length → a.rawOf i < b.length := by
    intro i hi
    have : i < idx.length := by omega
    rw [hlen]
    apply hir
    simp [View.rawOf, hidx, List.getD_eq_getElem?_getD, List.getElem?_eq_getElem this]
  let f : Nat → Int → Int := fun i y => y + cellAt h b.buf (b.cellPos (a.rawOf i))
  obtain ⟨h', hl, hs, hf, hc, _⟩ := rmw_loop_refines (v := a) f a.length 0 h w (by omega)
  refine ⟨h', ?_, hs, hf, ?_⟩
  · unfold iaddVector
    have hmd : matchDimension a b.length false = .ok a.length := by
      unfold matchDimension
      by_cases h1 : a.length = b.length
      · simp [h1]
      · simp [hm, hlen]
    rw [hmd]
    simp only [hm, hlen, and_self, if_true]
    obtain ⟨bacc, hbacc, hob⟩ := argAccess_cases b
    rcases maskedAccess_cases Cfg.current a hm with ⟨acc, hacc, hoa⟩ | herr
    · simp only [hacc, hbacc]
      rw [← hl]
      apply forLoop_congr (fun h1 => h1[b.buf]? = h[b.buf]?) _ _ _ _ _ rfl
      · intro i h1 _ hi hp
        have hia : i < a.length := by omega
        obtain ⟨hg, hset⟩ := hoa.get_set w hia h1
        simp only [WAccess.get, WAccess.set] at hg hset
        simp only [MaskedAccess.addFromRaw, rmwBody, w.rawPtrIndex hia hm, hg]
        cases h1.rd a.buf (a.cellPos i) with
        | error e => rfl
        | ok y =>
          simp only
          rw [(hob.get_set wb (hraw i hia) h1).1, rd_congr hp, rd_ok_of_WF wb (hraw i hia)]
          exact hset _
      · intro i h1 h2 hp hb
        rw [rmwBody_other hb hne]; exact hp
    · exfalso
      unfold WritableMaskedAccess.mk' ReadOnlyMaskedAccess.mk' at herr
      simp [hidx, hw] at herr
  · rw [rmw_loop_toList f hc]
    have hpick : PyList.pick (b.toList h) idx = idx.map (fun r => cellAt h b.buf (b.cellPos r)) := by
      apply pick_map_of_lt
      intro r hr
      exact View.toList_getElem? h b r (by rw [hlen]; exact hir r hr)
    rw [hpick]
    have hrw : (List.range a.length).map (fun j => f j (cellAt h a.buf (a.cellPos j)))
        = (List.range a.length).map (fun j => cellAt h a.buf (a.cellPos j) + cellAt h b.buf (b.cellPos (idx.getD j 0))) := by
      apply List.map_congr_left
      intro j _
      simp [f, View.rawOf, hidx]
    rw [hrw, ← zipWith_range_maps]
    congr 1
    rw [← hil]
    exact map_getD_range idx 0 (fun r => cellAt h b.buf (b.cellPos r))

/-- **`m[mask] = x` on a masked reference `m`** (the code as it is, recorded finding): every referenced element is set,
    whatever `mask` holds — for a mask of the masked OR of the unmasked length -/
theorem setitemScalarMask_on_masked_refines {h : Heap} {v mask : View} {idx : List Nat} (w : v.WF (shape h))
    (hw : v.writable = true) (hidx : v.indices = some idx)
    (hlen : mask.length = v.length ∨ mask.length = v.unmaskedLength) (x : Int) :
    ∃ h', setitemScalarMask h v mask x false = .ok h' ∧ shape h' = shape h ∧ Frame v.buf h h' ∧
      v.toList h' = PyList.setEach (v.toList h) (List.range v.length) x := by
  have hm : v.isMasked = true := by simp [View.isMasked, hidx]
  obtain ⟨h', hl, hsh, hfr, htl, _⟩ :=
    store_loop_refines (v := v) id (fun _ => x) (fun _ => true) v.length 0 h w (fun i _ hi _ => by simpa using hi)
  refine ⟨h', ?_, hsh, hfr, ?_⟩
  · unfold setitemScalarMask
    have hmd : matchDimension v mask.length false = .ok v.length := by
      unfold matchDimension
      by_cases h1 : v.length = mask.length
      · simp [h1]
      · rcases hlen with hh | hh
        · exact absurd hh.symm h1
        · simp [hm, hh]
    simp only [hw, Bool.not_true, Bool.false_eq_true, if_false, hmd, hm, if_true, false_and]
    rw [← hl]
    apply forLoop_congr (fun _ => True) _ _ _ _ _ trivial
    · intro i h1 _ hi _
      simp only [storeBody, if_true, View.writeRaw, id, w.rawPtrIndex (by omega : i < v.length) hm]
      rfl
    · intros; trivial
  · rw [htl, foldl_storeSpec_const]
    simp


/-! ## `a[mask] = data` with `len(data) == number of selected elements` (the packed branch) -/

theorem filter_length_index (l : List Int) (p : Int → Bool) :
    (l.filter p).length = ((List.range l.length).filter (fun j => p (l[j]!))).length := by
  have hl : l = (List.range l.length).map (fun j => l[j]!) := by
    apply List.ext_getElem
    · simp
    · intro i h1 h2
      simp [getElem!_def, List.getElem?_eq_getElem h1]
  have h1 : (l.filter p).length = (((List.range l.length).map (fun j => l[j]!)).filter p).length := by rw [← hl]
  rw [h1, List.filter_map, List.length_map]
  rfl

theorem packLoop_refines {v mask data : View} {h : Heap} (wm : mask.WF (shape h)) (wd : data.WF (shape h))
    (hun : v.indices = none) (hnm : mask.buf ≠ v.buf) (hnd : data.buf ≠ v.buf) (hml : mask.length = v.length) :
    ∀ (n i di : Nat) (h1 : Heap), v.WF (shape h1) → shape h1 = shape h →
      h1[mask.buf]? = h[mask.buf]? → h1[data.buf]? = h[data.buf]? → i + n = v.length →
      di + ((List.range' i n).filter (fun j => (mask.toList h)[j]! != 0)).length ≤ data.length →
      ∃ h', packLoop v mask data n i di h1 = .ok h' ∧ shape h' = shape h ∧ Frame v.buf h1 h' ∧
        v.toList h' = PyList.setZip (v.toList h1) ((List.range' i n).filter (fun j => (mask.toList h)[j]! != 0))
          ((data.toList h).drop di) := by
  intro n
  induction n with
  | zero =>
    intro i di h1 _ hsh _ _ _ _
    exact ⟨h1, rfl, hsh, Frame.refl _ _, by simp [PyList.setZip]⟩
  | succ n ih =>
    intro i di h1 w1 hsh hpm hpd hin hcnt
    have hi : i < v.length := by omega
    have him : i < mask.length := by omega
    have hbit : (mask.toList h)[i]! = cellAt h mask.buf (mask.cellPos i) := by
      have := View.toList_getElem? h mask i him
      simp [getElem!_def, this]
    simp only [packLoop]
    rw [View.get_congr hpm, wm.get him]
    simp only
    rw [List.range'_succ, List.filter_cons] at hcnt ⊢
    by_cases hb : (cellAt h mask.buf (mask.cellPos i) != 0) = true
    · have hb' : ((mask.toList h)[i]! != 0) = true := by rw [hbit]; exact hb
      simp only [hb, hb', if_true, List.length_cons] at hcnt ⊢
      have hdi : di < data.length := by omega
      rw [View.get_congr hpd, wd.get hdi]
      simp only
      obtain ⟨h2, hw2, hs2, hf2, ht2, _⟩ := w1.toList_store hi (cellAt h data.buf (data.cellPos di))
      rw [cellPos_unmasked hun] at hw2
      rw [hw2]
      simp only
      have w2 : v.WF (shape h2) := by rw [hs2]; exact w1
      obtain ⟨h', hl, hs', hf', ht'⟩ := ih (i + 1) (di + 1) h2 w2 (hs2.trans hsh)
        (by rw [hf2.2 _ hnm]; exact hpm) (by rw [hf2.2 _ hnd]; exact hpd) (by omega) (by omega)
      refine ⟨h', hl, hs', hf2.trans hf', ?_⟩
      rw [ht', ht2]
      have hdrop : (data.toList h).drop di = cellAt h data.buf (data.cellPos di) :: (data.toList h).drop (di + 1) := by
        have hlt : di < (data.toList h).length := by rw [View.toList_length]; exact hdi
        rw [List.drop_eq_getElem_cons hlt]
        congr 1
        have := View.toList_getElem? h data di hdi
        rw [List.getElem?_eq_getElem hlt] at this
        exact Option.some.inj this
      rw [hdrop]
      simp [PyList.setZip]
    · have hb' : ¬ (((mask.toList h)[i]! != 0) = true) := by rw [hbit]; exact hb
      simp only [hb, hb', Bool.false_eq_true, if_false] at hcnt ⊢
      exact ih (i + 1) di h1 w1 hsh hpm hpd (by omega) (by omega)

/-- **`a[mask] = data` with `len(data) == count(mask)`**: the selected positions receive `data[0], data[1], …` in
    order (`mask`, `data` in other allocations; when `len(data) == len(a)` the other branch applies, see
    `setitem_vector_mask_refines`) -/
theorem setitemVectorMask_packed_refines {h : Heap} {v mask data : View} (w : v.WF (shape h))
    (wm : mask.WF (shape h)) (wd : data.WF (shape h)) (hw : v.writable = true) (hun : v.indices = none)
    (hnm : mask.buf ≠ v.buf) (hnd : data.buf ≠ v.buf) (hlen : mask.length = v.length)
    (hdl : data.length ≠ v.length) (hcnt : data.length = (PyList.maskPositions (mask.toList h)).length) :
    ∃ h', setitemVectorMask h v mask data = .ok h' ∧ shape h' = shape h ∧ Frame v.buf h h' ∧
      v.toList h' = PyList.setMaskPacked (v.toList h) (mask.toList h) (data.toList h) := by
  have hmp : PyList.maskPositions (mask.toList h)
      = (List.range' 0 v.length).filter (fun j => (mask.toList h)[j]! != 0) := by
    unfold PyList.maskPositions
    rw [View.toList_length, hlen, List.range_eq_range']
  obtain ⟨h', hl, hs, hf, ht⟩ := packLoop_refines (v := v) wm wd hun hnm hnd hlen v.length 0 0 h w rfl rfl rfl
    (by omega) (by rw [Nat.zero_add, ← hmp, hcnt]; exact Nat.le_refl _)
  refine ⟨h', ?_, hs, hf, ?_⟩
  · unfold setitemVectorMask
    have hm : v.isMasked = false := by simp [View.isMasked, hun]
    have hmd : matchDimension v mask.length = .ok v.length := by simp [matchDimension, hlen]
    have hcm : countMask h mask v.length = .ok ((mask.toList h).filter (· != 0)).length := by
      unfold countMask
      rw [← hlen, wm.readAll]
    have hce : ((mask.toList h).filter (· != 0)).length = (PyList.maskPositions (mask.toList h)).length := by
      rw [hmp, ← List.range_eq_range', filter_length_index, View.toList_length, hlen]
    simp only [hw, Bool.not_true, Bool.false_eq_true, if_false, hm, hmd, hdl, hcm]
    have : ¬ (data.length ≠ ((mask.toList h).filter (· != 0)).length) := by rw [hce]; simp [hcnt]
    simp only [this, if_false]
    exact hl
  · rw [ht]
    unfold PyList.setMaskPacked
    rw [hmp]
    simp

end ImathVerif.FixedArray
